/-
C07 — Argument and result addresses match the Go compiler's stack layout.
Statements and property theorems about `Model/Layout.lean`.
-/
import AvoVerif.Model.Layout
namespace Avo.Layout

/-! ## Arithmetic of alignment -/

/-- The alignments that occur on amd64. -/
def IsAlign (a : Nat) : Prop := a = 1 ∨ a = 2 ∨ a = 4 ∨ a = 8

theorem alignUp_ge {a : Nat} (h : IsAlign a) (x : Nat) : x ≤ alignUp x a := by
  rcases h with rfl | rfl | rfl | rfl <;> simp only [alignUp] <;> omega

theorem alignUp_lt {a : Nat} (h : IsAlign a) (x : Nat) : alignUp x a < x + a := by
  rcases h with rfl | rfl | rfl | rfl <;> simp only [alignUp] <;> omega

theorem alignUp_mod {a : Nat} (h : IsAlign a) (x : Nat) : alignUp x a % a = 0 := by
  rcases h with rfl | rfl | rfl | rfl <;> simp only [alignUp] <;> omega

theorem alignUp_of_mod {a : Nat} (h : IsAlign a) {x : Nat} (hx : x % a = 0) : alignUp x a = x := by
  rcases h with rfl | rfl | rfl | rfl <;> simp only [alignUp] <;> omega

/-- asmdecl's `-offset & (align-1)` padding is go/types' `align`. -/
theorem asmAlign_eq {a : Nat} (h : IsAlign a) (x : Nat) : asmAlign x a = alignUp x a := by
  rcases h with rfl | rfl | rfl | rfl <;> simp only [alignUp, asmAlign] <;> omega

theorem alignUp_add8 {a : Nat} (h : IsAlign a) {b : Nat} (hb : b % 8 = 0) (x : Nat) :
    alignUp (b + x) a = b + alignUp x a := by
  rcases h with rfl | rfl | rfl | rfl <;> simp only [alignUp] <;> omega

theorem isAlign_max {a b : Nat} (ha : IsAlign a) (hb : IsAlign b) : IsAlign (Nat.max a b) := by
  rcases ha with rfl | rfl | rfl | rfl <;> rcases hb with rfl | rfl | rfl | rfl <;> simp [IsAlign]

/-! ## Facts about the gc layout -/

mutual
theorem alignof_isAlign : (t : Ty) → IsAlign (alignof t)
  | .basic b => by cases b <;> simp [alignof, Basic.align, Basic.size, IsAlign]
  | .ptr _ => by simp [alignof, IsAlign]
  | .slice _ => by simp [alignof, IsAlign]
  | .array _ e => by simp only [alignof]; exact alignof_isAlign e
  | .struct fs => by simp only [alignof]; exact fieldsAlign_isAlign fs
  | .named _ u => by simp only [alignof]; exact alignof_isAlign u
  | .other _ => by simp [alignof, IsAlign]
theorem fieldsAlign_isAlign : (fs : Fields) → IsAlign (fieldsAlign fs)
  | .nil => by simp [fieldsAlign, IsAlign]
  | .cons _ t r => by
    simp only [fieldsAlign]
    exact isAlign_max (alignof_isAlign t) (fieldsAlign_isAlign r)
end

/-- Every size is a multiple of the type's alignment. -/
theorem sizeof_mod_alignof : (t : Ty) → sizeof t % alignof t = 0
  | .basic b => by cases b <;> simp [sizeof, alignof, Basic.align, Basic.size]
  | .ptr _ => by simp [sizeof, alignof]
  | .slice _ => by simp [sizeof, alignof]
  | .array n e => by
    simp only [sizeof, alignof]
    have ih := sizeof_mod_alignof e
    obtain ⟨k, hk⟩ := Nat.dvd_of_mod_eq_zero ih
    rw [hk, ← Nat.mul_assoc, Nat.mul_comm n, Nat.mul_assoc]
    exact Nat.mul_mod_right _ _
  | .struct fs => by
    simp only [sizeof, alignof]
    exact alignUp_mod (fieldsAlign_isAlign fs) _
  | .named _ u => by simp only [sizeof, alignof]; exact sizeof_mod_alignof u
  | .other k => by cases k <;> simp [sizeof, alignof, Other.size]

theorem sizeof_under : (t : Ty) → sizeof t.under = sizeof t
  | .named _ u => by simp only [Ty.under, sizeof]; exact sizeof_under u
  | .basic _ | .ptr _ | .slice _ | .array .. | .struct _ | .other _ => by simp [Ty.under]

theorem alignof_under : (t : Ty) → alignof t.under = alignof t
  | .named _ u => by simp only [Ty.under, alignof]; exact alignof_under u
  | .basic _ | .ptr _ | .slice _ | .array .. | .struct _ | .other _ => by simp [Ty.under]

theorem under_not_named : (t : Ty) → ∀ n u, t.under ≠ .named n u
  | .named _ u => by simp only [Ty.under]; exact under_not_named u
  | .basic _ | .ptr _ | .slice _ | .array .. | .struct _ | .other _ => by simp [Ty.under]

theorem under_under (t : Ty) : t.under.under = t.under := by
  cases h : t.under with
  | named n u => exact absurd h (under_not_named t n u)
  | _ => simp [Ty.under]

theorem fieldsEnd_ge : (fs : Fields) → ∀ offs, offs ≤ fieldsEnd fs offs
  | .nil, offs => by simp [fieldsEnd]
  | .cons _ t r, offs => by
    simp only [fieldsEnd]
    have h1 := alignUp_ge (alignof_isAlign t) offs
    split
    · split <;> omega
    · have := fieldsEnd_ge r (alignUp offs (alignof t) + sizeof t); omega

/-- A field found by `Field` lies between the running offset and the end of the fields. -/
theorem fieldAt_bound : (fs : Fields) → ∀ name run o t, fieldAt fs name run = some (o, t) →
    run ≤ o ∧ o + sizeof t ≤ fieldsEnd fs run
  | .nil, _, _, _, _, h => by simp [fieldAt] at h
  | .cons n ft r, name, run, o, t, h => by
    simp only [fieldAt] at h
    have h1 := alignUp_ge (alignof_isAlign ft) run
    simp only [fieldsEnd]
    split at h
    · simp only [Option.some.injEq, Prod.mk.injEq] at h
      obtain ⟨rfl, rfl⟩ := h
      refine ⟨h1, ?_⟩
      split
      · split <;> omega
      · have := fieldsEnd_ge r (alignUp run (alignof ft) + sizeof ft); omega
    · have ih := fieldAt_bound r name _ o t h
      cases r with
      | nil => simp [fieldAt] at h
      | cons n2 t2 r2 =>
        simp only [Fields.isNil, Bool.false_eq_true, if_false]
        omega

theorem field_inside {fs : Fields} {name : Name} {o : Nat} {t : Ty} (h : fieldAt fs name 0 = some (o, t)) :
    o + sizeof t ≤ sizeof (.struct fs) := by
  have h1 := (fieldAt_bound fs name 0 o t h).2
  have h2 := alignUp_ge (fieldsAlign_isAlign fs) (fieldsEnd fs 0)
  simp only [sizeof]; omega

theorem elemSize_eq (e : Ty) : elemSize e = sizeof e := by
  simp only [elemSize, sizeof]; omega

theorem asmElemOff_eq (e : Ty) : asmElemOff e = sizeof e := by
  have h := alignUp_of_mod (alignof_isAlign e) (sizeof_mod_alignof e)
  have h0 : alignUp 0 (alignof e) = 0 := alignUp_of_mod (alignof_isAlign e) (Nat.zero_mod _)
  simp [asmElemOff, offsetsFrom, h0, h]

theorem sliceHdrOffsets_eq : sliceHdrOffsets = [0, 8, 16] := by decide

/-! ## Facts about the asmdecl component list -/

theorem comps_under : (t : Ty) → ∀ suf off, comps t.under suf off = comps t suf off
  | .named _ u => by intro suf off; simp only [Ty.under, comps]; exact comps_under u suf off
  | .basic _ | .ptr _ | .slice _ | .array .. | .struct _ | .other _ => by simp [Ty.under]

theorem asmKind_under : (t : Ty) → asmKind t.under = asmKind t
  | .named _ u => by simp only [Ty.under, asmKind]; exact asmKind_under u
  | .basic _ | .ptr _ | .slice _ | .array .. | .struct _ | .other _ => by simp [Ty.under]

/-- The first component of a type is the type itself. -/
theorem comps_head : (t : Ty) → ∀ suf off, (⟨suf, asmKind t, off, sizeof t⟩ : AsmComp) ∈ comps t suf off
  | .basic b => by intro suf off; simp [comps, sizeof]
  | .ptr _ => by intro suf off; simp [comps, sizeof, asmKind]
  | .slice _ => by intro suf off; simp [comps, sizeof, asmKind]
  | .array .. => by intro suf off; simp [comps, asmKind]
  | .struct _ => by intro suf off; simp [comps, asmKind]
  | .named _ u => by intro suf off; simp only [comps, asmKind, sizeof]; exact comps_head u suf off
  | .other k => by intro suf off; simp [comps, sizeof]

theorem fieldAt_comps : (fs : Fields) → ∀ name run o t suf off, fieldAt fs name run = some (o, t) →
    ∀ x ∈ comps t (suf ++ '_' :: name) (off + o), x ∈ compsFields fs suf off run
  | .nil, _, _, _, _, _, _, h => by simp [fieldAt] at h
  | .cons n ft r, name, run, o, t, suf, off, h => by
    intro x hx
    simp only [fieldAt] at h
    simp only [compsFields, List.mem_append]
    split at h
    · rename_i hn
      simp only [Option.some.injEq, Prod.mk.injEq] at h
      obtain ⟨rfl, rfl⟩ := h
      subst hn
      exact Or.inl hx
    · exact Or.inr (fieldAt_comps r name _ o t suf off h x hx)

theorem fieldAt_fieldTy : (fs : Fields) → ∀ name run o t, fieldAt fs name run = some (o, t) → fieldTy fs name = some t
  | .nil, _, _, _, _, h => by simp [fieldAt] at h
  | .cons n ft r, name, run, o, t, h => by
    simp only [fieldAt] at h
    simp only [fieldTy]
    split at h
    · rename_i hn
      simp only [Option.some.injEq, Prod.mk.injEq] at h
      simp [hn, h.2]
    · rename_i hn
      simp only [hn, if_false]
      exact fieldAt_fieldTy r name _ o t h

theorem fieldTy_fieldAt : (fs : Fields) → ∀ name run t, fieldTy fs name = some t → ∃ o, fieldAt fs name run = some (o, t)
  | .nil, _, _, _, h => by simp [fieldTy] at h
  | .cons n ft r, name, run, t, h => by
    simp only [fieldTy] at h
    simp only [fieldAt]
    split at h
    · rename_i hn
      simp only [Option.some.injEq] at h
      exact ⟨alignUp run (alignof ft), by simp [hn, h]⟩
    · rename_i hn
      simp only [hn, if_false]
      exact fieldTy_fieldAt r name _ t h

theorem fieldAt_none_of_fieldTy : (fs : Fields) → ∀ name run, fieldTy fs name = none → fieldAt fs name run = none
  | .nil, _, _, _ => by simp [fieldAt]
  | .cons n ft r, name, run, h => by
    simp only [fieldTy] at h
    simp only [fieldAt]
    split at h
    · simp at h
    · rename_i hn
      simp only [hn, if_false]
      exact fieldAt_none_of_fieldTy r name _ h

/-! ## One navigation step -/

theorem sub_addr (c : Comp) (sfx : Name) (off : Int) (t : Ty) :
    (c.sub sfx off t).addr = ⟨if c.addr.sym = [] then [] else c.addr.sym ++ sfx, c.addr.disp + off, c.addr.base⟩ := rfl

theorem sub_ty (c : Comp) (sfx : Name) (off : Int) (t : Ty) : (c.sub sfx off t).ty = t := rfl

/-- What a successful non-`Dereference` step does, in the toolchain's terms:
the symbol gets the component's asmdecl suffix, the displacement grows by an
offset `d` such that the selected component (a) is the one the Go type has for
that step, (b) lies inside the parent and (c) is, with all its own
sub-components, in the parent's asmdecl component list. -/
theorem step_spec (c c' : Comp) (s : Step) (hs : s.isDeref = false) (h : c.step s = .ok c') :
    ∃ d : Nat,
      c'.addr = ⟨if c.addr.sym = [] then [] else c.addr.sym ++ s.suffix, c.addr.disp + (d : Int), c.addr.base⟩ ∧
      stepTy c.ty s = some c'.ty ∧ d + sizeof c'.ty ≤ sizeof c.ty ∧
      ∀ suf off, ∀ x ∈ comps c'.ty (suf ++ s.suffix) (off + d), x ∈ comps c.ty suf off := by
  have hsz := sizeof_under c.ty
  have hcu := comps_under c.ty
  cases s with
  | deref r => simp [Step.isDeref] at hs
  | base =>
    simp only [Comp.step, Comp.stepWith, sliceHdrOffsets_eq] at h
    split at h
    · rename_i hk
      injection h with h; subst h
      refine ⟨0, by simp [sub_addr, Step.suffix], ?_⟩
      cases hu : c.ty.under <;> simp [isSlice, isString, hu] at hk
      · rename_i b; cases b <;> simp at hk
        refine ⟨by simp [stepTy, hu, sub_ty], by rw [← hsz, hu]; simp [sub_ty, sizeof, Basic.size], ?_⟩
        intro suf off x hx
        rw [← hcu, hu]
        simp [sub_ty, comps, asmKind, Basic.size, Step.suffix] at hx ⊢
        simp [hx]
      · refine ⟨by simp [stepTy, hu, sub_ty], by rw [← hsz, hu]; simp [sub_ty, sizeof, Basic.size], ?_⟩
        intro suf off x hx
        rw [← hcu, hu]
        simp [sub_ty, comps, asmKind, Basic.size, Step.suffix] at hx ⊢
        simp [hx]
    · simp at h
  | len =>
    simp only [Comp.step, Comp.stepWith, sliceHdrOffsets_eq] at h
    split at h
    · rename_i hk
      injection h with h; subst h
      refine ⟨8, by simp [sub_addr, Step.suffix], ?_⟩
      cases hu : c.ty.under <;> simp [isSlice, isString, hu] at hk
      · rename_i b; cases b <;> simp at hk
        refine ⟨by simp [stepTy, hu, sub_ty], by rw [← hsz, hu]; simp [sub_ty, sizeof, Basic.size], ?_⟩
        intro suf off x hx
        rw [← hcu, hu]
        simp [sub_ty, comps, asmKind, Basic.size, Step.suffix] at hx ⊢
        simp [hx]
      · refine ⟨by simp [stepTy, hu, sub_ty], by rw [← hsz, hu]; simp [sub_ty, sizeof, Basic.size], ?_⟩
        intro suf off x hx
        rw [← hcu, hu]
        simp [sub_ty, comps, asmKind, Basic.size, Step.suffix] at hx ⊢
        simp [hx]
    · simp at h
  | cap =>
    simp only [Comp.step, Comp.stepWith, sliceHdrOffsets_eq] at h
    split at h
    · rename_i hk
      injection h with h; subst h
      refine ⟨16, by simp [sub_addr, Step.suffix], ?_⟩
      cases hu : c.ty.under <;> simp [isSlice, hu] at hk
      refine ⟨by simp [stepTy, hu, sub_ty], by rw [← hsz, hu]; simp [sub_ty, sizeof, Basic.size], ?_⟩
      intro suf off x hx
      rw [← hcu, hu]
      simp [sub_ty, comps, asmKind, Basic.size, Step.suffix] at hx ⊢
      simp [hx, Nat.add_assoc]
    · simp at h
  | real =>
    simp only [Comp.step, Comp.stepWith] at h
    split at h
    · rename_i f hk
      injection h with h; subst h
      refine ⟨0, by simp [sub_addr, Step.suffix], ?_⟩
      cases hu : c.ty.under <;> simp [complexPart, hu] at hk
      rename_i b
      cases b <;> simp at hk <;> subst hk
      all_goals
        refine ⟨by simp [stepTy, hu, sub_ty], by rw [← hsz, hu]; simp [sub_ty, sizeof, Basic.size], ?_⟩
        intro suf off x hx
        rw [← hcu, hu]
        simp [sub_ty, comps, asmKind, Basic.size, Step.suffix] at hx ⊢
        simp [hx]
    · simp at h
  | imag =>
    simp only [Comp.step, Comp.stepWith] at h
    split at h
    · rename_i f hk
      injection h with h; subst h
      refine ⟨f.size, by simp [sub_addr, Step.suffix], ?_⟩
      cases hu : c.ty.under <;> simp [complexPart, hu] at hk
      rename_i b
      cases b <;> simp at hk <;> subst hk
      all_goals
        refine ⟨by simp [stepTy, hu, sub_ty], by rw [← hsz, hu]; simp [sub_ty, sizeof, Basic.size], ?_⟩
        intro suf off x hx
        rw [← hcu, hu]
        simp [sub_ty, comps, asmKind, Basic.size, Step.suffix] at hx ⊢
        simp [hx]
    · simp at h
  | index i =>
    simp only [Comp.step, Comp.stepWith, Comp.index] at h
    cases hu : c.ty.under <;> simp only [hu] at h <;> try (simp at h; done)
    rename_i n e
    split at h
    · simp at h
    · rename_i hk
      injection h with h; subst h
      simp only [Bool.true_and, Bool.or_eq_true, decide_eq_true_eq, not_or, Int.not_lt, Int.not_le] at hk
      obtain ⟨k, rfl⟩ := Int.eq_ofNat_of_zero_le hk.1
      have hkn : k < n := by omega
      refine ⟨k * sizeof e, by simp [sub_addr, Step.suffix, elemSize_eq], ?_, ?_, ?_⟩
      · simp [stepTy, hu, sub_ty, hkn]
      · rw [← hsz, hu]
        simp only [sub_ty, sizeof]
        have : (k + 1) * sizeof e ≤ n * sizeof e := Nat.mul_le_mul_right _ hkn
        rw [Nat.add_mul] at this; omega
      · intro suf off x hx
        rw [← hcu, hu]
        simp only [comps, List.mem_cons, List.mem_flatMap, List.mem_range]
        refine Or.inr ⟨k, hkn, ?_⟩
        simpa [sub_ty, Step.suffix, itoa, asmElemOff_eq] using hx
  | field name =>
    simp only [Comp.step, Comp.stepWith] at h
    cases hu : c.ty.under <;> simp only [hu] at h <;> try (simp at h; done)
    rename_i fs
    split at h
    · rename_i o t hf
      injection h with h; subst h
      refine ⟨o, by simp [sub_addr, Step.suffix], ?_, ?_, ?_⟩
      · simp [stepTy, hu, sub_ty, fieldAt_fieldTy fs name 0 o t hf]
      · rw [← hsz, hu]; exact field_inside hf
      · intro suf off x hx
        rw [← hcu, hu]
        simp only [comps, List.mem_cons]
        exact Or.inr (fieldAt_comps fs name 0 o t suf off hf x (by simpa [sub_ty, Step.suffix] using hx))
    · simp at h

theorem fieldAt_fieldsNamed : (fs : Fields) → ∀ name run o t, fieldAt fs name run = some (o, t) →
    (o, t) ∈ fieldsNamed fs name run
  | .nil, _, _, _, _, h => by simp [fieldAt] at h
  | .cons n ft r, name, run, o, t, h => by
    simp only [fieldAt] at h
    simp only [fieldsNamed, List.mem_append]
    split at h
    · rename_i hn
      simp only [Option.some.injEq, Prod.mk.injEq] at h
      obtain ⟨rfl, rfl⟩ := h
      left; simp [hn]
    · exact Or.inr (fieldAt_fieldsNamed r name _ o t h)

/-- The offset a successful non-`Dereference` step adds is the offset of a
component the step denotes in the toolchain's tree (`stepComps`), with the
component's Go type: the offset is pinned, not only the flattened name. -/
theorem step_in_stepComps (c c' : Comp) (s : Step) (hs : s.isDeref = false) (h : c.step s = .ok c') :
    ∃ d : Nat, c'.addr.disp = c.addr.disp + (d : Int) ∧ (d, c'.ty) ∈ stepComps c.ty s := by
  cases s with
  | deref r => simp [Step.isDeref] at hs
  | base =>
    simp only [Comp.step, Comp.stepWith, sliceHdrOffsets_eq] at h
    split at h
    · rename_i hk
      injection h with h; subst h
      refine ⟨0, by simp [sub_addr], ?_⟩
      cases hu : c.ty.under <;> simp [isSlice, isString, hu] at hk
      · rename_i b; cases b <;> simp at hk
        simp [stepComps, hu, sub_ty]
      · simp [stepComps, hu, sub_ty]
    · simp at h
  | len =>
    simp only [Comp.step, Comp.stepWith, sliceHdrOffsets_eq] at h
    split at h
    · rename_i hk
      injection h with h; subst h
      refine ⟨8, by simp [sub_addr], ?_⟩
      cases hu : c.ty.under <;> simp [isSlice, isString, hu] at hk
      · rename_i b; cases b <;> simp at hk
        simp [stepComps, hu, sub_ty]
      · simp [stepComps, hu, sub_ty]
    · simp at h
  | cap =>
    simp only [Comp.step, Comp.stepWith, sliceHdrOffsets_eq] at h
    split at h
    · rename_i hk
      injection h with h; subst h
      refine ⟨16, by simp [sub_addr], ?_⟩
      cases hu : c.ty.under <;> simp [isSlice, hu] at hk
      simp [stepComps, hu, sub_ty]
    · simp at h
  | real =>
    simp only [Comp.step, Comp.stepWith] at h
    split at h
    · rename_i f hk
      injection h with h; subst h
      refine ⟨0, by simp [sub_addr], ?_⟩
      cases hu : c.ty.under <;> simp [complexPart, hu] at hk
      rename_i b
      cases b <;> simp at hk <;> subst hk <;> simp [stepComps, hu, sub_ty]
    · simp at h
  | imag =>
    simp only [Comp.step, Comp.stepWith] at h
    split at h
    · rename_i f hk
      injection h with h; subst h
      refine ⟨f.size, by simp [sub_addr], ?_⟩
      cases hu : c.ty.under <;> simp [complexPart, hu] at hk
      rename_i b
      cases b <;> simp at hk <;> subst hk <;> simp [stepComps, hu, sub_ty, Basic.size]
    · simp at h
  | index i =>
    simp only [Comp.step, Comp.stepWith, Comp.index] at h
    cases hu : c.ty.under <;> simp only [hu] at h <;> try (simp at h; done)
    rename_i n e
    split at h
    · simp at h
    · rename_i hk
      injection h with h; subst h
      simp only [Bool.true_and, Bool.or_eq_true, decide_eq_true_eq, not_or, Int.not_lt, Int.not_le] at hk
      obtain ⟨k, rfl⟩ := Int.eq_ofNat_of_zero_le hk.1
      have hkn : k < n := by omega
      refine ⟨k * sizeof e, by simp [sub_addr, elemSize_eq], ?_⟩
      simp [stepComps, hu, sub_ty, hkn, asmElemOff_eq]
  | field name =>
    simp only [Comp.step, Comp.stepWith] at h
    cases hu : c.ty.under <;> simp only [hu] at h <;> try (simp at h; done)
    rename_i fs
    split at h
    · rename_i o t hf
      injection h with h; subst h
      refine ⟨o, by simp [sub_addr], ?_⟩
      simp only [stepComps, hu, sub_ty]
      exact fieldAt_fieldsNamed fs name 0 o t hf
    · simp at h

/-- `Dereference`: a fresh address, no symbol, displacement 0, based on the
register; the component has the pointee type. -/
theorem deref_spec (c c' : Comp) (r : Name) (h : c.step (.deref r) = .ok c') :
    c'.addr = ⟨[], 0, .reg r⟩ ∧ stepTy c.ty (.deref r) = some c'.ty := by
  simp only [Comp.step, Comp.stepWith] at h
  cases hu : c.ty.under <;> simp only [hu] at h <;> try (simp at h; done)
  injection h with h; subst h
  simp [stepTy, hu]

theorem step_ty (c c' : Comp) (s : Step) (h : c.step s = .ok c') : stepTy c.ty s = some c'.ty := by
  cases hs : s.isDeref
  · obtain ⟨d, _, h2, _⟩ := step_spec c c' s hs h; exact h2
  · cases s <;> simp [Step.isDeref] at hs
    exact (deref_spec c c' _ h).2

/-- A step that does not exist in the Go type (index outside `[0,len)`, missing
field, wrong kind of type) is an error. -/
theorem step_error_of_none (c : Comp) (s : Step) (h : stepTy c.ty s = none) : ∃ e, c.step s = .error e := by
  cases hc : c.step s with
  | error e => exact ⟨e, rfl⟩
  | ok c' => rw [step_ty c c' s hc] at h; simp at h

/-- A step that exists in the Go type succeeds and selects that type. -/
theorem step_ok_of_some (c : Comp) (s : Step) (t : Ty) (h : stepTy c.ty s = some t) :
    ∃ c', c.step s = .ok c' ∧ c'.ty = t := by
  cases hc : c.step s with
  | ok c' =>
    have := step_ty c c' s hc
    rw [h] at this; injection this with this
    exact ⟨c', rfl, this.symm⟩
  | error e =>
    exfalso
    cases s with
    | base =>
      cases hu : c.ty.under <;> simp [stepTy, hu] at h
      · rename_i b; cases b <;> simp at h
        simp [Comp.step, Comp.stepWith, isString, isSlice, hu] at hc
      · simp [Comp.step, Comp.stepWith, isString, isSlice, hu] at hc
    | len =>
      cases hu : c.ty.under <;> simp [stepTy, hu] at h
      · rename_i b; cases b <;> simp at h
        simp [Comp.step, Comp.stepWith, isString, isSlice, hu] at hc
      · simp [Comp.step, Comp.stepWith, isString, isSlice, hu] at hc
    | cap =>
      cases hu : c.ty.under <;> simp [stepTy, hu] at h
      simp [Comp.step, Comp.stepWith, isSlice, hu] at hc
    | real =>
      cases hu : c.ty.under <;> simp [stepTy, hu] at h
      rename_i b; cases b <;> simp at h
      all_goals simp [Comp.step, Comp.stepWith, complexPart, hu] at hc
    | imag =>
      cases hu : c.ty.under <;> simp [stepTy, hu] at h
      rename_i b; cases b <;> simp at h
      all_goals simp [Comp.step, Comp.stepWith, complexPart, hu] at hc
    | index i =>
      cases hu : c.ty.under <;> simp [stepTy, hu] at h
      rename_i n e
      obtain ⟨⟨h0, hn⟩, _⟩ := h
      simp [Comp.step, Comp.stepWith, Comp.index, hu] at hc
      rw [if_neg (by omega)] at hc
      simp at hc
    | field name =>
      cases hu : c.ty.under <;> simp [stepTy, hu] at h
      rename_i fs
      obtain ⟨o, ho⟩ := fieldTy_fieldAt fs name 0 t h
      simp [Comp.step, Comp.stepWith, hu, ho] at hc
    | deref r =>
      cases hu : c.ty.under <;> simp [stepTy, hu] at h
      simp [Comp.step, Comp.stepWith, hu] at hc

/-! ## Paths -/

theorem navigate_nil (c : Comp) : navigate c [] = .ok c := rfl

theorem navigate_cons (c : Comp) (s : Step) (ss : List Step) :
    navigate c (s :: ss) = (match c.step s with
      | .ok c' => navigate c' ss
      | .error e => .error e) := rfl

/-- The first error sticks: once a step fails, the whole chain is that error. -/
theorem error_sticks (c : Comp) (s : Step) (ss : List Step) (e : Err) (h : c.step s = .error e) :
    navigate c (s :: ss) = .error e := by
  simp [navigate_cons, h]

theorem navigate_append (c : Comp) (p q : List Step) :
    navigate c (p ++ q) = (match navigate c p with
      | .ok c' => navigate c' q
      | .error e => .error e) := by
  induction p generalizing c with
  | nil => simp [navigate_nil]
  | cons s ss ih =>
    simp only [List.cons_append, navigate_cons]
    cases c.step s with
    | ok c' => exact ih c'
    | error e => rfl

theorem navigate_pathTy (c c' : Comp) (path : List Step) (h : navigate c path = .ok c') :
    pathTy c.ty path = some c'.ty := by
  induction path generalizing c with
  | nil => simp [navigate_nil] at h; simp [pathTy, h]
  | cons s ss ih =>
    rw [navigate_cons] at h
    cases hc : c.step s with
    | error e => simp [hc] at h
    | ok c1 =>
      simp only [hc] at h
      simp only [pathTy, step_ty c c1 s hc]
      exact ih c1 h

/-- A path that does not exist in the Go type is an error. -/
theorem navigate_error_of_none (c : Comp) (path : List Step) (h : pathTy c.ty path = none) :
    ∃ e, navigate c path = .error e := by
  cases hc : navigate c path with
  | error e => exact ⟨e, rfl⟩
  | ok c' => rw [navigate_pathTy c c' path hc] at h; simp at h

/-- A path that exists in the Go type is navigable and ends at that type. -/
theorem navigate_ok_of_some (c : Comp) (path : List Step) (t : Ty) (h : pathTy c.ty path = some t) :
    ∃ c', navigate c path = .ok c' ∧ c'.ty = t := by
  induction path generalizing c with
  | nil => simp [pathTy] at h; exact ⟨c, rfl, h⟩
  | cons s ss ih =>
    simp only [pathTy] at h
    cases hs : stepTy c.ty s with
    | none => simp [hs] at h
    | some t1 =>
      simp only [hs] at h
      obtain ⟨c1, hc1, ht1⟩ := step_ok_of_some c s t1 hs
      obtain ⟨c', hc', ht'⟩ := ih c1 (by rw [ht1]; exact h)
      exact ⟨c', by simp [navigate_cons, hc1, hc'], ht'⟩

theorem pathSuffix_cons (s : Step) (ss : List Step) : pathSuffix (s :: ss) = s.suffix ++ pathSuffix ss := by
  simp [pathSuffix]

/-- **Navigation along a `Dereference`-free path**, in the toolchain's terms. -/
theorem navigate_spec (root c' : Comp) (path : List Step) (hdf : ∀ s ∈ path, s.isDeref = false)
    (h : navigate root path = .ok c') :
    ∃ d : Nat,
      c'.addr = ⟨if root.addr.sym = [] then [] else root.addr.sym ++ pathSuffix path,
                 root.addr.disp + (d : Int), root.addr.base⟩ ∧
      pathTy root.ty path = some c'.ty ∧ d + sizeof c'.ty ≤ sizeof root.ty ∧
      ∀ suf off, ∀ x ∈ comps c'.ty (suf ++ pathSuffix path) (off + d), x ∈ comps root.ty suf off := by
  induction path generalizing root with
  | nil =>
    simp [navigate_nil] at h; subst h
    refine ⟨0, ?_, by simp [pathTy], by simp, by simp [pathSuffix]⟩
    cases hr : root.addr with
    | mk sym disp base => by_cases hs : sym = [] <;> simp [hs, pathSuffix]
  | cons s ss ih =>
    rw [navigate_cons] at h
    cases hc : root.step s with
    | error e => simp [hc] at h
    | ok c1 =>
      simp only [hc] at h
      obtain ⟨d1, ha1, ht1, hi1, hc1⟩ := step_spec root c1 s (hdf s (by simp)) hc
      obtain ⟨d2, ha2, ht2, hi2, hc2⟩ := ih c1 (fun x hx => hdf x (by simp [hx])) h
      refine ⟨d1 + d2, ?_, ?_, by omega, ?_⟩
      · rw [ha2, ha1, pathSuffix_cons]
        by_cases hs : root.addr.sym = []
        · simp [hs, Int.add_assoc]
        · simp [hs, Int.add_assoc]
      · simp only [pathTy, ht1]; exact ht2
      · intro suf off x hx
        apply hc1 suf off
        apply hc2 (suf ++ s.suffix) (off + d1)
        simpa [pathSuffix_cons, Nat.add_assoc] using hx

/-- **Navigation pins the offset**: the displacement added along a
`Dereference`-free path is the offset of a component the path denotes in the
toolchain's tree for the root type. -/
theorem navigate_in_pathComps (root c' : Comp) (path : List Step) (hdf : ∀ s ∈ path, s.isDeref = false)
    (h : navigate root path = .ok c') :
    ∃ d : Nat, c'.addr.disp = root.addr.disp + (d : Int) ∧ (d, c'.ty) ∈ pathComps root.ty path := by
  induction path generalizing root with
  | nil =>
    simp [navigate_nil] at h; subst h
    exact ⟨0, by simp, by simp [pathComps]⟩
  | cons s ss ih =>
    rw [navigate_cons] at h
    cases hc : root.step s with
    | error e => simp [hc] at h
    | ok c1 =>
      simp only [hc] at h
      obtain ⟨d1, ha1, hm1⟩ := step_in_stepComps root c1 s (hdf s (by simp)) hc
      obtain ⟨d2, ha2, hm2⟩ := ih c1 (fun x hx => hdf x (by simp [hx])) h
      refine ⟨d1 + d2, by rw [ha2, ha1]; simp [Int.add_assoc], ?_⟩
      simp only [pathComps, List.mem_flatMap, List.mem_map]
      exact ⟨(d1, c1.ty), hm1, (d2, c'.ty), hm2, rfl⟩

theorem splitLastDeref_none : (path : List Step) → splitLastDeref path = none → ∀ s ∈ path, s.isDeref = false
  | [], _ => by simp
  | s :: ss, h => by
    simp only [splitLastDeref] at h
    cases hr : splitLastDeref ss with
    | some v => obtain ⟨pre, r, post⟩ := v; simp [hr] at h
    | none =>
      simp only [hr] at h
      intro x hx
      rcases List.mem_cons.mp hx with rfl | hx
      · cases x <;> simp [Step.isDeref] at h ⊢
      · exact splitLastDeref_none ss hr x hx

theorem splitLastDeref_some : (path : List Step) → ∀ pre r post, splitLastDeref path = some (pre, r, post) →
    path = pre ++ .deref r :: post ∧ ∀ s ∈ post, s.isDeref = false
  | [], _, _, _, h => by simp [splitLastDeref] at h
  | s :: ss, pre, r, post, h => by
    simp only [splitLastDeref] at h
    cases hr : splitLastDeref ss with
    | some v =>
      obtain ⟨pre', r', post'⟩ := v
      simp only [hr, Option.some.injEq, Prod.mk.injEq] at h
      obtain ⟨rfl, rfl, rfl⟩ := h
      obtain ⟨h1, h2⟩ := splitLastDeref_some ss pre' r' post' hr
      exact ⟨by simp [h1], h2⟩
    | none =>
      simp only [hr] at h
      cases s <;> simp at h
      obtain ⟨rfl, rfl, rfl⟩ := h
      exact ⟨by simp, splitLastDeref_none _ hr⟩

/-! ## `Signature.init` against asmdecl's `addParams` -/

/-- `newTuple` over `Offsetsof`, fused into one recursion. -/
def tupleFrom : List (Name × Ty) → Nat → Nat → Name → List (Name × Comp)
  | [], _, _, _ => []
  | (n, t) :: vs, off, i, pfx =>
    (n, { ty := t, addr := { sym := if n = [] then defaultName pfx i else n,
                             disp := (alignUp off (alignof t) : Nat), base := .fp } })
      :: tupleFrom vs (alignUp off (alignof t) + sizeof t) (i + 1) pfx

theorem mkComps_offsetsFrom (vs : List (Name × Ty)) (extra : List Ty) (off i : Nat) (pfx : Name) :
    mkComps vs (offsetsFrom (tys vs ++ extra) off) i pfx = tupleFrom vs off i pfx := by
  induction vs generalizing off i with
  | nil => cases h : offsetsFrom (tys [] ++ extra) off <;> simp [mkComps, tupleFrom]
  | cons v vs ih =>
    obtain ⟨n, t⟩ := v
    simp only [tys, List.map_cons, List.cons_append, offsetsFrom, mkComps, tupleFrom]
    congr 1
    exact ih _ _

theorem tys_append (a b : List (Name × Ty)) : tys (a ++ b) = tys a ++ tys b := by simp [tys]

theorem tupleFrom_append (a b : List (Name × Ty)) (off i : Nat) (pfx : Name) :
    tupleFrom (a ++ b) off i pfx =
      tupleFrom a off i pfx ++ tupleFrom b (endFrom (tys a) off) (i + a.length) pfx := by
  induction a generalizing off i with
  | nil => simp [tupleFrom, endFrom, tys]
  | cons v vs ih =>
    obtain ⟨n, t⟩ := v
    simp only [List.cons_append, tupleFrom, tys, List.map_cons, endFrom, List.length_cons]
    rw [ih]
    simp [tys, Nat.add_assoc, Nat.add_comm 1]

theorem endFrom_append (a b : List Ty) (off : Nat) : endFrom (a ++ b) off = endFrom b (endFrom a off) := by
  induction a generalizing off with
  | nil => simp [endFrom]
  | cons t ts ih => simp [endFrom, ih]

theorem offsetsFrom_length (ts : List Ty) (off : Nat) : (offsetsFrom ts off).length = ts.length := by
  induction ts generalizing off with
  | nil => simp [offsetsFrom]
  | cons t ts ih => simp [offsetsFrom, ih]

/-- The sentinel trick: the offset of one more variable appended to the list is
the end of the list rounded up to that variable's alignment. -/
theorem offsetsFrom_sentinel (ts : List Ty) (t : Ty) (off : Nat) :
    (offsetsFrom (ts ++ [t]) off).getD ts.length 0 = alignUp (endFrom ts off) (alignof t) := by
  induction ts generalizing off with
  | nil => simp [offsetsFrom, endFrom]
  | cons u us ih => simpa [offsetsFrom, endFrom] using ih _

theorem structSize_aux (ts : List Ty) (t : Ty) (off : Nat) :
    ∃ o, (offsetsFrom (t :: ts) off).getLast? = some o ∧
      ∃ l, (t :: ts).getLast? = some l ∧ o + sizeof l = endFrom (t :: ts) off := by
  induction ts generalizing t off with
  | nil => simp [offsetsFrom, endFrom]
  | cons u us ih =>
    obtain ⟨o, ho, l, hl, he⟩ := ih u (alignUp off (alignof t) + sizeof t)
    refine ⟨o, ?_, l, ?_, ?_⟩
    · simp only [offsetsFrom] at ho ⊢
      rw [List.getLast?_cons_cons]; exact ho
    · rw [List.getLast?_cons_cons]; exact hl
    · simpa [endFrom] using he

/-- `structsize` is the end of the list laid out from 0. -/
theorem structSize_eq (ts : List Ty) : structSize ts = endFrom ts 0 := by
  cases ts with
  | nil => simp [structSize, offsetsFrom, endFrom]
  | cons t ts =>
    obtain ⟨o, ho, l, hl, he⟩ := structSize_aux ts t 0
    simp only [structSize, ho, hl]; exact he

theorem add_mod_zero {a : Nat} (h : IsAlign a) {x y : Nat} (hx : x % a = 0) (hy : y % a = 0) : (x + y) % a = 0 := by
  rcases h with rfl | rfl | rfl | rfl <;> omega

theorem offsetsFrom_add8 (ts : List Ty) {b : Nat} (hb : b % 8 = 0) (off : Nat) :
    offsetsFrom ts (b + off) = (offsetsFrom ts off).map (· + b) := by
  induction ts generalizing off with
  | nil => simp [offsetsFrom]
  | cons t ts ih =>
    simp only [offsetsFrom, List.map_cons, alignUp_add8 (alignof_isAlign t) hb]
    rw [Nat.add_assoc, ih]
    simp [Nat.add_comm]

theorem endFrom_add8 (ts : List Ty) {b : Nat} (hb : b % 8 = 0) (off : Nat) :
    endFrom ts (b + off) = b + endFrom ts off := by
  induction ts generalizing off with
  | nil => simp [endFrom]
  | cons t ts ih =>
    simp only [endFrom, alignUp_add8 (alignof_isAlign t) hb]
    rw [Nat.add_assoc, ih]

/-- asmdecl's view of one tuple component. -/
def compTop (p : Name × Comp) : AsmTop := ⟨p.2.addr.sym, p.2.addr.disp.toNat, p.2.ty⟩

theorem defaultName_eq (isret : Bool) (i : Nat) :
    defaultName (if isret then retPfx else argPfx) i = asmDefaultName isret i := by
  cases isret <;> by_cases h : i > 0 <;> simp [defaultName, asmDefaultName, retPfx, argPfx, itoa, h]

/-- All names of one list entry: asmdecl does not re-align between them; the
running offset stays aligned because the size is a multiple of the alignment. -/
theorem names_match (ns : List Name) (t : Ty) (off i : Nat) (pfx : Name)
    (hwf : ∀ n ∈ ns, n ≠ []) (hoff : off % alignof t = 0) :
    (tupleFrom (ns.map (·, t)) off i pfx).map compTop = (asmNames ns t off).1 ∧
      endFrom (tys (ns.map (·, t))) off = (asmNames ns t off).2 := by
  induction ns generalizing off i with
  | nil => simp [tupleFrom, asmNames, endFrom, tys]
  | cons n ns ih =>
    have ha := alignUp_of_mod (alignof_isAlign t) hoff
    have hn : n ≠ [] := hwf n (by simp)
    have hnext : (off + sizeof t) % alignof t = 0 :=
      add_mod_zero (alignof_isAlign t) hoff (sizeof_mod_alignof t)
    obtain ⟨ih1, ih2⟩ := ih (off + sizeof t) (i + 1) (fun m hm => hwf m (by simp [hm])) hnext
    constructor
    · simp only [List.map_cons, tupleFrom, asmNames, ha, hn, if_false]
      rw [ih1]
      simp [compTop]
    · simp only [List.map_cons, tys, endFrom, asmNames, ha]
      simpa [tys] using ih2

theorem alignUp_idem {a : Nat} (h : IsAlign a) (x : Nat) : alignUp (alignUp x a) a = alignUp x a :=
  alignUp_of_mod h (alignUp_mod h x)

theorem group_match (g : Group) (isret : Bool) (off i : Nat) (hwf : g.WF) :
    let names := if g.names.isEmpty then [asmDefaultName isret i] else g.names
    let r := asmNames names g.ty (asmAlign off (alignof g.ty))
    (tupleFrom g.vars off i (if isret then retPfx else argPfx)).map compTop = r.1 ∧
      endFrom (tys g.vars) off = r.2 ∧ g.vars.length = names.length := by
  have hal := alignof_isAlign g.ty
  simp only [asmAlign_eq hal]
  cases hn : g.names with
  | nil =>
    simp [Group.vars, hn, tupleFrom, asmNames, compTop, defaultName_eq, endFrom, tys]
  | cons n ns =>
    have hwf' : ∀ m ∈ n :: ns, m ≠ [] := by intro m hm; exact hwf m (by rw [hn]; exact hm)
    have hm := names_match (n :: ns) g.ty (alignUp off (alignof g.ty)) i (if isret then retPfx else argPfx)
      hwf' (alignUp_mod hal off)
    simp only [Group.vars, hn, List.isEmpty_cons, Bool.false_eq_true, if_false]
    refine ⟨?_, ?_, by simp⟩
    · rw [← hm.1]
      simp [tupleFrom, alignUp_idem hal]
    · rw [← hm.2]
      simp [tys, endFrom, alignUp_idem hal]

theorem vars_cons (g : Group) (gs : List Group) : vars (g :: gs) = g.vars ++ vars gs := by
  simp [vars]

/-- **`newTuple` agrees with asmdecl's `addParams`**: same variables in the same
order with the same names, offsets and types, and the same final offset. -/
theorem addParams_match (gs : List Group) (isret : Bool) (off i : Nat) (hwf : ∀ g ∈ gs, g.WF) :
    (tupleFrom (vars gs) off i (if isret then retPfx else argPfx)).map compTop = (asmAddParams gs isret i off).1 ∧
      endFrom (tys (vars gs)) off = (asmAddParams gs isret i off).2 := by
  induction gs generalizing off i with
  | nil => simp [vars, tupleFrom, asmAddParams, endFrom, tys]
  | cons g gs ih =>
    obtain ⟨g1, g2, g3⟩ := group_match g isret off i (hwf g (by simp))
    obtain ⟨ih1, ih2⟩ := ih (endFrom (tys g.vars) off) (i + g.vars.length) (fun x hx => hwf x (by simp [hx]))
    simp only [vars_cons, tupleFrom_append, List.map_append, tys_append, endFrom_append, asmAddParams]
    rw [g1, ih1, ih2, g2, g3]
    exact ⟨rfl, rfl⟩

/-- The final offset does not depend on names at all. -/
theorem names_end (ns : List Name) (t : Ty) (off : Nat) (hoff : off % alignof t = 0) :
    endFrom (tys (ns.map (·, t))) off = (asmNames ns t off).2 := by
  induction ns generalizing off with
  | nil => simp [asmNames, endFrom, tys]
  | cons n ns ih =>
    have ha := alignUp_of_mod (alignof_isAlign t) hoff
    have hnext : (off + sizeof t) % alignof t = 0 :=
      add_mod_zero (alignof_isAlign t) hoff (sizeof_mod_alignof t)
    simp only [List.map_cons, tys, endFrom, asmNames, ha]
    simpa [tys] using ih (off + sizeof t) hnext

theorem group_end (g : Group) (isret : Bool) (off i : Nat) :
    let names := if g.names.isEmpty then [asmDefaultName isret i] else g.names
    endFrom (tys g.vars) off = (asmNames names g.ty (asmAlign off (alignof g.ty))).2 ∧
      g.vars.length = names.length := by
  have hal := alignof_isAlign g.ty
  simp only [asmAlign_eq hal]
  cases hn : g.names with
  | nil => simp [Group.vars, hn, asmNames, endFrom, tys]
  | cons n ns =>
    have hm := names_end (n :: ns) g.ty (alignUp off (alignof g.ty)) (alignUp_mod hal off)
    simp only [Group.vars, hn, List.isEmpty_cons, Bool.false_eq_true, if_false]
    refine ⟨?_, by simp⟩
    rw [← hm]
    simp [tys, endFrom, alignUp_idem hal]

theorem addParams_end (gs : List Group) (isret : Bool) (off i : Nat) :
    endFrom (tys (vars gs)) off = (asmAddParams gs isret i off).2 := by
  induction gs generalizing off i with
  | nil => simp [vars, asmAddParams, endFrom, tys]
  | cons g gs ih =>
    obtain ⟨g2, g3⟩ := group_end g isret off i
    have ih2 := ih (endFrom (tys g.vars) off) (i + g.vars.length)
    simp only [vars_cons, tys_append, endFrom_append, asmAddParams]
    rw [ih2, g2, g3]

theorem group_vars_ne_nil (g : Group) : g.vars ≠ [] := by
  cases hn : g.names <;> simp [Group.vars, hn]

theorem vars_eq_nil (gs : List Group) : vars gs = [] ↔ gs = [] := by
  cases gs with
  | nil => simp [vars]
  | cons g gs => simp [vars_cons, group_vars_ne_nil]

theorem vars_length_zero (gs : List Group) : (vars gs).length = 0 ↔ gs.isEmpty = true := by
  rw [List.length_eq_zero_iff, vars_eq_nil]; simp

/-- The parameter area: with results, rounded up to 8 by the sentinel; without,
the end of the last parameter. -/
theorem paramsSize_eq (s : Sig) :
    paramsSize s = if s.results.isEmpty then endFrom (tys (vars s.params)) 0
                   else alignUp (endFrom (tys (vars s.params)) 0) 8 := by
  unfold paramsSize
  simp only [vars_length_zero]
  split
  · exact structSize_eq _
  · have := offsetsFrom_sentinel (tys (vars s.params)) (.basic .uint64) 0
    simp only [tys, List.length_map] at this
    simpa [tys, alignof, Basic.align, Basic.size] using this

theorem paramsSize_mod8 (s : Sig) (h : s.results.isEmpty = false) : paramsSize s % 8 = 0 := by
  rw [paramsSize_eq, h]
  exact alignUp_mod (by simp [IsAlign]) _

theorem paramsTuple_comps (s : Sig) : s.paramsTuple.comps = tupleFrom (vars s.params) 0 0 argPfx := by
  simp only [Sig.paramsTuple, newTuple]
  exact mkComps_offsetsFrom _ _ _ _ _

theorem resultsTuple_comps (s : Sig) : s.resultsTuple.comps = tupleFrom (vars s.results) (paramsSize s) 0 retPfx := by
  simp only [Sig.resultsTuple, newTuple]
  cases h : s.results.isEmpty
  · have h8 := paramsSize_mod8 s h
    have := offsetsFrom_add8 (tys (vars s.results)) h8 0
    simp only [Nat.add_zero] at this
    rw [← this]
    have := mkComps_offsetsFrom (vars s.results) [] (paramsSize s) 0 retPfx
    simpa using this
  · have : s.results = [] := by simpa using h
    simp [this, vars, mkComps, tupleFrom]

/-- **`Signature.init` lays the variables out exactly as asmdecl does.** -/
theorem tuple_tops (s : Sig) (hwf : s.WF) (isRet : Bool) :
    (s.tuple isRet).comps.map compTop = asmTops s isRet := by
  cases isRet
  · simp only [Sig.tuple, asmTops, Bool.false_eq_true, if_false, paramsTuple_comps, asmParams]
    exact (addParams_match s.params false 0 0 hwf.1).1
  · simp only [Sig.tuple, asmTops, if_true, resultsTuple_comps, asmResults]
    have hp : (asmParams s).2 = endFrom (tys (vars s.params)) 0 := (addParams_end s.params false 0 0).symm
    cases h : s.results.isEmpty
    · simp only [Bool.false_eq_true, if_false]
      rw [paramsSize_eq, h, hp, asmAlign_eq (by simp [IsAlign])]
      exact (addParams_match s.results true _ 0 hwf.2).1
    · have : s.results = [] := by simpa using h
      simp [this, vars, tupleFrom]

/-- **C07 (argument size).** `Signature.Bytes()`, which avo prints as the
`-args` part of `TEXT …, $frame-args`, equals the size asmdecl computes. -/
theorem argsize_eq (s : Sig) : s.bytes = asmArgSize s := by
  have hp : (asmParams s).2 = endFrom (tys (vars s.params)) 0 := (addParams_end s.params false 0 0).symm
  simp only [Sig.bytes, Sig.paramsTuple, Sig.resultsTuple, newTuple, asmArgSize, asmResults, structSize_eq]
  rw [paramsSize_eq, hp]
  cases h : s.results.isEmpty
  · simp only [Bool.false_eq_true, if_false]
    rw [asmAlign_eq (by simp [IsAlign]), ← addParams_end s.results true _ 0]
    have h8 : alignUp (endFrom (tys (vars s.params)) 0) 8 % 8 = 0 := alignUp_mod (by simp [IsAlign]) _
    have := endFrom_add8 (tys (vars s.results)) h8 0
    simp only [Nat.add_zero] at this
    rw [this]
  · have : s.results = [] := by simpa using h
    simp [this, vars, endFrom, tys]

/-! ## Resolve -/

theorem prim_facts (t : Ty) (b : Basic) (h : toPrimitive t = some b) :
    asmKind t = .scalar b.size ∧ sizeof t = b.size ∧ basicFor t b := by
  rw [← asmKind_under, ← sizeof_under]
  unfold toPrimitive at h
  unfold basicFor
  cases hu : t.under <;> simp only [hu] at h ⊢ <;> try (simp at h; done)
  · rename_i b'
    split at h
    · simp at h
    · rename_i hk
      injection h with h; subst h
      cases b' <;> simp [Basic.isString, Basic.isComplex] at hk <;>
        simp [asmKind, sizeof, Basic.isString, Basic.isComplex]
  · injection h with h; subst h
    simp [asmKind, sizeof, Basic.size]

theorem resolve_ok (c : Comp) (a : Addr) (b : Basic) (h : c.resolve = .ok (a, b)) :
    a = c.addr ∧ toPrimitive c.ty = some b := by
  simp only [Comp.resolve] at h
  cases hp : toPrimitive c.ty with
  | none => simp [hp] at h
  | some b' => simp [hp] at h; exact ⟨h.1.symm, by rw [h.2]⟩

/-- Navigation from any root along a `Dereference`-free path, then `Resolve`:
same base register; the root's symbol (if any) plus the path's asmdecl suffix;
displaced by an offset at which the root type's asmdecl layout has exactly that
scalar; inside the root value. -/
theorem resolve_on_root (root c' : Comp) (post : List Step) (a : Addr) (b : Basic)
    (hdf : ∀ s ∈ post, s.isDeref = false) (hn : navigate root post = .ok c') (hr : c'.resolve = .ok (a, b)) :
    a.base = root.addr.base ∧
      a.sym = (if root.addr.sym = [] then [] else root.addr.sym ++ pathSuffix post) ∧
      ∃ d : Nat, a.disp = root.addr.disp + (d : Int) ∧ InLayout root.ty post (d : Int) b ∧
        d + b.size ≤ sizeof root.ty := by
  obtain ⟨ha, hp⟩ := resolve_ok c' a b hr
  obtain ⟨hk, hsz, hb⟩ := prim_facts c'.ty b hp
  obtain ⟨d, had, hty, hin, hcomps⟩ := navigate_spec root c' post hdf hn
  obtain ⟨d', hd', hpc⟩ := navigate_in_pathComps root c' post hdf hn
  subst ha
  have hdd : d' = d := by rw [had] at hd'; simp at hd'; omega
  subst hdd
  refine ⟨by simp [had], by simp [had], d', by simp [had], ⟨⟨(d', c'.ty), hpc, rfl, hb⟩, by omega, ?_⟩, by omega⟩
  have := hcomps [] 0 _ (comps_head c'.ty ([] ++ pathSuffix post) (0 + d'))
  simpa [hk, hsz] using this

theorem defaultName_ne_nil (pfx : Name) (i : Nat) (hp : pfx ≠ []) : defaultName pfx i ≠ [] := by
  unfold defaultName; split <;> simp [hp]

theorem tupleFrom_mem (vs : List (Name × Ty)) (off i : Nat) (pfx : Name) (hp : pfx ≠ []) :
    ∀ p ∈ tupleFrom vs off i pfx,
      p.2.addr.base = .fp ∧ p.2.addr.sym ≠ [] ∧ 0 ≤ p.2.addr.disp ∧ (p.1 ≠ [] → p.2.addr.sym = p.1) := by
  induction vs generalizing off i with
  | nil => simp [tupleFrom]
  | cons v vs ih =>
    obtain ⟨n, t⟩ := v
    intro p hp'
    simp only [tupleFrom, List.mem_cons] at hp'
    rcases hp' with rfl | hp'
    · by_cases hn : n = []
      · simp [hn, defaultName_ne_nil pfx i hp]
      · simp [hn]
    · exact ih _ _ p hp'

theorem tuple_comps_eq (s : Sig) (isRet : Bool) :
    ∃ off pfx, pfx ≠ [] ∧ (s.tuple isRet).comps = tupleFrom (vars (s.groups isRet)) off 0 pfx := by
  cases isRet
  · exact ⟨0, argPfx, by simp [argPfx], by simp [Sig.tuple, Sig.groups, paramsTuple_comps]⟩
  · exact ⟨paramsSize s, retPfx, by simp [retPfx], by simp [Sig.tuple, Sig.groups, resultsTuple_comps]⟩

theorem tuple_mem (s : Sig) (isRet : Bool) : ∀ p ∈ (s.tuple isRet).comps,
    p.2.addr.base = .fp ∧ p.2.addr.sym ≠ [] ∧ 0 ≤ p.2.addr.disp ∧ (p.1 ≠ [] → p.2.addr.sym = p.1) := by
  obtain ⟨off, pfx, hp, h⟩ := tuple_comps_eq s isRet
  rw [h]; exact tupleFrom_mem _ _ _ _ hp

/-- `Tuple.At` / `Tuple.Lookup` select a variable asmdecl knows under the
selector (the i-th, or one with that name). -/
theorem select_spec (s : Sig) (hwf : s.WF) (isRet : Bool) (sel : Sel) (c : Comp)
    (h : (s.tuple isRet).select sel = .ok c) :
    ∃ p ∈ (s.tuple isRet).comps, p.2 = c ∧ compTop p ∈ selTops s isRet sel := by
  have htops := tuple_tops s hwf isRet
  cases sel with
  | «at» i =>
    simp only [Tuple.select, Tuple.at, Tuple.atWith] at h
    split at h
    · simp at h
    · split at h
      · simp at h
      · rename_i h1 h2
        cases hg : (s.tuple isRet).comps[i.toNat]? with
        | none => simp [hg] at h
        | some p =>
          simp [hg] at h
          refine ⟨p, List.mem_of_getElem? hg, h, ?_⟩
          have : (asmTops s isRet)[i.toNat]? = some (compTop p) := by
            rw [← htops, List.getElem?_map, hg]; rfl
          simp only [selTops]
          rw [if_pos (by omega), this]; simp
  | name n =>
    simp only [Tuple.select, Tuple.lookup] at h
    split at h
    · simp at h
    · rename_i hn
      cases hf : (s.tuple isRet).comps.reverse.find? (fun p => p.1 = n) with
      | none => simp [hf] at h
      | some p =>
        simp [hf] at h
        have hmem : p ∈ (s.tuple isRet).comps := by
          have := List.mem_of_find?_eq_some hf; simpa using this
        have hpn : p.1 = n := by have := List.find?_some hf; simpa using this
        have hsym := (tuple_mem s isRet p hmem).2.2.2 (by rw [hpn]; exact hn)
        refine ⟨p, hmem, h, ?_⟩
        simp only [selTops, hn, if_false, List.mem_filter]
        refine ⟨by rw [← htops]; exact List.mem_map_of_mem hmem, ?_⟩
        simp [compTop, hsym, hpn]

/-- **C07 (addresses).** Whatever `Param(..)/Return(..)` selection, component
navigation and `Resolve` return as an address satisfies the specification
`ResolveSpec`: on the frame it is the asmdecl name and offset of the scalar the
path denotes; through a loaded pointer it has no symbol and the pointee's own
offsets.  For every signature, selector and path. -/
theorem resolve_in_asmdecl (s : Sig) (hwf : s.WF) (isRet : Bool) (sel : Sel) (path : List Step)
    (a : Addr) (b : Basic) (h : resolve s isRet sel path = .ok (a, b)) :
    ResolveSpec s isRet sel path ⟨a, b⟩ := by
  simp only [resolve] at h
  cases hsel : (s.tuple isRet).select sel with
  | error e => simp [hsel] at h
  | ok c =>
    simp only [hsel] at h
    cases hnav : navigate c path with
    | error e => simp [hnav] at h
    | ok c' =>
      simp only [hnav] at h
      obtain ⟨p, hpm, rfl, htop⟩ := select_spec s hwf isRet sel c hsel
      obtain ⟨hbase, hsym, hdisp, _⟩ := tuple_mem s isRet p hpm
      unfold ResolveSpec
      cases hsp : splitLastDeref path with
      | none =>
        simp only
        have hdf := splitLastDeref_none path hsp
        obtain ⟨r1, r2, d, r3, r4, _⟩ := resolve_on_root p.2 c' path a b hdf hnav h
        refine ⟨by rw [r1, hbase], compTop p, htop, by simp [r2, hsym, compTop], ?_⟩
        have : a.disp - ((compTop p).off : Int) = (d : Int) := by
          simp only [compTop, r3]; omega
        simp only [this]; exact r4
      | some v =>
        obtain ⟨pre, r, post⟩ := v
        simp only
        obtain ⟨hpath, hdf⟩ := splitLastDeref_some path pre r post hsp
        subst hpath
        rw [navigate_append] at hnav
        cases hpre : navigate p.2 pre with
        | error e => simp [hpre] at hnav
        | ok c1 =>
          simp only [hpre, navigate_cons] at hnav
          cases hd : c1.step (.deref r) with
          | error e => simp [hd] at hnav
          | ok c2 =>
            simp only [hd] at hnav
            obtain ⟨hc2, _⟩ := deref_spec c1 c2 r hd
            obtain ⟨r1, r2, d, r3, r4, _⟩ := resolve_on_root c2 c' post a b hdf hnav h
            have hty : pathTy p.2.ty (pre ++ [.deref r]) = some c2.ty := by
              apply navigate_pathTy p.2 c2
              rw [navigate_append, hpre]; simp [navigate_cons, hd, navigate_nil]
            refine ⟨by rw [r1, hc2], by simp [r2, hc2], compTop p, htop, c2.ty, hty, ?_⟩
            have : a.disp = (d : Int) := by rw [r3, hc2]; simp
            rw [this]; exact r4

theorem selTops_sub (s : Sig) (isRet : Bool) (sel : Sel) : ∀ top ∈ selTops s isRet sel, top ∈ asmTops s isRet := by
  intro top h
  cases sel with
  | «at» i =>
    simp only [selTops] at h
    split at h
    · cases hg : (asmTops s isRet)[i.toNat]? with
      | none => simp [hg] at h
      | some t => simp [hg] at h; subst h; exact List.mem_of_getElem? hg
    · simp at h
  | name n =>
    simp only [selTops] at h
    split at h
    · simp at h
    · exact (List.mem_filter.mp h).1

/-- **C07 (addresses, flat form).** A resolved frame address is one of the named
variables `go vet` knows for the function — same name, same offset, same size,
and of scalar kind. -/
theorem resolve_in_asmdecl_flat (s : Sig) (hwf : s.WF) (isRet : Bool) (sel : Sel) (path : List Step)
    (a : Addr) (b : Basic) (hdf : ∀ st ∈ path, st.isDeref = false)
    (h : resolve s isRet sel path = .ok (a, b)) :
    0 ≤ a.disp ∧ (⟨a.sym, .scalar b.size, a.disp.toNat, b.size⟩ : AsmVar) ∈ asmComponents s := by
  have hspec := resolve_in_asmdecl s hwf isRet sel path a b h
  unfold ResolveSpec at hspec
  cases hsp : splitLastDeref path with
  | some v =>
    obtain ⟨pre, r, post⟩ := v
    have := (splitLastDeref_some path pre r post hsp).1
    have hd := hdf (.deref r) (by rw [this]; simp)
    simp [Step.isDeref] at hd
  | none =>
    simp only [hsp] at hspec
    obtain ⟨_, top, htop, hsym, ⟨_, h0, hmem⟩⟩ := hspec
    have htop' := selTops_sub s isRet sel top htop
    refine ⟨by omega, ?_⟩
    simp only [asmComponents, List.mem_flatMap]
    refine ⟨top, ?_, ?_⟩
    · cases isRet <;> simp [asmTops] at htop' <;> simp [htop']
    · simp only [AsmTop.vars, List.mem_map]
      refine ⟨_, hmem, ?_⟩
      simp only [AsmVar.mk.injEq, hsym, true_and, and_true]
      omega

theorem tupleFrom_bounds (vs : List (Name × Ty)) (off i : Nat) (pfx : Name) :
    ∀ p ∈ tupleFrom vs off i pfx,
      (off : Int) ≤ p.2.addr.disp ∧ p.2.addr.disp + (sizeof p.2.ty : Int) ≤ (endFrom (tys vs) off : Int) := by
  induction vs generalizing off i with
  | nil => simp [tupleFrom]
  | cons v vs ih =>
    obtain ⟨n, t⟩ := v
    intro p hp
    have h1 := alignUp_ge (alignof_isAlign t) off
    have hmono : ∀ (ts : List Ty) (o : Nat), o ≤ endFrom ts o := by
      intro ts
      induction ts with
      | nil => intro o; simp [endFrom]
      | cons u us ihu =>
        intro o
        have := ihu (alignUp o (alignof u) + sizeof u)
        have := alignUp_ge (alignof_isAlign u) o
        simp only [endFrom]; omega
    simp only [tupleFrom, List.mem_cons] at hp
    simp only [tys, List.map_cons, endFrom]
    rcases hp with rfl | hp
    · have := hmono (vs.map (·.2)) (alignUp off (alignof t) + sizeof t)
      simp only; omega
    · have := ih (alignUp off (alignof t) + sizeof t) (i + 1) p hp
      simp only [tys] at this; omega

/-- Every variable lies in its own area of the frame: parameters in
`[0, params size)`, results in `[params size, Bytes())`. -/
theorem tuple_inside (s : Sig) (isRet : Bool) : ∀ p ∈ (s.tuple isRet).comps,
    0 ≤ p.2.addr.disp ∧ p.2.addr.disp + (sizeof p.2.ty : Int) ≤ (s.bytes : Int) ∧
      (isRet = false → p.2.addr.disp + (sizeof p.2.ty : Int) ≤ (s.paramsTuple.size : Int)) ∧
      (isRet = true → (s.paramsTuple.size : Int) ≤ p.2.addr.disp) := by
  intro p hp
  have hps : s.paramsTuple.size = paramsSize s := rfl
  have hrs : s.resultsTuple.size = endFrom (tys (vars s.results)) 0 := by
    simp [Sig.resultsTuple, newTuple, structSize_eq]
  have hpe : endFrom (tys (vars s.params)) 0 ≤ paramsSize s := by
    rw [paramsSize_eq]; split
    · exact Nat.le_refl _
    · exact alignUp_ge (by simp [IsAlign]) _
  cases isRet
  · simp only [Sig.tuple, Bool.false_eq_true, if_false, paramsTuple_comps] at hp
    have := tupleFrom_bounds _ _ _ _ p hp
    simp only [Sig.bytes, hps]
    refine ⟨by omega, by omega, fun _ => by omega, fun h => by simp at h⟩
  · simp only [Sig.tuple, if_true, resultsTuple_comps] at hp
    have hb := tupleFrom_bounds _ _ _ _ p hp
    have : endFrom (tys (vars s.results)) (paramsSize s) = paramsSize s + endFrom (tys (vars s.results)) 0 := by
      cases h : s.results.isEmpty
      · have := endFrom_add8 (tys (vars s.results)) (paramsSize_mod8 s h) 0
        simpa using this
      · have : s.results = [] := by simpa using h
        simp [this, vars, tys, endFrom]
    simp only [Sig.bytes, hps, hrs]
    refine ⟨by omega, by omega, fun h => by simp at h, fun _ => by omega⟩

/-- **C07 (never outside the value).** A resolved frame address lies inside the
selected parameter/result, which lies inside its area of the declared
argument block. -/
theorem resolve_inside (s : Sig) (hwf : s.WF) (isRet : Bool) (sel : Sel) (path : List Step)
    (a : Addr) (b : Basic) (hdf : ∀ st ∈ path, st.isDeref = false)
    (h : resolve s isRet sel path = .ok (a, b)) :
    ∃ c, (s.tuple isRet).select sel = .ok c ∧
      c.addr.disp ≤ a.disp ∧ a.disp + (b.size : Int) ≤ c.addr.disp + (sizeof c.ty : Int) ∧
      0 ≤ c.addr.disp ∧ c.addr.disp + (sizeof c.ty : Int) ≤ (s.bytes : Int) ∧
      (isRet = false → c.addr.disp + (sizeof c.ty : Int) ≤ (s.paramsTuple.size : Int)) ∧
      (isRet = true → (s.paramsTuple.size : Int) ≤ c.addr.disp) := by
  simp only [resolve] at h
  cases hsel : (s.tuple isRet).select sel with
  | error e => simp [hsel] at h
  | ok c =>
    simp only [hsel] at h
    cases hnav : navigate c path with
    | error e => simp [hnav] at h
    | ok c' =>
      simp only [hnav] at h
      obtain ⟨p, hpm, rfl, _⟩ := select_spec s hwf isRet sel c hsel
      obtain ⟨_, _, d, r3, _, r5⟩ := resolve_on_root p.2 c' path a b hdf hnav h
      obtain ⟨t1, t2, t3, t4⟩ := tuple_inside s isRet p hpm
      exact ⟨p.2, rfl, by omega, by omega, t1, t2, t3, t4⟩

/-- **C07 (through a loaded pointer).** After `Dereference(r)` the component has
no symbol, is based on `r`, starts at displacement 0, and everything reached
from it is addressed at the pointee type's own offsets (its asmdecl layout from
0), inside the pointee. -/
theorem deref_offsets (c c2 c' : Comp) (r : Name) (post : List Step) (a : Addr) (b : Basic)
    (hd : c.step (.deref r) = .ok c2) (hdf : ∀ st ∈ post, st.isDeref = false)
    (hn : navigate c2 post = .ok c') (hr : c'.resolve = .ok (a, b)) :
    c2.addr = ⟨[], 0, .reg r⟩ ∧ stepTy c.ty (.deref r) = some c2.ty ∧
      a.sym = [] ∧ a.base = .reg r ∧ InLayout c2.ty post a.disp b ∧
      a.disp + (b.size : Int) ≤ (sizeof c2.ty : Int) := by
  obtain ⟨hc2, hty⟩ := deref_spec c c2 r hd
  obtain ⟨r1, r2, d, r3, r4, r5⟩ := resolve_on_root c2 c' post a b hdf hn hr
  have : a.disp = (d : Int) := by rw [r3, hc2]; simp
  refine ⟨hc2, hty, by simp [r2, hc2], by rw [r1, hc2], by rw [this]; exact r4, by omega⟩

/-! ## Invalid requests are errors -/

/-- An array index outside `[0, len)` is an error (with the lower-bound test). -/
theorem index_out_of_range_is_error (c : Comp) (n : Nat) (e : Ty) (i : Int)
    (hu : c.ty.under = .array n e) (hi : i < 0 ∨ (n : Int) ≤ i) : c.step (.index i) = .error .indexOOB := by
  simp only [Comp.step, Comp.stepWith, Comp.index, hu]
  rw [if_pos]; simp; omega

theorem missing_field_is_error (c : Comp) (fs : Fields) (name : Name)
    (hu : c.ty.under = .struct fs) (hf : fieldTy fs name = none) : c.step (.field name) = .error .noField := by
  simp only [Comp.step, Comp.stepWith, hu, fieldAt_none_of_fieldTy fs name 0 hf]

/-- **C07 (errors).** If the selected variable's Go type has no component for
the path — an index outside `[0,len)`, a missing field, a step of the wrong
kind (this is what `pathTy = none` says) — the result is an error, whatever
follows the offending step. -/
theorem bad_path_is_error (s : Sig) (isRet : Bool) (sel : Sel) (path : List Step) (c : Comp)
    (hsel : (s.tuple isRet).select sel = .ok c) (hbad : pathTy c.ty path = none) :
    ∃ e, resolve s isRet sel path = .error e := by
  obtain ⟨e, he⟩ := navigate_error_of_none c path hbad
  exact ⟨e, by simp [resolve, hsel, he]⟩

/-- A selector that denotes no variable is an error: index outside
`[0, #vars)`, or a name that is not declared. -/
theorem at_out_of_range (t : Tuple) (i : Int) (hi : i < 0 ∨ (t.comps.length : Int) ≤ i) :
    t.at i = .error .indexRange := by
  simp only [Tuple.at, Tuple.atWith]
  by_cases h1 : i ≥ (t.comps.length : Int)
  · simp [h1]
  · have h2 : i < 0 := by omega
    simp [h1, h2]

theorem lookup_undeclared (t : Tuple) (n : Name) (hn : ∀ p ∈ t.comps, p.1 ≠ n) :
    t.lookup n = .error .unknownVar := by
  simp only [Tuple.lookup]
  split
  · rfl
  · have : t.comps.reverse.find? (fun p => p.1 = n) = none := by
      rw [List.find?_eq_none]; intro p hp; simpa using hn p (by simpa using hp)
    rw [this]

theorem bad_selector_is_error (s : Sig) (isRet : Bool) (path : List Step) :
    (∀ i : Int, (i < 0 ∨ ((s.tuple isRet).comps.length : Int) ≤ i) →
      ∃ e, resolve s isRet (.at i) path = .error e) ∧
    (∀ n : Name, (∀ p ∈ (s.tuple isRet).comps, p.1 ≠ n) → ∃ e, resolve s isRet (.name n) path = .error e) := by
  constructor
  · intro i hi
    exact ⟨.indexRange, by simp [resolve, Tuple.select, at_out_of_range _ i hi]⟩
  · intro n hn
    exact ⟨.unknownVar, by simp [resolve, Tuple.select, lookup_undeclared _ n hn]⟩

/-- A non-primitive endpoint (struct, array, string, slice, complex) is an error
of `Resolve`, not an address. -/
theorem non_primitive_is_error (c : Comp) (h : toPrimitive c.ty = none) : c.resolve = .error .notPrimitive := by
  simp [Comp.resolve, h]

/-! ## The model meets the acceptor; completeness on existing scalars -/

def outcomeOf : Except Err (Addr × Basic) → Outcome
  | .ok (a, b) => .ok ⟨a, b⟩
  | .error _ => .err

/-- Every component the property obliges avo to address resolves. -/
theorem must_resolve_resolves (s : Sig) (hwf : s.WF) (isRet : Bool) (sel : Sel) (path : List Step)
    (h : MustResolve s isRet sel path) : ∃ a b, resolve s isRet sel path = .ok (a, b) := by
  obtain ⟨hsel, hne, hall⟩ := h
  have htops := tuple_tops s hwf isRet
  -- the selection succeeds
  have hc : ∃ c, (s.tuple isRet).select sel = .ok c := by
    cases sel with
    | «at» i =>
      simp only [selTops] at hne
      split at hne
      · rename_i h0
        cases hg : (asmTops s isRet)[i.toNat]? with
        | none => simp [hg] at hne
        | some t =>
          rw [← htops, List.getElem?_map] at hg
          cases hg' : (s.tuple isRet).comps[i.toNat]? with
          | none => simp [hg'] at hg
          | some p =>
            have hlt : i.toNat < (s.tuple isRet).comps.length := by
              have := List.getElem?_eq_some_iff.mp hg'; exact this.1
            refine ⟨p.2, ?_⟩
            simp only [Tuple.select, Tuple.at, Tuple.atWith]
            rw [if_neg (by omega), if_neg (by omega), hg']; rfl
      · simp at hne
    | name n =>
      simp only [declared, Sig.groups, Bool.and_eq_true, decide_eq_true_eq] at hsel
      simp only [selTops, hsel.1, if_false] at hne
      obtain ⟨top, htop⟩ := List.exists_mem_of_ne_nil _ hne
      obtain ⟨htm, htn⟩ := List.mem_filter.mp htop
      rw [← htops, List.mem_map] at htm
      obtain ⟨p, hpm, hpt⟩ := htm
      simp only [decide_eq_true_eq] at htn
      -- some variable has the declared name n: the name of `top` is n and it is not a default name … we only need existence in the reversed list
      have hsym := (tuple_mem s isRet p hpm)
      simp only [Tuple.select, Tuple.lookup, hsel.1, if_false]
      -- existence of a component declared with name n
      have hdecl : ∃ q ∈ (s.tuple isRet).comps, q.1 = n := by
        obtain ⟨off, pfx, _, hcomps⟩ := tuple_comps_eq s isRet
        rw [hcomps]
        have : ∃ v ∈ vars (s.groups isRet), v.1 = n := by
          obtain ⟨g, hg, hgn⟩ := List.any_eq_true.mp hsel.2
          have hnm : n ∈ g.names := by simpa using hgn
          refine ⟨(n, g.ty), ?_, rfl⟩
          simp only [vars, List.mem_flatMap]
          refine ⟨g, by simpa [Sig.groups] using hg, ?_⟩
          have : g.names.isEmpty = false := by cases hgn' : g.names <;> simp_all
          simp [Group.vars, this, hnm]
        obtain ⟨v, hv, hvn⟩ := this
        have key : ∀ (vs : List (Name × Ty)) (off i : Nat), v ∈ vs → ∃ q ∈ tupleFrom vs off i pfx, q.1 = v.1 := by
          intro vs
          induction vs with
          | nil => intro _ _ h; simp at h
          | cons w ws ih =>
            intro off i h
            obtain ⟨wn, wt⟩ := w
            rcases List.mem_cons.mp h with rfl | h
            · simp only [tupleFrom]; exact ⟨_, List.mem_cons_self, rfl⟩
            · obtain ⟨q, hq, hqn⟩ := ih (alignUp off (alignof wt) + sizeof wt) (i + 1) h
              simp only [tupleFrom]; exact ⟨q, List.mem_cons_of_mem _ hq, hqn⟩
        obtain ⟨q, hq, hqn⟩ := key _ off 0 hv
        exact ⟨q, hq, by rw [hqn, hvn]⟩
      obtain ⟨q, hqm, hqn⟩ := hdecl
      cases hf : (s.tuple isRet).comps.reverse.find? (fun p => p.1 = n) with
      | none =>
        rw [List.find?_eq_none] at hf
        have := hf q (by simpa using hqm)
        simp [hqn] at this
      | some p' => exact ⟨p'.2, by simp⟩
  obtain ⟨c, hc⟩ := hc
  obtain ⟨p, hpm, rfl, htop⟩ := select_spec s hwf isRet sel _ hc
  obtain ⟨t, hpt, hprim⟩ := hall (compTop p) htop
  obtain ⟨c', hn, hct⟩ := navigate_ok_of_some p.2 path t (by simpa [compTop] using hpt)
  cases hp : toPrimitive t with
  | none => simp [hp] at hprim
  | some b =>
    exact ⟨c'.addr, b, by simp [resolve, hc, hn, Comp.resolve, hct, hp]⟩

/-- **The model of avo (with the lower-bound tests) is accepted by the acceptor
on every request**: the acceptor never rejects behaviour the theorems allow. -/
theorem model_accepted (s : Sig) (hwf : s.WF) (isRet : Bool) (sel : Sel) (path : List Step) :
    acceptResolve s isRet sel path (outcomeOf (resolve s isRet sel path)) = "ok" := by
  cases h : resolve s isRet sel path with
  | ok v =>
    obtain ⟨a, b⟩ := v
    simp [outcomeOf, acceptResolve, resolve_in_asmdecl s hwf isRet sel path a b h]
  | error e =>
    simp only [outcomeOf, acceptResolve]
    split
    · rename_i hm
      obtain ⟨a, b, hab⟩ := must_resolve_resolves s hwf isRet sel path hm
      rw [h] at hab; simp at hab
    · rfl

/-- The acceptor answers `ok` on an address exactly when the specification holds. -/
theorem accept_sound (s : Sig) (isRet : Bool) (sel : Sel) (path : List Step) (r : Resolved) :
    acceptResolve s isRet sel path (.ok r) = "ok" ↔ ResolveSpec s isRet sel path r := by
  simp only [acceptResolve]
  split <;> simp_all

/-- The acceptor answers `ok` on an error exactly when the component is not one
the property obliges avo to address. -/
theorem accept_err_sound (s : Sig) (isRet : Bool) (sel : Sel) (path : List Step) :
    acceptResolve s isRet sel path .err = "ok" ↔ ¬ MustResolve s isRet sel path := by
  simp only [acceptResolve]
  split <;> simp_all

/-- A panic is never accepted; an error is accepted unless the component must resolve. -/
theorem accept_panic (s : Sig) (isRet : Bool) (sel : Sel) (path : List Step) :
    acceptResolve s isRet sel path .panic ≠ "ok" := by
  simp [acceptResolve]

/-! ## The property -/

/-- **C07, the whole statement** (model of avo's gotypes with lower-bound tests
against the toolchain's asmdecl layout), for every well-formed signature. -/
def C07_statement : Prop :=
  ∀ s : Sig, s.WF →
    -- the declared argument size equals the toolchain's
    s.bytes = asmArgSize s ∧
    -- every address returned is the toolchain's name/offset of the component the path denotes
    -- (frame), or the pointee's own offsets without symbol (through a loaded pointer)
    (∀ isRet sel path a b, resolve s isRet sel path = .ok (a, b) → ResolveSpec s isRet sel path ⟨a, b⟩) ∧
    -- a frame address never leaves the selected variable nor the argument block
    (∀ isRet sel path a b, (∀ st ∈ path, st.isDeref = false) → resolve s isRet sel path = .ok (a, b) →
      ∃ c, (s.tuple isRet).select sel = .ok c ∧ c.addr.disp ≤ a.disp ∧
        a.disp + (b.size : Int) ≤ c.addr.disp + (sizeof c.ty : Int) ∧
        0 ≤ c.addr.disp ∧ c.addr.disp + (sizeof c.ty : Int) ≤ (s.bytes : Int)) ∧
    -- every existing scalar component is addressable
    (∀ isRet sel path, MustResolve s isRet sel path → ∃ a b, resolve s isRet sel path = .ok (a, b)) ∧
    -- an index or field that does not exist, or a step of the wrong kind, is an error
    (∀ isRet sel path c, (s.tuple isRet).select sel = .ok c → pathTy c.ty path = none →
      ∃ e, resolve s isRet sel path = .error e) ∧
    -- a selector that denotes no variable is an error: index outside [0, #vars) …
    (∀ isRet path (i : Int), (i < 0 ∨ ((s.tuple isRet).comps.length : Int) ≤ i) →
      ∃ e, resolve s isRet (.at i) path = .error e) ∧
    -- … or a name that no variable is declared with
    (∀ isRet path (n : Name), (∀ p ∈ (s.tuple isRet).comps, p.1 ≠ n) →
      ∃ e, resolve s isRet (.name n) path = .error e) ∧
    -- parameters lie in [0, params size), results in [params size, Bytes())
    (∀ isRet, ∀ p ∈ (s.tuple isRet).comps,
      (isRet = false → p.2.addr.disp + (sizeof p.2.ty : Int) ≤ (s.paramsTuple.size : Int)) ∧
      (isRet = true → (s.paramsTuple.size : Int) ≤ p.2.addr.disp)) ∧
    -- through a loaded pointer the address stays inside the pointee
    (∀ (c c2 c' : Comp) (r : Name) (post : List Step) (a : Addr) (b : Basic),
      c.step (.deref r) = .ok c2 → (∀ st ∈ post, st.isDeref = false) → navigate c2 post = .ok c' →
      c'.resolve = .ok (a, b) →
      a.sym = [] ∧ a.base = .reg r ∧ InLayout c2.ty post a.disp b ∧ a.disp + (b.size : Int) ≤ (sizeof c2.ty : Int))

theorem C07 : C07_statement := by
  intro s hwf
  refine ⟨argsize_eq s, ?_, ?_, ?_, ?_, ?_, ?_, ?_, ?_⟩
  · intro isRet sel path a b h; exact resolve_in_asmdecl s hwf isRet sel path a b h
  · intro isRet sel path a b hdf h
    obtain ⟨c, h1, h2, h3, h4, h5, _⟩ := resolve_inside s hwf isRet sel path a b hdf h
    exact ⟨c, h1, h2, h3, h4, h5⟩
  · intro isRet sel path h; exact must_resolve_resolves s hwf isRet sel path h
  · intro isRet sel path c h1 h2; exact bad_path_is_error s isRet sel path c h1 h2
  · intro isRet path i hi; exact (bad_selector_is_error s isRet path).1 i hi
  · intro isRet path n hn; exact (bad_selector_is_error s isRet path).2 n hn
  · intro isRet p hp
    obtain ⟨_, _, t3, t4⟩ := tuple_inside s isRet p hp
    exact ⟨t3, t4⟩
  · intro c c2 c' r post a b hd hdf hn hr
    obtain ⟨_, _, h3, h4, h5, h6⟩ := deref_offsets c c2 c' r post a b hd hdf hn hr
    exact ⟨h3, h4, h5, h6⟩

/-! ## History — finding F3 (fixed in /repo by aab3c52): what happens without the lower-bound tests

`Comp.stepWith false` / `Tuple.atWith false` are `Index` / `At` with only the
upper-bound test (`i >= len`), as in the source before the repair.  These
theorems are kept as the record of why the tests are necessary; the property
theorems above are about the model WITH the tests (the current source) and are
at full strength.  The requests stay in the generated stream and the corpus as
regressions. -/

/-- `func(x [4]uint32)` -/
def exArr : Sig := ⟨[⟨[['x']], .array 4 (.basic .uint32)⟩], []⟩

/-- Without the lower-bound test `Param("x").Index(-1)` is not an error: it is
the address `x_-1-4(FP)`, 4 bytes below `x+0(FP)` — outside the value, although
the Go type has no element −1. -/
theorem index_without_lower_check_escapes :
    ∃ c c', exArr.paramsTuple.lookup ['x'] = .ok c ∧ c.stepWith false (.index (-1)) = .ok c' ∧
      c'.addr = ⟨['x', '_', '-', '1'], -4, .fp⟩ ∧ c'.addr.disp < c.addr.disp ∧
      stepTy c.ty (.index (-1)) = none :=
  ⟨_, _, rfl, rfl, by decide, by decide, by decide⟩

/-- So the error theorem is false for that function: a step that does not exist is answered with an address. -/
theorem bad_path_is_error_fails_without_lower_check :
    ¬ ∀ (c : Comp) (s : Step), stepTy c.ty s = none → ∃ e, c.stepWith false s = .error e := by
  intro h
  obtain ⟨c, c', _, h2, _, _, h5⟩ := index_without_lower_check_escapes
  obtain ⟨e, he⟩ := h c (.index (-1)) h5
  rw [h2] at he; simp at he

/-- With the test, the same request is an error. -/
example : ∃ e, resolve exArr false (.name ['x']) [.index (-1)] = .error e := ⟨.indexOOB, rfl⟩

/-- Without the lower-bound test `At(i)` for negative `i` is neither an error
component nor a component (Go: index out of range panic). -/
theorem at_without_lower_check_panics (t : Tuple) (i : Int) (hi : i < 0) : t.atWith false i = none := by
  simp only [Tuple.atWith]
  rw [if_neg (by omega), if_pos hi]; rfl

/-! ## Non-vacuity: concrete values -/

/-- `func(x struct{a int8; b int64; c [2]int16}, y []uint8) int` -/
def exSig : Sig :=
  ⟨[⟨[['x']], .struct (.cons ['a'] (.basic .int8) (.cons ['b'] (.basic .int64)
      (.cons ['c'] (.array 2 (.basic .int16)) .nil)))⟩, ⟨[['y']], .slice (.basic .uint8)⟩],
   [⟨[], .basic .int⟩]⟩

example : exSig.WF := by
  constructor <;> intro g hg <;> simp [exSig] at hg <;> (try rcases hg with rfl | rfl) <;> (try subst hg) <;>
    intro n hn <;> simp at hn <;> simp [hn]

example : resolve exSig false (.name ['x']) [.field ['c'], .index 1] =
    .ok (⟨['x', '_', 'c', '_', '1'], 18, .fp⟩, .int16) := rfl
example : resolve exSig false (.at 1) [.len] = .ok (⟨['y', '_', 'l', 'e', 'n'], 32, .fp⟩, .int) := rfl
/-- unnamed parameters get asmdecl's default names: `func(int8, []uint8)`, second parameter -/
example : resolve ⟨[⟨[], .basic .int8⟩, ⟨[], .slice (.basic .uint8)⟩], []⟩ false (.at 1) [.len] =
    .ok (⟨['a', 'r', 'g', '1', '_', 'l', 'e', 'n'], 16, .fp⟩, .int) := rfl
example : resolve exSig true (.at 0) [] = .ok (⟨['r', 'e', 't'], 48, .fp⟩, .int) := rfl
example : exSig.bytes = 56 ∧ asmArgSize exSig = 56 := by decide
example : ResolveSpec exSig false (.name ['x']) [.field ['c'], .index 1] ⟨⟨['x', '_', 'c', '_', '1'], 18, .fp⟩, .int16⟩ := by
  decide
example : ¬ ResolveSpec exSig false (.name ['x']) [.field ['c'], .index 1] ⟨⟨['x', '_', 'c', '_', '1'], 16, .fp⟩, .int16⟩ := by
  decide
example : MustResolve exSig false (.name ['x']) [.field ['b']] := by decide
/-- padding, a zero-size field in the middle and a trailing zero-size field -/
example : sizeof (.struct (.cons ['a'] (.basic .int8) (.cons ['z'] (.struct .nil) (.cons ['b'] (.basic .int64)
    (.cons ['e'] (.struct .nil) .nil))))) = 24 := by decide
example : sizeof (.struct (.cons ['e'] (.struct .nil) (.cons ['a'] (.basic .int8) .nil))) = 1 := by decide
/-- through a pointer: `func(p *struct{a int8; n [3]string})`, `p.Dereference(RAX).Field("n").Index(2).Len()` -/
example : resolve ⟨[⟨[['p']], .ptr (.struct (.cons ['a'] (.basic .int8) (.cons ['n'] (.array 3 (.basic .string)) .nil)))⟩], []⟩
    false (.at 0) [.deref ['R', 'A', 'X'], .field ['n'], .index 2, .len] = .ok (⟨[], 48, .reg ['R', 'A', 'X']⟩, .int) :=
  rfl


/-! ### The acceptor pins the offset of the component the path denotes

Flattened asmdecl names can collide; the specification walks the type tree, so a
wrong offset under a colliding name is rejected (audit round 1, C07-2). -/

/-- `func(x struct{a struct{b int8}; a_b int8})`: both `x.a.b` (offset 0) and `x.a_b`
(offset 1) flatten to `x_a_b`. -/
def exCollide : Sig :=
  ⟨[⟨[['x']], .struct (.cons ['a'] (.struct (.cons ['b'] (.basic .int8) .nil))
      (.cons ['a', '_', 'b'] (.basic .int8) .nil))⟩], []⟩

example : ResolveSpec exCollide false (.name ['x']) [.field ['a'], .field ['b']] ⟨⟨['x', '_', 'a', '_', 'b'], 0, .fp⟩, .int8⟩ := by
  decide
example : ¬ ResolveSpec exCollide false (.name ['x']) [.field ['a'], .field ['b']] ⟨⟨['x', '_', 'a', '_', 'b'], 1, .fp⟩, .int8⟩ := by
  decide
example : ResolveSpec exCollide false (.name ['x']) [.field ['a', '_', 'b']] ⟨⟨['x', '_', 'a', '_', 'b'], 1, .fp⟩, .int8⟩ := by
  decide

/-- `func(p *struct{a [2]int8; a_1 int8})` through a loaded pointer (no symbol: the
offset is the only tie): `p.Dereference(RAX).Field("a").Index(1)` is at 1, not at 2. -/
def exDerefCollide : Sig :=
  ⟨[⟨[['p']], .ptr (.struct (.cons ['a'] (.array 2 (.basic .int8)) (.cons ['a', '_', '1'] (.basic .int8) .nil)))⟩], []⟩

example : ResolveSpec exDerefCollide false (.at 0) [.deref ['R', 'A', 'X'], .field ['a'], .index 1]
    ⟨⟨[], 1, .reg ['R', 'A', 'X']⟩, .int8⟩ := by decide
example : ¬ ResolveSpec exDerefCollide false (.at 0) [.deref ['R', 'A', 'X'], .field ['a'], .index 1]
    ⟨⟨[], 2, .reg ['R', 'A', 'X']⟩, .int8⟩ := by decide
/-- the base register must be the one given to `Dereference`, and there is no symbol -/
example : ¬ ResolveSpec exDerefCollide false (.at 0) [.deref ['R', 'A', 'X'], .field ['a'], .index 1]
    ⟨⟨[], 1, .reg ['R', 'B', 'X']⟩, .int8⟩ := by decide

/-- Only the blank name may denote several fields: `struct{_ int8; _ int8}`, `Field("_")`
may be either (Go itself cannot select a blank field). -/
example : (stepComps (.struct (.cons ['_'] (.basic .int8) (.cons ['_'] (.basic .int8) .nil))) (.field ['_'])).map (·.1) =
    [0, 1] := by decide

/-! ### Defined and alias scalar types resolve (F17, fixed in fad48e1); component-less kinds shift offsets -/

/-- `type T uint64; func(m map[int]int, e interface{}, x [2]T)`: `x` starts behind the
map word and the two interface words; `x.Index(1)` is a `uint64` at 32. -/
def exNamed : Sig :=
  ⟨[⟨[['m']], .other .map⟩, ⟨[['e']], .other .eface⟩,
    ⟨[['x']], .array 2 (.named ['T'] (.basic .uint64))⟩], []⟩

example : MustResolve exNamed false (.name ['x']) [.index 1] := by decide
example : resolve exNamed false (.name ['x']) [.index 1] = .ok (⟨['x', '_', '1'], 32, .fp⟩, .uint64) := rfl
example : exNamed.bytes = 40 ∧ asmArgSize exNamed = 40 := by decide
/-- a map parameter is a variable `go vet` knows, but it has no component avo addresses -/
example : ¬ MustResolve exNamed false (.name ['m']) [] := by decide
example : resolve exNamed false (.name ['m']) [] = .error .notPrimitive := rfl

/-! ## One expression text, two definitions of the type name it mentions

`func(r Rec) uint64` with `Rec = struct{ID, Count uint64}` in one package and
`Rec = struct{Tag uint8; Hist [3]uint64; ID, Count uint64}` in another package
of the same import path (seeded change C07-8: a process-wide memo keyed by
package path and expression text).  The layout follows the definition; the
answer for the first package violates the specification for the second. -/

def exRecCompact : Ty :=
  .named ['R', 'e', 'c'] (.struct (.cons ['I', 'D'] (.basic .uint64) (.cons ['C', 'o', 'u', 'n', 't'] (.basic .uint64) .nil)))
def exRecWide : Ty :=
  .named ['R', 'e', 'c'] (.struct (.cons ['T', 'a', 'g'] (.basic .uint8) (.cons ['H', 'i', 's', 't'] (.array 3 (.basic .uint64))
    (.cons ['I', 'D'] (.basic .uint64) (.cons ['C', 'o', 'u', 'n', 't'] (.basic .uint64) .nil)))))
def exGet (rec : Ty) : Sig := ⟨[⟨[['r']], rec⟩], [⟨[], .basic .uint64⟩]⟩

example : resolve (exGet exRecCompact) false (.name ['r']) [.field ['I', 'D']] =
    .ok (⟨['r', '_', 'I', 'D'], 0, .fp⟩, .uint64) := rfl
example : resolve (exGet exRecWide) false (.name ['r']) [.field ['I', 'D']] =
    .ok (⟨['r', '_', 'I', 'D'], 32, .fp⟩, .uint64) := rfl
example : (exGet exRecCompact).bytes = 24 ∧ (exGet exRecWide).bytes = 56 := by decide
example : asmArgSize (exGet exRecWide) = 56 := by decide
example : ResolveSpec (exGet exRecWide) false (.name ['r']) [.field ['I', 'D']] ⟨⟨['r', '_', 'I', 'D'], 32, .fp⟩, .uint64⟩ := by
  decide
example : ¬ ResolveSpec (exGet exRecWide) false (.name ['r']) [.field ['I', 'D']] ⟨⟨['r', '_', 'I', 'D'], 0, .fp⟩, .uint64⟩ := by
  decide
example : ¬ ResolveSpec (exGet exRecWide) true (.at 0) [] ⟨⟨['r', 'e', 't'], 16, .fp⟩, .uint64⟩ := by decide

end Avo.Layout
