/-
C10 — which register self-moves have no architectural effect.

`Model/Cleanup.lean` gives a semantics (`execMov`, `execMovMasked`) to the
register-to-register moves of the form table: general purpose 8/16/32/64,
legacy SSE (full 128-bit moves, `MOVSD/MOVSS` merges, `MOVQ/MOVD x,x`), VEX/EVEX
full-register moves at 128/256/512 bits, `VMOVQ x,x`, opmask moves `KMOVx k,k`
and EVEX masked moves.  This file states and proves EXACTLY which self-moves
`OPC r, r` (resp. `OPC r, k, r`) leave every register file unchanged:

  `selfMove_noop_iff`        (∀ σ, execMov opc r r σ = some σ) ↔ isNoopKind (movKind opc r r)
  `maskedSelfMove_noop_iff`  (∀ B σ, execMovMasked B opc r k r σ = some σ) ↔ isNoopMasked opc r k r
  `noEffectMove_iff`         NoEffectMove i ↔ isNoopMove i     (the acceptor's test is exact, not only sound)

so the acceptor (`C10Accept.checkDeleted`) judges a deleted move by what the
move does, not by a list of opcodes the pass happens to prune today: a pass
that is widened to `MOVAPS x,x` or `VMOVDQU64 z,z` (true no-ops) is accepted,
one that is widened to `VMOVDQU y,y` (clears bits 256–511), `VMOVDQA x,x`,
`KMOVW k,k`, `VMOVQ x,x`, a zeroing-masked move, or any 128/256-bit masked move
is a concrete violation.  The semantics itself is cross-checked against the
host CPU on every run (`C10Tables.movesem_matches_cpu`, `Oracle/MoveHW`).
-/
import AvoVerif.Props.C10Accept
namespace Avo.Cleanup
open Avo.Func Avo.Reg

/-- The register file with 1 in every lane: every cleared lane shows. -/
def ones : RegFile := fun _ _ => 1

theorem lanesOf_S32 : lanesOf S32 = [0, 1, 2] := by decide

theorem movKindExt_ne_zext32 (opcode : String) (s d : R) : movKindExt opcode s d ≠ .zext32 := by
  intro h
  unfold movKindExt at h
  split at h
  · split at h <;> cases h
  · split at h
    · split at h <;> cases h
    · split at h
      · unfold movqKind at h
        split at h
        · split at h <;> cases h
        · split at h <;> cases h
      · split at h
        · split at h <;> cases h
        · split at h
          · split at h <;> cases h
          · split at h
            · split at h <;> cases h
            · split at h
              · split at h
                · cases h
                · split at h
                  · cases h
                  · split at h
                    · cases h
                    · split at h <;> cases h
              · cases h

/-- `MOVL` is the only zero-extending kind, and only on 32-bit operands. -/
theorem movKind_zext32 (opcode : String) (s d : R) (h : movKind opcode s d = .zext32) :
    d.mask = S32 ∧ s.mask = S32 := by
  unfold movKind at h
  split at h
  · split at h <;> cases h
  · split at h
    · split at h <;> cases h
    · split at h
      · split at h
        · rename_i hc; exact hc
        · cases h
      · split at h
        · split at h
          · split at h <;> cases h
          · split at h <;> cases h
        · split at h
          · split at h <;> cases h
          · exact absurd h (movKindExt_ne_zext32 opcode s d)

theorem some_ne_of_lane {σ' σ : RegFile} (id l : Nat) (h : σ' id l ≠ σ id l) : some σ' ≠ some σ := by
  intro e; cases e; exact h rfl

/-- A kind that clears something changes the all-ones register file (or the
combination is no move at all). -/
theorem execMov_not_noopKind (opcode : String) (r : R) (h : isNoopKind (movKind opcode r r) = false) :
    execMov opcode r r ones ≠ some ones := by
  unfold execMov
  cases hk : movKind opcode r r with
  | plain => rw [hk] at h; cases h
  | notAMove => simp
  | zext32 =>
    obtain ⟨hm, _⟩ := movKind_zext32 opcode r r hk
    simp only
    apply some_ne_of_lane r.id 3
    rw [hm, lanesOf_S32]
    simp [writeLanes, ones]
  | vecLow64 =>
    simp only
    apply some_ne_of_lane r.id 4
    simp [writeLanes, ones, List.range, List.range.loop]
  | copyZero n top =>
    rw [hk] at h
    have hlt : n < top := by
      simp only [isNoopKind, decide_eq_false_iff_not] at h; omega
    simp only
    apply some_ne_of_lane r.id n
    simp [ones, hlt]

/-- **Exactly which two-operand self-moves are no-ops.** `OPC r, r` leaves every
register file unchanged iff its kind copies the operand's bytes onto themselves
and clears nothing: MOVB/MOVW/MOVQ (GP), the legacy SSE moves (which preserve
everything above bit 127), full 512-bit VEX/EVEX moves, `KMOVQ`, `MOVSD/MOVSS`
— and NOT `MOVL` (clears bits 32–63), `MOVQ/MOVD x,x` (bits 64–127), any
128/256-bit VEX/EVEX move (bits 128/256–511), `VMOVQ x,x`, `KMOVB/W/D`. -/
theorem selfMove_noop_iff (opcode : String) (r : R) :
    (∀ σ, execMov opcode r r σ = some σ) ↔ isNoopKind (movKind opcode r r) = true := by
  constructor
  · intro h
    cases hk : isNoopKind (movKind opcode r r) with
    | true => rfl
    | false => exact absurd (h ones) (execMov_not_noopKind opcode r hk)
  · intro h σ; exact execMov_noopKind opcode r h σ

theorem vecLanes_le (m : Nat) : vecLanes m ≤ 7 := by
  unfold vecLanes; split; · omega
  split; · omega
  split <;> omega

theorem maskedKind_lanes (opcode : String) (s k d : R) (n : Nat) (z : Bool)
    (h : maskedKind opcode s k d = some (n, z)) : n ≤ 7 := by
  unfold maskedKind at h
  split at h
  · split at h
    · cases h; exact vecLanes_le _
    · split at h
      · cases h; exact vecLanes_le _
      · cases h
  · cases h

/-- keeps the new value / keeps the old value: two lawful blends -/
def blendNew : Blend := ⟨fun _ _ x _ => x, fun _ _ _ => rfl⟩
def blendOld : Blend := ⟨fun _ _ _ y => y, fun _ _ _ => rfl⟩

/-- **Exactly which masked self-moves are no-ops**: only the merge-masked move of
a whole ZMM register; a zeroing-masked move clears the unselected elements, a
128/256-bit one clears everything above the vector length. -/
theorem maskedSelfMove_noop_iff (opcode : String) (r k : R) :
    (∀ B σ, execMovMasked B opcode r k r σ = some σ) ↔ isNoopMasked opcode r k r = true := by
  constructor
  · intro h
    unfold isNoopMasked
    cases hk : maskedKind opcode r k r with
    | none =>
      have := h blendNew ones
      unfold execMovMasked at this; rw [hk] at this; cases this
    | some p =>
      obtain ⟨n, z⟩ := p
      have hn := maskedKind_lanes opcode r k r n z hk
      by_cases hn7 : n = 7
      · subst hn7
        cases z with
        | false => simp
        | true =>
          exfalso
          have := h blendOld ones
          unfold execMovMasked at this; rw [hk] at this
          simp only at this
          exact some_ne_of_lane r.id 0 (by simp [blendOld, ones]) this
      · exfalso
        have hlt : n < 7 := by omega
        have := h blendNew ones
        unfold execMovMasked at this; rw [hk] at this
        simp only at this
        exact some_ne_of_lane r.id n (by simp [ones, hlt]) this
  · intro h B σ; exact execMovMasked_noop B opcode r k h σ

/-- **The acceptor's test on moves is exact.** Within the modelled semantics an
instruction is a register move without architectural effect iff `isNoopMove`
says so: the acceptor neither lets an effectful move be deleted (soundness,
`isNoopMove_spec`) nor objects to the deletion of a true no-op move. -/
theorem noEffectMove_iff (i : XInstr) : NoEffectMove i ↔ isNoopMove i = true := by
  constructor
  · intro h
    rcases h with ⟨r, hops, hx⟩ | ⟨r, k, hops, hx⟩
    · unfold isNoopMove; rw [hops]
      simp [(selfMove_noop_iff i.opcode r).mp hx]
    · unfold isNoopMove; rw [hops]
      simp [(maskedSelfMove_noop_iff i.opcode r k).mp hx]
  · exact isNoopMove_spec i

/-! ## The cases the property text and the seeded changes are about

Register ids: RAX = 256, RCX = 65792, X3/Y3/Z3 = 197120, K3 = 197376. -/

private def v3 (mask : Nat) : R := ⟨197120, mask⟩
private def k3 : R := ⟨197376, S64⟩

/-- A 256-bit VEX move onto itself clears bits 256–511 of the ZMM register … -/
theorem vex256_self_has_effect :
    ∃ σ', execMov "VMOVDQU" (v3 S256) (v3 S256) ones = some σ' ∧ σ' 197120 6 = 0 ∧ ones 197120 6 = 1 :=
  ⟨_, rfl, by decide, rfl⟩
/-- … a 128-bit one bits 128–511 … -/
theorem vex128_self_has_effect :
    ∃ σ', execMov "VMOVDQA" (v3 S128) (v3 S128) ones = some σ' ∧ σ' 197120 5 = 0 ∧ σ' 197120 6 = 0 :=
  ⟨_, rfl, by decide, by decide⟩
/-- … and the acceptor rejects their deletion, at every opcode of the family, while the 512-bit form may go. -/
theorem vex_self_judgement :
    vexFullMoves.all (fun o =>
      !isNoopKind (movKind o (v3 S128) (v3 S128)) && !isNoopKind (movKind o (v3 S256) (v3 S256)) &&
      isNoopKind (movKind o (v3 S512) (v3 S512))) = true := by decide +kernel
theorem vex512_self_noop (σ : RegFile) : execMov "VMOVDQU64" (v3 S512) (v3 S512) σ = some σ :=
  execMov_noopKind _ _ (by decide +kernel) σ
/-- Legacy SSE moves preserve everything above bit 127: no-ops. -/
theorem sse_self_noop (σ : RegFile) :
    execMov "MOVAPS" (v3 S128) (v3 S128) σ = some σ ∧ execMov "MOVO" (v3 S128) (v3 S128) σ = some σ ∧
    execMov "MOVSD" (v3 S128) (v3 S128) σ = some σ :=
  ⟨execMov_noopKind _ _ (by decide +kernel) σ, execMov_noopKind _ _ (by decide +kernel) σ,
   execMov_noopKind _ _ (by decide +kernel) σ⟩
/-- `VMOVQ x,x`, `MOVD x,x`: bits 64 and up are cleared. -/
theorem vmovq_self_has_effect : isNoopKind (movKind "VMOVQ" (v3 S128) (v3 S128)) = false ∧
    isNoopKind (movKind "MOVD" (v3 S128) (v3 S128)) = false ∧
    isNoopKind (movKind "MOVDQ2Q" (v3 S128) (v3 S128)) = false := by decide +kernel
/-- Opmask moves zero-extend to 64 bits: only `KMOVQ k,k` is a no-op. -/
theorem kmov_self_judgement :
    isNoopKind (movKind "KMOVB" k3 k3) = false ∧ isNoopKind (movKind "KMOVW" k3 k3) = false ∧
    isNoopKind (movKind "KMOVD" k3 k3) = false ∧ isNoopKind (movKind "KMOVQ" k3 k3) = true := by decide +kernel
/-- Masked moves: merge at 512 bits is a no-op, zeroing or a shorter vector is not. -/
theorem masked_self_judgement :
    isNoopMasked "VMOVDQU32" (v3 S512) k3 (v3 S512) = true ∧
    isNoopMasked "VMOVDQU32.Z" (v3 S512) k3 (v3 S512) = false ∧
    isNoopMasked "VMOVDQU32" (v3 S256) k3 (v3 S256) = false ∧
    isNoopMasked "VMOVAPD" (v3 S128) k3 (v3 S128) = false := by decide +kernel

/-! ## Non-vacuity of the acceptor on the new classes -/

private def ret (uid : Nat) : XNode := .instr ⟨uid, ⟨false, false, true, none⟩, "RET", []⟩
private def mov (uid : Nat) (opc : String) (id mask : Nat) : XNode :=
  .instr ⟨uid, default, opc, [.reg ⟨id, mask⟩, .reg ⟨id, mask⟩]⟩
private def mmov (uid : Nat) (opc : String) (mask : Nat) : XNode :=
  .instr ⟨uid, default, opc, [.reg ⟨197120, mask⟩, .reg k3, .reg ⟨197120, mask⟩]⟩

/-- the seeded change: `VMOVDQU Y3, Y3` deleted -/
example : walk [ret 4] [mov 1 "VMOVDQU" 197120 S256, ret 4] [ret 4] = [.deleted 1] := by decide +kernel
/-- harmless widenings: `MOVOU X3, X3`, `VMOVDQA64 Z3, Z3`, `KMOVQ K3, K3`, merge-masked `VMOVDQU8 Z3, K3, Z3` -/
example : walk [ret 4] [mov 0 "MOVOU" 197120 S128, mov 1 "VMOVDQA64" 197120 S512, mov 2 "KMOVQ" 197376 S64,
    mmov 3 "VMOVDQU8" S512, ret 4] [ret 4] = [] := by decide +kernel
example : walk [ret 4] [mov 1 "KMOVW" 197376 S64, mmov 2 "VMOVDQU8.Z" S512, mmov 3 "VMOVDQU8" S256, ret 4] [ret 4]
    = [.deleted 1, .deleted 2, .deleted 3] := by decide +kernel

end Avo.Cleanup
