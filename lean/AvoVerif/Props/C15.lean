/-
C15 — The frame pointer register survives every generated function.

Whenever a generated function can modify the base-pointer register (the author
named it, or the allocator chose it under pressure) the function is given a
stack frame so that the assembler saves and restores it, and the caller observes
the same base-pointer value after the call; a function marked NOFRAME is refused
with an error.

Generic part: theorems for ALL attribute sets, local sizes 0 ≤ ls < 2^31,
output-register lists, bodies and machine states.  The upper bound is NOT
granted by the property's quantifier: the assembler truncates the declared frame
to int32 (`autoffset`, Model/BP), avo does not refuse such frames, and the
property FAILS there (`bp_wrapped_frame_not_saved`, finding F18).  Facts about avo's register table, the pass
order and the measured behaviour of the installed assembler are in
Props/C15Tables.lean.
-/
import AvoVerif.Model.BP
namespace Avo.BP
open Avo.Reg

/-! ### The pass -/

/-- **bp_saved.**  If the pass succeeds on a function that clobbers BP (local
size ≥ 0 as the property quantifies: "frame sizes 0 and >0"; and below 2^31 —
the explicit hypothesis the quantifier does not grant, see
`bp_wrapped_frame_not_saved`), the function is not NOFRAME, the resulting frame
is positive, is the frame the assembler allocates, and the assembler's rule —
the installed one and the older one quoted in pass/reg.go — saves BP, whatever
NOSPLIT and whether or not the function calls. -/
theorem bp_saved (nf : Bool) (ls ls' : Int) (h0 : 0 ≤ ls) (hlt : ls < frameLimit)
    (h : ensureBP nf ls true = .ok ls') :
    nf = false ∧ ls' > 0 ∧ autoffset ls' = ls' ∧
    ∀ nosplit hasCall, asmSavesBP ls' nf nosplit hasCall = true ∧
                       asmSavesBPQuoted ls' nf nosplit hasCall = true := by
  unfold ensureBP at h
  cases nf with
  | true => simp at h
  | false =>
    have hpos : ls' > 0 ∧ ls' < frameLimit := by
      simp only [Bool.not_true, Bool.false_eq_true, if_false] at h
      by_cases hz : ls = 0
      · subst hz
        simp [pointerSize] at h
        unfold frameLimit; omega
      · have : (ls == 0) = false := by simpa using hz
        simp [this] at h
        omega
    have ha : autoffset ls' = ls' := autoffset_of_lt ls' (by omega) hpos.2
    refine ⟨rfl, hpos.1, ha, ?_⟩
    intro ns hc
    have hne : (ls' == 0) = false := by
      have : ls' ≠ 0 := by omega
      simpa using this
    simp [asmSavesBP, asmSavesBPQuoted, ha, hne]

/-- **The property fails at and above 2^31 (finding F18).**  For every declared
local size in [2^31, 2^32) the pass accepts a BP-clobbering function unchanged,
yet the assembler (int32 truncation of the frame) allocates no frame and does
not save BP in a leaf — under either rule.  Witness: `AllocLocal(1<<31)`. -/
theorem bp_wrapped_frame_not_saved (ls : Int) (h1 : frameLimit ≤ ls) (h2 : ls < 2 * frameLimit) (ns : Bool) :
    ensureBP false ls true = .ok ls ∧ autoffset ls = 0 ∧
    asmSavesBP ls false ns false = false ∧ asmSavesBPQuoted ls false ns false = false := by
  unfold frameLimit at h1 h2
  have hz : (ls == 0) = false := by
    have : ls ≠ 0 := by omega
    simpa using this
  have ha : autoffset ls = 0 := by
    unfold autoffset wrap32; split <;> omega
  refine ⟨by simp [ensureBP, hz], ha, ?_, ?_⟩ <;> simp [asmSavesBP, asmSavesBPQuoted, ha]

example : ensureBP false 2147483648 true = .ok 2147483648 ∧ asmSavesBP 2147483648 false false false = false :=
  ⟨(bp_wrapped_frame_not_saved 2147483648 (by decide) (by decide) false).1,
   (bp_wrapped_frame_not_saved 2147483648 (by decide) (by decide) false).2.2.1⟩
/-- 2^32 + 8 is allocated as an 8-byte frame: BP is saved, the locals are not inside it (C16). -/
example : autoffset 4294967304 = 8 := by decide

example : ensureBP false 0 true = .ok 8 := by simp [ensureBP, pointerSize]
example : ensureBP false 24 true = .ok 24 := by simp [ensureBP]

/-- **bp_noframe_refused.**  A NOFRAME function that clobbers BP is an error,
for every local size. -/
theorem bp_noframe_refused (ls : Int) : ensureBP true ls true = .error .noframeClobbersBP := by
  simp [ensureBP]

/-- **bp_untouched_when_not_clobbered.** -/
theorem bp_untouched_when_not_clobbered (nf : Bool) (ls : Int) : ensureBP nf ls false = .ok ls := by
  simp [ensureBP]

/-- The pass errs only for a clobbering NOFRAME function. -/
theorem bp_error_only_noframe (nf c : Bool) (ls : Int) (e : BPErr) (h : ensureBP nf ls c = .error e) :
    c = true ∧ nf = true := by
  unfold ensureBP at h
  cases c <;> cases nf <;> simp at h ⊢
  split at h <;> simp at h

example : ensureBP true 16 true = .error .noframeClobbersBP := by simp [ensureBP]

/-- The pass never shrinks the frame and changes it only from 0 to 8. -/
theorem ensureBP_frame (nf c : Bool) (ls ls' : Int) (h : ensureBP nf ls c = .ok ls') :
    ls' = ls ∨ (ls = 0 ∧ ls' = 8 ∧ c = true ∧ nf = false) := by
  cases c with
  | false =>
    rw [bp_untouched_when_not_clobbered] at h
    exact .inl (by injection h with h; exact h.symm)
  | true =>
    cases nf with
    | true => rw [bp_noframe_refused] at h; cases h
    | false =>
      by_cases hz : ls = 0
      · subst hz
        have : ensureBP false 0 true = .ok 8 := by simp [ensureBP, pointerSize]
        rw [this] at h
        exact .inr ⟨rfl, by injection h with h; exact h.symm, rfl, rfl⟩
      · have hb : (ls == 0) = false := by simpa using hz
        have : ensureBP false ls true = .ok ls := by simp [ensureBP, hb]
        rw [this] at h
        exact .inl (by injection h with h; exact h.symm)

/-- Why local sizes below zero are outside the statement: the pass leaves a
negative size alone and the assembler treats it as 0 — a leaf is not saved.
(`AllocLocal` with a negative size is C16's out-of-scope input.) -/
theorem bp_negative_frame_not_saved :
    ensureBP false (-8) true = .ok (-8) ∧ asmSavesBP (-8) false false false = false := by
  constructor
  · simp [ensureBP]
  · decide

/-! ### The assembler's rule -/

/-- With a positive frame below 2^31 and no NOFRAME both rules save BP. -/
theorem asm_saves_of_frame (frame : Int) (ns hc : Bool) (h : frame > 0) (hlt : frame < frameLimit) :
    asmSavesBP frame false ns hc = true ∧ asmSavesBPQuoted frame false ns hc = true := by
  have ha : autoffset frame = frame := autoffset_of_lt frame (by omega) hlt
  have hne : (frame == 0) = false := by
    have : frame ≠ 0 := by omega
    simpa using this
  simp [asmSavesBP, asmSavesBPQuoted, ha, hne]

example : asmSavesBP 8 false true false = true ∧ asmSavesBPQuoted 8 false true false = true :=
  asm_saves_of_frame 8 true false (by decide) (by decide)

/-- In general: both rules save BP of a non-NOFRAME function iff the frame the
assembler really allocates is positive (for a leaf; the installed rule also
saves when the function calls). -/
theorem asm_saves_iff (frame : Int) (ns : Bool) :
    (asmSavesBP frame false ns false = true ↔ autoffset frame > 0) ∧
    (asmSavesBPQuoted frame false ns false = true ↔ autoffset frame > 0) := by
  have := (autoffset_range frame).1
  by_cases hz : autoffset frame = 0
  · simp [asmSavesBP, asmSavesBPQuoted, hz]
  · have hne : (autoffset frame == 0) = false := by simpa using hz
    simp [asmSavesBP, asmSavesBPQuoted, hne]; omega

/-- NOFRAME is never saved (so refusing is the only sound answer), and neither is
a frameless leaf: the 8-byte local is what makes the difference. -/
theorem asm_never_saves_noframe (frame : Int) (ns hc : Bool) :
    asmSavesBP frame true ns hc = false ∧ asmSavesBPQuoted frame true ns hc = false := by
  simp [asmSavesBP, asmSavesBPQuoted]

theorem asm_frameless_leaf_not_saved (nf ns : Bool) :
    asmSavesBP 0 nf ns false = false ∧ asmSavesBPQuoted 0 nf ns false = false := by
  cases nf <;> cases ns <;> decide

/-- The quoted (older) rule is the stricter one: whatever it saves, the
installed rule saves too. -/
theorem quoted_implies_installed (frame : Int) (nf ns hc : Bool)
    (h : asmSavesBPQuoted frame nf ns hc = true) : asmSavesBP frame nf ns hc = true := by
  cases nf <;> cases ns <;> cases hc <;> simp_all [asmSavesBP, asmSavesBPQuoted]

/-! ### What saving buys: the caller's BP -/

/-- **saved_bp_restored.**  With the save/restore pair around it, ANY body that
is stack-balanced and writes only inside its frame returns with the caller's
BP and SP — however it changes BP in between. -/
theorem saved_bp_restored (frame : Int) (body : M → M) (hb : BodyOK frame body) (s : M) :
    (runFn true frame body s).bp = s.bp ∧ (runFn true frame body s).sp = s.sp := by
  simp only [runFn, if_true]
  obtain ⟨hsp, hmem⟩ := hb ({ (s.store (s.sp - 8) s.bp) with sp := s.sp - 8 - frame, bp := s.sp - 8 })
  simp only at hsp hmem
  constructor
  · rw [hsp]
    have h1 : s.sp - 8 - frame + frame = s.sp - 8 := by omega
    rw [h1, hmem (s.sp - 8) (by omega)]
    simp [M.store]
  · rw [hsp]; omega

/-- Without it the caller sees whatever the body left in BP. -/
theorem unsaved_bp_is_bodys (frame : Int) (body : M → M) (s : M) :
    (runFn false frame body s).bp = (body { s with sp := s.sp - frame }).bp := by
  simp [runFn]

/-- … so a body that sets BP is observed by the caller (the property is not
vacuous: this is what happens to a frameless leaf). -/
theorem unsaved_bp_lost (frame : Int) (s : M) (v : Int) (hv : v ≠ s.bp) :
    ∃ body, BodyOK frame body ∧ (runFn false frame body s).bp ≠ s.bp := by
  refine ⟨fun t => { t with bp := v }, ?_, ?_⟩
  · intro t; exact ⟨rfl, fun _ _ => rfl⟩
  · simp [runFn, hv]

/-! ### The function-level statement -/

/-- **Statement.**  For a function as the pass sees it (after binding), with
local size 0 ≤ ls < 2^31: if the pass accepts it, nothing but the local size
changed, the local size changed only if BP is clobbered, and — when BP is
clobbered — the function is not NOFRAME, the frame the assembler allocates
(`autoffset`) is the declared one and positive, and both assembler rules save BP;
then for every stack-respecting body (which leaves BP alone when no output
register is a BP register: C04) the caller's BP is the same after the call.  If
the pass refuses, the function clobbers BP and is NOFRAME. -/
def C15_statement (tbl : List RegRow) : Prop :=
  ∀ f : Fn, 0 ≤ f.localSize → f.localSize < frameLimit →
    match f.ensure tbl with
    | .ok f' =>
      f'.attrs = f.attrs ∧ f'.outs = f.outs ∧ f'.hasCall = f.hasCall ∧
      (clobbersBP tbl f.outs = false → f'.localSize = f.localSize) ∧
      (clobbersBP tbl f.outs = true →
        attrNoFrame f'.attrs = false ∧ f'.localSize > 0 ∧ autoffset f'.localSize = f'.localSize ∧
        asmSavesBP f'.localSize (attrNoFrame f'.attrs) (attrNoSplit f'.attrs) f'.hasCall = true ∧
        asmSavesBPQuoted f'.localSize (attrNoFrame f'.attrs) (attrNoSplit f'.attrs) f'.hasCall = true) ∧
      (∀ body : M → M, BodyOK (autoffset f'.localSize) body →
        (clobbersBP tbl f.outs = false → ∀ t, (body t).bp = t.bp) →
        ∀ s : M, (runFn (asmSavesBP f'.localSize (attrNoFrame f'.attrs) (attrNoSplit f'.attrs) f'.hasCall)
                    (autoffset f'.localSize) body s).bp = s.bp)
    | .error _ => clobbersBP tbl f.outs = true ∧ attrNoFrame f.attrs = true

/-- **C15** for every register table. -/
theorem C15 (tbl : List RegRow) : C15_statement tbl := by
  intro f h0 hlt
  unfold Fn.ensure
  cases hc : clobbersBP tbl f.outs with
  | false =>
    rw [bp_untouched_when_not_clobbered]
    refine ⟨rfl, rfl, rfl, fun _ => rfl, fun h => by simp at h, ?_⟩
    intro body hb hpres s
    cases hs : asmSavesBP f.localSize (attrNoFrame f.attrs) (attrNoSplit f.attrs) f.hasCall with
    | true => exact (saved_bp_restored _ body hb s).1
    | false => rw [unsaved_bp_is_bodys]; exact hpres rfl _
  | true =>
    cases he : ensureBP (attrNoFrame f.attrs) f.localSize true with
    | error e =>
      exact ⟨rfl, (bp_error_only_noframe _ _ _ _ he).2⟩
    | ok ls =>
      obtain ⟨hnf, hpos, hauto, hsave⟩ := bp_saved _ _ _ h0 hlt he
      have hs := hsave (attrNoSplit f.attrs) f.hasCall
      refine ⟨rfl, rfl, rfl, fun h => by simp at h, fun _ => ⟨hnf, hpos, hauto, hs.1, hs.2⟩, ?_⟩
      intro body hb _ s
      simp only
      rw [hs.1]
      exact (saved_bp_restored _ body hb s).1

/-- The hypotheses of `C15` are satisfiable, and its conclusion is not vacuous:
a concrete body that sets BP and writes into its 8-byte frame. -/
example : BodyOK 8 (fun t => { (t.store t.sp 7) with bp := 4660 }) := by
  intro t; refine ⟨rfl, ?_⟩
  intro a ha; simp [M.store]; omega

/-- Non-vacuity: a frameless NOSPLIT function whose only instruction writes RBP
gets an 8-byte frame; with NOFRAME it is refused.  (Table: the four BP rows.) -/
def exTbl : List RegRow := [⟨"BP", 1, 5, 15, 8, 4, 327936⟩, ⟨"AX", 1, 0, 15, 8, 0, 256⟩]
example : (({ attrs := 4, localSize := 0, outs := [[⟨327936, 15⟩]], hasCall := false } : Fn).ensure exTbl).toOption.map (·.localSize) = some 8 := by
  decide
example : (({ attrs := 512, localSize := 0, outs := [[⟨327936, 15⟩]], hasCall := false } : Fn).ensure exTbl).toOption.map (·.localSize) = none := by
  decide
example : (({ attrs := 512, localSize := 0, outs := [[⟨256, 15⟩]], hasCall := false } : Fn).ensure exTbl).toOption.map (·.localSize) = some 0 := by
  decide

/-! ### The scan -/

/-- The scan sees a BP register wherever it is: any instruction, any position. -/
theorem clobbersBP_iff (tbl : List RegRow) (outs : List (List R)) :
    clobbersBP tbl outs = true ↔ ∃ rs ∈ outs, ∃ r ∈ rs, isBP tbl r = true := by
  simp [clobbersBP, List.any_eq_true]

/-- A virtual register is never counted (the pass runs after binding). -/
theorem isBP_virtual (tbl : List RegRow) (r : R) (h : idIsVirtual r.id = true) : isBP tbl r = false := by
  simp [isBP, h]

/-- The scan is monotone: adding instructions or output registers never hides a
clobber. -/
theorem clobbersBP_append (tbl : List RegRow) (a b : List (List R)) :
    clobbersBP tbl (a ++ b) = (clobbersBP tbl a || clobbersBP tbl b) := by
  simp [clobbersBP, List.any_append]

/-! ### Acceptor -/

/-- What the implementation reported. -/
inductive Outcome where
  | err            -- any error
  | ok (ls : Int)  -- resulting LocalSize
  deriving Repr, DecidableEq

/-- Executable form of the property on the implementation's own outcome:
`clob` = some bound output register is hardware BP.  Only what the property
demands is judged: an error is right only for a clobbering NOFRAME function; an
accepted clobbering function must not be NOFRAME, and the frame `ls'` (the
resulting LocalSize, or the number printed on the TEXT line) must make both
assembler rules save BP — with the assembler's int32 reading of the frame.  How
large the frame is beyond that, and the frame of functions that leave BP alone,
is the exact comparison's business.  `ls` is the local size before the pass: a
refusal is also right for a frame the assembler cannot allocate (within 16 bytes
of 2^31 or above) — avo does not refuse those today (finding), a repair may. -/
def acceptBP (attrs : Nat) (ls : Int) (hasCall clob : Bool) (o : Outcome) : Bool :=
  match o with
  | .err => (clob && attrNoFrame attrs) || decide (frameLimit ≤ ls + 16)
  | .ok ls' => !clob || (!attrNoFrame attrs && decide (autoffset ls' > 0) &&
        asmSavesBP ls' (attrNoFrame attrs) (attrNoSplit attrs) hasCall &&
        asmSavesBPQuoted ls' (attrNoFrame attrs) (attrNoSplit attrs) hasCall)

/-- **The property on one outcome, declaratively**: a refusal only of a
clobbering NOFRAME function (or of a frame no assembler run can allocate); an accepted clobbering function is not NOFRAME, the
assembler allocates a positive frame, both rules save BP, and — the observable
clause — for EVERY stack-respecting body the caller's BP and SP are the same
after the call. -/
def OutcomeOK (attrs : Nat) (ls : Int) (hasCall clob : Bool) : Outcome → Prop
  | .err => (clob = true ∧ attrNoFrame attrs = true) ∨ frameLimit ≤ ls + 16
  | .ok ls' => clob = true →
      attrNoFrame attrs = false ∧ autoffset ls' > 0 ∧
      asmSavesBP ls' (attrNoFrame attrs) (attrNoSplit attrs) hasCall = true ∧
      asmSavesBPQuoted ls' (attrNoFrame attrs) (attrNoSplit attrs) hasCall = true ∧
      ∀ body : M → M, BodyOK (autoffset ls') body → ∀ s : M,
        (runFn (asmSavesBP ls' (attrNoFrame attrs) (attrNoSplit attrs) hasCall) (autoffset ls') body s).bp = s.bp ∧
        (runFn (asmSavesBP ls' (attrNoFrame attrs) (attrNoSplit attrs) hasCall) (autoffset ls') body s).sp = s.sp

/-- **Soundness**: whatever the acceptor accepts satisfies the property's
statement on that outcome (no bound on the frame: the truncation is part of
the judgement). -/
theorem acceptBP_sound (attrs : Nat) (ls : Int) (hc clob : Bool) (o : Outcome)
    (h : acceptBP attrs ls hc clob o = true) : OutcomeOK attrs ls hc clob o := by
  cases o with
  | err => simpa [acceptBP, OutcomeOK] using h
  | ok ls' =>
    intro hclob
    subst hclob
    simp only [acceptBP, Bool.not_true, Bool.false_or, Bool.and_eq_true,
      Bool.not_eq_true', decide_eq_true_eq] at h
    refine ⟨h.1.1.1, h.1.1.2, h.1.2, h.2, ?_⟩
    intro body hb s
    rw [h.1.2]
    exact saved_bp_restored _ body hb s

/-- The acceptor decides the statement: the converse of soundness (so a rejected
outcome really violates the property's statement). -/
theorem acceptBP_iff (attrs : Nat) (ls : Int) (hc clob : Bool) (o : Outcome) :
    acceptBP attrs ls hc clob o = true ↔ OutcomeOK attrs ls hc clob o := by
  refine ⟨acceptBP_sound attrs ls hc clob o, ?_⟩
  intro h
  cases o with
  | err => simpa [acceptBP, OutcomeOK] using h
  | ok ls' =>
    cases clob with
    | false => simp [acceptBP]
    | true =>
      obtain ⟨h1, h2, h3, h4, _⟩ := h rfl
      rw [h1] at h3 h4
      simp [acceptBP, h1, h2, h3, h4]

/-- Completeness: the model's own outcome is accepted (local size 0 ≤ ls < 2^31). -/
theorem acceptBP_complete (attrs : Nat) (ls : Int) (hc clob : Bool) (h0 : 0 ≤ ls) (hlt : ls < frameLimit) :
    acceptBP attrs ls hc clob
      (match ensureBP (attrNoFrame attrs) ls clob with | .error _ => .err | .ok l => .ok l) = true := by
  cases clob with
  | false => simp [acceptBP, bp_untouched_when_not_clobbered]
  | true =>
    cases he : ensureBP (attrNoFrame attrs) ls true with
    | error e =>
      have := (bp_error_only_noframe _ _ _ _ he).2
      simp [acceptBP, this]
    | ok l =>
      obtain ⟨hnf, hpos, hauto, hs⟩ := bp_saved _ _ _ h0 hlt he
      have := hs (attrNoSplit attrs) hc
      simp only [acceptBP, Bool.not_true, Bool.false_or]
      simp only [hnf] at this
      simp [hnf, hauto, hpos, this.1, this.2]

/-- … and at the witness of finding F18 the model's own outcome is REJECTED: the
pass hands a 2^31-byte frame to an assembler that allocates none. -/
theorem acceptBP_rejects_wrapped :
    ensureBP false 2147483648 true = .ok 2147483648 ∧
    acceptBP 0 2147483648 false true (.ok 2147483648) = false := by
  constructor
  · exact (bp_wrapped_frame_not_saved 2147483648 (by decide) (by decide) false).1
  · decide

example : acceptBP 4 0 false true (.ok 8) = true := by decide
example : acceptBP 4 0 false true (.ok 0) = false := by decide
example : acceptBP 512 0 false true (.ok 8) = false := by decide
example : acceptBP 516 0 true true .err = true := by decide
example : acceptBP 4 0 true false .err = false := by decide      -- refusing a function that leaves BP alone
example : acceptBP 0 0 false true (.ok 4294967304) = true := by decide   -- the assembler allocates 8 bytes
example : acceptBP 0 0 true true (.ok 2147483648) = false := by decide   -- no frame is allocated, whatever the rule says about callers

end Avo.BP
