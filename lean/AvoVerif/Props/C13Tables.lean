/-
C13 on the regenerated BEHAVIOURAL table of constant types (Gen.Consts): the
list of types of package operand that implement `Constant` (go/types), and what
`Asm()` / `Bytes()` of the compiled package return on boundary values of each.
The model's `Const.asm` / `Const.size` render every vector identically, and the
assembler model converts the text of every float vector back to its bit pattern.
Nothing is compared with source text: rewriting the methods without changing
what they return changes nothing here.  Re-checked by the kernel whenever the
regenerated table differs.
-/
import AvoVerif.Props.C13
import AvoVerif.Gen.Consts
namespace Avo.Data
open Avo.NumText

def tyOfName : String → Option IntTy
  | "I8" => some I8 | "U8" => some U8 | "I16" => some I16 | "U16" => some U16
  | "I32" => some I32 | "U32" => some U32 | "I64" => some I64 | "U64" => some U64
  | _ => none

/-- The printed form as bytes, for ASCII text (integers, floats); string
literals are bytes already. -/
def ValText.ascii : ValText → List Nat
  | .num cs => 36 :: cs.map Char.toNat
  | .flt cs => 36 :: 40 :: cs.map Char.toNat ++ [41]
  | .str lit => 36 :: lit

/-- The model covers exactly the constant types the package declares. -/
theorem const_types_agree :
    Avo.Gen.constTypeNames = ["F32", "F64", "I16", "I32", "I64", "I8", "String", "U16", "U32", "U64", "U8"] := by
  decide

def intVectorOK (r : String × Int × List Nat × Nat) : Bool :=
  match tyOfName r.1 with
  | some ty => decide (ty.InRange r.2.1) && ((Const.int ty r.2.1).asm (fun _ => false)).ascii == r.2.2.1 &&
      (Const.int ty r.2.1).size == r.2.2.2
  | none => false

/-- the text between `$(` and `)` -/
def floatBody (t : List Nat) : Option (List Char) :=
  match t with
  | 36 :: 40 :: r =>
    match r.reverse with
    | 41 :: b => some (b.reverse.map Char.ofNat)
    | _ => none
  | _ => none

def floatVectorOK (r : Nat × Nat × List Nat) : Bool :=
  match floatBody r.2.2 with
  | some body => (r.1 == 4 || r.1 == 8) && Avo.Float.asmFloat body r.1 == some r.2.1
  | none => false

def strVectorOK (r : List Nat × List Nat × Nat) : Bool :=
  ((Const.str r.1).asm (fun _ => false)).ascii == r.2.1 && (Const.str r.1).size == r.2.2

/-- **Integers**: on every vector (each of the eight types at its boundaries)
the compiled `Asm()` returns the model's text (`$%+d` / `$%#0Nx`) and `Bytes()`
the model's size. -/
theorem int_vectors_agree : Avo.Gen.intVectors.all intVectorOK = true ∧ 100 ≤ Avo.Gen.intVectors.length ∧
    (["I8", "I16", "I32", "I64", "U8", "U16", "U32", "U64"].all
      (fun n => Avo.Gen.intVectors.any (fun r => r.1 == n))) = true := by
  decide +kernel

/-- **Strings**: the compiled `Asm()` is `$` + the model's ASCII-only quoting,
`Bytes()` the length. -/
theorem str_vectors_agree : Avo.Gen.strVectors.all strVectorOK = true ∧ 20 ≤ Avo.Gen.strVectors.length := by
  decide +kernel

/-- **Floats**: `Asm()` is `$(text)`, `Bytes()` is 4 / 8, and the assembler model
(a literal without a decimal point is an INTEGER for cmd/asm) converts the text
back to the constant's bit pattern — `ConstOK` holds on every vector, among them
0, -0, subnormals, the largest finite values, integral values (issue 387) and
the F11 witnesses. -/
theorem float_vectors_agree : Avo.Gen.floatVectors.all floatVectorOK = true ∧ 40 ≤ Avo.Gen.floatVectors.length ∧
    Avo.Gen.floatVectors.any (fun r => r.1 == 4) = true ∧ Avo.Gen.floatVectors.any (fun r => r.1 == 8) = true := by
  decide +kernel

end Avo.Data
