/-
C13 on the regenerated table of constant types (Gen.constTable, from
operand/zconst.go and operand/const.go): the format verbs and byte sizes the
source uses are the ones the model's `Const.asm` / `Const.size` stand for.
Re-checked by the kernel whenever the source changes.
-/
import AvoVerif.Props.C13
import AvoVerif.Gen.Consts
namespace Avo.Data
open Avo.NumText

def dec (n : Nat) : String := String.ofList (digits 10 n)

/-- How the source must describe an integer constant type for the model to be
its model: name, underlying Go type, `Asm()` verb, `Bytes()`.
Signed: `$%+d` (`intDecPlus`); unsigned: `$%#0Nx` with N = 2·bytes (`hexPad (2·bytes)`). -/
def IntTy.row (ty : IntTy) : String × String × String × String :=
  ((if ty.signed then "I" else "U") ++ dec (8 * ty.bytes),
   (if ty.signed then "int" else "uint") ++ dec (8 * ty.bytes),
   (if ty.signed then "$%+d" else "$%#0" ++ dec (2 * ty.bytes) ++ "x"),
   dec ty.bytes)

def expectedConstTable : List (String × String × String × String) :=
  intTypes.map IntTy.row ++
  [("F32", "float32", "$(%s)", "4"), ("F64", "float64", "$(%s)", "8"), ("String", "string", "$%+q", "len(s)")]

/-- The source declares exactly the constant types of the model, with the
verbs and sizes the model assumes. -/
theorem const_table_agrees :
    expectedConstTable.all (fun r => Avo.Gen.constTable.contains r) = true ∧
    Avo.Gen.constTable.length = expectedConstTable.length := by decide

/-- Floats are printed with the shortest decimal that identifies the value in
its own precision (`FormatFloat(x, 'f', -1, bits)`, `.0` appended to integral
values): F64 with 64 bits; F32 with 32 bits, falling back to the float64-exact
decimal when the assembler's conversion (ParseFloat 64, then float32) would not
give the value back (fix of F11).  Whether the text survives the assembler is
the measured part of C13. -/
theorem float_format_agrees :
    Avo.Gen.floatStringBits =
      [("F32", ["32", "64"], ["strconv.ParseFloat(s,64);err!=nil||float32(x)!=float32(f)"]),
       ("F64", ["64"], [])] ∧
    Avo.Gen.asmfloatFormat = ("'f'", "-1", "bits", "\".0\"") := by decide

end Avo.Data
