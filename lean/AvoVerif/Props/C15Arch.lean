/-
C15 — the property over ARCHITECTURAL writes (Model/BPArch).

* `execAll_preserves_bp`: a body none of whose instructions is declared to write
  a view of GP register 5 leaves BP alone — for every instruction list whose
  declarations cover the processor's writes of register 5 (`Covers`: any lane,
  any width, any value — there is NO exemption for instructions that "look like
  a no-op").  This discharges the hypothesis of `C15` that used to be assumed.
* `C15_arch`: the function-level statement with that hypothesis gone.
* `exempt_scan_sound` / `exempting_movl_self_violates`: a scan that leaves some
  instructions out is sound exactly when those instructions preserve BP
  architecturally; the 8-, 16- and 64-bit self-moves do, the 32-bit self-move
  `MOVL BP, BP` does NOT (it clears the upper half): with it exempted, a NOFRAME
  function is accepted and the caller's BP is lost.  Negation witness with the
  values of the demonstration (0xc000124ed0 → 0x124ed0).
* `acceptBPForm_sound`: the acceptor of the form sweep.
-/
import AvoVerif.Model.BPArch
import AvoVerif.Props.C15
namespace Avo.BP
open Avo.Reg

/-! ### Writes that miss register 5 -/

theorem isBPHW_eq (r : R) : isBPHW r = (isPhysGP r && idIndex r.id == 5) := by
  simp [isBPHW, isPhysGP, Bool.and_assoc]

/-- A write to any other register leaves BP alone. -/
theorem applyWrite_other (σ : GPFile) (w : AWrite) (h : isBPHW w.dst = false) : applyWrite σ w 5 = σ 5 := by
  rw [isBPHW_eq] at h
  simp [applyWrite, h]

theorem applyWrites_no_bp (ws : List AWrite) (σ : GPFile) (h : ∀ w ∈ ws, isBPHW w.dst = false) :
    applyWrites σ ws 5 = σ 5 := by
  induction ws generalizing σ with
  | nil => rfl
  | cons w ws ih =>
    simp only [applyWrites, List.foldl_cons]
    have := ih (applyWrite σ w) (fun x hx => h x (List.mem_cons_of_mem _ hx))
    simp only [applyWrites] at this
    rw [this]
    exact applyWrite_other σ w (h w (List.mem_cons_self ..))

/-- An instruction whose declaration covers its writes of register 5 and which
declares no view of register 5 as output leaves BP alone. -/
theorem exec_preserves_bp (i : AInstr) (hc : Covers i) (hn : i.outs.any isBPHW = false) (σ : GPFile) :
    i.exec σ 5 = σ 5 := by
  apply applyWrites_no_bp
  intro w hw
  cases hb : isBPHW w.dst with
  | false => rfl
  | true => have := hc σ w hw hb; rw [hn] at this; cases this

/-- **execAll_preserves_bp.**  No instruction of the body is declared to write a
view of register 5 ⇒ the body leaves BP alone.  For every instruction list;
nothing is exempt. -/
theorem execAll_preserves_bp (is : List AInstr) (hc : ∀ i ∈ is, Covers i)
    (hn : clobbersBPHW (is.map (·.outs)) = false) (σ : GPFile) : execAll is σ 5 = σ 5 := by
  induction is generalizing σ with
  | nil => rfl
  | cons i is ih =>
    simp only [clobbersBPHW, List.map_cons, List.any_cons, Bool.or_eq_false_iff] at hn
    simp only [execAll, List.foldl_cons]
    have h1 := ih (fun x hx => hc x (List.mem_cons_of_mem _ hx)) (by simpa [clobbersBPHW] using hn.2) (i.exec σ)
    simp only [execAll] at h1
    rw [h1]
    exact exec_preserves_bp i (hc i (List.mem_cons_self ..)) hn.1 σ

/-- The same for a scan with exemptions: sound provided every exempted
instruction preserves BP architecturally. -/
theorem exempt_scan_sound (ex : AInstr → Bool) (is : List AInstr) (hc : ∀ i ∈ is, Covers i)
    (hex : ∀ i ∈ is, ex i = true → ∀ σ, i.exec σ 5 = σ 5)
    (hn : clobbersExempt ex is = false) (σ : GPFile) : execAll is σ 5 = σ 5 := by
  induction is generalizing σ with
  | nil => rfl
  | cons i is ih =>
    simp only [clobbersExempt, List.any_cons, Bool.or_eq_false_iff] at hn
    simp only [execAll, List.foldl_cons]
    have h1 := ih (fun x hx => hc x (List.mem_cons_of_mem _ hx)) (fun x hx => hex x (List.mem_cons_of_mem _ hx))
      (by simpa [clobbersExempt] using hn.2) (i.exec σ)
    simp only [execAll] at h1
    rw [h1]
    cases he : ex i with
    | true => exact hex i (List.mem_cons_self ..) he σ
    | false =>
      have : i.outs.any isBPHW = false := by simpa [he] using hn.1
      exact exec_preserves_bp i (hc i (List.mem_cons_self ..)) this σ

/-! ### Self-moves -/

theorem movSelf_exec (mask : Nat) (σ : GPFile) :
    (movSelf mask).exec σ 5 = writeView mask (σ 5) (readView mask (σ 5)) := by
  simp [movSelf, AInstr.exec, applyWrites, applyWrite, isPhysGP, bpID, idIsVirtual, idKind, idIndex, kindGP]

/-- `MOVB/MOVW/MOVQ BP, BP` leave the register as it is. -/
theorem selfmove_8_16_64_preserves (mask : Nat) (hm : mask = S8L ∨ mask = S16 ∨ mask = S64) (σ : GPFile)
    (h64 : σ 5 < W64) : (movSelf mask).exec σ 5 = σ 5 := by
  rw [movSelf_exec]
  unfold W64 at h64
  rcases hm with rfl | rfl | rfl <;> simp [writeView, readView, S8L, S8H, S16, S32, S64, W64] <;> omega

/-- `MOVL BP, BP` leaves the register as it is iff its upper half is already zero. -/
theorem movl_self_iff (σ : GPFile) : (movSelf S32).exec σ 5 = σ 5 ↔ σ 5 < W32 := by
  rw [movSelf_exec]
  simp [writeView, readView, S8L, S8H, S16, S32, W32]

/-- **Negation witness** (the values of the seeded demonstration): a frame
pointer 0xc000124ed0 comes back from `MOVL BP, BP` as 0x124ed0. -/
theorem movl_self_changes_bp :
    (movSelf S32).exec (fun _ => 0xc000124ed0) 5 = 0x124ed0 ∧ (0x124ed0 : Nat) ≠ 0xc000124ed0 := by
  rw [movSelf_exec]
  decide

/-- The declaration of every self-move covers its write. -/
theorem movSelf_covers (mask : Nat) : Covers (movSelf mask) := by
  intro σ w _ _
  simp [movSelf, isBPHW, bpID, idIsVirtual, idKind, idIndex, kindGP]

/-- **exempting_movl_self_violates.**  A scan that exempts self-moves does not
see `MOVL BP, BP` (the full scan does); the pass then accepts the NOFRAME
function unchanged, no assembler rule saves BP, and the caller's BP is lost. -/
theorem exempting_movl_self_violates :
    let is := [movSelf S32]
    (∀ i ∈ is, Covers i) ∧
    clobbersBPHW (is.map (·.outs)) = true ∧ clobbersExempt (fun _ => true) is = false ∧
    ensureBP true 0 (clobbersExempt (fun _ => true) is) = .ok 0 ∧
    (∀ ns hc, asmSavesBP 0 true ns hc = false) ∧
    ∃ (s : M) (σ : GPFile), (σ 5 : Int) = s.bp ∧
      (runFn false 0 (fun t => { t with bp := ((execAll is σ 5 : Nat) : Int) }) s).bp ≠ s.bp := by
  refine ⟨?_, by decide, by decide, rfl, ?_, ?_⟩
  · intro i hi
    simp only [List.mem_singleton] at hi
    subst hi
    exact movSelf_covers S32
  · intro ns hc; exact (asm_never_saves_noframe 0 ns hc).1
  · refine ⟨⟨0xc000124ed0, 0, fun _ => 0⟩, fun _ => 0xc000124ed0, rfl, ?_⟩
    have h : execAll [movSelf S32] (fun _ => 0xc000124ed0) 5 = 0x124ed0 := by
      simp only [execAll, List.foldl_cons, List.foldl_nil]
      exact movl_self_changes_bp.1
    simp only [runFn, h]
    decide

/-- … whereas exempting the 8-, 16- and 64-bit self-moves is harmless (such a
rewrite of the pass must not be reported). -/
example (σ : GPFile) (h : σ 5 < W64) : execAll [movSelf S64, movSelf S16, movSelf S8L] σ 5 = σ 5 := by
  have h1 := selfmove_8_16_64_preserves S64 (.inr (.inr rfl)) σ h
  simp only [execAll, List.foldl_cons, List.foldl_nil]
  have h2 := selfmove_8_16_64_preserves S16 (.inr (.inl rfl)) ((movSelf S64).exec σ) (by rw [h1]; exact h)
  have h3 := selfmove_8_16_64_preserves S8L (.inl rfl) ((movSelf S16).exec ((movSelf S64).exec σ)) (by rw [h2, h1]; exact h)
  rw [h3, h2, h1]

/-- Any view can change the register (so a write in any width counts). -/
theorem any_view_can_change_bp :
    ∀ mask ∈ [S8L, S16, S32, S64], ∃ old v, old < W64 ∧ writeView mask old v ≠ old := by
  intro mask hm
  simp only [List.mem_cons, List.not_mem_nil, or_false] at hm
  rcases hm with rfl | rfl | rfl | rfl <;> exact ⟨0, 1, by decide, by decide⟩

/-! ### The function-level statement, without the assumed hypothesis -/

/-- **C15_arch.**  `is`: the instructions of the body, `f.outs` their declared
outputs.  Under `Covers` (C04 restricted to register 5) and for a register table
whose BasePointer rows include every view of register 5 that occurs, the
caller's BP is the same after the call for EVERY body whose effect on BP is that
of executing `is` — whatever the instructions are (self-moves, exchanges, moves
of BP onto itself in any width included). -/
theorem C15_arch (tbl : List RegRow) (f : Fn) (is : List AInstr) (houts : f.outs = is.map (·.outs))
    (hcov : ∀ i ∈ is, Covers i)
    (htbl : ∀ rs ∈ f.outs, ∀ r ∈ rs, isBPHW r = true → isBP tbl r = true)
    (h0 : 0 ≤ f.localSize) (hlt : f.localSize < frameLimit) :
    match f.ensure tbl with
    | .ok f' =>
      ∀ body : M → M, BodyOK (autoffset f'.localSize) body →
        (∀ t, ∃ σ : GPFile, (σ 5 : Int) = t.bp ∧ (body t).bp = ((execAll is σ 5 : Nat) : Int)) →
        ∀ s : M, (runFn (asmSavesBP f'.localSize (attrNoFrame f'.attrs) (attrNoSplit f'.attrs) f'.hasCall)
                    (autoffset f'.localSize) body s).bp = s.bp
    | .error _ => clobbersBP tbl f.outs = true ∧ attrNoFrame f.attrs = true := by
  have hC := C15 tbl f h0 hlt
  cases he : f.ensure tbl with
  | error e => rw [he] at hC; exact hC
  | ok f' =>
    rw [he] at hC
    obtain ⟨_, _, _, _, _, hbody⟩ := hC
    intro body hb hsim s
    apply hbody body hb
    intro hnc t
    obtain ⟨σ, h5, hbp⟩ := hsim t
    have hhw : clobbersBPHW (is.map (·.outs)) = false := by
      rw [← houts]
      cases hh : clobbersBPHW f.outs with
      | false => rfl
      | true =>
        simp only [clobbersBPHW, List.any_eq_true] at hh
        obtain ⟨rs, hrs, r, hr, hb⟩ := hh
        have : clobbersBP tbl f.outs = true :=
          (clobbersBP_iff tbl f.outs).mpr ⟨rs, hrs, r, hr, htbl rs hrs r hr hb⟩
        rw [hnc] at this; cases this
    rw [hbp, execAll_preserves_bp is hcov hhw σ, h5]

/-- Non-vacuity: a NOSPLIT function whose only instruction is `MOVL BP, BP`
gets an 8-byte frame (the table of `exTbl` has the 64-bit row of BP). -/
example : (({ attrs := 4, localSize := 0, outs := [(movSelf S32).outs], hasCall := false } : Fn).ensure exTbl).toOption.map (·.localSize) = some 8 := by
  decide

/-! ### Acceptor of the form sweep -/

/-- `accept-bp-form`: the property on avo's outcome for a one-instruction
function.  A REFUSAL is right when the function can modify BP in the widest
sense (`clobArch`: measured, or a destination operand of the table row, or a
declared output is a view of register 5).  An ACCEPTED function must have its BP
saved when the instruction was MEASURED to change BP or a declared output of the
compiled function is a view of register 5: a destination operand alone does not
demand a frame (`MOVQ BP, BP`, `XCHGQ BP, BP`, `ADDQ $0, BP` cannot modify BP:
leaving them out of the scan is harmless, `exempt_scan_sound`). -/
def acceptBPForm (attrs : Nat) (ls : Int) (hasCall measured : Bool) (dests outs : List R) (o : Outcome) : Bool :=
  match o with
  | .err => acceptBP attrs ls hasCall (clobArch measured dests outs) .err
  | .ok l => acceptBP attrs ls hasCall (measured || outs.any isBPHW) (.ok l)

/-- The notion of "can modify BP" the outcome is judged with. -/
def formClob (measured : Bool) (dests outs : List R) : Outcome → Bool
  | .err => clobArch measured dests outs
  | .ok _ => measured || outs.any isBPHW

theorem acceptBPForm_sound (attrs : Nat) (ls : Int) (hc measured : Bool) (dests outs : List R) (o : Outcome)
    (h : acceptBPForm attrs ls hc measured dests outs o = true) :
    OutcomeOK attrs ls hc (formClob measured dests outs o) o := by
  cases o with
  | err => exact acceptBP_sound attrs ls hc _ .err h
  | ok l => exact acceptBP_sound attrs ls hc _ (.ok l) h

/-- The acceptor decides that statement. -/
theorem acceptBPForm_iff (attrs : Nat) (ls : Int) (hc measured : Bool) (dests outs : List R) (o : Outcome) :
    acceptBPForm attrs ls hc measured dests outs o = true ↔ OutcomeOK attrs ls hc (formClob measured dests outs o) o := by
  cases o with
  | err => exact acceptBP_iff attrs ls hc _ .err
  | ok l => exact acceptBP_iff attrs ls hc _ (.ok l)

/-- What `clobArch` stands for: if executing the instruction writes some lane
of register 5 and the destination list names the destinations of its writes,
`clobArch` holds — with or without a measurement, whatever avo declares. -/
theorem clobArch_of_arch_write (measured : Bool) (dests outs : List R) (ws : List AWrite)
    (hd : ∀ w ∈ ws, w.dst ∈ dests) (w : AWrite) (hw : w ∈ ws) (hb : isBPHW w.dst = true) :
    clobArch measured dests outs = true := by
  have : dests.any isBPHW = true := List.any_eq_true.mpr ⟨w.dst, hd w hw, hb⟩
  simp [clobArch, this]

/-- A measured change alone is enough: the seeded class (the instruction is
declared away, the CPU still changes BP) is judged as clobbering. -/
theorem clobArch_of_measured (dests outs : List R) : clobArch true dests outs = true := by
  simp [clobArch]

-- MOVL BP, BP in a NOFRAME function: accepted without a frame = violation; refused = right
example : acceptBPForm 512 0 false true [⟨bpID, S32⟩] [] (.ok 0) = false := by decide
example : acceptBPForm 512 0 false true [⟨bpID, S32⟩] [⟨bpID, S64⟩] .err = true := by decide
example : acceptBPForm 0 0 false true [] [] (.ok 0) = false := by decide
example : acceptBPForm 4 0 false false [⟨bpID, S32⟩] [⟨bpID, S64⟩] (.ok 8) = true := by decide
-- MOVQ BP, BP (not measured to change BP, pruned afterwards): no frame is demanded, a refusal is tolerated
example : acceptBPForm 0 0 false false [⟨bpID, S64⟩] [] (.ok 0) = true := by decide
example : acceptBPForm 512 0 false false [⟨bpID, S64⟩] [] .err = true := by decide
-- an instruction that only reads BP must not be refused
example : acceptBPForm 512 0 false false [⟨256, S64⟩] [⟨256, S64⟩] .err = false := by decide
example : acceptBPForm 512 0 false false [⟨256, S64⟩] [⟨256, S64⟩] (.ok 0) = true := by decide

end Avo.BP
