/-
C11 — Printed assembly is a faithful rendering of the function.
Statements and property theorems over the model `AvoVerif/Model/Print.lean`.
-/
import AvoVerif.Model.Print
import AvoVerif.Props.C19
namespace Avo.Print
open Avo.Attr

/-! ## 1. Buffering never drops, duplicates or reorders instructions -/

/-- The instruction lines of a printed text, in order. -/
def instrLines : List SLine → List (Txt × List Txt × List Txt)
  | [] => []
  | .instr o s ops _ :: ls => (o, s, ops) :: instrLines ls
  | _ :: ls => instrLines ls

def Instr.key3 (i : Instr) : Txt × List Txt × List Txt := (i.opcode, i.suffixes, i.operands)

theorem instrLines_append (a b : List SLine) : instrLines (a ++ b) = instrLines a ++ instrLines b := by
  induction a with
  | nil => rfl
  | cons x xs ih => cases x <;> simp [instrLines, ih]

theorem instrLines_map_instr (w : Nat) (buf : List Instr) :
    instrLines (buf.map (fun i => SLine.instr i.opcode i.suffixes i.operands w)) = buf.map Instr.key3 := by
  induction buf with
  | nil => rfl
  | cons i is ih => simp [instrLines, ih, Instr.key3]

theorem instrLines_flushBlock (buf : List Instr) : instrLines (flushBlock buf) = buf.map Instr.key3 :=
  instrLines_map_instr _ buf

theorem instrLines_ensureClear (c : Bool) : instrLines (ensureClear c) = [] := by
  cases c <;> rfl

theorem instrLines_icomments (ls : List Txt) : instrLines (ls.map SLine.icomment) = [] := by
  induction ls with
  | nil => rfl
  | cons l ls ih => simp [instrLines, ih]

/-- **flush_complete.** For every node list, every buffer content and clear
flag: the instruction lines printed are exactly the buffered instructions
followed by the node list's instructions — each once, in order. -/
theorem flush_complete (ns : List Node) (buf : List Instr) (clear : Bool) :
    instrLines (printNodes ns buf clear) = (buf ++ instrsOf ns).map Instr.key3 := by
  induction ns generalizing buf clear with
  | nil => simp [printNodes, instrsOf, instrLines_flushBlock]
  | cons n ns ih =>
    cases n with
    | instr i =>
      simp only [printNodes, instrsOf]
      split
      · simp [instrLines_append, instrLines_flushBlock, ih]
      · simp [ih]
    | label l =>
      simp [printNodes, instrsOf, instrLines_append, instrLines_flushBlock, instrLines_ensureClear, ih,
        instrLines]
    | comment ls =>
      simp [printNodes, instrsOf, instrLines_append, instrLines_flushBlock, instrLines_ensureClear, ih,
        instrLines_icomments]

/-- The function body as printed by `goasm.function`. -/
theorem flush_complete_function (names) (f : Function) :
    instrLines (printFunction names f) = (instrsOf f.nodes).map Instr.key3 := by
  unfold printFunction requiresLine
  split <;> simp [instrLines, flush_complete]

/-! ## 2. Labels stay in front of the same instruction -/

/-- Label lines with the number of instruction lines printed before them
(counting from `k`). -/
def labelIdx : List SLine → Nat → List (Txt × Nat)
  | [], _ => []
  | .instr .. :: ls, k => labelIdx ls (k + 1)
  | .label l :: ls, k => (l, k) :: labelIdx ls k
  | _ :: ls, k => labelIdx ls k

theorem labelIdx_append (a b : List SLine) (k : Nat) :
    labelIdx (a ++ b) k = labelIdx a k ++ labelIdx b (k + (instrLines a).length) := by
  induction a generalizing k with
  | nil => simp [labelIdx, instrLines]
  | cons x xs ih =>
    cases x <;> simp [labelIdx, instrLines, ih]
    congr 1; omega

theorem labelIdx_map_instr (w : Nat) (buf : List Instr) (k : Nat) :
    labelIdx (buf.map (fun i => SLine.instr i.opcode i.suffixes i.operands w)) k = [] := by
  induction buf generalizing k with
  | nil => rfl
  | cons i is ih => simp [labelIdx, ih]

theorem labelIdx_flushBlock (buf : List Instr) (k : Nat) : labelIdx (flushBlock buf) k = [] :=
  labelIdx_map_instr _ buf k

theorem labelIdx_ensureClear (c : Bool) (k : Nat) : labelIdx (ensureClear c) k = [] := by
  cases c <;> rfl

theorem labelIdx_icomments (ls : List Txt) (k : Nat) : labelIdx (ls.map SLine.icomment) k = [] := by
  induction ls with
  | nil => rfl
  | cons l ls ih => simp [labelIdx, ih]

/-- **labels_bound.** Every label is printed once, in order, after exactly the
instructions that precede it in the node list: it is bound to the same
instruction as in the program (`labelsFrom` is the IR's LabelTarget in index
form). -/
theorem labels_bound (ns : List Node) (buf : List Instr) (clear : Bool) (k : Nat) :
    labelIdx (printNodes ns buf clear) k = labelsFrom ns (k + buf.length) := by
  induction ns generalizing buf clear k with
  | nil => simp [printNodes, labelsFrom, labelIdx_flushBlock]
  | cons n ns ih =>
    cases n with
    | instr i =>
      simp only [printNodes, labelsFrom]
      split
      · simp [labelIdx_append, labelIdx_flushBlock, instrLines_flushBlock, ih]; congr 1 <;> omega
      · simp [ih]; congr 1 <;> omega
    | label l =>
      simp [printNodes, labelsFrom, labelIdx_append, labelIdx_flushBlock, labelIdx_ensureClear,
        instrLines_flushBlock, instrLines_ensureClear, labelIdx, ih]
    | comment ls =>
      simp [printNodes, labelsFrom, labelIdx_append, labelIdx_flushBlock, labelIdx_ensureClear,
        instrLines_flushBlock, instrLines_ensureClear, instrLines_icomments, labelIdx_icomments, ih]

theorem labels_bound_function (names) (f : Function) :
    labelIdx (printFunction names f) 0 = labelsFrom f.nodes 0 := by
  unfold printFunction requiresLine
  split <;> simp [labelIdx, labels_bound]

/-! ## 3. One TEXT line per function, in file order -/

def textLines : List SLine → List (Txt × Option (List Tok) × Int × Int)
  | [] => []
  | .text n c f a :: ls => (n, c, f, a) :: textLines ls
  | _ :: ls => textLines ls

theorem textLines_append (a b : List SLine) : textLines (a ++ b) = textLines a ++ textLines b := by
  induction a with
  | nil => rfl
  | cons x xs ih => cases x <;> simp [textLines, ih]

theorem textLines_map_instr (w : Nat) (buf : List Instr) :
    textLines (buf.map (fun i => SLine.instr i.opcode i.suffixes i.operands w)) = [] := by
  induction buf with
  | nil => rfl
  | cons i is ih => simp [textLines, ih]

theorem textLines_flushBlock (buf : List Instr) : textLines (flushBlock buf) = [] :=
  textLines_map_instr _ buf

theorem textLines_ensureClear (c : Bool) : textLines (ensureClear c) = [] := by cases c <;> rfl

theorem textLines_icomments (ls : List Txt) : textLines (ls.map SLine.icomment) = [] := by
  induction ls with
  | nil => rfl
  | cons l ls ih => simp [textLines, ih]

theorem textLines_printNodes (ns : List Node) (buf : List Instr) (clear : Bool) :
    textLines (printNodes ns buf clear) = [] := by
  induction ns generalizing buf clear with
  | nil => simp [printNodes, textLines_flushBlock]
  | cons n ns ih =>
    cases n with
    | instr i =>
      simp only [printNodes]
      split <;> simp [textLines_append, textLines_flushBlock, ih]
    | label l => simp [printNodes, textLines_append, textLines_flushBlock, textLines_ensureClear, textLines, ih]
    | comment ls =>
      simp [printNodes, textLines_append, textLines_flushBlock, textLines_ensureClear, textLines_icomments, ih]

theorem textLines_map_of_not_text {α} (g : α → SLine) (xs : List α)
    (h : ∀ x, textLines [g x] = []) : textLines (xs.map g) = [] := by
  induction xs with
  | nil => rfl
  | cons x xs ih =>
    have := h x
    rw [List.map_cons, ← List.singleton_append, textLines_append, this, ih]; rfl

theorem textLines_printFunction (names) (f : Function) :
    textLines (printFunction names f) = [(f.name, textClause names f.attrs, f.frame, f.args)] := by
  unfold printFunction requiresLine
  split <;> simp [textLines, textLines_printNodes]

theorem textLines_printGlobal (names) (g : Global) : textLines (printGlobal names g) = [] := by
  unfold printGlobal
  simp only [textLines_append, textLines, List.append_nil, List.nil_append]
  exact textLines_map_of_not_text _ _ (fun _ => rfl)

theorem textLines_header (cfg : Config) (f : File) : textLines (asmHeader cfg f) = [] := by
  unfold asmHeader asmConstraints constraintLines includeLines
  simp only [textLines_append, textLines]
  split <;> split <;>
    simp [textLines, textLines_map_of_not_text SLine.raw _ (fun _ => rfl),
      textLines_map_of_not_text SLine.incl _ (fun _ => rfl)]

def Function.header (names : List (Nat × String)) (f : Function) : Txt × Option (List Tok) × Int × Int :=
  (f.name, textClause names f.attrs, f.frame, f.args)

/-- **one_text_per_fn / sections_in_order.** The TEXT lines of the printed
file are exactly the file's functions, each once, in file order, with the
function's name, attribute clause, frame size and argument size. -/
theorem one_text_per_fn (names) (cfg : Config) (f : File) :
    textLines (printFile names cfg f) = f.functions.map (Function.header names) := by
  unfold printFile File.functions
  rw [textLines_append, textLines_header, List.nil_append]
  induction f.sections with
  | nil => rfl
  | cons s ss ih =>
    rw [List.flatMap_cons, textLines_append, ih]
    cases s with
    | fn g => simp [printSection, textLines_printFunction, Function.header]
    | gl g => simp [printSection, textLines_printGlobal]

/-! ## 4. Reading the lines back gives the file (structured level) -/

def run (st : PState) (ls : List LLine) : PState := ls.foldl step st

theorem run_append (st : PState) (a b : List LLine) : run st (a ++ b) = run (run st a) b := by
  simp [run, List.foldl_append]

theorem run_cons (st : PState) (a : LLine) (b : List LLine) : run st (a :: b) = run (step st a) b := rfl

theorem run_nil (st : PState) : run st [] = st := rfl

def FnSum.ext (f : FnSum) (is : List (Txt × Txt)) (ls : List (Txt × Nat)) : FnSum :=
  { f with instrs := f.instrs ++ is, labels := f.labels ++ ls }

theorem FnSum.ext_ext (f : FnSum) (a c : List (Txt × Txt)) (b d : List (Txt × Nat)) :
    (f.ext a b).ext c d = f.ext (a ++ c) (b ++ d) := by
  cases f; simp [FnSum.ext]

theorem FnSum.ext_nil (f : FnSum) : f.ext [] [] = f := by cases f; simp [FnSum.ext]

theorem FnSum.ext_instrs_length (f : FnSum) (a b) : (f.ext a b).instrs.length = f.instrs.length + a.length := by
  cases f; simp [FnSum.ext]

def PState.withCur (st : PState) (f : FnSum) : PState := { st with cur := some f }

theorem step_instr (st : PState) (f : FnSum) (o a : Txt) :
    step (st.withCur f) (.instr o a) = st.withCur (f.ext [(o, a)] []) := by
  cases f; simp [step, PState.withCur, FnSum.addInstr, FnSum.ext]

theorem step_label (st : PState) (f : FnSum) (l : Txt) :
    step (st.withCur f) (.label l) = st.withCur (f.ext [] [(l, f.instrs.length)]) := by
  cases f; simp [step, PState.withCur, FnSum.addLabel, FnSum.ext]

theorem run_block (w : Nat) (buf : List Instr) (st : PState) (f : FnSum) :
    run (st.withCur f) ((buf.map (fun i => SLine.instr i.opcode i.suffixes i.operands w)).map abstract) =
      st.withCur (f.ext (buf.map Instr.key) []) := by
  induction buf generalizing f with
  | nil => simp [run_nil, FnSum.ext_nil]
  | cons i is ih =>
    simp only [List.map_cons, run_cons, abstract]
    rw [step_instr, ih, FnSum.ext_ext]
    simp [Instr.key, Instr.ows]

theorem run_flushBlock (buf : List Instr) (st : PState) (f : FnSum) :
    run (st.withCur f) ((flushBlock buf).map abstract) = st.withCur (f.ext (buf.map Instr.key) []) :=
  run_block _ buf st f

theorem run_ensureClear (c : Bool) (st : PState) : run st ((ensureClear c).map abstract) = st := by
  cases c <;> rfl

theorem run_icomments (ls : List Txt) (st : PState) : run st ((ls.map SLine.icomment).map abstract) = st := by
  induction ls generalizing st with
  | nil => rfl
  | cons l ls ih => simp only [List.map_cons, run_cons, abstract, step, ih]

/-- The body of a function, read back: the current function gains exactly the
node list's instructions and label bindings. -/
theorem run_printNodes (ns : List Node) (buf : List Instr) (clear : Bool) (st : PState) (f : FnSum) :
    run (st.withCur f) ((printNodes ns buf clear).map abstract) =
      st.withCur (f.ext ((buf ++ instrsOf ns).map Instr.key) (labelsFrom ns (f.instrs.length + buf.length))) := by
  induction ns generalizing buf clear f with
  | nil => simp [printNodes, instrsOf, labelsFrom, run_flushBlock]
  | cons n ns ih =>
    cases n with
    | instr i =>
      simp only [printNodes, instrsOf, labelsFrom]
      split
      · rw [List.map_append, run_append, run_flushBlock, ih, FnSum.ext_ext, FnSum.ext_instrs_length]
        simp [Nat.add_assoc]
      · rw [ih]; simp [Nat.add_assoc]
    | label l =>
      simp only [printNodes, instrsOf, labelsFrom, List.map_append, run_append, run_flushBlock, run_ensureClear,
        List.map_cons, List.map_nil, run_cons, run_nil, abstract]
      rw [step_label, ih, FnSum.ext_ext, FnSum.ext_ext]
      simp [FnSum.ext_instrs_length]
    | comment ls =>
      simp only [printNodes, instrsOf, labelsFrom, List.map_append, run_append, run_flushBlock, run_ensureClear,
        run_icomments]
      rw [ih, FnSum.ext_ext, FnSum.ext_instrs_length]
      simp

theorem run_requires (isa : List Txt) (st : PState) : run st ((requiresLine isa).map abstract) = st := by
  unfold requiresLine; split <;> rfl

/-- A function section, read back. -/
theorem run_printFunction (names) (f : Function) (st : PState) :
    run st ((printFunction names f).map abstract) =
      { done := st.done ++ curList st.cur, cur := some (fnSum names f), data := st.data,
        includes := st.includes, ok := st.ok && st.data.isEmpty } := by
  unfold printFunction
  simp only [List.map_append, run_append, run_requires, List.map_cons, List.map_nil, run_cons, run_nil, abstract, step]
  have h := run_printNodes f.nodes [] true
    { done := st.done ++ curList st.cur, cur := none, data := st.data, includes := st.includes,
      ok := st.ok && st.data.isEmpty }
    ⟨f.name, textRest (textClause names f.attrs) f.frame f.args, [], []⟩
  simp only [PState.withCur, FnSum.ext, List.nil_append, List.length_nil, Nat.add_zero] at h
  rw [h]; rfl

theorem run_datalines (g : Global) (ds : List Datum) (st : PState) :
    run st ((ds.map (fun d => SLine.data g.sym g.static d.off d.bytes d.value)).map abstract) =
      if ds.isEmpty then st else
      { st with done := st.done ++ curList st.cur, cur := none,
                data := st.data ++ ds.map (fun d => dataAddr g.sym g.static d.off ++ ['/'] ++ dec d.bytes ++ ", ".toList ++ d.value) } := by
  induction ds generalizing st with
  | nil => rfl
  | cons d ds ih =>
    simp only [List.map_cons, run_cons, abstract, step, ih]
    cases ds <;> simp [curList]

/-- A data section, read back. -/
theorem run_printGlobal (names) (g : Global) (st : PState) :
    run st ((printGlobal names g).map abstract) =
      { done := st.done ++ curList st.cur ++ [.gl ⟨st.data ++ (glSum names g).data, (glSum names g).globl⟩],
        cur := none, data := [], includes := st.includes, ok := st.ok } := by
  unfold printGlobal
  simp only [List.map_append, run_append, List.map_cons, List.map_nil, run_cons, run_nil, abstract, step, run_datalines]
  cases h : g.data <;> simp [glSum, h, curList]

def secsDone (st : PState) : List SecSum := st.done ++ curList st.cur

/-- All sections, read back: the parser's sections grow by the summaries of the
printed sections, in order; nothing else changes. -/
theorem run_sections (names) (secs : List Sec) (st : PState) (hd : st.data = []) :
    let st' := run st ((secs.flatMap (printSection names)).map abstract)
    secsDone st' = secsDone st ++ secs.map (secSum names) ∧ st'.data = [] ∧ st'.ok = st.ok ∧
      st'.includes = st.includes := by
  induction secs generalizing st with
  | nil => simp [run_nil, hd]
  | cons s ss ih =>
    simp only [List.flatMap_cons, List.map_append, run_append]
    cases s with
    | fn f =>
      simp only [printSection, run_printFunction]
      have := ih ⟨st.done ++ curList st.cur, some (fnSum names f), st.data, st.includes, st.ok && st.data.isEmpty⟩ hd
      simp only at this
      obtain ⟨h1, h2, h3, h4⟩ := this
      refine ⟨?_, h2, ?_, h4⟩
      · rw [h1]; simp [secsDone, curList, secSum]
      · rw [h3, hd]; simp
    | gl g =>
      simp only [printSection, run_printGlobal]
      have := ih ⟨st.done ++ curList st.cur ++ [.gl ⟨st.data ++ (glSum names g).data, (glSum names g).globl⟩],
        none, [], st.includes, st.ok⟩ rfl
      simp only at this
      obtain ⟨h1, h2, h3, h4⟩ := this
      refine ⟨?_, h2, h3, h4⟩
      rw [h1, hd]; simp [secsDone, curList, secSum]

theorem run_raws (cs : List Txt) (st : PState) : run st ((cs.map SLine.raw).map abstract) = st := by
  induction cs generalizing st with
  | nil => rfl
  | cons c cs ih => simp only [List.map_cons, run_cons, abstract, step, ih]

theorem run_incls (ps : List Txt) (st : PState) :
    run st ((ps.map SLine.incl).map abstract) =
      { st with includes := st.includes ++ ps.map (fun p => '"' :: p ++ ['"']) } := by
  induction ps generalizing st with
  | nil => simp [run_nil]
  | cons c cs ih => simp only [List.map_cons, run_cons, abstract, step, ih]; simp

theorem run_header (cfg : Config) (f : File) :
    run PState.init ((asmHeader cfg f).map abstract) =
      { PState.init with includes := f.includes.map (fun p => '"' :: p ++ ['"']) } := by
  unfold asmHeader asmConstraints constraintLines includeLines
  simp only [List.map_append, run_append, List.map_cons, List.map_nil, run_cons, run_nil, abstract, step]
  have hc : ∀ st, run st (List.map abstract (if f.hasConstraints = true then SLine.blank :: List.map SLine.raw f.constraints else [])) = st := by
    intro st; split
    · simp only [List.map_cons, run_cons, abstract, step, run_raws]
    · rfl
  rw [hc]
  split
  · rename_i h
    have : f.includes = [] := by simpa using h
    simp [this, run_nil, PState.init]
  · simp only [List.map_cons, run_cons, abstract, step, run_incls]; simp [PState.init]

/-- **parse_print (print_faithful, structured level).** For every file —
any mix of functions and data sections, any interleaving of labels, comments
and instructions, empty functions, trailing labels or comments, with or
without constraints and includes — reading the printed lines back yields the
file's includes and, per section in order, the function's name, TEXT clause
and sizes, its instructions (each once, in order, opcode with suffixes and
operands) and the binding of every label to the instruction that follows it
in the program. -/
theorem parse_print (names) (cfg : Config) (f : File) :
    parseFile ((printFile names cfg f).map abstract) = some (fileSum names f) := by
  unfold parseFile printFile
  have hr := run_append PState.init ((asmHeader cfg f).map abstract)
    ((f.sections.flatMap (printSection names)).map abstract)
  simp only [run] at hr
  rw [List.map_append, hr]
  have hh := run_header cfg f
  simp only [run] at hh
  rw [hh]
  have := run_sections names f.sections
    { PState.init with includes := f.includes.map (fun p => '"' :: p ++ ['"']) } rfl
  simp only [run] at this
  obtain ⟨h1, h2, h3, h4⟩ := this
  unfold PState.finish
  simp only [secsDone] at h1
  rw [h2, h3, h4, h1]
  simp [PState.init, curList, fileSum]

end Avo.Print
