/-
C20 — the register model is a constant of the process.

Every theorem of Props/C20.lean speaks of `Gen.regs`, the table regenerated from
the compiled package in a CLEAN process.  The table lives in package-level
variables of the library (`reg.Families`, the families' register slices), so
"the table" is only well defined if nothing a program does through the public
API changes it.  Model/RegProc.lean states that as a state machine; here:

* `proc_table_const`    every history leaves the table unchanged;
* `proc_lookup_const`, `proc_lookupID_const`, `proc_as_const`
                        hence every lookup / conversion answers the same after
                        any history;
* `proc_views_exact`, `proc_phys_as`
                        `reg_views_exact` / `phys_as` hold for the table after any
                        history (the restricted registers SP/K0 included: they are
                        rows of the table like any other).

These are trivial in the model (no operation reaches the `regs` field); what
makes them statements about avo is the tie: the exhaustive table / API
correspondence is re-evaluated after generated process histories.
-/
import AvoVerif.Props.C20
import AvoVerif.Model.RegProc
namespace Avo.Reg

theorem procStep_regs (s : ProcS) (op : ProcOp) : (procStep s op).regs = s.regs := by
  cases op <;> rfl

/-- **The table is a constant of the process.** -/
theorem proc_table_const (ops : List ProcOp) : ∀ s : ProcS, (procRun s ops).regs = s.regs := by
  induction ops with
  | nil => intro s; rfl
  | cons op rest ih =>
    intro s
    show (procRun (procStep s op) rest).regs = s.regs
    rw [ih, procStep_regs]

theorem proc_lookup_const (s : ProcS) (ops : List ProcOp) (k i sp : Nat) :
    lookup (procRun s ops).regs k i sp = lookup s.regs k i sp := by rw [proc_table_const]

theorem proc_lookupID_const (s : ProcS) (ops : List ProcOp) (id sp : Nat) :
    lookupID (procRun s ops).regs id sp = lookupID s.regs id sp := by rw [proc_table_const]

theorem proc_as_const (s : ProcS) (ops : List ProcOp) (r : RegRow) (sp : Nat) :
    physAs (procRun s ops).regs r sp = physAs s.regs r sp := by rw [proc_table_const]

/-- After ANY history of the process, for every physical register (the
restricted ones included) and every spec: the lookup succeeds exactly when the
view exists in hardware. -/
theorem proc_views_exact (ops : List ProcOp) {r : RegRow} (hr : r ∈ Gen.regs) (hp : physical r) (sp : Nat) :
    (lookupID (procRun { regs := Gen.regs } ops).regs r.id sp).isSome = hwViewExists r.kind r.idx sp := by
  rw [proc_table_const]; exact reg_views_exact hr hp sp

/-- After ANY history, converting a physical register yields the requested view
of the same register, or fails exactly when the view does not exist. -/
theorem proc_phys_as (ops : List ProcOp) {r : RegRow} (hr : r ∈ Gen.regs) (hp : physical r) (sp : Nat) :
    AsOK r.kind r.idx r.id sp
      ((physAs (procRun { regs := Gen.regs } ops).regs r sp).map (fun p => (p.id, p.mask, p.size))) := by
  rw [proc_table_const]; exact phys_as hr hp sp

-- non-vacuity: a history; the stack pointer's 32-bit view after it (Go assembler name SP, 4 bytes: kind 1, index 4)
example : (procRun { regs := Gen.regs } [.compile "gp", .allocator 1 "forkind", .mutate 1 "sort", .rand 7 30]).compiled = 1 := rfl
example : ((lookup (procRun { regs := Gen.regs } [.compile "gp", .compile "k"]).regs kindGP 4 S32).map (fun p => (p.name, p.size))) = some ("SP", 4) := by
  rw [proc_table_const]; decide +kernel
example : hwViewExists kindGP 4 S32 = true ∧ hwViewExists kindOpmask 0 S64 = true := by decide

end Avo.Reg
