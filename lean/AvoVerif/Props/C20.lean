/-
C20 — The register model aliases registers exactly as the hardware does.

Tables: `Gen.regs` (regenerated from the compiled `reg` package on every run)
and `Oracle.regHW` (measured on every run: `go tool asm` + decoders + execution
on the host CPU, see harness/gen_reghw.go).  Statements over the tables are
complete (every row) and kernel-checked (`decide +kernel`); statements that
quantify over all ids / specs / allocation histories are proved generally.

What "the bytes a write through the view can change" means here: the bytes of
the underlying register that take the written value (`HWExec.data`).  Bytes that
are *cleared* as a side effect of the encoding (upper half of a 32-bit GP write,
bits above the vector length for VEX/EVEX encodings — `HWExec.zeroed`) are not
part of the view mask in avo's model (avo handles the 32-bit case separately by
`ZeroExtend32BitOutputs`); they are measured and reported in the evidence, and
`hw_zeroing` below records what was measured, but they are not compared with
the mask.  Writes through views of the stack pointer are not executed (encoding
only).

Beyond the table rows: `reg_vars` (every exported register VARIABLE holds the
register its name denotes), `virt_to_phys` / `virt_to_phys_default` (the view of
the physical register a virtual register is allocated to), `virt_views`,
`vnew_ok`, `coll_alloc_ok`, `ctor_ok` (virtual registers are only ever given width
views their kind has — through the conversion methods and the named
constructors) and `vnew_manufactures` (F21: the constructors that take kind and
width as ARGUMENTS manufacture views that do not exist), and `accept…_sound` for
every acceptor of the driver.
-/
import AvoVerif.Model.RegHW
import AvoVerif.Gen.Regs
import AvoVerif.Gen.RegVars
import AvoVerif.Oracle.RegHW
import AvoVerif.Drv.C20
namespace Avo.Reg
open Avo.Gen Avo.Oracle

/-! ### Identifiers: `newid`, `ID.Kind`, `ID.Index`, `ID.IsVirtual` (all inputs) -/

theorem newid_arith (v k i : Nat) :
    newid v k i = v % 256 + (k % 256) * 256 + (i % 65536) * 65536 := by
  unfold newid
  have h1 : (k % 256) <<< 8 = (k % 256) * 256 := by rw [Nat.shiftLeft_eq]
  have h2 : (i % 65536) <<< 16 = (i % 65536) * 65536 := by rw [Nat.shiftLeft_eq]
  have e1 : v % 256 ||| (k % 256) <<< 8 = (k % 256) <<< 8 + v % 256 := by
    rw [Nat.or_comm]; exact (Nat.shiftLeft_add_eq_or_of_lt (by omega) _).symm
  have e2 : (v % 256 ||| (k % 256) <<< 8) ||| (i % 65536) <<< 16
      = (i % 65536) <<< 16 + (v % 256 ||| (k % 256) <<< 8) := by
    rw [Nat.or_comm]; refine (Nat.shiftLeft_add_eq_or_of_lt ?_ _).symm
    rw [e1, h1]; omega
  rw [e2, e1, h1, h2]; omega

theorem idKind_arith (id : Nat) : idKind id = id / 256 % 256 := by
  unfold idKind; rw [Nat.shiftRight_eq_div_pow]

theorem idIndex_arith (id : Nat) : idIndex id = id / 65536 % 65536 := by
  unfold idIndex; rw [Nat.shiftRight_eq_div_pow]

theorem idIsVirtual_arith (id : Nat) : idIsVirtual id = decide (id % 2 = 1) := by
  unfold idIsVirtual; rw [Nat.and_one_is_mod]
  cases h : id % 2 == 1 <;> simp_all

/-- A register id fits `uint32`. -/
theorem newid_lt (v k i : Nat) : newid v k i < 2 ^ 32 := by rw [newid_arith]; omega

/-- `ID.Kind` recovers the kind, for every `uint8` flag, `uint8` kind, `uint16` index. -/
theorem idKind_newid (v k i : Nat) (hk : k < 256) : idKind (newid v k i) = k := by
  rw [idKind_arith, newid_arith]; omega

/-- `ID.Index` recovers the index. -/
theorem idIndex_newid (v k i : Nat) (hi : i < 65536) : idIndex (newid v k i) = i := by
  rw [idIndex_arith, newid_arith]; omega

/-- `ID.IsVirtual` recovers the flag (avo uses flag values 0 and 1). -/
theorem idIsVirtual_newid (v k i : Nat) (hv : v < 2) : idIsVirtual (newid v k i) = decide (v = 1) := by
  rw [idIsVirtual_arith, newid_arith]
  have : (v % 256 + k % 256 * 256 + i % 65536 * 65536) % 2 = v := by omega
  rw [this]

/-- Every well-formed id (`uint32`, flag byte 0 or 1) is rebuilt from its parts. -/
theorem newid_roundtrip (id : Nat) (h : id < 2 ^ 32) (hb : id % 256 < 2) :
    newid (id % 2) (idKind id) (idIndex id) = id := by
  rw [newid_arith, idKind_arith, idIndex_arith]; omega

/-- `newid` is injective on in-range arguments. -/
theorem newid_inj {v k i v' k' i' : Nat} (hv : v < 256) (hk : k < 256) (hi : i < 65536)
    (hv' : v' < 256) (hk' : k' < 256) (hi' : i' < 65536)
    (h : newid v k i = newid v' k' i') : v = v' ∧ k = k' ∧ i = i' := by
  rw [newid_arith, newid_arith] at h; omega

-- non-vacuity / sanity on concrete values
example : newid 0 1 3 = 196864 ∧ idKind 196864 = 1 ∧ idIndex 196864 = 3 ∧ idIsVirtual 196864 = false := by decide
example : newid 1 2 65535 = 4294902273 ∧ idIsVirtual 4294902273 = true ∧ idIndex 4294902273 = 65535 := by decide

/-! ### Masks, byte sets and sizes -/

theorem specSize_bytes_list : ∀ s ∈ List.range 128, specSize s = byteCount (maskBytes s) := by decide +kernel

/-- `Spec.Size` is the number of bytes the mask denotes, for every mask over the
seven lanes of a 64-byte register. -/
theorem specSize_bytes (s : Nat) (h : s < 128) : specSize s = byteCount (maskBytes s) :=
  specSize_bytes_list s (List.mem_range.mpr h)

/-- The named specs denote the low 1/2/4/8/16/32/64 bytes, and `S8H` byte 1. -/
theorem named_spec_bytes :
    maskBytes S8L = byteRange 0 1 ∧ maskBytes S8H = byteRange 1 2 ∧ maskBytes S16 = byteRange 0 2 ∧
    maskBytes S32 = byteRange 0 4 ∧ maskBytes S64 = byteRange 0 8 ∧ maskBytes S128 = byteRange 0 16 ∧
    maskBytes S256 = byteRange 0 32 ∧ maskBytes S512 = byteRange 0 64 := by decide +kernel

/-- The spec constants of the compiled package are the model's. -/
theorem spec_consts :
    Gen.specs = [("S0", S0, 0), ("S8L", S8L, 1), ("S8H", S8H, 1), ("S8", S8L, 1), ("S16", S16, 2), ("S32", S32, 4),
                 ("S64", S64, 8), ("S128", S128, 16), ("S256", S256, 32), ("S512", S512, 64)] ∧
    Gen.kinds = [("Pseudo", kindPseudo), ("GP", kindGP), ("Vector", kindVector), ("Opmask", kindOpmask)] := by
  decide

/-! ### reg_hw, reg_size: every physical register against the measurements

`Oracle.regHW` is aligned with `Gen.regs`: its i-th entry is the group of
measurements made for the i-th register (one per instruction encoding; empty
for pseudo registers). -/

theorem zip_of_mem {α β} {a : α} : ∀ {l₁ : List α} {l₂ : List β}, l₁.length = l₂.length → a ∈ l₁ →
    ∃ b, (a, b) ∈ List.zip l₁ l₂
  | [], _, _, h => by cases h
  | x :: xs, [], hl, _ => by cases hl
  | x :: xs, y :: ys, hl, h => by
    rcases List.mem_cons.mp h with rfl | h'
    · exact ⟨y, by simp⟩
    · obtain ⟨b, hb⟩ := zip_of_mem (Nat.succ.inj hl) h'
      exact ⟨b, by simp [hb]⟩

theorem tables_aligned : Gen.regs.length = Oracle.regHW.length := by decide +kernel

theorem reg_hw_zip : ∀ p ∈ List.zip Gen.regs Oracle.regHW, physical p.1 → RegOK p.2 p.1 := by decide +kernel

/-- **C20 (hardware register, width, bytes).**  Every non-pseudo register of
avo's table has measurements, and for each of them: its name assembles, in the
width context avo reports, to the register class / number / operand width avo
reports; its mask denotes exactly the bytes that view addresses, which are
exactly the bytes that took the value when the write was executed on the CPU
(the CPU changing that architectural register and no other); its size is the
byte count of the mask and `Spec.Size` of it; its id is `newid 0 kind idx`. -/
theorem reg_hw {r : RegRow} (hr : r ∈ Gen.regs) (hp : physical r) :
    ∃ g, (r, g) ∈ List.zip Gen.regs Oracle.regHW ∧ RegOK g r := by
  obtain ⟨g, hg⟩ := zip_of_mem tables_aligned hr
  exact ⟨g, hg, reg_hw_zip _ hg hp⟩

theorem reg_size_list : ∀ r ∈ Gen.regs,
    r.mask < 128 ∧ r.size = byteCount (maskBytes r.mask) ∧ specSize r.mask = r.size := by decide +kernel

/-- **C20 (size).**  The reported size is the number of bytes of the mask, and `Spec.Size` agrees. -/
theorem reg_size {r : RegRow} (hr : r ∈ Gen.regs) :
    r.mask < 128 ∧ r.size = byteCount (maskBytes r.mask) ∧ specSize r.mask = r.size := reg_size_list r hr

/-- What was measured beyond the mask (recorded, not compared with avo's masks):
the side-effect zeroing of a write is empty, or the rest of the 64-bit register
for a 32-bit GP write, or everything above the operand for a VEX/EVEX vector write. -/
theorem hw_zeroing : ∀ h ∈ Oracle.regHW.flatten, ∀ e, h.exec = some e →
    e.zeroed = 0 ∨ (h.cls = 1 ∧ h.width = 4 ∧ e.zeroed = byteRange 4 8) ∨
    (h.cls = 2 ∧ h.enc ≠ "legacy" ∧ e.zeroed = byteRange h.width 64) := by decide +kernel

theorem ids_wellformed : ∀ r ∈ Gen.regs, r.kind < 256 ∧ r.idx < 65536 ∧ r.id = newid 0 r.kind r.idx := by
  decide +kernel

-- non-vacuity: a concrete register and its measurement
example : ((⟨"AH", 1, 0, 2, 1, 0, 256⟩ : RegRow),
      [(⟨"AH", 1, 1, "MOVB", "legacy", true, 1, 0, 1, true, some ⟨1, 0, 0x2, 0x0⟩⟩ : HWRow)]) ∈
      List.zip Gen.regs Oracle.regHW := by decide +kernel
-- and the statement is not trivially true: AH with CH's index, or AX with a wrong size, is rejected
example : ¬ RegOK [⟨"AH", 1, 1, "MOVB", "legacy", true, 1, 0, 1, true, some ⟨1, 0, 0x2, 0x0⟩⟩]
    ⟨"AH", 1, 1, 2, 1, 0, 65792⟩ := by decide +kernel
example : ¬ RegOK [⟨"AX", 1, 2, "MOVW", "legacy", true, 1, 0, 2, false, some ⟨1, 0, 0x3, 0x0⟩⟩]
    ⟨"AX", 1, 0, 7, 2, 0, 256⟩ := by decide +kernel

/-! ### reg_identity -/

/-- Within the table: same id ⇔ same kind and same index. -/
theorem reg_identity_tbl {r r' : RegRow} (hr : r ∈ Gen.regs) (hr' : r' ∈ Gen.regs) :
    r.id = r'.id ↔ (r.kind = r'.kind ∧ r.idx = r'.idx) := by
  obtain ⟨hk, hi, hid⟩ := ids_wellformed r hr
  obtain ⟨hk', hi', hid'⟩ := ids_wellformed r' hr'
  constructor
  · intro h
    rw [hid, hid'] at h
    have := newid_inj (by omega) hk hi (by omega) hk' hi' h
    exact ⟨this.2.1, this.2.2⟩
  · rintro ⟨h1, h2⟩; rw [hid, hid', h1, h2]

/-- **C20 (identity).**  All views of one hardware register share one id and
different hardware registers never do: for any two physical registers of the
table and any measurements of them, the ids are equal exactly when the names
denote the same architectural register (same class, same number). -/
theorem reg_identity {r r' : RegRow} {g g' : List HWRow}
    (hg : (r, g) ∈ List.zip Gen.regs Oracle.regHW) (hg' : (r', g') ∈ List.zip Gen.regs Oracle.regHW)
    (hp : physical r) (hp' : physical r') : IdentOK g g' r r' := by
  have hr := (List.of_mem_zip hg).1
  have hr' := (List.of_mem_zip hg').1
  obtain ⟨_, _, ha, _⟩ := reg_hw_zip _ hg hp
  obtain ⟨_, _, ha', _⟩ := reg_hw_zip _ hg' hp'
  intro h hh h' hh'
  obtain ⟨_, _, hc, hn, _⟩ := ha h hh
  obtain ⟨_, _, hc', hn', _⟩ := ha' h' hh'
  rw [reg_identity_tbl hr hr', hc, hc', hn, hn']

/-- The same by what the CPU did: whenever both writes were executed, the ids are
equal exactly when the same architectural register changed. -/
theorem reg_identity_exec {r r' : RegRow} {g g' : List HWRow}
    (hg : (r, g) ∈ List.zip Gen.regs Oracle.regHW) (hg' : (r', g') ∈ List.zip Gen.regs Oracle.regHW)
    (hp : physical r) (hp' : physical r') {h h' : HWRow} (hh : h ∈ g) (hh' : h' ∈ g')
    {e e' : HWExec} (he : h.exec = some e) (he' : h'.exec = some e') :
    r.id = r'.id ↔ (e.cls = e'.cls ∧ e.num = e'.num) := by
  have hr := (List.of_mem_zip hg).1
  have hr' := (List.of_mem_zip hg').1
  obtain ⟨_, _, ha, _⟩ := reg_hw_zip _ hg hp
  obtain ⟨_, _, ha', _⟩ := reg_hw_zip _ hg' hp'
  obtain ⟨_, _, _, _, _, _, hx⟩ := ha h hh
  obtain ⟨_, _, _, _, _, _, hx'⟩ := ha' h' hh'
  rw [he] at hx; rw [he'] at hx'
  obtain ⟨c, n, _⟩ := hx
  obtain ⟨c', n', _⟩ := hx'
  rw [reg_identity_tbl hr hr', c, c', n, n']

/-- Every physical register has a non-empty group of measurements (so the
statements above are not vacuous).  (Which of them were also EXECUTED is
`reg_executed_gp` below and `coverage.oracle_RegHW` in the evidence.) -/
theorem reg_measured {r : RegRow} (hr : r ∈ Gen.regs) (hp : physical r) :
    ∃ g, (r, g) ∈ List.zip Gen.regs Oracle.regHW ∧ g ≠ [] := by
  obtain ⟨g, hg, hok⟩ := reg_hw hr hp
  exact ⟨g, hg, hok.2.1⟩

/-- The "executed on the CPU" half of `RegOK` is not vacuous: every measurement
of a general-purpose register other than the four views of the stack pointer
carries an execution result (any x86-64 host can run these).  For vector and
opmask rows execution needs AVX-512 on the host; the check module turns a host
without it into a recorded coverage restriction (`executed_rows`), not into a
silent pass. -/
theorem reg_executed_gp : ∀ h ∈ Oracle.regHW.flatten, h.cls = kindGP → h.num ≠ 4 → h.exec.isSome = true := by
  decide +kernel

-- non-vacuity of reg_identity / reg_identity_exec: AX and AH share id 256 and the CPU changed
-- GP register 0 for both; AX and SI do not, and the CPU changed registers 0 and 6
example : ((⟨"AX", 1, 0, 15, 8, 0, 256⟩ : RegRow),
      [(⟨"AX", 1, 8, "MOVQ", "legacy", true, 1, 0, 8, false, some ⟨1, 0, 0xff, 0x0⟩⟩ : HWRow)]) ∈
      List.zip Gen.regs Oracle.regHW ∧
    ((⟨"SI", 1, 6, 15, 8, 0, 393472⟩ : RegRow),
      [(⟨"SI", 1, 8, "MOVQ", "legacy", true, 1, 6, 8, false, some ⟨1, 6, 0xff, 0x0⟩⟩ : HWRow)]) ∈
      List.zip Gen.regs Oracle.regHW := by decide +kernel
example : IdentOK [⟨"AX", 1, 8, "MOVQ", "legacy", true, 1, 0, 8, false, some ⟨1, 0, 0xff, 0x0⟩⟩]
    [⟨"AH", 1, 1, "MOVB", "legacy", true, 1, 0, 1, true, some ⟨1, 0, 0x2, 0x0⟩⟩]
    ⟨"AX", 1, 0, 15, 8, 0, 256⟩ ⟨"AH", 1, 0, 2, 1, 0, 256⟩ := by decide
-- the statement is not trivially true: SI with AX's id is rejected, and so are AX/AH with different ids
example : ¬ IdentOK [⟨"AX", 1, 8, "MOVQ", "legacy", true, 1, 0, 8, false, some ⟨1, 0, 0xff, 0x0⟩⟩]
    [⟨"SI", 1, 8, "MOVQ", "legacy", true, 1, 6, 8, false, some ⟨1, 6, 0xff, 0x0⟩⟩]
    ⟨"AX", 1, 0, 15, 8, 0, 256⟩ ⟨"SI", 1, 6, 15, 8, 0, 256⟩ := by decide
example : ¬ IdentOK [⟨"AX", 1, 8, "MOVQ", "legacy", true, 1, 0, 8, false, some ⟨1, 0, 0xff, 0x0⟩⟩]
    [⟨"AH", 1, 1, "MOVB", "legacy", true, 1, 0, 1, true, some ⟨1, 0, 0x2, 0x0⟩⟩]
    ⟨"AX", 1, 0, 15, 8, 0, 256⟩ ⟨"AH", 1, 0, 2, 1, 0, 65792⟩ := by decide

/-! ### reg_views: lookup by (id, spec) and the conversion `register.as` -/

theorem lookup_some {tbl : List RegRow} {k i s : Nat} {p : RegRow} (h : lookup tbl k i s = some p) :
    p ∈ tbl ∧ p.kind = k ∧ p.idx = i ∧ p.mask = s := by
  unfold lookup at h
  have hm := List.mem_of_find?_eq_some h
  have hp := List.find?_some h
  simp only [Bool.and_eq_true, beq_iff_eq] at hp
  exact ⟨hm, hp.1.1, hp.1.2, hp.2⟩

/-- `LookupID` with any in-range kind and index and ANY spec: a register that is
found has exactly that id and that mask (and its size is `Spec.Size`). -/
theorem lookupID_sound (k i s : Nat) (hk : k < 256) (hi : i < 65536) {p : RegRow}
    (h : lookupID Gen.regs (newid 0 k i) s = some p) :
    p ∈ Gen.regs ∧ p.id = newid 0 k i ∧ p.mask = s ∧ p.size = specSize s := by
  unfold lookupID at h
  rw [idIsVirtual_newid 0 k i (by omega), idKind_newid 0 k i hk, idIndex_newid 0 k i hi] at h
  simp only [Nat.zero_ne_one, decide_false, Bool.false_eq_true, ↓reduceIte] at h
  obtain ⟨hm, h1, h2, h3⟩ := lookup_some h
  refine ⟨hm, ?_, h3, ?_⟩
  · rw [(ids_wellformed p hm).2.2, h1, h2]
  · rw [← h3]; exact ((reg_size hm).2.2).symm

/-- Virtual ids are never looked up. -/
theorem lookupID_virtual (k i s : Nat) : lookupID Gen.regs (newid 1 k i) s = none := by
  unfold lookupID
  rw [idIsVirtual_newid 1 k i (by omega)]; simp

/-- All width views x86-64 has, as (kind, idx, spec). -/
def hwViews : List (Nat × Nat × Nat) :=
  ((List.range 16).flatMap fun i =>
      [(kindGP, i, S8L), (kindGP, i, S16), (kindGP, i, S32), (kindGP, i, S64)] ++
        (if i < 4 then [(kindGP, i, S8H)] else [])) ++
  ((List.range 32).flatMap fun i => [(kindVector, i, S128), (kindVector, i, S256), (kindVector, i, S512)]) ++
  ((List.range 8).map fun i => (kindOpmask, i, S64))

theorem hwViews_complete {k i s : Nat} (h : hwViewExists k i s = true) : (k, i, s) ∈ hwViews := by
  simp only [hwViewExists, Bool.or_eq_true, Bool.and_eq_true, beq_iff_eq, decide_eq_true_eq] at h
  simp only [hwViews, List.mem_append, List.mem_flatMap, List.mem_range, List.mem_map, List.mem_cons,
    List.not_mem_nil, or_false, Prod.mk.injEq]
  rcases h with (⟨⟨hk, hi⟩, hs⟩ | ⟨⟨hk, hi⟩, hs⟩) | ⟨⟨hk, hi⟩, hs⟩
  · left; left
    refine ⟨i, hi, ?_⟩
    rcases hs with (((hs | hs) | hs) | hs) | ⟨hs, hi4⟩
    · simp [hk, hs]
    · simp [hk, hs]
    · simp [hk, hs]
    · simp [hk, hs]
    · simp [hk, hs, hi4]
  · left; right
    exact ⟨i, hi, by rcases hs with (hs | hs) | hs <;> simp [hk, hs]⟩
  · right
    exact ⟨i, hi, by simp [hk, hs]⟩

/-- Every register of the table is a view that exists in hardware … -/
theorem views_sound : ∀ p ∈ Gen.regs, physical p → hwViewExists p.kind p.idx p.mask = true := by decide +kernel

/-- … and every view that exists in hardware is in the table. -/
theorem views_complete : ∀ t ∈ hwViews, (lookup Gen.regs t.1 t.2.1 t.2.2).isSome = true := by decide +kernel

theorem lookupID_tbl {r : RegRow} (hr : r ∈ Gen.regs) (s : Nat) :
    lookupID Gen.regs r.id s = lookup Gen.regs r.kind r.idx s := by
  obtain ⟨hk, hi, hid⟩ := ids_wellformed r hr
  unfold lookupID
  rw [hid, idIsVirtual_newid 0 _ _ (by omega), idKind_newid 0 _ _ hk, idIndex_newid 0 _ _ hi]
  simp

/-- **C20 (views exist exactly as in hardware).**  For every physical register
and EVERY spec value: the lookup by (id, spec) succeeds exactly when that width
view of that register exists in hardware — so `none` for the high-byte view of
GP registers 4..15 and for every spec the family does not have, and for
nothing else; views that do not exist are not manufactured. -/
theorem reg_views_exact {r : RegRow} (hr : r ∈ Gen.regs) (hp : physical r) (s : Nat) :
    (lookupID Gen.regs r.id s).isSome = hwViewExists r.kind r.idx s := by
  rw [lookupID_tbl hr]
  cases hv : hwViewExists r.kind r.idx s
  · cases hl : lookup Gen.regs r.kind r.idx s with
    | none => rfl
    | some p =>
      exfalso
      obtain ⟨hm, h1, h2, h3⟩ := lookup_some hl
      have hpp : physical p := by unfold physical; rw [h1]; exact hp
      have := views_sound p hm hpp
      rw [h1, h2, h3, hv] at this; cases this
  · exact views_complete _ (hwViews_complete hv)

/-- **C20 (views).**  What the lookup returns has the same identity and the
requested mask (and the width that mask denotes). -/
theorem reg_views {r : RegRow} (hr : r ∈ Gen.regs) (s : Nat) {p : RegRow}
    (h : lookupID Gen.regs r.id s = some p) :
    p ∈ Gen.regs ∧ p.id = r.id ∧ p.mask = s ∧ p.size = byteCount (maskBytes s) := by
  obtain ⟨hk, hi, hid⟩ := ids_wellformed r hr
  rw [hid] at h
  obtain ⟨hm, h1, h2, _⟩ := lookupID_sound _ _ s hk hi h
  refine ⟨hm, by rw [h1, hid], h2, ?_⟩
  rw [← h2]; exact (reg_size hm).2.1

/-- Exactly the missing views: among the specs its family supports, a physical
register lacks only the high byte, and only for index ≥ 4. -/
theorem reg_views_missing {r : RegRow} (hr : r ∈ Gen.regs) (hp : physical r) (s : Nat)
    (hfam : (r.kind = kindGP ∧ s ∈ [S8L, S8H, S16, S32, S64]) ∨ (r.kind = kindVector ∧ s ∈ [S128, S256, S512]) ∨
            (r.kind = kindOpmask ∧ s = S64)) :
    lookupID Gen.regs r.id s = none ↔ (r.kind = kindGP ∧ s = S8H ∧ 4 ≤ r.idx) := by
  have hx := reg_views_exact hr hp s
  have hb : ∀ r ∈ Gen.regs, physical r → (r.kind = kindGP → r.idx < 16) ∧ (r.kind = kindVector → r.idx < 32) ∧
      (r.kind = kindOpmask → r.idx < 8) := by decide +kernel
  obtain ⟨b1, b2, b3⟩ := hb r hr hp
  rw [← Option.not_isSome_iff_eq_none, hx]
  simp only [hwViewExists, kindGP, kindVector, kindOpmask, S8L, S8H, S16, S32, S64, S128, S256, S512,
    List.mem_cons, List.not_mem_nil, or_false] at *
  simp only [Bool.or_eq_true, Bool.and_eq_true, beq_iff_eq, decide_eq_true_eq]
  omega

-- non-vacuity of reg_views_exact / reg_views / reg_views_missing: SI is a physical register of the table; its
-- high-byte lookup is none and the view does not exist, its 16-bit lookup is the register SI of mask 3
example : (⟨"SI", 1, 6, 15, 8, 0, 393472⟩ : RegRow) ∈ Gen.regs ∧ physical ⟨"SI", 1, 6, 15, 8, 0, 393472⟩ ∧
    lookupID Gen.regs 393472 S8H = none ∧ hwViewExists 1 6 S8H = false ∧
    lookupID Gen.regs 393472 S16 = some ⟨"SI", 1, 6, 3, 2, 0, 393472⟩ ∧ hwViewExists 1 6 S16 = true ∧
    (1 = kindGP ∧ S8H ∈ [S8L, S8H, S16, S32, S64]) := by decide +kernel
-- and a spec no family has (mask 5) is refused for AX while the view does not exist
example : lookupID Gen.regs 256 5 = none ∧ hwViewExists 1 0 5 = false := by decide +kernel

/-- **C20 (conversion of physical registers).**  `register.as`, for every
physical register and EVERY spec: it either returns a register of the table
with the same id, the requested mask and that mask's byte count as size — and
then the view exists in hardware — or it fails (nil, a panic in `As8H` …), and
then the view does not exist in hardware. -/
theorem phys_as {r : RegRow} (hr : r ∈ Gen.regs) (hp : physical r) (s : Nat) :
    AsOK r.kind r.idx r.id s ((physAs Gen.regs r s).map (fun p => (p.id, p.mask, p.size))) := by
  have hx := reg_views_exact hr hp s
  rw [lookupID_tbl hr] at hx
  unfold physAs
  cases hl : lookup Gen.regs r.kind r.idx s with
  | none => rw [hl] at hx; simpa [AsOK] using hx.symm
  | some p =>
    rw [hl] at hx
    have hl' : lookupID Gen.regs r.id s = some p := by rw [lookupID_tbl hr]; exact hl
    obtain ⟨_, h1, h2, h3⟩ := reg_views hr s hl'
    simp only [Option.map_some, AsOK]
    exact ⟨by simpa using hx.symm, h1, h2, h3⟩

example : physAs Gen.regs ⟨"AX", 1, 0, 15, 8, 0, 256⟩ S8H = some ⟨"AH", 1, 0, 2, 1, 0, 256⟩ := by decide +kernel
example : physAs Gen.regs ⟨"SI", 1, 6, 15, 8, 0, 393472⟩ S8H = none := by decide +kernel
example : physAs Gen.regs ⟨"Z31", 2, 31, 127, 64, 0, 2032128⟩ S128 = some ⟨"X31", 2, 31, 31, 16, 0, 2032128⟩ := by
  decide +kernel

/-- `reg.Allocation.LookupRegister` for a virtual register allocated to the
physical id `pid`: `LookupID(pid, v.spec())`. -/
def allocLookup (tbl : List RegRow) (v : Virt) (pid : Nat) : Option RegRow := lookupID tbl pid v.spec

/-- **C20 (virtual → physical).**  The view of the physical register a virtual
register is allocated to (what `BindRegisters` substitutes): for every virtual
register (ANY spec) and every physical register, it is the register with the
physical register's identity and the VIRTUAL register's mask — and it exists
exactly when that view exists in hardware (e.g. none for a high-byte virtual
allocated to SI). -/
theorem virt_to_phys {r : RegRow} (hr : r ∈ Gen.regs) (hp : physical r) (v : Virt) :
    AsOK r.kind r.idx r.id v.spec ((allocLookup Gen.regs v r.id).map (fun p => (p.id, p.mask, p.size))) := by
  unfold allocLookup
  rw [lookupID_tbl hr]
  exact phys_as hr hp v.spec

/-- `reg.Allocation.LookupRegisterDefault`: the allocated view, or the register itself. -/
def allocDefault (tbl : List RegRow) (v : Virt) (pid : Nat) : Nat × Nat :=
  match allocLookup tbl v pid with
  | some p => (p.id, p.mask)
  | none => (v.id, v.spec)

/-- The defaulting variant never changes the width either: it is the view of the
physical register with the virtual register's mask when that exists in
hardware, and the virtual register itself otherwise. -/
theorem virt_to_phys_default {r : RegRow} (hr : r ∈ Gen.regs) (hp : physical r) (v : Virt) :
    DefaultViewOK r.kind r.idx r.id v.id v.spec (allocDefault Gen.regs v r.id) := by
  have h := virt_to_phys hr hp v
  unfold allocDefault
  cases hl : allocLookup Gen.regs v r.id with
  | none =>
    rw [hl] at h
    have hx : hwViewExists r.kind r.idx v.spec = false := by simpa [AsOK] using h
    exact ⟨rfl, by simp [hx]⟩
  | some p =>
    rw [hl] at h
    obtain ⟨hx, hid, hm, _⟩ := h
    exact ⟨hm, by simp [hx, hid]⟩

example : allocDefault Gen.regs ⟨5, kindGP, S8H⟩ 393472 = (newid 1 kindGP 5, S8H) := by decide +kernel
example : ¬ DefaultViewOK 1 6 393472 327937 S8H (393472, S64) := by decide

example : allocLookup Gen.regs ⟨5, kindGP, S8H⟩ 256 = some ⟨"AH", 1, 0, 2, 1, 0, 256⟩ := by decide +kernel
example : allocLookup Gen.regs ⟨5, kindGP, S8H⟩ 393472 = none := by decide +kernel
example : ¬ AsOK 1 0 256 S8H (some (256, S8L, 1)) := by decide

/-- `LookupID` on ANY value (so also one with junk in the flag byte): what it
finds is the register the kind and index fields name, with the requested mask. -/
theorem lookupID_junk (id s : Nat) : JunkLookupOK id s (lookupID Gen.regs id s) := by
  cases h : lookupID Gen.regs id s with
  | none => trivial
  | some p =>
    unfold lookupID at h
    split at h
    · cases h
    · obtain ⟨hm, h1, h2, h3⟩ := lookup_some h
      exact ⟨by rw [(ids_wellformed p hm).2.2, h1, h2], h3⟩

example : lookupID Gen.regs 258 S64 = some ⟨"AX", 1, 0, 15, 8, 0, 256⟩ := by decide +kernel

/-! ### Exported register variables (reg.ECX, reg.R10W, reg.X7, reg.FramePointer …)

`Gen.regVars`: every exported package-level variable of package reg whose type
implements `reg.Register` (enumerated with go/types), with what its value reports
in the compiled package. -/

/-- The hand-written naming table is sane: 172 names, each denoting a width view
that exists in hardware. -/
theorem varDenotes_sane :
    varDenotes.length = 172 ∧
    ∀ p ∈ varDenotes, ∃ s ∈ [S8L, S8H, S16, S32, S64, S128, S256, S512],
      hwViewExists p.2.cls p.2.num s = true ∧ maskBytes s = viewBytes p.2.width p.2.hi := by decide +kernel

/-- **C20 (exported variables).**  Every exported register variable holds a
register of avo's families, and a variable with a hardware register name holds
the register that name denotes: its assembler name, assembled in its width
context, IS the register class / number / width / byte half the variable's name
denotes (every measurement, at least one), and it reports that class, number,
width and exactly those bytes as its mask. -/
theorem reg_vars : ∀ p ∈ Gen.regVars, VarOK Gen.regs Oracle.regHW p.1 p.2.1 p.2.2 := by decide +kernel

-- non-vacuity: ECX is in the table of variables and has a name the naming table knows;
-- the statement rejects ECX bound to EDX's register (row 42 of the table) and SPB bound to AH's (row 8)
example : ("ECX", 41, (⟨"CX", 1, 1, 7, 4, 0, 65792⟩ : RegRow)) ∈ Gen.regVars ∧
    varDenotes.lookup "ECX" = some ⟨kindGP, 1, 4, false⟩ := by decide +kernel
example : Gen.regs[42]? = some ⟨"DX", 1, 2, 7, 4, 0, 131328⟩ ∧
    ¬ VarOK Gen.regs Oracle.regHW "ECX" 42 ⟨"DX", 1, 2, 7, 4, 0, 131328⟩ := by decide +kernel
example : Gen.regs[8]? = some ⟨"AH", 1, 0, 2, 1, 0, 256⟩ ∧
    ¬ VarOK Gen.regs Oracle.regHW "SPB" 8 ⟨"AH", 1, 0, 2, 1, 0, 256⟩ := by decide +kernel

/-! ### Virtual registers: `virtual.as` and `reg.Collection` -/

/-- `virtual.as` keeps identity and kind and yields exactly the requested spec, for
every virtual register and EVERY spec value (the raw, unexported operation). -/
theorem virt_as_exact (v : Virt) (s : Nat) :
    (v.as s).id = v.id ∧ (v.as s).mask = s ∧ (v.as s).size = specSize s ∧ (v.as s).kind = v.kind := ⟨rfl, rfl, rfl, rfl⟩

/-- "Some register of the kind has that view" is `hwViewExists` for some index. -/
theorem hwSpecExists_iff (k s : Nat) : hwSpecExists k s = true ↔ ∃ i, hwViewExists k i s = true := by
  constructor
  · intro h
    refine ⟨0, ?_⟩
    simp only [hwSpecExists, Bool.or_eq_true, Bool.and_eq_true, beq_iff_eq] at h
    rcases h with (⟨hk, hs⟩ | ⟨hk, hs⟩) | ⟨hk, hs⟩
    · rcases hs with (((hs | hs) | hs) | hs) | hs <;> subst hk <;> subst hs <;> decide
    · rcases hs with (hs | hs) | hs <;> subst hk <;> subst hs <;> decide
    · subst hk; subst hs; decide
  · rintro ⟨i, h⟩
    simp only [hwViewExists, Bool.or_eq_true, Bool.and_eq_true, beq_iff_eq, decide_eq_true_eq] at h
    rcases h with (⟨⟨hk, _⟩, hs⟩ | ⟨⟨hk, _⟩, hs⟩) | ⟨⟨hk, _⟩, hs⟩
    · rcases hs with (((hs | hs) | hs) | hs) | ⟨hs, _⟩ <;> subst hk <;> subst hs <;> decide
    · rcases hs with (hs | hs) | hs <;> subst hk <;> subst hs <;> decide
    · subst hk; subst hs; decide

/-- A width view that exists is one of the named specs (< 128). -/
theorem hwSpecExists_lt {k s : Nat} (h : hwSpecExists k s = true) : s < 128 := by
  simp only [hwSpecExists, Bool.or_eq_true, Bool.and_eq_true, beq_iff_eq] at h
  rcases h with (⟨_, hs⟩ | ⟨_, hs⟩) | ⟨_, hs⟩
  · rcases hs with (((hs | hs) | hs) | hs) | hs <;> subst hs <;> decide
  · rcases hs with (hs | hs) | hs <;> subst hs <;> decide
  · subst hs; decide

/-- Every conversion method asks for a view that registers of the method's kind have. -/
theorem method_view_exists {m : String} {s k : Nat} (hs : methodSpec m = some s) (hk : methodKind m = some k) :
    hwSpecExists k s = true ∧ s < 128 := by
  unfold methodSpec at hs; unfold methodKind at hk
  split at hs <;> simp_all <;> (subst hs; subst hk; decide)

/-- **C20 (conversion of virtual registers).**  Through the public API (the
methods `As8 … As64` of general-purpose and `AsX/AsY/AsZ` of vector registers) a
virtual register is only ever converted to a width view that registers of its
kind have in hardware, and the result has the same identity, the requested mask
and that mask's byte count as size (`VAsOK`, including its existence clause). -/
theorem virt_views (v : Virt) {m : String} {s : Nat} (hs : methodSpec m = some s) (hk : methodKind m = some v.kind) :
    VAsOK v.kind v.id s (some ((v.as s).id, (v.as s).mask, (v.as s).size)) ∧ (v.as s).kind = v.kind := by
  obtain ⟨hx, hlt⟩ := method_view_exists hs hk
  exact ⟨⟨hx, rfl, rfl, specSize_bytes s hlt⟩, rfl⟩

-- non-vacuity: a virtual 64-bit GP register converted by As8H; and the statement is not trivially true
example : VAsOK kindGP 257 S8H (some (((⟨0, kindGP, S64⟩ : Virt).as S8H).id, ((⟨0, kindGP, S64⟩ : Virt).as S8H).mask,
    ((⟨0, kindGP, S64⟩ : Virt).as S8H).size)) := (virt_views ⟨0, kindGP, S64⟩ (m := "As8H") rfl rfl).1
example : ¬ VAsOK kindGP 257 S8H (some (257, S8L, 1)) := by decide
example : ¬ VAsOK kindVector 513 S8H (some (513, S8H, 1)) := by decide
example : ¬ VAsOK kindGP 257 S8H none := by decide

/-- A virtual register asked for with a kind and width that exist in hardware
is what was asked for (`reg.NewVirtual` / `Family.Virtual`: index chosen by the caller). -/
theorem vnew_ok (idx kind spec : Nat) (hi : idx < 65536) (hk : kind < 256) (hx : hwSpecExists kind spec = true) :
    VNewOK kind spec (some idx)
      (some ((⟨idx, kind, spec⟩ : Virt).id, (⟨idx, kind, spec⟩ : Virt).mask, (⟨idx, kind, spec⟩ : Virt).size, kind)) := by
  have hs : spec < 128 := hwSpecExists_lt hx
  refine ⟨?_, ?_, rfl, ?_, rfl, hx, specSize_bytes spec hs⟩
  · unfold Virt.id; rw [idIsVirtual_newid 1 _ _ (by omega)]; rfl
  · unfold Virt.id; exact idKind_newid 1 _ _ hk
  · unfold Virt.id; simp [idIndex_newid 1 _ _ hi]

/-- The same for `Collection.VirtualRegister / GP(s) / Vec(s)` (index chosen by the collection). -/
theorem coll_alloc_ok (c : Coll) (kind spec : Nat) (hk : kind < 256) (hx : hwSpecExists kind spec = true) :
    VNewOK kind spec none (some ((c.alloc kind spec).1.id, (c.alloc kind spec).1.mask, (c.alloc kind spec).1.size, kind)) := by
  have hs : spec < 128 := hwSpecExists_lt hx
  refine ⟨?_, ?_, rfl, rfl, rfl, hx, specSize_bytes spec hs⟩
  · simp only [Coll.alloc, Virt.id]; rw [idIsVirtual_newid 1 _ _ (by omega)]; rfl
  · simp only [Coll.alloc, Virt.id]; exact idKind_newid 1 _ _ hk

/-- **F21 (genuine defect: views that do not exist in hardware ARE manufactured
for virtual registers).**  avo's constructors never fail (`Virt.mk` / `Coll.alloc`
are total, as `reg.NewVirtual`, `Family.Virtual`, `Collection.VirtualRegister`,
`GP(s)`, `Vec(s)` are): for EVERY kind and width that no register of the kind
has in hardware, the outcome violates `VNewOK`. -/
theorem vnew_manufactures (kind spec : Nat) (idx : Option Nat) (out : Nat × Nat × Nat × Nat)
    (hx : hwSpecExists kind spec = false) : ¬ VNewOK kind spec idx (some out) := by
  obtain ⟨id, m, sz, k⟩ := out
  intro h
  have := h.2.2.2.2.2.1
  rw [hx] at this; cases this

/-- The concrete witnesses: `c.GP(reg.S512)` is a 64-byte "general-purpose register"
(id 257, mask 0x7f, size 64); `c.Vec(reg.S8H)`; `VirtualRegister(KindOpmask, S8H)`. -/
theorem vnew_manufactures_witness :
    ¬ VNewOK kindGP S512 none (some (257, S512, 64, kindGP)) ∧
    ¬ VNewOK kindVector S8H none (some (513, S8H, 1, kindVector)) ∧
    ¬ VNewOK kindOpmask S8H none (some (769, S8H, 1, kindOpmask)) := by decide

-- non-vacuity of vnew_ok / coll_alloc_ok
example : VNewOK kindGP S8H (some 7) (some (459009, S8H, 1, kindGP)) := by decide
example : VNewOK kindGP S512 (some 7) none := by decide
example : ¬ VNewOK kindGP S16 (some 7) (some (459009, S64, 8, kindGP)) := by decide

theorem virt_as_ok (v : Virt) (s : Nat) (hx : hwSpecExists v.kind s = true) :
    VAsOK v.kind v.id s (some ((v.as s).id, (v.as s).mask, (v.as s).size)) := by
  have hs : s < 128 := hwSpecExists_lt hx
  exact ⟨hx, rfl, rfl, specSize_bytes s hs⟩

/-- Virtual and physical registers never share an id. -/
theorem virt_phys_disjoint (v : Virt) {r : RegRow} (hr : r ∈ Gen.regs) : v.id ≠ r.id := by
  intro h
  have h1 : idIsVirtual v.id = true := by
    unfold Virt.id; rw [idIsVirtual_newid 1 _ _ (by omega)]; rfl
  have h2 : idIsVirtual r.id = false := by
    rw [(ids_wellformed r hr).2.2, idIsVirtual_newid 0 _ _ (by omega)]; rfl
  rw [h] at h1; rw [h1] at h2; cases h2

theorem Coll.get_set (c : Coll) (k v k' : Nat) : (c.set k v).get k' = if k' = k then v else c.get k' := by
  unfold Coll.get Coll.set
  rw [List.lookup_cons]
  by_cases h : k' = k
  · subst h; simp
  · have : (k' == k) = false := by simpa using h
    simp [this, h]

/-- Number of requests of kind `k` in a history. -/
def kindCount (k : Nat) (reqs : List (Nat × Nat)) : Nat := reqs.countP (fun q => q.1 == k)

/-- The counter after a history: the start value plus the number of requests of
that kind, on `uint16`. -/
theorem Coll.get_after (c : Coll) (reqs : List (Nat × Nat)) (k : Nat) :
    (c.after reqs).get k % 65536 = (c.get k + kindCount k reqs) % 65536 := by
  induction reqs generalizing c with
  | nil => simp [Coll.after, kindCount]
  | cons q rest ih =>
    obtain ⟨k', s⟩ := q
    simp only [Coll.after, Coll.alloc]
    rw [ih, Coll.get_set]
    unfold kindCount
    rw [List.countP_cons]
    by_cases h : k = k'
    · subst h; simp; omega
    · have : (k' == k) = false := by simpa using (Ne.symm h)
      simp [h, this]

theorem Coll.run_append (c : Coll) (a b : List (Nat × Nat)) :
    c.run (a ++ b) = c.run a ++ (c.after a).run b := by
  induction a generalizing c with
  | nil => rfl
  | cons q rest ih => obtain ⟨k, s⟩ := q; simp [Coll.run, Coll.after, ih]

/-- The two registers handed out for the two marked requests of the history
`pre ++ (k,s) :: mid ++ (k,s') :: post`, starting from the empty collection. -/
def allocPair (pre mid : List (Nat × Nat)) (k s s' : Nat) : Virt × Virt :=
  let c1 := Coll.after [] pre
  let a := c1.alloc k s
  let c2 := Coll.after a.2 mid
  (a.1, (c2.alloc k s').1)

theorem allocPair_run (pre mid post : List (Nat × Nat)) (k s s' : Nat) :
    Coll.run [] (pre ++ (k, s) :: (mid ++ (k, s') :: post)) =
      Coll.run [] pre ++ (allocPair pre mid k s s').1 ::
        (Coll.run ((Coll.after [] pre).alloc k s).2 mid ++ (allocPair pre mid k s s').2 ::
          Coll.run (((Coll.after ((Coll.after [] pre).alloc k s).2 mid).alloc k s').2) post) := by
  rw [Coll.run_append]; simp only [Coll.run]; rw [Coll.run_append]; simp only [Coll.run, allocPair]

theorem Coll.get_empty (k : Nat) : Coll.get [] k = 0 := rfl

theorem allocPair_idx (pre mid : List (Nat × Nat)) (k s s' : Nat) :
    (allocPair pre mid k s s').1.idx % 65536 = kindCount k pre % 65536 ∧
    (allocPair pre mid k s s').2.idx % 65536 = (kindCount k pre + 1 + kindCount k mid) % 65536 ∧
    (allocPair pre mid k s s').1.kind = k ∧ (allocPair pre mid k s s').2.kind = k := by
  simp only [allocPair, Coll.alloc]
  refine ⟨?_, ?_, trivial, trivial⟩
  · rw [Coll.get_after, Coll.get_empty]; simp
  · rw [Coll.get_after, Coll.get_set]; simp only [↓reduceIte]
    have := Coll.get_after [] pre k
    rw [Coll.get_empty] at this
    omega

/-- Counters stay within `uint16`. -/
theorem Coll.after_lt (reqs : List (Nat × Nat)) :
    ∀ c : Coll, (∀ k, c.get k < 65536) → ∀ k, (c.after reqs).get k < 65536 := by
  induction reqs with
  | nil => intro c hc k; exact hc k
  | cons q rest ih =>
    obtain ⟨k', s⟩ := q
    intro c hc k
    simp only [Coll.after, Coll.alloc]
    apply ih
    intro k2; rw [Coll.get_set]; split
    · omega
    · exact hc k2

theorem Coll.get_after_lt (reqs : List (Nat × Nat)) (k : Nat) : (Coll.after [] reqs).get k < 65536 :=
  Coll.after_lt reqs [] (fun k => by rw [Coll.get_empty]; omega) k

theorem allocPair_lt (pre mid : List (Nat × Nat)) (k s s' : Nat) :
    (allocPair pre mid k s s').1.idx < 65536 ∧ (allocPair pre mid k s s').2.idx < 65536 := by
  simp only [allocPair, Coll.alloc]
  refine ⟨Coll.get_after_lt pre k, Coll.after_lt mid _ ?_ k⟩
  intro k2; rw [Coll.get_set]; split
  · omega
  · exact Coll.get_after_lt pre k2

/-- **C20 (fresh virtual registers).**  In ANY allocation history from a fresh
`Collection`, two different allocations of the same kind get different ids,
provided fewer than 2¹⁶ registers of that kind were allocated before the later
one.  (The guard is necessary: `Index` is `uint16`, see `virt_fresh_wraps`.) -/
theorem virt_fresh (pre mid : List (Nat × Nat)) (k s s' : Nat) (hk : k < 256)
    (hguard : kindCount k pre + 1 + kindCount k mid < 65536) :
    (allocPair pre mid k s s').1.id ≠ (allocPair pre mid k s s').2.id := by
  obtain ⟨h1, h2, k1, k2⟩ := allocPair_idx pre mid k s s'
  obtain ⟨l1, l2⟩ := allocPair_lt pre mid k s s'
  intro h
  unfold Virt.id at h
  rw [k1, k2] at h
  have := (newid_inj (by omega) hk l1 (by omega) hk l2 h).2.2
  omega

/-- The ids handed out are virtual and of the requested kind. -/
theorem virt_alloc_kind (pre mid : List (Nat × Nat)) (k s s' : Nat) (hk : k < 256) :
    idIsVirtual (allocPair pre mid k s s').1.id = true ∧ idKind (allocPair pre mid k s s').1.id = k ∧
    (allocPair pre mid k s s').1.spec = s ∧ (allocPair pre mid k s s').2.spec = s' := by
  refine ⟨?_, ?_, rfl, rfl⟩
  · unfold Virt.id; rw [idIsVirtual_newid 1 _ _ (by omega)]; rfl
  · unfold Virt.id; rw [idKind_newid 1 _ _ (by simpa [allocPair, Coll.alloc] using hk)]; rfl

/-- **F13 (genuine defect, the guard of `virt_fresh` is tight).**  When exactly
2¹⁶ registers of the kind are allocated between (and including) the earlier one
and the later one, the later one gets the SAME id as the earlier: the 65 537th
virtual register of a kind collides with the first. -/
theorem virt_fresh_wraps (pre mid : List (Nat × Nat)) (k s s' : Nat)
    (hwrap : kindCount k mid = 65535) :
    (allocPair pre mid k s s').2.id = (allocPair pre mid k s s').1.id := by
  obtain ⟨h1, h2, k1, k2⟩ := allocPair_idx pre mid k s s'
  obtain ⟨l1, l2⟩ := allocPair_lt pre mid k s s'
  unfold Virt.id
  rw [k1, k2]
  have : (allocPair pre mid k s s').2.idx = (allocPair pre mid k s s').1.idx := by omega
  rw [this]

theorem kindCount_replicate (k s n : Nat) : kindCount k (List.replicate n (k, s)) = n := by
  induction n with
  | zero => rfl
  | succ n ih =>
    have : kindCount k ((k, s) :: List.replicate n (k, s)) = kindCount k (List.replicate n (k, s)) + 1 := by
      unfold kindCount; rw [List.countP_cons]; simp
    rw [List.replicate_succ, this, ih]

/-- The concrete witness: 65 537 × `GP64()`; first and last share id 257, so
`FreshOK` fails on the pair (0, 65536). -/
theorem virt_fresh_fails_at_65537 :
    (allocPair [] (List.replicate 65535 (kindGP, S64)) kindGP S64 S64).2.id = 257 ∧
    (allocPair [] (List.replicate 65535 (kindGP, S64)) kindGP S64 S64).1.id = 257 ∧
    ¬ FreshOK kindGP 0 65536 257 257 := by
  have hw := virt_fresh_wraps [] (List.replicate 65535 (kindGP, S64)) kindGP S64 S64
    (kindCount_replicate _ _ _)
  have h0 : (allocPair [] (List.replicate 65535 (kindGP, S64)) kindGP S64 S64).1 = ⟨0, kindGP, S64⟩ := rfl
  have h1 : (allocPair [] (List.replicate 65535 (kindGP, S64)) kindGP S64 S64).1.id = 257 := by
    rw [h0]; decide
  exact ⟨hw.trans h1, h1, by decide⟩

-- non-vacuity of `virt_fresh`: a mixed history
example : (allocPair [(kindGP, S64), (kindVector, S128)] [(kindOpmask, S64), (kindGP, S8L)] kindGP S32 S16)
    = (⟨1, kindGP, S32⟩, ⟨3, kindGP, S16⟩) := by decide

/-! ### Operand classification (operand/checks.go) -/

/-- The classification computed from avo's kind and size is the hardware's, for
every physical register of the table (IsR8 … IsK, and IsAL/IsCL/IsAX/IsEAX/IsRAX/IsXMM0
for the registers of the table themselves). -/
theorem reg_class : ∀ p ∈ List.zip Gen.regs Oracle.regHW, physical p.1 →
    ClassOK p.2 (classBits true p.1.kind p.1.idx p.1.mask p.1.size) := by decide +kernel

/-- **F20a (finding: specific-register predicates after a conversion).**  The
implementation reports for `RAX.As8L()` (the register named AL, id 256, mask 1)
the classification `IsR8` but not `IsAL` (`op == reg.AL` compares Go interface
values, and a converted register is wrapped once more); judged by the hardware
the name AL in a byte context IS register 0's low byte, so `ClassOK` fails on
exactly that report. -/
theorem class_conv_AL_fails :
    ¬ ClassOK (groupOf Oracle.regHW ⟨"AL", 1, 0, 1, 1, 0, 256⟩)
        [true, false, true, false, false, false, false, false, false, false,
         false, false, false, false, false, false] := by decide +kernel

/-! ### The named constructors, and soundness of every acceptor of the driver

The driver (Drv/C20.lean) answers an `accept-…` request with `ok` only if the
declarative statement holds on the implementation's output it was given. -/

/-- Every named `Collection` constructor hands out what `CtorOK` asks for. -/
theorem ctor_ok (c : Coll) {ctor : String} {k s : Nat} (h : ctorKindSpec ctor = some (k, s)) :
    CtorOK ctor k s (specSize s) (c.alloc k s).1.id := by
  unfold CtorOK; rw [h]
  have hks : k < 256 ∧ hwSpecExists k s = true := by
    unfold ctorKindSpec at h
    split at h <;> simp at h <;> (obtain ⟨rfl, rfl⟩ := h; decide)
  refine ⟨rfl, rfl, specSize_bytes s (hwSpecExists_lt hks.2), ?_, ?_, hks.2⟩
  · simp only [Coll.alloc, Virt.id]; rw [idIsVirtual_newid 1 _ _ (by omega)]; rfl
  · simp only [Coll.alloc, Virt.id]; exact idKind_newid 1 _ _ hks.1

example : CtorOK "GP8H" kindGP S8H 1 257 := by decide
example : ¬ CtorOK "GP8H" kindGP S8L 1 257 := by decide

open Avo.Drv.C20 in
theorem bad_ne_ok (x : String) : "bad-" ++ x ≠ "ok" := by
  intro h
  have h1 := congrArg String.length h
  rw [String.length_append] at h1
  have h2 : "bad-".length = 4 := by decide
  have h3 : "ok".length = 2 := by decide
  omega

open Avo.Drv.C20 in
theorem explain_sound {p : Prop} [Decidable p] {why : String} (h : explain (decide p) why = "ok") : p := by
  unfold explain at h
  by_cases hp : p
  · exact hp
  · simp [hp] at h
    exact absurd h (bad_ne_ok why)

open Avo.Drv.C20 in
theorem verdict_sound {p : Prop} [Decidable p] {why : String} (hw : why ≠ "ok")
    (h : verdict (decide p) why = "ok") : p := by
  unfold verdict at h
  by_cases hp : p
  · exact hp
  · simp [hp] at h
    exact absurd h hw

section
open Avo.Drv.C20
theorem acceptReg_sound {g : List HWRow} {r : RegRow} (h : explainReg g r = "ok") : RegOK g r := explain_sound h
theorem acceptVar_sound {name : String} {i : Nat} {r : RegRow} (h : explainVar name i r = "ok") :
    VarOK Gen.regs Oracle.regHW name i r := explain_sound h
theorem acceptVNew_sound {k s : Nat} {i : Option Nat} {o : Option (Nat × Nat × Nat × Nat)}
    (h : explainVNew k s i o = "ok") : VNewOK k s i o := explain_sound h
theorem acceptIdent_sound {g g' : List HWRow} {r r' : RegRow} (h : acceptIdent g g' r r' = "ok") :
    g ≠ [] ∧ g' ≠ [] ∧ IdentOK g g' r r' := verdict_sound (by decide) h
theorem acceptAs_sound {k i id s : Nat} {o : Option (Nat × Nat × Nat)} (h : acceptAs k i id s o = "ok") :
    AsOK k i id s o := verdict_sound (by decide) h
theorem acceptLookup_sound {k i id s : Nat} {o : Option (Nat × Nat × Nat)} (h : acceptLookup k i id s o = "ok") :
    AsOK k i id s o := verdict_sound (by decide) h
theorem acceptVlook_sound {k i id s : Nat} {o : Option (Nat × Nat × Nat)} (h : acceptVlook k i id s o = "ok") :
    AsOK k i id s o := verdict_sound (by decide) h
theorem acceptVlookDefault_sound {a b c d e : Nat} {rd : Nat × Nat} (h : acceptVlookDefault a b c d e rd = "ok") :
    DefaultViewOK a b c d e rd := verdict_sound (by decide) h
theorem acceptLookupVirtual_sound {id : Nat} {o : Option RegRow} (h : acceptLookupVirtual id o = "ok") :
    VirtualLookupOK id o := verdict_sound (by decide) h
theorem acceptVAs_sound {id s : Nat} {o : Option (Nat × Nat × Nat)} (h : acceptVAs id s o = "ok") :
    VAsOK (idKind id) id s o := verdict_sound (by decide) h
theorem acceptJunk_sound {id s : Nat} {o : Option RegRow} (h : acceptJunk id s o = "ok") :
    JunkLookupOK id s o := verdict_sound (by decide) h
theorem acceptAllocFail_sound {n : Nat} (h : acceptAllocFail n = "ok") : AllocFailOK n := verdict_sound (by decide) h
theorem acceptCtor_sound {ctor : String} {k m sz id : Nat} (h : acceptCtor ctor k m sz id = "ok") :
    CtorOK ctor k m sz id := verdict_sound (by decide) h
theorem acceptFresh_sound {k i j a b : Nat} (h : acceptFresh k i j a b = "ok") : FreshOK k i j a b :=
  verdict_sound (by decide) h
theorem acceptClass_sound {g : List HWRow} {bits : List Bool} (h : acceptClass g bits = "ok") : ClassOK g bits :=
  verdict_sound (by decide) h
theorem acceptVClass_sound {k m : Nat} {bits : List Bool} (h : acceptVClass k m bits = "ok") : VClassOK k m bits :=
  verdict_sound (by decide) h
end

end Avo.Reg
