import AvoVerif.Props.C04Rows
import AvoVerif.Gen.FormActions_02
namespace Avo.FormActions.Tables
open Avo.FormActions Avo.Gen
/-- every row of shard 2 of the regenerated form table passes every structural check -/
theorem shard_02 : formActions_02.all rowOK = true := by decide +kernel
end Avo.FormActions.Tables
