/-
C08: the representatives `regClasses` cover the register file of the compiled `reg` package (Gen.Regs).
-/
import AvoVerif.Props.C08
import AvoVerif.Gen.Regs
namespace Avo.Mov
open Avo Avo.Instr
set_option maxRecDepth 1000000

/-- **`regClasses` covers the register file**: every physical register of the compiled `reg` package (other than the
pseudo registers, which `Load`/`Store` cannot be given as a value register of a move) has a representative in
`regClasses` of the same kind, size and high-byte-ness — the only features `behave` (and, by
`loadStore_class_invariant`, the source rows) look at. -/
theorem regClasses_cover :
    Gen.regs.all (fun g => g.kind == kindPseudo ||
      regClasses.any (fun r => r.kind == g.kind && r.size == g.size && isHigh r.kind r.mask == isHigh g.kind g.mask)) = true := by
  decide +kernel

/-- and every register width a virtual register can have (`reg.Spec`s of the compiled package) is represented -/
theorem regClasses_cover_specs :
    Gen.specs.all (fun s => s.2.2 == 0 ||
      regClasses.any (fun r => r.size == s.2.2 && r.mask == s.2.1)) = true := by
  decide +kernel

end Avo.Mov
