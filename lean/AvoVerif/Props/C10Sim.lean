/-
C10, jump removal as a simulation: with any instruction semantics in which an
unconditional jump changes no state, the function before and after
`PruneJumpToFollowingLabel` run in lock step with identical machine states.

Small-step semantics on node lists: the program counter is the *remaining node
list* (a suffix of the function); labels and comments are silent steps; a taken
branch continues after its label in the whole function; a return halts.
-/
import AvoVerif.Props.C10
namespace Avo.Cleanup
open Avo.Func

/-- The nodes after the first occurrence of label `l`. -/
def after (l : String) : List XNode → Option (List XNode)
  | [] => none
  | .label l' :: ns => if l' == l then some ns else after l ns
  | .comment :: ns => after l ns
  | .instr _ :: ns => after l ns

variable {σ : Type}

/-- One step. `exec i s` is the instruction's effect on the machine state and
whether a branch is taken. `none` = halted (return, end of function, or stuck). -/
def step (exec : XInstr → σ → σ × Bool) (whole : List XNode) : List XNode × σ → Option (List XNode × σ)
  | ([], _) => none
  | (.label _ :: rest, s) => some (rest, s)
  | (.comment :: rest, s) => some (rest, s)
  | (.instr i :: rest, s) =>
    let r := exec i s
    if i.cf.isTerminal then none
    else if i.cf.isBranch && r.2 then
      (match i.cf.target with
       | some l => (after l whole).map (fun c => (c, r.1))
       | none => none)
    else some (rest, r.1)

def xlabels : List XNode → List String
  | [] => []
  | .label l :: ns => l :: xlabels ns
  | _ :: ns => xlabels ns

theorem xlabels_append (a b : List XNode) : xlabels (a ++ b) = xlabels a ++ xlabels b := by
  induction a with
  | nil => rfl
  | cons n ns ih => cases n <;> simp [xlabels, ih]

theorem after_append_fresh (l : String) (pre rest : List XNode) (h : l ∉ xlabels pre) :
    after l (pre ++ XNode.label l :: rest) = some rest := by
  induction pre with
  | nil => simp [after]
  | cons n ns ih =>
    cases n with
    | label l' =>
      simp only [xlabels, List.mem_cons, not_or] at h
      have : (l' == l) = false := by simpa using (fun e : l' = l => h.1 e.symm)
      simp only [List.cons_append, after, this]
      exact ih h.2
    | comment => simpa [after, xlabels] using ih (by simpa [xlabels] using h)
    | instr i => simpa [after, xlabels] using ih (by simpa [xlabels] using h)

/-- Label lookup commutes with jump pruning (labels are never deleted). -/
theorem after_prune (l : String) : ∀ ns : List XNode, after l (pruneJumps ns) = (after l ns).map pruneJumps
  | [] => by simp [pruneJumps, after]
  | [n] => by cases n <;> simp [pruneJumps, after] <;> split <;> simp [pruneJumps]
  | n :: next :: rest => by
    have ih := after_prune l (next :: rest)
    unfold pruneJumps
    by_cases h : jumpsToNext n next = true
    · rw [if_pos h]
      -- `n` is an instruction: looking up a label skips it
      cases n with
      | label _ => simp [jumpsToNext] at h
      | comment => simp [jumpsToNext] at h
      | instr i => simp only [after]; exact ih
    · rw [if_neg h]
      cases n with
      | label l' =>
        simp only [after]
        by_cases hl : (l' == l) = true
        · simp [hl]
        · simp only [hl]; exact ih
      | comment => simp only [after]; exact ih
      | instr i => simp only [after]; exact ih

/-- **Jump removal is a lock-step simulation.** Let the labels of `whole` be
pairwise distinct, `c` a suffix of `whole`, and let unconditional jumps leave the
machine state alone (and be taken). Then one step from `(c, s)` in `whole`
corresponds to one step from `(pruneJumps c, s)` in `pruneJumps whole`, with the
same machine state and related continuations. -/
theorem pruneJumps_step (exec : XInstr → σ → σ × Bool)
    (hjmp : ∀ i s, i.cf.isBranch = true → i.cf.isCond = false → exec i s = (s, true))
    (whole : List XNode) (hnd : (xlabels whole).Nodup)
    (hnt : ∀ i, XNode.instr i ∈ whole → i.cf.isBranch = true → i.cf.isTerminal = false)
    (pre c : List XNode) (hc : whole = pre ++ c) (s : σ) :
    step exec (pruneJumps whole) (pruneJumps c, s) =
      (step exec whole (c, s)).map (fun r => (pruneJumps r.1, r.2)) := by
  match c, hc with
  | [], _ => simp [pruneJumps, step]
  | [n], _ =>
    cases n with
    | label l => simp [pruneJumps, step]
    | comment => simp [pruneJumps, step]
    | instr i =>
      simp only [pruneJumps, step]
      split
      · rfl
      · split
        · cases i.cf.target with
          | none => rfl
          | some l => simp only [after_prune, Option.map_map]; rfl
        · simp [pruneJumps]
  | n :: next :: rest, hc =>
    by_cases hj : jumpsToNext n next = true
    · -- the deleted jump: it goes to the label that follows it, which is a silent step afterwards
      cases n with
      | label _ => simp [jumpsToNext] at hj
      | comment => simp [jumpsToNext] at hj
      | instr i =>
        cases next with
        | comment => simp [jumpsToNext] at hj
        | instr _ => simp [jumpsToNext] at hj
        | label l =>
          simp only [jumpsToNext, Bool.and_eq_true, Bool.not_eq_true', beq_iff_eq] at hj
          obtain ⟨⟨hb, hcnd⟩, ht⟩ := hj
          have hterm : i.cf.isTerminal = false :=
            hnt i (by rw [hc]; exact List.mem_append_right _ List.mem_cons_self) hb
          have hex := hjmp i s hb hcnd
          -- in `whole`, label `l` occurs first right here
          have hfresh : l ∉ xlabels (pre ++ [XNode.instr i]) := by
            intro hm
            have hw : whole = (pre ++ [XNode.instr i]) ++ XNode.label l :: rest := by
              rw [hc]; simp
            rw [hw, xlabels_append] at hnd
            simp only [xlabels] at hnd
            exact (List.nodup_append.mp hnd).2.2 l hm l List.mem_cons_self rfl
          have haft : after l whole = some rest := by
            have hw : whole = (pre ++ [XNode.instr i]) ++ XNode.label l :: rest := by
              rw [hc]; simp
            rw [hw]; exact after_append_fresh l _ rest hfresh
          have hpr : pruneJumps (XNode.instr i :: XNode.label l :: rest) = pruneJumps (XNode.label l :: rest) := by
            conv => lhs; unfold pruneJumps
            simp [jumpsToNext, hb, hcnd, ht]
          have hlab : pruneJumps (XNode.label l :: rest) = XNode.label l :: pruneJumps rest := by
            cases rest with
            | nil => simp [pruneJumps]
            | cons r rs => conv => lhs; unfold pruneJumps
                           simp [jumpsToNext]
          rw [hpr, hlab]
          simp only [step, hex, hb, Bool.and_self, ht, haft, Option.map_some]
          simp [hterm]
    · -- a kept node
      have hpr : pruneJumps (n :: next :: rest) = n :: pruneJumps (next :: rest) := by
        conv => lhs; unfold pruneJumps
        simp [hj]
      rw [hpr]
      cases n with
      | label l => simp [step]
      | comment => simp [step]
      | instr i =>
        simp only [step]
        split
        · rfl
        · split
          · cases i.cf.target with
            | none => rfl
            | some l => simp only [after_prune, Option.map_map]; rfl
          · rfl


theorem after_suffix (l : String) : ∀ (ns c : List XNode), after l ns = some c → ∃ pre, ns = pre ++ c
  | [], c, h => by simp [after] at h
  | .label l' :: ns, c, h => by
    simp only [after] at h
    by_cases hl : (l' == l) = true
    · rw [if_pos hl] at h; injection h with h; exact ⟨[.label l'], by simp [h]⟩
    · rw [if_neg hl] at h
      obtain ⟨pre, hp⟩ := after_suffix l ns c h
      exact ⟨.label l' :: pre, by simp [hp]⟩
  | .comment :: ns, c, h => by
    simp only [after] at h
    obtain ⟨pre, hp⟩ := after_suffix l ns c h
    exact ⟨.comment :: pre, by simp [hp]⟩
  | .instr i :: ns, c, h => by
    simp only [after] at h
    obtain ⟨pre, hp⟩ := after_suffix l ns c h
    exact ⟨.instr i :: pre, by simp [hp]⟩

/-- A step leads to a suffix of the function again. -/
theorem step_suffix (exec : XInstr → σ → σ × Bool) (whole pre c : List XNode) (hc : whole = pre ++ c) (s : σ)
    (r : List XNode × σ) (h : step exec whole (c, s) = some r) : ∃ pre', whole = pre' ++ r.1 := by
  match c, hc with
  | [], _ => simp [step] at h
  | .label l :: rest, hc => simp only [step] at h; injection h with h; exact ⟨pre ++ [.label l], by rw [← h, hc]; simp⟩
  | .comment :: rest, hc => simp only [step] at h; injection h with h; exact ⟨pre ++ [.comment], by rw [← h, hc]; simp⟩
  | .instr i :: rest, hc =>
    simp only [step] at h
    split at h
    · cases h
    · split at h
      · cases ht : i.cf.target with
        | none => simp [ht] at h
        | some l =>
          simp only [ht, Option.map_eq_some_iff] at h
          obtain ⟨c2, hc2, hr⟩ := h
          obtain ⟨p2, hp2⟩ := after_suffix l whole c2 hc2
          exact ⟨p2, by rw [← hr]; exact hp2⟩
      · injection h with h; exact ⟨pre ++ [.instr i], by rw [← h, hc]; simp⟩

def runK (exec : XInstr → σ → σ × Bool) (whole : List XNode) : Nat → List XNode × σ → Option (List XNode × σ)
  | 0, st => some st
  | k + 1, st => match step exec whole st with
    | none => none
    | some st' => runK exec whole k st'

/-- **C10 (jumps), all executions.** From the function entry, after any number
of steps the original and the pruned function are in the same machine state, at
corresponding program points, and halt at the same time. -/
theorem pruneJumps_run (exec : XInstr → σ → σ × Bool)
    (hjmp : ∀ i s, i.cf.isBranch = true → i.cf.isCond = false → exec i s = (s, true))
    (whole : List XNode) (hnd : (xlabels whole).Nodup)
    (hnt : ∀ i, XNode.instr i ∈ whole → i.cf.isBranch = true → i.cf.isTerminal = false) :
    ∀ (k : Nat) (pre c : List XNode) (s : σ), whole = pre ++ c →
      runK exec (pruneJumps whole) k (pruneJumps c, s) =
        (runK exec whole k (c, s)).map (fun r => (pruneJumps r.1, r.2))
  | 0, _, _, _, _ => rfl
  | k + 1, pre, c, s, hc => by
    simp only [runK]
    rw [pruneJumps_step exec hjmp whole hnd hnt pre c hc s]
    cases hs : step exec whole (c, s) with
    | none => rfl
    | some r =>
      obtain ⟨pre', hp'⟩ := step_suffix exec whole pre c hc s r hs
      simp only [Option.map_some]
      exact pruneJumps_run exec hjmp whole hnd hnt k pre' r.1 r.2 hp'


/-! ## Label removal: lock step at the level of executed instructions -/

/-- Skip labels and comments up to the next instruction. -/
def dropNI : List XNode → List XNode
  | [] => []
  | .instr i :: r => .instr i :: r
  | .label _ :: r => dropNI r
  | .comment :: r => dropNI r

/-- One *instruction* step: labels and comments in front are skipped. -/
def step2 (exec : XInstr → σ → σ × Bool) (whole : List XNode) (st : List XNode × σ) : Option (List XNode × σ) :=
  match dropNI st.1 with
  | .instr i :: rest =>
    let r := exec i st.2
    if i.cf.isTerminal then none
    else if i.cf.isBranch && r.2 then
      (match i.cf.target with
       | some l => (after l whole).map (fun c => (c, r.1))
       | none => none)
    else some (rest, r.1)
  | _ => none

/-- `PruneDanglingLabels` as a filter with the reference test fixed by the whole function. -/
def keepNode (whole : List XNode) (n : XNode) : Bool :=
  match n with
  | .label l => referenced whole l
  | _ => true

theorem pruneLabels_eq (whole : List XNode) : pruneLabels whole = whole.filter (keepNode whole) := by
  unfold pruneLabels
  apply List.filter_congr
  intro n _
  cases n <;> rfl

theorem dropNI_filter (whole : List XNode) : ∀ c : List XNode,
    dropNI (c.filter (keepNode whole)) = (dropNI c).filter (keepNode whole)
  | [] => rfl
  | .instr i :: r => by simp [List.filter_cons, keepNode, dropNI]
  | .comment :: r => by simpa [List.filter_cons, keepNode, dropNI] using dropNI_filter whole r
  | .label l :: r => by
    by_cases h : referenced whole l = true
    · simpa [List.filter_cons, keepNode, h, dropNI] using dropNI_filter whole r
    · simpa [List.filter_cons, keepNode, h, dropNI] using dropNI_filter whole r

theorem after_filter (whole : List XNode) (l : String) (hl : referenced whole l = true) : ∀ ns : List XNode,
    after l (ns.filter (keepNode whole)) = (after l ns).map (fun c => c.filter (keepNode whole))
  | [] => rfl
  | .instr i :: r => by simpa [List.filter_cons, keepNode, after] using after_filter whole l hl r
  | .comment :: r => by simpa [List.filter_cons, keepNode, after] using after_filter whole l hl r
  | .label l' :: r => by
    by_cases he : l' = l
    · subst he; simp [List.filter_cons, keepNode, hl, after]
    · have hb : (l' == l) = false := by simpa using he
      by_cases h : referenced whole l' = true
      · simpa [List.filter_cons, keepNode, h, after, hb] using after_filter whole l hl r
      · simpa [List.filter_cons, keepNode, h, after, hb] using after_filter whole l hl r

theorem dropNI_suffix : ∀ (c : List XNode), ∃ pre, c = pre ++ dropNI c
  | [] => ⟨[], rfl⟩
  | .instr i :: r => ⟨[], rfl⟩
  | .label l :: r => by obtain ⟨p, hp⟩ := dropNI_suffix r; exact ⟨.label l :: p, by simp [dropNI, ← hp]⟩
  | .comment :: r => by obtain ⟨p, hp⟩ := dropNI_suffix r; exact ⟨.comment :: p, by simp [dropNI, ← hp]⟩

/-- **Label removal is a lock-step simulation** of instruction steps: the
branch targets of every executed instruction are referenced, hence kept, and
denote the same continuation. -/
theorem pruneLabels_step (exec : XInstr → σ → σ × Bool) (whole pre c : List XNode) (hc : whole = pre ++ c) (s : σ) :
    step2 exec (pruneLabels whole) (c.filter (keepNode whole), s) =
      (step2 exec whole (c, s)).map (fun r => (r.1.filter (keepNode whole), r.2)) := by
  unfold step2
  simp only [dropNI_filter]
  obtain ⟨p2, hp2⟩ := dropNI_suffix c
  cases hd : dropNI c with
  | nil => simp
  | cons n rest =>
    cases n with
    | label l =>
      -- dropNI never returns a list starting with a label
      exfalso
      have : ∀ c : List XNode, ∀ l r, dropNI c ≠ XNode.label l :: r := by
        intro c; induction c with
        | nil => intro l r h; cases h
        | cons x xs ih => intro l r h; cases x <;> simp only [dropNI] at h <;> first | exact ih l r h | cases h
      exact this c l rest hd
    | comment =>
      exfalso
      have : ∀ c : List XNode, ∀ r, dropNI c ≠ XNode.comment :: r := by
        intro c; induction c with
        | nil => intro r h; cases h
        | cons x xs ih => intro r h; cases x <;> simp only [dropNI] at h <;> first | exact ih r h | cases h
      exact this c rest hd
    | instr i =>
      simp only [List.filter_cons, keepNode, if_true]
      split
      · rfl
      · split
        · rename_i hbr
          cases ht : i.cf.target with
          | none => rfl
          | some l =>
            -- the executed branch is an instruction of `whole`, so its label is referenced
            have hmem : XNode.instr i ∈ whole := by
              rw [hc, hp2, hd]; simp
            have hb : i.cf.isBranch = true := by
              simp only [Bool.and_eq_true] at hbr; exact hbr.1
            have href : referenced whole l = true := by
              unfold referenced
              exact List.any_eq_true.mpr ⟨.instr i, hmem, by simp [hb, ht]⟩
            simp only [pruneLabels_eq, after_filter whole l href, Option.map_map]
            rfl
        · rfl

end Avo.Cleanup
