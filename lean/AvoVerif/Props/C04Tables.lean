/-
C04 — structural facts of avo's form table, kernel-checked over the table
regenerated from the COMPILED package on every run (`Gen.formActions`, 12 025
rows in 8 shards; `decide +kernel` evaluates the Boolean checks of
`Model/FormActions.lean` on every row).

These are the facts the plumbing of reads/writes relies on; that the actions
themselves agree with the processor is measured, not proved (see Props/C04).
-/
import AvoVerif.Props.C04Rows
import AvoVerif.Gen.FormActions
import AvoVerif.Props.C04S0
import AvoVerif.Props.C04S1
import AvoVerif.Props.C04S2
import AvoVerif.Props.C04S3
import AvoVerif.Props.C04S4
import AvoVerif.Props.C04S5
import AvoVerif.Props.C04S6
import AvoVerif.Props.C04S7
namespace Avo.FormActions.Tables
open Avo.FormActions Avo.Gen

theorem all_of_shards {p : Row → Bool} (h : formActionShards.all (fun s => s.all p) = true) :
    ∀ r ∈ formActions, p r = true := by
  intro r hr
  unfold formActions at hr
  rw [List.mem_flatten] at hr
  obtain ⟨s, hs, hrs⟩ := hr
  rw [List.all_eq_true] at h
  have := h s hs
  rw [List.all_eq_true] at this
  exact this r hrs

theorem shards_rowOK : formActionShards.all (fun s => s.all rowOK) = true := by
  simp only [formActionShards, List.all_cons, List.all_nil, Bool.and_true,
    shard_00, shard_01, shard_02, shard_03, shard_04, shard_05, shard_06, shard_07]

/-- Every row of the table passes every structural check. -/
theorem table_rowOK : ∀ r ∈ formActions, rowOK r = true := all_of_shards shards_rowOK

private theorem rowOK_parts {r : Row} (h : rowOK r = true) :
    shapeOK faMeta r = true ∧ cancellingOK faMeta r = true ∧ implicitOK faMeta regTbl r = true ∧
    cmovOK faMeta r = true ∧ setccOK faMeta r = true ∧ maskSourceOnly r = true ∧ nonFinalMasksRead faMeta r = true ∧
    bitscanOK faMeta r = true ∧ deniedOK faMeta r = true := by
  unfold rowOK at h
  simp only [Bool.and_eq_true] at h
  exact ⟨h.1.1.1.1.1.1.1.1, h.1.1.1.1.1.1.1.2, h.1.1.1.1.1.1.2, h.1.1.1.1.1.2, h.1.1.1.1.2, h.1.1.1.2, h.1.1.2, h.1.2, h.2⟩

/-- **Self-cancelling forms.** In every form flagged `CancellingInputs`, the first two
operands with a read action are explicit operands of one and the same single-register type:
the slice `rs[2:]` of `ir.Instruction.InputRegisters` removes exactly the two source
registers and nothing else (mask registers and merge destinations follow them). -/
theorem cancelling_forms_lead_with_two_registers :
    ∀ r ∈ formActions, r.cancelling = true →
      ∃ a b rest, r.ops.filter Opnd.reads = a :: b :: rest ∧
        isSingleReg faMeta a = true ∧ isSingleReg faMeta b = true ∧ a.ty = b.ty := by
  intro r hr hc
  have h := (rowOK_parts (table_rowOK r hr)).2.1
  unfold cancellingOK at h
  simp only [hc, Bool.not_true, Bool.false_or] at h
  split at h
  · rename_i a b rest heq
    simp only [Bool.and_eq_true, beq_iff_eq] at h
    exact ⟨a, b, rest, heq, h.1.1, h.1.2, h.2⟩
  · exact absurd h (by simp)

/-- **Implicit operands.** Every implicit operand of every form names an entry of the
`implreg` enumeration, and the register that entry resolves to (`implreg.Register()`) is a
physical register (id, mask) of the regenerated register table. -/
theorem implicit_operands_resolve :
    ∀ r ∈ formActions, ∀ o ∈ r.ops, o.impl = true →
      ∃ name id mask, faMeta.implRegs[o.ty]? = some (name, id, mask) ∧ name ≠ 0 ∧ id % 2 = 0 ∧
        (id, mask) ∈ regTbl ∧
        (∀ i k, knownImpl.find? (fun e => e.1 == name) = some (name, i, k) → id = i ∧ mask = k) := by
  intro r hr o ho hi
  have h := (rowOK_parts (table_rowOK r hr)).2.2.1
  unfold implicitOK at h
  rw [List.all_eq_true] at h
  have := h o ho
  simp only [hi, Bool.not_true, Bool.false_or] at this
  split at this
  · rename_i name id mask heq
    simp only [Bool.and_eq_true, bne_iff_ne, ne_eq, beq_iff_eq, List.contains_eq_mem,
      decide_eq_true_eq] at this
    refine ⟨name, id, mask, heq, this.1.1.1, this.1.1.2, this.1.2, ?_⟩
    intro i k hf
    have h2 := this.2
    rw [hf] at h2
    simpa using h2
  · exact absurd this (by simp)

/-- **CMOVcc.** The destination of every conditional move is a register that is read and
written (it keeps its value when the condition fails). -/
theorem cmov_destination_read_write :
    ∀ r ∈ formActions, hasPrefix nCMOV (opcName faMeta r) = true →
      ∃ d, lastExplicit r = some d ∧ d.reads = true ∧ d.writes = true := by
  intro r hr hp
  have h := (rowOK_parts (table_rowOK r hr)).2.2.2.1
  unfold cmovOK at h
  simp only [hp, Bool.not_true, Bool.false_or] at h
  split at h
  · rename_i d heq
    simp only [Bool.and_eq_true] at h
    exact ⟨d, heq, h.1.1, h.1.2⟩
  · exact absurd h (by simp)

/-- **SETcc** has exactly one operand, explicit and write-only. -/
theorem setcc_destination_write_only :
    ∀ r ∈ formActions, hasPrefix nSET (opcName faMeta r) = true →
      ∃ d, r.ops = [d] ∧ d.impl = false ∧ d.reads = false ∧ d.writes = true := by
  intro r hr hp
  have h := (rowOK_parts (table_rowOK r hr)).2.2.2.2.1
  unfold setccOK at h
  simp only [hp, Bool.not_true, Bool.false_or] at h
  split at h
  · rename_i d heq
    simp only [Bool.and_eq_true, Bool.not_eq_true'] at h
    exact ⟨d, heq, h.1.1, h.1.2, h.2⟩
  · exact absurd h (by simp)

/-- Actions are N/R/W/RW, the opcode is named, the suffix class index is in range, explicit operand types are named. -/
theorem table_shape : ∀ r ∈ formActions, shapeOK faMeta r = true :=
  fun r hr => (rowOK_parts (table_rowOK r hr)).1

/-! ### Merge masking -/

/-- A suffix class either always or never carries `Z` (so "the class forces zeroing" is well defined). -/
theorem suffix_classes_Z_consistent : clsZConsistent faMeta = true := by decide +kernel

/-- **Merge-masked destinations are read.** In every row with a read opmask operand in front of a
vector-register destination and no forced `.Z`, the destination is declared read-and-written — or the row
has exactly the two operands `k, vector` with the opmask register a read-only SOURCE and the vector a
write-only destination (mask-to-vector moves and broadcasts: `VPMOVM2*`, `VPBROADCASTM*`; the set of such
opcodes is not fixed here, only their shape). -/
theorem masked_vector_destination :
    ∀ r ∈ formActions, maskedVecDest faMeta r = true → clsAllZ faMeta r = false →
      (∃ d, lastExplicit r = some d ∧ d.reads = true ∧ d.writes = true) ∨
      (∃ k d, r.ops = [k, d] ∧ isK faMeta k = true ∧ k.reads = true) := by
  intro r hr hm hz
  have h := (rowOK_parts (table_rowOK r hr)).2.2.2.2.2.1
  unfold maskSourceOnly at h
  rcases Bool.or_eq_true _ _ |>.mp h with h | h
  · left
    unfold mergeDestOK at h
    simp only [hm, hz, Bool.not_false, Bool.and_self, Bool.not_true, Bool.false_or] at h
    split at h
    · rename_i d heq
      simp only [Bool.and_eq_true] at h
      exact ⟨d, heq, h.1, h.2⟩
    · exact absurd h (by simp)
  · right
    split at h
    · rename_i k d heq
      simp only [Bool.and_eq_true] at h
      exact ⟨k, d, heq, h.1.1.1.1.1, h.1.1.1.1.2⟩
    · exact absurd h (by simp)

/-- **Opmask operands in front of the destination are read** (write masks and mask sources). Nothing is
said about whether they are also written: the completion mask of gathers/scatters (finding C04-GATHER-K)
may become read-write without breaking this. -/
theorem nonfinal_opmasks_read :
    ∀ r ∈ formActions, nonFinalMasksRead faMeta r = true :=
  fun r hr => (rowOK_parts (table_rowOK r hr)).2.2.2.2.2.2.1

/-- **BSF/BSR.** The destination of every bit scan is a register that is read and written (it keeps its
value when the source is zero). -/
theorem bitscan_destination_read_write :
    ∀ r ∈ formActions, (hasPrefix nBSF (opcName faMeta r) || hasPrefix nBSR (opcName faMeta r)) = true →
      ∃ d, lastExplicit r = some d ∧ d.reads = true ∧ d.writes = true := by
  intro r hr hp
  have h := (rowOK_parts (table_rowOK r hr)).2.2.2.2.2.2.2.1
  unfold bitscanOK at h
  simp only [hp, Bool.not_true, Bool.false_or] at h
  split at h
  · rename_i d heq
    simp only [Bool.and_eq_true] at h
    exact ⟨d, heq, h.1.1, h.1.2⟩
  · exact absurd h (by simp)

/-- **Rows the measurement never executes** (relative branches, JCXZ*, PUSH/POP, indirect JMP, SYSCALL)
declare their operands as `deniedOK` requires. -/
theorem denied_rows_declare_their_operands : ∀ r ∈ formActions, deniedOK faMeta r = true :=
  fun r hr => (rowOK_parts (table_rowOK r hr)).2.2.2.2.2.2.2.2

private theorem deniedOK_parts {r : Row} (h : deniedOK faMeta r = true) :
    (r.opc ≠ nJCXZQ ∨ (r.ops.any (fun o => implResolves faMeta o idRCX 15 && o.reads)) = true) ∧
    (r.opc ≠ nJCXZL ∨ (r.ops.any (fun o => implResolves faMeta o idRCX 7 && o.reads)) = true) := by
  unfold deniedOK at h
  simp only [Bool.and_eq_true, Bool.or_eq_true, bne_iff_ne, ne_eq] at h
  exact ⟨h.1.1.1.1.1.2, h.1.1.1.1.2⟩

/-- `JCXZQ` reads the implicit `RCX` it tests, `JCXZL` the implicit `ECX`. -/
theorem jcxz_reads_rcx :
    ∀ r ∈ formActions,
      (r.opc = nJCXZQ → ∃ o ∈ r.ops, implResolves faMeta o idRCX 15 = true ∧ o.reads = true) ∧
      (r.opc = nJCXZL → ∃ o ∈ r.ops, implResolves faMeta o idRCX 7 = true ∧ o.reads = true) := by
  intro r hr
  have h := deniedOK_parts (denied_rows_declare_their_operands r hr)
  constructor
  · intro he
    rcases h.1 with h1 | h1
    · exact absurd he h1
    · rw [List.any_eq_true] at h1
      obtain ⟨o, ho, hb⟩ := h1
      rw [Bool.and_eq_true] at hb
      exact ⟨o, ho, hb.1, hb.2⟩
  · intro he
    rcases h.2 with h1 | h1
    · exact absurd he h1
    · rw [List.any_eq_true] at h1
      obtain ⟨o, ho, hb⟩ := h1
      rw [Bool.and_eq_true] at hb
      exact ⟨o, ho, hb.1, hb.2⟩

/-- some row satisfies `p` -/
def someRow (p : Row → Bool) : Bool := formActionShards.any (fun s => s.any p)

/-! ### Non-vacuity: the checks bite -/

example : someRow Row.cancelling = true := by decide +kernel
example : someRow (fun r => r.ops.any (·.impl)) = true := by decide +kernel
example : someRow (fun r => hasPrefix nCMOV (opcName faMeta r)) = true := by decide +kernel
example : someRow (fun r => hasPrefix nSET (opcName faMeta r)) = true := by decide +kernel
example : someRow (fun r => maskedVecDest faMeta r && !clsAllZ faMeta r) = true := by decide +kernel
/-- a CMOVQEQ row with a write-only destination is rejected, with a read-write one accepted -/
example : cmovOK { opcodes := #[], typeNames := #[0, 0x723634], implRegs := #[], sfxClasses := #[] }
    ⟨0x434d4f56514551, 0, 0, [⟨1, false, 1⟩, ⟨1, false, 2⟩]⟩ = false := by decide
example : cmovOK { opcodes := #[], typeNames := #[0, 0x723634], implRegs := #[], sfxClasses := #[] }
    ⟨0x434d4f56514551, 0, 0, [⟨1, false, 1⟩, ⟨1, false, 3⟩]⟩ = true := by decide
/-- a cancelling row that leads with a memory operand is rejected -/
example : cancellingOK { opcodes := #[], typeNames := #[0, 0x786d6d, 0x6d313238], implRegs := #[], sfxClasses := #[] }
    ⟨1, 0, 8, [⟨2, false, 1⟩, ⟨1, false, 1⟩, ⟨1, false, 2⟩]⟩ = false := by decide
example : cancellingOK { opcodes := #[], typeNames := #[0, 0x786d6d, 0x6d313238], implRegs := #[], sfxClasses := #[] }
    ⟨1, 0, 8, [⟨1, false, 1⟩, ⟨1, false, 1⟩, ⟨1, false, 2⟩]⟩ = true := by decide
example : someRow (fun r => r.opc == nJCXZQ) = true := by decide +kernel
example : someRow (fun r => r.opc == nJCXZL) = true := by decide +kernel
example : someRow (fun r => r.opc == nPUSHQ) = true := by decide +kernel
example : someRow (fun r => r.opc == nPOPQ) = true := by decide +kernel
example : someRow (fun r => r.opc == nSYSCALL) = true := by decide +kernel
example : someRow (fun r => hasPrefix nBSF (opcName faMeta r)) = true := by decide +kernel
example : someRow (fun r => r.ops.any (isRel faMeta)) = true := by decide +kernel
/-- `JCXZQ rel8` without the implicit RCX read (or with the read dropped) is rejected; with it, accepted -/
example : deniedOK { opcodes := #[], typeNames := #[0, nREL8], implRegs := #[(0, 0, 0), (0x726378, idRCX, 15)], sfxClasses := #[] }
    ⟨nJCXZQ, 0, 6, [⟨1, false, 0⟩]⟩ = false := by decide
example : deniedOK { opcodes := #[], typeNames := #[0, nREL8], implRegs := #[(0, 0, 0), (0x726378, idRCX, 15)], sfxClasses := #[] }
    ⟨nJCXZQ, 0, 6, [⟨1, false, 0⟩, ⟨1, true, 0⟩]⟩ = false := by decide
example : deniedOK { opcodes := #[], typeNames := #[0, nREL8], implRegs := #[(0, 0, 0), (0x726378, idRCX, 15)], sfxClasses := #[] }
    ⟨nJCXZQ, 0, 6, [⟨1, false, 0⟩, ⟨1, true, 1⟩]⟩ = true := by decide
/-- `POPQ r64` with the write dropped and `PUSHQ r64` with the read dropped are rejected -/
example : deniedOK { opcodes := #[], typeNames := #[0, nR64], implRegs := #[], sfxClasses := #[] } ⟨nPOPQ, 0, 0, [⟨1, false, 0⟩]⟩ = false := by decide
example : deniedOK { opcodes := #[], typeNames := #[0, nR64], implRegs := #[], sfxClasses := #[] } ⟨nPUSHQ, 0, 0, [⟨1, false, 0⟩]⟩ = false := by decide
example : deniedOK { opcodes := #[], typeNames := #[0, nR64], implRegs := #[], sfxClasses := #[] } ⟨nPUSHQ, 0, 0, [⟨1, false, 1⟩]⟩ = true := by decide
/-- an `implreg` table in which the name `rax` resolves to RCX is rejected (the name is checked against the register) -/
example : implicitOK { opcodes := #[], typeNames := #[], implRegs := #[(0, 0, 0), (0x726178, idRCX, 15)], sfxClasses := #[] }
    [(idRCX, 15), (idRAX, 15)] ⟨1, 0, 0, [⟨1, true, 1⟩]⟩ = false := by decide
example : implicitOK { opcodes := #[], typeNames := #[], implRegs := #[(0, 0, 0), (0x726178, idRAX, 15)], sfxClasses := #[] }
    [(idRCX, 15), (idRAX, 15)] ⟨1, 0, 0, [⟨1, true, 1⟩]⟩ = true := by decide
/-- the name constants are the intended ASCII strings -/
example : [nBSF, nBSR, nJCXZL, nJCXZQ, nPUSHQ, nPUSHW, nPOPQ, nPOPW, nJMP, nSYSCALL, nREL8, nREL32, nIMM8, nIMM32].map (toChars 64 · []) =
    ["BSF", "BSR", "JCXZL", "JCXZQ", "PUSHQ", "PUSHW", "POPQ", "POPW", "JMP", "SYSCALL", "rel8", "rel32", "imm8", "imm32"].map String.toList := by decide
example : knownImpl.map (fun e => toChars 64 e.1 []) =
    ["al", "ax", "eax", "rax", "ebx", "rbx", "ecx", "rcx", "dx", "edx", "rdx", "rdi", "r11", "x0"].map String.toList := by decide
example : [nR8, nR16, nR32, nR64, nXMM, nYMM, nZMM, nK, nCMOV, nSET].map (toChars 64 · []) =
    ["r8", "r16", "r32", "r64", "xmm", "ymm", "zmm", "k", "CMOV", "SET"].map String.toList := by decide

end Avo.FormActions.Tables
