/-
C04 — structural facts of avo's form table, kernel-checked over the table
regenerated from the COMPILED package on every run (`Gen.formActions`, 12 025
rows in 8 shards; `decide +kernel` evaluates the Boolean checks of
`Model/FormActions.lean` on every row).

These are the facts the plumbing of reads/writes relies on; that the actions
themselves agree with the processor is measured, not proved (see Props/C04).
-/
import AvoVerif.Props.C04Rows
import AvoVerif.Gen.FormActions
import AvoVerif.Props.C04S0
import AvoVerif.Props.C04S1
import AvoVerif.Props.C04S2
import AvoVerif.Props.C04S3
import AvoVerif.Props.C04S4
import AvoVerif.Props.C04S5
import AvoVerif.Props.C04S6
import AvoVerif.Props.C04S7
namespace Avo.FormActions.Tables
open Avo.FormActions Avo.Gen

theorem all_of_shards {p : Row → Bool} (h : formActionShards.all (fun s => s.all p) = true) :
    ∀ r ∈ formActions, p r = true := by
  intro r hr
  unfold formActions at hr
  rw [List.mem_flatten] at hr
  obtain ⟨s, hs, hrs⟩ := hr
  rw [List.all_eq_true] at h
  have := h s hs
  rw [List.all_eq_true] at this
  exact this r hrs

theorem shards_rowOK : formActionShards.all (fun s => s.all rowOK) = true := by
  simp only [formActionShards, List.all_cons, List.all_nil, Bool.and_true,
    shard_00, shard_01, shard_02, shard_03, shard_04, shard_05, shard_06, shard_07]

/-- Every row of the table passes every structural check. -/
theorem table_rowOK : ∀ r ∈ formActions, rowOK r = true := all_of_shards shards_rowOK

private theorem rowOK_parts {r : Row} (h : rowOK r = true) :
    shapeOK faMeta r = true ∧ cancellingOK faMeta r = true ∧ implicitOK faMeta regTbl r = true ∧
    cmovOK faMeta r = true ∧ setccOK faMeta r = true ∧ maskSourceOnly r = true ∧ nonFinalMaskWritten r = false := by
  unfold rowOK at h
  simp only [Bool.and_eq_true, Bool.not_eq_true'] at h
  exact ⟨h.1.1.1.1.1.1, h.1.1.1.1.1.2, h.1.1.1.1.2, h.1.1.1.2, h.1.1.2, h.1.2, h.2⟩

/-- **Self-cancelling forms.** In every form flagged `CancellingInputs`, the first two
operands with a read action are explicit operands of one and the same single-register type:
the slice `rs[2:]` of `ir.Instruction.InputRegisters` removes exactly the two source
registers and nothing else (mask registers and merge destinations follow them). -/
theorem cancelling_forms_lead_with_two_registers :
    ∀ r ∈ formActions, r.cancelling = true →
      ∃ a b rest, r.ops.filter Opnd.reads = a :: b :: rest ∧
        isSingleReg faMeta a = true ∧ isSingleReg faMeta b = true ∧ a.ty = b.ty := by
  intro r hr hc
  have h := (rowOK_parts (table_rowOK r hr)).2.1
  unfold cancellingOK at h
  simp only [hc, Bool.not_true, Bool.false_or] at h
  split at h
  · rename_i a b rest heq
    simp only [Bool.and_eq_true, beq_iff_eq] at h
    exact ⟨a, b, rest, heq, h.1.1, h.1.2, h.2⟩
  · exact absurd h (by simp)

/-- **Implicit operands.** Every implicit operand of every form names an entry of the
`implreg` enumeration, and the register that entry resolves to (`implreg.Register()`) is a
physical register (id, mask) of the regenerated register table. -/
theorem implicit_operands_resolve :
    ∀ r ∈ formActions, ∀ o ∈ r.ops, o.impl = true →
      ∃ name id mask, faMeta.implRegs[o.ty]? = some (name, id, mask) ∧ name ≠ 0 ∧ id % 2 = 0 ∧
        (id, mask) ∈ regTbl := by
  intro r hr o ho hi
  have h := (rowOK_parts (table_rowOK r hr)).2.2.1
  unfold implicitOK at h
  rw [List.all_eq_true] at h
  have := h o ho
  simp only [hi, Bool.not_true, Bool.false_or] at this
  split at this
  · rename_i name id mask heq
    simp only [Bool.and_eq_true, bne_iff_ne, ne_eq, beq_iff_eq, List.contains_eq_mem,
      decide_eq_true_eq] at this
    exact ⟨name, id, mask, heq, this.1.1, this.1.2, this.2⟩
  · exact absurd this (by simp)

/-- **CMOVcc.** The destination of every conditional move is a register that is read and
written (it keeps its value when the condition fails). -/
theorem cmov_destination_read_write :
    ∀ r ∈ formActions, hasPrefix nCMOV (opcName faMeta r) = true →
      ∃ d, lastExplicit r = some d ∧ d.reads = true ∧ d.writes = true := by
  intro r hr hp
  have h := (rowOK_parts (table_rowOK r hr)).2.2.2.1
  unfold cmovOK at h
  simp only [hp, Bool.not_true, Bool.false_or] at h
  split at h
  · rename_i d heq
    simp only [Bool.and_eq_true] at h
    exact ⟨d, heq, h.1.1, h.1.2⟩
  · exact absurd h (by simp)

/-- **SETcc** has exactly one operand, explicit and write-only. -/
theorem setcc_destination_write_only :
    ∀ r ∈ formActions, hasPrefix nSET (opcName faMeta r) = true →
      ∃ d, r.ops = [d] ∧ d.impl = false ∧ d.reads = false ∧ d.writes = true := by
  intro r hr hp
  have h := (rowOK_parts (table_rowOK r hr)).2.2.2.2.1
  unfold setccOK at h
  simp only [hp, Bool.not_true, Bool.false_or] at h
  split at h
  · rename_i d heq
    simp only [Bool.and_eq_true, Bool.not_eq_true'] at h
    exact ⟨d, heq, h.1.1, h.1.2, h.2⟩
  · exact absurd h (by simp)

/-- Actions are N/R/W/RW, the opcode is named, the suffix class index is in range, explicit operand types are named. -/
theorem table_shape : ∀ r ∈ formActions, shapeOK faMeta r = true :=
  fun r hr => (rowOK_parts (table_rowOK r hr)).1

/-! ### Merge masking -/

/-- A suffix class either always or never carries `Z` (so "the class forces zeroing" is well defined). -/
theorem suffix_classes_Z_consistent : clsZConsistent faMeta = true := by decide +kernel

/-- opcodes having a row with a read opmask operand before a vector-register destination,
a suffix class that does not force zeroing, and a destination that is NOT read-and-written -/
def mergeExceptions : List Nat := (formActionShards.flatMap (exceptions faMeta (mergeDestOK faMeta))).eraseDups

/-- **Merge-masked destinations are read.** Among the 3 029 rows with a read opmask operand
in front of a vector-register destination and no forced `.Z`, the destination is declared
read-and-written — except for exactly these six opcodes, where the opmask register is the
SOURCE operand (mask-to-vector moves and broadcasts), not a write mask (`maskSourceOnly`,
part of `rowOK`). -/
theorem merge_destinations_read_write :
    mergeExceptions =
      [ 0x565042524f4144434153544d423251  -- VPBROADCASTMB2Q
      , 0x565042524f4144434153544d573244  -- VPBROADCASTMW2D
      , 0x56504d4f564d3242                 -- VPMOVM2B
      , 0x56504d4f564d3244                 -- VPMOVM2D
      , 0x56504d4f564d3251                 -- VPMOVM2Q
      , 0x56504d4f564d3257 ] := by         -- VPMOVM2W
  decide +kernel

/-- Row-level form of the two facts above. -/
theorem masked_vector_destination :
    ∀ r ∈ formActions, maskedVecDest faMeta r = true → clsAllZ faMeta r = false →
      (∃ d, lastExplicit r = some d ∧ d.reads = true ∧ d.writes = true) ∨
      (∃ k d, r.ops = [k, d] ∧ isK faMeta k = true ∧ k.reads = true) := by
  intro r hr hm hz
  have h := (rowOK_parts (table_rowOK r hr)).2.2.2.2.2.1
  unfold maskSourceOnly at h
  rcases Bool.or_eq_true _ _ |>.mp h with h | h
  · left
    unfold mergeDestOK at h
    simp only [hm, hz, Bool.not_false, Bool.and_self, Bool.not_true, Bool.false_or] at h
    split at h
    · rename_i d heq
      simp only [Bool.and_eq_true] at h
      exact ⟨d, heq, h.1, h.2⟩
    · exact absurd h (by simp)
  · right
    split at h
    · rename_i k d heq
      simp only [Bool.and_eq_true] at h
      exact ⟨k, d, heq, h.1.1.1.1.1, h.1.1.1.1.2⟩
    · exact absurd h (by simp)

/-- Table-level FINDING fact (see known_findings.json C04-GATHER-K): no row declares a write
of an opmask operand that is not the final operand — in particular the completion mask of
the AVX-512 gathers and scatters, which the processor clears, is declared read-only. -/
theorem no_nonfinal_opmask_declared_written :
    ∀ r ∈ formActions, nonFinalMaskWritten r = false :=
  fun r hr => (rowOK_parts (table_rowOK r hr)).2.2.2.2.2.2

/-- some row satisfies `p` -/
def someRow (p : Row → Bool) : Bool := formActionShards.any (fun s => s.any p)

/-! ### Non-vacuity: the checks bite -/

example : someRow Row.cancelling = true := by decide +kernel
example : someRow (fun r => r.ops.any (·.impl)) = true := by decide +kernel
example : someRow (fun r => hasPrefix nCMOV (opcName faMeta r)) = true := by decide +kernel
example : someRow (fun r => hasPrefix nSET (opcName faMeta r)) = true := by decide +kernel
example : someRow (fun r => maskedVecDest faMeta r && !clsAllZ faMeta r) = true := by decide +kernel
/-- a CMOVQEQ row with a write-only destination is rejected, with a read-write one accepted -/
example : cmovOK { opcodes := #[], typeNames := #[0, 0x723634], implRegs := #[], sfxClasses := #[] }
    ⟨0x434d4f56514551, 0, 0, [⟨1, false, 1⟩, ⟨1, false, 2⟩]⟩ = false := by decide
example : cmovOK { opcodes := #[], typeNames := #[0, 0x723634], implRegs := #[], sfxClasses := #[] }
    ⟨0x434d4f56514551, 0, 0, [⟨1, false, 1⟩, ⟨1, false, 3⟩]⟩ = true := by decide
/-- a cancelling row that leads with a memory operand is rejected -/
example : cancellingOK { opcodes := #[], typeNames := #[0, 0x786d6d, 0x6d313238], implRegs := #[], sfxClasses := #[] }
    ⟨1, 0, 8, [⟨2, false, 1⟩, ⟨1, false, 1⟩, ⟨1, false, 2⟩]⟩ = false := by decide
example : cancellingOK { opcodes := #[], typeNames := #[0, 0x786d6d, 0x6d313238], implRegs := #[], sfxClasses := #[] }
    ⟨1, 0, 8, [⟨1, false, 1⟩, ⟨1, false, 1⟩, ⟨1, false, 2⟩]⟩ = true := by decide
/-- the name constants are the intended ASCII strings -/
example : [nR8, nR16, nR32, nR64, nXMM, nYMM, nZMM, nK, nCMOV, nSET].map (toChars 64 · []) =
    ["r8", "r16", "r32", "r64", "xmm", "ymm", "zmm", "k", "CMOV", "SET"].map String.toList := by decide

end Avo.FormActions.Tables
