/-
C11, text level: the bytes of the printed file, split into lines and lexed,
are the structured lines (so reading the *text* back gives the file), and the
column width of a block does not change what is read.  Token well-formedness
hypotheses are explicit.
-/
import AvoVerif.Props.C11
namespace Avo.Print
open Avo.Attr

/-! ## 5. Lines -/

theorem splitNL_ne_nil (t : Txt) : splitNL t ≠ [] := by
  induction t with
  | nil => simp [splitNL]
  | cons c cs ih =>
    simp only [splitNL]
    split
    · simp
    · split <;> simp

theorem splitNL_line (l rest : Txt) (h : NoNL l) : splitNL (l ++ '\n' :: rest) = l :: splitNL rest := by
  induction l with
  | nil => simp [splitNL]
  | cons c cs ih =>
    have hc : c ≠ '\n' := by intro e; apply h; simp [e]
    have hcs : NoNL cs := by intro e; apply h; simp [e]
    simp only [List.cons_append, splitNL, hc, if_false, ih hcs]

/-- **lines_render.** The printed bytes split at newlines into exactly the
rendered lines (plus the empty remainder after the final newline). -/
theorem splitNL_render (ls : List SLine) (h : ∀ l ∈ ls, NoNL (renderLine l)) :
    splitNL (render ls) = ls.map renderLine ++ [[]] := by
  induction ls with
  | nil => rfl
  | cons l ls ih =>
    have h1 := h l List.mem_cons_self
    have h2 := ih (fun x hx => h x (List.mem_cons_of_mem _ hx))
    show splitNL ((renderLine l ++ ['\n']) ++ render ls) = _
    rw [List.append_assoc, List.singleton_append, splitNL_line _ _ h1, h2]
    simp

theorem lexText_render (ls : List SLine) (h : ∀ l ∈ ls, NoNL (renderLine l)) :
    lexText (render ls) = ls.map (fun l => lexLine (renderLine l)) := by
  unfold lexText
  rw [splitNL_render ls h, List.dropLast_concat]
  simp

/-! ## 6. One line -/

theorem takeWhile_stop (p : Char → Bool) (a : Txt) (y : Char) (zs : Txt)
    (ha : ∀ x ∈ a, p x = true) (hy : p y = false) :
    (a ++ y :: zs).takeWhile p = a ∧ (a ++ y :: zs).dropWhile p = y :: zs := by
  induction a with
  | nil => simp [List.takeWhile, List.dropWhile, hy]
  | cons x xs ih =>
    have hx := ha x List.mem_cons_self
    have := ih (fun z hz => ha z (List.mem_cons_of_mem _ hz))
    simp [List.takeWhile, List.dropWhile, hx, this]

theorem takeWhile_all (p : Char → Bool) (a : Txt) (ha : ∀ x ∈ a, p x = true) :
    a.takeWhile p = a ∧ a.dropWhile p = [] := by
  induction a with
  | nil => simp
  | cons x xs ih =>
    have hx := ha x List.mem_cons_self
    have := ih (fun z hz => ha z (List.mem_cons_of_mem _ hz))
    simp [List.takeWhile, List.dropWhile, hx, this]

theorem dropWhile_spaces (k : Nat) (t : Txt) (h : t.head? ≠ some ' ') :
    (List.replicate k ' ' ++ t).dropWhile isSpaceCh = t := by
  induction k with
  | zero =>
    cases t with
    | nil => rfl
    | cons c cs =>
      have : c ≠ ' ' := by intro e; apply h; simp [e]
      simp [List.dropWhile, isSpaceCh, this]
  | succ k ih => simp [List.replicate_succ, List.dropWhile, isSpaceCh, ih]

theorem trimRight_cons (c : Char) (t : Txt) (h : isGoSpace c = false) :
    trimRight (c :: t) = c :: trimRight t := by
  unfold trimRight
  rw [List.reverse_cons, List.dropWhile_append]
  split
  · rename_i he
    have : List.dropWhile isGoSpace t.reverse = [] := by simpa using he
    simp [this, List.dropWhile, h]
  · simp

/-- A comment line always starts with `//`. -/
theorem commentText_prefix (t : Txt) : ∃ r, commentText t = '/' :: '/' :: r := by
  unfold commentText
  rw [trimRight_cons _ _ (by decide), trimRight_cons _ _ (by decide)]
  exact ⟨_, rfl⟩

theorem slashes_of_strip (t : Txt) (h : (stripPrefix ['/', '/'] t).isSome = true) :
    ∃ r, t = '/' :: '/' :: r := by
  match t with
  | [] => simp [stripPrefix] at h
  | [a] =>
    by_cases ha : '/' = a <;> simp [stripPrefix, ha] at h
  | a :: b :: r =>
    by_cases ha : '/' = a
    · by_cases hb : '/' = b
      · exact ⟨r, by rw [← ha, ← hb]⟩
      · simp [stripPrefix, ha, hb] at h
    · simp [stripPrefix, ha] at h

theorem lexLine_slashes (r : Txt) : lexLine ('/' :: '/' :: r) = .top ('/' :: '/' :: r) := by
  simp [lexLine, lexTop, stripPrefix]

theorem stripPrefix_append (p t : Txt) : stripPrefix p (p ++ t) = some t := by
  induction p with
  | nil => rfl
  | cons a p ih => simp [stripPrefix, ih]

theorem stripPrefix_slash_none (t : Txt) (h : t.head? ≠ some '/') :
    stripPrefix ['/', '/', ' '] t = none := by
  cases t with
  | nil => rfl
  | cons c cs =>
    have : '/' ≠ c := by intro e; apply h; simp [← e]
    simp [stripPrefix, this]

/-- **lex_render_line.** Lexing the rendering of a well-formed line gives the
line's content — for every column width. -/
theorem lex_render_line (l : SLine) (h : WFLine l) : lexLine (renderLine l) = abstract l := by
  cases l with
  | blank => rfl
  | comment t =>
    obtain ⟨r, hr⟩ := commentText_prefix t
    simp only [renderLine, abstract, hr, lexLine_slashes]
  | raw t =>
    obtain ⟨r, hr⟩ := slashes_of_strip t h
    simp only [renderLine, abstract, hr, lexLine_slashes]
  | incl p => simp [renderLine, abstract, lexLine, lexTop, stripPrefix]
  | text n c f a =>
    have hn : ∀ x ∈ n, notParen x = true := by
      intro x hx; simp only [notParen, bne_iff_ne, ne_eq]; intro e; exact h (e ▸ hx)
    have := takeWhile_stop notParen n '(' ('S' :: 'B' :: ')' :: textRest c f a) hn (by decide)
    simp only [renderLine, abstract, lexLine, lexTop]
    simp [stripPrefix, this.1, this.2]
  | instr o s ops w =>
    obtain ⟨h1, h2, h3, h4⟩ := h
    have hns : ∀ x ∈ opcodeWithSuffixes o s, notSpace x = true := by
      intro x hx; simp only [notSpace, bne_iff_ne, ne_eq]; intro e; exact h1 (e ▸ hx)
    simp only [renderLine, abstract]
    by_cases he : ops = []
    · subst he
      have := takeWhile_all notSpace _ hns
      simp [lexLine, stripPrefix_slash_none _ h2, this.1, this.2, joinWith]
    · have hw := h4 he
      have hk : w + 1 - (opcodeWithSuffixes o s).length = (w - (opcodeWithSuffixes o s).length) + 1 := by omega
      have hemp : ops.isEmpty = false := by cases ops <;> simp_all
      simp only [hemp, Bool.false_eq_true, ↓reduceIte, padRight, hk, List.replicate_succ, List.append_assoc, List.cons_append]
      have hh : (opcodeWithSuffixes o s ++ ' ' :: (List.replicate (w - (opcodeWithSuffixes o s).length) ' ' ++
          joinWith [',', ' '] ops)).head? ≠ some '/' := by
        cases hq : opcodeWithSuffixes o s with
        | nil => simp
        | cons c cs => rw [hq] at h2; simpa using h2
      have := takeWhile_stop notSpace (opcodeWithSuffixes o s) ' '
        (List.replicate (w - (opcodeWithSuffixes o s).length) ' ' ++ joinWith [',', ' '] ops) hns (by decide)
      simp only [lexLine, ↓reduceIte]
      rw [stripPrefix_slash_none _ hh, this.1, this.2]
      simp [List.dropWhile, isSpaceCh, dropWhile_spaces _ _ h3]
  | label l =>
    obtain ⟨h0, h1, h2, h3, h4, h5⟩ := h
    simp only [renderLine, abstract]
    cases hq : l ++ [':'] with
    | nil => simp at hq
    | cons c r =>
      rw [hq] at h0
      have hc : c ≠ '\t' := by intro e; apply h0; simp [e]
      simp only [lexLine, hc, if_false]
      rw [← hq]
      simp only [lexTop, h1, h2, h3, h4, h5]
      simp
  | icomment t => simp [renderLine, abstract, lexLine, stripPrefix]
  | data sym st off b v => simp [renderLine, abstract, lexLine, lexTop, stripPrefix]
  | globl sym st ats sz => simp [renderLine, abstract, lexLine, lexTop, stripPrefix]
  | pkg n => exact absurd h id
  | pragma d a => exact absurd h id
  | decl s => exact absurd h id

/-- **width independence.** The column width of a block does not change the
tokens read from an instruction line. -/
theorem width_independent (o : Txt) (s ops : List Txt) (w w' : Nat)
    (h : WFLine (.instr o s ops w)) (h' : WFLine (.instr o s ops w')) :
    lexLine (renderLine (.instr o s ops w)) = lexLine (renderLine (.instr o s ops w')) := by
  rw [lex_render_line _ h, lex_render_line _ h']; rfl

/-! ## 7. Well-formed files print well-formed lines -/

theorem nonl_nil : NoNL [] := by simp [NoNL]
theorem nonl_append {a b : Txt} : NoNL (a ++ b) ↔ NoNL a ∧ NoNL b := by simp [NoNL, not_or]
theorem nonl_cons {c : Char} {t : Txt} : NoNL (c :: t) ↔ c ≠ '\n' ∧ NoNL t := by
  simp [NoNL, not_or, eq_comm]

theorem nonl_joinWith (sep : Txt) (xs : List Txt) (hs : NoNL sep) (h : ∀ x ∈ xs, NoNL x) :
    NoNL (joinWith sep xs) := by
  induction xs with
  | nil => exact nonl_nil
  | cons x xs ih =>
    cases xs with
    | nil => simpa [joinWith] using h x (by simp)
    | cons y ys =>
      simp only [joinWith, nonl_append]
      exact ⟨⟨h x (by simp), hs⟩, ih (fun z hz => h z (List.mem_cons_of_mem _ hz))⟩

theorem nat_chars (n : Nat) (c : Char) (h : c ∈ (toString n).toList) : c.isDigit = true := by
  rw [Nat.toString_eq_repr, Nat.toList_repr] at h
  exact Nat.isDigit_of_mem_toDigits (by decide) (by decide) h

theorem int_chars (i : Int) (c : Char) (h : c ∈ (toString i).toList) : c.isDigit = true ∨ c = '-' := by
  cases i with
  | ofNat m =>
    left; apply nat_chars m
    simpa [toString, instToStringInt, Int.repr] using h
  | negSucc m =>
    simp [toString, Int.repr] at h
    rcases h with h | h
    · right; exact h
    · left; exact nat_chars _ _ (by simpa [toString] using h)

theorem nonl_dec (i : Int) : NoNL (dec i) := by
  intro h
  rcases int_chars i _ h with h | h
  · revert h; decide
  · revert h; decide

theorem nonl_decPlus (i : Int) : NoNL (decPlus i) := by
  unfold decPlus; split
  · exact nonl_dec i
  · exact nonl_cons.2 ⟨by decide, nonl_dec i⟩

theorem nonl_natText (v : Nat) : NoNL (toString v).toList := by
  intro h; have := nat_chars v _ h; revert this; decide

theorem nonl_trimRight (t : Txt) (h : NoNL t) : NoNL (trimRight t) := by
  intro hm
  apply h
  unfold trimRight at hm
  have := (List.dropWhile_sublist isGoSpace (l := t.reverse)).subset (List.mem_reverse.1 hm)
  exact List.mem_reverse.1 this

theorem nonl_commentText (t : Txt) (h : NoNL t) : NoNL (commentText t) := by
  apply nonl_trimRight
  simp [nonl_cons, h]

theorem nonl_replicate_space (k : Nat) : NoNL (List.replicate k ' ') := by
  intro h; have := List.eq_of_mem_replicate h; revert this; decide

theorem nonl_flatMap_cons (c : Char) (hc : c ≠ '\n') (xs : List Txt) (h : ∀ x ∈ xs, NoNL x) :
    NoNL (xs.flatMap (fun s => c :: s)) := by
  induction xs with
  | nil => exact nonl_nil
  | cons x xs ih =>
    simp only [List.flatMap_cons, nonl_append, nonl_cons]
    exact ⟨⟨hc, h x (by simp)⟩, ih (fun z hz => h z (List.mem_cons_of_mem _ hz))⟩

theorem lookupName_mem (names : List (Nat × String)) (v : Nat) (n : String)
    (h : lookupName names v = some n) : ∃ p ∈ names, p.2 = n := by
  unfold lookupName at h
  split at h
  · rename_i k n' hf
    split at h
    · cases h
    · injection h with h
      exact ⟨(k, n'), List.mem_of_find?_eq_some hf, h⟩
  · cases h

theorem splitBits_names (names : List (Nat × String)) (a : BitVec 16) (is : List Nat) (n : String)
    (h : n ∈ (splitBits names a is).1) : ∃ p ∈ names, p.2 = n := by
  induction is with
  | nil => simp [splitBits] at h
  | cons i is ih =>
    simp only [splitBits] at h
    split at h
    · split at h
      · rename_i m hm
        simp only [List.mem_cons] at h
        rcases h with h | h
        · exact h ▸ lookupName_mem names _ _ hm
        · exact ih h
      · exact ih h
    · exact ih h

theorem nonl_tok (names) (hn : NamesOK names) (a : BitVec 16) (t : Tok) (h : t ∈ asmToks names a) :
    NoNL (tokTxt t) := by
  unfold asmToks at h
  simp only [List.mem_append, List.mem_map] at h
  rcases h with ⟨n, hn', rfl⟩ | h
  · obtain ⟨p, hp, rfl⟩ := splitBits_names names a _ n hn'
    exact hn p hp
  · split at h
    · simp only [List.mem_singleton] at h; subst h; exact nonl_natText _
    · simp at h

theorem nonl_toksText (names) (hn : NamesOK names) (a : BitVec 16) : NoNL (toksText (asmToks names a)) := by
  apply nonl_joinWith _ _ (by simp [NoNL])
  intro x hx
  obtain ⟨t, ht, rfl⟩ := List.mem_map.1 hx
  exact nonl_tok names hn a t ht

theorem nonl_textSize (fr ar : Int) : NoNL (textSize fr ar) := by
  unfold textSize
  split <;> simp [nonl_cons, nonl_append, nonl_dec, nonl_nil]

theorem nonl_textRest (names) (hn : NamesOK names) (a : BitVec 16) (fr ar : Int) :
    NoNL (textRest (textClause names a) fr ar) := by
  unfold textRest textClause
  split
  · rename_i h
    split at h
    · simp [nonl_append, nonl_cons, nonl_nil, nonl_textSize]
    · cases h
  · rename_i ts h
    split at h
    · cases h
    · injection h with h; subst h
      simp [nonl_append, nonl_cons, nonl_nil, nonl_textSize, nonl_toksText names hn]

theorem nonl_symText (sym : Txt) (st : Bool) (h : NoNL sym) : NoNL (symText sym st) := by
  unfold symText; split <;> simp [nonl_append, nonl_cons, nonl_nil, h]

theorem nonl_dataAddr (sym : Txt) (st : Bool) (off : Int) (h : NoNL sym) : NoNL (dataAddr sym st off) := by
  unfold dataAddr
  simp only [nonl_append]
  refine ⟨?_, by simp [NoNL]⟩
  split
  · exact nonl_append.2 ⟨nonl_symText _ _ h, nonl_decPlus _⟩
  · split
    · exact nonl_dec _
    · exact nonl_nil

/-! widths -/

theorem length_le_byteLen (t : Txt) : t.length ≤ byteLen t := by
  induction t with
  | nil => simp [byteLen]
  | cons c cs ih =>
    have := Char.utf8Size_pos c
    simp only [byteLen, List.map_cons, List.sum_cons, List.length_cons] at ih ⊢
    omega

theorem le_blockWidth (buf : List Instr) (i : Instr) (hi : i ∈ buf) (ho : i.operands ≠ []) :
    byteLen i.ows ≤ blockWidth buf := by
  induction buf with
  | nil => cases hi
  | cons j js ih =>
    simp only [blockWidth]
    rcases List.mem_cons.1 hi with rfl | h
    · have : i.operands.isEmpty = false := by cases hq : i.operands <;> simp_all
      simp only [this, Bool.false_eq_true, ↓reduceIte]; omega
    · have := ih h
      split <;> omega

def LineOK (l : SLine) : Prop := WFLine l ∧ NoNL (renderLine l)

theorem lineOK_instr (i : Instr) (w : Nat) (h : WFInstr i) (hw : i.operands ≠ [] → i.ows.length ≤ w) :
    LineOK (.instr i.opcode i.suffixes i.operands w) := by
  refine ⟨⟨h.nosp, h.noslash, h.ops_head, hw⟩, ?_⟩
  simp only [renderLine]
  split
  · exact nonl_cons.2 ⟨by decide, h.nonl⟩
  · simp only [padRight, List.cons_append, nonl_cons, nonl_append]
    exact ⟨by decide, ⟨h.nonl, nonl_replicate_space _⟩,
      nonl_joinWith _ _ (by simp [NoNL]) h.ops_nonl⟩

theorem lineOK_flushBlock (buf : List Instr) (h : ∀ i ∈ buf, WFInstr i) :
    ∀ l ∈ flushBlock buf, LineOK l := by
  intro l hl
  obtain ⟨i, hi, rfl⟩ := List.mem_map.1 hl
  exact lineOK_instr i _ (h i hi)
    (fun ho => Nat.le_trans (length_le_byteLen _) (le_blockWidth buf i hi ho))

theorem lineOK_ensureClear (c : Bool) : ∀ l ∈ ensureClear c, LineOK l := by
  cases c <;> simp [ensureClear, LineOK, WFLine, renderLine, nonl_nil]

theorem lineOK_printNodes (ns : List Node) (buf : List Instr) (clear : Bool)
    (hb : ∀ i ∈ buf, WFInstr i) (hn : ∀ n ∈ ns, WFNode n) :
    ∀ l ∈ printNodes ns buf clear, LineOK l := by
  induction ns generalizing buf clear with
  | nil => simpa [printNodes] using lineOK_flushBlock buf hb
  | cons n ns ih =>
    have hn' : ∀ n ∈ ns, WFNode n := fun m hm => hn m (List.mem_cons_of_mem _ hm)
    have h0 := hn n List.mem_cons_self
    cases n with
    | instr i =>
      have hbi : ∀ j ∈ buf ++ [i], WFInstr j := by
        intro j hj
        rcases List.mem_append.1 hj with hj | hj
        · exact hb j hj
        · simp only [List.mem_singleton] at hj; subst hj; exact h0
      simp only [printNodes]
      split
      · intro l hl
        rcases List.mem_append.1 hl with hl | hl
        · exact lineOK_flushBlock _ hbi l hl
        · exact ih [] false (by simp) hn' l hl
      · exact ih _ false hbi hn'
    | label lb =>
      simp only [printNodes]
      intro l hl
      simp only [List.mem_append, List.mem_singleton] at hl
      rcases hl with ((hl | hl) | hl) | hl
      · exact lineOK_flushBlock _ hb l hl
      · exact lineOK_ensureClear _ l hl
      · subst hl
        exact ⟨h0.2, by simp [renderLine, nonl_append, nonl_cons, nonl_nil, h0.1]⟩
      · exact ih [] true (by simp) hn' l hl
    | comment ls =>
      simp only [printNodes]
      intro l hl
      simp only [List.mem_append, List.mem_map] at hl
      rcases hl with ((hl | hl) | ⟨t, ht, rfl⟩) | hl
      · exact lineOK_flushBlock _ hb l hl
      · exact lineOK_ensureClear _ l hl
      · exact ⟨trivial, by simp [renderLine, nonl_cons, h0 t ht]⟩
      · exact ih [] true (by simp) hn' l hl

theorem lineOK_printFunction (names) (hn : NamesOK names) (f : Function) (h : WFFn f) :
    ∀ l ∈ printFunction names f, LineOK l := by
  intro l hl
  unfold printFunction requiresLine at hl
  simp only [List.mem_append, List.mem_cons, List.mem_singleton, List.not_mem_nil, or_false] at hl
  rcases hl with (((hl | hl) | hl) | hl) | hl
  · subst hl; exact ⟨trivial, nonl_nil⟩
  · subst hl; exact ⟨trivial, nonl_commentText _ h.stub⟩
  · split at hl
    · cases hl
    · simp only [List.mem_singleton] at hl; subst hl
      refine ⟨trivial, nonl_commentText _ ?_⟩
      exact nonl_append.2 ⟨by simp [NoNL], nonl_joinWith _ _ (by simp [NoNL]) h.isa⟩
  · subst hl
    refine ⟨h.name_paren, ?_⟩
    simp only [renderLine, nonl_append]
    exact ⟨⟨⟨by simp [NoNL], h.name_nonl⟩, by simp [NoNL]⟩, nonl_textRest names hn _ _ _⟩
  · exact lineOK_printNodes _ [] true (by simp) h.nodes l hl

theorem lineOK_printGlobal (names) (hn : NamesOK names) (g : Global) (h : WFGl g) :
    ∀ l ∈ printGlobal names g, LineOK l := by
  intro l hl
  unfold printGlobal at hl
  simp only [List.mem_append, List.mem_singleton, List.mem_map] at hl
  rcases hl with (hl | ⟨d, hd, rfl⟩) | hl
  · subst hl; exact ⟨trivial, nonl_nil⟩
  · refine ⟨trivial, ?_⟩
    simp [renderLine, nonl_append, nonl_cons, nonl_nil, nonl_dataAddr _ _ _ h.sym, nonl_dec, h.vals d hd]
  · subst hl
    refine ⟨trivial, ?_⟩
    simp [renderLine, nonl_append, nonl_cons, nonl_nil, nonl_symText _ _ h.sym, nonl_dec, nonl_toksText names hn]

theorem nonl_generatedWarning (cfg : Config) (h1 : NoNL cfg.name) (h2 : ∀ a ∈ cfg.argv.getD [], NoNL a) :
    NoNL (generatedWarning cfg) := by
  unfold generatedWarning
  simp only [nonl_append]
  refine ⟨⟨by simp [NoNL], ?_⟩, by simp [NoNL]⟩
  cases hq : cfg.argv with
  | none => exact h1
  | some a =>
    rw [hq] at h2
    exact nonl_append.2 ⟨by simp [NoNL], nonl_joinWith _ _ (by simp [NoNL]) h2⟩

/-- Every line of the printed file of a well-formed file is well-formed and
free of newlines. -/
theorem lineOK_printFile (names) (cfg : Config) (f : File) (h : WFFile names cfg f) :
    ∀ l ∈ printFile names cfg f, LineOK l := by
  intro l hl
  unfold printFile at hl
  rcases List.mem_append.1 hl with hl | hl
  · unfold asmHeader asmConstraints constraintLines includeLines at hl
    simp only [List.mem_append, List.mem_singleton] at hl
    rcases hl with (hl | hl) | hl
    · subst hl; exact ⟨trivial, nonl_commentText _ (nonl_generatedWarning cfg h.cfgname h.argv)⟩
    · split at hl
      · rcases List.mem_cons.1 hl with hl | hl
        · subst hl; exact ⟨trivial, nonl_nil⟩
        · obtain ⟨c, hc, rfl⟩ := List.mem_map.1 hl
          exact ⟨(h.cons c hc).2, (h.cons c hc).1⟩
      · cases hl
    · split at hl
      · cases hl
      · rcases List.mem_cons.1 hl with hl | hl
        · subst hl; exact ⟨trivial, nonl_nil⟩
        · obtain ⟨p, hp, rfl⟩ := List.mem_map.1 hl
          refine ⟨trivial, ?_⟩
          simp only [renderLine, nonl_append]
          exact ⟨⟨by simp [NoNL], h.incl p hp⟩, by simp [NoNL]⟩
  · obtain ⟨s, hs, hl⟩ := List.mem_flatMap.1 hl
    have hw := h.secs s hs
    cases s with
    | fn g => exact lineOK_printFunction names h.names g hw l hl
    | gl g => exact lineOK_printGlobal names h.names g hw l hl

/-! ## 8. print_faithful -/

/-- **print_faithful.** For every well-formed file, reading the printed
*bytes* back — split at newlines, lex every line, parse the line sequence —
yields exactly the file: its includes and, per section in file order, the
function's name, TEXT clause and sizes, every instruction once and in order
with opcode, suffixes and operands, and every label bound to the instruction
that follows it in the program (data sections: their DATA/GLOBL lines). -/
theorem print_faithful (names) (cfg : Config) (f : File) (h : WFFile names cfg f) :
    parseFile (lexText (render (printFile names cfg f))) = some (fileSum names f) := by
  have hok := lineOK_printFile names cfg f h
  rw [lexText_render _ (fun l hl => (hok l hl).2)]
  have : (printFile names cfg f).map (fun l => lexLine (renderLine l)) = (printFile names cfg f).map abstract := by
    apply List.map_congr_left
    intro l hl
    exact lex_render_line l (hok l hl).1
  rw [this]
  exact parse_print names cfg f

end Avo.Print
