/-
C11 — the label binding the printer statements use (`Print.labelsFrom`) IS the IR's `LabelTarget`
(the model of pass/cfg.go in `Model/Func.lean`, tied to the real pass by C09's differential):
whenever `LabelTarget` succeeds on a node list, its map is `labelsFrom nodes 0`, label for label, in order.
-/
import AvoVerif.Model.Print
import AvoVerif.Model.Func
namespace Avo.Print

/-- The CFG passes' view of a printer node (only the node kind matters for `LabelTarget`). -/
def toFuncNode : Node → Avo.Func.Node
  | .label l => .label (String.ofList l)
  | .comment _ => .comment
  | .instr i => .instr ⟨i.isUncondBranch, false, i.isTerminal, none⟩

def bindingStr (b : List (Txt × Nat)) : List (String × Nat) := b.map (fun p => (String.ofList p.1, p.2))

open Avo.Func in
theorem ltLoop_labelsFrom : ∀ (ns : List Node) (s s' : LTState),
    ltLoop s (ns.map toFuncNode) = .ok s' →
      s'.target ++ s'.pending.map (·, s'.count) =
        s.target ++ s.pending.map (·, s.count) ++ bindingStr (labelsFrom ns s.count)
  | [], s, s', h => by
    simp only [List.map_nil, ltLoop] at h
    cases h
    simp [labelsFrom, bindingStr]
  | .label l :: ns, s, s', h => by
    simp only [List.map_cons, toFuncNode, ltLoop, ltStep] at h
    split at h
    · cases h
    · rename_i s1 hs1
      split at hs1
      · cases hs1
      · cases hs1
        have := ltLoop_labelsFrom ns _ s' h
        rw [this]
        simp [labelsFrom, bindingStr]
  | .comment ls :: ns, s, s', h => by
    simp only [List.map_cons, toFuncNode, ltLoop, ltStep] at h
    have := ltLoop_labelsFrom ns _ s' h
    rw [this]
    simp [labelsFrom]
  | .instr i :: ns, s, s', h => by
    simp only [List.map_cons, toFuncNode, ltLoop, ltStep] at h
    have := ltLoop_labelsFrom ns _ s' h
    rw [this]
    simp [labelsFrom]

/-- **labelsFrom_is_labelTarget.** -/
theorem labelsFrom_is_labelTarget (ns : List Node) (m : List (String × Nat))
    (h : Avo.Func.labelTarget (ns.map toFuncNode) = .ok m) : m = bindingStr (labelsFrom ns 0) := by
  unfold Avo.Func.labelTarget at h
  split at h
  · cases h
  · rename_i s hs
    split at h
    · rename_i hp
      cases h
      have := ltLoop_labelsFrom ns _ s hs
      have hp' : s.pending = [] := by simpa using hp
      simpa [hp'] using this
    · cases h

/-- Non-vacuity: `LabelTarget` succeeds on a list with two labels in front of one instruction. -/
example : Avo.Func.labelTarget ([Node.instr ⟨"A".toList, [], [], false, false⟩, .label "a".toList, .comment [],
    .label "b".toList, .instr ⟨"RET".toList, [], [], true, false⟩].map toFuncNode) = .ok [("a", 1), ("b", 1)] := by
  rfl

end Avo.Print
