/-
C15 — facts instantiated on regenerated tables:
  Gen.regs         (compiled reg package: which rows carry the BasePointer bit)
  Gen.compileOrder (pass/pass.go: where EnsureBasePointerCalleeSaved runs)
  Gen.textflagConsts / Oracle.textflagH (values of NOSPLIT / NOFRAME)
  Oracle.asmBP / Oracle.asmBPWrites (MEASURED on this run: what the installed
                    assembler and the host CPU do)
All by complete kernel evaluation over the finite tables.
-/
import AvoVerif.Props.C15
import AvoVerif.Model.Alloc
import AvoVerif.Gen.Regs
import AvoVerif.Gen.PassFacts
import AvoVerif.Gen.TextFlags
import AvoVerif.Oracle.TextFlagH
import AvoVerif.Oracle.AsmBP
namespace Avo.BP
open Avo.Reg

/-- id of the physical general-purpose register number 5 -/
def idBP : Nat := newid 0 kindGP 5

/-! ### bp_any_view: which registers count -/

/-- **bp_any_view (table).**  The rows with the BasePointer bit are exactly the
views of general-purpose register 5 — BPL, BP, EBP, RBP (there is no high-byte
view of it) — so a write in any width counts. -/
theorem bp_any_view :
    (Avo.Gen.regs.filter (fun r => r.info &&& infoBasePointer != 0)).map (fun r => (r.name, r.kind, r.idx, r.mask, r.size, r.id))
      = [("BP", kindGP, 5, S8L, 1, idBP), ("BP", kindGP, 5, S16, 2, idBP), ("BP", kindGP, 5, S32, 4, idBP), ("BP", kindGP, 5, S64, 8, idBP)] ∧
    Avo.Gen.regs.all (fun r => (r.info &&& infoBasePointer != 0) == (r.kind == kindGP && r.idx == 5)) = true := by
  decide +kernel

/-- Per-row form used below. -/
theorem bp_rows_char :
    Avo.Gen.regs.all (fun row => !(row.info &&& infoBasePointer != 0) ||
      (row.id == idBP && [S8L, S16, S32, S64].contains row.mask)) = true := by
  decide +kernel

/-- On register objects of the table the info-bit test and the hardware notion
(physical GP number 5) coincide. -/
theorem isBP_eq_hw_on_table :
    Avo.Gen.regs.all (fun row => isBP Avo.Gen.regs ⟨row.id, row.mask⟩ == isBPHW ⟨row.id, row.mask⟩) = true := by
  decide +kernel

/-- **bp_any_view (all registers).**  For EVERY (id, mask): the scan counts it
iff it is register 5 of the general-purpose file in one of its four widths. -/
theorem isBP_iff (r : R) :
    isBP Avo.Gen.regs r = true ↔ r.id = idBP ∧ r.mask ∈ [S8L, S16, S32, S64] := by
  constructor
  · intro h
    unfold isBP at h
    simp only [Bool.and_eq_true] at h
    obtain ⟨_, h⟩ := h
    cases hf : Avo.Gen.regs.find? (fun row => row.id == r.id && row.mask == r.mask) with
    | none => simp [hf] at h
    | some row =>
      simp only [hf] at h
      have hmem := List.mem_of_find?_eq_some hf
      have hp := List.find?_some hf
      simp only [Bool.and_eq_true, beq_iff_eq] at hp
      have hc := List.all_eq_true.mp bp_rows_char row hmem
      simp only [h, Bool.not_true, Bool.false_or, Bool.and_eq_true, beq_iff_eq, List.contains_iff_mem] at hc
      exact ⟨hp.1 ▸ hc.1, hp.2 ▸ hc.2⟩
  · rintro ⟨hid, hm⟩
    obtain ⟨id, m⟩ := r
    simp only at hid hm
    subst hid
    simp only [List.mem_cons, List.not_mem_nil, or_false] at hm
    rcases hm with rfl | rfl | rfl | rfl <;> decide +kernel

/-- Whatever the scan counts is hardware BP. -/
theorem isBP_hw (r : R) (h : isBP Avo.Gen.regs r = true) : isBPHW r = true := by
  obtain ⟨hid, _⟩ := (isBP_iff r).mp h
  obtain ⟨id, m⟩ := r
  simp only at hid
  subst hid
  simp only [isBPHW]
  decide

example : isBP Avo.Gen.regs ⟨idBP, S8L⟩ = true ∧ isBP Avo.Gen.regs ⟨idBP, S16⟩ = true ∧
    isBP Avo.Gen.regs ⟨idBP, S32⟩ = true ∧ isBP Avo.Gen.regs ⟨idBP, S64⟩ = true ∧
    isBP Avo.Gen.regs ⟨newid 0 kindGP 4, S64⟩ = false ∧ isBP Avo.Gen.regs ⟨newid 0 kindVector 5, S128⟩ = false := by
  decide +kernel

/-! ### 32-bit writes -/

/-- A write to EBP has become a write to RBP when this pass runs
(`ZeroExtend32BitOutputs` rewrites 4-byte GP outputs to their 64-bit view): same
id, still counted. -/
theorem ebp_zero_extends_to_rbp : zeroExtend32 ⟨idBP, S32⟩ = ⟨idBP, S64⟩ := by decide

/-- Zero extension never hides a clobber: for every register. -/
theorem isBP_zeroExtend32 (r : R) (h : isBP Avo.Gen.regs r = true) : isBP Avo.Gen.regs (zeroExtend32 r) = true := by
  obtain ⟨hid, hm⟩ := (isBP_iff r).mp h
  apply (isBP_iff _).mpr
  unfold zeroExtend32
  split
  · exact ⟨hid, by simp⟩
  · exact ⟨hid, hm⟩

/-- … and on the register objects of the table it changes nothing about the
answer at all. -/
theorem isBP_zeroExtend32_table :
    Avo.Gen.regs.all (fun row => isBP Avo.Gen.regs (zeroExtend32 ⟨row.id, row.mask⟩) == isBP Avo.Gen.regs ⟨row.id, row.mask⟩) = true := by
  decide +kernel

theorem clobbersBP_zeroExtend32 (outs : List (List R)) (h : clobbersBP Avo.Gen.regs outs = true) :
    clobbersBP Avo.Gen.regs (outs.map (fun rs => rs.map zeroExtend32)) = true := by
  obtain ⟨rs, hrs, r, hr, hb⟩ := (clobbersBP_iff _ _).mp h
  exact (clobbersBP_iff _ _).mpr ⟨rs.map zeroExtend32, List.mem_map_of_mem hrs, zeroExtend32 r, List.mem_map_of_mem hr, isBP_zeroExtend32 r hb⟩

/-! ### The allocator can choose it, and the scan sees it then -/

/-- BP is an allocation candidate (the last one: Props/C03 `bp_last`), … -/
theorem bp_is_candidate : idBP ∈ Avo.Alloc.candidates Avo.Gen.regs kindGP := by decide +kernel

/-- … a virtual register of any width allocated to it is bound to a row the
scan counts (for every virtual id). -/
theorem allocated_bp_is_seen (v m : Nat) (hv : idIsVirtual v = true) (hm : m ∈ [S8L, S16, S32, S64]) :
    (Avo.Alloc.bindReg Avo.Gen.regs [(v, idBP)] ⟨v, m⟩).map (isBP Avo.Gen.regs) = some true := by
  unfold Avo.Alloc.bindReg
  simp only [hv, Bool.not_true, Bool.false_eq_true, if_false, List.find?_cons, beq_self_eq_true]
  simp only [List.mem_cons, List.not_mem_nil, or_false] at hm
  rcases hm with rfl | rfl | rfl | rfl <;> decide +kernel

example : idIsVirtual (newid 1 kindGP 7) = true := by decide

/-! ### Where the pass runs -/

/-- `EnsureBasePointerCalleeSaved` is part of `Compile`, runs after binding and
verification (so it sees the allocator's choice) and after
`ZeroExtend32BitOutputs`. -/
theorem pass_order :
    let o := Avo.Gen.compileOrder
    let at_ := fun (n : String) => o.idxOf n
    at_ "FunctionPass(EnsureBasePointerCalleeSaved)" < o.length ∧
    at_ "InstructionPass(ZeroExtend32BitOutputs)" < at_ "FunctionPass(AllocateRegisters)" ∧
    at_ "FunctionPass(AllocateRegisters)" < at_ "FunctionPass(BindRegisters)" ∧
    at_ "FunctionPass(BindRegisters)" < at_ "FunctionPass(VerifyAllocation)" ∧
    at_ "FunctionPass(VerifyAllocation)" < at_ "FunctionPass(EnsureBasePointerCalleeSaved)" := by
  decide +kernel

/-! ### Attribute bits -/

/-- The bits the model tests are avo's NOSPLIT / NOFRAME and the installed
header's. -/
theorem attr_bits :
    Avo.Gen.textflagConsts.lookup "NOSPLIT" = some bitNOSPLIT ∧ Avo.Gen.textflagConsts.lookup "NOFRAME" = some bitNOFRAME ∧
    Avo.Oracle.textflagH.lookup "NOSPLIT" = some bitNOSPLIT ∧ Avo.Oracle.textflagH.lookup "NOFRAME" = some bitNOFRAME := by
  decide +kernel

/-! ### The measured assembler -/

/-- The grid that was measured is the complete one. -/
theorem asm_grid_complete :
    Avo.Oracle.asmBP.map (fun r => (r.attrs, r.frame, r.hasCall)) =
      [0, bitNOSPLIT, bitNOFRAME, bitNOSPLIT ||| bitNOFRAME].flatMap (fun a =>
        ([0, 8, 16, 4096, 2147483648, 4294967304] : List Int).flatMap (fun f => [false, true].map (fun c => (a, f, c)))) := by
  decide +kernel

/-- **asm_rule_measured.**  On every case the installed toolchain accepts, the
caller's BP survives exactly when the model of the assembler's rule says BP is
saved. -/
theorem asm_rule_measured :
    Avo.Oracle.asmBP.all (fun r => !r.accepted ||
      r.bpPreserved == asmSavesBP r.frame (attrNoFrame r.attrs) (attrNoSplit r.attrs) r.hasCall) = true := by
  decide +kernel

/-- The cases the pass produces below the int32 limit (no NOFRAME, 0 < frame <
2^31) that the toolchain accepts all preserve BP — measured, without reference
to the model of the rule. -/
theorem asm_measured_saves_framed :
    Avo.Oracle.asmBP.all (fun r => !(r.accepted && !attrNoFrame r.attrs && decide (r.frame > 0) && decide (r.frame < frameLimit)) || r.bpPreserved) = true := by
  decide +kernel

/-- … and NOFRAME cases and frameless leaves never do: the error and the forced
local are both necessary on this assembler. -/
theorem asm_measured_loses_otherwise :
    Avo.Oracle.asmBP.all (fun r => !(r.accepted && (attrNoFrame r.attrs || (r.frame == 0 && !r.hasCall))) || !r.bpPreserved) = true := by
  decide +kernel

/-- Non-vacuity of the three theorems above: every case with a frame of at most
16 bytes is accepted by the toolchain (the rejected ones are over-large NOSPLIT
frames, a link-time limit; see the comments in Oracle/AsmBP). -/
theorem asm_accepts_small_frames :
    Avo.Oracle.asmBP.all (fun r => decide (r.frame > 16) || r.accepted) = true := by
  decide +kernel

/-- **The int32 truncation, MEASURED (finding F18).**  A function declared with
a 2^31-byte frame that sets BP and does not call is accepted by the installed
toolchain and returns with the caller's BP destroyed — with or without NOSPLIT;
declared with 2^32+8 bytes it behaves as an 8-byte frame (BP preserved).  So the
bound `ls < 2^31` of `bp_saved` / `C15` cannot be dropped. -/
theorem asm_wrapped_frame_measured :
    (Avo.Oracle.asmBP.filter (fun r => r.frame == 2147483648 && !r.hasCall && !attrNoFrame r.attrs)).map
        (fun r => (r.attrs, r.accepted, r.bpPreserved)) = [(0, true, false), (bitNOSPLIT, true, false)] ∧
    (Avo.Oracle.asmBP.filter (fun r => r.frame == 4294967304 && !attrNoFrame r.attrs)).all
        (fun r => r.accepted && r.bpPreserved) = true := by
  decide +kernel

/-- **bp_views_measured.**  For every non-restricted general-purpose row of
avo's table there is a measurement under its assembler name and width, and the
write changed the caller-visible BP exactly for the rows carrying the
BasePointer bit. -/
theorem bp_views_measured :
    (Avo.Gen.regs.filter (fun r => r.kind == kindGP && r.info &&& infoRestricted == 0)).map
        (fun r => (r.name, r.size, r.mask, r.info &&& infoBasePointer != 0)) =
      Avo.Oracle.asmBPWrites.map (fun w => (w.name, w.size, w.mask, w.changed)) := by
  decide +kernel

end Avo.BP
