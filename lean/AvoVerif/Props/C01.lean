/-
C01 — Register allocation preserves the meaning of the program.
-/
import AvoVerif.Lemmas.Rename
import AvoVerif.Lemmas.MaskSet
import AvoVerif.Model.AllocCheck
namespace Avo.AllocCheck
open Avo.Reg Avo.MaskSet Avo.Alloc Avo.Machine

abbrev Loc := Nat × Nat

/-- Byte-lane locations denoted by a register view. -/
def locsOf (r : R) : List Loc := ((List.range (r.mask + 1)).filter (fun l => r.mask.testBit l)).map (fun l => (r.id, l))

theorem testBit_lt (m l : Nat) (h : m.testBit l = true) : l < m + 1 := by
  have h1 := Nat.ge_two_pow_of_testBit h
  have h2 : l < 2 ^ l := Nat.lt_two_pow_self
  omega

theorem mem_locsOf (r : R) (ℓ : Loc) : ℓ ∈ locsOf r ↔ (ℓ.1 = r.id ∧ r.mask.testBit ℓ.2 = true) := by
  unfold locsOf
  simp only [List.mem_map, List.mem_filter, List.mem_range]
  constructor
  · rintro ⟨l, ⟨_, hb⟩, rfl⟩; exact ⟨rfl, hb⟩
  · rintro ⟨h1, h2⟩
    exact ⟨ℓ.2, ⟨testBit_lt _ _ h2, h2⟩, by rw [← h1]⟩

theorem mem_flatMap_locs (rs : List R) (ℓ : Loc) :
    ℓ ∈ rs.flatMap locsOf ↔ mem (ofRegs rs) ℓ.1 ℓ.2 = true := by
  rw [mem_ofRegs]
  simp only [List.mem_flatMap, mem_locsOf, List.any_eq_true, Bool.and_eq_true, beq_iff_eq]
  constructor
  · rintro ⟨r, hr, h1, h2⟩; exact ⟨r, hr, h1.symm, h2⟩
  · rintro ⟨r, hr, h1, h2⟩; exact ⟨r, hr, h1.symm, h2⟩

/-- The abstract-machine instruction of a checked instruction, for any meaning `sem`. -/
def toInstr (sem : List Val → Mem → List Val × Mem × Nat) (c : CInstr) : Instr Loc :=
  { uses := c.uses.flatMap locsOf, defs := c.defs.flatMap locsOf, sem := sem, succ := c.succ }

def toProg (P : CProg) (sems : Nat → List Val → Mem → List Val × Mem × Nat) : Prog Loc :=
  { code := fun n => (P[n]?).map (toInstr (sems n)) }

def liveOf (P : CProg) : Live Loc :=
  { inn := fun n ℓ => mem (liveInAt P n) ℓ.1 ℓ.2 = true
    out := fun n ℓ => mem (P.getD n default).liveOut ℓ.1 ℓ.2 = true }

/-- The renaming induced by an allocation: register identity changes, the byte lane stays. -/
def ρ (A : List (Nat × Nat)) (ℓ : Loc) : Loc := (lookupDefault A ℓ.1, ℓ.2)

theorem subset_mem (a b : MS) (h : subsetMS a b = true) (id lane : Nat) (hm : mem a id lane = true) :
    mem b id lane = true := by
  induction a with
  | nil => simp [mem_nil] at hm
  | cons p a ih =>
    rcases p with ⟨k, v⟩
    simp only [subsetMS, List.all_cons, Bool.and_eq_true, beq_iff_eq] at h
    rw [mem_cons] at hm
    rcases Bool.or_eq_true _ _ |>.mp hm with hm | hm
    · have hm' := Bool.and_eq_true _ _ |>.mp hm
      have hk : k = id := by simpa using hm'.1
      subst hk
      have := congrArg (fun x => x.testBit lane) h.1
      simp only [Nat.testBit_and, hm'.2, Bool.and_true] at this
      exact this
    · exact ih h.2 hm

theorem mem_entry (s : MS) (id lane : Nat) (h : mem s id lane = true) :
    ∃ m, (id, m) ∈ s ∧ m.testBit lane = true := by
  induction s with
  | nil => simp [mem_nil] at h
  | cons p s ih =>
    rcases p with ⟨k, v⟩
    rw [mem_cons] at h
    rcases Bool.or_eq_true _ _ |>.mp h with h | h
    · have h' := Bool.and_eq_true _ _ |>.mp h
      have hk : k = id := by simpa using h'.1
      subst hk
      exact ⟨v, List.mem_cons_self, h'.2⟩
    · obtain ⟨m, hm, hb⟩ := ih h
      exact ⟨m, List.mem_cons_of_mem _ hm, hb⟩

theorem getD_of_getElem? (P : CProg) (n : Nat) (c : CInstr) (h : P[n]? = some c) : P.getD n default = c := by
  simp [Array.getD_eq_getD_getElem?, h]

theorem mem_toList_of_getElem? (P : CProg) (n : Nat) (c : CInstr) (h : P[n]? = some c) : c ∈ P.toList := by
  rw [Array.mem_toList_iff]
  exact Array.mem_of_getElem? h

/-- **T2a.** The executable post-fixpoint check implies the abstract one. -/
theorem checkPostFix_sound (P : CProg) (sems) (h : checkPostFix P = true) : PostFix (toProg P sems) (liveOf P) := by
  have hall : ∀ (n : Nat) c, P[n]? = some c → checkPostFixAt P c = true := by
    intro n c hc
    exact List.all_eq_true.mp h c (mem_toList_of_getElem? P n c hc)
  constructor
  · intro n i hc u hu
    simp only [toProg, Option.map_eq_some_iff] at hc
    obtain ⟨c, hc, rfl⟩ := hc
    have := hall n c hc
    simp only [checkPostFixAt, Bool.and_eq_true] at this
    simp only [toInstr] at hu
    have hm := (mem_flatMap_locs c.uses u).mp hu
    show mem (liveInAt P n) u.1 u.2 = true
    unfold liveInAt; rw [getD_of_getElem? P n c hc]
    exact subset_mem _ _ this.1.1 _ _ hm
  · intro n i hc ℓ hout hnd
    simp only [toProg, Option.map_eq_some_iff] at hc
    obtain ⟨c, hc, rfl⟩ := hc
    have := hall n c hc
    simp only [checkPostFixAt, Bool.and_eq_true] at this
    simp only [toInstr] at hnd
    have hnm : mem (ofRegs c.defs) ℓ.1 ℓ.2 = false := by
      cases hx : mem (ofRegs c.defs) ℓ.1 ℓ.2 with
      | false => rfl
      | true => exact absurd ((mem_flatMap_locs c.defs ℓ).mpr hx) hnd
    show mem (liveInAt P n) ℓ.1 ℓ.2 = true
    have hout' : mem c.liveOut ℓ.1 ℓ.2 = true := by
      have : mem (P.getD n default).liveOut ℓ.1 ℓ.2 = true := hout
      rwa [getD_of_getElem? P n c hc] at this
    unfold liveInAt; rw [getD_of_getElem? P n c hc]
    apply subset_mem _ _ this.1.2
    rw [mem_difference, hout', hnm]; rfl
  · intro n i hc s hs ℓ hin
    simp only [toProg, Option.map_eq_some_iff] at hc
    obtain ⟨c, hc, rfl⟩ := hc
    have := hall n c hc
    simp only [checkPostFixAt, Bool.and_eq_true] at this
    have hs' := List.all_eq_true.mp this.2 (some s) hs
    simp only [Bool.and_eq_true] at hs'
    show mem (P.getD n default).liveOut ℓ.1 ℓ.2 = true
    rw [getD_of_getElem? P n c hc]
    exact subset_mem _ _ hs'.2 _ _ hin

/-- **T2b.** The executable validity check implies the abstract one. -/
theorem checkValid_sound (P : CProg) (A) (sems) (h : checkValid P A = true) :
    Valid (toProg P sems) (liveOf P) (ρ A) := by
  intro n i hc d hd ℓ hout heq
  simp only [toProg, Option.map_eq_some_iff] at hc
  obtain ⟨c, hc, rfl⟩ := hc
  have hv : checkValidAt A c = true := List.all_eq_true.mp h c (mem_toList_of_getElem? P n c hc)
  simp only [toInstr, List.mem_flatMap] at hd
  obtain ⟨r, hr, hdr⟩ := hd
  have hdl := (mem_locsOf r d).mp hdr
  have hout' : mem c.liveOut ℓ.1 ℓ.2 = true := by
    have : mem (P.getD n default).liveOut ℓ.1 ℓ.2 = true := hout
    rwa [getD_of_getElem? P n c hc] at this
  obtain ⟨m, hm, hb⟩ := mem_entry _ _ _ hout'
  have hc1 := List.all_eq_true.mp (List.all_eq_true.mp hv r hr) (ℓ.1, m) hm
  simp only [ρ, Prod.mk.injEq] at heq
  simp only [Bool.or_eq_true, beq_iff_eq, bne_iff_ne, ne_eq] at hc1
  rcases d with ⟨d1, d2⟩
  rcases ℓ with ⟨l1, l2⟩
  simp only at hdl heq hb hc1 ⊢
  obtain ⟨rfl, hbit⟩ := hdl
  obtain ⟨hA, rfl⟩ := heq
  rcases hc1 with (h1 | h2) | h3
  · rw [h1]
  · exact absurd hA.symm h2
  · have := congrArg (fun x => x.testBit d2) h3
    simp [Nat.testBit_and, hbit, hb] at this

/-- **C01 (preservation).** If the implementation's live sets form a liveness
post-fixpoint for its own use/def/CFG data and its allocation passes the
validity check, then for *every* meaning of the instructions that depends only
on the declared use slots (and writes only the declared def slots), and for all
initial register/memory contents that agree on the locations live at entry, the
allocated program and the private-storage program have the same memory and the
same control at every step. -/
theorem accepted_preserves (P : CProg) (A : List (Nat × Nat))
    (sems : Nat → List Val → Mem → List Val × Mem × Nat)
    (hpf : checkPostFix P = true) (hv : checkValid P A = true)
    (hwf : WFSem (toProg P sems)) (σ σ' : State Loc) (h0 : Rel (liveOf P) (ρ A) σ σ') (k : Nat) :
    (run (toProg P sems) k σ).mem = (run (rename (ρ A) (toProg P sems)) k σ').mem ∧
    (run (toProg P sems) k σ).pc = (run (rename (ρ A) (toProg P sems)) k σ').pc :=
  rename_preserves _ _ _ (checkPostFix_sound P sems hpf) (checkValid_sound P A sems hv) hwf σ σ' h0 k

theorem lookupDefault_phys (A : List (Nat × Nat)) (hs : checkAllocShape A = true) (id : Nat)
    (hp : idIsVirtual id = false) : lookupDefault A id = id := by
  unfold lookupDefault
  cases hf : A.find? (·.1 == id) with
  | none => rfl
  | some p =>
    have hmem := List.mem_of_find?_eq_some hf
    have hk := List.find?_some hf
    have := List.all_eq_true.mp hs p hmem
    simp only [Bool.and_eq_true] at this
    have e : p.1 = id := by simpa using hk
    rw [e, hp] at this
    simp at this

/-- **C01 (entry).** When the function reads only register bytes it has
written (no virtual byte is live at entry) and both runs start at the first
instruction with the same memory and the same physical register contents, the
premise of `accepted_preserves` holds — whatever the virtual registers' private
storage initially contains. -/
theorem entry_rel (P : CProg) (A : List (Nat × Nat)) (he : checkEntry P = true) (hs : checkAllocShape A = true)
    (σ σ' : State Loc) (hpc : σ.pc = some 0) (hpc' : σ'.pc = some 0) (hmem : σ.mem = σ'.mem)
    (hphys : ∀ ℓ : Loc, idIsVirtual ℓ.1 = false → σ.regs ℓ = σ'.regs ℓ) :
    Rel (liveOf P) (ρ A) σ σ' := by
  refine ⟨by rw [hpc, hpc'], hmem, ?_⟩
  intro n hn ℓ hl
  rw [hpc] at hn
  have hn0 : n = 0 := by injection hn with h; exact h.symm
  subst hn0
  have hl' : mem (liveInAt P 0) ℓ.1 ℓ.2 = true := hl
  obtain ⟨m, hm, hb⟩ := mem_entry _ _ _ hl'
  have := List.all_eq_true.mp he (ℓ.1, m) hm
  simp only [Bool.or_eq_true, Bool.not_eq_true', beq_iff_eq] at this
  have hphysℓ : idIsVirtual ℓ.1 = false := by
    rcases this with h | h
    · exact h
    · rw [h] at hb; simp at hb
  have : ρ A ℓ = ℓ := by simp [ρ, lookupDefault_phys A hs ℓ.1 hphysℓ]
  rw [this]
  exact hphys ℓ hphysℓ

/-- Non-vacuity: `v := …; use v` with `v ↦ RAX` while `RCX` stays live is accepted;
mapping `v` onto the live `RCX` is rejected. (ids: virtual GP 0 = 257, RAX = 256, RCX = 65792) -/
example :
    let P : CProg := #[⟨[], [⟨257, 15⟩], [some 1], [(65792, 15)], [(257, 15), (65792, 15)]⟩,
                      ⟨[⟨257, 15⟩, ⟨65792, 15⟩], [], [none], [(257, 15), (65792, 15)], []⟩]
    checkPostFix P = true ∧ checkValid P [(257, 256)] = true ∧ checkValid P [(257, 65792)] = false ∧
      checkEntry P = true ∧ checkAllocShape [(257, 256)] = true := by
  decide +kernel

/-- **C01 (preservation from the entry of the function).** `accepted_preserves` with its initial-state premise
discharged by `entry_rel`: the function reads only register bytes it has written (`checkEntry`), the allocation has
the right shape, and both executions start at the first instruction with the same memory and the same contents of
the *physical* registers — whatever the private storage of the virtual registers holds. -/
theorem accepted_preserves_from_entry (P : CProg) (A : List (Nat × Nat))
    (sems : Nat → List Val → Mem → List Val × Mem × Nat)
    (hpf : checkPostFix P = true) (hv : checkValid P A = true) (he : checkEntry P = true)
    (hs : checkAllocShape A = true) (hwf : WFSem (toProg P sems)) (σ σ' : State Loc)
    (hpc : σ.pc = some 0) (hpc' : σ'.pc = some 0) (hmem : σ.mem = σ'.mem)
    (hphys : ∀ ℓ : Loc, idIsVirtual ℓ.1 = false → σ.regs ℓ = σ'.regs ℓ) (k : Nat) :
    (run (toProg P sems) k σ).mem = (run (rename (ρ A) (toProg P sems)) k σ').mem ∧
    (run (toProg P sems) k σ).pc = (run (rename (ρ A) (toProg P sems)) k σ').pc :=
  accepted_preserves P A sems hpf hv hwf σ σ' (entry_rel P A he hs σ σ' hpc hpc' hmem hphys) k

/-- Non-vacuity of `accepted_preserves_from_entry`: the two-instruction program of the example above, an
instruction meaning that returns one value per definition, and one initial state used for both executions. -/
example :
    let P : CProg := #[⟨[], [⟨257, 15⟩], [some 1], [(65792, 15)], [(257, 15), (65792, 15)]⟩,
                      ⟨[⟨257, 15⟩, ⟨65792, 15⟩], [], [none], [(257, 15), (65792, 15)], []⟩]
    let sems : Nat → List Val → Mem → List Val × Mem × Nat :=
      fun n vs m => (List.replicate ((P.getD n default).defs.flatMap locsOf).length vs.sum, m, 0)
    let σ : State Loc := ⟨fun _ => 7, fun _ => 0, some 0⟩
    ∀ k, (run (toProg P sems) k σ).mem = (run (rename (ρ [(257, 256)]) (toProg P sems)) k σ).mem := by
  intro P sems σ k
  refine (accepted_preserves_from_entry P [(257, 256)] sems (by decide +kernel) (by decide +kernel) (by decide +kernel)
    (by decide +kernel) ?_ σ σ rfl rfl rfl (fun _ _ => rfl) k).1
  intro n i hc vs m
  simp only [toProg, Option.map_eq_some_iff] at hc
  obtain ⟨c, hc, rfl⟩ := hc
  simp [toInstr, sems, hc]

/-! ### `accept-regs`: soundness -/

theorem hasReg_iff (l : List R) (r : R) : hasReg l r = true ↔ r ∈ l := by
  unfold hasReg
  simp only [List.any_eq_true, Bool.and_eq_true, beq_iff_eq]
  constructor
  · rintro ⟨x, hx, h1, h2⟩
    have : x = r := by cases x; cases r; simp_all
    exact this ▸ hx
  · intro h; exact ⟨r, h, rfl, rfl⟩

/-- **Statement.** The registers the allocator and the verifier are shown for an instruction
(`Instruction.Registers()`) are exactly the registers of its operands — register operands, and base and index of
every memory operand — and every address register is declared as read (so it is live up to the instruction). -/
def RegsOK (c : RInstr) : Prop :=
  (∀ r, r ∈ c.impl ↔ r ∈ c.own.map (·.1)) ∧
  ∀ r, (r, false) ∈ c.own → ∀ lane, r.mask.testBit lane = true → mem (ofRegs c.uses) r.id lane = true

theorem checkRegsAt_sound (c : RInstr) (h : checkRegsAt c = true) : RegsOK c := by
  unfold checkRegsAt at h
  simp only [Bool.and_eq_true] at h
  obtain ⟨⟨h1, h2⟩, h3⟩ := h
  refine ⟨fun r => ⟨fun hr => ?_, fun hr => ?_⟩, ?_⟩
  · exact (hasReg_iff _ r).mp (List.all_eq_true.mp h2 r hr)
  · exact (hasReg_iff _ r).mp (List.all_eq_true.mp h1 r hr)
  · intro r hr lane hb
    have := List.all_eq_true.mp h3 (r, false) hr
    simp only [Bool.false_or, coversReg, beq_iff_eq] at this
    have h4 := congrArg (fun x => x.testBit lane) this
    simp only [Nat.testBit_and, hb, Bool.and_true] at h4
    exact h4

/-- Non-vacuity: `VPGATHERDD k, (base)(z_index*4), z` — the vector index register is an address register; an
implementation whose register list, or whose read set, leaves it out is rejected. (Z1 = 66048, RAX = 256, K1 = 66304) -/
example :
    checkRegsAt ⟨[(⟨66304, 15⟩, true), (⟨256, 15⟩, false), (⟨66048, 127⟩, false), (⟨512, 127⟩, true)],
                 [⟨66304, 15⟩, ⟨256, 15⟩, ⟨66048, 127⟩, ⟨512, 127⟩],
                 [⟨66304, 15⟩, ⟨256, 15⟩, ⟨66048, 127⟩, ⟨512, 127⟩]⟩ = true ∧
    checkRegsAt ⟨[(⟨66304, 15⟩, true), (⟨256, 15⟩, false), (⟨66048, 127⟩, false), (⟨512, 127⟩, true)],
                 [⟨66304, 15⟩, ⟨256, 15⟩, ⟨512, 127⟩],
                 [⟨66304, 15⟩, ⟨256, 15⟩, ⟨66048, 127⟩, ⟨512, 127⟩]⟩ = false ∧
    checkRegsAt ⟨[(⟨66304, 15⟩, true), (⟨256, 15⟩, false), (⟨66048, 127⟩, false), (⟨512, 127⟩, true)],
                 [⟨66304, 15⟩, ⟨256, 15⟩, ⟨66048, 127⟩, ⟨512, 127⟩],
                 [⟨66304, 15⟩, ⟨256, 15⟩, ⟨512, 127⟩]⟩ = false := by
  decide +kernel

end Avo.AllocCheck
