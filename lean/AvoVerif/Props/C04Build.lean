/-
C04 — the ALGORITHM by which avo computes the registers an instruction reads and writes
(`Model/BuildRW`: form.build's operand loop, InputRegisters with the cancelling slice and the
address registers of memory outputs, OutputRegisters, ZeroExtend32BitOutputs) yields exactly the
declarative specification `specReads` / `specWrites` of the row's actions, for EVERY row, operand
list and action assignment (not only the table's).  Together with `covers_specReads/specWrites`
this gives the statement of the property for one instance in terms of the form row:
`declared_cover_iff`.
-/
import AvoVerif.Model.BuildRW
import AvoVerif.Props.C04
namespace Avo.BuildRW
open Avo.Reg Avo.UseDef Avo.MaskSet Avo.RW

theorem flatMap_filter_map {α β γ : Type} (p : α → Bool) (f : α → β) (g : β → List γ) (l : List α) :
    ((l.filter p).map f).flatMap g = l.flatMap (fun x => if p x then g (f x) else []) := by
  induction l with
  | nil => rfl
  | cons x t ih =>
    by_cases h : p x = true
    · simp [h, ih]
    · simp [h, ih]

theorem inputs_regs (a : List AOp) : (inputsOf a).flatMap Opnd.regs = readRegs a := by
  unfold inputsOf readRegs
  exact flatMap_filter_map AOp.reads (·.op) Opnd.regs a

theorem memAddrs_zeroExtend (outs : List Opnd) : memAddrs (zeroExtend outs) = memAddrs outs := by
  unfold memAddrs zeroExtend
  induction outs with
  | nil => rfl
  | cons o t ih =>
    simp only [List.map_cons, List.flatMap_cons, ih]
    cases o with
    | reg r b => cases b <;> rfl
    | mem a => rfl
    | other => rfl

theorem memAddrs_outputs (a : List AOp) : memAddrs (outputsOf a) = writtenMemAddrRegs a := by
  unfold memAddrs outputsOf writtenMemAddrRegs
  exact flatMap_filter_map AOp.writes (·.op) _ a

/-- **Declared reads = specified reads.** Whenever the real algorithm does not panic, the registers it
reports as read are those of the specification (registers of read operands minus an equal
self-cancelling pair, plus address registers of written memory operands). -/
theorem declaredReads_eq_spec (c : Bool) (a : List AOp) (rs : List R)
    (h : declaredReads c a = some rs) : rs = specReads c a := by
  unfold declaredReads inputRegisters at h
  rw [inputs_regs, memAddrs_zeroExtend, memAddrs_outputs] at h
  unfold specReads
  cases c with
  | false =>
    simp only [Bool.false_eq_true, if_false, Option.some.injEq] at h
    rw [← h]
    cases readRegs a with
    | nil => simp
    | cons x t => cases t <;> simp
  | true =>
    simp only [if_true] at h
    cases hr : readRegs a with
    | nil => rw [hr] at h; simp at h
    | cons x t =>
      cases t with
      | nil => rw [hr] at h; simp at h
      | cons y t' =>
        rw [hr] at h
        simp only [Option.some.injEq] at h
        rw [← h]; simp

/-- The algorithm panics exactly when a self-cancelling form has fewer than two read registers. -/
theorem declaredReads_isSome (c : Bool) (a : List AOp) :
    (declaredReads c a).isSome = (!c || decide (2 ≤ (readRegs a).length)) := by
  unfold declaredReads inputRegisters
  rw [inputs_regs]
  cases c with
  | false => simp
  | true =>
    cases readRegs a with
    | nil => simp
    | cons x t => cases t <;> simp

/-- **Declared writes = specified writes.** After the zero-extension step the reported written registers are
the written register operands, a 32-bit general purpose destination counting as the 64-bit register. -/
theorem declaredWrites_eq_spec (a : List AOp) : declaredWrites a = specWrites a := by
  unfold declaredWrites outputRegisters zeroExtend outputsOf specWrites
  induction a with
  | nil => rfl
  | cons x t ih =>
    by_cases h : x.writes = true
    · simp only [List.filter_cons, h, if_true, List.map_cons, List.flatMap_cons]
      rw [ih]
      congr 1
      cases hx : x.op with
      | reg r b => cases b <;> simp [widen]
      | mem m => rfl
      | other => rfl
    · simp only [List.filter_cons, h, List.flatMap_cons]
      simpa using ih

/-- **C04 for one instance, in terms of the form row.** If avo's algorithm reports `rs` as read for the
row's (action, operand) list `a`, then the measured sets are covered by what avo declares exactly when
every observed read lane is a lane of a register of the specification's reads and every observed written
lane one of the specification's writes. -/
theorem declared_cover_iff (c : Bool) (a : List AOp) (rs : List R) (h : declaredReads c a = some rs)
    (obsR obsW : MS) :
    judge (ofRegs rs) (ofRegs (declaredWrites a)) obsR obsW = true ↔
      (∀ id lane, mem obsR id lane = true → ∃ r ∈ specReads c a, r.id = id ∧ r.mask.testBit lane = true) ∧
      (∀ id lane, mem obsW id lane = true → ∃ r ∈ specWrites a, r.id = id ∧ r.mask.testBit lane = true) := by
  rw [declaredReads_eq_spec c a rs h, declaredWrites_eq_spec]
  unfold judge
  rw [Bool.and_eq_true, covers_specReads, covers_specWrites]

/-! ### Non-vacuity -/

/-- `ADDL CX, AX` (row `r32 R, r32 RW`): reads ECX and EAX, writes RAX (zero-extended). -/
example : declaredReads false [⟨1, .reg ⟨65792, 7⟩ true⟩, ⟨3, .reg ⟨256, 7⟩ true⟩] = some [⟨65792, 7⟩, ⟨256, 7⟩] := by decide
example : declaredWrites [⟨1, .reg ⟨65792, 7⟩ true⟩, ⟨3, .reg ⟨256, 7⟩ true⟩] = [⟨256, 15⟩] := by decide
/-- `XORL AX, AX` (cancelling): no read. -/
example : declaredReads true [⟨1, .reg ⟨256, 7⟩ true⟩, ⟨3, .reg ⟨256, 7⟩ true⟩] = some [] := by decide
/-- `XORB AH, AL` (cancelling row, different views of one register): both are read. -/
example : declaredReads true [⟨1, .reg ⟨256, 2⟩ false⟩, ⟨3, .reg ⟨256, 1⟩ false⟩] = some [⟨256, 2⟩, ⟨256, 1⟩] := by decide
/-- a cancelling row with a single read register would make the real code panic -/
example : declaredReads true [⟨1, .reg ⟨256, 7⟩ true⟩] = none := by decide
/-- `MOVQ AX, (BX)(CX*1)`: the address registers of the written memory operand are reads. -/
example : declaredReads false [⟨1, .reg ⟨256, 15⟩ false⟩, ⟨2, .mem [⟨196864, 15⟩, ⟨65792, 15⟩]⟩]
    = some [⟨256, 15⟩, ⟨196864, 15⟩, ⟨65792, 15⟩] := by decide
/-- `assign`: `MULQ BX` with implicit RAX (RW) and RDX (W) after the explicit operand -/
example : assign [⟨1, false⟩, ⟨3, true⟩, ⟨2, true⟩] [.reg ⟨256, 15⟩ false, .reg ⟨131328, 15⟩ false] [.reg ⟨196864, 15⟩ false]
    = some [⟨1, .reg ⟨196864, 15⟩ false⟩, ⟨3, .reg ⟨256, 15⟩ false⟩, ⟨2, .reg ⟨131328, 15⟩ false⟩] := rfl

end Avo.BuildRW
