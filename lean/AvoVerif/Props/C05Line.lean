/-
C05 — soundness of the acceptors for the implementation's TEXT (`accept-parse`, `accept-line` of Drv/C05.lean).
-/
import AvoVerif.Drv.C05
namespace Avo.Drv.C05
open Avo.AsmText Avo.AsmJudge

/-- **`accept-parse`** decides exactly: the text reads back as the operand given — through the independent parser
on the current register table, or, for a constant, as the same integer. -/
theorem readsBack_sound (x : XOp) (t : List Char) (h : readsBack x t = true) :
    (∃ ty v, x = .imm ty v ∧ readImm t = some v) ∨
    ((∀ ty v, x ≠ .imm ty v) ∧ parseOp regNames t = some (canon (toOp x))) := by
  cases x with
  | imm ty v => left; exact ⟨ty, v, rfl, by simpa [readsBack] using h⟩
  | reg r => right; exact ⟨(by intro ty v hc; cases hc), (by simpa [readsBack] using h)⟩
  | mem s st d b i sc => right; exact ⟨(by intro ty v hc; cases hc), (by simpa [readsBack] using h)⟩
  | rel v => right; exact ⟨(by intro ty v hc; cases hc), (by simpa [readsBack] using h)⟩
  | label n => right; exact ⟨(by intro ty v hc; cases hc), (by simpa [readsBack] using h)⟩

/-- the declarative reading of `accept-line` -/
structure LineAgrees (g : Given) (line : String) : Prop where
  /-- the first word of the line is the opcode with its suffixes, dot-separated -/
  opcode : String.ofList (lineTexts line).1 = ".".intercalate (g.opcode :: g.sfx)
  /-- as many operand texts as operands -/
  count : (lineTexts line).2.length = g.ops.length
  /-- each operand text, in order, reads back as the operand given at that position -/
  operands : ∀ p ∈ (lineTexts line).2.zip g.ops, readsBack p.2 p.1 = true

theorem lineOperandsErr_sound : ∀ (ts : List (List Char)) (es : List XOp) (i : Nat),
    lineOperandsErr ts es i = none → ∀ p ∈ ts.zip es, readsBack p.2 p.1 = true := by
  intro ts
  induction ts with
  | nil => intro es i _ p hp; simp at hp
  | cons t ts ih =>
    intro es i h p hp
    cases es with
    | nil => simp at hp
    | cons e es =>
      simp only [lineOperandsErr] at h
      split at h
      · rename_i hr
        simp only [List.zip_cons_cons, List.mem_cons] at hp
        cases hp with
        | inl hp => subst hp; exact hr
        | inr hp => exact ih es (i + 1) h p hp
      · simp at h

/-- **Soundness of `accept-line`** -/
theorem lineErr_sound {g : Given} {line : String} (h : lineErr g line = none) : LineAgrees g line := by
  unfold lineErr at h
  simp only at h
  split at h
  · simp at h
  · rename_i ho
    split at h
    · simp at h
    · rename_i hc
      exact ⟨by simpa using ho, by simpa using hc, lineOperandsErr_sound _ _ _ h⟩

theorem judgeLine_ok_iff (g : Given) (line : String) : judgeLine g line = "ok" ↔ lineErr g line = none := by
  unfold judgeLine
  cases hj : lineErr g line with
  | none => simp
  | some why =>
    simp only [reduceCtorEq, iff_false]
    split
    · decide
    · rename_i hw; simpa using hw

theorem judgeLine_sound {g : Given} {line : String} (h : judgeLine g line = "ok") : LineAgrees g line :=
  lineErr_sound ((judgeLine_ok_iff g line).1 h)

/-- the strict format of the printer (`joinOperands`: `", "`) and the other spellings the assembler reads alike
give the same operand texts -/
example : splitOpsTol "$0x01, 8(AX)(BX*2), X1".toList 0 [] = ["$0x01".toList, "8(AX)(BX*2)".toList, "X1".toList] := by decide
example : splitOpsTol "$0x01,8(AX)(BX*2),\tX1".toList 0 [] = ["$0x01".toList, "8(AX)(BX*2)".toList, "X1".toList] := by decide

/-- non-vacuity: `ADDQ BX, AX` printed with padding -/
example : LineAgrees ⟨"ADDQ", [], ["r64", "r64"], [.reg ⟨1, 3, 15, 8, "BX"⟩, .reg ⟨1, 0, 15, 8, "AX"⟩]⟩ "\tADDQ        BX, AX" :=
  lineErr_sound (by decide +kernel)
example : (lineErr ⟨"ADDQ", [], ["r64", "r64"], [.reg ⟨1, 3, 15, 8, "BX"⟩, .reg ⟨1, 0, 15, 8, "AX"⟩]⟩ "\tADDQ AX, BX").isSome = true := by
  decide +kernel
example : (lineErr ⟨"ADDQ", [], ["r64", "r64"], [.reg ⟨1, 3, 15, 8, "BX"⟩, .reg ⟨1, 0, 15, 8, "AX"⟩]⟩ "\tADDL BX, AX").isSome = true := by
  decide +kernel

end Avo.Drv.C05
