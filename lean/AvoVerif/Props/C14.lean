/-
C14 — Build constraints mean the same thing to avo and to the Go toolchain.
Statements and property theorems only (helper lemmas: Lemmas/TagsText.lean,
Lemmas/TagsSem.lean; model: Model/Tags.lean).

`tc` is the tag-character predicate shared by avo's `Term.Validate` and the
toolchain's `isValidTag`/lexer; `SepFree tc` says that `!`, `,` and white space
are not tag characters (checked on the measured table in Props/C14Tables.lean).
-/
import AvoVerif.Lemmas.TagsSem
namespace Avo.Tags

/-- The constraint sets for which the property is claimed.  `valid` is avo's own
`Validate` (which, since /repo 0ad3cb8, rejects options without terms and
constraint lines without options: former findings F8, F8b); the three size
clauses are the exact limits of the toolchain / of `Format`'s scanner, and the
real code violates the property beyond each of them (witness theorems below,
findings F8c, F8d, F8e).  Input-level sufficient conditions:
`printable_of_bounds`. -/
structure Printable (tc : Char → Bool) (cs : Constraints) : Prop where
  /-- avo accepts the set: `cs.Validate() == nil` -/
  valid : validate tc cs = true
  /-- at most 100 AND/OR operators per `// +build` line (`maxOldSize`; F8c) -/
  lineSize : ∀ c ∈ cs, termCount c ≤ maxOldSize + 1
  /-- the synthesised `//go:build` expression has at most `maxSize` parser operands
  (tags and parenthesised groups; the toolchain's limit, F8d) -/
  totalSize : ∀ e, headerExpr tc cs = some e → e.psize ≤ maxSize
  /-- the `//go:build` line is shorter than 64 KiB (`Format`'s `bufio.Scanner`, F8e) -/
  textSize : ∀ e, headerExpr tc cs = some e → utf8Len (goBuildPrefix ++ e.print) < scanLimit

/-- **C14, equivalence, full statement.**  For every printable constraint set and
every tag assignment, `Format` succeeds, the toolchain accepts the header avo
prints and selects the file exactly when avo's `Evaluate` is true. -/
def C14_statement (tc : Char → Bool) : Prop :=
  ∀ (cs : Constraints) (v : Str → Bool), Printable tc cs →
    outcome tc v cs = .selected (evaluate tc v cs)

/-- Input-level sufficient condition for `Printable.totalSize`: twice the number
of terms (an empty line counting one) is at most 1001. -/
theorem header_psize {tc : Char → Bool} (hs : SepFree tc) (c : Constraint) (cs : Constraints)
    (hv : validate tc (c :: cs) = true) (hsz : 2 * sizeBound (c :: cs) ≤ maxSize + 1) :
    (andAll (lineExpr tc c) (cs.map (lineExpr tc))).psize ≤ maxSize := by
  obtain ⟨_, hne, hv⟩ := (validate_iff tc (c :: cs)).mp hv
  have h1 := psize_le (andAll (lineExpr tc c) (cs.map (lineExpr tc)))
  rw [leaves_header hs c cs hv hne] at h1
  omega

theorem format_def (tc : Char → Bool) (cs : Constraints) :
    formatHeader tc (goString cs ++ stubSuffix) = format tc cs := rfl

theorem formatChecked_goBuild (tc : Char → Bool) (cs : Constraints) (e : Expr)
    (hf : format tc cs = .goBuild e) :
    formatChecked tc cs =
      if tooLong (goBuildPrefix ++ e.print) then Option.none else some (.goBuild e) := by
  have hf' : formatHeader tc (goString cs ++ stubSuffix) = .goBuild e := hf
  simp only [formatChecked, scannedLines, hf', List.any_cons, List.any_nil, Bool.or_false]

theorem formatChecked_none (tc : Char → Bool) (cs : Constraints)
    (hf : format tc cs = .none) :
    formatChecked tc cs =
      if (split '\n' (goString cs ++ stubSuffix)).any tooLong then Option.none else some .none := by
  have hf' : formatHeader tc (goString cs ++ stubSuffix) = .none := hf
  simp only [formatChecked, scannedLines, hf']

/-- `Format` either fails or returns the header go/format synthesised. -/
theorem formatChecked_cases (tc : Char → Bool) (cs : Constraints) :
    formatChecked tc cs = Option.none ∨ formatChecked tc cs = some (format tc cs) := by
  unfold formatChecked
  simp only [format_def]
  split
  · exact Or.inl rfl
  · exact Or.inr rfl

theorem tags_equiv {tc : Char → Bool} (hs : SepFree tc) : C14_statement tc := by
  intro cs v h
  obtain ⟨hcne, hne, hv⟩ := (validate_iff tc cs).mp h.valid
  have hf := format_eq hs cs hv hne h.lineSize
  cases cs with
  | nil =>
    have hf0 : format tc [] = .none := hf
    have h1 := formatChecked_none tc [] hf0
    have hl : (split '\n' (goString [] ++ stubSuffix)).any tooLong = false := by decide
    simp only [hl, Bool.false_eq_true, if_false] at h1
    simp only [outcome, h1, toolchainSelects]
    rfl
  | cons c cs =>
    have hfe : format tc (c :: cs) = .goBuild (andAll (lineExpr tc c) (cs.map (lineExpr tc))) := hf
    have hp := h.totalSize _ rfl
    have ht := h.textSize _ rfl
    have hl : tooLong (goBuildPrefix ++ (andAll (lineExpr tc c) (cs.map (lineExpr tc))).print) = false := by
      unfold tooLong; simp only [decide_eq_false_iff_not]; omega
    have h1 := formatChecked_goBuild tc (c :: cs) _ hfe
    simp only [hl, Bool.false_eq_true, if_false] at h1
    have : ¬ (andAll (lineExpr tc c) (cs.map (lineExpr tc))).psize > maxSize := by omega
    simp only [outcome, h1, toolchainSelects, this, if_false]
    rw [eval_header hs v c cs hv hne (Or.inl hcne)]

/-- In terms of `Format`'s result and the toolchain's decision separately: `Format`
succeeds with the header go/format synthesised, and the toolchain's decision on
it is avo's `Evaluate`. -/
theorem tags_equiv_selects {tc : Char → Bool} (hs : SepFree tc) (cs : Constraints) (v : Str → Bool)
    (h : Printable tc cs) :
    formatChecked tc cs = some (format tc cs) ∧
    toolchainSelects v (format tc cs) = some (evaluate tc v cs) := by
  have := tags_equiv hs cs v h
  unfold outcome at this
  rcases formatChecked_cases tc cs with hfc | hfc
  · rw [hfc] at this; exact absurd this (by simp)
  · rw [hfc] at this
    refine ⟨hfc, ?_⟩
    simp only at this
    cases hts : toolchainSelects v (format tc cs) with
    | none => rw [hts] at this; exact absurd this (by simp)
    | some b => rw [hts] at this; simp only [Outcome.selected.injEq] at this; rw [this]

/-- The text avo prints (the output of `buildtags.Format`) for a printable set:
nothing for the empty set, otherwise the single line
`//go:build (line₁) && (line₂) && …` in the toolchain's own rendering. -/
theorem tags_format_text {tc : Char → Bool} (hs : SepFree tc) (cs : Constraints) (h : Printable tc cs) :
    (format tc cs).text = match cs with
      | [] => []
      | c :: cs => goBuildPrefix ++ (andAll (lineExpr tc c) (cs.map (lineExpr tc))).print ++ ['\n'] := by
  obtain ⟨_, hne, hv⟩ := (validate_iff tc cs).mp h.valid
  rw [format_eq hs cs hv hne h.lineSize]
  cases cs <;> rfl

/-- **C14, round trip.**  Parsing the text avo prints for a valid constraint
(everything after the fixed `// +build` prefix, with or without the final
newline) gives back the same constraint; same for a single option. -/
theorem tags_roundtrip {tc : Char → Bool} (hs : SepFree tc) (c : Constraint)
    (hv : validConstraint tc c = true) :
    goStringC c = plusPrefix ++ body c ++ ['\n'] ∧
    parseConstraint tc (body c) = some c ∧
    parseConstraint tc (body c ++ ['\n']) = some c := by
  obtain ⟨_, hne, hv⟩ := (validConstraint_iff tc c).mp hv
  have hall : ∀ o ∈ c, termsValid tc o = true := by simpa [optsValid] using hv
  have hf : fields (body c) = c.map optText :=
    fields_body c (fun o ho => optText_word hs o (hall o ho) (hne o ho))
  refine ⟨rfl, ?_, ?_⟩
  · unfold parseConstraint; rw [hf]; exact parseOptions_map hs c hv hne
  · unfold parseConstraint
    have : fields (body c ++ ['\n']) = fields (body c) := by
      unfold fields
      exact fieldsGo_append_spaces _ _ _ (by intro ch hch; simp at hch; rw [hch]; decide)
    rw [this, hf]; exact parseOptions_map hs c hv hne

theorem option_roundtrip {tc : Char → Bool} (hs : SepFree tc) (o : Opt)
    (hv : validOpt tc o = true) : parseOption tc (optText o) = some o := by
  obtain ⟨hne, hv⟩ := (validOpt_iff tc o).mp hv
  exact parseOption_optText hs o hv hne

/-- **C14, invalid terms.**  avo's `Term.Validate` accepts a term exactly when
the toolchain takes it as a (possibly negated) tag instead of replacing it by
`ignore`. -/
theorem tags_invalid (tc : Char → Bool) (t : Term) : validTerm tc t = toolchainTag tc t :=
  toolchainTag_eq tc t

/-- Valid terms are exactly the non-empty words over the toolchain's tag
characters, optionally preceded by one `!`. -/
theorem tags_invalid_chars {tc : Char → Bool} (hb : tc '!' = false) (t : Term) :
    validTerm tc t = true ↔
      ∃ n : Str, n ≠ [] ∧ (∀ c ∈ n, tc c = true) ∧ (t = n ∨ t = '!' :: n) := by
  rw [validTerm_iff]
  constructor
  · intro ⟨_, h1, h2⟩
    refine ⟨name t, h1, h2, ?_⟩
    rcases name_cases t with ⟨h, _⟩ | ⟨h, _⟩
    · exact Or.inr h
    · exact Or.inl h.symm
  · intro ⟨n, hn, hc, ht⟩
    have hhead : ∀ r, n ≠ '!' :: r := by
      intro r hr
      have := hc '!' (by rw [hr]; exact List.mem_cons_self)
      rw [hb] at this; exact absurd this (by decide)
    rcases ht with ht | ht
    · have hname : name t = n := by
        rw [ht]; unfold name; split
        · exact absurd rfl (hhead _)
        · rfl
      rw [hname]
      exact ⟨fun r hr => hhead _ (ht ▸ hr), hn, hc⟩
    · have hname : name t = n := by rw [ht]; rfl
      rw [hname]
      refine ⟨fun r hr => ?_, hn, hc⟩
      rw [ht] at hr
      exact hhead r (List.cons.inj hr).2

/-- A term avo reports invalid is read by the toolchain as `ignore` / `!ignore`. -/
theorem invalid_is_ignore (tc : Char → Bool) (t : Term) (h : validTerm tc t = false) :
    litExpr tc t = .tag ignoreTag ∨ litExpr tc t = .not (.tag ignoreTag) := by
  rw [tags_invalid] at h
  unfold toolchainTag at h
  unfold litExpr
  split
  · exact Or.inl rfl
  · exact Or.inl rfl
  · rename_i r h2 h3
    have : isValidTag tc r = false := by
      split at h <;> simp_all
    simp [this]
  · rename_i h2 h3 h4
    split at h
    · exact absurd rfl (h2 _)
    · exact absurd rfl h3
    · exact absurd rfl (h4 _)
    · simp [h]

/-- `SepFree` from the executable table check. -/
theorem sepFree_of_table (ranges : List (Nat × Nat)) (h : sepFreeTable ranges = true) :
    SepFree (tagCharOf ranges) := by
  simp only [sepFreeTable, Bool.and_eq_true, Bool.not_eq_true', List.all_eq_true] at h
  obtain ⟨⟨h1, h2⟩, h3⟩ := h
  refine ⟨h1, h2, ?_⟩
  intro c hc
  have : c.toNat ∈ spaceCodes := by simpa [isSpace] using hc
  exact h3 _ this

/-! ### Acceptor (what the driver evaluates on the implementation's outputs) -/

/- `acceptEvals` (Model/Tags.lean): `avo[i]` = avo's `Evaluate` under assignment `i`;
`tool[i]` = the toolchain's decision (`none` = rejected).  Used by the driver for
`accept-parse` lines; `Obs.ok` is three instances of it. -/

theorem acceptEvals_sound (avo : List Bool) (tool : List (Option Bool)) :
    acceptEvals avo tool = true ↔
      tool.length = avo.length ∧ ∀ i (h : i < avo.length), tool[i]? = some (some avo[i]) := by
  unfold acceptEvals
  rw [beq_iff_eq]
  constructor
  · intro h; subst h; simp
  · intro ⟨hl, h⟩
    apply List.ext_getElem?
    intro i
    by_cases hi : i < avo.length
    · rw [h i hi]; simp [hi]
    · have h1 : tool[i]? = none := by apply List.getElem?_eq_none; omega
      have h2 : (avo.map some)[i]? = none := by apply List.getElem?_eq_none; simp; omega
      rw [h1, h2]

/-- The property on one observation of the real code, declaratively: `Format`
succeeded, the toolchain accepted every printed constraint line, on every
enumerated assignment `i` the three toolchain answers (go/build/constraint on the
printed lines, go/build `MatchFile` on the printed stub file and on the printed
assembly file) are avo's `Evaluate`, and every constraint parsed back from its
printed form. -/
def Obs.Holds (o : Obs) : Prop :=
  o.fmtErr = false ∧ o.rejected = false ∧
  (o.tcb.length = o.ev.length ∧ ∀ i (h : i < o.ev.length), o.tcb[i]? = some (some o.ev[i])) ∧
  (o.mg.length = o.ev.length ∧ ∀ i (h : i < o.ev.length), o.mg[i]? = some (some o.ev[i])) ∧
  (o.ma.length = o.ev.length ∧ ∀ i (h : i < o.ev.length), o.ma[i]? = some (some o.ev[i])) ∧
  ∀ r ∈ o.rt, r = some true

/-- The acceptor the driver runs on every `accept-tags` line (`Obs.ok`, the
driver answers `ok` exactly when it is true) decides the declarative form. -/
theorem acceptObs_sound (o : Obs) : o.ok = true ↔ o.Holds := by
  unfold Obs.ok Obs.Holds
  simp only [Bool.and_eq_true, Bool.not_eq_true', List.all_eq_true, beq_iff_eq]
  rw [← acceptEvals_sound, ← acceptEvals_sound, ← acceptEvals_sound]
  unfold acceptEvals
  simp only [beq_iff_eq]
  constructor
  · intro ⟨⟨⟨⟨⟨h1, h2⟩, h3⟩, h4⟩, h5⟩, h6⟩; exact ⟨h1, h2, h3, h4, h5, h6⟩
  · intro ⟨h1, h2, h3, h4, h5, h6⟩; exact ⟨⟨⟨⟨⟨h1, h2⟩, h3⟩, h4⟩, h5⟩, h6⟩

/-- Non-vacuity of the acceptor: it accepts an agreeing observation and rejects a
`Format` error, a toolchain rejection, one differing bit, and a failed round trip. -/
example :
    let good : Obs := ⟨false, false, [true, false], [some true, some false], [some true, some false],
      [some true, some false], [some true]⟩
    good.ok = true ∧ ({ good with fmtErr := true }).ok = false ∧ ({ good with rejected := true }).ok = false ∧
    ({ good with ma := [some true, some true] }).ok = false ∧ ({ good with mg := [some true, none] }).ok = false ∧
    ({ good with rt := [some false] }).ok = false ∧ ({ good with rt := [none] }).ok = false := by decide

/-! ### Non-vacuity and witnesses of the hypotheses (ASCII tag characters) -/

theorem sepFree_ascii : SepFree asciiTag := sepFree_of_table asciiRanges (by decide)

private def s (x : String) : Str := x.toList

/-- Non-vacuity: a two-line formula with negation, digits, dot, underscore meets
all hypotheses; the theorem then speaks about a non-trivial header. -/
def exampleCs : Constraints := [[[s "linux", s "386"], [s "darwin", s "!cgo"]], [[s "!pure_go.1"]]]
theorem exampleCs_printable : Printable asciiTag exampleCs :=
  ⟨by decide, by decide, fun e he => by cases he; decide, fun e he => by cases he; decide⟩
example : outcome asciiTag (fun t => t == s "darwin") exampleCs = .selected true := by decide
example : (format asciiTag exampleCs).text = s "//go:build ((linux && 386) || (darwin && !cgo)) && !pure_go.1\n" := by decide
example : toolchainSelects (fun t => t == s "darwin") (format asciiTag exampleCs) = some true := by decide
example : parseConstraint asciiTag (s " linux,386 darwin,!cgo\n") = some [[s "linux", s "386"], [s "darwin", s "!cgo"]] := by decide
example : validTerm asciiTag (s "!a.b_1") = true ∧ validTerm asciiTag (s "!!x") = false ∧
    validTerm asciiTag (s "") = false ∧ validTerm asciiTag (s "!") = false ∧
    validTerm asciiTag (s "a-b") = false ∧ validTerm asciiTag (s "a b") = false := by decide

/-- **F8 (fixed in /repo 0ad3cb8; regression statement).**  `Any(Opt("a"), Opt())`
is rejected by `Validate`.  Why it must be: avo evaluates it to true under the
empty assignment while the printed header is `//go:build a`, which the
toolchain evaluates to false. -/
theorem empty_option_invalid :
    let cs : Constraints := [[[s "a"], []]]
    let v : Str → Bool := fun _ => false
    validate asciiTag cs = false ∧ evaluate asciiTag v cs = true ∧
    (format asciiTag cs).text = s "//go:build a\n" ∧
    toolchainSelects v (format asciiTag cs) = some false := by decide

/-- F8, round-trip side: an empty option would be lost by print-then-parse. -/
theorem empty_option_lost_by_roundtrip :
    validConstraint asciiTag [[s "a"], []] = false ∧
    parseConstraint asciiTag (body [[s "a"], []]) = some [[s "a"]] := by decide

/-- **F8b (fixed in /repo 0ad3cb8; regression statement).**  The empty constraint
`Any()` is rejected by `Validate`.  Why it must be: avo evaluates it to false
under every assignment, but it prints `//go:build ignore`, which the toolchain
selects under `-tags ignore`. -/
theorem empty_constraint_invalid :
    let cs : Constraints := [[]]
    let v : Str → Bool := fun t => t == ignoreTag
    validate asciiTag cs = false ∧ evaluate asciiTag v cs = false ∧
    (format asciiTag cs).text = s "//go:build ignore\n" ∧
    toolchainSelects v (format asciiTag cs) = some true := by decide

/-- `validate` implies what the proof needs: no empty line, no empty option. -/
theorem valid_nonempty (tc : Char → Bool) (cs : Constraints) (h : validate tc cs = true) :
    (∀ c ∈ cs, c ≠ []) ∧ (∀ c ∈ cs, ∀ o ∈ c, o ≠ []) :=
  ⟨((validate_iff tc cs).mp h).1, ((validate_iff tc cs).mp h).2.1⟩

/-- **F8c.**  A single line with 102 terms (101 operators) validates and avo
evaluates it to false under the empty assignment, but go/format refuses to
convert it and `buildtags.Format` silently prints nothing: the file is always
built. -/
theorem tags_equiv_fails_long_line :
    let cs : Constraints := [[List.replicate 102 (s "a")]]
    let v : Str → Bool := fun _ => false
    validate asciiTag cs = true ∧ evaluate asciiTag v cs = false ∧
    (format asciiTag cs).text = [] ∧
    toolchainSelects v (format asciiTag cs) = some true ∧
    outcome asciiTag v cs = .selected true := by decide +kernel

/-- **F8d.**  Eleven lines of 100 terms each validate; the synthesised
`//go:build` line has 1100 tags and the toolchain rejects it
(`build expression too large`). -/
theorem tags_equiv_fails_large_set :
    let cs : Constraints := List.replicate 11 [List.replicate 100 (s "a")]
    validate asciiTag cs = true ∧
    (∀ c ∈ cs, termCount c ≤ maxOldSize + 1) ∧
    toolchainSelects (fun _ => true) (format asciiTag cs) = none ∧
    outcome asciiTag (fun _ => true) cs = .rejected := by decide +kernel


/-! ### F8e: `Format` fails on a valid set with a very long line -/

theorem utf8Len_append (a b : Str) : utf8Len (a ++ b) = utf8Len a + utf8Len b := by
  unfold utf8Len
  rw [List.foldl_append]
  generalize List.foldl (fun n c => n + c.utf8Size) 0 a = k
  induction b generalizing k with
  | nil => simp
  | cons c cs ih =>
    simp only [List.foldl_cons]
    rw [ih (k + c.utf8Size), ih (0 + c.utf8Size)]
    omega

theorem utf8Len_replicate_a (n : Nat) : utf8Len (List.replicate n 'a') = n := by
  induction n with
  | zero => rfl
  | succ n ih =>
    have : List.replicate (n + 1) 'a' = ['a'] ++ List.replicate n 'a' := rfl
    rw [this, utf8Len_append, ih]
    have : utf8Len ['a'] = 1 := by decide
    omega

/-- A single un-negated valid term `w`: the set `[[[w]]]` validates, but when
`//go:build w` has 64 KiB or more `Format` fails (for every assignment no file
is printed), although `Evaluate` is defined and true under `w`. -/
theorem long_term_format_error {tc : Char → Bool} (hs : SepFree tc) (w : Str)
    (hw : validTerm tc w = true) (hneg : isNegated w = false)
    (hlen : scanLimit ≤ 11 + utf8Len w) :
    validate tc [[[w]]] = true ∧ (∀ v, outcome tc v [[[w]]] = .formatError) ∧
    evaluate tc (fun t => t == w) [[[w]]] = true := by
  have hval : validate tc [[[w]]] = true := by simp [validate, validConstraint, validOpt, hw]
  obtain ⟨_, hne, hv⟩ := (validate_iff tc [[[w]]]).mp hval
  have hname : name w = w := by
    rcases name_cases w with ⟨_, h⟩ | ⟨h, _⟩
    · rw [hneg] at h; exact absurd h (by simp)
    · exact h
  have hf := format_eq hs [[[w]]] hv hne (by intro c hc; simp at hc; subst hc; simp [termCount, maxOldSize])
  have hsplit : split ',' w = [w] := by
    have := split_optText hs [w] (by simp [termsValid, hw]) (by simp)
    simpa [optText, join] using this
  have he : lineExpr tc [[w]] = .tag w := by
    simp only [lineExpr, List.map_cons, List.map_nil, orAll, optText, join, clauseExpr, hsplit, andAll,
      litExpr_valid tc w hw, hneg, hname]
    rfl
  have hfe : format tc [[[w]]] = .goBuild (.tag w) := by
    rw [hf]; simp only [List.map_cons, List.map_nil, andAll, he]
  have h1 := formatChecked_goBuild tc [[[w]]] _ hfe
  have hl : tooLong (goBuildPrefix ++ (Expr.tag w).print) = true := by
    unfold tooLong
    simp only [decide_eq_true_eq, Expr.print, utf8Len_append]
    have : utf8Len goBuildPrefix = 11 := by decide
    omega
  simp only [hl, if_true] at h1
  refine ⟨hval, ?_, ?_⟩
  · intro v; simp only [outcome, h1]
  · simp [evaluate, evalConstraint, evalOpt, evalTerm, hw, hname, hneg]

/-- **F8e.**  The one-term set with a tag of 70 000 `a`s validates and evaluates
to true when the tag is set, but `buildtags.Format` fails on it
(`bufio.Scanner: token too long`): both printers return an error.  The
toolchain itself has no such limit. -/
theorem tags_equiv_fails_long_term :
    let w : Str := List.replicate 70000 'a'
    validate asciiTag [[[w]]] = true ∧ (∀ v, outcome asciiTag v [[[w]]] = .formatError) ∧
    evaluate asciiTag (fun t => t == w) [[[w]]] = true := by
  intro w
  have hmem : ∀ c ∈ w, c = 'a' := fun c hc => List.eq_of_mem_replicate hc
  have hw : validTerm asciiTag w = true := by
    rw [validTerm_iff]
    have hn : name w = w := rfl
    refine ⟨?_, ?_, ?_⟩
    · intro r hr
      have : w = 'a' :: List.replicate 69999 'a' := rfl
      rw [this] at hr
      exact absurd (List.cons.inj hr).1 (by decide)
    · rw [hn]; exact (by decide : List.replicate (69999 + 1) 'a' ≠ [])
    · intro c hc; rw [hn] at hc; rw [hmem c hc]; decide
  exact long_term_format_error sepFree_ascii w hw rfl (by
    have : utf8Len w = 70000 := utf8Len_replicate_a 70000
    rw [this]; decide)

/-- The limits are sharp in the other direction too (non-vacuity at the
boundaries): 10 lines of 100 terms (1000 operands; `2 * sizeBound = 2000`) and a line of exactly 101 terms
are printable. -/
theorem printable_of_checks (tc : Char → Bool) (cs : Constraints)
    (h1 : validate tc cs = true) (h2 : cs.all (fun c => decide (termCount c ≤ maxOldSize + 1)) = true)
    (h3 : (headerExpr tc cs).all (fun e => decide (e.psize ≤ maxSize)) = true)
    (h4 : (headerExpr tc cs).all (fun e => decide (utf8Len (goBuildPrefix ++ e.print) < scanLimit)) = true) :
    Printable tc cs := by
  refine ⟨h1, ?_, ?_, ?_⟩
  · intro c hc; simpa using (List.all_eq_true.mp h2) c hc
  · intro e he; rw [he] at h3; simpa using h3
  · intro e he; rw [he] at h4; simpa using h4

theorem printable_at_operand_limit : Printable asciiTag (List.replicate 10 [List.replicate 100 (s "a")]) :=
  printable_of_checks _ _ (by decide +kernel) (by decide +kernel) (by decide +kernel) (by decide +kernel)

theorem printable_at_line_limit : Printable asciiTag [[List.replicate 101 (s "a")]] :=
  printable_of_checks _ _ (by decide +kernel) (by decide +kernel) (by decide +kernel) (by decide +kernel)

end Avo.Tags
