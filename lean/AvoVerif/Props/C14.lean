/-
C14 — Build constraints mean the same thing to avo and to the Go toolchain.
Statements and property theorems only (helper lemmas: Lemmas/TagsText.lean,
Lemmas/TagsSem.lean; model: Model/Tags.lean).

`tc` is the tag-character predicate shared by avo's `Term.Validate` and the
toolchain's `isValidTag`/lexer; `SepFree tc` says that `!`, `,` and white space
are not tag characters (checked on the measured table in Props/C14Tables.lean).
-/
import AvoVerif.Lemmas.TagsSem
namespace Avo.Tags

/-- The constraint sets for which the property is claimed.  `valid` is avo's own
`Validate` (which, since /repo 0ad3cb8, rejects options without terms and
constraint lines without options: former findings F8, F8b); the two size clauses
are forced by the proof, and the real code violates the property without each
of them (witness theorems below, findings F8c, F8d). -/
structure Printable (tc : Char → Bool) (cs : Constraints) : Prop where
  /-- avo accepts the set: `cs.Validate() == nil` -/
  valid : validate tc cs = true
  /-- at most 100 AND/OR operators per `// +build` line (`maxOldSize`; F8c) -/
  lineSize : ∀ c ∈ cs, termCount c ≤ maxOldSize + 1
  /-- the synthesised `//go:build` expression stays within the parser's `maxSize` (F8d) -/
  totalSize : 2 * sizeBound cs ≤ maxSize + 1

/-- **C14, equivalence, full statement.**  For every printable constraint set and
every tag assignment, the toolchain accepts the header avo prints and selects
the file exactly when avo's `Evaluate` is true. -/
def C14_statement (tc : Char → Bool) : Prop :=
  ∀ (cs : Constraints) (v : Str → Bool), Printable tc cs →
    toolchainSelects v (format tc cs) = some (evaluate tc v cs)

/-- The synthesised expression is small enough for the toolchain's parser. -/
theorem header_psize {tc : Char → Bool} (hs : SepFree tc) (c : Constraint) (cs : Constraints)
    (h : Printable tc (c :: cs)) :
    (andAll (lineExpr tc c) (cs.map (lineExpr tc))).psize ≤ maxSize := by
  obtain ⟨_, hne, hv⟩ := (validate_iff tc (c :: cs)).mp h.valid
  have h1 := psize_le (andAll (lineExpr tc c) (cs.map (lineExpr tc)))
  rw [leaves_header hs c cs hv hne] at h1
  have := h.totalSize
  omega

theorem tags_equiv {tc : Char → Bool} (hs : SepFree tc) : C14_statement tc := by
  intro cs v h
  obtain ⟨hcne, hne, hv⟩ := (validate_iff tc cs).mp h.valid
  rw [format_eq hs cs hv hne h.lineSize]
  cases cs with
  | nil => rfl
  | cons c cs =>
    simp only [List.map_cons, toolchainSelects]
    have hp := header_psize hs c cs h
    have : ¬ (andAll (lineExpr tc c) (cs.map (lineExpr tc))).psize > maxSize := by omega
    simp only [this, if_false]
    rw [eval_header hs v c cs hv hne (Or.inl hcne)]

/-- The text avo prints (the output of `buildtags.Format`) for a printable set:
nothing for the empty set, otherwise the single line
`//go:build (line₁) && (line₂) && …` in the toolchain's own rendering. -/
theorem tags_format_text {tc : Char → Bool} (hs : SepFree tc) (cs : Constraints) (h : Printable tc cs) :
    (format tc cs).text = match cs with
      | [] => []
      | c :: cs => goBuildPrefix ++ (andAll (lineExpr tc c) (cs.map (lineExpr tc))).print ++ ['\n'] := by
  obtain ⟨_, hne, hv⟩ := (validate_iff tc cs).mp h.valid
  rw [format_eq hs cs hv hne h.lineSize]
  cases cs <;> rfl

/-- **C14, round trip.**  Parsing the text avo prints for a valid constraint
(everything after the fixed `// +build` prefix, with or without the final
newline) gives back the same constraint; same for a single option. -/
theorem tags_roundtrip {tc : Char → Bool} (hs : SepFree tc) (c : Constraint)
    (hv : validConstraint tc c = true) :
    goStringC c = plusPrefix ++ body c ++ ['\n'] ∧
    parseConstraint tc (body c) = some c ∧
    parseConstraint tc (body c ++ ['\n']) = some c := by
  obtain ⟨_, hne, hv⟩ := (validConstraint_iff tc c).mp hv
  have hall : ∀ o ∈ c, termsValid tc o = true := by simpa [optsValid] using hv
  have hf : fields (body c) = c.map optText :=
    fields_body c (fun o ho => optText_word hs o (hall o ho) (hne o ho))
  refine ⟨rfl, ?_, ?_⟩
  · unfold parseConstraint; rw [hf]; exact parseOptions_map hs c hv hne
  · unfold parseConstraint
    have : fields (body c ++ ['\n']) = fields (body c) := by
      unfold fields
      exact fieldsGo_append_spaces _ _ _ (by intro ch hch; simp at hch; rw [hch]; decide)
    rw [this, hf]; exact parseOptions_map hs c hv hne

theorem option_roundtrip {tc : Char → Bool} (hs : SepFree tc) (o : Opt)
    (hv : validOpt tc o = true) : parseOption tc (optText o) = some o := by
  obtain ⟨hne, hv⟩ := (validOpt_iff tc o).mp hv
  exact parseOption_optText hs o hv hne

/-- **C14, invalid terms.**  avo's `Term.Validate` accepts a term exactly when
the toolchain takes it as a (possibly negated) tag instead of replacing it by
`ignore`. -/
theorem tags_invalid (tc : Char → Bool) (t : Term) : validTerm tc t = toolchainTag tc t :=
  toolchainTag_eq tc t

/-- Valid terms are exactly the non-empty words over the toolchain's tag
characters, optionally preceded by one `!`. -/
theorem tags_invalid_chars {tc : Char → Bool} (hb : tc '!' = false) (t : Term) :
    validTerm tc t = true ↔
      ∃ n : Str, n ≠ [] ∧ (∀ c ∈ n, tc c = true) ∧ (t = n ∨ t = '!' :: n) := by
  rw [validTerm_iff]
  constructor
  · intro ⟨_, h1, h2⟩
    refine ⟨name t, h1, h2, ?_⟩
    rcases name_cases t with ⟨h, _⟩ | ⟨h, _⟩
    · exact Or.inr h
    · exact Or.inl h.symm
  · intro ⟨n, hn, hc, ht⟩
    have hhead : ∀ r, n ≠ '!' :: r := by
      intro r hr
      have := hc '!' (by rw [hr]; exact List.mem_cons_self)
      rw [hb] at this; exact absurd this (by decide)
    rcases ht with ht | ht
    · have hname : name t = n := by
        rw [ht]; unfold name; split
        · exact absurd rfl (hhead _)
        · rfl
      rw [hname]
      exact ⟨fun r hr => hhead _ (ht ▸ hr), hn, hc⟩
    · have hname : name t = n := by rw [ht]; rfl
      rw [hname]
      refine ⟨fun r hr => ?_, hn, hc⟩
      rw [ht] at hr
      exact hhead r (List.cons.inj hr).2

/-- A term avo reports invalid is read by the toolchain as `ignore` / `!ignore`. -/
theorem invalid_is_ignore (tc : Char → Bool) (t : Term) (h : validTerm tc t = false) :
    litExpr tc t = .tag ignoreTag ∨ litExpr tc t = .not (.tag ignoreTag) := by
  rw [tags_invalid] at h
  unfold toolchainTag at h
  unfold litExpr
  split
  · exact Or.inl rfl
  · exact Or.inl rfl
  · rename_i r h2 h3
    have : isValidTag tc r = false := by
      split at h <;> simp_all
    simp [this]
  · rename_i h2 h3 h4
    split at h
    · exact absurd rfl (h2 _)
    · exact absurd rfl h3
    · exact absurd rfl (h4 _)
    · simp [h]

/-- `SepFree` from the executable table check. -/
theorem sepFree_of_table (ranges : List (Nat × Nat)) (h : sepFreeTable ranges = true) :
    SepFree (tagCharOf ranges) := by
  simp only [sepFreeTable, Bool.and_eq_true, Bool.not_eq_true', List.all_eq_true] at h
  obtain ⟨⟨h1, h2⟩, h3⟩ := h
  refine ⟨h1, h2, ?_⟩
  intro c hc
  have : c.toNat ∈ spaceCodes := by simpa [isSpace] using hc
  exact h3 _ this

/-! ### Acceptor (what the driver evaluates on the implementation's outputs) -/

/-- `avo[i]` = avo's `Evaluate` under assignment `i`; `tool[i]` = the toolchain's
decision for the header avo printed (`none` = rejected). -/
def acceptEvals (avo : List Bool) (tool : List (Option Bool)) : Bool := tool == avo.map some

theorem acceptEvals_sound (avo : List Bool) (tool : List (Option Bool)) :
    acceptEvals avo tool = true ↔
      tool.length = avo.length ∧ ∀ i (h : i < avo.length), tool[i]? = some (some avo[i]) := by
  unfold acceptEvals
  rw [beq_iff_eq]
  constructor
  · intro h; subst h; simp
  · intro ⟨hl, h⟩
    apply List.ext_getElem?
    intro i
    by_cases hi : i < avo.length
    · rw [h i hi]; simp [hi]
    · have h1 : tool[i]? = none := by apply List.getElem?_eq_none; omega
      have h2 : (avo.map some)[i]? = none := by apply List.getElem?_eq_none; simp; omega
      rw [h1, h2]

/-! ### Non-vacuity and witnesses of the hypotheses (ASCII tag characters) -/

theorem sepFree_ascii : SepFree asciiTag := sepFree_of_table asciiRanges (by decide)

private def s (x : String) : Str := x.toList

/-- Non-vacuity: a two-line formula with negation, digits, dot, underscore meets
all hypotheses; the theorem then speaks about a non-trivial header. -/
def exampleCs : Constraints := [[[s "linux", s "386"], [s "darwin", s "!cgo"]], [[s "!pure_go.1"]]]
example : Printable asciiTag exampleCs := ⟨by decide, by decide, by decide⟩
example : (format asciiTag exampleCs).text = s "//go:build ((linux && 386) || (darwin && !cgo)) && !pure_go.1\n" := by decide
example : toolchainSelects (fun t => t == s "darwin") (format asciiTag exampleCs) = some true := by decide
example : parseConstraint asciiTag (s " linux,386 darwin,!cgo\n") = some [[s "linux", s "386"], [s "darwin", s "!cgo"]] := by decide
example : validTerm asciiTag (s "!a.b_1") = true ∧ validTerm asciiTag (s "!!x") = false ∧
    validTerm asciiTag (s "") = false ∧ validTerm asciiTag (s "!") = false ∧
    validTerm asciiTag (s "a-b") = false ∧ validTerm asciiTag (s "a b") = false := by decide

/-- **F8 (fixed in /repo 0ad3cb8; regression statement).**  `Any(Opt("a"), Opt())`
is rejected by `Validate`.  Why it must be: avo evaluates it to true under the
empty assignment while the printed header is `//go:build a`, which the
toolchain evaluates to false. -/
theorem empty_option_invalid :
    let cs : Constraints := [[[s "a"], []]]
    let v : Str → Bool := fun _ => false
    validate asciiTag cs = false ∧ evaluate asciiTag v cs = true ∧
    (format asciiTag cs).text = s "//go:build a\n" ∧
    toolchainSelects v (format asciiTag cs) = some false := by decide

/-- F8, round-trip side: an empty option would be lost by print-then-parse. -/
theorem empty_option_lost_by_roundtrip :
    validConstraint asciiTag [[s "a"], []] = false ∧
    parseConstraint asciiTag (body [[s "a"], []]) = some [[s "a"]] := by decide

/-- **F8b (fixed in /repo 0ad3cb8; regression statement).**  The empty constraint
`Any()` is rejected by `Validate`.  Why it must be: avo evaluates it to false
under every assignment, but it prints `//go:build ignore`, which the toolchain
selects under `-tags ignore`. -/
theorem empty_constraint_invalid :
    let cs : Constraints := [[]]
    let v : Str → Bool := fun t => t == ignoreTag
    validate asciiTag cs = false ∧ evaluate asciiTag v cs = false ∧
    (format asciiTag cs).text = s "//go:build ignore\n" ∧
    toolchainSelects v (format asciiTag cs) = some true := by decide

/-- `validate` implies what the proof needs: no empty line, no empty option. -/
theorem valid_nonempty (tc : Char → Bool) (cs : Constraints) (h : validate tc cs = true) :
    (∀ c ∈ cs, c ≠ []) ∧ (∀ c ∈ cs, ∀ o ∈ c, o ≠ []) :=
  ⟨((validate_iff tc cs).mp h).1, ((validate_iff tc cs).mp h).2.1⟩

/-- **F8c.**  A single line with 102 terms (101 operators) validates and avo
evaluates it to false under the empty assignment, but go/format refuses to
convert it and `buildtags.Format` silently prints nothing: the file is always
built. -/
theorem tags_equiv_fails_long_line :
    let cs : Constraints := [[List.replicate 102 (s "a")]]
    let v : Str → Bool := fun _ => false
    validate asciiTag cs = true ∧ evaluate asciiTag v cs = false ∧
    (format asciiTag cs).text = [] ∧
    toolchainSelects v (format asciiTag cs) = some true := by decide +kernel

/-- **F8d.**  Eleven lines of 100 terms each validate; the synthesised
`//go:build` line has 1100 tags and the toolchain rejects it
(`build expression too large`). -/
theorem tags_equiv_fails_large_set :
    let cs : Constraints := List.replicate 11 [List.replicate 100 (s "a")]
    validate asciiTag cs = true ∧
    (∀ c ∈ cs, termCount c ≤ maxOldSize + 1) ∧
    toolchainSelects (fun _ => true) (format asciiTag cs) = none := by decide +kernel

end Avo.Tags
