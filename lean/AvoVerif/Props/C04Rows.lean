/-
C04 — the per-row structural check `rowOK` evaluated by the shard modules
Props/C04S0 … C04S7 (one `decide +kernel` each, built in parallel).
-/
import AvoVerif.Model.FormActions
import AvoVerif.Gen.FormActionsMeta
import AvoVerif.Gen.Regs
namespace Avo.FormActions.Tables
open Avo.FormActions Avo.Gen

/-- (id, mask) of every physical register of the regenerated register table. -/
def regTbl : RegTbl := Avo.Gen.regs.map (fun r => (r.id, r.mask))

/-- the opmask register of a two-operand row `k, vector` is the SOURCE (mask-to-vector moves
and broadcasts), not a write mask -/
def maskSourceOnly (r : Row) : Bool :=
  mergeDestOK faMeta r ||
  (match r.ops with
   | [k, d] => isK faMeta k && k.reads && !k.writes && isVecReg faMeta d && !d.reads && d.writes
   | _ => false)

/-- all structural checks on one row.  Every conjunct states something the property NEEDS of the row and stays
true when avo declares more (a finding being repaired must not break an obligation): in particular nothing
here says that the completion mask of gathers/scatters is read-only (finding C04-GATHER-K). -/
def rowOK (r : Row) : Bool :=
  shapeOK faMeta r && cancellingOK faMeta r && implicitOK faMeta regTbl r && cmovOK faMeta r && setccOK faMeta r &&
  maskSourceOnly r && nonFinalMasksRead faMeta r && bitscanOK faMeta r && deniedOK faMeta r

end Avo.FormActions.Tables
