import AvoVerif.Props.C04Rows
import AvoVerif.Gen.FormActions_00
namespace Avo.FormActions.Tables
open Avo.FormActions Avo.Gen
/-- every row of shard 0 of the regenerated form table passes every structural check -/
theorem shard_00 : formActions_00.all rowOK = true := by decide +kernel
end Avo.FormActions.Tables
