/-
C13 — Data sections contain exactly the constants placed in them.
Statements and property theorems only.

Proved for all inputs: disjointness / bounds / size of the accepted data,
rejection of overlaps, the memory image, the text round trip of all eight
integer types and of strings (`$%+q`; the assembler's lexer rewriting two
runes inside string literals is modelled: finding F15, fixed), and that
assembling the printed lines yields the image.  Floats: their decimal text is *measured* against the assembler; the
theorems take the measured fact as the hypothesis `FloatsOK`.
Placements at negative offsets: avo accepts them, the assembler refuses the
file (finding C13-NEGOFF, witness in Props/C13Accept.lean); the layout theorems
take `InScope` (no negative offset) as a hypothesis.  Soundness and completeness
of the executable acceptors: Props/C13Accept.lean.
-/
import AvoVerif.Model.Data
import AvoVerif.Model.Float
import AvoVerif.Lemmas.NumText
import AvoVerif.Lemmas.Quote
namespace Avo.Data
open Avo.NumText

/-! ### Statement vocabulary -/

/-- Byte `p` of the section belongs to the datum. -/
def Datum.Mem (d : Datum) (p : Int) : Prop := d.lo ≤ p ∧ p < d.hi

instance (d : Datum) (p : Int) : Decidable (d.Mem p) := by
  unfold Datum.Mem; exact inferInstance

/-- The two data have a byte in common. -/
def ShareByte (d o : Datum) : Prop := ∃ p, d.Mem p ∧ o.Mem p

/-- The call sequence is inside the property's quantifier: no negative offset. -/
def InScope (ops : List Op) : Prop := ∀ off v, Op.place off v ∈ ops → 0 ≤ off

/-- What must hold of every section that was built. -/
structure Inv (g : Global) : Prop where
  size_nonneg : 0 ≤ g.size
  bounds : ∀ d ∈ g.data, 0 ≤ d.off ∧ d.hi ≤ g.size
  disjoint : g.data.Pairwise (fun a b => ¬ ShareByte a b)

/-! ### Overlap test -/

theorem overlaps_iff (d o : Datum) : overlaps d o = true ↔ d.lo < o.hi ∧ o.lo < d.hi := by
  simp only [overlaps, Bool.not_eq_true', Bool.or_eq_false_iff, decide_eq_false_iff_not]
  omega

theorem shareByte_overlaps (d o : Datum) (h : ShareByte d o) : overlaps d o = true := by
  obtain ⟨p, hd, ho⟩ := h
  rw [overlaps_iff]
  simp only [Datum.Mem] at hd ho
  omega

theorem overlaps_shareByte (d o : Datum) (hd : 0 < d.val.size) (ho : 0 < o.val.size)
    (h : overlaps d o = true) : ShareByte d o := by
  rw [overlaps_iff] at h
  simp only [Datum.lo, Datum.hi] at h
  by_cases c : d.off ≤ o.off
  · refine ⟨o.off, ?_, ?_⟩ <;> (unfold Datum.Mem Datum.lo Datum.hi; omega)
  · refine ⟨d.off, ?_, ?_⟩ <;> (unfold Datum.Mem Datum.lo Datum.hi; omega)

/-- **C13 (overlap).** `AddDatum` fails exactly when Go's interval test fires
against some earlier datum; in particular a constant that shares a byte with
an earlier one is always rejected, and for non-empty constants the test fires
only then. -/
theorem overlap_rejected (g : Global) (d : Datum) :
    (addDatum g d = none ↔ ∃ d' ∈ g.data, overlaps d d' = true) ∧
    ((∃ d' ∈ g.data, ShareByte d d') → addDatum g d = none) ∧
    (addDatum g d = none → 0 < d.val.size → (∀ d' ∈ g.data, 0 < d'.val.size) →
      ∃ d' ∈ g.data, ShareByte d d') := by
  have h1 : addDatum g d = none ↔ ∃ d' ∈ g.data, overlaps d d' = true := by
    unfold addDatum
    by_cases c : g.data.any (overlaps d) = true
    · simp only [c, if_true, true_iff]
      exact List.any_eq_true.mp c
    · have c' : g.data.any (overlaps d) = false := by simpa using c
      simp only [c', Bool.false_eq_true, if_false]
      constructor
      · intro h; cases h
      · intro h; exact absurd (List.any_eq_true.mpr h) c
  refine ⟨h1, ?_, ?_⟩
  · rintro ⟨d', hm, hs⟩
    exact h1.mpr ⟨d', hm, shareByte_overlaps d d' hs⟩
  · intro hn hd hall
    obtain ⟨d', hm, ho⟩ := h1.mp hn
    exact ⟨d', hm, overlaps_shareByte d d' hd (hall d' hm) ho⟩

/-! ### Invariant -/

theorem inv_init : Inv {} := ⟨by decide, by simp, by simp⟩

theorem grow_size (g : Global) (n : Int) : (grow g n).size = max g.size n ∧ (grow g n).data = g.data := by
  unfold grow
  by_cases c : g.size < n
  · simp [c]; omega
  · simp [c]; omega

theorem inv_grow (g : Global) (n : Int) (h : Inv g) : Inv (grow g n) := by
  obtain ⟨hs, hd⟩ := grow_size g n
  refine ⟨by have := h.size_nonneg; omega, ?_, by rw [hd]; exact h.disjoint⟩
  intro d hm
  rw [hd] at hm
  have := h.bounds d hm
  omega

theorem add_spec (g : Global) (d : Datum) :
    (add g d).size = max g.size d.hi ∧ (add g d).data = g.data ++ [d] := by
  obtain ⟨hs, hd⟩ := grow_size g d.hi
  simp only [add, hs, hd, and_self]

theorem inv_add (g : Global) (d : Datum) (h : Inv g) (h0 : 0 ≤ d.off)
    (hn : ∀ o ∈ g.data, ¬ ShareByte o d) : Inv (add g d) := by
  obtain ⟨hs, hd⟩ := add_spec g d
  refine ⟨by have := h.size_nonneg; omega, ?_, ?_⟩
  · intro x hx
    rw [hd, List.mem_append, List.mem_singleton] at hx
    rcases hx with hx | hx
    · have := h.bounds x hx; omega
    · subst hx; omega
  · rw [hd, List.pairwise_append]
    refine ⟨h.disjoint, by simp, ?_⟩
    intro a ha b hb
    rw [List.mem_singleton] at hb
    subst hb
    exact hn a ha

theorem addDatum_some (g g' : Global) (d : Datum) (ha : addDatum g d = some g') :
    g' = add g d ∧ g.data.any (overlaps d) = false := by
  unfold addDatum at ha
  cases c : g.data.any (overlaps d) with
  | true => simp [c] at ha
  | false =>
    simp only [c, Bool.false_eq_true, if_false, Option.some.injEq] at ha
    exact ⟨ha.symm, rfl⟩

theorem inv_addDatum (g g' : Global) (d : Datum) (h : Inv g) (h0 : 0 ≤ d.off)
    (ha : addDatum g d = some g') : Inv g' := by
  obtain ⟨e, c⟩ := addDatum_some g g' d ha
  subst e
  apply inv_add g d h h0
  intro o ho hs
  have : g.data.any (overlaps d) = true := by
    apply List.any_eq_true.mpr
    refine ⟨o, ho, shareByte_overlaps d o ?_⟩
    obtain ⟨p, h1, h2⟩ := hs
    exact ⟨p, h2, h1⟩
  rw [c] at this; cases this

theorem inv_append (g : Global) (v : Const) (h : Inv g) : Inv (append g v) := by
  apply inv_add g ⟨g.size, v⟩ h h.size_nonneg
  intro o ho hs
  obtain ⟨p, h1, h2⟩ := hs
  have := h.bounds o ho
  simp only [Datum.Mem, Datum.lo, Datum.hi] at h1 h2 this
  omega

theorem inv_step (g : Global) (op : Op) (h : Inv g) (hs : ∀ off v, op = .place off v → 0 ≤ off) :
    Inv (step g op).1 := by
  cases op with
  | place off v =>
    simp only [step]
    cases ha : addDatum g ⟨off, v⟩ with
    | none => exact h
    | some g' => exact inv_addDatum g g' ⟨off, v⟩ h (hs off v rfl) ha
  | append v => exact inv_append g v h
  | grow n => exact inv_grow g n h

theorem inv_run (g : Global) (ops : List Op) (h : Inv g) (hs : InScope ops) : Inv (run g ops).1 := by
  induction ops generalizing g with
  | nil => exact h
  | cons op ops ih =>
    simp only [run]
    apply ih
    · exact inv_step g op h (fun off v e => hs off v (by rw [e]; exact List.mem_cons_self))
    · exact fun off v hm => hs off v (List.mem_cons_of_mem _ hm)

/-! ### Size = furthest extent -/

theorem step_mono (g : Global) (op : Op) :
    g.size ≤ (step g op).1.size ∧ (∀ d ∈ g.data, d ∈ (step g op).1.data) := by
  cases op with
  | place off v =>
    simp only [step]
    cases ha : addDatum g ⟨off, v⟩ with
    | none => exact ⟨Int.le_refl _, fun _ h => h⟩
    | some g' =>
      obtain ⟨e, _⟩ := addDatum_some g g' _ ha
      subst e
      obtain ⟨h1, h2⟩ := add_spec g ⟨off, v⟩
      exact ⟨by simp only; omega, fun d hd => by simp only [h2]; exact List.mem_append_left _ hd⟩
  | append v =>
    obtain ⟨h1, h2⟩ := add_spec g ⟨g.size, v⟩
    exact ⟨by simp only [step, append]; omega, fun d hd => by simp only [step, append, h2]; exact List.mem_append_left _ hd⟩
  | grow n =>
    obtain ⟨h1, h2⟩ := grow_size g n
    exact ⟨by simp only [step]; omega, fun d hd => by simp only [step, h2]; exact hd⟩

theorem run_mono (g : Global) (ops : List Op) :
    g.size ≤ (run g ops).1.size ∧ (∀ d ∈ g.data, d ∈ (run g ops).1.data) := by
  induction ops generalizing g with
  | nil => exact ⟨Int.le_refl _, fun _ h => h⟩
  | cons op ops ih =>
    obtain ⟨a1, a2⟩ := step_mono g op
    obtain ⟨b1, b2⟩ := ih (step g op).1
    simp only [run]
    exact ⟨by omega, fun d hd => b2 d (a2 d hd)⟩

/-- The size is attained: it is the starting size, the end of some datum, or
an explicit `Grow` argument. -/
theorem step_attained (g : Global) (op : Op) :
    (step g op).1.size = g.size ∨ (∃ d ∈ (step g op).1.data, d.hi = (step g op).1.size) ∨
    (∃ n, op = .grow n ∧ n = (step g op).1.size) := by
  cases op with
  | place off v =>
    simp only [step]
    cases ha : addDatum g ⟨off, v⟩ with
    | none => exact Or.inl rfl
    | some g' =>
      obtain ⟨e, _⟩ := addDatum_some g g' _ ha
      subst e
      obtain ⟨h1, h2⟩ := add_spec g ⟨off, v⟩
      by_cases c2 : g.size < (⟨off, v⟩ : Datum).hi
      · exact Or.inr (Or.inl ⟨⟨off, v⟩, by simp only [h2]; simp, by simp only [h1]; omega⟩)
      · exact Or.inl (by simp only [h1]; omega)
  | append v =>
    obtain ⟨h1, h2⟩ := add_spec g ⟨g.size, v⟩
    exact Or.inr (Or.inl ⟨⟨g.size, v⟩, by simp only [step, append, h2]; simp,
      by simp only [step, append, h1, Datum.hi]; omega⟩)
  | grow n =>
    obtain ⟨h1, _⟩ := grow_size g n
    by_cases c : g.size < n
    · exact Or.inr (Or.inr ⟨n, rfl, by simp only [step, h1]; omega⟩)
    · exact Or.inl (by simp only [step, h1]; omega)

theorem run_attained (g : Global) (ops : List Op) :
    (run g ops).1.size = g.size ∨ (∃ d ∈ (run g ops).1.data, d.hi = (run g ops).1.size) ∨
    (∃ n, Op.grow n ∈ ops ∧ n = (run g ops).1.size) := by
  induction ops generalizing g with
  | nil => exact Or.inl rfl
  | cons op ops ih =>
    simp only [run]
    rcases ih (step g op).1 with h | h | ⟨n, hn, he⟩
    · rcases step_attained g op with s | ⟨d, hd, he⟩ | ⟨n, hn, he⟩
      · exact Or.inl (by omega)
      · exact Or.inr (Or.inl ⟨d, (run_mono _ ops).2 d hd, by omega⟩)
      · exact Or.inr (Or.inr ⟨n, by rw [hn]; exact List.mem_cons_self, by omega⟩)
    · exact Or.inr (Or.inl h)
    · exact Or.inr (Or.inr ⟨n, List.mem_cons_of_mem _ hn, he⟩)

theorem run_grow_le (g : Global) (ops : List Op) (n : Int) (h : Op.grow n ∈ ops) :
    n ≤ (run g ops).1.size := by
  induction ops generalizing g with
  | nil => cases h
  | cons op ops ih =>
    simp only [run]
    rcases List.mem_cons.mp h with e | hm
    · subst e
      have h1 := (grow_size g n).1
      have h2 := (run_mono (step g (.grow n)).1 ops).1
      simp only [step] at h2 ⊢
      omega
    · exact ih _ hm

/-- **C13 (layout).** For every in-scope sequence of placements, appends and
grows on a fresh section: the accepted data are pairwise byte-disjoint, each
lies inside `[0, size)`, and the size is exactly the furthest extent — an upper
bound of every datum end and every `Grow` argument that is attained (or 0). -/
theorem data_disjoint (ops : List Op) (hs : InScope ops) :
    let g := (run {} ops).1
    g.data.Pairwise (fun a b => ¬ ShareByte a b) ∧
    (∀ d ∈ g.data, 0 ≤ d.lo ∧ d.hi ≤ g.size) ∧
    (∀ n, Op.grow n ∈ ops → n ≤ g.size) ∧
    (g.size = 0 ∨ (∃ d ∈ g.data, d.hi = g.size) ∨ (∃ n, Op.grow n ∈ ops ∧ n = g.size)) := by
  have hi := inv_run {} ops inv_init hs
  refine ⟨hi.disjoint, hi.bounds, fun n hn => run_grow_le {} ops n hn, ?_⟩
  exact run_attained {} ops

/-! ### Memory image -/

theorem leBytes_length (n v : Nat) : (leBytes n v).length = n := by
  induction n generalizing v with
  | zero => rfl
  | succ n ih => simp [leBytes, ih]

theorem enc_length (c : Const) : c.enc.length = c.size := by
  cases c <;> simp [Const.enc, Const.size, leBytes_length]

/-- one write step of `byteAt` -/
def wstep (p : Int) (acc : Nat) (d : Int × List Nat) : Nat :=
  if d.1 ≤ p ∧ p < d.1 + d.2.length then d.2.getD (p - d.1).toNat 0 else acc

theorem byteAt_eq (ws : List (Int × List Nat)) (p : Int) : byteAt ws p = ws.foldl (wstep p) 0 := rfl

def wr (d : Datum) : Int × List Nat := (d.off, d.val.enc)

theorem wstep_hit (p : Int) (acc : Nat) (d : Datum) (h : d.Mem p) :
    wstep p acc (wr d) = d.val.enc.getD (p - d.off).toNat 0 := by
  simp only [Datum.Mem, Datum.lo, Datum.hi] at h
  simp only [wstep, wr, enc_length, h, and_self, if_true]

theorem wstep_miss (p : Int) (acc : Nat) (d : Datum) (h : ¬ d.Mem p) :
    wstep p acc (wr d) = acc := by
  simp only [Datum.Mem, Datum.lo, Datum.hi] at h
  simp only [wstep, wr, enc_length, h, if_false]

theorem foldl_untouched (p : Int) (data : List Datum) (acc : Nat) (h : ∀ d ∈ data, ¬ d.Mem p) :
    (data.map wr).foldl (wstep p) acc = acc := by
  induction data generalizing acc with
  | nil => rfl
  | cons d ds ih =>
    simp only [List.map_cons, List.foldl_cons, wstep_miss p acc d (h d List.mem_cons_self)]
    exact ih acc (fun x hx => h x (List.mem_cons_of_mem _ hx))

theorem foldl_hit (p : Int) (data : List Datum) (acc : Nat)
    (hp : data.Pairwise (fun a b => ¬ ShareByte a b)) (d : Datum) (hd : d ∈ data) (hm : d.Mem p) :
    (data.map wr).foldl (wstep p) acc = d.val.enc.getD (p - d.off).toNat 0 := by
  induction data generalizing acc with
  | nil => cases hd
  | cons d0 ds ih =>
    rw [List.pairwise_cons] at hp
    simp only [List.map_cons, List.foldl_cons]
    rcases List.mem_cons.mp hd with e | hin
    · subst e
      rw [wstep_hit p acc d hm]
      apply foldl_untouched
      intro x hx hxm
      exact hp.1 x hx ⟨p, hm, hxm⟩
    · exact ih _ hp.2 hin

theorem image_get (g : Global) (k : Nat) (hk : k < g.size.toNat) :
    (image g)[k]? = some (byteAt g.writes (Int.ofNat k)) := by
  simp [image, hk]

/-- **C13 (image).** The image has `size` bytes; every datum's bytes appear at
its offset in little-endian order (`Const.enc`); every other byte is zero. -/
theorem data_image (g : Global) (h : Inv g) :
    (image g).length = g.size.toNat ∧
    (∀ d ∈ g.data, ∀ i, i < d.val.size →
      (image g)[d.off.toNat + i]? = some (d.val.enc.getD i 0)) ∧
    (∀ k, k < g.size.toNat → (∀ d ∈ g.data, ¬ d.Mem (Int.ofNat k)) → (image g)[k]? = some 0) := by
  refine ⟨by simp [image], ?_, ?_⟩
  · intro d hd i hi
    obtain ⟨h0, hb⟩ := h.bounds d hd
    simp only [Datum.hi] at hb
    have hk : d.off.toNat + i < g.size.toNat := by omega
    rw [image_get g _ hk, byteAt_eq]
    have hm : d.Mem (Int.ofNat (d.off.toNat + i)) := by
      simp only [Datum.Mem, Datum.lo, Datum.hi, Int.ofNat_eq_natCast]; omega
    have := foldl_hit (Int.ofNat (d.off.toNat + i)) g.data 0 h.disjoint d hd hm
    simp only [Global.writes]
    have hw : g.data.map (fun d => (d.off, d.val.enc)) = g.data.map wr := rfl
    rw [hw, this]
    congr 2
    simp only [Int.ofNat_eq_natCast]; omega
  · intro k hk hn
    rw [image_get g k hk, byteAt_eq]
    have hw : g.writes = g.data.map wr := rfl
    rw [hw, foldl_untouched _ _ _ hn]

/-! ### Text round trips -/

theorem wrap_nonneg_toNat (n : Nat) (v : Int) (h : 0 ≤ v) : wrap n (v.toNat : Int) = wrap n v := by
  have : ((v.toNat : Nat) : Int) = v := Int.toNat_of_nonneg h
  rw [this]

/-- **C13 (integers).** For each of the eight integer constant types and every
value of the type, the assembler reading the printed text with the printed
length stores exactly the constant's little-endian bytes. -/
theorem int_text_roundtrip (fparse : List Char → Nat → Option Nat) (pr : Nat → Bool)
    (ty : IntTy) (hty : ty ∈ intTypes) (v : Int) (hv : ty.InRange v) :
    asmValue fparse ty.bytes ((Const.int ty v).asm pr) = some (Const.int ty v).enc := by
  have hlen : ty.bytes = 1 ∨ ty.bytes = 2 ∨ ty.bytes = 4 ∨ ty.bytes = 8 := by
    simp only [intTypes, List.mem_cons, List.not_mem_nil, or_false] at hty
    rcases hty with e | e | e | e | e | e | e | e <;> subst e <;> decide
  cases hsg : ty.signed with
  | true =>
    simp only [Const.asm, hsg, if_true, asmValue, parseIntLit_intDecPlus, hlen, Const.enc]
  | false =>
    have h0 : 0 ≤ v := by
      unfold IntTy.InRange at hv; simp only [hsg, Bool.false_eq_true, if_false] at hv; exact hv.1
    simp only [Const.asm, hsg, Bool.false_eq_true, if_false, asmValue, parseIntLit_hexPad, hlen,
      if_true, Const.enc, wrap_nonneg_toNat _ v h0]

theorem asmSubstAux_ascii (t : List Nat) (h : ∀ b ∈ t, b < 0x80) : asmSubstAux 0 t = t := by
  induction t with
  | nil => rfl
  | cons b rest ih =>
    have hb : b < 0x80 := h b List.mem_cons_self
    have n1 : ¬ (b = 0xc2 ∧ rest.take 1 = [0xb7]) := by omega
    have n2 : ¬ (b = 0xe2 ∧ rest.take 2 = [0x88, 0x95]) := by omega
    simp only [asmSubstAux, n1, n2, if_false, ih (fun x hx => h x (List.mem_cons_of_mem _ hx))]

/-- The assembler's lexer leaves the literal alone: it contains neither
`·` (U+00B7) nor `∕` (U+2215) in raw form. -/
def LexerSafe (lit : List Nat) : Prop := asmSubst lit = lit

instance (lit : List Nat) : Decidable (LexerSafe lit) := by unfold LexerSafe; exact inferInstance

/-- **C13 (strings), any printability table.** For every byte string whose
quoted text the assembler's lexer leaves alone, the assembler reading that text
with the printed length stores exactly the string's bytes.  The guard is needed
when runes are printed raw (the former `$%q`, finding F15, fixed): Go's `%q`
prints the printable runes U+00B7 and U+2215 raw, and cmd/asm rewrites them to
`.` and `/` in every token, string literals included — see
`string_text_fails_at_middle_dot`.  With `$%+q` the guard always holds
(`string_text_roundtrip`). -/
theorem string_text_roundtrip_partial (fparse : List Char → Nat → Option Nat) (pr : Nat → Bool)
    (bs : List Nat) (hb : ∀ b ∈ bs, b < 256) (hl : LexerSafe (Quote.quote pr bs)) :
    asmValue fparse (Const.str bs).size ((Const.str bs).asm pr) = some (Const.str bs).enc := by
  unfold LexerSafe at hl
  simp only [Const.asm, asmValue, hl, Quote.unquote_quote pr bs hb, Const.size, Const.enc,
    Nat.lt_irrefl, if_false, Nat.sub_self, List.replicate_zero, List.append_nil]

/-- **C13 (strings).** `String.Asm` prints `$%+q`: no rune ≥ 0x80 is printed
raw (`pr = fun _ => false`).  For every byte string the assembler reading that
text with the printed length stores exactly the string's bytes. -/
theorem string_text_roundtrip (fparse : List Char → Nat → Option Nat)
    (bs : List Nat) (hb : ∀ b ∈ bs, b < 256) :
    asmValue fparse (Const.str bs).size ((Const.str bs).asm (fun _ => false)) = some (Const.str bs).enc :=
  string_text_roundtrip_partial fparse _ bs hb
    (asmSubstAux_ascii _ (Quote.quote_ascii bs hb))

/-- **Witness of F15 (fixed; kept as a regression).** Printed raw — as the
former `$%q` did, Go's IsPrint calling it printable — the one-rune string `·`
(bytes c2 b7) is stored by the assembler as `.` followed by a zero byte; printed
as `\u00b7` it survives. -/
theorem string_text_fails_at_middle_dot :
    (Const.str [0xc2, 0xb7]).asm (fun r => r == 0xb7) = .str [0x22, 0xc2, 0xb7, 0x22] ∧
    asmValue (fun _ _ => none) 2 ((Const.str [0xc2, 0xb7]).asm (fun r => r == 0xb7)) = some [0x2e, 0] ∧
    asmValue (fun _ _ => none) 3 ((Const.str [0xe2, 0x88, 0x95]).asm (fun r => r == 0x2215)) = some [0x2f, 0, 0] ∧
    asmValue (fun _ _ => none) 2 ((Const.str [0xc2, 0xb7]).asm (fun _ => false)) = some [0xc2, 0xb7] := by
  decide

/-! ### Assembling the printed lines -/

/-- Side conditions on the constants of a section: integer values are values of
their type, string bytes are bytes and the lexer leaves the literal alone (F15),
and — the measured part — the assembler converts each float's printed text to
its bit pattern. -/
def ConstOK (fparse : List Char → Nat → Option Nat) (pr : Nat → Bool) : Const → Prop
  | .int ty v => ty ∈ intTypes ∧ ty.InRange v
  | .float n bits text => (n = 4 ∨ n = 8) ∧ fparse text n = some bits
  | .str bs => (∀ b ∈ bs, b < 256) ∧ LexerSafe (Quote.quote pr bs)

/-- With `$%+q` every byte string is fine. -/
theorem constOK_str (fparse : List Char → Nat → Option Nat) (bs : List Nat) (hb : ∀ b ∈ bs, b < 256) :
    ConstOK fparse (fun _ => false) (.str bs) :=
  ⟨hb, asmSubstAux_ascii _ (Quote.quote_ascii bs hb)⟩

theorem asmValue_const (fparse : List Char → Nat → Option Nat) (pr : Nat → Bool) (c : Const)
    (h : ConstOK fparse pr c) : asmValue fparse c.size (c.asm pr) = some c.enc := by
  cases c with
  | int ty v => exact int_text_roundtrip fparse pr ty h.1 v h.2
  | float n bits text =>
    simp only [ConstOK] at h
    simp only [Const.asm, asmValue, Const.size, h.1, if_true, h.2, Option.map, Const.enc]
  | str bs => exact string_text_roundtrip_partial fparse pr bs h.1 h.2

theorem parseNat_intDec_nat (n : Nat) : parseNat 10 (intDec (n : Int)) = some n := by
  unfold intDec
  have : ¬ ((n : Int) < 0) := by omega
  simp only [this, if_false, Int.natAbs_natCast]
  exact parseNat_digits 10 (by omega) (by omega) n

theorem asmLines_texts (fparse : List Char → Nat → Option Nat) (pr : Nat → Bool) (data : List Datum)
    (last : Int) (hm : monotone data last = true) (h0 : 0 ≤ last)
    (hc : ∀ d ∈ data, ConstOK fparse pr d.val) :
    asmLines fparse (data.map (Datum.text pr)) last = some (data.map wr) := by
  induction data generalizing last with
  | nil => rfl
  | cons d ds ih =>
    simp only [monotone, Bool.and_eq_true, decide_eq_true_eq] at hm
    have hcd := hc d List.mem_cons_self
    have ih' := ih d.hi hm.2 (by simp only [Datum.hi]; omega) (fun x hx => hc x (List.mem_cons_of_mem _ hx))
    have hlt : ¬ (d.off < last ∨ d.off < 0) := by omega
    simp only [List.map_cons, asmLines, Datum.text, parseIntLit_intDecPlus, parseNat_intDec_nat,
      hlt, if_false, asmValue_const fparse pr d.val hcd]
    simp only [Datum.hi] at ih'
    simp only [ih', wr]

/-- **C13 (lines).** For every section satisfying the invariant whose data were
placed in increasing order (what the assembler demands), the assembler's
reading of the printed DATA lines and GLOBL size — offsets `%+d`, lengths,
constants in their text forms — produces exactly the image. -/
theorem data_lines (fparse : List Char → Nat → Option Nat) (pr : Nat → Bool) (g : Global)
    (h : Inv g) (hm : monotone g.data 0 = true) (hc : ∀ d ∈ g.data, ConstOK fparse pr d.val) :
    assemble fparse (g.texts pr) = some (image g) := by
  unfold assemble Global.texts
  have hsz : parseNat 10 (intDec g.size) = some g.size.toNat := by
    have : g.size = ((g.size.toNat : Nat) : Int) := (Int.toNat_of_nonneg h.size_nonneg).symm
    rw [this]; simp only [Int.toNat_natCast]; exact parseNat_intDec_nat _
  simp only [asmLines_texts fparse pr g.data 0 hm (Int.le_refl 0) hc, hsz]
  have hany : (g.data.map wr).any (fun w => decide (((g.size.toNat : Nat) : Int) < w.1 + w.2.length)) = false := by
    rw [List.any_eq_false]
    intro w hw
    obtain ⟨d, hd, e⟩ := List.mem_map.mp hw
    subst e
    have := (h.bounds d hd).2
    have hs := h.size_nonneg
    simp only [wr, enc_length, Datum.hi] at this ⊢
    simp only [decide_eq_true_eq]
    omega
  simp only [hany, Bool.false_eq_true, if_false]
  rfl

/-- The composition the property asks for: build a section by any in-scope
call sequence; if its data are in increasing order and its constants are fine
(floats: measured), assembling what is printed yields the image, which holds
every constant at its offset and zero elsewhere (`data_image`). -/
theorem data_end_to_end (fparse : List Char → Nat → Option Nat) (pr : Nat → Bool) (ops : List Op)
    (hs : InScope ops) (hm : monotone (run {} ops).1.data 0 = true)
    (hc : ∀ d ∈ (run {} ops).1.data, ConstOK fparse pr d.val) :
    assemble fparse ((run {} ops).1.texts pr) = some (image (run {} ops).1) :=
  data_lines fparse pr _ (inv_run {} ops inv_init hs) hm hc

/-! ### Non-vacuity and witnesses -/

def exOps : List Op :=
  [.place 0 (.int U32 0xdeadbeef), .place 8 (.int I16 (-2)), .place 2 (.int U8 1),
   .append (.str [0x61, 0x22, 0]), .grow 16, .place 4 (.int I32 5)]

example : InScope exOps := by
  intro off v h
  simp only [exOps, List.mem_cons, List.not_mem_nil, or_false] at h
  rcases h with h | h | h | h | h | h <;> cases h <;> decide
example : (run {} exOps).2 = [true, true, false, true, true, true] := by decide
example : (run {} exOps).1.size = 16 := by decide
example : image (run {} exOps).1 =
    [0xef, 0xbe, 0xad, 0xde, 5, 0, 0, 0, 0xfe, 0xff, 0x61, 0x22, 0, 0, 0, 0] := by decide
example : (Const.int I16 (-2)).asm (fun _ => false) = .num "-2".toList := by decide
example : (Const.int U16 255).asm (fun _ => false) = .num "0x00ff".toList := by decide
example : I8.InRange (-128) ∧ ¬ I8.InRange 128 ∧ U64.InRange 18446744073709551615 := by decide

/-- The same image is what the assembler model produces from the printed lines
when the data are in increasing order … -/
example : assemble (fun _ _ => none)
    ((run {} [.place 0 (.int U32 1), .place 4 (.int I8 (-1)), .append (.str [0x41, 0])]).1.texts (fun _ => false)) =
    some [1, 0, 0, 0, 0xff, 0x41, 0] := by decide

/-- Non-vacuity of `data_image` / `data_lines`: a concrete section with an
integer, a float and a string meets every hypothesis. -/
def exOps2 : List Op :=
  [.place 0 (.int U32 1), .place 4 (.float 4 0x3dcccccd "0.1".toList), .append (.str [0x41, 0])]

example : Inv (run {} exOps2).1 :=
  inv_run {} exOps2 inv_init (by
    intro off v h
    simp only [exOps2, List.mem_cons, List.not_mem_nil, or_false] at h
    rcases h with h | h | h <;> cases h <;> decide)

example : monotone (run {} exOps2).1.data 0 = true := by decide

example : ∀ d ∈ (run {} exOps2).1.data, ConstOK Float.asmFloat (fun _ => false) d.val := by
  have hd : (run {} exOps2).1.data =
      [⟨0, .int U32 1⟩, ⟨4, .float 4 0x3dcccccd "0.1".toList⟩, ⟨8, .str [0x41, 0]⟩] := by decide
  rw [hd]
  intro d h
  simp only [List.mem_cons, List.not_mem_nil, or_false] at h
  rcases h with h | h | h <;> subst h
  · exact ⟨by decide, by decide⟩
  · exact ⟨Or.inl rfl, by decide +kernel⟩
  · refine ⟨?_, by decide⟩
    intro b hb
    simp only [List.mem_cons, List.not_mem_nil, or_false] at hb
    rcases hb with hb | hb <;> subst hb <;> decide

example : assemble Float.asmFloat ((run {} exOps2).1.texts (fun _ => false)) =
    some [1, 0, 0, 0, 0xcd, 0xcc, 0xcc, 0x3d, 0x41, 0] := by decide +kernel

/-- … and (witness of finding F14) a section whose data were accepted out of
order is printed in insertion order, which the assembler rejects. -/
theorem nonmonotone_rejected_witness :
    (run {} [.place 8 (.int U32 1), .place 0 (.int U32 2)]).2 = [true, true] ∧
    assemble (fun _ _ => none)
      ((run {} [.place 8 (.int U32 1), .place 0 (.int U32 2)]).1.texts (fun _ => false)) = none := by decide

/-! ### Floats: the measured hypothesis fails at two float32 values (finding F11)

`Float.asmFloat` is the executable model of the assembler's conversion
(nearest binary64 of the decimal, then nearest binary32 of that).  The text
below is what the implementation prints for the float32 with bit pattern
0x15ae43fd (measured on every run by the harness: `accept-f32 15ae43fd …`). -/

def f11Text : List Char := "0.00000000000000000000000007038531".toList

/-- The decimal is the correctly rounded name of 0x15ae43fd in single
precision, but the assembler's two roundings land on the next float32:
`ConstOK` does not hold for this constant. -/
theorem f32_text_fails_at_F11 :
    Float.directF32 f11Text = some 0x15ae43fd ∧
    Float.asmFloat f11Text 4 = some 0x15ae43fe ∧
    Float.asmFloat ('-' :: f11Text) 4 = some 0x95ae43fe ∧
    ¬ ConstOK Float.asmFloat (fun _ => false) (.float 4 0x15ae43fd f11Text) := by
  refine ⟨by decide +kernel, by decide +kernel, by decide +kernel, ?_⟩
  intro h
  have h2 : Float.asmFloat f11Text 4 = some 0x15ae43fe := by decide +kernel
  simp only [ConstOK] at h
  rw [h2] at h
  exact absurd h.2 (by decide)

/-- Since the fix of F11 (operand/const.go falls back to the float64-exact
decimal when the short one does not survive) the implementation prints this
text for 0x15ae43fd, and the assembler's conversion gives the constant back. -/
def f11TextFixed : List Char := "0.00000000000000000000000007038530691851209".toList

theorem f32_exact_text_ok_at_F11 :
    ConstOK Float.asmFloat (fun _ => false) (.float 4 0x15ae43fd f11TextFixed) ∧
    ConstOK Float.asmFloat (fun _ => false) (.float 4 0x95ae43fd ('-' :: f11TextFixed)) :=
  ⟨⟨Or.inl rfl, by decide +kernel⟩, ⟨Or.inl rfl, by decide +kernel⟩⟩

/-- Non-vacuity of the float side condition: ordinary values satisfy it. -/
example : ConstOK Float.asmFloat (fun _ => false) (.float 4 0x3dcccccd "0.1".toList) := by
  refine ⟨Or.inl rfl, by decide +kernel⟩
example : ConstOK Float.asmFloat (fun _ => false) (.float 8 0x8000000000000000 "-0.0".toList) := by
  refine ⟨Or.inr rfl, by decide +kernel⟩

end Avo.Data
