/-
C14 — input-level sufficient conditions for `Printable` (the size clauses of
`Printable` are stated on the synthesised expression; here they are derived from
counts over the constraint set itself).
-/
import AvoVerif.Props.C14
namespace Avo.Tags

theorem utf8Len_cons (c : Char) (s : Str) : utf8Len (c :: s) = c.utf8Size + utf8Len s := by
  have : c :: s = [c] ++ s := rfl
  rw [this, utf8Len_append]
  simp [utf8Len]

/-- Weight of an expression: bytes of its tags, 8 per tag (operator and
parentheses), 3 per negation. -/
def Expr.weight : Expr → Nat
  | .tag t => utf8Len t + 8
  | .not x => x.weight + 3
  | .and x y => x.weight + y.weight
  | .or x y => x.weight + y.weight

theorem utf8Len_print_le (e : Expr) : utf8Len e.print + 8 ≤ e.weight := by
  induction e with
  | tag t => simp [Expr.print, Expr.weight]
  | not x ih =>
    have hb : '!'.utf8Size = 1 := by decide
    have hp : '('.utf8Size = 1 := by decide
    have hq : utf8Len [')'] = 1 := by decide
    cases x <;>
      simp only [Expr.print, Expr.weight, utf8Len_cons, utf8Len_append, hb, hp, hq] at ih ⊢ <;> omega
  | and x y ihx ihy =>
    have h4 : utf8Len [' ', '&', '&', ' '] = 4 := by decide
    have hp : '('.utf8Size = 1 := by decide
    have hq : utf8Len [')'] = 1 := by decide
    cases x <;> cases y <;>
      simp only [Expr.print, Expr.weight, utf8Len_cons, utf8Len_append, h4, hp, hq] at ihx ihy ⊢ <;> omega
  | or x y ihx ihy =>
    have h4 : utf8Len [' ', '|', '|', ' '] = 4 := by decide
    have hp : '('.utf8Size = 1 := by decide
    have hq : utf8Len [')'] = 1 := by decide
    cases x <;> cases y <;>
      simp only [Expr.print, Expr.weight, utf8Len_cons, utf8Len_append, h4, hp, hq] at ihx ihy ⊢ <;> omega

theorem weight_andAll (x : Expr) (ys : List Expr) :
    (andAll x ys).weight = x.weight + (ys.map Expr.weight).sum := by
  induction ys generalizing x with
  | nil => simp [andAll]
  | cons y ys ih => simp [andAll, ih, Expr.weight, Nat.add_assoc]

theorem weight_orAll (x : Expr) (ys : List Expr) :
    (orAll x ys).weight = x.weight + (ys.map Expr.weight).sum := by
  induction ys generalizing x with
  | nil => simp [orAll]
  | cons y ys ih => simp [orAll, ih, Expr.weight, Nat.add_assoc]

theorem weight_litExpr (tc : Char → Bool) (t : Term) (h : validTerm tc t = true) :
    (litExpr tc t).weight ≤ utf8Len t + 10 := by
  rw [litExpr_valid tc t h]
  rcases name_cases t with ⟨ht, hn⟩ | ⟨ht, hn⟩
  · have : utf8Len t = 1 + utf8Len (name t) := by
      conv => lhs; rw [ht]
      rw [utf8Len_cons]; have : '!'.utf8Size = 1 := by decide
      omega
    simp only [hn, if_true, Expr.weight]; omega
  · simp only [hn, Bool.false_eq_true, if_false, Expr.weight, ht]; omega

/-- Input-level weight: bytes of every term plus 10. -/
def optBytes (o : Opt) : Nat := (o.map (fun t => utf8Len t + 10)).sum
def lineBytes (c : Constraint) : Nat := (c.map optBytes).sum
def setBytes (cs : Constraints) : Nat := (cs.map lineBytes).sum

theorem weight_clauseExpr {tc : Char → Bool} (hs : SepFree tc) (o : Opt)
    (hv : termsValid tc o = true) (hne : o ≠ []) :
    (clauseExpr tc (optText o)).weight ≤ optBytes o := by
  unfold clauseExpr
  rw [split_optText hs o hv hne]
  have hall : ∀ t ∈ o, validTerm tc t = true := by simpa [termsValid] using hv
  have hsum : ∀ (ts : List Term), (∀ t ∈ ts, validTerm tc t = true) →
      ((ts.map (litExpr tc)).map Expr.weight).sum ≤ optBytes ts := by
    intro ts
    induction ts with
    | nil => intro _; simp [optBytes]
    | cons t ts ih =>
      intro h
      have h1 := weight_litExpr tc t (h t List.mem_cons_self)
      have h2 := ih (fun x hx => h x (List.mem_cons_of_mem _ hx))
      simp only [List.map_cons, List.sum_cons, optBytes] at h2 ⊢
      omega
  cases o with
  | nil => exact absurd rfl hne
  | cons t ts =>
    have h := hsum (t :: ts) hall
    simp only [List.map_cons, List.sum_cons] at h
    simp only [List.map_cons, weight_andAll]
    exact h

theorem weight_lineExpr {tc : Char → Bool} (hs : SepFree tc) (c : Constraint)
    (hv : optsValid tc c = true) (hne : ∀ o ∈ c, o ≠ []) (hc : c ≠ []) :
    (lineExpr tc c).weight ≤ lineBytes c := by
  have hall : ∀ o ∈ c, termsValid tc o = true := by simpa [optsValid] using hv
  have hsum : ∀ (os : List Opt), (∀ o ∈ os, termsValid tc o = true) → (∀ o ∈ os, o ≠ []) →
      ((os.map (fun o => clauseExpr tc (optText o))).map Expr.weight).sum ≤ lineBytes os := by
    intro os
    induction os with
    | nil => intros; simp [lineBytes]
    | cons o os ih =>
      intro h1 h2
      have a := weight_clauseExpr hs o (h1 o List.mem_cons_self) (h2 o List.mem_cons_self)
      have b := ih (fun x hx => h1 x (List.mem_cons_of_mem _ hx)) (fun x hx => h2 x (List.mem_cons_of_mem _ hx))
      simp only [List.map_cons, List.sum_cons, lineBytes] at b ⊢
      omega
  unfold lineExpr
  cases c with
  | nil => exact absurd rfl hc
  | cons o os =>
    have h := hsum (o :: os) hall hne
    simp only [List.map_cons, List.sum_cons] at h
    simp only [List.map_cons, weight_orAll]
    exact h

theorem weight_header {tc : Char → Bool} (hs : SepFree tc) (c : Constraint) (cs : Constraints)
    (hv : setValid tc (c :: cs) = true) (hne : ∀ c' ∈ c :: cs, ∀ o ∈ c', o ≠ [])
    (hcne : ∀ c' ∈ c :: cs, c' ≠ []) :
    (andAll (lineExpr tc c) (cs.map (lineExpr tc))).weight ≤ setBytes (c :: cs) := by
  have hall : ∀ c' ∈ c :: cs, optsValid tc c' = true := by simpa [setValid] using hv
  have hsum : ∀ (l : Constraints), (∀ c' ∈ l, optsValid tc c' = true) → (∀ c' ∈ l, ∀ o ∈ c', o ≠ []) →
      (∀ c' ∈ l, c' ≠ []) → ((l.map (lineExpr tc)).map Expr.weight).sum ≤ setBytes l := by
    intro l
    induction l with
    | nil => intros; simp [setBytes]
    | cons a l ih =>
      intro h1 h2 h3
      have x := weight_lineExpr hs a (h1 a List.mem_cons_self) (h2 a List.mem_cons_self) (h3 a List.mem_cons_self)
      have y := ih (fun x hx => h1 x (List.mem_cons_of_mem _ hx)) (fun x hx => h2 x (List.mem_cons_of_mem _ hx))
        (fun x hx => h3 x (List.mem_cons_of_mem _ hx))
      simp only [List.map_cons, List.sum_cons, setBytes] at y ⊢
      omega
  have h := hsum (c :: cs) hall hne hcne
  simp only [List.map_cons, List.sum_cons] at h
  rw [weight_andAll]
  exact h

/-- **Input-level sufficient conditions for `Printable`.**  A set that avo
validates, with at most 101 terms per line, at most 500 terms in all (twice the
number is the bound on parser operands) and whose terms take, with 10 bytes of
syntax each, less than 64 KiB, is printable: `tags_equiv` applies. -/
theorem printable_of_bounds {tc : Char → Bool} (hs : SepFree tc) (cs : Constraints)
    (hvalid : validate tc cs = true)
    (hline : ∀ c ∈ cs, termCount c ≤ maxOldSize + 1)
    (htotal : 2 * sizeBound cs ≤ maxSize + 1)
    (hbytes : setBytes cs + 3 < scanLimit) :
    Printable tc cs := by
  refine ⟨hvalid, hline, ?_, ?_⟩
  · intro e he
    cases cs with
    | nil => simp [headerExpr] at he
    | cons c cs =>
      simp only [headerExpr, Option.some.injEq] at he
      subst he
      exact header_psize hs c cs hvalid htotal
  · intro e he
    cases cs with
    | nil => simp [headerExpr] at he
    | cons c cs =>
      simp only [headerExpr, Option.some.injEq] at he
      subst he
      obtain ⟨hcne, hne, hv⟩ := (validate_iff tc (c :: cs)).mp hvalid
      have h1 := weight_header hs c cs hv hne hcne
      have h2 := utf8Len_print_le (andAll (lineExpr tc c) (cs.map (lineExpr tc)))
      rw [utf8Len_append]
      have : utf8Len goBuildPrefix = 11 := by decide
      omega

/-- Non-vacuity: the example set meets the input-level conditions. -/
example : Printable asciiTag exampleCs :=
  printable_of_bounds sepFree_ascii exampleCs (by decide) (by decide) (by decide) (by decide)

end Avo.Tags
