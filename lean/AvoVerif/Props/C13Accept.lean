/-
C13 — soundness of the executable acceptors of Model/DataAccept.lean (the
functions the driver applies to the IMPLEMENTATION'S OWN output) with respect
to the declarative statements of Props/C13.lean, end-to-end corollaries, and
witnesses of the findings.
-/
import AvoVerif.Props.C13
import AvoVerif.Model.DataAccept
namespace Avo.Data
open Avo.NumText

/-! ### accept-data -/

theorem shareB_iff (d o : Datum) : shareB d o = true ↔ ShareByte d o := by
  unfold shareB ShareByte Datum.Mem Datum.lo Datum.hi
  simp only [Bool.and_eq_true, decide_eq_true_iff]
  constructor
  · intro h
    by_cases c : d.off ≤ o.off
    · exact ⟨o.off, by omega, by omega⟩
    · exact ⟨d.off, by omega, by omega⟩
  · rintro ⟨p, hd, ho⟩
    refine ⟨⟨⟨?_, ?_⟩, ?_⟩, ?_⟩ <;> omega

theorem pairwiseB_sound (data : List Datum) (h : pairwiseB data = true) :
    data.Pairwise (fun a b => ¬ ShareByte a b) := by
  induction data with
  | nil => exact List.Pairwise.nil
  | cons d ds ih =>
    simp only [pairwiseB, Bool.and_eq_true, Bool.not_eq_true'] at h
    refine List.Pairwise.cons ?_ (ih h.2)
    intro o ho hs
    have : ds.any (shareB d) = true := List.any_eq_true.mpr ⟨o, ho, (shareB_iff d o).mpr hs⟩
    rw [h.1] at this; cases this

/-- What `accept-data` establishes about the final state the implementation
reports: the invariant of `data_disjoint` (data pairwise byte-disjoint and
inside `[0, size)`), every `Grow` honoured, and the size attained. -/
structure LayoutOK (data : List Datum) (size : Int) (grows : List Int) : Prop where
  inv : Inv ⟨data, size⟩
  grows_le : ∀ n ∈ grows, n ≤ size
  attained : size = 0 ∨ (∃ d ∈ data, d.hi = size) ∨ size ∈ grows

theorem layoutB_sound (data : List Datum) (size : Int) (grows : List Int)
    (h : layoutB data size grows = true) : LayoutOK data size grows := by
  simp only [layoutB, Bool.and_eq_true, Bool.or_eq_true, decide_eq_true_eq, List.all_eq_true,
    List.any_eq_true, beq_iff_eq, List.contains_iff_mem] at h
  obtain ⟨⟨⟨⟨h0, hp⟩, hb⟩, hg⟩, ha⟩ := h
  refine ⟨⟨h0, ?_, pairwiseB_sound data hp⟩, hg, ?_⟩
  · intro d hd
    have := hb d hd
    simp only [Datum.lo] at this
    exact this
  · rcases ha with (ha | ha) | ha
    · exact Or.inl ha
    · exact Or.inr (Or.inl ha)
    · exact Or.inr (Or.inr ha)

/-- **accept-data is sound.**  When the acceptor answers `ok` on the
implementation's decisions and final state, that state satisfies the layout
clauses of the property … -/
theorem acceptData_sound (ops : List AOp) (flags : List Bool) (data : List Datum) (size : Int)
    (h : acceptData ops flags data size = true) : LayoutOK data size (growsOf ops) := by
  simp only [acceptData, Bool.and_eq_true] at h
  exact layoutB_sound _ _ _ h.1

/-- … and therefore its image holds every constant at its offset, little-endian,
and zero elsewhere (`data_image`). -/
theorem acceptData_image (ops : List AOp) (flags : List Bool) (data : List Datum) (size : Int)
    (h : acceptData ops flags data size = true) :
    let g : Global := ⟨data, size⟩
    (image g).length = size.toNat ∧
    (∀ d ∈ data, ∀ i, i < d.val.size → (image g)[d.off.toNat + i]? = some (d.val.enc.getD i 0)) ∧
    (∀ k, k < size.toNat → (∀ d ∈ data, ¬ d.Mem (Int.ofNat k)) → (image g)[k]? = some 0) :=
  data_image ⟨data, size⟩ (acceptData_sound ops flags data size h).inv

/-- An accepted placement at a negative offset is never `ok`. -/
theorem acceptData_rejects_negative (ops : List AOp) (flags : List Bool) (data : List Datum) (size : Int)
    (d : Datum) (hd : d ∈ data) (hneg : d.off < 0) : acceptData ops flags data size = false := by
  cases h : acceptData ops flags data size with
  | false => rfl
  | true =>
    have := ((acceptData_sound ops flags data size h).inv.bounds d hd).1
    omega

/-! ### accept-data agrees with the model -/

theorem addIf_nil (c : Bool) (ps : List String) (m : String) (h : addIf c ps m = []) : ps = [] ∧ c = false := by
  unfold addIf at h
  cases c with
  | true => simp at h
  | false => simpa using h

/-- problems are only ever added -/
theorem replay_nil (ops : List AOp) (fs : List Bool) (acc : List Datum) (cur : Int) (ps : List String)
    (h : (replay ops fs acc cur ps).1 = []) : ps = [] := by
  induction ops generalizing fs acc cur ps with
  | nil =>
    cases fs with
    | nil => simpa [replay] using h
    | cons f fs => simp [replay] at h
  | cons op ops ih =>
    cases fs with
    | nil => cases op <;> simp [replay] at h
    | cons f fs =>
      cases op with
      | place off v =>
        cases f with
        | true =>
          simp only [replay, if_true] at h
          exact (addIf_nil _ _ _ (addIf_nil _ _ _ (ih _ _ _ _ h)).1).1
        | false =>
          simp only [replay, Bool.false_eq_true, if_false] at h
          exact (addIf_nil _ _ _ (ih _ _ _ _ h)).1
      | append off v =>
        simp only [replay] at h
        exact (addIf_nil _ _ _ (addIf_nil _ _ _ (addIf_nil _ _ _ (ih _ _ _ _ h)).1).1).1
      | grow n =>
        simp only [replay] at h
        exact (addIf_nil _ _ _ (ih _ _ _ _ h)).1

def AOp.constPos : AOp → Prop
  | .place _ v => 0 < v.size
  | .append _ v => 0 < v.size
  | .grow _ => True

def AOp.nonneg : AOp → Prop
  | .place off _ => 0 ≤ off
  | _ => True

theorem overlaps_shareB (d o : Datum) (hd : 0 < d.val.size) (ho : 0 < o.val.size)
    (h : overlaps d o = true) : shareB d o = true := by
  rw [overlaps_iff] at h
  unfold shareB
  simp only [Bool.and_eq_true, decide_eq_true_iff]
  exact ⟨⟨⟨hd, ho⟩, h.1⟩, h.2⟩

theorem any_overlaps_shareB (acc : List Datum) (d : Datum) (hd : 0 < d.val.size)
    (hacc : ∀ o ∈ acc, 0 < o.val.size) (h : acc.any (shareB d) = false) : acc.any (overlaps d) = false := by
  rw [List.any_eq_false] at h ⊢
  intro o ho hov
  exact h o ho (overlaps_shareB d o hd (hacc o ho) hov)

/-- **The acceptor is as strong as the exact model** (for non-empty constants
at non-negative offsets, where the property leaves no freedom): when the replay
of the implementation's decisions finds no problem, the decisions are exactly
those of the model `run`, and so are the data accepted and the furthest extent. -/
theorem replay_agrees (ops : List AOp) (fs : List Bool) (acc : List Datum) (cur : Int)
    (hpos : ∀ op ∈ ops, op.constPos) (hnn : ∀ op ∈ ops, op.nonneg) (hacc : ∀ o ∈ acc, 0 < o.val.size)
    (h : (replay ops fs acc cur []).1 = []) :
    fs = (run ⟨acc, cur⟩ (ops.map AOp.untag)).2 ∧
    (replay ops fs acc cur []).2.1 = (run ⟨acc, cur⟩ (ops.map AOp.untag)).1.data ∧
    (replay ops fs acc cur []).2.2 = (run ⟨acc, cur⟩ (ops.map AOp.untag)).1.size := by
  induction ops generalizing fs acc cur with
  | nil =>
    cases fs with
    | nil => simp [replay, run]
    | cons f fs => simp [replay] at h
  | cons op ops ih =>
    have hpos' : ∀ op ∈ ops, op.constPos := fun o ho => hpos o (List.mem_cons_of_mem _ ho)
    have hnn' : ∀ op ∈ ops, op.nonneg := fun o ho => hnn o (List.mem_cons_of_mem _ ho)
    have hp0 := hpos op List.mem_cons_self
    have hn0 := hnn op List.mem_cons_self
    cases fs with
    | nil => cases op <;> simp [replay] at h
    | cons f fs =>
      cases op with
      | place off v =>
        simp only [AOp.constPos] at hp0
        simp only [AOp.nonneg] at hn0
        cases f with
        | true =>
          simp only [replay, if_true] at h ⊢
          have hps := replay_nil _ _ _ _ _ h
          obtain ⟨hps2, hsh⟩ := addIf_nil _ _ _ hps
          rw [hps] at h
          have hov : acc.any (overlaps ⟨off, v⟩) = false := any_overlaps_shareB acc ⟨off, v⟩ hp0 hacc hsh
          have hacc' : ∀ o ∈ acc ++ [(⟨off, v⟩ : Datum)], 0 < o.val.size := by
            intro o ho
            rcases List.mem_append.mp ho with ho | ho
            · exact hacc o ho
            · rw [List.mem_singleton.mp ho]; exact hp0
          have := ih fs (acc ++ [⟨off, v⟩]) (max cur (Datum.hi ⟨off, v⟩)) hpos' hnn' hacc' h
          have hstep : step ⟨acc, cur⟩ (.place off v) = (⟨acc ++ [⟨off, v⟩], max cur (Datum.hi ⟨off, v⟩)⟩, true) := by
            have hs := add_spec ⟨acc, cur⟩ ⟨off, v⟩
            simp only [step, addDatum, hov, Bool.false_eq_true, if_false]
            congr 1
            cases hg : add ⟨acc, cur⟩ ⟨off, v⟩ with
            | mk dt sz =>
              rw [hg] at hs
              simp only at hs
              rw [hs.1, hs.2]
          simp only [List.map_cons, AOp.untag, run, hstep, hps]
          exact ⟨by rw [this.1], this.2.1, this.2.2⟩
        | false =>
          simp only [replay, Bool.false_eq_true, if_false] at h ⊢
          have hps := replay_nil _ _ _ _ _ h
          obtain ⟨_, hc⟩ := addIf_nil _ _ _ hps
          rw [hps] at h
          have hov : acc.any (overlaps ⟨off, v⟩) = true := by
            have hneg : decide (off < 0) = false := by simp; omega
            simpa [hneg] using hc
          have := ih fs acc cur hpos' hnn' hacc h
          have hstep : step ⟨acc, cur⟩ (.place off v) = (⟨acc, cur⟩, false) := by
            simp only [step, addDatum, hov, if_true]
          simp only [List.map_cons, AOp.untag, run, hstep, hps]
          exact ⟨by rw [this.1], this.2.1, this.2.2⟩
      | append off v =>
        simp only [AOp.constPos] at hp0
        simp only [replay] at h ⊢
        have hps := replay_nil _ _ _ _ _ h
        obtain ⟨hps2, _⟩ := addIf_nil _ _ _ hps
        obtain ⟨hps3, hoff⟩ := addIf_nil _ _ _ hps2
        obtain ⟨_, hf⟩ := addIf_nil _ _ _ hps3
        rw [hps] at h
        have hoff' : off = cur := by simpa using hoff
        have hf' : f = true := by simpa using hf
        subst hoff' hf'
        have hacc' : ∀ o ∈ acc ++ [(⟨off, v⟩ : Datum)], 0 < o.val.size := by
          intro o ho
          rcases List.mem_append.mp ho with ho | ho
          · exact hacc o ho
          · rw [List.mem_singleton.mp ho]; exact hp0
        have := ih fs (acc ++ [⟨off, v⟩]) (max off (Datum.hi ⟨off, v⟩)) hpos' hnn' hacc' h
        have hstep : step ⟨acc, off⟩ (.append v) = (⟨acc ++ [⟨off, v⟩], max off (Datum.hi ⟨off, v⟩)⟩, true) := by
          have hs := add_spec ⟨acc, off⟩ ⟨off, v⟩
          simp only [step, append]
          congr 1
          cases hg : add ⟨acc, off⟩ ⟨off, v⟩ with
          | mk dt sz =>
            rw [hg] at hs
            simp only at hs
            rw [hs.1, hs.2]
        simp only [List.map_cons, AOp.untag, run, hstep, hps]
        exact ⟨by rw [this.1], this.2.1, this.2.2⟩
      | grow n =>
        simp only [replay] at h ⊢
        have hps := replay_nil _ _ _ _ _ h
        obtain ⟨_, hf⟩ := addIf_nil _ _ _ hps
        rw [hps] at h
        have hf' : f = true := by simpa using hf
        subst hf'
        have := ih fs acc (max cur n) hpos' hnn' hacc h
        have hstep : step ⟨acc, cur⟩ (.grow n) = (⟨acc, max cur n⟩, true) := by
          have hs := grow_size ⟨acc, cur⟩ n
          simp only [step]
          congr 1
          cases hg : grow ⟨acc, cur⟩ n with
          | mk dt sz =>
            rw [hg] at hs
            simp only at hs
            rw [hs.1, hs.2]
        simp only [List.map_cons, AOp.untag, run, hstep, hps]
        exact ⟨by rw [this.1], this.2.1, this.2.2⟩

theorem removeFirst_perm (w : Datum) (l rest : List Datum)
    (h : removeFirst (fun d => d == w) l = some rest) : l.Perm (w :: rest) := by
  induction l generalizing rest with
  | nil => simp [removeFirst] at h
  | cons x xs ih =>
    simp only [removeFirst] at h
    by_cases c : (x == w) = true
    · simp only [c, if_true, Option.some.injEq] at h
      have : x = w := by simpa using c
      subst this; subst h
      exact List.Perm.refl _
    · simp only [c, Bool.false_eq_true, if_false] at h
      cases hr : removeFirst (fun d => d == w) xs with
      | none => simp [hr] at h
      | some r =>
        simp only [hr, Option.map_some, Option.some.injEq] at h
        subst h
        exact ((ih r hr).cons x).trans (List.Perm.swap w x r)

theorem matchAll_perm (want have_ : List Datum) (h : matchAll want have_ = true) : want.Perm have_ := by
  induction want generalizing have_ with
  | nil =>
    simp only [matchAll, List.isEmpty_iff] at h
    subst h; exact List.Perm.refl _
  | cons w ws ih =>
    simp only [matchAll] at h
    cases hr : removeFirst (fun d => d == w) have_ with
    | none => simp [hr] at h
    | some rest =>
      simp only [hr] at h
      exact ((ih rest h).cons w).trans (removeFirst_perm w have_ rest hr).symm

/-- **accept-data agrees with the model.**  For call sequences whose constants
are non-empty and whose placements are at non-negative offsets, `ok` means: the
implementation's accept/reject decisions are exactly the model's, its size is
the model's, and its data list is a permutation of the model's.  Every theorem
about `run` (`data_disjoint`, `overlap_rejected`, `data_image`) therefore holds
of the implementation's output on that input. -/
theorem acceptData_agrees_with_model (ops : List AOp) (flags : List Bool) (data : List Datum) (size : Int)
    (hpos : ∀ op ∈ ops, op.constPos) (hnn : ∀ op ∈ ops, op.nonneg)
    (h : acceptData ops flags data size = true) :
    flags = (run {} (ops.map AOp.untag)).2 ∧
    size = (run {} (ops.map AOp.untag)).1.size ∧
    (run {} (ops.map AOp.untag)).1.data.Perm data := by
  simp only [acceptData, Bool.and_eq_true, rawProblems, List.isEmpty_iff, List.append_eq_nil_iff] at h
  obtain ⟨_, hr, hf⟩ := h
  have ha := replay_agrees ops flags [] 0 hpos hnn (by simp) hr
  unfold finalProblems at hf
  obtain ⟨h1, hsz⟩ := addIf_nil _ _ _ hf
  obtain ⟨h2, _⟩ := addIf_nil _ _ _ h1
  obtain ⟨h3, _⟩ := addIf_nil _ _ _ h2
  obtain ⟨h4, _⟩ := addIf_nil _ _ _ h3
  obtain ⟨_, hm⟩ := addIf_nil _ _ _ h4
  have hsz' : size = (replay ops flags [] 0 []).2.2 := by simpa using hsz
  have hm' : matchAll (replay ops flags [] 0 []).2.1 data = true := by simpa using hm
  refine ⟨ha.1, ?_, ?_⟩
  · rw [hsz', ha.2.2]
  · have := matchAll_perm _ _ hm'
    rw [ha.2.1] at this
    exact this


/-! ### accept-lines / accept-asm -/

/-- **accept-lines is sound** (by definition of the acceptor): `ok` iff the
assembler model turns the implementation's printed lines into the image of the
section it reports. -/
theorem acceptLines_sound (texts : List DataText × List Char) (g : Global) :
    acceptLines texts g = true ↔ assemble Avo.Float.asmFloat texts = some (image g) := by
  simp [acceptLines]

/-- **accept-asm is sound**: `ok` iff the bytes read from the running binary are the image. -/
theorem acceptBytes_sound (bytes : List Nat) (g : Global) : acceptBytes bytes g = true ↔ bytes = image g := by
  simp [acceptBytes]

/-- **End to end on the implementation's output.**  If the decisions and the
final state pass `accept-data` and the measured bytes pass `accept-asm`, then
the assembled symbol has `size` bytes, holds the little-endian encoding of each
constant at the offset it was placed, and zero elsewhere. -/
theorem measured_symbol_holds_constants (ops : List AOp) (flags : List Bool) (data : List Datum)
    (size : Int) (bytes : List Nat)
    (hd : acceptData ops flags data size = true) (hb : acceptBytes bytes ⟨data, size⟩ = true) :
    bytes.length = size.toNat ∧
    (∀ d ∈ data, ∀ i, i < d.val.size → bytes[d.off.toNat + i]? = some (d.val.enc.getD i 0)) ∧
    (∀ k, k < size.toNat → (∀ d ∈ data, ¬ d.Mem (Int.ofNat k)) → bytes[k]? = some 0) := by
  rw [(acceptBytes_sound bytes ⟨data, size⟩).mp hb]
  exact acceptData_image ops flags data size hd

/-! ### The statement in the configuration the implementation uses -/

/-- Side conditions with the real printer (`$%+q`: nothing printed raw) and the
executable assembler model for floats. -/
def ConstOKReal : Const → Prop
  | .int ty v => ty ∈ intTypes ∧ ty.InRange v
  | .float n bits text => (n = 4 ∨ n = 8) ∧ Avo.Float.asmFloat text n = some bits
  | .str bs => ∀ b ∈ bs, b < 256

theorem constOKReal (c : Const) (h : ConstOKReal c) : ConstOK Avo.Float.asmFloat (fun _ => false) c := by
  cases c with
  | int ty v => exact h
  | float n bits text => exact h
  | str bs => exact constOK_str _ bs h

/-- `data_end_to_end` specialised to what avo does (`String.Asm` = `$%+q`) and
to the executable assembler model: only the float hypothesis is measured. -/
theorem data_end_to_end_real (ops : List Op) (hs : InScope ops)
    (hm : monotone (run {} ops).1.data 0 = true)
    (hc : ∀ d ∈ (run {} ops).1.data, ConstOKReal d.val) :
    assemble Avo.Float.asmFloat ((run {} ops).1.texts (fun _ => false)) = some (image (run {} ops).1) :=
  data_end_to_end _ _ ops hs hm (fun d hd => constOKReal d.val (hc d hd))

example : ∀ d ∈ (run {} exOps2).1.data, ConstOKReal d.val := by
  have hd : (run {} exOps2).1.data =
      [⟨0, .int U32 1⟩, ⟨4, .float 4 0x3dcccccd "0.1".toList⟩, ⟨8, .str [0x41, 0]⟩] := by decide
  rw [hd]
  intro d h
  simp only [List.mem_cons, List.not_mem_nil, or_false] at h
  rcases h with h | h | h <;> subst h
  · exact ⟨by decide, by decide⟩
  · exact ⟨Or.inl rfl, by decide +kernel⟩
  · intro b hb
    simp only [List.mem_cons, List.not_mem_nil, or_false] at hb
    rcases hb with hb | hb <;> subst hb <;> decide

/-! ### Non-vacuity and witnesses -/

/-- the acceptor accepts what the model does on `exOps` (appends tagged with the model's offsets) -/
def exAOps : List AOp :=
  [.place 0 (.int U32 0xdeadbeef), .place 8 (.int I16 (-2)), .place 2 (.int U8 1),
   .append 10 (.str [0x61, 0x22, 0]), .grow 16, .place 4 (.int I32 5)]

example : acceptData exAOps (run {} exOps).2 (run {} exOps).1.data (run {} exOps).1.size = true := by decide

instance (op : AOp) : Decidable op.constPos := by cases op <;> unfold AOp.constPos <;> exact inferInstance
instance (op : AOp) : Decidable op.nonneg := by cases op <;> unfold AOp.nonneg <;> exact inferInstance

/-- the hypotheses of `acceptData_agrees_with_model` hold of `exAOps`, whose model view is `exOps` -/
example : (∀ op ∈ exAOps, op.constPos) ∧ (∀ op ∈ exAOps, op.nonneg) ∧ exAOps.map AOp.untag = exOps := by decide
example : acceptBytes [0xef, 0xbe, 0xad, 0xde, 5, 0, 0, 0, 0xfe, 0xff, 0x61, 0x22, 0, 0, 0, 0]
    ⟨(run {} exOps).1.data, (run {} exOps).1.size⟩ = true := by decide
/-- and rejects wrong decisions: an overlapping placement accepted, a spurious rejection, a wrong size -/
example : dataVerdict [.place 0 (.int U32 1), .place 2 (.int U8 1)] [true, true]
    [⟨0, .int U32 1⟩, ⟨2, .int U8 1⟩] 4 = "bad-overlap-accepted+bad-overlap-in-section" := by decide
example : dataVerdict [.place 0 (.int U32 1), .place 4 (.int U8 1)] [true, false] [⟨0, .int U32 1⟩] 4 =
    "bad-spurious-reject" := by decide
example : dataVerdict [.place 0 (.int U32 1)] [true] [⟨0, .int U32 1⟩] 8 = "bad-size-not-furthest-extent" := by decide
example : dataVerdict [.append 1 (.int U8 1)] [true] [⟨1, .int U8 1⟩] 2 = "bad-append-offset" := by decide

/-! ### accept-data never rejects what the model does (no false alarm) -/

/-- The model's calls as the acceptor sees them: an append tagged with the offset the model gives it. -/
def tag : Global → List Op → List AOp
  | _, [] => []
  | g, .place off v :: ops => .place off v :: tag (step g (.place off v)).1 ops
  | g, .append v :: ops => .append g.size v :: tag (step g (.append v)).1 ops
  | g, .grow n :: ops => .grow n :: tag (step g (.grow n)).1 ops

theorem shareB_overlaps (d o : Datum) (h : shareB d o = true) : overlaps d o = true :=
  shareByte_overlaps d o ((shareB_iff d o).mp h)

theorem addIf_false (ps : List String) (m : String) : addIf false ps m = ps := rfl

theorem mk_eta (g : Global) : (⟨g.data, g.size⟩ : Global) = g := by cases g; rfl

theorem replay_model (ops : List Op) (g : Global) (ps : List String) (hi : Inv g) (hs : InScope ops) :
    replay (tag g ops) (run g ops).2 g.data g.size ps = (ps, (run g ops).1.data, (run g ops).1.size) := by
  induction ops generalizing g ps with
  | nil => simp [tag, run, replay]
  | cons op ops ih =>
    have hs' : InScope ops := fun off v hm => hs off v (List.mem_cons_of_mem _ hm)
    have hi' : Inv (step g op).1 := inv_step g op hi (fun off v e => hs off v (by rw [e]; exact List.mem_cons_self))
    cases op with
    | place off v =>
      have h0 : 0 ≤ off := hs off v List.mem_cons_self
      have hneg : decide (off < 0) = false := by simp; omega
      cases hov : g.data.any (overlaps ⟨off, v⟩) with
      | true =>
        have hst : step g (.place off v) = (g, false) := by simp [step, addDatum, hov]
        simp only [tag, run, hst, replay, Bool.false_eq_true, if_false, hov, Bool.or_true, Bool.not_true, addIf_false]
        rw [hst] at hi'
        exact ih g ps hi' hs'
      | false =>
        have hst : step g (.place off v) = (add g ⟨off, v⟩, true) := by simp [step, addDatum, hov]
        have hsh : g.data.any (shareB ⟨off, v⟩) = false := by
          rw [List.any_eq_false] at hov ⊢
          intro o ho hsb
          exact hov o ho (shareB_overlaps _ o hsb)
        obtain ⟨hsz, hdt⟩ := add_spec g ⟨off, v⟩
        rw [hst] at hi'
        have := ih (add g ⟨off, v⟩) ps hi' hs'
        simp only [tag, run, hst, replay, if_true, hsh, hneg, addIf_false]
        rw [hdt, hsz] at this
        exact this
    | append v =>
      obtain ⟨hsz, hdt⟩ := add_spec g ⟨g.size, v⟩
      have hst : step g (.append v) = (add g ⟨g.size, v⟩, true) := rfl
      have hsh : g.data.any (shareB ⟨g.size, v⟩) = false := by
        rw [List.any_eq_false]
        intro o ho hsb
        have hb := (hi.bounds o ho).2
        have hov := (overlaps_iff _ _).mp (shareB_overlaps _ o hsb)
        unfold Datum.lo Datum.hi at hov
        unfold Datum.hi at hb
        simp only at hov
        omega
      rw [hst] at hi'
      have := ih (add g ⟨g.size, v⟩) ps hi' hs'
      have hne : decide (g.size ≠ g.size) = false := by simp
      simp only [tag, run, hst, replay, hsh, hne, Bool.not_true, addIf_false]
      rw [hdt, hsz] at this
      exact this
    | grow n =>
      obtain ⟨hsz, hdt⟩ := grow_size g n
      have hst : step g (.grow n) = (grow g n, true) := rfl
      rw [hst] at hi'
      have := ih (grow g n) ps hi' hs'
      simp only [tag, run, hst, replay, Bool.not_true, addIf_false]
      rw [hdt, hsz] at this
      exact this

theorem removeFirst_head (w : Datum) (ws : List Datum) : removeFirst (fun d => d == w) (w :: ws) = some ws := by
  simp [removeFirst]

theorem matchAll_refl (l : List Datum) : matchAll l l = true := by
  induction l with
  | nil => rfl
  | cons w ws ih => simp only [matchAll, removeFirst_head, ih]

theorem pairwiseB_complete (data : List Datum) (h : data.Pairwise (fun a b => ¬ ShareByte a b)) :
    pairwiseB data = true := by
  induction data with
  | nil => rfl
  | cons d ds ih =>
    rw [List.pairwise_cons] at h
    simp only [pairwiseB, Bool.and_eq_true, Bool.not_eq_true']
    refine ⟨?_, ih h.2⟩
    rw [List.any_eq_false]
    intro o ho hsb
    exact h.1 o ho ((shareB_iff d o).mp hsb)

theorem mem_growsOf_tag (ops : List Op) (g : Global) (n : Int) : n ∈ growsOf (tag g ops) ↔ Op.grow n ∈ ops := by
  induction ops generalizing g with
  | nil => simp [tag, growsOf]
  | cons op ops ih =>
    cases op with
    | place off v => simp [tag, growsOf, ih]
    | append v => simp [tag, growsOf, ih]
    | grow m =>
      simp only [tag, growsOf, List.mem_cons, ih, Op.grow.injEq]

/-- **No false alarm from accept-data**: on every in-scope call sequence, the
decisions, data and size of the MODEL pass the acceptor.  Together with the
exact comparison of the implementation with the model on the same inputs, an
implementation that behaves like the model is never reported by `accept-data`. -/
theorem acceptData_complete (ops : List Op) (hs : InScope ops) :
    acceptData (tag {} ops) (run {} ops).2 (run {} ops).1.data (run {} ops).1.size = true := by
  have hi : Inv (run {} ops).1 := inv_run {} ops inv_init hs
  have hr := replay_model ops {} [] inv_init hs
  have hr' : replay (tag {} ops) (run {} ops).2 [] 0 [] = ([], (run {} ops).1.data, (run {} ops).1.size) := hr
  have hb : ∀ d ∈ (run {} ops).1.data, 0 ≤ d.off ∧ d.hi ≤ (run {} ops).1.size := hi.bounds
  have hpw := pairwiseB_complete _ hi.disjoint
  simp only [acceptData, Bool.and_eq_true, rawProblems, hr', List.nil_append, List.isEmpty_iff]
  constructor
  · -- layout
    simp only [layoutB, Bool.and_eq_true, Bool.or_eq_true, decide_eq_true_iff, List.all_eq_true,
      List.any_eq_true, beq_iff_eq, List.contains_iff_mem, hpw]
    refine ⟨⟨⟨⟨hi.size_nonneg, trivial⟩, ?_⟩, ?_⟩, ?_⟩
    · intro d hd; exact hb d hd
    · intro n hn
      exact run_grow_le {} ops n ((mem_growsOf_tag ops {} n).mp hn)
    · rcases run_attained {} ops with h | ⟨d, hd, he⟩ | ⟨n, hn, he⟩
      · exact Or.inl (Or.inl h)
      · exact Or.inl (Or.inr ⟨d, hd, he⟩)
      · exact Or.inr (by rw [← he]; exact (mem_growsOf_tag ops {} n).mpr hn)
  · -- final state
    have h1 : (run {} ops).1.data.any (fun d => decide ((run {} ops).1.size < d.hi)) = false := by
      rw [List.any_eq_false]; intro d hd; have := (hb d hd).2
      simp only [decide_eq_true_iff]; omega
    have h2 : (run {} ops).1.data.any (fun d => decide (d.lo < 0)) = false := by
      rw [List.any_eq_false]; intro d hd hlt; have := (hb d hd).1
      have hlt' := of_decide_eq_true hlt
      unfold Datum.lo at hlt'
      omega
    simp [finalProblems, matchAll_refl, hpw, h1, h2, addIf]

example : tag {} exOps = exAOps := by decide


/-- **Witness of finding C13-NEGOFF.**  The model of avo (`run`) accepts a
placement at offset -4 without complaint; no acceptor passes the result: the
section is not inside `[0, size)`, and the assembler model refuses the lines
(cmd/asm: `prepwrite: bad off=-4`, then a panic). -/
theorem negative_offset_witness :
    (run {} [.place (-4) (.int U32 1), .place 0 (.int U32 2)]).2 = [true, true] ∧
    dataVerdict [.place (-4) (.int U32 1), .place 0 (.int U32 2)] [true, true]
      [⟨-4, .int U32 1⟩, ⟨0, .int U32 2⟩] 4 = "bad-negative-offset-accepted" ∧
    assemble Avo.Float.asmFloat
      ((run {} [.place (-4) (.int U32 1), .place 0 (.int U32 2)]).1.texts (fun _ => false)) = none := by
  decide

/-- **A float literal without a decimal point is an integer for cmd/asm**
(issue 387; measured: `DATA x<>+0(SB)/4, $(2)` stores 02 00 00 00).  The
assembler model reads `2` as the integer 2, `-2` as its two's complement, and
only `2.0` as the float. -/
theorem dotless_float_text_is_integer :
    Avo.Float.asmFloat "2".toList 4 = some 2 ∧
    Avo.Float.asmFloat "-2".toList 4 = some 0xfffffffe ∧
    Avo.Float.asmFloat "2.0".toList 4 = some 0x40000000 ∧
    Avo.Float.asmFloat "-0".toList 8 = some 0 ∧
    Avo.Float.asmFloat "-0.0".toList 8 = some 0x8000000000000000 ∧
    ¬ ConstOKReal (.float 4 0x40000000 "2".toList) := by
  refine ⟨by decide +kernel, by decide +kernel, by decide +kernel, by decide +kernel, by decide +kernel, ?_⟩
  intro h
  have h2 : Avo.Float.asmFloat "2".toList 4 = some 2 := by decide +kernel
  simp only [ConstOKReal] at h
  rw [h2] at h
  exact absurd h.2 (by decide)

end Avo.Data
