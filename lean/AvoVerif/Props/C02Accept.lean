/-
C02: soundness and completeness of the function-level acceptor `acceptLive`
(the verdict of the driver's `accept-live` request) with respect to the path
specification `LiveInSpec` / `LiveOutSpec`.
-/
import AvoVerif.Props.C02Term
import AvoVerif.Props.C02UseDef
import AvoVerif.Model.LiveCheck
namespace Avo.Live
open Avo.Reg Avo.MaskSet Avo.LiveBool Avo.UseDef

theorem wf_of_wfb (P : LProg) (h : wfb P = true) : WF P := by
  intro i hi s hs
  unfold wfb at h
  rw [List.all_eq_true] at h
  have hmem : P.getD i default ∈ P.toList := by
    have : P.getD i default = P[i] := by simp [Array.getD_eq_getD_getElem?, hi]
    rw [this]; exact Array.mem_toList_iff.mpr (Array.getElem_mem hi)
  have h2 := h _ hmem
  rw [List.all_eq_true] at h2
  have h3 := h2 (some s) hs
  simpa using h3

private theorem bool_eq_iff (a b : Bool) (Q : Prop) (ha : a = true ↔ Q) : a = b ↔ (b = true ↔ Q) := by
  cases a <;> cases b <;> simp_all

/-- **The acceptor decides the property on the given input.** For a function
whose CFG is well formed, `acceptLive` answers `true` on reported live sets
`ins`, `outs` exactly when, for every instruction, register identity and byte
lane, the lane is reported live before (after) the instruction iff some path
from there reaches a read of it with no intervening overwrite. -/
theorem acceptLive_sound (P : LProg) (hwf : WF P) (ins outs : List MS) :
    acceptLive P ins outs = true ↔
      ∀ i, i < P.size → ∀ id lane,
        (mem (ins.getD i []) id lane = true ↔ LiveInSpec P i id lane) ∧
        (mem (outs.getD i []) id lane = true ↔ LiveOutSpec P i id lane) := by
  unfold acceptLive
  simp only [List.all_eq_true, List.mem_range, Bool.and_eq_true, sameLanes_iff_mem]
  constructor
  · intro h i hi id lane
    obtain ⟨h1, h2⟩ := h i hi
    exact ⟨(bool_eq_iff _ _ _ (liveness_exact_total P hwf i hi id lane)).mp (h1 id lane),
           (bool_eq_iff _ _ _ (liveout_exact_total P hwf i hi id lane)).mp (h2 id lane)⟩
  · intro h i hi
    exact ⟨fun id lane => (bool_eq_iff _ _ _ (liveness_exact_total P hwf i hi id lane)).mpr (h i hi id lane).1,
           fun id lane => (bool_eq_iff _ _ _ (liveout_exact_total P hwf i hi id lane)).mpr (h i hi id lane).2⟩

/-- The form the driver uses: well-formedness checked executably. -/
theorem acceptLive_sound_checked (P : LProg) (ins outs : List MS) (h : (wfb P && acceptLive P ins outs) = true) :
    ∀ i, i < P.size → ∀ id lane,
      (mem (ins.getD i []) id lane = true ↔ LiveInSpec P i id lane) ∧
      (mem (outs.getD i []) id lane = true ↔ LiveOutSpec P i id lane) := by
  rw [Bool.and_eq_true] at h
  exact (acceptLive_sound P (wf_of_wfb P h.1) ins outs).mp h.2

/-- Non-vacuity: the two-instruction loop of `Props/C02`; the exact live sets
are accepted, dropping `r1` (id 257) from `LiveOut` of the branch is rejected. -/
example :
    let P : LProg := #[⟨[⟨257, 15⟩], [⟨513, 15⟩], [some 1]⟩, ⟨[⟨513, 1⟩], [], [some 0, none]⟩]
    wfb P = true ∧
    acceptLive P [[(257, 15)], [(257, 15), (513, 1)]] [[(257, 15), (513, 1)], [(257, 15)]] = true ∧
    acceptLive P [[(257, 15)], [(257, 15), (513, 1)]] [[(257, 15), (513, 1)], []] = false := by
  decide +kernel

end Avo.Live
