/-
C10 — Clean-up passes never change what the function computes.
-/
import AvoVerif.Model.Cleanup
namespace Avo.Cleanup
open Avo.Func Avo.Reg

/-! ## Self-moves -/

theorem find_zip_map (f : Nat → Nat) (ls : List Nat) (l : Nat) (h : l ∈ ls) :
    (ls.zip (ls.map f)).find? (·.1 == l) = some (l, f l) := by
  induction ls with
  | nil => cases h
  | cons x xs ih =>
    simp only [List.map_cons, List.zip_cons_cons, List.find?_cons]
    by_cases hx : x = l
    · subst hx; simp
    · have : (x == l) = false := by simpa using hx
      simp only [this]
      rcases List.mem_cons.mp h with e | h'
      · exact absurd e.symm hx
      · exact ih h'

theorem find_zip_map_none (f : Nat → Nat) (ls : List Nat) (l : Nat) (h : l ∉ ls) :
    (ls.zip (ls.map f)).find? (·.1 == l) = none := by
  induction ls with
  | nil => rfl
  | cons x xs ih =>
    simp only [List.map_cons, List.zip_cons_cons, List.find?_cons]
    have hx : ¬ x = l := fun e => h (e ▸ List.mem_cons_self)
    have : (x == l) = false := by simpa using hx
    simp only [this]
    exact ih (fun hm => h (List.mem_cons_of_mem _ hm))

/-- Copying a register's lanes onto themselves changes nothing. -/
theorem writeLanes_self (σ : RegFile) (id mask : Nat) :
    writeLanes σ id ((lanesOf mask).zip ((lanesOf mask).map (σ id))) = σ := by
  funext i l
  unfold writeLanes
  by_cases hi : i = id
  · subst hi
    simp only [if_true]
    by_cases hl : l ∈ lanesOf mask
    · rw [find_zip_map _ _ _ hl]
    · rw [find_zip_map_none _ _ _ hl]
  · simp [hi]

/-- A move the pass deletes is never the zero-extending or the vector form. -/
theorem selfMove_kind (i : XInstr) (a : R) (h : isSelfMove i = true) (hops : i.ops = [.reg a, .reg a]) :
    movKind i.opcode a a = .plain ∨ movKind i.opcode a a = .notAMove := by
  unfold isSelfMove at h
  rw [hops] at h
  simp only [Bool.and_eq_true, Bool.or_eq_true, beq_iff_eq, decide_eq_true_eq] at h
  obtain ⟨hop, _, hk⟩ := h
  unfold movKind
  rcases hop with (hop | hop) | hop
  · rw [hop]; simp only [if_true]; split <;> simp
  · rw [hop]
    have : ¬ ("MOVW" = "MOVB") := by decide
    simp only [this, if_false, if_true]; split <;> simp
  · rw [hop]
    have h1 : ¬ ("MOVQ" = "MOVB") := by decide
    have h2 : ¬ ("MOVQ" = "MOVW") := by decide
    have h3 : ¬ ("MOVQ" = "MOVL") := by decide
    simp only [h1, h2, h3, if_false, if_true, hk, and_self]
    split <;> simp

/-- **C10 (self-moves).** An instruction the pass deletes has no architectural
effect: it is a move of a general purpose register onto itself, and for every
register file executing it leaves the file unchanged. -/
theorem prune_selfmov_ok (i : XInstr) (h : isSelfMove i = true) :
    ∃ r, i.ops = [.reg r, .reg r] ∧ ∀ σ σ', execMov i.opcode r r σ = some σ' → σ' = σ := by
  have h0 := h
  unfold isSelfMove at h
  simp only [Bool.and_eq_true] at h
  obtain ⟨_, hops⟩ := h
  match hm : i.ops, hops with
  | [.reg a, .reg b], hops =>
    simp only [Bool.and_eq_true, decide_eq_true_eq] at hops
    obtain ⟨hab, _⟩ := hops
    subst hab
    refine ⟨a, rfl, ?_⟩
    intro σ σ' he
    unfold execMov at he
    rcases selfMove_kind i a h0 hm with hk | hk
    · rw [hk] at he
      simp only at he
      cases he; exact writeLanes_self σ a.id a.mask
    · rw [hk] at he; cases he
  | [], hops => simp at hops
  | [_], hops => simp at hops
  | (.other _ :: _), hops => simp at hops
  | (.reg _ :: .other _ :: _), hops => simp at hops
  | (.reg _ :: .reg _ :: _ :: _), hops => simp at hops

/-- The parenthesis of the property: a 32-bit self-move is **not** a no-op
(it clears the upper half), nor is `MOVQ x, x` on a vector register — and the
pass's predicate rejects both. (RAX = id 256, X1 = id 66048.) -/
theorem movl_self_has_effect :
    ∃ σ σ', execMov "MOVL" ⟨256, S32⟩ ⟨256, S32⟩ σ = some σ' ∧ σ' 256 3 ≠ σ 256 3 :=
  ⟨fun _ _ => 1, _, rfl, by decide⟩

theorem movq_xmm_self_has_effect :
    ∃ σ σ', execMov "MOVQ" ⟨66048, S128⟩ ⟨66048, S128⟩ σ = some σ' ∧ σ' 66048 4 ≠ σ 66048 4 :=
  ⟨fun _ _ => 1, _, rfl, by decide⟩

theorem movl_self_not_pruned (uid : Nat) (cf : Instr) (r : R) :
    isSelfMove ⟨uid, cf, "MOVL", [.reg r, .reg r]⟩ = false := by
  unfold isSelfMove
  have h1 : ("MOVL" == "MOVB") = false := by decide
  have h2 : ("MOVL" == "MOVW") = false := by decide
  have h3 : ("MOVL" == "MOVQ") = false := by decide
  simp [h1, h2, h3]

theorem movq_xmm_self_not_pruned (uid : Nat) (cf : Instr) (r : R) (hk : idKind r.id = kindVector) :
    isSelfMove ⟨uid, cf, "MOVQ", [.reg r, .reg r]⟩ = false := by
  unfold isSelfMove
  have : ¬ (kindVector = kindGP) := by decide
  simp [hk, this]

/-! ## Dangling labels -/

def xinstrs : List XNode → List XInstr
  | [] => []
  | .instr i :: ns => i :: xinstrs ns
  | _ :: ns => xinstrs ns

theorem xinstrs_filter_labels (p : String → Bool) (nodes : List XNode) :
    xinstrs (nodes.filter (fun n => match n with | .label l => p l | _ => true)) = xinstrs nodes := by
  induction nodes with
  | nil => rfl
  | cons n ns ih =>
    cases n with
    | label l => by_cases h : p l = true <;> simp [List.filter_cons, h, xinstrs, ih]
    | comment => simp [List.filter_cons, xinstrs, ih]
    | instr i => simp [List.filter_cons, xinstrs, ih]

/-- **C10 (labels).** Removing unreferenced labels deletes no instruction and
keeps their order … -/
theorem prune_labels_instrs (nodes : List XNode) : xinstrs (pruneLabels nodes) = xinstrs nodes :=
  xinstrs_filter_labels _ nodes

/-- … and every label that some branch refers to survives. -/
theorem prune_labels_keeps_referenced (nodes : List XNode) (l : String)
    (hl : XNode.label l ∈ nodes) (href : referenced nodes l = true) : XNode.label l ∈ pruneLabels nodes := by
  unfold pruneLabels
  exact List.mem_filter.mpr ⟨hl, by simpa using href⟩

/-- The binding of a surviving label is unchanged: it still denotes the first
instruction after it (labels removed in between carry no instructions). -/
theorem firstInstrAfter_filter (p : String → Bool) (l : String) (hp : p l = true) :
    ∀ (nodes : List XNode) (k : Nat),
      firstInstrAfter l k ((nodes.filter (fun n => match n with | .label x => p x | _ => true)).map XNode.toNode) =
      firstInstrAfter l k (nodes.map XNode.toNode) := by
  have hhas : ∀ ns : List XNode,
      hasInstr ((ns.filter (fun n => match n with | .label x => p x | _ => true)).map XNode.toNode) =
      hasInstr (ns.map XNode.toNode) := by
    intro ns
    induction ns with
    | nil => rfl
    | cons n ns ih =>
      cases n with
      | label x => by_cases h : p x = true <;> simp [List.filter_cons, h, XNode.toNode, hasInstr, ih]
      | comment => simp [List.filter_cons, XNode.toNode, hasInstr, ih]
      | instr i => simp [List.filter_cons, XNode.toNode, hasInstr]
  intro nodes
  induction nodes with
  | nil => intro k; rfl
  | cons n ns ih =>
    intro k
    cases n with
    | label x =>
      by_cases hx : x = l
      · subst hx
        simp [List.filter_cons, hp, XNode.toNode, firstInstrAfter, hhas]
      · have hb : (x == l) = false := by simpa using hx
        by_cases h : p x = true
        · simp [List.filter_cons, h, XNode.toNode, firstInstrAfter, hb, ih]
        · simp [List.filter_cons, h, XNode.toNode, firstInstrAfter, hb, ih]
    | comment => simp [List.filter_cons, XNode.toNode, firstInstrAfter, ih]
    | instr i => simp [List.filter_cons, XNode.toNode, firstInstrAfter, ih]

theorem prune_labels_target (nodes : List XNode) (l : String) (href : referenced nodes l = true) (k : Nat) :
    firstInstrAfter l k ((pruneLabels nodes).map XNode.toNode) = firstInstrAfter l k (nodes.map XNode.toNode) :=
  firstInstrAfter_filter (referenced nodes) l href nodes k

/-! ## Jump to the following label -/

/-- **C10 (jumps).** A deleted jump targets the label that immediately follows
it, hence (labels being unique) the very instruction that follows the jump:
removing it replaces a jump to the next instruction by falling through to it. -/
theorem pruned_jump_goes_to_next (i : XInstr) (l : String) (rest : List XNode) (k : Nat)
    (h : jumpsToNext (.instr i) (.label l) = true) :
    i.cf.isBranch = true ∧ i.cf.isCond = false ∧ i.cf.target = some l ∧
    firstInstrAfter l k ((XNode.instr i :: XNode.label l :: rest).map XNode.toNode) =
      (if hasInstr (rest.map XNode.toNode) then some (k + 1) else none) := by
  unfold jumpsToNext at h
  simp only [Bool.and_eq_true, Bool.not_eq_true', beq_iff_eq] at h
  refine ⟨h.1.1, h.1.2, h.2, ?_⟩
  simp [XNode.toNode, firstInstrAfter]

/-- Only such jumps are deleted, everything else is kept in order. -/
theorem pruneJumps_sublist : ∀ nodes : List XNode, (pruneJumps nodes).Sublist nodes
  | [] => List.Sublist.refl _
  | [n] => List.Sublist.refl _
  | n :: next :: rest => by
    unfold pruneJumps
    by_cases h : jumpsToNext n next = true
    · rw [if_pos h]; exact (pruneJumps_sublist (next :: rest)).cons _
    · rw [if_neg h]; exact (pruneJumps_sublist (next :: rest)).cons₂ _

/-- Non-vacuity: `JMP l; l: RET` loses the jump, `MOVQ AX, AX` is a self-move, `MOVL` is not. -/
example : pruneJumps [.instr ⟨0, ⟨true, false, false, some "l"⟩, "JMP", []⟩, .label "l",
    .instr ⟨1, ⟨false, false, true, none⟩, "RET", []⟩] =
    [.label "l", .instr ⟨1, ⟨false, false, true, none⟩, "RET", []⟩] := by decide
example : isSelfMove ⟨0, default, "MOVQ", [.reg ⟨256, 15⟩, .reg ⟨256, 15⟩]⟩ = true := by decide
example : isSelfMove ⟨0, default, "MOVL", [.reg ⟨256, 7⟩, .reg ⟨256, 7⟩]⟩ = false := by decide

end Avo.Cleanup
