/-
C17 — independence of the HISTORY of the process ("… independent of … previous generations in the
process").

`Model/AllocHist.lean` models a process that uses the public allocator API on any number of
allocators in any interleaving.  Here:

* `new_allocator_history_independent` — the allocator created by `NewAllocatorForKind` after ANY
  history is the one created in an empty process: its candidate list is `freshRegs tbl kind`, a
  function of the register table alone; no priority, nothing to allocate.
* `run_proj`, `run_answers` — non-interference: what an allocator is and what its `Allocate`
  answers depends only on the operations performed on THAT allocator; operations on other
  allocators (earlier, later, in between) are invisible.
* `compileObj_eq_allocKind` — what `AllocateRegisters` does for one kind, as operations on a new
  allocator, answers exactly `allocKind tbl is kind` of `Model/Alloc.lean` (the allocation the
  pipeline theorem `generation_deterministic` is about).
* `compile_after_any_history` — therefore: after any history, and with any operations on other
  allocators interleaved, the allocation of a function is `allocKind tbl is kind`: a function of
  the program (and the table) alone.

The model has no shared mutable state by construction; that the CODE has none is what the exact
correspondence `allochist` (generated histories played on the real code in a dirtied process),
the acceptor `accept-order`, the dirty-process runs of `accept-det` and the census
`C17Tables.globals_expected` establish on every run.
-/
import AvoVerif.Props.C17Pipeline
import AvoVerif.Model.AllocHist
namespace Avo.Determinism
open Avo.Reg Avo.Alloc Avo.AllocHist

/-! ## A new allocator does not depend on the history -/

/-- The allocator object a successful creation appends. -/
def freshObj (tbl : List RegRow) (kind : Nat) : Obj :=
  { regs := freshRegs tbl kind, prio := [], poss := [], edges := [] }

/-- **New allocators are history independent**: after any history `hist` from any process state `σ`,
`NewAllocatorForKind kind` either fails (exactly when the family has no allocatable register) or
appends `freshObj tbl kind` — the same object as in an empty process. -/
theorem new_allocator_history_independent (tbl : List RegRow) (σ : Proc) (hist : List Op) (kind : Nat) :
    let σ' := (run tbl σ hist).1
    step tbl σ' (.new kind) =
      if (freshRegs tbl kind).isEmpty then (σ', Resp.err) else (σ' ++ [freshObj tbl kind], Resp.created σ'.length) := by
  by_cases he : (mkRegs (familyIds tbl kind)).isEmpty = true <;>
    simp [step, create, mkObj, freshObj, freshRegs, he]

/-- … in particular it is what an empty process creates. -/
theorem new_allocator_as_in_empty_process (tbl : List RegRow) (σ : Proc) (hist : List Op) (kind : Nat) (o : Obj) :
    (step tbl (run tbl σ hist).1 (.new kind)).1 = (run tbl σ hist).1 ++ [o] →
    (step tbl [] (.new kind)).1 = [o] := by
  intro h
  rw [new_allocator_history_independent] at h
  have h0 := new_allocator_history_independent tbl [] [] kind
  simp only [run] at h0
  rw [h0]
  by_cases he : (freshRegs tbl kind).isEmpty = true
  · rw [if_pos he] at h
    simp only at h
    have : ((run tbl σ hist).1 ++ [o]).length = (run tbl σ hist).1.length := by rw [← h]
    simp at this
  · rw [if_neg he] at h ⊢
    simp only at h ⊢
    have := List.append_cancel_left h
    simpa using this

/-! ## Non-interference between allocators -/

theorem lt_of_get {σ : Proc} {h : Nat} {o : Obj} (ho : σ[h]? = some o) : h < σ.length := by
  rcases Nat.lt_or_ge h σ.length with hl | hl
  · exact hl
  · rw [List.getElem?_eq_none hl] at ho; cases ho

theorem create_keeps (σ : Proc) (ids : List Nat) (h : Nat) (o : Obj) (ho : σ[h]? = some o) :
    (create σ ids).1[h]? = some o := by
  unfold create
  split
  · simp only; rw [List.getElem?_append_left (lt_of_get ho)]; exact ho
  · exact ho

theorem step_on_self (tbl : List RegRow) (σ : Proc) (h : Nat) (oo : ObjOp) (o : Obj) (ho : σ[h]? = some o) :
    (step tbl σ (.on h oo)).1[h]? = some (stepObj o oo).1 := by
  simp only [step, ho]
  rw [List.getElem?_set_self (lt_of_get ho)]

theorem step_on_other (tbl : List RegRow) (σ : Proc) (h h' : Nat) (oo : ObjOp) (e : h' ≠ h) :
    (step tbl σ (.on h' oo)).1[h]? = σ[h]? := by
  simp only [step]
  cases σ[h']? with
  | none => rfl
  | some o2 => simp only; rw [List.getElem?_set_ne e]

/-- **Non-interference (state)**: after any history, allocator `h` is what the operations ON `h` alone make of it. -/
theorem run_proj (tbl : List RegRow) : ∀ (ops : List Op) (σ : Proc) (h : Nat) (o : Obj), σ[h]? = some o →
    (run tbl σ ops).1[h]? = some (runObj o (proj h ops)).1
  | [], σ, h, o, ho => by simpa [run, proj, runObj] using ho
  | .new kind :: ops, σ, h, o, ho => by
    simp only [run, proj]
    exact run_proj tbl ops _ h o (create_keeps σ _ h o ho)
  | .newFrom rows :: ops, σ, h, o, ho => by
    simp only [run, proj]
    exact run_proj tbl ops _ h o (create_keeps σ _ h o ho)
  | .on h' oo :: ops, σ, h, o, ho => by
    simp only [run, proj]
    by_cases e : h' = h
    · subst e
      rw [if_pos rfl]
      have := run_proj tbl ops _ h' _ (step_on_self tbl σ h' oo o ho)
      simpa [runObj] using this
    · rw [if_neg e]
      exact run_proj tbl ops _ h o (by rw [step_on_other tbl σ h h' oo e]; exact ho)

/-- The answers `Allocate` gave on handle `h` during a history. -/
def answersOn (h : Nat) : List Op → List Resp → List ARes
  | .on h' _ :: ops, .alloc a :: rs => if h' = h then a :: answersOn h ops rs else answersOn h ops rs
  | _ :: ops, _ :: rs => answersOn h ops rs
  | _, _ => []

/-- **Non-interference (answers)**: the allocations handed out by allocator `h` are those of the
operations on `h` alone. -/
theorem run_answers (tbl : List RegRow) : ∀ (ops : List Op) (σ : Proc) (h : Nat) (o : Obj), σ[h]? = some o →
    answersOn h ops (run tbl σ ops).2 = (runObj o (proj h ops)).2
  | [], σ, h, o, _ => by simp [run, proj, runObj, answersOn]
  | .new kind :: ops, σ, h, o, ho => by
    simp only [run, proj, answersOn]
    exact run_answers tbl ops _ h o (create_keeps σ _ h o ho)
  | .newFrom rows :: ops, σ, h, o, ho => by
    simp only [run, proj, answersOn]
    exact run_answers tbl ops _ h o (create_keeps σ _ h o ho)
  | .on h' oo :: ops, σ, h, o, ho => by
    by_cases e : h' = h
    · subst e
      have ih := run_answers tbl ops _ h' _ (step_on_self tbl σ h' oo o ho)
      simp only [run, proj, if_true, runObj]
      simp only [step, ho] at ih ⊢
      cases hr : (stepObj o oo).2 with
      | none => simp only [answersOn]; exact ih
      | some a => simp only [answersOn, if_true]; rw [ih]
    · have ih := run_answers tbl ops _ h o (by rw [step_on_other tbl σ h h' oo e]; exact ho)
      simp only [run, proj, if_neg e]
      rw [← ih]
      simp only [step]
      cases σ[h']? with
      | none => simp [answersOn]
      | some o2 =>
        simp only
        cases (stepObj o2 oo).2 with
        | none => simp [answersOn]
        | some a => simp [answersOn, e]

/-! ## `AllocateRegisters` for one kind, as operations on a new allocator -/

theorem runObj_append (o : Obj) : ∀ (a b : List ObjOp),
    runObj o (a ++ b) = ((runObj (runObj o a).1 b).1, (runObj o a).2 ++ (runObj (runObj o a).1 b).2)
  | [], b => by simp [runObj]
  | x :: a, b => by
    simp only [List.cons_append, runObj]
    rw [runObj_append _ a b]
    cases (stepObj o x).2 <;> simp

theorem prioOf_const (ids : List Nat) (id : Nat) :
    prioOf (ids.map (fun i => (i, (-1 : Int)))) id = if ids.contains id then -1 else 0 := by
  induction ids with
  | nil => simp [prioOf]
  | cons x xs ih =>
    unfold prioOf at ih ⊢
    simp only [List.map_cons, List.find?_cons]
    by_cases e : x = id
    · subst e; simp
    · have : (x == id) = false := by simpa using e
      simp only [this]
      rw [ih]
      have h2 : ¬ id = x := fun h => e h.symm
      simp [h2]

/-- the `SetPriority(bp, -1)` phase: afterwards the candidate list is the input sorted with the base
pointer registers last (or untouched when the family has none) -/
theorem prio_phase : ∀ (bps : List Nat) (o : Obj), o.regs.Nodup →
    let r := runObj o (bps.map (fun id => ObjOp.prio id (-1)))
    r.2 = [] ∧ r.1.poss = o.poss ∧ r.1.edges = o.edges ∧
    r.1.prio = (bps.reverse.map (fun i => (i, (-1 : Int)))) ++ o.prio ∧
    r.1.regs.Perm o.regs ∧
    (bps ≠ [] → r.1.regs = sortRegs (prioOf r.1.prio) o.regs) ∧ (bps = [] → r.1.regs = o.regs)
  | [], o, _ => by simp [runObj]
  | b :: bps, o, hn => by
    simp only [List.map_cons, runObj, stepObj]
    have hp : (sortRegs (prioOf ((b, -1) :: o.prio)) o.regs).Perm o.regs := sortRegs_perm_self _ _
    have hn1 : (sortRegs (prioOf ((b, -1) :: o.prio)) o.regs).Nodup := hp.nodup_iff.mpr hn
    have ih := prio_phase bps { o with prio := (b, -1) :: o.prio, regs := sortRegs (prioOf ((b, -1) :: o.prio)) o.regs } hn1
    simp only at ih
    obtain ⟨h1, h2, h3, h4, h5, h6, h7⟩ := ih
    refine ⟨by simpa using h1, h2, h3, ?_, h5.trans hp, ?_, by simp⟩
    · rw [h4]; simp
    · intro _
      by_cases e : bps = []
      · subst e
        simp [runObj]
      · rw [h6 e]
        exact (sortRegs_perm _ hn1 hp)

theorem add_phase (cands : List Nat) : ∀ (rs : List R) (o : Obj), o.regs = cands →
    runObj o (rs.map (fun r => ObjOp.add r.id)) =
      ({ o with poss := rs.foldl (fun p r => addVirt cands p r.id) o.poss }, [])
  | [], o, _ => by simp [runObj]
  | r :: rs, o, h => by
    simp only [List.map_cons, runObj, stepObj, List.foldl_cons]
    rw [add_phase cands rs _ (by simpa using h)]
    simp [h]

theorem edge_phase (cands : List Nat) : ∀ (es : List (Nat × Nat)) (o : Obj), o.regs = cands →
    runObj o (es.map (fun e => ObjOp.edge e.1 e.2)) =
      ({ o with poss := es.foldl (fun p e => addVirt cands (addVirt cands p e.1) e.2) o.poss, edges := o.edges ++ es }, [])
  | [], o, _ => by simp [runObj]
  | e :: es, o, h => by
    simp only [List.map_cons, runObj, stepObj, List.foldl_cons]
    rw [edge_phase cands es _ (by simpa using h)]
    simp [h]

theorem candidates_eq (tbl : List RegRow) (kind : Nat) :
    candidates tbl kind =
      sortRegs (fun id => if (bpIds tbl kind).contains id then -1 else 0) (familyIds tbl kind).eraseDups := rfl

theorem freshRegs_perm (tbl : List RegRow) (kind : Nat) : (freshRegs tbl kind).Perm (familyIds tbl kind).eraseDups :=
  sortRegs_perm_self _ _

theorem freshRegs_nodup (tbl : List RegRow) (kind : Nat) : (freshRegs tbl kind).Nodup :=
  (freshRegs_perm tbl kind).nodup_iff.mpr (nodup_eraseDups _ _ (Nat.le_refl _))

/-- **One compilation, as a history on one allocator**: on a new allocator of the kind, the operations of
`AllocateRegisters` answer exactly `allocKind`. -/
theorem compileObj_eq_allocKind (tbl : List RegRow) (is : List AInstr) (kind : Nat)
    (hne : (freshRegs tbl kind).isEmpty = false) :
    (runObj (freshObj tbl kind) (compileObjOps tbl is kind)).2 = [allocKind tbl is kind] := by
  have hn := freshRegs_nodup tbl kind
  obtain ⟨p1, p2, p3, p4, p5, p6, p7⟩ := prio_phase (bpIds tbl kind) (freshObj tbl kind) hn
  simp only [freshObj] at p1 p2 p3 p4 p5 p6 p7
  -- the candidate list after the priority phase is `candidates tbl kind`
  have hc : (runObj (freshObj tbl kind) ((bpIds tbl kind).map (fun id => ObjOp.prio id (-1)))).1.regs = candidates tbl kind := by
    rw [candidates_eq]
    by_cases e : bpIds tbl kind = []
    · simp only [freshObj]
      rw [p7 e, e]
      simp only [freshRegs, mkRegs]
      congr 1
    · simp only [freshObj]
      rw [p6 e, p4]
      have hf : prioOf ((bpIds tbl kind).reverse.map (fun i => (i, (-1 : Int))) ++ []) =
          (fun id => if (bpIds tbl kind).contains id then -1 else 0) := by
        funext id
        rw [List.append_nil, prioOf_const]
        simp
      rw [hf]
      exact sortRegs_perm _ hn (freshRegs_perm tbl kind)
  have hcne : (candidates tbl kind).isEmpty = false := by
    have hl : (candidates tbl kind).length = (freshRegs tbl kind).length := by
      rw [candidates_eq]
      exact ((sortRegs_perm_self _ _).trans (freshRegs_perm tbl kind).symm).length_eq
    cases hf : freshRegs tbl kind with
    | nil => rw [hf] at hne; simp at hne
    | cons a l =>
      rw [hf] at hl
      cases hcc : candidates tbl kind with
      | nil => rw [hcc] at hl; simp at hl
      | cons _ _ => rfl
  unfold compileObjOps
  rw [runObj_append, runObj_append, runObj_append]
  simp only [freshObj] at hc ⊢
  generalize hr : runObj { regs := freshRegs tbl kind, prio := [], poss := [], edges := [] }
    ((bpIds tbl kind).map (fun id => ObjOp.prio id (-1))) = r at *
  rw [add_phase (candidates tbl kind) _ r.1 hc]
  simp only
  rw [edge_phase (candidates tbl kind) _ _ (by simpa using hc)]
  simp only [runObj, stepObj, p1, p2, p3, List.nil_append, List.append_nil]
  unfold allocKind
  simp only [hcne, Bool.false_eq_true, if_false, histEdges]

/-- **The allocation of a function does not depend on the history of the process.**  Let `hist` be any
history from any process state.  Create a new allocator (handle `h`), and let `ops` be ANY further
operations — on this and on other allocators, old and new, interleaved at will — among which the
operations on `h` are those of `AllocateRegisters` for the kind.  Then what `Allocate` answers on `h` is
`allocKind tbl is kind`: a function of the program and the register table alone. -/
theorem compile_after_any_history (tbl : List RegRow) (σ : Proc) (hist ops : List Op) (is : List AInstr) (kind : Nat)
    (hne : (freshRegs tbl kind).isEmpty = false) :
    let σ' := (run tbl σ hist).1
    let h := σ'.length
    proj h ops = compileObjOps tbl is kind →
    answersOn h ops (run tbl (step tbl σ' (.new kind)).1 ops).2 = [allocKind tbl is kind] := by
  intro σ' h hp
  have hnew := new_allocator_history_independent tbl σ hist kind
  simp only [hne, Bool.false_eq_true, if_false] at hnew
  have hget : (step tbl σ' (.new kind)).1[h]? = some (freshObj tbl kind) := by
    show (step tbl (run tbl σ hist).1 (.new kind)).1[(run tbl σ hist).1.length]? = _
    rw [hnew]
    simp
  rw [run_answers tbl ops _ h _ hget, hp]
  exact compileObj_eq_allocKind tbl is kind hne

/-! ## Non-vacuity -/

def hxTbl : List RegRow :=
  [⟨"X0", 2, 0, 31, 16, 0, 512⟩, ⟨"X1", 2, 1, 31, 16, 0, 66048⟩, ⟨"X2", 2, 2, 31, 16, 0, 131584⟩,
   ⟨"AX", 1, 0, 15, 8, 0, 256⟩, ⟨"BP", 1, 5, 15, 8, 4, 327936⟩, ⟨"CX", 1, 1, 15, 8, 0, 65792⟩]

/-- two interfering vector virtuals -/
def hxProg : List AInstr :=
  [⟨[⟨513, 31⟩], [⟨513, 31⟩], [(513, 31)], [true]⟩,
   ⟨[⟨66049, 31⟩], [⟨66049, 31⟩], [(513, 31), (66049, 31)], [true]⟩]

/-- an unrelated earlier use of the allocator API: another vector allocator prefers X2, then X1 -/
def hxHist : List Op :=
  [.new 2, .on 0 (.prio 131584 2), .on 0 (.prio 66048 1), .on 0 (.add 513), .on 0 .alloc, .new 1, .on 1 (.prio 256 (-5))]

-- the earlier allocator did hand out X2 …
example : (run hxTbl [] hxHist).2.filterMap (fun | .alloc (.ok a) => some a | _ => none) = [[(513, 131584)]] := by
  decide +kernel
-- … and the compilation afterwards (handle 2), with a foreign operation in between, still gets X0, X1
example : (answersOn 2 (.on 2 (.add 513) :: .on 0 (.prio 512 (-9)) :: (compileObjOps hxTbl hxProg 2).tail.map (Op.on 2))
    (run hxTbl (step hxTbl (run hxTbl [] hxHist).1 (.new 2)).1
      (.on 2 (.add 513) :: .on 0 (.prio 512 (-9)) :: (compileObjOps hxTbl hxProg 2).tail.map (Op.on 2))).2).map Except.toOption
    = [some [(513, 512), (66049, 66048)]] := by decide +kernel
example : (allocKind hxTbl hxProg 2).toOption = some [(513, 512), (66049, 66048)] := by decide +kernel
example : (freshRegs hxTbl 2).isEmpty = false := by decide +kernel
-- the base pointer phase is exercised by the GP family: BP is handed out last
example : (runObj (freshObj hxTbl 1) (compileObjOps hxTbl [] 1)).1.regs = [256, 65792, 327936] := by decide +kernel

/-! ## The acceptor of `accept-order` -/

/-- What `accept-order` states: the register assignment of the clique program on a new allocator is the
same in a fresh process and after a history. -/
def SameOrder (fresh now : List String) : Prop := fresh = now ∧ "panic" ∉ fresh ∧ "panic" ∉ now

theorem orderJudge_sound (fresh now : List String) : orderJudge fresh now = none → SameOrder fresh now := by
  unfold orderJudge SameOrder
  intro h
  by_cases hp : (fresh.contains "panic" || now.contains "panic") = true
  · rw [if_pos hp] at h; cases h
  · rw [if_neg hp] at h
    by_cases he : (fresh == now) = true
    · simp only [Bool.or_eq_true, List.contains_iff_mem, not_or] at hp
      exact ⟨by simpa using he, hp.1, hp.2⟩
    · rw [if_neg he] at h; cases h

theorem orderJudge_complete (fresh now : List String) : SameOrder fresh now → orderJudge fresh now = none := by
  unfold orderJudge SameOrder
  rintro ⟨rfl, h1, _⟩
  have : (fresh.contains "panic") = false := by simpa using h1
  simp [this, h1]

example : orderJudge ["512", "66048"] ["66048", "512"] = some "bad-order-depends-on-history" := by decide
example : orderJudge ["512", "66048"] ["512", "66048"] = none := by decide

end Avo.Determinism
