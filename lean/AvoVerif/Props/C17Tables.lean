/-
C17 on the regenerated census of map enumerations in /repo (`Gen.MapRanges`, go/types over the
packages of the generation path: reg ir pass printer build gotypes buildtags attr operand x86
internal/prnt internal/stack src).  Counted as an enumeration: `range` over a map,
`maps.Keys/Values/All` (unless directly inside `slices.Sorted*`), `reflect.Value.MapKeys/MapRange/Seq`,
`sync.Map.Range`.

The obligation is on the SET of (package, underlying map type) pairs: every map type whose order is
enumerated anywhere in the generation path is one of the types below, each of which has an
order-independence theorem about its model.  It is an inclusion, not an equality on source text:
moving a loop into a helper, renaming variables or named map types, inlining
`Clone`+`DifferenceUpdate`, removing a loop or adding another loop over a map type the package
already enumerates does not break it; the first enumeration of a NEW map type in a package (for
instance a `map[string]bool` in `printer`) does.
-/
import AvoVerif.Props.C17
import AvoVerif.Gen.MapRanges
namespace Avo.Determinism

/-- The map types whose enumeration order is covered by a theorem, with the theorem:
* `pass  map[reg.ID]uint16`   (`reg.MaskSet` in `AddInterferenceSet`): the edge *list* order —
  `allocLoop_perm` (via `foldl_perm`: `update` treats the edges as a multiset), `C17Pipeline.edgesOfE_perm`
* `pass  map[reg.ID][]reg.ID` (`Allocator.possible` in `mostrestricted`): `mostRestricted_perm`
* `pass  map[reg.ID]bool`     (`idset` in `NewAllocator`, then sorted): `sortRegs_perm`
* `pass  map[string]bool`     (`set` in `RequiredISAExtensions`, then `sort.Strings`): `requiredISA_perm`
  (model compared with the pass on every compiled function)
* `pass  map[reg.Kind]*pass.Allocator` (`as` in `AllocateRegisters`, twice): `allocate_kinds_perm`
* `reg   map[reg.ID]uint16`   (`MaskSet.Clone/DifferenceUpdate/Equals/OfKind/Update`): `update_perm`,
  `update_flag_perm`, `difference_perm`, `ofKind_perm`, `get_perm`, `equals_perm`
* `reg   map[reg.ID]reg.ID`   (`Allocation.Merge`): `allocate_kinds_perm` (per-kind allocations have keys of
  their own kind; the merged lookup is order independent)
All of them are composed in `C17Pipeline.generation_deterministic`. -/
def knownMapIterTypes : List (String × String) :=
  [("pass", "map[reg.ID][]reg.ID"),
   ("pass", "map[reg.ID]bool"),
   ("pass", "map[reg.ID]uint16"),
   ("pass", "map[reg.Kind]*pass.Allocator"),
   ("pass", "map[string]bool"),
   ("reg", "map[reg.ID]reg.ID"),
   ("reg", "map[reg.ID]uint16")]

/-- Every map type enumerated in the generation path is a known one. -/
theorem mapIterTypes_known : ∀ x ∈ Avo.Gen.mapIterTypes, x ∈ knownMapIterTypes := by decide

/-- Non-vacuity of the census itself: the generation path does enumerate maps (an extractor that
silently finds nothing would make `mapIterTypes_known` vacuous). -/
theorem mapIterTypes_nonempty : Avo.Gen.mapIterTypes ≠ [] ∧ Avo.Gen.mapIterSites ≠ [] := by decide

/-- The printers, the builder, the Go-type and build-tag packages enumerate no map at all, so the
printed text is a function of the compiled file (used by `C17Pipeline`: `render` is a function). -/
theorem only_pass_and_reg_enumerate_maps :
    ∀ x ∈ Avo.Gen.mapIterTypes, x.1 = "pass" ∨ x.1 = "reg" := by decide

end Avo.Determinism
