/-
C17 on the regenerated list of map iterations in /repo: every site is known and
is covered by an order-independence argument.  A new `range` over a map in the
generation path changes `Gen.mapRanges` and breaks this obligation.
-/
import AvoVerif.Props.C17
import AvoVerif.Gen.MapRanges
namespace Avo.Determinism

/-- Every map iteration in the generation path, with the reason its order is irrelevant:
* `AddInterferenceSet`  — edge *list* order: `allocLoop_perm` (via `foldl_perm`: `update` treats the edges as a multiset)
* `mostrestricted`      — `mostRestricted_perm`
* `NewAllocator`        — `sortRegs_perm`
* `RequiredISAExtensions` — `requiredISA_perm` (sorted list of a set; model compared with the pass on every compiled function)
* `AllocateRegisters` (×2), `Allocation.Merge` — `allocate_kinds_perm` (per-kind allocations have keys of their own kind; the merged lookup is order independent)
* `MaskSet.Clone/DifferenceUpdate/Equals/OfKind/Update` — `update_perm`, `update_flag_perm`, `difference_perm`, `ofKind_perm`, `get_perm`
* `Allocation.Merge`    — see `allocate_kinds_perm` -/
theorem mapRanges_expected : Avo.Gen.mapRanges =
    [("pass/alloc.go", "*Allocator.AddInterferenceSet", "s"),
     ("pass/alloc.go", "*Allocator.mostrestricted", "a.possible"),
     ("pass/alloc.go", "NewAllocator", "idset"),
     ("pass/isa.go", "RequiredISAExtensions", "set"),
     ("pass/reg.go", "AllocateRegisters", "as"),
     ("pass/reg.go", "AllocateRegisters", "as"),
     ("reg/set.go", "MaskSet.Clone", "s"),
     ("reg/set.go", "MaskSet.DifferenceUpdate", "t"),
     ("reg/set.go", "MaskSet.Equals", "s"),
     ("reg/set.go", "MaskSet.OfKind", "s"),
     ("reg/set.go", "MaskSet.Update", "t"),
     ("reg/types.go", "Allocation.Merge", "b")] := by decide

end Avo.Determinism
