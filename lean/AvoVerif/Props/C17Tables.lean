/-
C17 on the regenerated census of map enumerations in /repo (`Gen.MapRanges`, go/types over the
packages of the generation path: reg ir pass printer build gotypes buildtags attr operand x86
internal/prnt internal/stack src).  Counted as an enumeration: `range` over a map,
`maps.Keys/Values/All` (unless directly inside `slices.Sorted*`), `reflect.Value.MapKeys/MapRange/Seq`,
`sync.Map.Range`.

The obligation is on the SET of (package, underlying map type) pairs: every map type whose order is
enumerated anywhere in the generation path is one of the types below, each of which has an
order-independence theorem about its model.  It is an inclusion, not an equality on source text:
moving a loop into a helper, renaming variables or named map types, inlining
`Clone`+`DifferenceUpdate`, removing a loop or adding another loop over a map type the package
already enumerates does not break it; the first enumeration of a NEW map type in a package (for
instance a `map[string]bool` in `printer`) does.
-/
import AvoVerif.Props.C17
import AvoVerif.Gen.MapRanges
import AvoVerif.Gen.Globals
namespace Avo.Determinism

/-- The map types whose enumeration order is covered by a theorem, with the theorem:
* `pass  map[reg.ID]uint16`   (`reg.MaskSet` in `AddInterferenceSet`): the edge *list* order —
  `allocLoop_perm` (via `foldl_perm`: `update` treats the edges as a multiset), `C17Pipeline.edgesOfE_perm`
* `pass  map[reg.ID][]reg.ID` (`Allocator.possible` in `mostrestricted`): `mostRestricted_perm`
* `pass  map[reg.ID]bool`     (`idset` in `NewAllocator`, then sorted): `sortRegs_perm`
* `pass  map[string]bool`     (`set` in `RequiredISAExtensions`, then `sort.Strings`): `requiredISA_perm`
  (model compared with the pass on every compiled function)
* `pass  map[reg.Kind]*pass.Allocator` (`as` in `AllocateRegisters`, twice): `allocate_kinds_perm`
* `reg   map[reg.ID]uint16`   (`MaskSet.Clone/DifferenceUpdate/Equals/OfKind/Update`): `update_perm`,
  `update_flag_perm`, `difference_perm`, `ofKind_perm`, `get_perm`, `equals_perm`
* `reg   map[reg.ID]reg.ID`   (`Allocation.Merge`): `allocate_kinds_perm` (per-kind allocations have keys of
  their own kind; the merged lookup is order independent)
All of them are composed in `C17Pipeline.generation_deterministic`. -/
def knownMapIterTypes : List (String × String) :=
  [("pass", "map[reg.ID][]reg.ID"),
   ("pass", "map[reg.ID]bool"),
   ("pass", "map[reg.ID]uint16"),
   ("pass", "map[reg.Kind]*pass.Allocator"),
   ("pass", "map[string]bool"),
   ("reg", "map[reg.ID]reg.ID"),
   ("reg", "map[reg.ID]uint16")]

/-- Every map type enumerated in the generation path is a known one. -/
theorem mapIterTypes_known : ∀ x ∈ Avo.Gen.mapIterTypes, x ∈ knownMapIterTypes := by decide

/-- HOW the order of an enumeration can leave its loop (regenerated `Gen.mapIterShapes`: per (package, map type)
the flags `ret-elem` first-match return, `break`, `append`, `set-outer` last-writer / running minimum, `call`,
`closure`; loops that only do keyed writes, commutative accumulation or all-or-nothing tests have no flag).
The inclusion on map TYPES alone tolerates a new loop over a type the package already enumerates; this one
does so only when the new loop leaks its order in a way some loop over that type already does — each with
the theorem that makes that way harmless:
* `pass map[reg.ID][]reg.ID` set-outer — `mostrestricted`: running minimum with a total tie-break, `mostRestricted_perm`
* `pass map[reg.ID]bool` append, set-outer — `NewAllocator`: ids appended, then sorted, `sortRegs_perm`
* `pass map[reg.ID]uint16` call — `AddInterferenceSet` → `AddInterference` (order of the edge list), `allocLoop_perm`, `edgesOfE_perm`
* `pass map[reg.Kind]*pass.Allocator` call — `SetPriority` on each allocator separately; ret-elem — `return err` of the first
  failing kind: `allocate_kinds_perm` (all errors identified; the messages reachable through `pass.Compile` are equal)
* `pass map[string]bool` append, set-outer — ISA names appended to `fn.ISA`, then `sort.Strings`, `requiredISA_perm`
* `reg map[reg.ID]uint16` call, set-outer — `Update`/`DifferenceUpdate` call `Add`/`Discard` per element and or the
  change flags, `update_perm`, `update_flag_perm`, `difference_perm`
A first-match search (`ret-elem`) over a set of registers, a `break`, or an unsorted `append` over any other
type is a new row. -/
def knownMapIterShapes : List (String × String × String) :=
  [("pass", "map[reg.ID][]reg.ID", "set-outer"),
   ("pass", "map[reg.ID]bool", "append"),
   ("pass", "map[reg.ID]bool", "set-outer"),
   ("pass", "map[reg.ID]uint16", "call"),
   ("pass", "map[reg.Kind]*pass.Allocator", "call"),
   ("pass", "map[reg.Kind]*pass.Allocator", "ret-elem"),
   ("pass", "map[string]bool", "append"),
   ("pass", "map[string]bool", "set-outer"),
   ("reg", "map[reg.ID]uint16", "call"),
   ("reg", "map[reg.ID]uint16", "set-outer")]

/-- Every way in which an enumeration order leaves a loop of the generation path is a known one. -/
theorem mapIterShapes_known : ∀ x ∈ Avo.Gen.mapIterShapes, x ∈ knownMapIterShapes := by decide

-- a first-match search over a set of register ids in `pass` (an order-leaking loop over an already known map
-- type) is not tolerated, nor is an early exit from a loop over a mask set
example : ("pass", "map[reg.ID]bool", "ret-elem") ∉ knownMapIterShapes := by decide
example : ("reg", "map[reg.ID]uint16", "break") ∉ knownMapIterShapes := by decide
example : Avo.Gen.mapIterShapes ≠ [] := by decide

/-- Non-vacuity of the census itself: the generation path does enumerate maps (an extractor that
silently finds nothing would make `mapIterTypes_known` vacuous). -/
theorem mapIterTypes_nonempty : Avo.Gen.mapIterTypes ≠ [] ∧ Avo.Gen.mapIterSites ≠ [] := by decide

/-- The printers, the builder, the Go-type and build-tag packages enumerate no map at all, so the
printed text is a function of the compiled file (used by `C17Pipeline`: `render` is a function). -/
theorem only_pass_and_reg_enumerate_maps :
    ∀ x ∈ Avo.Gen.mapIterTypes, x.1 = "pass" ∨ x.1 = "reg" := by decide

/-! ## Process-level mutable state (`Gen.Globals`)

A generation may depend on what happened earlier in the process without any map being enumerated:
through memory that outlives a generation.  `Gen.Globals` is a go/ssa census (regenerated on every
run) of every way in which memory reachable from a package-level variable of the generation path
can be written — or handed to code that could write it — by a function that can run after package
initialisation (see harness/gen_globals.go for the analysis).  The obligation below is an inclusion
of the set of (variable, event) rows in what is known and explained here; names of functions and
positions are not compared, so moving or renaming code does not break it, while the first write to
(or escape of) a package-level object that had none does. -/

/-- event: (kind, package, name) -/
abbrev Ev := String × String × String

/-- Packages of the standard library none of whose functions writes through an argument or keeps
one (trusted facts about the standard library). -/
def purePkgs : List String :=
  ["strings", "strconv", "errors", "unicode", "unicode/utf8", "math", "math/bits", "path", "path/filepath"]

/-- Single functions and interface methods that only read their arguments. -/
def readOnlyExterns : List (String × String) :=
  [("fmt", "Sprintf"), ("fmt", "Sprint"), ("fmt", "Sprintln"), ("fmt", "Errorf"),
   ("invoke", "error.Error"), ("invoke", "fmt.Stringer.String"),
   ("invoke", "types.Sizes.Sizeof"), ("invoke", "types.Sizes.Offsetsof"), ("invoke", "types.Sizes.Alignof")]

/-- An event that cannot change what a later generation sees: a read by the standard library, or
handing a value to a function value that no function of avo can be (a callback of the user). -/
def benignEvent (e : Ev) : Bool :=
  e.1 == "extern" && (e.2.1 == "dynamic" || purePkgs.contains e.2.1 || readOnlyExterns.contains (e.2.1, e.2.2))

/-- Variables that ARE the input of a generation: the package-level build context is the program under
construction (the determinism statement is about fresh contexts; the measured stream swaps a fresh
context in), `build.flags` are the command-line flags of `build.Generate`. -/
def designState : List (String × String) := [("build", "ctx"), ("build", "flags")]

/-- `pass.Compile` / `pass.Verify` are lists of passes behind the interface `pass.Interface`; the analysis
resolves `p.Execute(f)` to every implementation (also `(*pass.Output).Execute`, which is never an element
of these lists), so every write of a printer shows up under them.  What is required of them is that the
variable itself and the list it holds are never written. -/
def dispatchOnly : List (String × String) := [("pass", "Compile"), ("pass", "Verify")]

def ownWrite (e : Ev) : Bool :=
  (e.1 == "store" || e.1 == "append") &&
    ["var", "pass.concat", "[]pass.Interface", "*pass.concat", "*pass.Interface", "*[]pass.Interface"].contains e.2.2

/-- Rows known to be benign, with the reason:
* `gotypes.Sizes` / store `[]int64`: `(*Signature).init` adds the size of the parameters to the offsets
  returned by `Sizes.Offsetsof`, which go/types allocates afresh on every call (the analysis lets a
  function it cannot see return memory of its receiver);
* `x86.forms`, `opcformstable`, `isaslisttable`, `sffxsstringsmap`, `sffxsclssuffixessettable` / returns:
  the generated instruction tables are handed out without copying (`Opcode.Forms()`-style accessors,
  `ir.Instruction.ISA`, `.Suffixes` alias rows of the tables); no function of the generation path writes
  them (there is no store / append / mutator row for these variables — that is this obligation). -/
def knownRows : List ((String × String) × Ev) :=
  [(("gotypes", "Sizes"), ("store", "", "[]int64")),
   (("x86", "forms"), ("returns", "", "[]x86.form")),
   (("x86", "opcformstable"), ("returns", "", "[]x86.form")),
   (("x86", "isaslisttable"), ("returns", "", "[]string")),
   (("x86", "sffxsstringsmap"), ("returns", "", "[]string")),
   (("x86", "sffxsclssuffixessettable"), ("returns", "", "map[x86.sffxs]bool"))]

def eventOk (v : String × String) (e : Ev) : Bool :=
  benignEvent e || designState.contains v || (dispatchOnly.contains v && !ownWrite e) || knownRows.contains (v, e)

def groupOk (g : List (String × String) × List Ev) : Bool := g.1.all fun v => g.2.all fun e => eventOk v e

/-- **No unexplained process-level state**: every way in which memory reachable from a package-level
variable of the generation path can be written (or escape) after initialisation is one of the explained
ones. -/
theorem globals_expected :
    ∀ g ∈ Avo.Gen.globalEventGroups, ∀ v ∈ g.1, ∀ e ∈ g.2, eventOk v e = true := by
  have h : Avo.Gen.globalEventGroups.all groupOk = true := by decide +kernel
  intro g hg v hv e he
  have h1 := List.all_eq_true.mp h g hg
  exact List.all_eq_true.mp (List.all_eq_true.mp h1 v hv) e he

/-- Non-vacuity of the census: it sees the package-level variables (more than a hundred: the registers),
thousands of functions, and it does find the one piece of state that exists by design, with writes. -/
theorem globals_census_nonvacuous :
    Avo.Gen.globalCensusSize.1 > 100 ∧ Avo.Gen.globalCensusSize.2.2 > 1000 ∧
    (Avo.Gen.globalEventGroups.any fun g => g.1.contains ("build", "ctx") && g.2.contains ("store", "", "ir.Function")) = true := by
  decide +kernel

-- the obligation is not trivially true: the rows a shared, lazily built, in-place sorted list of register
-- ids of a family would add are all rejected
example : eventOk ("reg", "Vector") ("store", "", "reg.Family") = false := by decide
example : eventOk ("reg", "Vector") ("extern", "sort", "Slice") = false := by decide
example : eventOk ("reg", "familiesByKind") ("extern", "sync", "(*Once).Do") = false := by decide
example : eventOk ("reg", "GeneralPurpose") ("returns", "", "[]reg.ID") = false := by decide
example : eventOk ("pass", "Compile") ("append", "", "pass.concat") = false := by decide
example : eventOk ("printer", "counter") ("store", "", "var") = false := by decide

/-- Sources of run-to-run variation that are not memory: clocks, random numbers, the environment,
process identity, the scheduler. -/
def variationSource (c : String × String) : Bool :=
  ["time", "math/rand", "math/rand/v2", "crypto/rand", "hash/maphash", "unique", "os/user", "os/signal"].contains c.1 ||
  [("os", "Getenv"), ("os", "LookupEnv"), ("os", "Environ"), ("os", "ExpandEnv"), ("os", "Getpid"), ("os", "Getppid"),
   ("os", "Hostname"), ("os", "Getuid"), ("os", "Geteuid"), ("os", "Getgid"), ("os", "UserHomeDir"), ("os", "UserCacheDir"),
   ("os", "UserConfigDir"), ("os", "TempDir"), ("os", "MkdirTemp"), ("os", "CreateTemp"), ("os", "Executable"),
   ("runtime", "NumGoroutine"), ("runtime", "NumCPU"), ("runtime", "GOMAXPROCS"), ("runtime", "ReadMemStats"),
   ("runtime", "Stack"), ("runtime", "GC"), ("runtime", "SetFinalizer"), ("runtime", "Gosched")].contains c

/-- None of the functions called from the generation path (and defined outside it) is a source of
run-to-run variation. -/
theorem no_variation_sources : ∀ c ∈ Avo.Gen.externCallees, variationSource c = false := by
  have h : Avo.Gen.externCallees.all (fun c => !variationSource c) = true := by decide +kernel
  intro c hc
  have := List.all_eq_true.mp h c hc
  simpa using this

example : variationSource ("time", "Now") = true := by decide
example : Avo.Gen.externCallees ≠ [] := by decide

end Avo.Determinism
