import AvoVerif.Props.C04Rows
import AvoVerif.Gen.FormActions_03
namespace Avo.FormActions.Tables
open Avo.FormActions Avo.Gen
/-- every row of shard 3 of the regenerated form table passes every structural check -/
theorem shard_03 : formActions_03.all rowOK = true := by decide +kernel
end Avo.FormActions.Tables
