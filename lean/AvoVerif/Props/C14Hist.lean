/-
C14 over call histories: what the header of a printed file means when the same
`*ir.File` is printed several times, by both printers, with its constraints
changed in between, next to other files, after files were dropped and allocated
again (model: Model/TagsHist.lean).

Statement: the header of EVERY print in ANY history is `Format` of the
constraints the file holds at that moment (`hist_print_current`), hence — by
`tags_equiv` — the toolchain selects the printed file exactly when avo's
`Evaluate` of those constraints is true (`hist_header_means_constraints`).
Frame facts: prints change nothing, the printer does not matter, operations on
other slots do not matter, a newly allocated file has no header.
-/
import AvoVerif.Props.C14
import AvoVerif.Model.TagsHist
namespace Avo.Tags

theorem step_print (tc : Char → Bool) (h : Heap) (i : Nat) (p : PrintKind) :
    step tc h (.print i p) = h := rfl

theorem heapAfter_cons (tc : Char → Bool) (h : Heap) (op : Op) (ops : List Op) :
    heapAfter tc h (op :: ops) = heapAfter tc (step tc h op) ops := rfl

theorem heapAfter_append (tc : Char → Bool) (h : Heap) (a b : List Op) :
    heapAfter tc h (a ++ b) = heapAfter tc (heapAfter tc h a) b := by
  unfold heapAfter; rw [List.foldl_append]

theorem run_print (tc : Char → Bool) (h : Heap) (i : Nat) (p : PrintKind) (ops : List Op) :
    run tc h (.print i p :: ops) = printOut tc h i p :: run tc h ops := rfl

theorem run_nonprint (tc : Char → Bool) (h : Heap) (op : Op) (ops : List Op) (hp : op.isPrint = false) :
    run tc h (op :: ops) = run tc (step tc h op) ops := by
  cases op <;> first | rfl | (simp [Op.isPrint] at hp)

/-- One output per print. -/
theorem run_length (tc : Char → Bool) (h : Heap) (ops : List Op) :
    (run tc h ops).length = (ops.filter Op.isPrint).length := by
  induction ops generalizing h with
  | nil => rfl
  | cons op ops ih =>
    cases hp : op.isPrint
    · rw [run_nonprint tc h op ops hp, ih]; simp [List.filter, hp]
    · cases op <;> simp [Op.isPrint] at hp
      rw [run_print]; simp [List.filter, Op.isPrint, ih]

/-- **Every print shows the current constraints.**  In any history, the print
that follows the prefix `pre` returns the header `Format` gives for the
constraints the file holds after `pre` — whatever was printed before, by
whichever printer, for this or any other file. -/
theorem hist_print_current (tc : Char → Bool) (h : Heap) (pre post : List Op) (i : Nat) (p : PrintKind) :
    (run tc h (pre ++ .print i p :: post))[(pre.filter Op.isPrint).length]? =
      some (printOut tc (heapAfter tc h pre) i p) := by
  induction pre generalizing h with
  | nil => rfl
  | cons op pre ih =>
    cases hp : op.isPrint
    · rw [List.cons_append, run_nonprint tc h op _ hp, heapAfter_cons]
      simp only [List.filter, hp]
      exact ih _
    · cases op <;> simp [Op.isPrint] at hp
      rw [List.cons_append, run_print, heapAfter_cons, step_print]
      simp only [List.filter, Op.isPrint, List.length_cons, List.getElem?_cons_succ]
      exact ih _

/-- **C14 along histories.**  If the file in slot `i` holds a printable
constraint set when it is printed, then that print succeeds with the header
go/format synthesises for THAT set, and for every tag assignment the toolchain
selects the printed file exactly when avo's `Evaluate` of that set is true. -/
theorem hist_header_means_constraints {tc : Char → Bool} (hs : SepFree tc) (h : Heap)
    (pre post : List Op) (i : Nat) (p : PrintKind) (f : FileSt)
    (hf : heapAfter tc h pre i = some f) (hp : Printable tc f.cs) :
    (run tc h (pre ++ .print i p :: post))[(pre.filter Op.isPrint).length]? =
      some (some ⟨f.cs, some (format tc f.cs)⟩) ∧
    ∀ v, toolchainSelects v (format tc f.cs) = some (evaluate tc v f.cs) := by
  refine ⟨?_, fun v => (tags_equiv_selects hs f.cs v hp).2⟩
  rw [hist_print_current]
  simp only [printOut, hf, Option.map_some]
  rw [(tags_equiv_selects hs f.cs (fun _ => false) hp).1]

/-- The printer does not matter: the assembly printer, the stub printer and a
direct `Format` call show the same header for the same file. -/
theorem printer_irrelevant (tc : Char → Bool) (h : Heap) (i : Nat) (p q : PrintKind) :
    printOut tc h i p = printOut tc h i q := rfl

/-- The header is a function of the constraints alone: two files (or one file at
two moments, in two histories) holding the same constraints print the same header. -/
theorem header_of_constraints_only (tc : Char → Bool) (h₁ h₂ : Heap) (i j : Nat) (p q : PrintKind)
    (f g : FileSt) (hf : h₁ i = some f) (hg : h₂ j = some g) (hc : f.cs = g.cs) :
    printOut tc h₁ i p = printOut tc h₂ j q := by
  simp only [printOut, hf, hg, Option.map_some, hc]

theorem put_same (h : Heap) (i : Nat) (x : Option FileSt) : h.put i x i = x := by simp [Heap.put]

theorem put_other (h : Heap) (i j : Nat) (x : Option FileSt) (hj : j ≠ i) : h.put i x j = h j := by
  simp [Heap.put, hj]

theorem match_put_other (h : Heap) (s i : Nat) (g : FileSt → FileSt) (hi : s ≠ i) :
    (match h s with | none => h | some f => h.put s (some (g f))) i = h i := by
  cases h s with
  | none => rfl
  | some f => exact put_other _ _ _ _ (Ne.symm hi)

theorem step_other (tc : Char → Bool) (h : Heap) (op : Op) (i : Nat) (hi : op.isPrint = true ∨ op.slot ≠ i) :
    step tc h op i = h i := by
  rcases hi with hi | hi
  · cases op <;> simp [Op.isPrint] at hi; rfl
  · cases op <;> simp only [Op.slot] at hi <;> simp only [step, Op.slot] <;>
      first
        | rfl
        | exact put_other _ _ _ _ (Ne.symm hi)
        | exact match_put_other h _ i _ hi

/-- **Frame.**  Prints (of any file) and operations on other slots leave the
file in slot `i` as it is. -/
theorem heapAfter_frame (tc : Char → Bool) (h : Heap) (ops : List Op) (i : Nat)
    (hops : ∀ o ∈ ops, o.isPrint = true ∨ o.slot ≠ i) : heapAfter tc h ops i = h i := by
  induction ops generalizing h with
  | nil => rfl
  | cons op ops ih =>
    rw [heapAfter_cons, ih _ (fun o ho => hops o (List.mem_cons_of_mem _ ho))]
    exact step_other tc h op i (hops op List.mem_cons_self)

/-- **Reprint after a change.**  A raw file is printed, its constraints are
replaced by `cs₂`, then anything happens that does not touch the file (prints of
this or other files by any printer, work on other files), then it is printed
again: the second header is `Format cs₂`, not the first one. -/
theorem reprint_after_change (tc : Char → Bool) (h : Heap) (i : Nat) (p₁ p₂ : PrintKind) (f : FileSt)
    (cs₂ : Constraints) (mid post : List Op) (hf : h i = some f) (hk : f.kind = .raw)
    (hmid : ∀ o ∈ mid, o.isPrint = true ∨ o.slot ≠ i) :
    (run tc h ([.print i p₁, .set i cs₂] ++ mid ++ .print i p₂ :: post))[(mid.filter Op.isPrint).length + 1]? =
      some (some ⟨cs₂, formatChecked tc cs₂⟩) ∧
    (run tc h ([.print i p₁, .set i cs₂] ++ mid ++ .print i p₂ :: post))[0]? =
      some (some ⟨f.cs, formatChecked tc f.cs⟩) := by
  constructor
  · have := hist_print_current tc h ([.print i p₁, .set i cs₂] ++ mid) post i p₂
    have hl : (([Op.print i p₁, Op.set i cs₂] ++ mid).filter Op.isPrint).length = (mid.filter Op.isPrint).length + 1 := by
      simp [List.filter, Op.isPrint]
    rw [hl] at this
    rw [this, heapAfter_append]
    unfold printOut
    rw [heapAfter_frame tc _ mid i hmid]
    have hs : heapAfter tc h [.print i p₁, .set i cs₂] i = some { f with cs := cs₂ } := by
      simp only [heapAfter, List.foldl, step, Op.slot, hf, applyFile, hk]
      exact put_same _ _ _
    simp only [hs, Option.map_some]
  · simp only [List.cons_append, List.nil_append, run_print, List.getElem?_cons_zero, printOut, hf, Option.map_some]

theorem formatChecked_nil (tc : Char → Bool) : formatChecked tc [] = some .none := by
  have hf0 : format tc [] = .none := rfl
  have h1 := formatChecked_none tc [] hf0
  have hl : (split '\n' (goString [] ++ stubSuffix)).any tooLong = false := by decide
  simpa [hl] using h1

/-- **A new file has no header**, whatever was in the slot (or at the address)
before and whatever was printed before. -/
theorem fresh_file_no_header (tc : Char → Bool) (h : Heap) (i : Nat) (k : FileKind) (p : PrintKind)
    (pre mid post : List Op) (hmid : ∀ o ∈ mid, o.isPrint = true ∨ o.slot ≠ i) :
    (run tc h (pre ++ .new i k :: mid ++ .print i p :: post))[((pre ++ .new i k :: mid).filter Op.isPrint).length]? =
      some (some ⟨[], some .none⟩) := by
  have := hist_print_current tc h (pre ++ .new i k :: mid) post i p
  rw [this, heapAfter_append, heapAfter_cons]
  unfold printOut
  rw [heapAfter_frame tc _ mid i hmid]
  simp only [step, put_same, Option.map_some, formatChecked_nil]

/-- Printing twice in a row gives the same header twice. -/
theorem print_twice_same (tc : Char → Bool) (h : Heap) (i : Nat) (p q : PrintKind) (ops : List Op) :
    run tc h (.print i p :: .print i q :: ops) = printOut tc h i p :: printOut tc h i p :: run tc h ops := rfl

/-- A `build.Context` that is changed only through its own routes
(`Constraints`, `Constraint`, `ConstraintExpr`) always holds a valid set. -/
theorem ctx_routes_keep_valid (tc : Char → Bool) (f : FileSt) (op : Op) (hk : f.kind = .ctx)
    (hv : validate tc f.cs = true)
    (hop : match op with | .replace _ _ _ => False | .setTerm _ _ _ _ _ => False | _ => True) :
    validate tc (applyFile tc f op).cs = true := by
  have hset : ∀ cs, validate tc (ctxSet tc f cs).cs = true := by
    intro cs; unfold ctxSet; split <;> simp_all
  cases op <;> simp only [applyFile, hk] <;> first
    | exact hset _
    | exact hv
    | exact absurd hop id
    | (split <;> first | exact hv | exact hset _)

/-! ### Acceptor -/

/-- The acceptor of `accept-hist` lines decides: every print of the history
satisfies the property on its own observation (`Obs.Holds`: the toolchain
accepts the header of that print and reads it, alone and inside the printed
file, as avo evaluates the constraints the file held at that moment). -/
theorem acceptHist_sound (obs : List Obs) : acceptHist obs = true ↔ ∀ o ∈ obs, o.Holds := by
  unfold acceptHist
  rw [List.all_eq_true]
  exact ⟨fun h o ho => (acceptObs_sound o).mp (h o ho), fun h o ho => (acceptObs_sound o).mpr (h o ho)⟩

/-! ### Non-vacuity -/

private def s (x : String) : Str := x.toList

/-- The history of the missed change: a context gets `amd64`, the assembly is
printed, `!purego` is added, the stubs are printed: the second header carries
both; a stale first header (`//go:build amd64`) would select the file under
`{amd64, purego}` where avo's `Evaluate` says no. -/
example :
    let ops : List Op := [.new 0 .ctx, .addExpr 0 (s "amd64"), .print 0 .asm, .addExpr 0 (s "!purego"), .print 0 .stub]
    (run asciiTag Heap.empty ops).map (fun o => o.map (fun r => r.hdr.map (fun h => String.ofList h.text))) =
      [some (some "//go:build amd64\n"), some (some "//go:build amd64 && !purego\n")] ∧
    toolchainSelects (fun _ => true) (.goBuild (.tag (s "amd64"))) = some true ∧
    evaluate asciiTag (fun _ => true) [[[s "amd64"]], [[s "!purego"]]] = false := by decide

/-- Replace, clear, set again, two files alternating, drop and allocate again, an
invalid set refused by the context. -/
example :
    let a : Constraints := [[[s "a"]]]
    let b : Constraints := [[[s "b"], [s "!c"]]]
    let ops : List Op := [.new 0 .raw, .new 1 .ctx, .set 0 a, .set 1 b, .print 0 .stub, .print 1 .asm, .set 0 b,
      .print 0 .asm, .clear 0, .print 0 .stub, .set 0 a, .print 0 .fmt, .set 1 [[[s "a-b"]]], .print 1 .stub,
      .drop 0, .new 0 .raw, .print 0 .asm, .replace 1 0 [[s "x"]], .setTerm 1 0 0 0 (s "!y"), .print 1 .stub]
    (run asciiTag Heap.empty ops).map (fun o => o.map (fun r => r.hdr.map (fun h => String.ofList h.text))) =
      [some (some "//go:build a\n"), some (some "//go:build b || !c\n"), some (some "//go:build b || !c\n"),
       some (some ""), some (some "//go:build a\n"), some (some "//go:build b || !c\n"), some (some ""),
       some (some "//go:build !y\n")] ∧
    ((heapAfter asciiTag Heap.empty ops) 1).map (·.errs) = some 1 := by decide

example : Printable asciiTag [[[s "amd64"]], [[s "!purego"]]] :=
  printable_of_checks _ _ (by decide) (by decide) (by decide) (by decide)

example :
    let good : Obs := ⟨false, false, [true, false], [some true, some false], [some true, some false],
      [some true, some false], []⟩
    acceptHist [good, good] = true ∧ acceptHist [good, { good with tcb := [some true, some true] }] = false ∧
    firstBadPrint [good, { good with tcb := [some true, some true] }, good] = some 1 := by decide

end Avo.Tags
