/-
C10 — what the ACCEPTOR's statement means: if `R` is obtained from `W` by
deleting removable nodes only (`Pruned R W R`, which is what `walk R W R = []`
establishes for an output of the real passes, `walk_sound`), then every halting
run of `W` is matched by a halting run of `R` ending in the same machine state —
for every instruction semantics in which the deleted instructions change no
state (`accepted_halts_partial`).  This does not depend on which algorithm chose
the nodes to delete.
-/
import AvoVerif.Props.C10Compose
import AvoVerif.Props.C10Accept
namespace Avo.Cleanup
open Avo.Func

variable {σ : Type}

theorem runK_add (exec : XInstr → σ → σ × Bool) (W : List XNode) :
    ∀ (n m : Nat) (st st' : List XNode × σ), runK exec W n st = some st' →
      runK exec W (n + m) st = runK exec W m st'
  | 0, m, st, st', h => by
    simp only [runK, Option.some.injEq] at h
    subst h; simp
  | n + 1, m, st, st', h => by
    cases hs : step exec W st with
    | none => rw [runK_succ_none exec W n _ hs] at h; cases h
    | some x =>
      rw [runK_succ_some exec W n _ x hs] at h
      have : n + 1 + m = (n + m) + 1 := by omega
      rw [this, runK_succ_some exec W (n + m) _ x hs]
      exact runK_add exec W n m x st' h

theorem xlabels_sublist {a b : List XNode} (h : a.Sublist b) : (xlabels a).Sublist (xlabels b) := by
  induction h with
  | slnil => exact List.Sublist.refl _
  | cons x _ ih => cases x <;> simp only [xlabels] <;> first | exact ih.cons _ | exact ih
  | cons_cons x _ ih => cases x <;> simp only [xlabels] <;> first | exact ih.cons_cons _ | exact ih

theorem after_none_iff (l : String) : ∀ ns : List XNode, after l ns = none ↔ l ∉ xlabels ns
  | [] => by simp [after, xlabels]
  | .label l' :: ns => by
    simp only [after, xlabels, List.mem_cons, not_or]
    by_cases h : l' = l
    · subst h; simp
    · have hb : (l' == l) = false := by simpa using h
      simp only [hb, Bool.false_eq_true, if_false, after_none_iff l ns]
      exact ⟨fun hn => ⟨fun e => h e.symm, hn⟩, fun hn => hn.2⟩
  | .comment :: ns => by simpa [after, xlabels] using after_none_iff l ns
  | .instr _ :: ns => by simpa [after, xlabels] using after_none_iff l ns

theorem after_append_notin (l : String) (q : List XNode) : ∀ p : List XNode, l ∉ xlabels p →
    after l (p ++ q) = after l q
  | [], _ => rfl
  | .label l' :: p, h => by
    simp only [xlabels, List.mem_cons, not_or] at h
    have hb : (l' == l) = false := by simpa using (fun e : l' = l => h.1 e.symm)
    simp only [List.cons_append, after, hb]
    exact after_append_notin l q p h.2
  | .comment :: p, h => by simpa [after, xlabels] using after_append_notin l q p (by simpa [xlabels] using h)
  | .instr _ :: p, h => by simpa [after, xlabels] using after_append_notin l q p (by simpa [xlabels] using h)

theorem leadingLabels_sub (l : String) : ∀ ns : List XNode, l ∈ leadingLabels ns → l ∈ xlabels ns
  | [], h => by simp [leadingLabels] at h
  | .label l' :: ns, h => by
    simp only [leadingLabels, List.mem_cons] at h
    simp only [xlabels, List.mem_cons]
    rcases h with e | h
    · exact Or.inl e
    · exact Or.inr (leadingLabels_sub l ns h)
  | .comment :: ns, h => by
    simp only [leadingLabels] at h; simpa [xlabels] using leadingLabels_sub l ns h
  | .instr _ :: ns, h => by simp [leadingLabels] at h

/-- A label that a remaining instruction refers to is kept, and it denotes
corresponding program points before and after. -/
theorem after_pruned (R : List XNode) (l : String)
    (hl : ∃ i, XNode.instr i ∈ R ∧ i.cf.labelOp = some l) :
    ∀ (c c' : List XNode), Pruned R c c' → ∀ d, after l c = some d →
      ∃ d', after l c' = some d' ∧ Pruned R d d' := by
  intro c c' hp
  induction hp with
  | nil => intro d h; simp [after] at h
  | keep a as bs h ih =>
    intro d hd
    cases a with
    | label l' =>
      simp only [after] at hd ⊢
      by_cases he : (l' == l) = true
      · rw [if_pos he] at hd ⊢
        injection hd with hd
        exact ⟨bs, rfl, hd ▸ h⟩
      · rw [if_neg he] at hd ⊢
        exact ih d hd
    | comment => simp only [after] at hd ⊢; exact ih d hd
    | instr i => simp only [after] at hd ⊢; exact ih d hd
  | drop a as bs hr h ih =>
    intro d hd
    cases a with
    | label l' =>
      simp only [after] at hd
      by_cases he : (l' == l) = true
      · exfalso
        have : l' = l := by simpa using he
        subst this
        obtain ⟨i, hi, hlo⟩ := hl
        exact hr i hi hlo
      · rw [if_neg he] at hd
        exact ih d hd
    | comment => simp only [after] at hd; exact ih d hd
    | instr i => simp only [after] at hd; exact ih d hd

/-- A deleted jump lands in the label run that follows it: the original
continues behind that label, the result reaches the corresponding point by
silent steps over the labels and comments that were kept. -/
theorem lead_pruned (exec : XInstr → σ → σ × Bool) (Rw R : List XNode) (l : String) (s : σ) :
    ∀ (rest c' : List XNode), Pruned R rest c' → l ∈ leadingLabels rest →
      ∃ tail, after l rest = some tail ∧
        ∃ n d', runK exec Rw n (c', s) = some (d', s) ∧ Pruned R tail d' := by
  intro rest c' hp
  induction hp with
  | nil => intro h; simp [leadingLabels] at h
  | keep a as bs h ih =>
    intro hl
    cases a with
    | label l' =>
      by_cases he : l' = l
      · subst he
        exact ⟨as, by simp [after], 1, bs, by simp [runK, step], h⟩
      · have hb : (l' == l) = false := by simpa using he
        have hl' : l ∈ leadingLabels as := by
          simp only [leadingLabels, List.mem_cons] at hl
          rcases hl with e | hl
          · exact absurd e.symm he
          · exact hl
        obtain ⟨tail, ht, n, d', hrun, hpd⟩ := ih hl'
        refine ⟨tail, by simp only [after, hb]; exact ht, n + 1, d', ?_, hpd⟩
        rw [runK_succ_some exec Rw n _ (bs, s) (by simp [step])]; exact hrun
    | comment =>
      have hl' : l ∈ leadingLabels as := by simpa [leadingLabels] using hl
      obtain ⟨tail, ht, n, d', hrun, hpd⟩ := ih hl'
      refine ⟨tail, by simp only [after]; exact ht, n + 1, d', ?_, hpd⟩
      rw [runK_succ_some exec Rw n _ (bs, s) (by simp [step])]; exact hrun
    | instr i => simp [leadingLabels] at hl
  | drop a as bs hr h ih =>
    intro hl
    cases a with
    | label l' =>
      by_cases he : l' = l
      · subst he
        exact ⟨as, by simp [after], 0, bs, rfl, h⟩
      · have hb : (l' == l) = false := by simpa using he
        have hl' : l ∈ leadingLabels as := by
          simp only [leadingLabels, List.mem_cons] at hl
          rcases hl with e | hl
          · exact absurd e.symm he
          · exact hl
        obtain ⟨tail, ht, n, d', hrun, hpd⟩ := ih hl'
        exact ⟨tail, by simp only [after, hb]; exact ht, n, d', hrun, hpd⟩
    | comment =>
      have hl' : l ∈ leadingLabels as := by simpa [leadingLabels] using hl
      obtain ⟨tail, ht, n, d', hrun, hpd⟩ := ih hl'
      exact ⟨tail, by simp only [after]; exact ht, n, d', hrun, hpd⟩
    | instr i => simp [leadingLabels] at hl

/-- With pairwise distinct labels, a label of the run behind instruction `i` is bound right there. -/
theorem after_lead (W pre : List XNode) (i : XInstr) (rest : List XNode) (hc : W = pre ++ XNode.instr i :: rest)
    (hnd : (xlabels W).Nodup) (l : String) (hl : l ∈ leadingLabels rest) : after l W = after l rest := by
  have hx : xlabels W = xlabels pre ++ xlabels rest := by rw [hc, xlabels_append]; simp [xlabels]
  rw [hx] at hnd
  have hnot : l ∉ xlabels pre := fun hm =>
    (List.nodup_append.mp hnd).2.2 l hm l (leadingLabels_sub l rest hl) rfl
  rw [hc, after_append_notin l _ pre hnot]
  simp [after]

/-- What the instruction semantics must satisfy on the instructions that may be
deleted: no effect on the state, not a return, and — if flagged as a branch —
its target is the label operand, defined in the label run that follows. -/
def DeletedAreNoops (exec : XInstr → σ → σ × Bool) (W R : List XNode) : Prop :=
  ∀ i suf, XNode.instr i ∈ W → Removable R (.instr i) suf →
    (∀ s, (exec i s).1 = s) ∧ i.cf.isTerminal = false ∧
    (i.cf.isBranch = true → ∃ l, i.cf.labelOp = some l ∧ l ∈ leadingLabels suf)

theorem pruned_step (exec : XInstr → σ → σ × Bool) (W R : List XNode) (hp0 : Pruned R W R)
    (hnd : (xlabels W).Nodup) (hdel : DeletedAreNoops exec W R)
    (pre c pre' c' : List XNode) (hc : W = pre ++ c) (hc' : R = pre' ++ c') (hr : Pruned R c c')
    (s : σ) (d : List XNode) (t : σ) (hs : step exec W (c, s) = some (d, t)) :
    ∃ n d', runK exec R n (c', s) = some (d', t) ∧ Pruned R d d' := by
  cases hr with
  | nil => simp [step] at hs
  | keep a as bs h =>
    cases a with
    | label l =>
      simp only [step, Option.some.injEq, Prod.mk.injEq] at hs
      obtain ⟨h1, h2⟩ := hs; subst h1; subst h2
      exact ⟨1, bs, by simp [runK, step], h⟩
    | comment =>
      simp only [step, Option.some.injEq, Prod.mk.injEq] at hs
      obtain ⟨h1, h2⟩ := hs; subst h1; subst h2
      exact ⟨1, bs, by simp [runK, step], h⟩
    | instr i =>
      simp only [step] at hs
      by_cases hterm : i.cf.isTerminal = true
      · simp [hterm] at hs
      · simp only [hterm, Bool.false_eq_true, if_false] at hs
        by_cases hbr : (i.cf.isBranch && (exec i s).2) = true
        · simp only [hbr, if_true] at hs
          cases htg : i.cf.target with
          | none => simp [htg] at hs
          | some l =>
            simp only [htg, Option.map_eq_some_iff, Prod.mk.injEq] at hs
            obtain ⟨d0, hd0, h1, h2⟩ := hs
            subst h1; subst h2
            have hlo : i.cf.labelOp = some l := by
              unfold Instr.target at htg
              by_cases hb : i.cf.isBranch = true
              · simpa [hb] using htg
              · simp [hb] at htg
            have hmem : XNode.instr i ∈ R := by rw [hc']; simp
            obtain ⟨d', hd', hpd⟩ := after_pruned R l ⟨i, hmem, hlo⟩ W R hp0 d0 hd0
            refine ⟨1, d', ?_, hpd⟩
            simp [runK, step, hterm, hbr, htg, hd']
        · simp only [hbr, Bool.false_eq_true, if_false, Option.some.injEq, Prod.mk.injEq] at hs
          obtain ⟨h1, h2⟩ := hs; subst h1; subst h2
          exact ⟨1, bs, by simp [runK, step, hterm, hbr], h⟩
  | drop a as bs hrem h =>
    cases a with
    | label l =>
      simp only [step, Option.some.injEq, Prod.mk.injEq] at hs
      obtain ⟨h1, h2⟩ := hs; subst h1; subst h2
      exact ⟨0, c', rfl, h⟩
    | comment =>
      simp only [step, Option.some.injEq, Prod.mk.injEq] at hs
      obtain ⟨h1, h2⟩ := hs; subst h1; subst h2
      exact ⟨0, c', rfl, h⟩
    | instr i =>
      have hmem : XNode.instr i ∈ W := by rw [hc]; simp
      obtain ⟨hst, hterm, hbl⟩ := hdel i as hmem hrem
      simp only [step, hterm, Bool.false_eq_true, if_false] at hs
      by_cases hbr : (i.cf.isBranch && (exec i s).2) = true
      · have hb : i.cf.isBranch = true := by
          simp only [Bool.and_eq_true] at hbr; exact hbr.1
        obtain ⟨l, hlo, hlead⟩ := hbl hb
        have htg : i.cf.target = some l := by simp [Instr.target, hb, hlo]
        obtain ⟨tail, htail, n, d', hrun, hpd⟩ := lead_pruned exec R R l s as c' h hlead
        have haft : after l W = some tail := by rw [after_lead W pre i as hc hnd l hlead]; exact htail
        simp only [hbr, if_true, htg, haft, Option.map_some, Option.some.injEq, Prod.mk.injEq] at hs
        obtain ⟨h1, h2⟩ := hs
        subst h1
        rw [hst s] at h2; subst h2
        exact ⟨n, d', hrun, hpd⟩
      · simp only [hbr, Bool.false_eq_true, if_false, Option.some.injEq, Prod.mk.injEq] at hs
        obtain ⟨h1, h2⟩ := hs
        subst h1
        rw [hst s] at h2; subst h2
        exact ⟨0, c', rfl, h⟩

theorem pruned_run (exec : XInstr → σ → σ × Bool) (W R : List XNode) (hp0 : Pruned R W R)
    (hnd : (xlabels W).Nodup) (hdel : DeletedAreNoops exec W R) :
    ∀ (k : Nat) (pre c pre' c' : List XNode) (s : σ) (d : List XNode) (t : σ),
      W = pre ++ c → R = pre' ++ c' → Pruned R c c' → runK exec W k (c, s) = some (d, t) →
      ∃ n d', runK exec R n (c', s) = some (d', t) ∧ Pruned R d d'
  | 0, _, c, _, c', s, d, t, _, _, hr, h => by
    simp only [runK, Option.some.injEq, Prod.mk.injEq] at h
    obtain ⟨h1, h2⟩ := h; subst h1; subst h2
    exact ⟨0, c', rfl, hr⟩
  | k + 1, pre, c, pre', c', s, d, t, hc, hc', hr, h => by
    cases hs : step exec W (c, s) with
    | none => rw [runK_succ_none exec W k _ hs] at h; cases h
    | some st1 =>
      rw [runK_succ_some exec W k _ st1 hs] at h
      obtain ⟨n1, d1, hrun1, hp1⟩ := pruned_step exec W R hp0 hnd hdel pre c pre' c' hc hc' hr s st1.1 st1.2 hs
      obtain ⟨p2, hp2⟩ := step_suffix exec W pre c hc s st1 hs
      obtain ⟨p2', hp2'⟩ := runK_suffix exec R n1 pre' c' s (d1, st1.2) hc' hrun1
      obtain ⟨n2, d2, hrun2, hpd⟩ := pruned_run exec W R hp0 hnd hdel k p2 st1.1 p2' d1 st1.2 d t hp2 hp2' hp1 h
      exact ⟨n1 + n2, d2, by rw [runK_add exec R n1 n2 _ _ hrun1]; exact hrun2, hpd⟩

theorem pruned_halt (exec : XInstr → σ → σ × Bool) (W R : List XNode)
    (hdel : DeletedAreNoops exec W R) (hsub : R.Sublist W)
    (pre d d' : List XNode) (hc : W = pre ++ d) (hr : Pruned R d d') (t : σ)
    (hh : step exec W (d, t) = none) : step exec R (d', t) = none := by
  cases hr with
  | nil => simp [step]
  | keep a as bs h =>
    cases a with
    | label l => simp [step] at hh
    | comment => simp [step] at hh
    | instr i =>
      simp only [step] at hh ⊢
      by_cases hterm : i.cf.isTerminal = true
      · simp [hterm]
      · simp only [hterm, Bool.false_eq_true, if_false] at hh ⊢
        by_cases hbr : (i.cf.isBranch && (exec i t).2) = true
        · simp only [hbr, if_true] at hh ⊢
          cases htg : i.cf.target with
          | none => rfl
          | some l =>
            simp only [htg, Option.map_eq_none_iff] at hh ⊢
            have hn : l ∉ xlabels W := (after_none_iff l W).mp hh
            exact (after_none_iff l R).mpr (fun hm => hn ((xlabels_sublist hsub).subset hm))
        · simp [hbr] at hh
  | drop a as bs hrem h =>
    cases a with
    | label l => simp [step] at hh
    | comment => simp [step] at hh
    | instr i =>
      exfalso
      have hmem : XNode.instr i ∈ W := by rw [hc]; simp
      obtain ⟨_, hterm, hbl⟩ := hdel i as hmem hrem
      simp only [step, hterm, Bool.false_eq_true, if_false] at hh
      by_cases hbr : (i.cf.isBranch && (exec i t).2) = true
      · have hb : i.cf.isBranch = true := by
          simp only [Bool.and_eq_true] at hbr; exact hbr.1
        obtain ⟨l, hlo, hlead⟩ := hbl hb
        have htg : i.cf.target = some l := by simp [Instr.target, hb, hlo]
        have hin : l ∈ xlabels W := by
          rw [hc, xlabels_append]
          exact List.mem_append_right _ (by simpa [xlabels] using leadingLabels_sub l as hlead)
        simp only [hbr, if_true, htg, Option.map_eq_none_iff] at hh
        exact ((after_none_iff l W).mp hh) hin
      · simp [hbr] at hh

/-- **C10 for every accepted output (partial).** Let `R` arise from `W` by
deleting removable nodes only, let the labels of `W` be pairwise distinct and
let the deleted instructions be no-ops of the semantics `exec`
(`DeletedAreNoops`). If `W`, started in state `s`, halts in state `t`, then `R`
started in `s` halts in `t`.

Missing for the full statement: the converse direction and non-termination
(a deleted jump to the next label is matched by several silent steps, a deleted
label by none: a stuttering simulation whose progress part is not proved here). -/
theorem pruned_halts_partial (exec : XInstr → σ → σ × Bool) (W R : List XNode) (hp : Pruned R W R)
    (hnd : (xlabels W).Nodup) (hdel : DeletedAreNoops exec W R) (s t : σ)
    (h : HaltsWith exec W s t) : HaltsWith exec R s t := by
  obtain ⟨k, d, hrun, hhalt⟩ := h
  obtain ⟨n, d', hrun', hpd⟩ := pruned_run exec W R hp hnd hdel k [] W [] R s d t rfl rfl hp hrun
  obtain ⟨p, hpre⟩ := runK_suffix exec W k [] W s (d, t) rfl hrun
  exact ⟨n, d', hrun', pruned_halt exec W R hdel hp.sublist p d d' hpre hpd t hhalt⟩

/-- The same for an output the acceptor's walk raises no objection against. -/
theorem accepted_halts_partial (exec : XInstr → σ → σ × Bool) (W R : List XNode) (hacc : walk R W R = [])
    (hnd : (xlabels W).Nodup) (hdel : DeletedAreNoops exec W R) (s t : σ)
    (h : HaltsWith exec W s t) : HaltsWith exec R s t :=
  pruned_halts_partial exec W R (walk_sound R W R hacc) hnd hdel s t h

/-! ## Non-vacuity: both of two consecutive self-moves and a conditional jump to the next label deleted
(more than the model passes delete) -/

def exW : List XNode :=
  [.instr ⟨0, ⟨true, true, false, some "n"⟩, "JNE", []⟩, .label "n",
   .instr ⟨1, ⟨false, false, false, none⟩, "MOVQ", [.reg ⟨256, 15⟩, .reg ⟨256, 15⟩]⟩,
   .instr ⟨2, ⟨false, false, false, none⟩, "MOVQ", [.reg ⟨256, 15⟩, .reg ⟨256, 15⟩]⟩,
   .instr ⟨3, ⟨false, false, false, none⟩, "ADDQ", []⟩,
   .instr ⟨4, ⟨false, false, true, none⟩, "RET", []⟩]

def exR : List XNode :=
  [.instr ⟨3, ⟨false, false, false, none⟩, "ADDQ", []⟩, .instr ⟨4, ⟨false, false, true, none⟩, "RET", []⟩]

/-- `JNE` taken iff the counter is non-zero, `ADDQ` increments, everything else does nothing -/
def exExecG (i : XInstr) (s : Nat) : Nat × Bool :=
  if i.opcode = "JNE" then (s, s != 0) else if i.opcode = "ADDQ" then (s + 1, false) else (s, false)

example : walk exR exW exR = [] := by decide +kernel

theorem exG_noops : DeletedAreNoops exExecG exW exR := by
  intro i suf hm hrem
  simp only [exW, List.mem_cons, XNode.instr.injEq, List.not_mem_nil, or_false, reduceCtorEq, false_or] at hm
  rcases hm with rfl | rfl | rfl | rfl | rfl
  · refine ⟨fun s => rfl, rfl, fun _ => ?_⟩
    rcases hrem with (⟨r, hr, _⟩ | ⟨r, k, hr, _⟩) | ⟨_, l, hl, hlead⟩
    · cases hr
    · cases hr
    · exact ⟨l, hl, hlead⟩
  · exact ⟨fun s => rfl, rfl, fun h => by cases h⟩
  · exact ⟨fun s => rfl, rfl, fun h => by cases h⟩
  · exfalso
    rcases hrem with (⟨r, hr, _⟩ | ⟨r, k, hr, _⟩) | ⟨hj, _⟩
    · cases hr
    · cases hr
    · revert hj; decide +kernel
  · exfalso
    rcases hrem with (⟨r, hr, _⟩ | ⟨r, k, hr, _⟩) | ⟨hj, _⟩
    · cases hr
    · cases hr
    · revert hj; decide +kernel

/-- The hypotheses of `accepted_halts_partial` are satisfiable together. -/
example (s t : Nat) (h : HaltsWith exExecG exW s t) : HaltsWith exExecG exR s t :=
  accepted_halts_partial exExecG exW exR (by decide +kernel) (by decide) exG_noops s t h

example : HaltsWith exExecG exW 5 6 := ⟨4, [.instr ⟨4, ⟨false, false, true, none⟩, "RET", []⟩], by decide, by decide⟩

end Avo.Cleanup
