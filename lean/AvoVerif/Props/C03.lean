/-
C03 — Allocation obeys the register file: class, width, reserved and pinned registers.
-/
import AvoVerif.Model.Alloc
import AvoVerif.Model.AllocCheck
import AvoVerif.Gen.Regs
namespace Avo.Alloc
open Avo.Reg Avo.AllocCheck

/-- **Statement.** What the property demands of one operand register `o` of the
source function and the register `b` found in its place after compilation,
under allocation `al` and register table `tbl`. -/
def BoundOK (tbl : List RegRow) (al : List (Nat × Nat)) (o b : R) : Prop :=
  idIsVirtual b.id = false ∧
  (idIsVirtual o.id = false → b = o) ∧
  (idIsVirtual o.id = true → ∃ p row,
      al.find? (·.1 == o.id) = some (o.id, p) ∧            -- one assignment per virtual, used at every occurrence
      row ∈ tbl ∧ b = ⟨row.id, row.mask⟩ ∧
      row.id = p ∧ row.mask = o.mask ∧                        -- same width view (8H stays 8H, 8L stays 8L, …)
      row.kind = idKind p ∧
      idKind p = idKind o.id)                                 -- same class as the virtual register

/-- The allocation maps virtual ids to ids of the same class (the shape `checkAllocShape` tests). -/
def SameClass (al : List (Nat × Nat)) : Prop := ∀ e ∈ al, idKind e.2 = idKind e.1

theorem sameClass_of_shape (al : List (Nat × Nat)) (h : checkAllocShape al = true) : SameClass al := by
  intro e he
  have := List.all_eq_true.mp h e he
  simp only [Bool.and_eq_true, beq_iff_eq] at this
  exact this.2.symm

/-- The table's ids determine (kind, index): two rows agreeing on the kind and
index encoded in an id have that id. -/
def IdsDetermined (tbl : List RegRow) : Prop :=
  ∀ row ∈ tbl, ∀ row' ∈ tbl, row.kind = idKind row'.id → row.idx = idIndex row'.id → row.id = row'.id

/-- Allocation targets are physical ids of the table. -/
def TargetsInTable (tbl : List RegRow) (al : List (Nat × Nat)) : Prop :=
  ∀ e ∈ al, idIsVirtual e.2 = false ∧ ∃ row ∈ tbl, row.id = e.2

/-- **C03 (binding).** Whenever the model of BindRegisters yields a register it
satisfies the statement — for every table, allocation and register. -/
theorem bindReg_ok (tbl : List RegRow) (al : List (Nat × Nat)) (o b : R)
    (hdet : IdsDetermined tbl) (hal : TargetsInTable tbl al) (hcls : SameClass al)
    (h : bindReg tbl al o = some b) : BoundOK tbl al o b := by
  unfold bindReg at h
  by_cases hv : idIsVirtual o.id = true
  · simp only [hv, Bool.not_true, Bool.false_eq_true, if_false] at h
    cases hf : al.find? (·.1 == o.id) with
    | none => simp [hf] at h
    | some e =>
      rcases e with ⟨v, p⟩
      simp only [hf, Option.map_eq_some_iff] at h
      obtain ⟨row, hrow, rfl⟩ := h
      have hv' : v = o.id := by
        have := List.find?_some hf; simpa using this
      subst hv'
      obtain ⟨hp, row', hrow'm, hrow'id⟩ := hal _ (List.mem_of_find?_eq_some hf)
      simp only at hp hrow'id
      unfold lookupID at hrow
      simp only [hp, Bool.false_eq_true, if_false] at hrow
      unfold lookup at hrow
      have hmem := List.mem_of_find?_eq_some hrow
      have hprop := List.find?_some hrow
      simp only [Bool.and_eq_true, beq_iff_eq] at hprop
      have hidp : row.id = p := by
        rw [← hrow'id]
        exact hdet row hmem row' hrow'm (by rw [hrow'id]; exact hprop.1.1) (by rw [hrow'id]; exact hprop.1.2)
      refine ⟨by simp [hidp, hp], fun h0 => by simp [hv] at h0,
        fun _ => ⟨p, row, hf, hmem, rfl, hidp, hprop.2, by rw [← hrow'id] at *; exact (by rw [hrow'id]; exact hprop.1.1),
          hcls _ (List.mem_of_find?_eq_some hf)⟩⟩
  · have hv' : idIsVirtual o.id = false := by simpa using hv
    simp only [hv', Bool.not_false, if_true] at h
    cases h
    exact ⟨hv', fun _ => rfl, fun h0 => by simp [hv'] at h0⟩

/-- **C03 (no emission on failure).** If some operand register cannot be bound
(no assignment, or the assigned register has no view of that width — e.g. a
high-byte view on a register other than A/C/D/B), verification fails and the
model of `Compile` reports an error. -/
theorem verifyBound_false_of_unbound (tbl : List RegRow) (al : List (Nat × Nat)) (is : List AInstr)
    (i : AInstr) (hi : i ∈ is) (r : R) (hr : r ∈ i.regs) (h : bindReg tbl al r = none) :
    verifyBound tbl al is = false := by
  unfold verifyBound
  apply Bool.eq_false_iff.mpr
  intro hall
  have := List.all_eq_true.mp (List.all_eq_true.mp hall i hi) r hr
  simp [h] at this

/-! ### Facts about avo's register file (regenerated table; complete `decide`) -/

theorem regs_idsDetermined : IdsDetermined Avo.Gen.regs := by
  unfold IdsDetermined; decide +kernel

/-- Candidates for allocation are never the stack pointer or K0, in any view:
restriction is uniform over the views of an id, and `candidates` drops every
restricted row. -/
theorem regs_restricted_uniform :
    Avo.Gen.regs.all (fun r => Avo.Gen.regs.all (fun r' =>
      r.id != r'.id || r.kind != r'.kind || ((r.info &&& infoRestricted != 0) == (r'.info &&& infoRestricted != 0)))) = true := by
  decide +kernel

theorem candidates_unrestricted :
    [kindPseudo, kindGP, kindVector, kindOpmask].all (fun k =>
      (candidates Avo.Gen.regs k).all (fun id =>
        Avo.Gen.regs.all (fun r => r.id != id || r.kind != k || r.info &&& infoRestricted == 0))) = true := by
  decide +kernel

/-- **The stack pointer and K0 are never candidates** — stated through the hardware numbering (GP index 4 is the
stack pointer, opmask index 0 is K0; the numbering itself is C20's subject), not through which rows carry the
`Restricted` flag: marking further registers as reserved keeps this theorem. -/
theorem sp_k0_never_candidates :
    (candidates Avo.Gen.regs kindGP).all (fun id => idIndex id != 4) = true ∧
    (candidates Avo.Gen.regs kindOpmask).all (fun id => idIndex id != 0) = true := by
  decide +kernel

/-- … and every view of them in the file carries the flag that keeps them out. -/
theorem sp_k0_rows_restricted :
    (Avo.Gen.regs.filter (fun r => (r.kind == kindGP && r.idx == 4) || (r.kind == kindOpmask && r.idx == 0))).all
      (fun r => r.info &&& infoRestricted != 0) = true := by
  decide +kernel

/-- Candidates of a kind are ids of physical rows of that very kind (with `candidates_unrestricted`: physical,
unrestricted, right kind — all the property needs of the colour set). -/
theorem candidates_right_kind :
    [kindPseudo, kindGP, kindVector, kindOpmask].all (fun k =>
      (candidates Avo.Gen.regs k).all (fun id => !idIsVirtual id && idKind id == k &&
        Avo.Gen.regs.any (fun r => r.id == id && r.kind == k))) = true := by
  decide +kernel

/-- Non-vacuity of the three facts above: every allocatable kind has candidates. -/
theorem candidates_nonempty :
    [kindGP, kindVector, kindOpmask].all (fun k => !(candidates Avo.Gen.regs k).isEmpty) = true := by
  decide +kernel

/-- A high-byte view exists only on registers 0..3 (the A, C, D, B registers), and on each of them. -/
theorem high_byte_views :
    (Avo.Gen.regs.filter (fun r => r.kind == kindGP && r.mask == S8H)).all (fun r => r.idx < 4) = true ∧
    [0, 1, 2, 3].all (fun i => (lookup Avo.Gen.regs kindGP i S8H).isSome) = true := by
  decide +kernel

theorem lookup_returns_requested_view :
    Avo.Gen.regs.all (fun r => match lookup Avo.Gen.regs r.kind r.idx r.mask with
      | some r' => r'.kind == r.kind && r'.idx == r.idx && r'.mask == r.mask
      | none => false) = true := by
  decide +kernel

/-! ### Soundness of the `accept-bind` acceptor -/

/-- The register found in place of a virtual one is a view of the file that is not reserved — it is a row of the
virtual register's own class that does not carry the `Restricted` flag, AND it is not the stack pointer or K0 by the
hardware numbering of its id (whatever the flags say) — and a high-byte view sits on one of the registers 0..3. -/
def Unreserved (tbl : List RegRow) (o b : R) : Prop :=
  idIsVirtual o.id = true → ∃ row ∈ tbl, b = ⟨row.id, row.mask⟩ ∧ row.info &&& infoRestricted = 0 ∧
    row.kind = idKind o.id ∧ isSPorK0 b.id = false ∧
    (o.mask = S8H → idIndex b.id < 4)

/-- **`accept-bind` is sound**: a pair the acceptor lets through satisfies the statement `BoundOK` (physical;
author-chosen register unchanged; the one assignment of the virtual, in the same-width view, same class) and is
not a reserved register. No hypothesis on the table or the allocation. -/
theorem checkBindOne_sound (tbl : List RegRow) (al : List (Nat × Nat)) (o b : R)
    (h : checkBindOne tbl al o b = none) : BoundOK tbl al o b ∧ Unreserved tbl o b := by
  unfold checkBindOne at h
  by_cases hb : idIsVirtual b.id = true
  · simp [hb] at h
  have hb' : idIsVirtual b.id = false := by simpa using hb
  simp only [hb', Bool.false_eq_true, if_false] at h
  by_cases ho : idIsVirtual o.id = true
  · simp only [ho, Bool.not_true, Bool.false_eq_true, if_false] at h
    cases hf : al.find? (·.1 == o.id) with
    | none => simp [hf] at h
    | some e =>
      rcases e with ⟨v, p⟩
      have hv : v = o.id := by have := List.find?_some hf; simpa using this
      subst hv
      simp only [hf] at h
      by_cases h1 : (b.id != p) = true
      · simp [h1] at h
      by_cases h2 : (b.mask != o.mask) = true
      · simp [h1, h2] at h
      by_cases h3 : (idKind p != idKind o.id) = true
      · simp [h1, h2, h3] at h
      simp only [h1, h2, h3, Bool.false_eq_true, if_false] at h
      cases hl : lookupID tbl p o.mask with
      | none => simp [hl] at h
      | some row =>
        simp only [hl] at h
        by_cases h4 : (row.id != p) = true
        · simp [h4] at h
        by_cases h5 : (row.info &&& infoRestricted != 0) = true
        · simp [h4, h5] at h
        by_cases h7 : isSPorK0 p = true
        · simp [h4, h5, h7] at h
        by_cases h6 : (o.mask == S8H && decide (idIndex p ≥ 4)) = true
        · simp [h4, h5, h7, h6] at h
        have e1 : b.id = p := by simpa using h1
        have e2 : b.mask = o.mask := by simpa using h2
        have e3 : idKind p = idKind o.id := by simpa using h3
        have e4 : row.id = p := by simpa using h4
        have e5 : row.info &&& infoRestricted = 0 := by simpa using h5
        have hp : idIsVirtual p = false := by rw [← e1]; exact hb'
        unfold lookupID at hl
        simp only [hp, Bool.false_eq_true, if_false] at hl
        unfold lookup at hl
        have hmem := List.mem_of_find?_eq_some hl
        have hprop := List.find?_some hl
        simp only [Bool.and_eq_true, beq_iff_eq] at hprop
        have hbrow : b = ⟨row.id, row.mask⟩ := by
          rcases b with ⟨bi, bm⟩
          simp only at e1 e2
          simp [e1, e2, e4, hprop.2]
        refine ⟨⟨hb', fun h0 => by simp [ho] at h0, fun _ => ⟨p, row, hf, hmem, hbrow, e4, hprop.2, hprop.1.1, e3⟩⟩,
          fun _ => ⟨row, hmem, hbrow, e5, hprop.1.1.trans e3, by rw [e1]; simpa using h7, fun h8 => ?_⟩⟩
        rw [e1]
        simp only [Bool.and_eq_true, beq_iff_eq, decide_eq_true_eq, not_and, Nat.not_le] at h6
        exact h6 h8
  · have ho' : idIsVirtual o.id = false := by simpa using ho
    simp only [ho', Bool.not_false, if_true] at h
    by_cases he : (o.id == b.id && o.mask == b.mask) = true
    · simp only [Bool.and_eq_true, beq_iff_eq] at he
      refine ⟨⟨hb', fun _ => ?_, fun h0 => by simp [ho'] at h0⟩, fun h0 => by simp [ho'] at h0⟩
      rcases o with ⟨oi, om⟩; rcases b with ⟨bi, bm⟩
      simp only at he
      simp [he.1, he.2]
    · simp [he] at h

theorem checkBind_sound (tbl : List RegRow) (al : List (Nat × Nat)) (pairs : List (R × R))
    (h : checkBind tbl al pairs = none) : ∀ p ∈ pairs, BoundOK tbl al p.1 p.2 ∧ Unreserved tbl p.1 p.2 := by
  intro p hp
  unfold checkBind at h
  rw [List.findSome?_eq_none_iff] at h
  exact checkBindOne_sound tbl al p.1 p.2 (h p hp)

/-- Non-vacuity of `checkBind_sound`, and the acceptor rejects what it should: v ↦ RCX read as CH is accepted;
v left virtual, v ↦ RSI read as 8H, v ↦ RSP, a changed author-chosen register and a changed width are rejected.
(Author-written SP / K0 next to virtual registers: see `spCopy…` / `k0Copy…` below.) -/
example : checkBind Avo.Gen.regs [(257, 65792)] [(⟨257, 2⟩, ⟨65792, 2⟩), (⟨256, 15⟩, ⟨256, 15⟩)] = none ∧
    (checkBind Avo.Gen.regs [(257, 65792)] [(⟨257, 2⟩, ⟨257, 2⟩)]).isSome ∧
    (checkBind Avo.Gen.regs [(257, 393472)] [(⟨257, 2⟩, ⟨393472, 2⟩)]).isSome ∧
    (checkBind Avo.Gen.regs [(257, 262400)] [(⟨257, 15⟩, ⟨262400, 15⟩)]).isSome ∧
    (checkBind Avo.Gen.regs [] [(⟨256, 15⟩, ⟨65792, 15⟩)]).isSome ∧
    (checkBind Avo.Gen.regs [(257, 65792)] [(⟨257, 2⟩, ⟨65792, 1⟩)]).isSome := by
  decide +kernel

/-! ### Author-written restricted registers next to virtual registers

`MOVQ SP, v; ANDQ $-64, v; MOVQ v, y+0(FP)` (the "aligned scratch pointer" idiom: the author names the physical stack
pointer, a virtual register is a copy of it) and `KMOVQ K0, k; KNOTQ k, k; KMOVQ k, (mem)`. -/

/-- (register before, register after binding) for the operands of the SP idiom when the copy is bound to id `p` -/
def spCopyPairs (p : Nat) : List (R × R) :=
  [(⟨262400, 15⟩, ⟨262400, 15⟩), (⟨257, 15⟩, ⟨p, 15⟩), (⟨257, 15⟩, ⟨p, 15⟩), (⟨257, 15⟩, ⟨p, 15⟩)]

/-- … and of the K0 idiom (virtual opmask 769, K0 = 768, K1 = 66304) -/
def k0CopyPairs (p : Nat) : List (R × R) :=
  [(⟨768, 15⟩, ⟨768, 15⟩), (⟨769, 15⟩, ⟨p, 15⟩), (⟨769, 15⟩, ⟨p, 15⟩), (⟨769, 15⟩, ⟨p, 15⟩), (⟨769, 15⟩, ⟨p, 15⟩)]

/-- The acceptor on these functions: the author's SP / K0 left as written and the copy in RAX / K1 is accepted; the
copy bound to the stack pointer (in any of its views: 64, 32, 16, 8 bits) or to K0 is rejected — and it is still
rejected on a register file in which NO row carries the `Restricted` flag (clause `isSPorK0`: hardware numbering). -/
example : checkBind Avo.Gen.regs [(257, 256)] (spCopyPairs 256) = none ∧
    checkBind Avo.Gen.regs [(769, 66304)] (k0CopyPairs 66304) = none ∧
    (checkBind Avo.Gen.regs [(257, 262400)] (spCopyPairs 262400)).isSome ∧
    (checkBind Avo.Gen.regs [(769, 768)] (k0CopyPairs 768)).isSome ∧
    [1, 3, 7, 15].all (fun m => (checkBind Avo.Gen.regs [(257, 262400)] [(⟨262400, m⟩, ⟨262400, m⟩), (⟨257, m⟩, ⟨262400, m⟩)]).isSome) ∧
    (checkBind (Avo.Gen.regs.map (fun r => { r with info := 0 })) [(257, 262400)] (spCopyPairs 262400)).isSome ∧
    (checkBind (Avo.Gen.regs.map (fun r => { r with info := 0 })) [(769, 768)] (k0CopyPairs 768)).isSome ∧
    checkBind (Avo.Gen.regs.map (fun r => { r with info := 0 })) [(257, 256)] (spCopyPairs 256) = none := by
  decide +kernel

/-- Non-vacuity of `bindReg_ok`: virtual GP 0 viewed as 8H, allocated to RCX, binds to CH. -/
example : bindReg Avo.Gen.regs [(257, 65792)] ⟨257, 2⟩ = some ⟨65792, 2⟩ := by decide +kernel
/-- … and a high-byte view allocated to RSI cannot be bound. -/
example : bindReg Avo.Gen.regs [(257, 393472)] ⟨257, 2⟩ = none := by decide +kernel

/-! ### Whole files through `pass.Compile`: soundness of `accept-file` and `accept-print` -/

/-- **Statement (file level).** If compiling a file reported success then no function of the file is one for which
no valid assignment was found. -/
def FileOK (perFn : List FnOutcome) (compiled : Bool) : Prop :=
  compiled = true → ∀ o ∈ perFn, o ≠ FnOutcome.err

theorem checkFile_sound (perFn : List FnOutcome) (compiled : Bool) (h : checkFile perFn compiled = none) :
    FileOK perFn compiled := by
  intro hc o ho hoe
  subst hc hoe
  simp only [checkFile, if_true] at h
  rw [List.findIdx?_eq_none_iff] at h
  have := h _ ho
  simp at this

/-- … and it rejects exactly the offending function: its position, wherever it stands. -/
theorem checkFile_complete (perFn : List FnOutcome) (h : FnOutcome.err ∈ perFn) : (checkFile perFn true).isSome = true := by
  simp only [checkFile, if_true]
  rw [List.findIdx?_isSome]
  exact List.any_eq_true.mpr ⟨_, h, by decide⟩

example : checkFile [.ok, .err, .ok] true = some 1 ∧ checkFile [.err, .ok] true = some 0 ∧ checkFile [.ok, .ok, .err] true = some 2 ∧
    checkFile [.ok, .err, .ok] false = none ∧ checkFile [.ok, .unknown, .ok] true = none ∧ checkFile [] true = none := by decide

/-- model of `reg.virtual.Asm()`: `<virtual:idx:kind:size>` -/
def virtAsm (idx kind size : Nat) : List Char := virtualMark ++ s!":{idx}:{kind}:{size}>".toList

theorem hasSub_of_infix (p : List Char) : ∀ s : List Char, p <:+: s → hasSub p s = true
  | [], h => by
    have : p = [] := List.eq_nil_of_infix_nil h
    subst this; rfl
  | c :: cs, h => by
    unfold hasSub
    rcases List.infix_cons_iff.mp h with h | h
    · simp [List.isPrefixOf_iff_prefix.mpr h]
    · simp [hasSub_of_infix p cs h]

/-- **`accept-print` is sound**: a text the acceptor lets through contains the printed form of no virtual register,
whatever its index, kind and size. -/
theorem noVirtualText_sound (s : List Char) (h : noVirtualText s = true) (idx kind size : Nat) :
    ¬ (virtAsm idx kind size <:+: s) := by
  intro hin
  have hp : virtualMark <:+: s := List.IsInfix.trans (List.prefix_append _ _).isInfix hin
  have := hasSub_of_infix _ _ hp
  simp [noVirtualText, this] at h

example : noVirtualText "\tMOVQ $0x00000001, AX\n\tRET\n".toList = true ∧
    noVirtualText "\tMOVQ $0x00000001, <virtual:0:1:8>\n".toList = false ∧
    noVirtualText "\tMOVQ (<virtual:3:1:8>)(AX*2), BX".toList = false ∧ noVirtualText [] = true := by decide

end Avo.Alloc
