/-
C03 — Allocation obeys the register file: class, width, reserved and pinned registers.
-/
import AvoVerif.Model.Alloc
import AvoVerif.Gen.Regs
namespace Avo.Alloc
open Avo.Reg

/-- **Statement.** What the property demands of one operand register `o` of the
source function and the register `b` found in its place after compilation,
under allocation `al` and register table `tbl`. -/
def BoundOK (tbl : List RegRow) (al : List (Nat × Nat)) (o b : R) : Prop :=
  idIsVirtual b.id = false ∧
  (idIsVirtual o.id = false → b = o) ∧
  (idIsVirtual o.id = true → ∃ p row,
      al.find? (·.1 == o.id) = some (o.id, p) ∧            -- one assignment per virtual, used at every occurrence
      row ∈ tbl ∧ b = ⟨row.id, row.mask⟩ ∧
      row.id = p ∧ row.mask = o.mask ∧                        -- same width view (8H stays 8H, 8L stays 8L, …)
      row.kind = idKind p)

/-- The table's ids determine (kind, index): two rows agreeing on the kind and
index encoded in an id have that id. -/
def IdsDetermined (tbl : List RegRow) : Prop :=
  ∀ row ∈ tbl, ∀ row' ∈ tbl, row.kind = idKind row'.id → row.idx = idIndex row'.id → row.id = row'.id

/-- Allocation targets are physical ids of the table. -/
def TargetsInTable (tbl : List RegRow) (al : List (Nat × Nat)) : Prop :=
  ∀ e ∈ al, idIsVirtual e.2 = false ∧ ∃ row ∈ tbl, row.id = e.2

/-- **C03 (binding).** Whenever the model of BindRegisters yields a register it
satisfies the statement — for every table, allocation and register. -/
theorem bindReg_ok (tbl : List RegRow) (al : List (Nat × Nat)) (o b : R)
    (hdet : IdsDetermined tbl) (hal : TargetsInTable tbl al)
    (h : bindReg tbl al o = some b) : BoundOK tbl al o b := by
  unfold bindReg at h
  by_cases hv : idIsVirtual o.id = true
  · simp only [hv, Bool.not_true, Bool.false_eq_true, if_false] at h
    cases hf : al.find? (·.1 == o.id) with
    | none => simp [hf] at h
    | some e =>
      rcases e with ⟨v, p⟩
      simp only [hf, Option.map_eq_some_iff] at h
      obtain ⟨row, hrow, rfl⟩ := h
      have hv' : v = o.id := by
        have := List.find?_some hf; simpa using this
      subst hv'
      obtain ⟨hp, row', hrow'm, hrow'id⟩ := hal _ (List.mem_of_find?_eq_some hf)
      simp only at hp hrow'id
      unfold lookupID at hrow
      simp only [hp, Bool.false_eq_true, if_false] at hrow
      unfold lookup at hrow
      have hmem := List.mem_of_find?_eq_some hrow
      have hprop := List.find?_some hrow
      simp only [Bool.and_eq_true, beq_iff_eq] at hprop
      have hidp : row.id = p := by
        rw [← hrow'id]
        exact hdet row hmem row' hrow'm (by rw [hrow'id]; exact hprop.1.1) (by rw [hrow'id]; exact hprop.1.2)
      refine ⟨by simp [hidp, hp], fun h0 => by simp [hv] at h0,
        fun _ => ⟨p, row, hf, hmem, rfl, hidp, hprop.2, by rw [← hrow'id] at *; exact (by rw [hrow'id]; exact hprop.1.1)⟩⟩
  · have hv' : idIsVirtual o.id = false := by simpa using hv
    simp only [hv', Bool.not_false, if_true] at h
    cases h
    exact ⟨hv', fun _ => rfl, fun h0 => by simp [hv'] at h0⟩

/-- **C03 (no emission on failure).** If some operand register cannot be bound
(no assignment, or the assigned register has no view of that width — e.g. a
high-byte view on a register other than A/C/D/B), verification fails and the
model of `Compile` reports an error. -/
theorem verifyBound_false_of_unbound (tbl : List RegRow) (al : List (Nat × Nat)) (is : List AInstr)
    (i : AInstr) (hi : i ∈ is) (r : R) (hr : r ∈ i.regs) (h : bindReg tbl al r = none) :
    verifyBound tbl al is = false := by
  unfold verifyBound
  apply Bool.eq_false_iff.mpr
  intro hall
  have := List.all_eq_true.mp (List.all_eq_true.mp hall i hi) r hr
  simp [h] at this

/-! ### Facts about avo's register file (regenerated table; complete `decide`) -/

theorem regs_idsDetermined : IdsDetermined Avo.Gen.regs := by
  unfold IdsDetermined; decide +kernel

/-- Candidates for allocation are never the stack pointer or K0, in any view:
restriction is uniform over the views of an id, and `candidates` drops every
restricted row. -/
theorem regs_restricted_uniform :
    Avo.Gen.regs.all (fun r => Avo.Gen.regs.all (fun r' =>
      r.id != r'.id || r.kind != r'.kind || ((r.info &&& infoRestricted != 0) == (r'.info &&& infoRestricted != 0)))) = true := by
  decide +kernel

theorem candidates_unrestricted :
    [kindPseudo, kindGP, kindVector, kindOpmask].all (fun k =>
      (candidates Avo.Gen.regs k).all (fun id =>
        Avo.Gen.regs.all (fun r => r.id != id || r.kind != k || r.info &&& infoRestricted == 0))) = true := by
  decide +kernel

/-- The restricted registers are exactly the views of SP and K0. -/
theorem restricted_are_sp_k0 :
    (Avo.Gen.regs.filter (fun r => r.info &&& infoRestricted != 0)).map (·.name) = ["SP", "SP", "SP", "SP", "K0"] := by
  decide +kernel

/-- A high-byte view exists only on registers 0..3 (AH, CH, DH, BH), and for
every other (kind, index, width) of the file the lookup finds the view of that
very register. -/
theorem high_byte_views :
    (Avo.Gen.regs.filter (fun r => r.kind == kindGP && r.mask == S8H)).map (fun r => (r.name, r.idx)) =
      [("AH", 0), ("CH", 1), ("DH", 2), ("BH", 3)] := by
  decide +kernel

theorem lookup_returns_requested_view :
    Avo.Gen.regs.all (fun r => match lookup Avo.Gen.regs r.kind r.idx r.mask with
      | some r' => r'.kind == r.kind && r'.idx == r.idx && r'.mask == r.mask
      | none => false) = true := by
  decide +kernel

/-- The base-pointer registers come last among the GP candidates (allocated only under pressure). -/
theorem bp_last : (candidates Avo.Gen.regs kindGP).getLast? = some (newid 0 kindGP 5) := by
  decide +kernel

theorem candidate_counts :
    (candidates Avo.Gen.regs kindGP).length = 15 ∧ (candidates Avo.Gen.regs kindVector).length = 32 ∧
    (candidates Avo.Gen.regs kindOpmask).length = 7 := by
  decide +kernel

/-- Non-vacuity of `bindReg_ok`: virtual GP 0 viewed as 8H, allocated to RCX, binds to CH. -/
example : bindReg Avo.Gen.regs [(257, 65792)] ⟨257, 2⟩ = some ⟨65792, 2⟩ := by decide +kernel
/-- … and a high-byte view allocated to RSI cannot be bound. -/
example : bindReg Avo.Gen.regs [(257, 393472)] ⟨257, 2⟩ = none := by decide +kernel

end Avo.Alloc
