/-
C14 instantiated on the tag-character table measured from the installed
toolchain on this run (Oracle/TagChars.lean: go/build/constraint asked about
every code point; strings.Fields asked about every code point).
-/
import AvoVerif.Props.C14
import AvoVerif.Oracle.TagChars
namespace Avo.Tags

/-- The toolchain's tag-character predicate, from the measured table. -/
def installedTag : Char → Bool := tagCharOf Avo.Oracle.tagRanges

/-- The model's white-space set is the set `strings.Fields` splits on. -/
theorem space_agree : Avo.Oracle.spaceCodes = spaceCodes := by decide

/-- `!`, `,` and white space are not tag characters of the installed toolchain. -/
theorem installed_sepfree : SepFree installedTag :=
  sepFree_of_table Avo.Oracle.tagRanges (by decide +kernel)

theorem tags_equiv_installed : C14_statement installedTag := tags_equiv installed_sepfree

theorem tags_roundtrip_installed (c : Constraint)
    (hv : validConstraint installedTag c = true) :
    parseConstraint installedTag (body c ++ ['\n']) = some c :=
  (tags_roundtrip installed_sepfree c hv).2.2

/-- Non-vacuity on non-ASCII letters and digits, and the separators. -/
example : validTerm installedTag "é٣_.x".toList = true ∧ validTerm installedTag "!日本".toList = true ∧
    validTerm installedTag "a-b".toList = false ∧ validTerm installedTag "a b".toList = false := by
  decide +kernel

/-- F8 / F8b regression at the installed predicate: empty options and empty
constraint lines are invalid. -/
theorem f8_installed :
    validate installedTag [[[['a']], []]] = false ∧ validate installedTag [[]] = false ∧
    validate installedTag [[[['a']]]] = true := by
  decide +kernel

end Avo.Tags
