/-
C03 for the model of the whole allocation: whatever the allocator model
returns, every register that binds is bound as the property demands, and the
targets are never the stack pointer or K0.
-/
import AvoVerif.Props.C03
import AvoVerif.Props.C01Tables
namespace Avo.Alloc
open Avo.Reg Avo.AllocCheck

theorem targets_in_table (is : List AInstr) (A : List (Nat × Nat)) (h : allocate Avo.Gen.regs is = .ok A) :
    TargetsInTable Avo.Gen.regs A := by
  intro e he
  obtain ⟨k, hk⟩ := allocate_targets _ is A h e he
  obtain ⟨r, hr, hrp⟩ := candidate_is_row _ _ _ hk
  exact ⟨candidates_physical k _ hk, r, hr, hrp⟩

/-- **C03 (the algorithm).** For every function: if the model of
`AllocateRegisters` succeeds with allocation `A`, then every operand register
that `BindRegisters` can bind satisfies the statement `BoundOK` (physical;
author-chosen registers unchanged; one assignment per virtual, the same-width
view of it, of the same class as the physical id AND as the virtual register) — and a register that cannot be
bound makes `VerifyAllocation` fail (`verifyBound_false_of_unbound`). -/
theorem compile_bound_ok (is : List AInstr) (A : List (Nat × Nat)) (h : allocate Avo.Gen.regs is = .ok A)
    (o b : R) (hb : bindReg Avo.Gen.regs A o = some b) : BoundOK Avo.Gen.regs A o b :=
  bindReg_ok _ A o b regs_idsDetermined (targets_in_table is A h)
    (sameClass_of_shape A (avo_alloc_valid_installed is A h #[] (by intro c hc; simp at hc)).2) hb

/-- Non-vacuity of `compile_bound_ok` / `compile_targets_unrestricted`: a two-instruction function with two
simultaneously live virtual GP registers, one read through its high-byte view, is allocated by the model and the
high-byte view binds to a register that has one. -/
def exampleFn : List AInstr :=
  [⟨[⟨257, 15⟩], [⟨257, 15⟩], [(257, 15)], [true]⟩,
   ⟨[⟨65793, 15⟩], [⟨65793, 15⟩], [(257, 15), (65793, 15)], [true]⟩,
   ⟨[⟨257, 2⟩, ⟨65793, 1⟩], [⟨65793, 1⟩], [], [true, true]⟩]

theorem exampleFn_allocates : allocate Avo.Gen.regs exampleFn = .ok [(257, 256), (65793, 65792)] := by
  have h : (allocate Avo.Gen.regs exampleFn).toOption = some [(257, 256), (65793, 65792)] := by decide +kernel
  cases hx : allocate Avo.Gen.regs exampleFn with
  | error e => rw [hx] at h; simp [Except.toOption] at h
  | ok a => rw [hx] at h; simp [Except.toOption] at h; rw [h]

example : BoundOK Avo.Gen.regs [(257, 256), (65793, 65792)] ⟨257, 2⟩ ⟨256, 2⟩ :=
  compile_bound_ok exampleFn _ exampleFn_allocates ⟨257, 2⟩ ⟨256, 2⟩ (by decide +kernel)

theorem candidate_row_kind (tbl : List RegRow) (k p : Nat) (h : p ∈ candidates tbl k) :
    ∃ r ∈ tbl, r.id = p ∧ r.kind = k := by
  unfold candidates at h
  simp only at h
  rw [mem_sortRegs, List.mem_eraseDups] at h
  obtain ⟨r, hr, hrp⟩ := List.mem_map.mp h
  have h1 := List.mem_filter.mp (List.mem_filter.mp hr).1
  exact ⟨r, h1.1, hrp, by simpa using h1.2⟩

theorem regs_kinds : Avo.Gen.regs.all (fun r => [kindPseudo, kindGP, kindVector, kindOpmask].contains r.kind) = true := by
  decide +kernel

/-- **C03 (reserved registers).** The allocator never hands out the stack
pointer or K0: no view of any allocation target carries the Restricted flag. -/
theorem compile_targets_unrestricted (is : List AInstr) (A : List (Nat × Nat))
    (h : allocate Avo.Gen.regs is = .ok A) (e : Nat × Nat) (he : e ∈ A)
    (row : RegRow) (hrow : row ∈ Avo.Gen.regs) (hid : row.id = e.2) (hkind : row.kind = idKind e.2) :
    row.info &&& infoRestricted = 0 := by
  obtain ⟨k, hk⟩ := allocate_targets _ is A h e he
  obtain ⟨r, hr, hrid, hrk⟩ := candidate_row_kind _ _ _ hk
  have hkin : k ∈ [kindPseudo, kindGP, kindVector, kindOpmask] := by
    have := List.all_eq_true.mp regs_kinds r hr
    rw [hrk] at this; simpa using this
  have hall := List.all_eq_true.mp candidates_unrestricted k hkin
  have hp := List.all_eq_true.mp hall e.2 hk
  have := List.all_eq_true.mp hp row hrow
  simp only [Bool.or_eq_true, bne_iff_ne, ne_eq, beq_iff_eq] at this
  -- the row has the target's id; its kind is the kind encoded in that id, which is k
  have hidk : idKind e.2 = k := by
    have hdet := regs_idsDetermined
    -- r is a row with id e.2 and kind k: ids of the table encode their kind
    have hfact : Avo.Gen.regs.all (fun x => idKind x.id == x.kind) = true := by decide +kernel
    have := List.all_eq_true.mp hfact r hr
    rw [hrid, hrk] at this; simpa using this
  rcases this with (h1 | h1) | h1
  · exact absurd hid h1
  · exact absurd (hkind.trans hidk) h1
  · exact h1

/-- Non-vacuity of `compile_targets_unrestricted` (the hypotheses are satisfiable: RCX is a target of `exampleFn`). -/
example : ∀ row ∈ Avo.Gen.regs, row.id = 65792 → row.kind = idKind 65792 → row.info &&& infoRestricted = 0 :=
  fun row hrow hid hk =>
    compile_targets_unrestricted exampleFn _ exampleFn_allocates (65793, 65792) (by simp) row hrow hid hk

/-! ### The colour set: author-written restricted registers next to virtual registers -/

/-- An allocation target is a candidate of the virtual register's OWN kind. -/
theorem compile_targets_in_candidates (is : List AInstr) (A : List (Nat × Nat))
    (h : allocate Avo.Gen.regs is = .ok A) (e : Nat × Nat) (he : e ∈ A) :
    e.2 ∈ candidates Avo.Gen.regs (idKind e.1) := by
  obtain ⟨k, hk⟩ := allocate_targets _ is A h e he
  obtain ⟨r, hr, _, hrk⟩ := candidate_row_kind _ _ _ hk
  have hkin : k ∈ [kindPseudo, kindGP, kindVector, kindOpmask] := by
    have := List.all_eq_true.mp regs_kinds r hr
    rw [hrk] at this; simpa using this
  have h1 := List.all_eq_true.mp (List.all_eq_true.mp candidates_right_kind k hkin) e.2 hk
  simp only [Bool.and_eq_true, beq_iff_eq] at h1
  have hcls := sameClass_of_shape A (avo_alloc_valid_installed is A h #[] (by intro c hc; simp at hc)).2 e he
  rw [← hcls, h1.1.2]; exact hk

/-- **C03 (never the stack pointer, never K0).** For every function — whatever physical registers its author wrote,
the stack pointer and K0 included, wherever they stand next to virtual registers — no target of the allocator model
is general-purpose register 4 or opmask register 0 (hardware numbering, independent of the `Restricted` flag). -/
theorem compile_targets_not_sp_k0 (is : List AInstr) (A : List (Nat × Nat))
    (h : allocate Avo.Gen.regs is = .ok A) (e : Nat × Nat) (he : e ∈ A) : isSPorK0 e.2 = false := by
  have hc := compile_targets_in_candidates is A h e he
  have hfact : [kindPseudo, kindGP, kindVector, kindOpmask].all (fun k =>
      (candidates Avo.Gen.regs k).all (fun id => !isSPorK0 id)) = true := by decide +kernel
  obtain ⟨r, hr, _, hrk⟩ := candidate_row_kind _ _ _ hc
  have hkin : idKind e.1 ∈ [kindPseudo, kindGP, kindVector, kindOpmask] := by
    have := List.all_eq_true.mp regs_kinds r hr
    rw [hrk] at this; simpa using this
  have := List.all_eq_true.mp (List.all_eq_true.mp hfact _ hkin) e.2 hc
  simpa using this

/-- **`accept-bind` keeps every virtual register inside the colour set of its kind**: a pair the acceptor lets through
whose original register is virtual is bound to an id of `candidates tbl (kind of the virtual)` — the unrestricted
registers of that kind — and not to the stack pointer / K0.  For every table, allocation and pair. -/
theorem checkBindOne_in_colour_set (tbl : List RegRow) (al : List (Nat × Nat)) (o b : R)
    (h : checkBindOne tbl al o b = none) (hv : idIsVirtual o.id = true) :
    b.id ∈ candidates tbl (idKind o.id) ∧ isSPorK0 b.id = false := by
  obtain ⟨row, hrow, hb, hinfo, hkind, hsp, _⟩ := (checkBindOne_sound tbl al o b h).2 hv
  refine ⟨?_, hsp⟩
  unfold candidates
  simp only
  rw [mem_sortRegs, List.mem_eraseDups]
  refine List.mem_map.mpr ⟨row, List.mem_filter.mpr ⟨List.mem_filter.mpr ⟨hrow, by simp [hkind]⟩, by simp [hinfo]⟩, ?_⟩
  rw [hb]

/-- The SP idiom as the allocator sees it: `MOVQ SP, v` (SP read, v written, v live out), `ANDQ $-64, v`,
`MOVQ v, (mem)`.  SP does not interfere with `v`: only the colour set keeps it away. -/
def spCopyFn : List AInstr :=
  [⟨[⟨262400, 15⟩, ⟨257, 15⟩], [⟨257, 15⟩], [(257, 15)], [true, true]⟩,
   ⟨[⟨257, 15⟩], [⟨257, 15⟩], [(257, 15)], [true]⟩,
   ⟨[⟨257, 15⟩], [], [], [true]⟩]

/-- `KMOVQ K0, k; KNOTQ k, k; KMOVQ k, (mem)` -/
def k0CopyFn : List AInstr :=
  [⟨[⟨768, 15⟩, ⟨769, 15⟩], [⟨769, 15⟩], [(769, 15)], [true, true]⟩,
   ⟨[⟨769, 15⟩, ⟨769, 15⟩], [⟨769, 15⟩], [(769, 15)], [true, true]⟩,
   ⟨[⟨769, 15⟩], [], [], [true]⟩]

/-- The model allocates the copy of SP to RAX and the copy of K0 to K1 (non-vacuity of the two theorems above on
functions that name the restricted registers). -/
theorem spCopyFn_allocates : (allocate Avo.Gen.regs spCopyFn).toOption = some [(257, 256)] ∧
    (allocate Avo.Gen.regs k0CopyFn).toOption = some [(769, 66304)] := by decide +kernel

example : ∀ A, allocate Avo.Gen.regs spCopyFn = .ok A → ∀ e ∈ A, isSPorK0 e.2 = false :=
  fun A h e he => compile_targets_not_sp_k0 spCopyFn A h e he

example : (b : R) → checkBindOne Avo.Gen.regs [(257, 256)] ⟨257, 15⟩ b = none → b.id ∈ candidates Avo.Gen.regs kindGP :=
  fun b h => (checkBindOne_in_colour_set _ _ _ b h (by decide)).1

/-! ### Whole files: every function of every file through `pass.Compile`

`pass.Compile` takes a FILE: `FunctionPass(p).Execute` sweeps all functions with one stage and stops at the first
error, then the next stage sweeps all functions. The property speaks of the compiled output, i.e. of every function
of the file. -/

/-- the allocation stages on ONE function: allocate, bind + verify, encodability -/
def compileFn (tbl : List RegRow) (is : List AInstr) : Except AErr (List (Nat × Nat)) :=
  match allocate tbl is with
  | .error e => .error e
  | .ok al =>
    if !verifyBound tbl al is then .error .nonPhysical
    else if !verifyEncodable tbl al is then .error .highByte
    else .ok al

/-- **File-level model**: `compileFile` = all functions compile (function by function, first error wins). -/
def compileFile (tbl : List RegRow) : List (List AInstr) → Except AErr (List (List (Nat × Nat)))
  | [] => .ok []
  | f :: fs =>
    match compileFn tbl f with
    | .error e => .error e
    | .ok a =>
      match compileFile tbl fs with
      | .error e => .error e
      | .ok as => .ok (a :: as)

/-- stage `FunctionPass(AllocateRegisters)` over the file -/
def allocAll (tbl : List RegRow) : List (List AInstr) → Except AErr (List (List (Nat × Nat)))
  | [] => .ok []
  | f :: fs =>
    match allocate tbl f with
    | .error e => .error e
    | .ok a =>
      match allocAll tbl fs with
      | .error e => .error e
      | .ok as => .ok (a :: as)

/-- stages `FunctionPass(BindRegisters)`, `FunctionPass(VerifyAllocation)` over the file -/
def verifyAll (tbl : List RegRow) : List (List AInstr) → List (List (Nat × Nat)) → Except AErr Unit
  | f :: fs, a :: as =>
    if !verifyBound tbl a f then .error .nonPhysical
    else if !verifyEncodable tbl a f then .error .highByte
    else verifyAll tbl fs as
  | _, _ => .ok ()

/-- **The library's order**: one stage over all functions, then the next stage over all functions. -/
def compileFileStaged (tbl : List RegRow) (fs : List (List AInstr)) : Except AErr (List (List (Nat × Nat))) :=
  match allocAll tbl fs with
  | .error e => .error e
  | .ok as =>
    match verifyAll tbl fs as with
    | .error e => .error e
    | .ok _ => .ok as

def okB {α : Type} : Except AErr α → Bool
  | .ok _ => true
  | .error _ => false

/-- **compileFile ok ⇔ every function compiles** (as a Boolean equation, for all files). -/
theorem compileFile_okB (tbl : List RegRow) (fs : List (List AInstr)) :
    okB (compileFile tbl fs) = fs.all (fun f => okB (compileFn tbl f)) := by
  induction fs with
  | nil => rfl
  | cons f fs ih =>
    simp only [compileFile, List.all_cons]
    cases hf : compileFn tbl f with
    | error e => simp [okB]
    | ok a =>
      cases hfs : compileFile tbl fs with
      | error e => rw [hfs] at ih; simp [okB] at ih ⊢; exact ih
      | ok as => rw [hfs] at ih; simp [okB] at ih ⊢; exact ih

/-- **Some function has no valid assignment ⇒ compiling the file fails** — wherever the function stands in the
file (first, in the middle, last) and whatever the other functions do. -/
theorem compileFile_err_of_fn_err (tbl : List RegRow) (fs : List (List AInstr)) (f : List AInstr) (hf : f ∈ fs)
    (e : AErr) (he : compileFn tbl f = .error e) : ∃ e', compileFile tbl fs = .error e' := by
  have h := compileFile_okB tbl fs
  have hall : fs.all (fun f => okB (compileFn tbl f)) = false := by
    apply Bool.eq_false_iff.mpr
    intro hall
    have := List.all_eq_true.mp hall f hf
    simp [he, okB] at this
  rw [hall] at h
  cases hc : compileFile tbl fs with
  | error e' => exact ⟨e', rfl⟩
  | ok as => rw [hc] at h; simp [okB] at h

/-- **compileFile ok ⇒ every function compiled, each with its own allocation** (one allocation per function, in order). -/
theorem compileFile_ok_each (tbl : List RegRow) : ∀ (fs : List (List AInstr)) (als : List (List (Nat × Nat))),
    compileFile tbl fs = .ok als → als.length = fs.length ∧ ∀ p ∈ fs.zip als, compileFn tbl p.1 = .ok p.2
  | [], als, h => by simp [compileFile] at h; subst h; simp
  | f :: fs, als, h => by
    simp only [compileFile] at h
    cases hf : compileFn tbl f with
    | error e => simp [hf] at h
    | ok a =>
      cases hfs : compileFile tbl fs with
      | error e => simp [hf, hfs] at h
      | ok as =>
        simp [hf, hfs] at h
        subst h
        obtain ⟨hl, hall⟩ := compileFile_ok_each tbl fs as hfs
        refine ⟨by simp [hl], ?_⟩
        intro p hp
        simp only [List.zip_cons_cons, List.mem_cons] at hp
        rcases hp with rfl | hp
        · exact hf
        · exact hall p hp

theorem compileFn_ok (tbl : List RegRow) (f : List AInstr) (al : List (Nat × Nat)) (h : compileFn tbl f = .ok al) :
    allocate tbl f = .ok al ∧ verifyBound tbl al f = true ∧ verifyEncodable tbl al f = true := by
  unfold compileFn at h
  cases ha : allocate tbl f with
  | error e => simp [ha] at h
  | ok a =>
    simp only [ha] at h
    by_cases h1 : verifyBound tbl a f = true
    · by_cases h2 : verifyEncodable tbl a f = true
      · simp [h1, h2] at h; subst h; exact ⟨rfl, h1, h2⟩
      · simp [h1, h2] at h
    · simp [h1] at h

/-- **C03 for files.** For every file: if the model of `Compile` succeeds, then in EVERY function of the file every
operand register is bound — no virtual register remains — and is bound as the statement `BoundOK` demands. -/
theorem compileFile_bound_ok (fs : List (List AInstr)) (als : List (List (Nat × Nat)))
    (h : compileFile Avo.Gen.regs fs = .ok als) :
    als.length = fs.length ∧ ∀ p ∈ fs.zip als, ∀ i ∈ p.1, ∀ r ∈ i.regs, ∃ b, bindReg Avo.Gen.regs p.2 r = some b ∧
      BoundOK Avo.Gen.regs p.2 r b ∧ idIsVirtual b.id = false := by
  obtain ⟨hl, hall⟩ := compileFile_ok_each _ fs als h
  refine ⟨hl, ?_⟩
  intro p hp i hi r hr
  obtain ⟨ha, hv, _⟩ := compileFn_ok _ p.1 p.2 (hall p hp)
  have hsome := List.all_eq_true.mp (List.all_eq_true.mp hv i hi) r hr
  obtain ⟨b, hb⟩ := Option.isSome_iff_exists.mp hsome
  have hok := compile_bound_ok p.1 p.2 ha r b hb
  exact ⟨b, hb, hok, hok.1⟩

/-- The library's stage-major order and the function-major model succeed on the same files with the same
allocations (which error is reported when several functions fail is not part of the property). -/
theorem compileFileStaged_ok_iff (tbl : List RegRow) : ∀ (fs : List (List AInstr)) (als : List (List (Nat × Nat))),
    compileFileStaged tbl fs = .ok als ↔ compileFile tbl fs = .ok als
  | [], als => by simp [compileFileStaged, compileFile, allocAll, verifyAll]
  | f :: fs, als => by
    have ih := compileFileStaged_ok_iff tbl fs
    unfold compileFileStaged at ih ⊢
    simp only [allocAll, compileFile, compileFn]
    cases ha : allocate tbl f with
    | error e => simp
    | ok a =>
      cases hfs : allocAll tbl fs with
      | error e =>
        have : ∀ as, compileFile tbl fs ≠ .ok as := by
          intro as hc
          have := (ih as).mpr hc
          simp [hfs] at this
        cases hc : compileFile tbl fs with
        | error e' => by_cases h1 : verifyBound tbl a f = true <;> by_cases h2 : verifyEncodable tbl a f = true <;> simp [h1, h2]
        | ok as => exact absurd hc (this as)
      | ok as =>
        simp only [verifyAll]
        by_cases h1 : verifyBound tbl a f = true
        · by_cases h2 : verifyEncodable tbl a f = true
          · simp only [h1, h2, Bool.not_true, Bool.false_eq_true, if_false]
            have ih' := ih
            simp only [hfs] at ih'
            cases hv : verifyAll tbl fs as with
            | error e =>
              have hne : ∀ bs, compileFile tbl fs ≠ .ok bs := by
                intro bs hc
                have := (ih' bs).mpr hc
                simp [hv] at this
              cases hc : compileFile tbl fs with
              | error e' => simp
              | ok bs => exact absurd hc (hne bs)
            | ok u =>
              have hc : compileFile tbl fs = .ok as := (ih' as).mp (by simp [hv])
              simp [hc]
          · simp [h1, h2]
        · simp [h1]

/-- The model of `Compile` passes the file acceptor on every file: with `perFn` = what each function does on its own,
`checkFile` never fires (the acceptor `accept-file` states exactly this of the implementation). -/
theorem compileFile_checkFile (tbl : List RegRow) (fs : List (List AInstr)) :
    checkFile (fs.map (fun f => if okB (compileFn tbl f) then FnOutcome.ok else FnOutcome.err)) (okB (compileFile tbl fs)) = none := by
  unfold checkFile
  split
  · rename_i hc
    rw [compileFile_okB] at hc
    rw [List.findIdx?_eq_none_iff]
    intro o ho
    obtain ⟨f, hf, rfl⟩ := List.mem_map.mp ho
    have := List.all_eq_true.mp hc f hf
    simp [this]
  · rfl

/-- Non-vacuity: a three-function file whose MIDDLE function keeps 16 general-purpose values alive at once has no
compilation, in either order of the stages; without that function it compiles. -/
def over16 : List AInstr :=
  let vs := (List.range 16).map (fun k => (⟨newid 1 kindGP k, 15⟩ : R))
  (List.range 16).map (fun k => ⟨[vs.getD k default], [vs.getD k default], ((vs.take (k + 1)).map (fun r => (r.id, r.mask))), [true]⟩) ++
  (List.range 16).map (fun k => ⟨[vs.getD k default], [], ((vs.drop (k + 1)).map (fun r => (r.id, r.mask))), [true]⟩)

theorem over16_file_fails :
    okB (compileFn Avo.Gen.regs over16) = false ∧
    okB (compileFile Avo.Gen.regs [spCopyFn, over16, exampleFn]) = false ∧
    okB (compileFileStaged Avo.Gen.regs [spCopyFn, over16, exampleFn]) = false ∧
    okB (compileFile Avo.Gen.regs [over16, exampleFn]) = false ∧
    okB (compileFile Avo.Gen.regs [spCopyFn, exampleFn]) = true ∧
    okB (compileFileStaged Avo.Gen.regs [spCopyFn, exampleFn]) = true := by decide +kernel

/-! ### Function-level context (text attributes, local frame, signature)

The colour set of the model depends on the register table and the kind only. A function's attributes (NOFRAME,
NOSPLIT, NEEDCTXT, …), its frame and its signature are no input of `candidates` / `allocate`: the theorems above hold
in every context. An allocator that narrows the colour set by context (e.g. "no base pointer in NOFRAME functions")
stays inside the property as long as it only REMOVES candidates. -/

structure FnContext where
  attrs : Nat
  localSize : Nat
  hasSignature : Bool
  deriving Repr, DecidableEq, Inhabited

/-- the allocator model in a function-level context: the context is not looked at -/
def allocateIn (_ : FnContext) (tbl : List RegRow) (is : List AInstr) : Except AErr (List (Nat × Nat)) := allocate tbl is

theorem allocate_context_irrelevant (c c' : FnContext) (tbl : List RegRow) (is : List AInstr) :
    allocateIn c tbl is = allocateIn c' tbl is := rfl

/-- **C03 in every context**: whatever the attributes, frame and signature of the function, no target is SP / K0. -/
theorem compile_in_context_not_sp_k0 (c : FnContext) (is : List AInstr) (A : List (Nat × Nat))
    (h : allocateIn c Avo.Gen.regs is = .ok A) (e : Nat × Nat) (he : e ∈ A) : isSPorK0 e.2 = false :=
  compile_targets_not_sp_k0 is A h e he

/-- colour set with further flags excluded ("any of the flags `excl` set" removes the register) -/
def candidatesExcl (tbl : List RegRow) (kind excl : Nat) : List Nat :=
  (candidates tbl kind).filter (fun id => tbl.all (fun r => r.id != id || r.kind != kind || r.info &&& excl == 0))

/-- narrowing by context only removes candidates: everything proved of `candidates` is inherited -/
theorem candidatesExcl_subset (tbl : List RegRow) (kind excl id : Nat) (h : id ∈ candidatesExcl tbl kind excl) :
    id ∈ candidates tbl kind := (List.mem_filter.mp h).1

/-- Non-vacuity, and what is excluded: excluding the base pointer as well leaves 14 GP candidates, none of them SP or
BP; whereas NO row of the file carries both flags at once, so a test "all of Restricted|BasePointer set" excludes
nothing — the stack pointer and K0 would be candidates. -/
theorem context_exclusion_facts :
    (candidatesExcl Avo.Gen.regs kindGP infoBasePointer).length = 14 ∧
    (candidatesExcl Avo.Gen.regs kindGP infoBasePointer).all (fun id => idIndex id != 4 && idIndex id != 5) = true ∧
    Avo.Gen.regs.all (fun r => r.info &&& (infoRestricted ||| infoBasePointer) != (infoRestricted ||| infoBasePointer)) = true := by
  decide +kernel

end Avo.Alloc
