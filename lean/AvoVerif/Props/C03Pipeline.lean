/-
C03 for the model of the whole allocation: whatever the allocator model
returns, every register that binds is bound as the property demands, and the
targets are never the stack pointer or K0.
-/
import AvoVerif.Props.C03
import AvoVerif.Props.C01Tables
namespace Avo.Alloc
open Avo.Reg Avo.AllocCheck

theorem targets_in_table (is : List AInstr) (A : List (Nat × Nat)) (h : allocate Avo.Gen.regs is = .ok A) :
    TargetsInTable Avo.Gen.regs A := by
  intro e he
  obtain ⟨k, hk⟩ := allocate_targets _ is A h e he
  obtain ⟨r, hr, hrp⟩ := candidate_is_row _ _ _ hk
  exact ⟨candidates_physical k _ hk, r, hr, hrp⟩

/-- **C03 (the algorithm).** For every function: if the model of
`AllocateRegisters` succeeds with allocation `A`, then every operand register
that `BindRegisters` can bind satisfies the statement `BoundOK` (physical;
author-chosen registers unchanged; one assignment per virtual, the same-width
view of it, of the same class as the physical id AND as the virtual register) — and a register that cannot be
bound makes `VerifyAllocation` fail (`verifyBound_false_of_unbound`). -/
theorem compile_bound_ok (is : List AInstr) (A : List (Nat × Nat)) (h : allocate Avo.Gen.regs is = .ok A)
    (o b : R) (hb : bindReg Avo.Gen.regs A o = some b) : BoundOK Avo.Gen.regs A o b :=
  bindReg_ok _ A o b regs_idsDetermined (targets_in_table is A h)
    (sameClass_of_shape A (avo_alloc_valid_installed is A h #[] (by intro c hc; simp at hc)).2) hb

/-- Non-vacuity of `compile_bound_ok` / `compile_targets_unrestricted`: a two-instruction function with two
simultaneously live virtual GP registers, one read through its high-byte view, is allocated by the model and the
high-byte view binds to a register that has one. -/
def exampleFn : List AInstr :=
  [⟨[⟨257, 15⟩], [⟨257, 15⟩], [(257, 15)], [true]⟩,
   ⟨[⟨65793, 15⟩], [⟨65793, 15⟩], [(257, 15), (65793, 15)], [true]⟩,
   ⟨[⟨257, 2⟩, ⟨65793, 1⟩], [⟨65793, 1⟩], [], [true, true]⟩]

theorem exampleFn_allocates : allocate Avo.Gen.regs exampleFn = .ok [(257, 256), (65793, 65792)] := by
  have h : (allocate Avo.Gen.regs exampleFn).toOption = some [(257, 256), (65793, 65792)] := by decide +kernel
  cases hx : allocate Avo.Gen.regs exampleFn with
  | error e => rw [hx] at h; simp [Except.toOption] at h
  | ok a => rw [hx] at h; simp [Except.toOption] at h; rw [h]

example : BoundOK Avo.Gen.regs [(257, 256), (65793, 65792)] ⟨257, 2⟩ ⟨256, 2⟩ :=
  compile_bound_ok exampleFn _ exampleFn_allocates ⟨257, 2⟩ ⟨256, 2⟩ (by decide +kernel)

theorem candidate_row_kind (tbl : List RegRow) (k p : Nat) (h : p ∈ candidates tbl k) :
    ∃ r ∈ tbl, r.id = p ∧ r.kind = k := by
  unfold candidates at h
  simp only at h
  rw [mem_sortRegs, List.mem_eraseDups] at h
  obtain ⟨r, hr, hrp⟩ := List.mem_map.mp h
  have h1 := List.mem_filter.mp (List.mem_filter.mp hr).1
  exact ⟨r, h1.1, hrp, by simpa using h1.2⟩

theorem regs_kinds : Avo.Gen.regs.all (fun r => [kindPseudo, kindGP, kindVector, kindOpmask].contains r.kind) = true := by
  decide +kernel

/-- **C03 (reserved registers).** The allocator never hands out the stack
pointer or K0: no view of any allocation target carries the Restricted flag. -/
theorem compile_targets_unrestricted (is : List AInstr) (A : List (Nat × Nat))
    (h : allocate Avo.Gen.regs is = .ok A) (e : Nat × Nat) (he : e ∈ A)
    (row : RegRow) (hrow : row ∈ Avo.Gen.regs) (hid : row.id = e.2) (hkind : row.kind = idKind e.2) :
    row.info &&& infoRestricted = 0 := by
  obtain ⟨k, hk⟩ := allocate_targets _ is A h e he
  obtain ⟨r, hr, hrid, hrk⟩ := candidate_row_kind _ _ _ hk
  have hkin : k ∈ [kindPseudo, kindGP, kindVector, kindOpmask] := by
    have := List.all_eq_true.mp regs_kinds r hr
    rw [hrk] at this; simpa using this
  have hall := List.all_eq_true.mp candidates_unrestricted k hkin
  have hp := List.all_eq_true.mp hall e.2 hk
  have := List.all_eq_true.mp hp row hrow
  simp only [Bool.or_eq_true, bne_iff_ne, ne_eq, beq_iff_eq] at this
  -- the row has the target's id; its kind is the kind encoded in that id, which is k
  have hidk : idKind e.2 = k := by
    have hdet := regs_idsDetermined
    -- r is a row with id e.2 and kind k: ids of the table encode their kind
    have hfact : Avo.Gen.regs.all (fun x => idKind x.id == x.kind) = true := by decide +kernel
    have := List.all_eq_true.mp hfact r hr
    rw [hrid, hrk] at this; simpa using this
  rcases this with (h1 | h1) | h1
  · exact absurd hid h1
  · exact absurd (hkind.trans hidk) h1
  · exact h1

/-- Non-vacuity of `compile_targets_unrestricted` (the hypotheses are satisfiable: RCX is a target of `exampleFn`). -/
example : ∀ row ∈ Avo.Gen.regs, row.id = 65792 → row.kind = idKind 65792 → row.info &&& infoRestricted = 0 :=
  fun row hrow hid hk =>
    compile_targets_unrestricted exampleFn _ exampleFn_allocates (65793, 65792) (by simp) row hrow hid hk

/-! ### The colour set: author-written restricted registers next to virtual registers -/

/-- An allocation target is a candidate of the virtual register's OWN kind. -/
theorem compile_targets_in_candidates (is : List AInstr) (A : List (Nat × Nat))
    (h : allocate Avo.Gen.regs is = .ok A) (e : Nat × Nat) (he : e ∈ A) :
    e.2 ∈ candidates Avo.Gen.regs (idKind e.1) := by
  obtain ⟨k, hk⟩ := allocate_targets _ is A h e he
  obtain ⟨r, hr, _, hrk⟩ := candidate_row_kind _ _ _ hk
  have hkin : k ∈ [kindPseudo, kindGP, kindVector, kindOpmask] := by
    have := List.all_eq_true.mp regs_kinds r hr
    rw [hrk] at this; simpa using this
  have h1 := List.all_eq_true.mp (List.all_eq_true.mp candidates_right_kind k hkin) e.2 hk
  simp only [Bool.and_eq_true, beq_iff_eq] at h1
  have hcls := sameClass_of_shape A (avo_alloc_valid_installed is A h #[] (by intro c hc; simp at hc)).2 e he
  rw [← hcls, h1.1.2]; exact hk

/-- **C03 (never the stack pointer, never K0).** For every function — whatever physical registers its author wrote,
the stack pointer and K0 included, wherever they stand next to virtual registers — no target of the allocator model
is general-purpose register 4 or opmask register 0 (hardware numbering, independent of the `Restricted` flag). -/
theorem compile_targets_not_sp_k0 (is : List AInstr) (A : List (Nat × Nat))
    (h : allocate Avo.Gen.regs is = .ok A) (e : Nat × Nat) (he : e ∈ A) : isSPorK0 e.2 = false := by
  have hc := compile_targets_in_candidates is A h e he
  have hfact : [kindPseudo, kindGP, kindVector, kindOpmask].all (fun k =>
      (candidates Avo.Gen.regs k).all (fun id => !isSPorK0 id)) = true := by decide +kernel
  obtain ⟨r, hr, _, hrk⟩ := candidate_row_kind _ _ _ hc
  have hkin : idKind e.1 ∈ [kindPseudo, kindGP, kindVector, kindOpmask] := by
    have := List.all_eq_true.mp regs_kinds r hr
    rw [hrk] at this; simpa using this
  have := List.all_eq_true.mp (List.all_eq_true.mp hfact _ hkin) e.2 hc
  simpa using this

/-- **`accept-bind` keeps every virtual register inside the colour set of its kind**: a pair the acceptor lets through
whose original register is virtual is bound to an id of `candidates tbl (kind of the virtual)` — the unrestricted
registers of that kind — and not to the stack pointer / K0.  For every table, allocation and pair. -/
theorem checkBindOne_in_colour_set (tbl : List RegRow) (al : List (Nat × Nat)) (o b : R)
    (h : checkBindOne tbl al o b = none) (hv : idIsVirtual o.id = true) :
    b.id ∈ candidates tbl (idKind o.id) ∧ isSPorK0 b.id = false := by
  obtain ⟨row, hrow, hb, hinfo, hkind, hsp, _⟩ := (checkBindOne_sound tbl al o b h).2 hv
  refine ⟨?_, hsp⟩
  unfold candidates
  simp only
  rw [mem_sortRegs, List.mem_eraseDups]
  refine List.mem_map.mpr ⟨row, List.mem_filter.mpr ⟨List.mem_filter.mpr ⟨hrow, by simp [hkind]⟩, by simp [hinfo]⟩, ?_⟩
  rw [hb]

/-- The SP idiom as the allocator sees it: `MOVQ SP, v` (SP read, v written, v live out), `ANDQ $-64, v`,
`MOVQ v, (mem)`.  SP does not interfere with `v`: only the colour set keeps it away. -/
def spCopyFn : List AInstr :=
  [⟨[⟨262400, 15⟩, ⟨257, 15⟩], [⟨257, 15⟩], [(257, 15)], [true, true]⟩,
   ⟨[⟨257, 15⟩], [⟨257, 15⟩], [(257, 15)], [true]⟩,
   ⟨[⟨257, 15⟩], [], [], [true]⟩]

/-- `KMOVQ K0, k; KNOTQ k, k; KMOVQ k, (mem)` -/
def k0CopyFn : List AInstr :=
  [⟨[⟨768, 15⟩, ⟨769, 15⟩], [⟨769, 15⟩], [(769, 15)], [true, true]⟩,
   ⟨[⟨769, 15⟩, ⟨769, 15⟩], [⟨769, 15⟩], [(769, 15)], [true, true]⟩,
   ⟨[⟨769, 15⟩], [], [], [true]⟩]

/-- The model allocates the copy of SP to RAX and the copy of K0 to K1 (non-vacuity of the two theorems above on
functions that name the restricted registers). -/
theorem spCopyFn_allocates : (allocate Avo.Gen.regs spCopyFn).toOption = some [(257, 256)] ∧
    (allocate Avo.Gen.regs k0CopyFn).toOption = some [(769, 66304)] := by decide +kernel

example : ∀ A, allocate Avo.Gen.regs spCopyFn = .ok A → ∀ e ∈ A, isSPorK0 e.2 = false :=
  fun A h e he => compile_targets_not_sp_k0 spCopyFn A h e he

example : (b : R) → checkBindOne Avo.Gen.regs [(257, 256)] ⟨257, 15⟩ b = none → b.id ∈ candidates Avo.Gen.regs kindGP :=
  fun b h => (checkBindOne_in_colour_set _ _ _ b h (by decide)).1

end Avo.Alloc
