/-
C09 on the regenerated form table: avo's control-flow feature bits are exactly
the x86 classes of the opcodes, uniformly over all forms of an opcode.
-/
import AvoVerif.Props.C09
import AvoVerif.Gen.BranchOps
namespace Avo.Func

/-- The control-flow class of an opcode as x86 defines it, as the feature word
avo should carry (bit0 terminal, bit1 branch, bit2 conditional): `RET` is the
return, `JMP` the unconditional jump, every other `J…` opcode a conditional branch. -/
def specFeature (opcode : String) : Nat :=
  if opcode == "RET" then 1
  else if opcode == "JMP" then 2
  else if opcode.startsWith "J" then 6
  else 0

/-- **Every form of every opcode carries exactly the control-flow class of its
opcode** (so indirect `JMP r64/m64` are unconditional branches too, `CALL` is
not a branch, and nothing else is terminal). Complete over the 1308 opcodes of
the regenerated table. -/
theorem features_are_x86_classes :
    Avo.Gen.branchOps.all (fun r => r.2.1 == [specFeature r.1]) = true := by
  decide +kernel

/-- Only `CALL` and the jumps take a relative/label operand. -/
theorem rel_operand_opcodes :
    (Avo.Gen.branchOps.filter (fun r => r.2.2 && specFeature r.1 == 0)).map (·.1) = ["CALL"] := by
  decide +kernel

end Avo.Func
