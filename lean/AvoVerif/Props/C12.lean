/-
C12 — The stub file declares exactly the functions the assembly defines.
Proved over the structured lines handed to go/format (`printStubs`); the
signature text is an opaque token.  Validity, gofmt-stability, type identity
and linkability of the formatted file are measured by the harness.
-/
import AvoVerif.Props.C11
namespace Avo.Print
open Avo.Attr

/-- **same constraints.** The constraint block of the stub file is the same
function of the file as the one of the assembly file. -/
theorem stub_constraints_eq (f : File) : stubConstraints f = asmConstraints f := rfl

/-- Both printers put the block right after the generated-code comment. -/
theorem constraints_position (names) (cfg : Config) (f : File) :
    (∃ rest, printStubs cfg f = .comment (generatedWarning cfg) :: (stubConstraints f ++ rest)) ∧
    (∃ rest, printFile names cfg f = .comment (generatedWarning cfg) :: (asmConstraints f ++ rest)) := by
  constructor
  · exact ⟨[.blank, .pkg cfg.pkg] ++ f.functions.flatMap stubFunction, by simp [printStubs]⟩
  · exact ⟨includeLines f ++ f.sections.flatMap (printSection names), by simp [printFile, asmHeader]⟩

def srun (st : SState) (ls : List SLine) : SState := ls.foldl sstep st

theorem srun_append (st : SState) (a b : List SLine) : srun st (a ++ b) = srun (srun st a) b := by
  simp [srun, List.foldl_append]

theorem srun_cons (st : SState) (a : SLine) (b : List SLine) : srun st (a :: b) = srun (sstep st a) b := rfl

theorem srun_nil (st : SState) : srun st [] = st := rfl

theorem srun_docs (ds : List Txt) (st : SState) (hp : st.pkg.isSome = true) (hg : st.prag = []) :
    srun st (ds.map SLine.comment) = { st with doc := st.doc ++ ds } := by
  induction ds generalizing st with
  | nil => simp [srun_nil]
  | cons d ds ih =>
    have hn : st.pkg.isNone = false := by cases h : st.pkg <;> simp_all
    simp only [List.map_cons, srun_cons, sstep, hn, Bool.false_eq_true, ↓reduceIte]
    rw [ih]
    · simp [hg]
    · exact hp
    · exact hg

theorem srun_pragmas (ps : List Pragma) (st : SState) (hp : st.pkg.isSome = true) :
    srun st (ps.map (fun p => SLine.pragma p.directive p.args)) = { st with prag := st.prag ++ ps } := by
  induction ps generalizing st with
  | nil => simp [srun_nil]
  | cons p ps ih =>
    simp only [List.map_cons, srun_cons, sstep]
    rw [ih]
    · simp [hp]
    · exact hp

/-- One function of the stub file, read back: one more declaration carrying
the function's doc lines, then its pragmas, then its `func` line. -/
theorem srun_stubFunction (fn : Function) (st : SState) (hp : st.pkg.isSome = true)
    (hd : st.doc = []) (hg : st.prag = []) :
    srun st (stubFunction fn) = { st with decls := st.decls ++ [declSum fn] } := by
  unfold stubFunction
  simp only [List.append_assoc, List.singleton_append, srun_cons, srun_append, sstep]
  rw [srun_docs _ _ (by simpa using hp) (by simpa using hg)]
  rw [srun_pragmas _ _ (by simpa using hp)]
  simp only [srun_cons, srun_nil, sstep]
  cases st
  simp_all [declSum]

theorem srun_functions (fns : List Function) (st : SState) (hp : st.pkg.isSome = true)
    (hd : st.doc = []) (hg : st.prag = []) :
    srun st (fns.flatMap stubFunction) = { st with decls := st.decls ++ fns.map declSum } := by
  induction fns generalizing st with
  | nil => simp [srun_nil]
  | cons fn fns ih =>
    simp only [List.flatMap_cons, srun_append]
    rw [srun_stubFunction fn st hp hd hg, ih]
    · simp
    · exact hp
    · exact hd
    · exact hg

theorem srun_raws (cs : List Txt) (st : SState) (hp : st.pkg = none) :
    srun st (cs.map SLine.raw) = st := by
  induction cs generalizing st with
  | nil => rfl
  | cons c cs ih =>
    simp only [List.map_cons, srun_cons, sstep]
    have : ({ st with ok := st.ok && st.pkg.isNone } : SState) = st := by cases st; simp_all
    rw [this, ih st hp]

/-- **parse_stubs.** For every file: the stub text (before go/format) has the
package clause as configured and declares each function exactly once, in file
order, each declaration preceded by the function's doc lines and then its
pragma lines. -/
theorem parse_stubs (cfg : Config) (f : File) :
    parseStubs (printStubs cfg f) = some (cfg.pkg, f.functions.map declSum) := by
  unfold parseStubs printStubs stubConstraints constraintLines
  have h := srun_append
  simp only [srun] at h
  simp only [h, List.foldl_cons, List.foldl_nil, List.singleton_append]
  have hc : ∀ st : SState, st.pkg = none → st.doc = [] → st.prag = [] →
      List.foldl sstep st (if f.hasConstraints = true then SLine.blank :: List.map SLine.raw f.constraints else []) = st := by
    intro st hp hd hg
    split
    · have hb : sstep st .blank = st := by cases st; simp_all [sstep]
      have := srun_raws f.constraints st hp
      simp only [srun] at this
      simp only [List.foldl_cons, hb, this]
    · rfl
  have h0 : sstep SState.init (.comment (generatedWarning cfg)) = SState.init := rfl
  rw [h0, hc SState.init rfl rfl rfl]
  have hf := srun_functions f.functions
    (sstep (sstep SState.init .blank) (.pkg cfg.pkg)) rfl rfl rfl
  simp only [srun] at hf
  rw [hf]
  simp [sstep, SState.init]

/-- The `func` lines of the stub text, in order. -/
def declLines : List SLine → List Txt
  | [] => []
  | .decl s :: ls => s :: declLines ls
  | _ :: ls => declLines ls

theorem declLines_append (a b : List SLine) : declLines (a ++ b) = declLines a ++ declLines b := by
  induction a with
  | nil => rfl
  | cons x xs ih => cases x <;> simp [declLines, ih]

theorem declLines_map_of_not_decl {α} (g : α → SLine) (xs : List α)
    (h : ∀ x, declLines [g x] = []) : declLines (xs.map g) = [] := by
  induction xs with
  | nil => rfl
  | cons x xs ih =>
    have := h x
    rw [List.map_cons, ← List.singleton_append, declLines_append, this, ih]; rfl

/-- **declared_once.** The declarations of the stub text are exactly the
`Stub()` lines of the file's functions: each once, in file order. -/
theorem declared_once (cfg : Config) (f : File) :
    declLines (printStubs cfg f) = f.functions.map (·.stub) := by
  unfold printStubs stubConstraints constraintLines
  simp only [declLines_append, declLines]
  have hc : declLines (if f.hasConstraints = true then SLine.blank :: List.map SLine.raw f.constraints else []) = [] := by
    split
    · simp [declLines, declLines_map_of_not_decl SLine.raw _ (fun _ => rfl)]
    · rfl
  rw [hc]
  simp only [List.nil_append]
  induction f.functions with
  | nil => rfl
  | cons fn fns ih =>
    simp only [List.flatMap_cons, declLines_append, ih, stubFunction, declLines, List.map_cons]
    simp [declLines_map_of_not_decl SLine.comment _ (fun _ => rfl),
      declLines_map_of_not_decl (fun p : Pragma => SLine.pragma p.directive p.args) _ (fun _ => rfl)]

/-- **stubs_match_asm.** The stub file declares exactly the functions the
assembly file defines: the declarations and the TEXT lines are both the
file's function list, in the same order (one declaration and one TEXT line per
function). -/
theorem stubs_match_asm (names) (cfg : Config) (f : File) :
    declLines (printStubs cfg f) = f.functions.map (·.stub) ∧
    textLines (printFile names cfg f) = f.functions.map (Function.header names) ∧
    (declLines (printStubs cfg f)).length = (textLines (printFile names cfg f)).length := by
  refine ⟨declared_once cfg f, one_text_per_fn names cfg f, ?_⟩
  rw [declared_once, one_text_per_fn]; simp

/-! Non-vacuity -/

def exStubFile : File :=
  ⟨true, ["//go:build amd64".toList], [],
   [.fn { name := ['f'], attrs := 4#16, frame := 0, args := 8, isa := [], stub := "func f(x uint64)".toList,
          doc := ["f does it.".toList, "".toList], pragmas := [⟨"noescape".toList, []⟩, ⟨"linkname".toList, [['f'], "p.g".toList]⟩],
          nodes := [] },
    .gl ⟨"t".toList, true, 8#16, 0, []⟩,
    .fn { name := ['g'], attrs := 0#16, frame := 0, args := 0, isa := [], stub := "func g()".toList,
          doc := [], pragmas := [], nodes := [] }]⟩

set_option maxRecDepth 8000 in
example : (render (printStubs ⟨"avo".toList, none, ['p']⟩ exStubFile)) =
    ("// Code generated by avo. DO NOT EDIT.\n\n//go:build amd64\n\npackage p\n\n// f does it.\n//\n" ++
     "//go:noescape\n//go:linkname f p.g\nfunc f(x uint64)\n\nfunc g()\n").toList := by decide

example : parseStubs (printStubs ⟨"avo".toList, none, ['p']⟩ exStubFile) =
    some (['p'], [⟨["f does it.".toList, []], [⟨"noescape".toList, []⟩, ⟨"linkname".toList, [['f'], "p.g".toList]⟩],
                   "func f(x uint64)".toList⟩, ⟨[], [], "func g()".toList⟩]) := by decide

end Avo.Print
