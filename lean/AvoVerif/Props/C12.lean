/-
C12 — The stub file declares exactly the functions the assembly defines.
Proved over the structured lines handed to go/format (`printStubs`) and, under
explicit token hypotheses (`WFStubs`: no newline in any token, `Stub()` is
`func NAME(`…), over the BYTES of that text (part 2); the signature text is an
opaque token.  Part 3: the acceptors the driver runs on the real (formatted)
output are sound for declarative statements, and accept the model's own text.
Part 4: user text is transported verbatim — for all strings the lines of the
model's text contain the `Stub()` text, directives, doc lines, package name,
constraint lines and generated-by text character for character
(`stub_tokens_verbatim`), and the acceptor `acceptVerbatim`, run on the real
formatted file, compares every declaration with `Stub()` up to layout only.
Part 5: the configuration layer (`build.NewFlags`/`Flags.Config`): which package
a command line yields (explicit `-pkg` wins, otherwise the working directory's
base name; never the output directories), and that both files are printed
under that one configuration.
Validity, gofmt-stability, type identity and linkability of the formatted file
are measured by the harness (go/format and go/types are not modelled).
-/
import AvoVerif.Props.C11Text
import AvoVerif.Model.Stubs
namespace Avo.Print
open Avo.Attr

/-- **same constraints.** The constraint block of the stub file is the same
function of the file as the one of the assembly file.  (True by definition of
the MODEL — both printers are modelled with the one function `constraintLines`;
that the two real printers agree is what `accept-cons`/`acceptCons_sound` judge
on every generated pair, and the `stubs`/`print` differentials tie each printer
to the model.) -/
theorem stub_constraints_eq (f : File) : stubConstraints f = asmConstraints f := rfl

/-- Both printers put the block right after the generated-code comment. -/
theorem constraints_position (names) (cfg : Config) (f : File) :
    (∃ rest, printStubs cfg f = .comment (generatedWarning cfg) :: (stubConstraints f ++ rest)) ∧
    (∃ rest, printFile names cfg f = .comment (generatedWarning cfg) :: (asmConstraints f ++ rest)) := by
  constructor
  · exact ⟨[.blank, .pkg cfg.pkg] ++ f.functions.flatMap stubFunction, by simp [printStubs]⟩
  · exact ⟨includeLines f ++ f.sections.flatMap (printSection names), by simp [printFile, asmHeader]⟩

def srun (st : SState) (ls : List SLine) : SState := ls.foldl sstep st

theorem srun_append (st : SState) (a b : List SLine) : srun st (a ++ b) = srun (srun st a) b := by
  simp [srun, List.foldl_append]

theorem srun_cons (st : SState) (a : SLine) (b : List SLine) : srun st (a :: b) = srun (sstep st a) b := rfl

theorem srun_nil (st : SState) : srun st [] = st := rfl

theorem srun_docs (ds : List Txt) (st : SState) (hp : st.pkg.isSome = true) (hg : st.prag = []) :
    srun st (ds.map SLine.comment) = { st with doc := st.doc ++ ds } := by
  induction ds generalizing st with
  | nil => simp [srun_nil]
  | cons d ds ih =>
    have hn : st.pkg.isNone = false := by cases h : st.pkg <;> simp_all
    simp only [List.map_cons, srun_cons, sstep, hn, Bool.false_eq_true, ↓reduceIte]
    rw [ih]
    · simp [hg]
    · exact hp
    · exact hg

theorem srun_pragmas (ps : List Pragma) (st : SState) (hp : st.pkg.isSome = true) :
    srun st (ps.map (fun p => SLine.pragma p.directive p.args)) = { st with prag := st.prag ++ ps } := by
  induction ps generalizing st with
  | nil => simp [srun_nil]
  | cons p ps ih =>
    simp only [List.map_cons, srun_cons, sstep]
    rw [ih]
    · simp [hp]
    · exact hp

/-- One function of the stub file, read back: one more declaration carrying
the function's doc lines, then its pragmas, then its `func` line. -/
theorem srun_stubFunction (fn : Function) (st : SState) (hp : st.pkg.isSome = true)
    (hd : st.doc = []) (hg : st.prag = []) :
    srun st (stubFunction fn) = { st with decls := st.decls ++ [declSum fn] } := by
  unfold stubFunction
  simp only [List.append_assoc, List.singleton_append, srun_cons, srun_append, sstep]
  rw [srun_docs _ _ (by simpa using hp) (by simpa using hg)]
  rw [srun_pragmas _ _ (by simpa using hp)]
  simp only [srun_cons, srun_nil, sstep]
  cases st
  simp_all [declSum]

theorem srun_functions (fns : List Function) (st : SState) (hp : st.pkg.isSome = true)
    (hd : st.doc = []) (hg : st.prag = []) :
    srun st (fns.flatMap stubFunction) = { st with decls := st.decls ++ fns.map declSum } := by
  induction fns generalizing st with
  | nil => simp [srun_nil]
  | cons fn fns ih =>
    simp only [List.flatMap_cons, srun_append]
    rw [srun_stubFunction fn st hp hd hg, ih]
    · simp
    · exact hp
    · exact hd
    · exact hg

theorem srun_raws (cs : List Txt) (st : SState) (hp : st.pkg = none) :
    srun st (cs.map SLine.raw) = st := by
  induction cs generalizing st with
  | nil => rfl
  | cons c cs ih =>
    simp only [List.map_cons, srun_cons, sstep]
    have : ({ st with ok := st.ok && st.pkg.isNone } : SState) = st := by cases st; simp_all
    rw [this, ih st hp]

/-- **parse_stubs.** For every file: the stub text (before go/format) has the
package clause as configured and declares each function exactly once, in file
order, each declaration preceded by the function's doc lines and then its
pragma lines. -/
theorem parse_stubs (cfg : Config) (f : File) :
    parseStubs (printStubs cfg f) = some (cfg.pkg, f.functions.map declSum) := by
  unfold parseStubs printStubs stubConstraints constraintLines
  have h := srun_append
  simp only [srun] at h
  simp only [h, List.foldl_cons, List.foldl_nil, List.singleton_append]
  have hc : ∀ st : SState, st.pkg = none → st.doc = [] → st.prag = [] →
      List.foldl sstep st (if f.hasConstraints = true then SLine.blank :: List.map SLine.raw f.constraints else []) = st := by
    intro st hp hd hg
    split
    · have hb : sstep st .blank = st := by cases st; simp_all [sstep]
      have := srun_raws f.constraints st hp
      simp only [srun] at this
      simp only [List.foldl_cons, hb, this]
    · rfl
  have h0 : sstep SState.init (.comment (generatedWarning cfg)) = SState.init := rfl
  rw [h0, hc SState.init rfl rfl rfl]
  have hf := srun_functions f.functions
    (sstep (sstep SState.init .blank) (.pkg cfg.pkg)) rfl rfl rfl
  simp only [srun] at hf
  rw [hf]
  simp [sstep, SState.init]

/-- The `func` lines of the stub text, in order. -/
def declLines : List SLine → List Txt
  | [] => []
  | .decl s :: ls => s :: declLines ls
  | _ :: ls => declLines ls

theorem declLines_append (a b : List SLine) : declLines (a ++ b) = declLines a ++ declLines b := by
  induction a with
  | nil => rfl
  | cons x xs ih => cases x <;> simp [declLines, ih]

theorem declLines_map_of_not_decl {α} (g : α → SLine) (xs : List α)
    (h : ∀ x, declLines [g x] = []) : declLines (xs.map g) = [] := by
  induction xs with
  | nil => rfl
  | cons x xs ih =>
    have := h x
    rw [List.map_cons, ← List.singleton_append, declLines_append, this, ih]; rfl

/-- **declared_once.** The declarations of the stub text are exactly the
`Stub()` lines of the file's functions: each once, in file order. -/
theorem declared_once (cfg : Config) (f : File) :
    declLines (printStubs cfg f) = f.functions.map (·.stub) := by
  unfold printStubs stubConstraints constraintLines
  simp only [declLines_append, declLines]
  have hc : declLines (if f.hasConstraints = true then SLine.blank :: List.map SLine.raw f.constraints else []) = [] := by
    split
    · simp [declLines, declLines_map_of_not_decl SLine.raw _ (fun _ => rfl)]
    · rfl
  rw [hc]
  simp only [List.nil_append]
  induction f.functions with
  | nil => rfl
  | cons fn fns ih =>
    simp only [List.flatMap_cons, declLines_append, ih, stubFunction, declLines, List.map_cons]
    simp [declLines_map_of_not_decl SLine.comment _ (fun _ => rfl),
      declLines_map_of_not_decl (fun p : Pragma => SLine.pragma p.directive p.args) _ (fun _ => rfl)]

/-- **stubs_match_asm.** The stub file declares exactly the functions the
assembly file defines: the declarations and the TEXT lines are both the
file's function list, in the same order (one declaration and one TEXT line per
function). -/
theorem stubs_match_asm (names) (cfg : Config) (f : File) :
    declLines (printStubs cfg f) = f.functions.map (·.stub) ∧
    textLines (printFile names cfg f) = f.functions.map (Function.header names) ∧
    (declLines (printStubs cfg f)).length = (textLines (printFile names cfg f)).length := by
  refine ⟨declared_once cfg f, one_text_per_fn names cfg f, ?_⟩
  rw [declared_once, one_text_per_fn]; simp

/-! Non-vacuity -/

def exStubFile : File :=
  ⟨true, ["//go:build amd64".toList], [],
   [.fn { name := ['f'], attrs := 4#16, frame := 0, args := 8, isa := [], stub := "func f(x uint64)".toList,
          doc := ["f does it.".toList, "".toList], pragmas := [⟨"noescape".toList, []⟩, ⟨"linkname".toList, [['f'], "p.g".toList]⟩],
          nodes := [] },
    .gl ⟨"t".toList, true, 8#16, 0, []⟩,
    .fn { name := ['g'], attrs := 0#16, frame := 0, args := 0, isa := [], stub := "func g()".toList,
          doc := [], pragmas := [], nodes := [] }]⟩

set_option maxRecDepth 8000 in
example : (render (printStubs ⟨"avo".toList, none, ['p']⟩ exStubFile)) =
    ("// Code generated by avo. DO NOT EDIT.\n\n//go:build amd64\n\npackage p\n\n// f does it.\n//\n" ++
     "//go:noescape\n//go:linkname f p.g\nfunc f(x uint64)\n\nfunc g()\n").toList := by decide

example : parseStubs (printStubs ⟨"avo".toList, none, ['p']⟩ exStubFile) =
    some (['p'], [⟨["f does it.".toList, []], [⟨"noescape".toList, []⟩, ⟨"linkname".toList, [['f'], "p.g".toList]⟩],
                   "func f(x uint64)".toList⟩, ⟨[], [], "func g()".toList⟩]) := by decide

/-! ## 2. Acceptors on real output: declarative statements and soundness -/

theorem splitNL_nonl (t : Txt) : ∀ l ∈ splitNL t, NoNL l := by
  induction t with
  | nil => intro l hl; simp [splitNL] at hl; subst hl; exact nonl_nil
  | cons c cs ih =>
    intro l hl
    simp only [splitNL] at hl
    split at hl
    · rcases List.mem_cons.1 hl with h | h
      · subst h; exact nonl_nil
      · exact ih l h
    · rename_i hc
      split at hl
      · rename_i he; exact absurd he (splitNL_ne_nil cs)
      · rename_i h t' he
        rcases List.mem_cons.1 hl with h1 | h1
        · subst h1
          have : NoNL h := ih h (by rw [he]; simp)
          exact nonl_cons.2 ⟨hc, this⟩
        · exact ih l (by rw [he]; exact List.mem_cons_of_mem _ h1)

/-- A text whose last line (after the final newline) is empty is the
concatenation of its newline-terminated lines. -/
theorem splitNL_join (t : Txt) (ls : List Txt) (h : splitNL t = ls ++ [[]]) :
    t = ls.flatMap (· ++ ['\n']) := by
  induction t generalizing ls with
  | nil =>
    cases ls with
    | nil => rfl
    | cons a as => simp [splitNL] at h
  | cons c cs ih =>
    simp only [splitNL] at h
    split at h
    · rename_i hc
      cases ls with
      | nil => simp at h; exact absurd h (splitNL_ne_nil cs)
      | cons a as =>
        simp only [List.cons_append, List.cons.injEq] at h
        rw [← h.1, ih as h.2, hc]; rfl
    · split at h
      · rename_i he; exact absurd he (splitNL_ne_nil cs)
      · rename_i hd tl he
        cases ls with
        | nil => simp at h
        | cons a as =>
          simp only [List.cons_append, List.cons.injEq] at h
          have := ih (hd :: as) (by rw [he, h.2]; rfl)
          rw [this, ← h.1]; rfl

theorem textLines?_spec (out : Txt) (ls : List Txt) (h : textLines? out = some ls) :
    out = ls.flatMap (· ++ ['\n']) ∧ ∀ l ∈ ls, NoNL l := by
  unfold textLines? at h
  simp only at h
  split at h
  · rename_i hl
    have hls : ls = (splitNL out).dropLast := by simpa using h.symm
    obtain ⟨ys, hys⟩ := List.getLast?_eq_some_iff.1 hl
    have hd : (splitNL out).dropLast = ys := by rw [hys]; simp
    refine ⟨splitNL_join out ls (by rw [hls, hd]; exact hys), ?_⟩
    intro l hm
    rw [hls] at hm
    exact splitNL_nonl out l (List.dropLast_subset _ hm)
  · simp at h

/-- **Declarative statement judged on the real stub file.** The text is a
sequence of newline-terminated lines; exactly one line starts with `package `
and names the configured package; the build-constraint lines of the header are
the file's; the lines starting with `func ` declare — in this order, each
once — exactly the names of the file's functions; the directive lines of the
comment block directly above each are exactly the function's directives. -/
def StubTextOK (cfg : Config) (f : File) (out : Txt) : Prop :=
  ∃ ls : List Txt, out = ls.flatMap (· ++ ['\n']) ∧ (∀ l ∈ ls, NoNL l) ∧
    pkgClauses ls = [cfg.pkg] ∧ headerConstraints ls = f.constraints ∧
    (funcDecls ls []).map (·.1) = f.functions.map (·.name) ∧
    (funcDecls ls []).map (·.2) = f.functions.map pragmaLines

/-- **acceptStubs_sound.** -/
theorem acceptStubs_sound (cfg : Config) (f : File) (out : Txt)
    (h : acceptStubs cfg f out = "ok") : StubTextOK cfg f out := by
  unfold acceptStubs at h
  split at h
  · simp at h
  · rename_i ls hls
    obtain ⟨h1, h2⟩ := textLines?_spec out ls hls
    split at h
    · simp at h
    · rename_i hp
      split at h
      · simp at h
      · rename_i hc
        simp only at h
        split at h
        · simp at h
        · rename_i hd
          split at h
          · simp at h
          · rename_i hg
            exact ⟨ls, h1, h2, by simpa using hp, by simpa using hc, by simpa using hd, by simpa using hg⟩

/-- Both outputs carry the same constraint lines, and they are the file's. -/
def SameConstraints (f : File) (asm stub : Txt) : Prop :=
  headerConstraints (splitNL asm) = headerConstraints (splitNL stub) ∧
  headerConstraints (splitNL stub) = f.constraints

/-- **acceptCons_sound.** -/
theorem acceptCons_sound (f : File) (asm stub : Txt) (h : acceptCons f asm stub = "ok") :
    SameConstraints f asm stub := by
  unfold acceptCons at h
  simp only at h
  split at h
  · simp at h
  · rename_i h1
    split at h
    · simp at h
    · rename_i h2
      have e1 : headerConstraints (splitNL asm) = headerConstraints (splitNL stub) := by simpa using h1
      exact ⟨e1, by rw [← e1]; simpa using h2⟩

/-! ## 3. The model's own text, read as bytes (under explicit token hypotheses) -/

theorem trimRight_prefix (x : Txt) : ∃ s, x = trimRight x ++ s := by
  unfold trimRight
  refine ⟨(x.reverse.takeWhile isGoSpace).reverse, ?_⟩
  have := List.takeWhile_append_dropWhile (p := isGoSpace) (l := x.reverse)
  have h2 := congrArg List.reverse this
  simp only [List.reverse_append, List.reverse_reverse] at h2
  exact h2.symm

theorem trimRight_append_nonspace (a : Txt) (c : Char) (t : Txt) (h : isGoSpace c = false) :
    trimRight (a ++ c :: t) = a ++ c :: trimRight t := by
  unfold trimRight
  rw [List.reverse_append, List.reverse_cons, List.append_assoc, List.dropWhile_append]
  split
  · rename_i he
    have : List.dropWhile isGoSpace t.reverse = [] := by simpa using he
    simp [this, h]
  · simp

/-- A comment line is `//` or starts with `// `. -/
theorem commentText_shape (t : Txt) :
    commentText t = ['/', '/'] ∨ ∃ r, commentText t = '/' :: '/' :: ' ' :: r := by
  unfold commentText
  rw [trimRight_cons _ _ (by decide), trimRight_cons _ _ (by decide)]
  obtain ⟨s, hs⟩ := trimRight_prefix (' ' :: t)
  cases h : trimRight (' ' :: t) with
  | nil => left; rfl
  | cons c r =>
    right
    rw [h] at hs
    simp only [List.cons_append, List.cons.injEq] at hs
    exact ⟨r, by rw [← hs.1]⟩

/-- Facts about one rendered line used by the readers below:
(starts with `//`, is a directive, declares a function, is a package clause). -/
structure LineFacts (l : Txt) (sl dir : Bool) : Prop where
  slashes : hasPrefix kwSlashes l = sl
  directive : hasPrefix kwDirective l = dir
  nofunc : stripPrefix kwFunc l = none
  nopkg : stripPrefix kwPackage l = none

theorem facts_blank : LineFacts [] false false := ⟨rfl, rfl, rfl, rfl⟩

theorem facts_comment (t : Txt) : LineFacts (commentText t) true false := by
  rcases commentText_shape t with h | ⟨r, h⟩ <;> rw [h] <;>
    exact ⟨by simp [hasPrefix, kwSlashes, stripPrefix], by simp [hasPrefix, kwDirective, stripPrefix],
      by simp [kwFunc, stripPrefix], by simp [kwPackage, stripPrefix]⟩

theorem facts_pragma (d : Txt) (as : List Txt) : LineFacts (pragmaText d as) true true := by
  unfold pragmaText
  exact ⟨by simp [hasPrefix, kwSlashes, stripPrefix], by simp [hasPrefix, kwDirective, stripPrefix],
    by simp [kwFunc, stripPrefix], by simp [kwPackage, stripPrefix]⟩

theorem facts_of_slashes (l : Txt) (h : hasPrefix kwSlashes l = true) :
    stripPrefix kwFunc l = none ∧ stripPrefix kwPackage l = none := by
  obtain ⟨r, hr⟩ := slashes_of_strip l (by simpa [hasPrefix, kwSlashes] using h)
  subst hr
  exact ⟨by simp [kwFunc, stripPrefix], by simp [kwPackage, stripPrefix]⟩

theorem hasPrefix_of_append (a b t : Txt) (h : hasPrefix (a ++ b) t = true) : hasPrefix a t = true := by
  induction a generalizing t with
  | nil => simp [hasPrefix, stripPrefix]
  | cons x xs ih =>
    cases t with
    | nil => simp [hasPrefix, stripPrefix] at h
    | cons y ys =>
      simp only [hasPrefix, List.cons_append, stripPrefix] at h ⊢
      split
      · rename_i he; rw [if_pos he] at h; exact ih ys h
      · rename_i he; rw [if_neg he] at h; simp at h

theorem slashes_of_constraint (l : Txt) (h : isConstraintLine l = true) : hasPrefix kwSlashes l = true := by
  unfold isConstraintLine at h
  have h' : hasPrefix kwGoBuild l = true ∨ hasPrefix kwPlusBuild l = true := by simpa using h
  rcases h' with h | h
  · exact hasPrefix_of_append kwSlashes ['g', 'o', ':', 'b', 'u', 'i', 'l', 'd'] l h
  · exact hasPrefix_of_append kwSlashes [' ', '+', 'b', 'u', 'i', 'l', 'd'] l h

/-! funcDecls over blocks of lines -/

theorem funcDecls_append (a b rev : List Txt) :
    funcDecls (a ++ b) rev = funcDecls a rev ++ funcDecls b (a.reverse ++ rev) := by
  induction a generalizing rev with
  | nil => rfl
  | cons l ls ih =>
    simp only [List.cons_append, funcDecls]
    split <;> simp [ih, List.reverse_cons, List.append_assoc]

theorem funcDecls_nofunc (a rev : List Txt) (h : ∀ l ∈ a, stripPrefix kwFunc l = none) :
    funcDecls a rev = [] := by
  induction a generalizing rev with
  | nil => rfl
  | cons l ls ih =>
    simp only [funcDecls, h l List.mem_cons_self]
    exact ih _ (fun x hx => h x (List.mem_cons_of_mem _ hx))

theorem takeWhile_block (p : Txt → Bool) (a : List Txt) (y : Txt) (zs : List Txt)
    (ha : ∀ x ∈ a, p x = true) (hy : p y = false) : (a ++ y :: zs).takeWhile p = a := by
  induction a with
  | nil => simp [hy]
  | cons x xs ih =>
    have hx := ha x List.mem_cons_self
    simp [hx, ih (fun z hz => ha z (List.mem_cons_of_mem _ hz))]

/-- The rendered lines of one function of the stub file. -/
def fnLines (fn : Function) : List Txt :=
  [[]] ++ fn.doc.map commentText ++ pragmaLines fn ++ [fn.stub]

theorem fnLines_eq (fn : Function) : (stubFunction fn).map renderLine = fnLines fn := by
  simp [stubFunction, fnLines, pragmaLines, renderLine, Function.comp_def]

/-- Token hypotheses of one function: no newline in any token, and `Stub()` is
`func NAME(`…, the declared identifier being the function's (TEXT symbol) name. -/
structure WFStubFn (fn : Function) : Prop where
  doc : ∀ d ∈ fn.doc, NoNL d
  prag : ∀ p ∈ fn.pragmas, NoNL p.directive ∧ ∀ a ∈ p.args, NoNL a
  name : '(' ∉ fn.name
  stub : ∃ rest, fn.stub = kwFunc ++ fn.name ++ '(' :: rest
  stub_nonl : NoNL fn.stub

theorem directivesAbove_fn (fn : Function) (rev : List Txt) :
    directivesAbove ((pragmaLines fn).reverse ++ ((fn.doc.map commentText).reverse ++ ([] :: rev))) = pragmaLines fn := by
  unfold directivesAbove commentsAbove
  rw [← List.append_assoc]
  rw [takeWhile_block (hasPrefix kwSlashes) _ [] rev ?_ rfl]
  · rw [List.filter_append, List.reverse_append]
    have h1 : ((fn.doc.map commentText).reverse.filter (hasPrefix kwDirective)) = [] := by
      apply List.filter_eq_nil_iff.2
      intro l hl
      obtain ⟨d, _, rfl⟩ := List.mem_map.1 (List.mem_reverse.1 hl)
      simp [(facts_comment d).directive]
    have h2 : ((pragmaLines fn).reverse.filter (hasPrefix kwDirective)) = (pragmaLines fn).reverse := by
      apply List.filter_eq_self.2
      intro l hl
      obtain ⟨p, _, rfl⟩ := List.mem_map.1 (List.mem_reverse.1 hl)
      exact (facts_pragma p.directive p.args).directive
    rw [h1, h2]; simp
  · intro l hl
    rcases List.mem_append.1 hl with h | h
    · obtain ⟨p, _, rfl⟩ := List.mem_map.1 (List.mem_reverse.1 h)
      exact (facts_pragma p.directive p.args).slashes
    · obtain ⟨d, _, rfl⟩ := List.mem_map.1 (List.mem_reverse.1 h)
      exact (facts_comment d).slashes

/-- One function block, read back: one declaration of the function's name with
exactly its directives, whatever precedes the block. -/
theorem funcDecls_fnLines (fn : Function) (h : WFStubFn fn) (rev : List Txt) :
    funcDecls (fnLines fn) rev = [(fn.name, pragmaLines fn)] := by
  obtain ⟨rest, hs⟩ := h.stub
  unfold fnLines
  rw [funcDecls_append, funcDecls_nofunc]
  · simp only [List.nil_append, funcDecls]
    rw [hs, List.append_assoc, stripPrefix_append]
    simp only
    have ht := (takeWhile_stop notParen fn.name '(' rest
      (fun x hx => by simp only [notParen, bne_iff_ne, ne_eq]; intro e; exact h.name (e ▸ hx)) (by simp [notParen])).1
    rw [ht]
    simp only [List.reverse_append, List.reverse_cons, List.append_assoc, List.singleton_append]
    rw [directivesAbove_fn]
  · intro l hl
    simp only [List.mem_append, List.mem_singleton, List.mem_map] at hl
    rcases hl with (rfl | ⟨d, _, rfl⟩) | hp
    · rfl
    · exact (facts_comment d).nofunc
    · obtain ⟨p, _, rfl⟩ := List.mem_map.1 hp
      exact (facts_pragma p.directive p.args).nofunc

theorem funcDecls_functions (fns : List Function) (h : ∀ fn ∈ fns, WFStubFn fn) (rev : List Txt) :
    funcDecls (fns.flatMap fnLines) rev = fns.map (fun fn => (fn.name, pragmaLines fn)) := by
  induction fns generalizing rev with
  | nil => rfl
  | cons fn fns ih =>
    rw [List.flatMap_cons, funcDecls_append, funcDecls_fnLines fn (h fn List.mem_cons_self),
      ih (fun g hg => h g (List.mem_cons_of_mem _ hg))]
    rfl

/-- Token hypotheses of a whole stub file: no newline in any token; the
constraint lines are `//go:build` / `// +build` lines (what `buildtags.Format`
returns), none when the file has no constraints; every function as above. -/
structure WFStubs (cfg : Config) (f : File) : Prop where
  cfgname : NoNL cfg.name
  argv : ∀ a ∈ cfg.argv.getD [], NoNL a
  pkg : NoNL cfg.pkg
  cons : ∀ c ∈ f.constraints, NoNL c ∧ isConstraintLine c = true
  nocons : f.hasConstraints = false → f.constraints = []
  fns : ∀ fn ∈ f.functions, WFStubFn fn

/-- The lines of the stub text before the first function. -/
def headerLines (cfg : Config) (f : File) : List Txt :=
  [commentText (generatedWarning cfg)] ++ (if f.hasConstraints then [] :: f.constraints else []) ++
    [[], kwPackage ++ cfg.pkg]

theorem stubLines_eq (cfg : Config) (f : File) :
    (printStubs cfg f).map renderLine = headerLines cfg f ++ f.functions.flatMap fnLines := by
  unfold printStubs stubConstraints constraintLines headerLines
  simp only [List.map_append, List.map_flatMap, fnLines_eq]
  split <;> simp [renderLine, kwPackage, Function.comp_def]

theorem nonl_fnLines (fn : Function) (h : WFStubFn fn) : ∀ l ∈ fnLines fn, NoNL l := by
  intro l hl
  simp only [fnLines, List.mem_append, List.mem_singleton, List.mem_map] at hl
  rcases hl with ((rfl | ⟨d, hd, rfl⟩) | hp) | rfl
  · exact nonl_nil
  · exact nonl_commentText d (h.doc d hd)
  · obtain ⟨p, hq, rfl⟩ := List.mem_map.1 hp
    unfold pragmaText
    refine nonl_append.2 ⟨nonl_append.2 ⟨by simp [NoNL], (h.prag p hq).1⟩, ?_⟩
    exact nonl_flatMap_cons ' ' (by decide) _ (h.prag p hq).2
  · exact h.stub_nonl

theorem nonl_stubLines (cfg : Config) (f : File) (h : WFStubs cfg f) :
    ∀ l ∈ headerLines cfg f ++ f.functions.flatMap fnLines, NoNL l := by
  intro l hl
  rcases List.mem_append.1 hl with hh | hf
  · simp only [headerLines, List.mem_append, List.mem_cons, List.not_mem_nil, or_false] at hh
    rcases hh with (rfl | hc) | (rfl | rfl)
    · exact nonl_commentText _ (nonl_generatedWarning cfg h.cfgname h.argv)
    · split at hc
      · rcases List.mem_cons.1 hc with rfl | hc
        · exact nonl_nil
        · exact (h.cons l hc).1
      · simp at hc
    · exact nonl_nil
    · exact nonl_append.2 ⟨by simp [NoNL, kwPackage], h.pkg⟩
  · obtain ⟨fn, hfn, hl⟩ := List.mem_flatMap.1 hf
    exact nonl_fnLines fn (h.fns fn hfn) l hl

/-- **stub_text_lines.** The BYTES of the stub text split at newlines into the
header lines followed by one block per function (blank line, doc lines,
directives, `Stub()` line), and end with a newline. -/
theorem stub_text_lines (cfg : Config) (f : File) (h : WFStubs cfg f) :
    textLines? (render (printStubs cfg f)) = some (headerLines cfg f ++ f.functions.flatMap fnLines) := by
  have hn : ∀ l ∈ printStubs cfg f, NoNL (renderLine l) := by
    intro l hl
    apply nonl_stubLines cfg f h
    rw [← stubLines_eq]
    exact List.mem_map.2 ⟨l, hl, rfl⟩
  unfold textLines?
  simp only [splitNL_render _ hn, stubLines_eq]
  simp

theorem pkgClauses_none (a : List Txt) (h : ∀ l ∈ a, stripPrefix kwPackage l = none) : pkgClauses a = [] := by
  unfold pkgClauses
  exact List.filterMap_eq_nil_iff.2 h

theorem headerConstraints_block (cs tl : List Txt) (h : ∀ c ∈ cs, isConstraintLine c = true) :
    headerConstraints (cs ++ tl) = cs ++ headerConstraints tl := by
  induction cs with
  | nil => rfl
  | cons c cs ih =>
    have hc := h c List.mem_cons_self
    simp only [List.cons_append, headerConstraints, slashes_of_constraint c hc, hc, Bool.or_true, Bool.true_or,
      if_true]
    rw [ih (fun x hx => h x (List.mem_cons_of_mem _ hx))]
    rfl

theorem warning_not_constraint (cfg : Config) : isConstraintLine (commentText (generatedWarning cfg)) = false := by
  have : ∃ r, generatedWarning cfg = 'C' :: r := ⟨_, rfl⟩
  obtain ⟨r, hr⟩ := this
  unfold commentText
  rw [hr, show ('/' :: '/' :: ' ' :: 'C' :: r) = ['/', '/', ' '] ++ 'C' :: r from rfl,
    trimRight_append_nonspace _ _ _ (by decide)]
  simp [isConstraintLine, hasPrefix, kwGoBuild, kwPlusBuild, stripPrefix]

theorem nofunc_fnLines_pkg (fn : Function) (h : WFStubFn fn) : ∀ l ∈ fnLines fn, stripPrefix kwPackage l = none := by
  intro l hl
  simp only [fnLines, List.mem_append, List.mem_singleton, List.mem_map] at hl
  rcases hl with ((rfl | ⟨d, _, rfl⟩) | hp) | rfl
  · rfl
  · exact (facts_comment d).nopkg
  · obtain ⟨p, _, rfl⟩ := List.mem_map.1 hp
    exact (facts_pragma p.directive p.args).nopkg
  · obtain ⟨rest, hs⟩ := h.stub
    rw [hs]; simp [kwFunc, kwPackage, stripPrefix]

/-- The `func` lines of the whole stub text: one per function, in file order. -/
theorem funcDecls_stubLines (cfg : Config) (f : File) (h : WFStubs cfg f) :
    funcDecls (headerLines cfg f ++ f.functions.flatMap fnLines) [] =
      f.functions.map (fun fn => (fn.name, pragmaLines fn)) := by
    rw [funcDecls_append, funcDecls_functions _ h.fns, funcDecls_nofunc, List.nil_append]
    intro l hl
    simp only [headerLines, List.mem_append, List.mem_cons, List.not_mem_nil, or_false] at hl
    rcases hl with (rfl | hc) | (rfl | rfl)
    · exact (facts_comment _).nofunc
    · split at hc
      · rcases List.mem_cons.1 hc with rfl | hc
        · rfl
        · exact (facts_of_slashes l (slashes_of_constraint l (h.cons l hc).2)).1
      · simp at hc
    · rfl
    · simp [kwFunc, kwPackage, stripPrefix]

/-- **acceptStubs_model.** For every file satisfying the token hypotheses, the
acceptor accepts the BYTES of the model's stub text (the input of go/format). -/
theorem acceptStubs_model (cfg : Config) (f : File) (h : WFStubs cfg f) :
    acceptStubs cfg f (render (printStubs cfg f)) = "ok" := by
  unfold acceptStubs
  rw [stub_text_lines cfg f h]
  have hpkgline : stripPrefix kwPackage (kwPackage ++ cfg.pkg) = some cfg.pkg := stripPrefix_append _ _
  -- package clause
  have h1 : pkgClauses (headerLines cfg f ++ f.functions.flatMap fnLines) = [cfg.pkg] := by
    have hF : pkgClauses (f.functions.flatMap fnLines) = [] := by
      apply pkgClauses_none
      intro l hl
      obtain ⟨fn, hfn, hl⟩ := List.mem_flatMap.1 hl
      exact nofunc_fnLines_pkg fn (h.fns fn hfn) l hl
    have hC : pkgClauses (if f.hasConstraints then [] :: f.constraints else []) = [] := by
      apply pkgClauses_none
      intro l hl
      split at hl
      · rcases List.mem_cons.1 hl with rfl | hl
        · rfl
        · exact (facts_of_slashes l (slashes_of_constraint l (h.cons l hl).2)).2
      · simp at hl
    unfold pkgClauses at hF hC ⊢
    simp only [headerLines, List.filterMap_append, hF, hC, List.filterMap_cons, List.filterMap_nil,
      (facts_comment (generatedWarning cfg)).nopkg, hpkgline]
    rfl
  -- constraint lines of the header
  have hpk : headerConstraints ((kwPackage ++ cfg.pkg) :: f.functions.flatMap fnLines) = [] := by
    simp [headerConstraints, kwPackage, hasPrefix, kwSlashes, kwInclude, stripPrefix]
  have h2 : headerConstraints (headerLines cfg f ++ f.functions.flatMap fnLines) = f.constraints := by
    unfold headerLines
    simp only [List.append_assoc, List.cons_append, List.nil_append]
    rw [headerConstraints]
    simp only [(facts_comment (generatedWarning cfg)).slashes, warning_not_constraint, Bool.or_true, Bool.true_or,
      if_true, Bool.false_eq_true, if_false, List.nil_append]
    cases hc : f.hasConstraints with
    | true =>
      simp only [if_true, List.cons_append]
      rw [headerConstraints]
      simp only [List.isEmpty_nil, Bool.true_or, if_true]
      have e0 : isConstraintLine [] = false := rfl
      simp only [e0, Bool.false_eq_true, if_false, List.nil_append]
      rw [headerConstraints_block _ _ (fun c hc => (h.cons c hc).2), headerConstraints]
      simp only [List.isEmpty_nil, Bool.true_or, if_true, e0, Bool.false_eq_true, if_false, List.nil_append, hpk]
      simp
    | false =>
      simp only [Bool.false_eq_true, if_false, List.nil_append]
      rw [headerConstraints]
      have e0 : isConstraintLine [] = false := rfl
      simp only [List.isEmpty_nil, Bool.true_or, if_true, e0, Bool.false_eq_true, if_false, List.nil_append, hpk]
      exact (h.nocons hc).symm
  have h3 := funcDecls_stubLines cfg f h
  simp [h1, h2, h3, Function.comp_def]

/-- **stub_text_reads_back.** For every file satisfying the token hypotheses
the bytes of the stub text are newline-terminated lines, with exactly one
package clause (the configured one), the file's constraint lines in the header,
and `func` lines declaring — each once, in file order — exactly the names of
the file's functions, each with exactly its directives directly above it. -/
theorem stub_text_reads_back (cfg : Config) (f : File) (h : WFStubs cfg f) :
    StubTextOK cfg f (render (printStubs cfg f)) :=
  acceptStubs_sound cfg f _ (acceptStubs_model cfg f h)

/-- **stub_names_are_text_symbols.** Read from the bytes, the identifiers the
stub file declares are exactly the symbols of the assembly file's TEXT lines,
in the same order (declared ⇔ defined, at the level of the two pre-format
outputs). -/
theorem stub_names_are_text_symbols (names) (cfg : Config) (f : File) (h : WFStubs cfg f) :
    ∃ ls, textLines? (render (printStubs cfg f)) = some ls ∧
      (funcDecls ls []).map (·.1) = (textLines (printFile names cfg f)).map (·.1) := by
  refine ⟨_, stub_text_lines cfg f h, ?_⟩
  have h3 := funcDecls_stubLines cfg f h
  rw [h3, one_text_per_fn]
  simp [Function.header, Function.comp_def]

/-! Non-vacuity, and the NEGATIVE witness of findings C12-doc-newline -/

def exStubCfg : Config := ⟨"avo".toList, none, ['p']⟩

def exStubFn (name : String) (sig : String) (doc : List String) (pragmas : List Pragma) : Function :=
  { name := name.toList, attrs := 0#16, frame := 0, args := 0, isa := [],
    stub := ("func " ++ name ++ sig).toList, doc := doc.map String.toList, pragmas := pragmas, nodes := [] }

def exTextFile : File :=
  ⟨true, ["//go:build amd64".toList], [],
   [.fn (exStubFn "f" "(x uint64) uint64" ["f does it.", ""] [⟨"noescape".toList, []⟩]), .fn (exStubFn "g" "()" [] [])]⟩

theorem exTextFile_wf : WFStubs exStubCfg exTextFile := by
  refine ⟨by decide, by decide, by decide, by decide, by decide, ?_⟩
  intro fn hfn
  simp only [exTextFile, File.functions, List.filterMap_cons, List.filterMap_nil, List.mem_cons,
    List.not_mem_nil, or_false] at hfn
  rcases hfn with rfl | rfl
  · exact ⟨by decide, by decide, by decide, ⟨"x uint64) uint64".toList, by decide⟩, by decide⟩
  · exact ⟨by decide, by decide, by decide, ⟨")".toList, by decide⟩, by decide⟩

example : StubTextOK exStubCfg exTextFile (render (printStubs exStubCfg exTextFile)) :=
  stub_text_reads_back _ _ exTextFile_wf

set_option maxRecDepth 8000 in
example : acceptStubs exStubCfg exTextFile
    ("// Code generated by avo. DO NOT EDIT.\n\n//go:build amd64\n\npackage p\n\n// f does it.\n//\n//go:noescape\nfunc f(x uint64) uint64\n\nfunc g()\n").toList = "ok" := by
  decide

set_option maxRecDepth 8000 in
example : acceptCons exTextFile
    ("// Code generated by avo. DO NOT EDIT.\n\n//go:build amd64\n\n#include \"textflag.h\"\n\n// func g()\nTEXT ·g(SB), NOSPLIT, $0\n\tRET\n").toList
    ("// Code generated by avo. DO NOT EDIT.\n\n//go:build amd64\n\npackage p\n\nfunc g()\n").toList = "ok" := by
  decide

/-- The witness of finding C12-doc-newline: `Doc("f doc", "x\nfunc zz()")`. -/
def exNewlineFile : File :=
  ⟨false, [], [], [.fn (exStubFn "f" "(x uint64) uint64" ["f doc", "x\nfunc zz()"] [])]⟩

/-- **newline_injects_declaration** (negative witness; the hypothesis `WFStubFn.doc`
of `stub_text_reads_back` cannot be dropped): with a newline inside a doc line the
bytes of the stub text declare `zz` and `f`, although the file — and hence the
assembly — has the single function `f`; at the level of structured lines nothing
is wrong (`parse_stubs` still reads one declaration). -/
theorem newline_injects_declaration :
    (∃ ls, textLines? (render (printStubs exStubCfg exNewlineFile)) = some ls ∧
      (funcDecls ls []).map (·.1) = ["zz".toList, "f".toList]) ∧
    exNewlineFile.functions.map (·.name) = ["f".toList] ∧
    acceptStubs exStubCfg exNewlineFile (render (printStubs exStubCfg exNewlineFile)) = "bad-declarations" := by
  refine ⟨⟨_, rfl, ?_⟩, by decide, ?_⟩ <;> decide

/-! The executable hypotheses check run by the driver (`wf-stubs`) is sound. -/

theorem noNLb_iff (t : Txt) : noNLb t = true ↔ NoNL t := by
  simp [noNLb, NoNL]

theorem stripPrefix_sound (p t r : Txt) (h : stripPrefix p t = some r) : t = p ++ r := by
  induction p generalizing t with
  | nil => simp [stripPrefix] at h; simp [h]
  | cons a p ih =>
    cases t with
    | nil => simp [stripPrefix] at h
    | cons b t =>
      simp only [stripPrefix] at h
      split at h
      · rename_i he; rw [he, ih t h]; rfl
      · simp at h

theorem wfStubFnB_sound (fn : Function) (h : wfStubFnB fn = true) : WFStubFn fn := by
  simp only [wfStubFnB, Bool.and_eq_true, List.all_eq_true, Bool.not_eq_true', Option.isSome_iff_exists] at h
  obtain ⟨⟨⟨⟨hd, hp⟩, hn⟩, ⟨rest, hs⟩⟩, hst⟩ := h
  refine ⟨fun d hm => (noNLb_iff d).1 (hd d hm), ?_, by simpa using hn, ⟨rest, ?_⟩, (noNLb_iff _).1 hst⟩
  · intro p hm
    have := hp p hm
    exact ⟨(noNLb_iff _).1 this.1, fun a ha => (noNLb_iff a).1 (this.2 a ha)⟩
  · have := stripPrefix_sound _ _ _ hs
    rw [this]; simp [List.append_assoc]

/-- **wfStubsB_sound.** -/
theorem wfStubsB_sound (cfg : Config) (f : File) (h : wfStubsB cfg f = true) : WFStubs cfg f := by
  simp only [wfStubsB, Bool.and_eq_true, List.all_eq_true, Bool.or_eq_true, List.isEmpty_iff] at h
  obtain ⟨⟨⟨⟨⟨h1, h2⟩, h3⟩, h4⟩, h5⟩, h6⟩ := h
  refine ⟨(noNLb_iff _).1 h1, fun a ha => (noNLb_iff a).1 (h2 a ha), (noNLb_iff _).1 h3,
    fun c hc => ⟨(noNLb_iff c).1 (h4 c hc).1, (h4 c hc).2⟩, ?_, fun fn hfn => wfStubFnB_sound fn (h6 fn hfn)⟩
  intro hf
  rcases h5 with h5 | h5
  · rw [hf] at h5; simp at h5
  · exact h5

example : wfStubsB exStubCfg exTextFile = true := by decide
example : wfStubsB exStubCfg exNewlineFile = false := by decide

/-! ## 4. Verbatim transport of user text -/

theorem squash_append (a b : Txt) : squash (a ++ b) = squash a ++ squash b := by
  simp [squash]

/-- Every character that is not layout survives squashing, with its multiplicity. -/
theorem squash_count (t : Txt) (c : Char) (h : isLayout c = false) : (squash t).count c = t.count c := by
  induction t with
  | nil => rfl
  | cons x xs ih =>
    by_cases hx : isLayout x = true
    · have hne : x ≠ c := by intro e; rw [e, h] at hx; cases hx
      simp [squash, hx, hne] at ih ⊢
      exact ih
    · have hx' : isLayout x = false := by simpa using hx
      simp [squash, hx', List.count_cons] at ih ⊢
      rw [ih]

theorem mem_squash (t : Txt) (c : Char) : c ∈ squash t ↔ c ∈ t ∧ isLayout c = false := by
  simp [squash]

theorem takeWhile_holds {α} (p : α → Bool) (l : List α) : ∀ x ∈ l.takeWhile p, p x = true := by
  induction l with
  | nil => intro x hx; simp at hx
  | cons a as ih =>
    intro x hx
    simp only [List.takeWhile_cons] at hx
    split at hx
    · rename_i ha
      rcases List.mem_cons.1 hx with rfl | h
      · exact ha
      · exact ih x h
    · simp at hx

/-- `Comment` copies its line: `// ` followed by the line, nothing but trailing
white space removed. -/
theorem commentText_verbatim (t : Txt) :
    ∃ sp, (∀ c ∈ sp, isGoSpace c = true) ∧ '/' :: '/' :: ' ' :: t = commentText t ++ sp := by
  unfold commentText trimRight
  refine ⟨((('/' :: '/' :: ' ' :: t).reverse).takeWhile isGoSpace).reverse, ?_, ?_⟩
  · intro c hc
    exact takeWhile_holds _ _ c (List.mem_reverse.1 hc)
  · have := List.takeWhile_append_dropWhile (p := isGoSpace) (l := ('/' :: '/' :: ' ' :: t).reverse)
    have h2 := congrArg List.reverse this
    simp only [List.reverse_append, List.reverse_reverse] at h2
    exact h2.symm

/-- The generated-code comment contains the tool name, or every word of the
command line, as it was given. -/
theorem generatedWarning_verbatim (cfg : Config) :
    ∃ pre post, generatedWarning cfg = pre ++ (match cfg.argv with | none => cfg.name | some a => joinWith [' '] a) ++ post := by
  unfold generatedWarning
  cases cfg.argv with
  | none => exact ⟨_, _, rfl⟩
  | some a => exact ⟨"Code generated by command: ".toList, ". DO NOT EDIT.".toList, by simp⟩

/-! paragraphs of the model's text -/

theorem splitBlank_ne_nil (ls : List Txt) : splitBlank ls ≠ [] := by
  cases ls with
  | nil => simp [splitBlank]
  | cons l ls =>
    simp only [splitBlank]
    split
    · simp
    · split <;> simp

theorem splitBlank_last (a : List Txt) (ha : ∀ l ∈ a, l.isEmpty = false) : splitBlank a = [a] := by
  induction a with
  | nil => rfl
  | cons l ls ih =>
    simp only [splitBlank, ha l List.mem_cons_self, Bool.false_eq_true, if_false]
    rw [ih (fun x hx => ha x (List.mem_cons_of_mem _ hx))]

theorem splitBlank_block (a rest : List Txt) (ha : ∀ l ∈ a, l.isEmpty = false) :
    splitBlank (a ++ [] :: rest) = a :: splitBlank rest := by
  induction a with
  | nil => simp [splitBlank]
  | cons l ls ih =>
    simp only [List.cons_append, splitBlank, ha l List.mem_cons_self, Bool.false_eq_true, if_false]
    rw [ih (fun x hx => ha x (List.mem_cons_of_mem _ hx))]

/-- The non-blank lines of one function: doc lines, directives, declaration. -/
def fnBody (fn : Function) : List Txt := fn.doc.map commentText ++ pragmaLines fn ++ [fn.stub]

theorem fnLines_body (fn : Function) : fnLines fn = [] :: fnBody fn := by
  simp [fnLines, fnBody]

theorem slashes_nonempty (l : Txt) (h : hasPrefix kwSlashes l = true) : l.isEmpty = false := by
  cases l with
  | nil => simp [hasPrefix, kwSlashes, stripPrefix] at h
  | cons c cs => rfl

theorem fnBody_slashes (fn : Function) :
    ∀ l ∈ fn.doc.map commentText ++ pragmaLines fn, hasPrefix kwSlashes l = true := by
  intro l hl
  rcases List.mem_append.1 hl with h | h
  · obtain ⟨d, _, rfl⟩ := List.mem_map.1 h
    exact (facts_comment d).slashes
  · obtain ⟨p, _, rfl⟩ := List.mem_map.1 h
    exact (facts_pragma p.directive p.args).slashes

theorem stub_facts (fn : Function) (h : WFStubFn fn) :
    hasPrefix kwFunc fn.stub = true ∧ hasPrefix kwSlashes fn.stub = false ∧ fn.stub.isEmpty = false := by
  obtain ⟨rest, hs⟩ := h.stub
  rw [hs]
  refine ⟨?_, ?_, ?_⟩
  · simp [hasPrefix, List.append_assoc, stripPrefix_append]
  · simp [hasPrefix, kwFunc, kwSlashes, stripPrefix]
  · simp [kwFunc]

theorem fnBody_nonempty (fn : Function) (h : WFStubFn fn) : ∀ l ∈ fnBody fn, l.isEmpty = false := by
  intro l hl
  rcases List.mem_append.1 hl with h1 | h1
  · exact slashes_nonempty l (fnBody_slashes fn l h1)
  · rw [List.mem_singleton.1 h1]; exact (stub_facts fn h).2.2

theorem splitBlank_fns (p : List Txt) (hp : ∀ l ∈ p, l.isEmpty = false) (fns : List Function)
    (h : ∀ fn ∈ fns, WFStubFn fn) :
    splitBlank (p ++ fns.flatMap fnLines) = p :: fns.map fnBody := by
  induction fns generalizing p with
  | nil => simpa using splitBlank_last p hp
  | cons fn fns ih =>
    rw [List.flatMap_cons, fnLines_body, List.cons_append, splitBlank_block p _ hp,
      ih (fnBody fn) (fnBody_nonempty fn (h fn List.mem_cons_self)) (fun g hg => h g (List.mem_cons_of_mem _ hg))]
    rfl

theorem dropWhile_block (p : Txt → Bool) (a : List Txt) (y : Txt) (zs : List Txt)
    (ha : ∀ x ∈ a, p x = true) (hy : p y = false) : (a ++ y :: zs).dropWhile p = y :: zs := by
  induction a with
  | nil => simp [hy]
  | cons x xs ih =>
    have hx := ha x List.mem_cons_self
    simp [hx, ih (fun z hz => ha z (List.mem_cons_of_mem _ hz))]

theorem dropWhile_all {α} (p : α → Bool) (a : List α) (ha : ∀ x ∈ a, p x = true) : a.dropWhile p = [] := by
  induction a with
  | nil => rfl
  | cons x xs ih =>
    simp [ha x List.mem_cons_self, ih (fun z hz => ha z (List.mem_cons_of_mem _ hz))]

theorem declText_fnBody (fn : Function) (h : WFStubFn fn) : declText? (fnBody fn) = some (squash fn.stub) := by
  unfold declText? fnBody
  rw [dropWhile_block _ _ _ _ (fnBody_slashes fn) (stub_facts fn h).2.1]
  simp [(stub_facts fn h).1]

theorem declText_slashes (p : List Txt) (h : ∀ l ∈ p, hasPrefix kwSlashes l = true) : declText? p = none := by
  unfold declText?
  rw [dropWhile_all _ _ h]

theorem declTexts_fns (fns : List Function) (h : ∀ fn ∈ fns, WFStubFn fn) :
    (fns.map fnBody).filterMap declText? = fns.map (fun fn => squash fn.stub) := by
  induction fns with
  | nil => rfl
  | cons fn fns ih =>
    simp only [List.map_cons, List.filterMap_cons, declText_fnBody fn (h fn List.mem_cons_self)]
    rw [ih (fun g hg => h g (List.mem_cons_of_mem _ hg))]

theorem constraint_nonempty (c : Txt) (h : isConstraintLine c = true) : c.isEmpty = false :=
  slashes_nonempty c (slashes_of_constraint c h)

/-- The declarations read from the BYTES of the model's stub text, paragraph by
paragraph: exactly the `Stub()` texts, in file order. -/
theorem declTexts_stubLines (cfg : Config) (f : File) (h : WFStubs cfg f) :
    declTexts (headerLines cfg f ++ f.functions.flatMap fnLines) = f.functions.map (fun fn => squash fn.stub) := by
  have hw : ∀ l ∈ [commentText (generatedWarning cfg)], l.isEmpty = false := by
    intro l hl; rw [List.mem_singleton.1 hl]; exact slashes_nonempty _ (facts_comment _).slashes
  have hpk : ∀ l ∈ [kwPackage ++ cfg.pkg], l.isEmpty = false := by
    intro l hl; rw [List.mem_singleton.1 hl]; simp [kwPackage]
  have hW : declText? [commentText (generatedWarning cfg)] = none :=
    declText_slashes _ (by intro l hl; rw [List.mem_singleton.1 hl]; exact (facts_comment _).slashes)
  have hP : declText? [kwPackage ++ cfg.pkg] = none := by
    simp [declText?, hasPrefix, kwPackage, kwSlashes, kwFunc, stripPrefix]
  unfold declTexts headerLines
  cases hc : f.hasConstraints with
  | true =>
    have hcs : ∀ l ∈ f.constraints, l.isEmpty = false := fun l hl => constraint_nonempty l (h.cons l hl).2
    have hC : declText? f.constraints = none :=
      declText_slashes _ (fun l hl => slashes_of_constraint l (h.cons l hl).2)
    simp only [if_true, List.append_assoc, List.cons_append, List.nil_append]
    rw [show commentText (generatedWarning cfg) :: [] :: (f.constraints ++ [] :: (kwPackage ++ cfg.pkg) :: f.functions.flatMap fnLines)
        = [commentText (generatedWarning cfg)] ++ [] :: (f.constraints ++ [] :: ([kwPackage ++ cfg.pkg] ++ f.functions.flatMap fnLines)) from rfl,
      splitBlank_block _ _ hw, splitBlank_block _ _ hcs, splitBlank_fns _ hpk _ h.fns]
    simp only [List.filterMap_cons, hW, hC, hP, declTexts_fns _ h.fns]
  | false =>
    simp only [Bool.false_eq_true, if_false, List.cons_append, List.nil_append]
    rw [show commentText (generatedWarning cfg) :: [] :: (kwPackage ++ cfg.pkg) :: f.functions.flatMap fnLines
        = [commentText (generatedWarning cfg)] ++ [] :: ([kwPackage ++ cfg.pkg] ++ f.functions.flatMap fnLines) from rfl,
      splitBlank_block _ _ hw, splitBlank_fns _ hpk _ h.fns]
    simp only [List.filterMap_cons, hW, hP, declTexts_fns _ h.fns]


/-- What `acceptVerbatim` judges on the real stub file: the text is a sequence of
newline-terminated lines; the first is the generated-code comment with the tool
name / command line as given; the paragraphs that are function declarations
are — in file order, one per function — the `Stub()` texts of the file's
functions, character for character except layout. -/
def VerbatimOK (cfg : Config) (f : File) (out : Txt) : Prop :=
  ∃ ls : List Txt, out = ls.flatMap (· ++ ['\n']) ∧ (∀ l ∈ ls, NoNL l) ∧
    ls.head? = some (commentText (generatedWarning cfg)) ∧
    declTexts ls = f.functions.map (fun fn => squash fn.stub)

/-- **acceptVerbatim_sound.** -/
theorem acceptVerbatim_sound (cfg : Config) (f : File) (out : Txt)
    (h : acceptVerbatim cfg f out = "ok") : VerbatimOK cfg f out := by
  unfold acceptVerbatim at h
  split at h
  · simp at h
  · rename_i ls hls
    obtain ⟨h1, h2⟩ := textLines?_spec out ls hls
    split at h
    · simp at h
    · rename_i hg
      split at h
      · simp at h
      · rename_i hd
        exact ⟨ls, h1, h2, by simpa using hg, by simpa using hd⟩

/-- **acceptVerbatim_model.** For every file satisfying the token hypotheses —
whatever characters the signature, tags, names, tool name and command line are
made of — the bytes of the model's stub text pass: the model copies them. -/
theorem acceptVerbatim_model (cfg : Config) (f : File) (h : WFStubs cfg f) :
    acceptVerbatim cfg f (render (printStubs cfg f)) = "ok" := by
  unfold acceptVerbatim
  rw [stub_text_lines cfg f h]
  have h1 : (headerLines cfg f ++ f.functions.flatMap fnLines).head? = some (commentText (generatedWarning cfg)) := by
    simp [headerLines]
  simp [h1, declTexts_stubLines cfg f h]

/-- **stub_text_verbatim.** -/
theorem stub_text_verbatim (cfg : Config) (f : File) (h : WFStubs cfg f) :
    VerbatimOK cfg f (render (printStubs cfg f)) :=
  acceptVerbatim_sound cfg f _ (acceptVerbatim_model cfg f h)

/-- **stub_tokens_verbatim.** For all strings (under the token hypotheses): the
lines of the stub text are exactly known, and among them stand, character for
character, the package clause, every constraint line, and for every function
its `Stub()` text, `//go:` + directive + arguments for each pragma, and
`// ` + doc line (trailing white space trimmed, `commentText_verbatim`) for each
doc line; the lines starting with `func ` are exactly the `Stub()` texts. -/
theorem stub_tokens_verbatim (cfg : Config) (f : File) (h : WFStubs cfg f) :
    ∃ ls, textLines? (render (printStubs cfg f)) = some ls ∧
      ls.head? = some (commentText (generatedWarning cfg)) ∧
      (kwPackage ++ cfg.pkg) ∈ ls ∧
      (f.hasConstraints = true → ∀ c ∈ f.constraints, c ∈ ls) ∧
      (∀ fn ∈ f.functions, fn.stub ∈ ls ∧ (∀ d ∈ fn.doc, commentText d ∈ ls) ∧
        (∀ p ∈ fn.pragmas, kwDirective ++ p.directive ++ p.args.flatMap (fun a => ' ' :: a) ∈ ls)) ∧
      ls.filter (hasPrefix kwFunc) = f.functions.map (·.stub) := by
  refine ⟨_, stub_text_lines cfg f h, by simp [headerLines], ?_, ?_, ?_, ?_⟩
  · simp [headerLines]
  · intro hc c hm
    simp [headerLines, hc, hm]
  · intro fn hfn
    have hsub : ∀ l ∈ fnLines fn, l ∈ headerLines cfg f ++ f.functions.flatMap fnLines :=
      fun l hl => List.mem_append_right _ (List.mem_flatMap.2 ⟨fn, hfn, hl⟩)
    refine ⟨hsub _ (by simp [fnLines]), fun d hd => hsub _ ?_, fun p hp => hsub _ ?_⟩
    · simp only [fnLines, List.mem_append, List.mem_map]
      exact Or.inl (Or.inl (Or.inr ⟨d, hd, rfl⟩))
    · simp only [fnLines, List.mem_append, pragmaLines, List.mem_map]
      exact Or.inl (Or.inr ⟨p, hp, rfl⟩)
  · rw [List.filter_append]
    have hH : (headerLines cfg f).filter (hasPrefix kwFunc) = [] := by
      apply List.filter_eq_nil_iff.2
      intro l hl
      simp only [headerLines, List.mem_append, List.mem_cons, List.not_mem_nil, or_false] at hl
      have nf : ∀ x : Txt, stripPrefix kwFunc x = none → ¬ hasPrefix kwFunc x = true := by
        intro x hx; simp [hasPrefix, hx]
      rcases hl with (rfl | hc) | (rfl | rfl)
      · exact nf _ (facts_comment _).nofunc
      · split at hc
        · rcases List.mem_cons.1 hc with rfl | hc
          · exact nf _ rfl
          · exact nf _ (facts_of_slashes l (slashes_of_constraint l (h.cons l hc).2)).1
        · simp at hc
      · exact nf _ rfl
      · exact nf _ (by simp [kwFunc, kwPackage, stripPrefix])
    rw [hH, List.nil_append]
    have hF : ∀ fns : List Function, (∀ fn ∈ fns, WFStubFn fn) →
        (fns.flatMap fnLines).filter (hasPrefix kwFunc) = fns.map (·.stub) := by
      intro fns
      induction fns with
      | nil => intro _; rfl
      | cons fn fns ih =>
        intro hw
        rw [List.flatMap_cons, List.filter_append, ih (fun g hg => hw g (List.mem_cons_of_mem _ hg)), fnLines_body]
        have hb : (fnBody fn).filter (hasPrefix kwFunc) = [fn.stub] := by
          unfold fnBody
          rw [List.filter_append]
          have h0 : (fn.doc.map commentText ++ pragmaLines fn).filter (hasPrefix kwFunc) = [] := by
            apply List.filter_eq_nil_iff.2
            intro l hl
            have := (facts_of_slashes l (fnBody_slashes fn l hl)).1
            simp [hasPrefix, this]
          rw [h0]
          simp [(stub_facts fn (hw fn List.mem_cons_self)).1]
        have he : hasPrefix kwFunc ([] : Txt) = false := rfl
        simp [he, hb]
    exact hF _ h.fns

/-! Non-vacuity, and the witness of seeded change C12-6 (the declaration used as a format string) -/

/-- A function whose signature has struct tags with a fmt verb, both quoting
characters, a backslash and comment markers; doc line and directive argument
with fmt verbs. -/
def exPercentFile : File :=
  ⟨false, [], [],
   [.fn (exStubFn "f" "(s struct{Lo uint32 \"dump:\\\"%08x\\\"\"; Hi uint32 \"a`b\\\\c//d/*e\"}) uint32"
      ["f is 100% %d"] [⟨"linkname".toList, ["f".toList, "runtime.f%d".toList]⟩])]⟩

theorem exPercentFile_wf : WFStubs exStubCfg exPercentFile := by
  refine ⟨by decide, by decide, by decide, by decide, by decide, ?_⟩
  intro fn hfn
  simp only [exPercentFile, File.functions, List.filterMap_cons, List.filterMap_nil, List.mem_cons,
    List.not_mem_nil, or_false] at hfn
  subst hfn
  exact ⟨by decide, by decide, by decide,
    ⟨"s struct{Lo uint32 \"dump:\\\"%08x\\\"\"; Hi uint32 \"a`b\\\\c//d/*e\"}) uint32".toList, by decide⟩, by decide⟩

example : VerbatimOK exStubCfg exPercentFile (render (printStubs exStubCfg exPercentFile)) :=
  stub_text_verbatim _ _ exPercentFile_wf

/-- the real printer's output for this file (after go/format: the struct is laid out over several lines) -/
def exPercentGood : Txt :=
  ("// Code generated by avo. DO NOT EDIT.\n\npackage p\n\n// f is 100% %d\n//\n//go:linkname f runtime.f%d\n" ++
   "func f(s struct {\n\tLo uint32 \"dump:\\\"%08x\\\"\"\n\tHi uint32 \"a`b\\\\c//d/*e\"\n}) uint32\n").toList

/-- what a printer that uses the declaration as a format string writes -/
def exPercentBad : Txt :=
  ("// Code generated by avo. DO NOT EDIT.\n\npackage p\n\n// f is 100% %d\n//\n//go:linkname f runtime.f%d\n" ++
   "func f(s struct {\n\tLo uint32 \"dump:\\\"%!x(MISSING)\\\"\"\n\tHi uint32 \"a`b\\\\c//d/*e\"\n}) uint32\n").toList

set_option maxRecDepth 16000 in
example : acceptVerbatim exStubCfg exPercentFile exPercentGood = "ok" := by decide

set_option maxRecDepth 16000 in
/-- **format_string_corrupts_declaration** (witness): the corrupted file still
passes `acceptStubs` (names, directives, package, constraints are intact) and is
rejected by `acceptVerbatim`. -/
theorem format_string_corrupts_declaration :
    acceptStubs exStubCfg exPercentFile exPercentBad = "ok" ∧
    acceptVerbatim exStubCfg exPercentFile exPercentBad = "bad-declaration-text" := by
  constructor <;> decide

example : squash "func f(s struct{a int; b int})".toList = squash "func f(s struct {\n\ta int\n\tb int\n})".toList := by decide

/-! ## 5. The configuration layer: which package a command line yields -/

/-- **cli_explicit_pkg_wins.** An explicit, non-empty `-pkg` is the package —
whatever the working directory and wherever `-out` / `-stubs` point. -/
theorem cli_explicit_pkg_wins (cwdBase : Txt) (fl : CliFlags) (h : fl.pkg ≠ []) (o s : Dest) :
    cliPkg cwdBase { fl with out := o, stubs := s } = fl.pkg := by
  cases hp : fl.pkg with
  | nil => exact absurd hp h
  | cons c r => simp [cliPkg]

/-- **cli_default_pkg.** Without `-pkg` (or with an empty one) the package is the
base name of the working directory — not of any output directory. -/
theorem cli_default_pkg (cwdBase : Txt) (fl : CliFlags) (h : fl.pkg = []) (o s : Dest) :
    cliPkg cwdBase { fl with out := o, stubs := s } = cwdBase := by
  simp [cliPkg, h]

/-- The destination flags (and `-log`, `-cpuprofile`) never change the package. -/
theorem setFlag_keeps_pkg (fl fl' : CliFlags) (n v : Txt) (h : setFlag fl n v = some fl') (hn : n ≠ fPkg) :
    fl'.pkg = fl.pkg := by
  unfold setFlag at h
  rw [if_neg hn] at h
  split at h
  · cases h; rfl
  · split at h
    · cases h; rfl
    · split at h
      · cases h; rfl
      · cases h

/-- `-pkg` never changes where the files go. -/
theorem setFlag_pkg_keeps_dests (fl : CliFlags) (v : Txt) :
    setFlag fl fPkg v = some { fl with pkg := v } := by
  simp [setFlag]

/-- One step of the parser on a flag that takes its value from the next argument. -/
theorem parseArgs_valued (n v : Txt) (rest : List Txt) (fl : CliFlags)
    (hk : argKind ('-' :: n) = .flag n) (hs : splitEq n = (n, none)) (he : n ≠ ['e']) :
    parseArgs (('-' :: n) :: v :: rest) fl =
      (match setFlag fl n v with
       | some fl' => parseArgs rest fl'
       | none => none) := by
  rw [parseArgs]
  simp only [hk, hs, if_neg he]
  cases setFlag fl n v <;> rfl

/-- `-pkg P` followed by anything. -/
theorem parseArgs_pkg_step (p : Txt) (rest : List Txt) (fl : CliFlags) :
    parseArgs (('-' :: fPkg) :: p :: rest) fl = parseArgs rest { fl with pkg := p } := by
  rw [parseArgs_valued fPkg p rest fl (by decide) (by decide) (by decide), setFlag_pkg_keeps_dests]

theorem parseArgs_stubs_step (s : Txt) (rest : List Txt) (fl : CliFlags) :
    parseArgs (('-' :: fStubs) :: s :: rest) fl = parseArgs rest { fl with stubs := destOf s } := by
  rw [parseArgs_valued fStubs s rest fl (by decide) (by decide) (by decide)]
  have : setFlag fl fStubs s = some { fl with stubs := destOf s } := by
    unfold setFlag
    rw [if_neg (by decide), if_neg (by decide), if_pos rfl]
  rw [this]

theorem parseArgs_out_step (s : Txt) (rest : List Txt) (fl : CliFlags) :
    parseArgs (('-' :: fOut) :: s :: rest) fl = parseArgs rest { fl with out := destOf s } := by
  rw [parseArgs_valued fOut s rest fl (by decide) (by decide) (by decide)]
  have : setFlag fl fOut s = some { fl with out := destOf s } := by
    unfold setFlag
    rw [if_neg (by decide), if_pos rfl]
  rw [this]

/-- **cli_cmdline_pkg.** The command line of seeded change C12-9, for ALL
names: `-out A -stubs S -pkg P` with `P` non-empty yields package `P` for every
working directory and all paths `A`, `S` (whatever their directories). -/
theorem cli_cmdline_pkg (cwdBase a s p : Txt) (hp : p ≠ []) :
    (parseArgs [('-' :: fOut), a, ('-' :: fStubs), s, ('-' :: fPkg), p] CliFlags.init).map (cliPkg cwdBase) = some p := by
  rw [parseArgs_out_step, parseArgs_stubs_step, parseArgs_pkg_step]
  cases p with
  | nil => exact absurd rfl hp
  | cons c r => simp [parseArgs, cliPkg]

/-- **cli_stub_package_clause.** For every working directory, command line
(argv), flag values and file: the stub text produced under the configuration
has the package clause `cliPkg` and declares each function of the file once. -/
theorem cli_stub_package_clause (cwdBase : Txt) (argv : List Txt) (fl : CliFlags) (f : File) (ls : List SLine)
    (h : cliStubs cwdBase argv fl f = some ls) :
    parseStubs ls = some (cliPkg cwdBase fl, f.functions.map declSum) := by
  unfold cliStubs at h
  split at h
  · cases h
  · cases h; exact parse_stubs (cliConfig cwdBase argv fl) f

/-- … and on the BYTES, under the token hypotheses: exactly one package clause, `cliPkg`. -/
theorem cli_stub_text_package (cwdBase : Txt) (argv : List Txt) (fl : CliFlags) (f : File)
    (h : WFStubs (cliConfig cwdBase argv fl) f) :
    StubTextOK (cliConfig cwdBase argv fl) f (render (printStubs (cliConfig cwdBase argv fl) f)) ∧
    (cliConfig cwdBase argv fl).pkg = cliPkg cwdBase fl :=
  ⟨stub_text_reads_back _ f h, rfl⟩

/-- **cli_pair_same_config.** Both files of a command line are printed under
the SAME configuration: same generated-code comment, same constraint block,
declarations = TEXT lines. -/
theorem cli_pair_same_config (names) (cwdBase : Txt) (argv : List Txt) (fl : CliFlags) (f : File)
    (ss as : List SLine) (hs : cliStubs cwdBase argv fl f = some ss) (ha : cliAsm names cwdBase argv fl f = some as) :
    ss.head? = as.head? ∧
    (∃ rest, ss = .comment (generatedWarning (cliConfig cwdBase argv fl)) :: (stubConstraints f ++ rest)) ∧
    (∃ rest, as = .comment (generatedWarning (cliConfig cwdBase argv fl)) :: (asmConstraints f ++ rest)) ∧
    (declLines ss).length = (textLines as).length := by
  have es : ss = printStubs (cliConfig cwdBase argv fl) f := by
    unfold cliStubs at hs; split at hs <;> simp_all
  have ea : as = printFile names (cliConfig cwdBase argv fl) f := by
    unfold cliAsm at ha; split at ha <;> simp_all
  subst es ea
  obtain ⟨⟨r1, h1⟩, ⟨r2, h2⟩⟩ := constraints_position names (cliConfig cwdBase argv fl) f
  refine ⟨by rw [h1, h2]; rfl, ⟨r1, h1⟩, ⟨r2, h2⟩, (stubs_match_asm names _ f).2.2⟩

/-! Non-vacuity: the C12-9 command line in a module major-version directory -/

example : parseArgs ["-out".toList, "../v2/add_amd64.s".toList, "-stubs".toList, "../v2/add_stub.go".toList, "-pkg".toList, "xxhash".toList] CliFlags.init
    = some ⟨"xxhash".toList, .file "../v2/add_amd64.s".toList, .file "../v2/add_stub.go".toList⟩ := by decide +kernel

example : (parseArgs ["-stubs=/m/xxhash/v2/stub.go".toList, "--pkg=xxhash".toList, "-e".toList, "--".toList, "-pkg".toList, "v2".toList] CliFlags.init).map (cliPkg "asm".toList)
    = some "xxhash".toList := by decide +kernel

example : (parseArgs ["-stubs".toList, "-".toList, "-out=x.s".toList] CliFlags.init).map (fun fl => (cliPkg "go-foo".toList fl, fl.stubs))
    = some ("go-foo".toList, .stdout) := by decide +kernel

example : parseArgs ["-pkg".toList] CliFlags.init = none := by decide +kernel
example : parseArgs ["-nosuch=1".toList] CliFlags.init = none := by decide +kernel
example : parseArgs ["-e=maybe".toList] CliFlags.init = none := by decide +kernel
example : parseArgs ["-pkg".toList, "a".toList, "-pkg".toList, "b".toList] CliFlags.init = some ⟨['b'], .stdout, .none⟩ := by decide +kernel

example : (cliStubs "v2".toList ["go".toList, "run".toList, "asm.go".toList] ⟨"xxhash".toList, .stdout, .file "v2/stub.go".toList⟩ exStubFile).map parseStubs
    = some (some ("xxhash".toList, exStubFile.functions.map declSum)) := by decide +kernel

end Avo.Print
