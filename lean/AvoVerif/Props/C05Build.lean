/-
C05-(1) on the shared model of x86/optab.go (`Model/Instr.lean`, compared with
the real `build`/`match` by C06's correspondence): `build` is the generic
first-match scan of Props/C05.lean, so it returns the instruction of the FIRST
matching form, with the operands, opcode and suffixes as given.
-/
import AvoVerif.Props.C05
import AvoVerif.Model.Instr
namespace Avo.AsmText
open Avo.Instr

theorem instr_build_eq (M : Meta) (forms : List Form) (s : Sfx) (ops : List Operand) :
    Avo.Instr.build M forms s ops =
      buildWith (fun f ops => f.matches M s ops) (fun f ops => f.instr M s ops) forms ops := by
  unfold Avo.Instr.build
  induction forms with
  | nil => simp [buildWith]
  | cons f fs ih =>
    by_cases h : f.matches M s ops = true
    · simp [buildWith, List.find?, h]
    · have h' : f.matches M s ops = false := by simpa using h
      simp only [List.find?, h', buildWith, Bool.false_eq_true, if_false]
      exact ih

/-- `x86.build` (model): success iff a form matches; the result comes from the first
matching form; operands, opcode and suffixes are the ones requested. -/
theorem instr_build_first_match (M : Meta) (forms : List Form) (s : Sfx) (ops : List Operand) :
    (Avo.Instr.build M forms s ops = none ↔ ∀ f ∈ forms, f.matches M s ops = false) ∧
    (∀ i, Avo.Instr.build M forms s ops = some i →
      ∃ pre f post, forms = pre ++ f :: post ∧ (∀ g ∈ pre, g.matches M s ops = false) ∧ f.matches M s ops = true ∧
        i = f.instr M s ops ∧ i.operands = ops ∧ i.opc = f.opc ∧ i.sfx = s) := by
  rw [instr_build_eq]
  have h := build_first_match (fun (f : Form) ops => f.matches M s ops) (fun f ops => f.instr M s ops) forms ops
  refine ⟨h.1, ?_⟩
  intro i hi
  obtain ⟨pre, f, post, e, hpre, hf, rfl⟩ := h.2 i hi
  exact ⟨pre, f, post, e, hpre, hf, rfl, rfl, rfl, rfl⟩

end Avo.AsmText
