/-
C02, instruction level: what `specReads` / `specWrites` (Model/UseDef) say, as
theorems over an arbitrary operand list, and soundness of the acceptor
`acceptUseDef` used by the driver on the implementation's
`InputRegisters` / `OutputRegisters`.

Property text: "reads include address registers of every memory operand, mask
and merge-destination operands of masked instructions, and implicit operands.
A register combined with itself by a self-cancelling form (XOR r,r and similar)
is not a read of that register, but every other operand of that instruction
still is."  In the operand list every operand — explicit or implicit, mask
register, merge destination — is an entry with the action its form declares;
masks and merge destinations are entries with a read action.
-/
import AvoVerif.Model.UseDefCheck
import AvoVerif.Lemmas.MaskSet
namespace Avo.UseDef
open Avo.Reg Avo.MaskSet

/-! ### Membership characterisations -/

theorem mem_readRegs (ops : List AOp) (r : R) :
    r ∈ readRegs ops ↔ ∃ a ∈ ops, a.reads = true ∧ r ∈ a.op.regs := by
  unfold readRegs
  simp only [List.mem_flatMap]
  constructor
  · rintro ⟨a, ha, hr⟩
    by_cases h : a.reads = true
    · exact ⟨a, ha, h, by simpa [h] using hr⟩
    · simp [h] at hr
  · rintro ⟨a, ha, h, hr⟩
    exact ⟨a, ha, by simpa [h] using hr⟩

theorem mem_writtenMemAddrRegs (ops : List AOp) (r : R) :
    r ∈ writtenMemAddrRegs ops ↔ ∃ a ∈ ops, a.writes = true ∧ ∃ addr, a.op = .mem addr ∧ r ∈ addr := by
  unfold writtenMemAddrRegs
  simp only [List.mem_flatMap]
  constructor
  · rintro ⟨a, ha, hr⟩
    by_cases h : a.writes = true
    · simp only [h, if_true] at hr
      cases hop : a.op with
      | mem addr => rw [hop] at hr; exact ⟨a, ha, h, addr, hop, hr⟩
      | reg x f => rw [hop] at hr; cases hr
      | other => rw [hop] at hr; cases hr
    · simp [h] at hr
  · rintro ⟨a, ha, h, addr, hop, hr⟩
    exact ⟨a, ha, by simp only [h, if_true, hop]; exact hr⟩

/-- **Writes.** A register is written iff it is the (32→64 widened) register of
a register operand with a write action. Memory operands contribute nothing:
address registers are never writes. -/
theorem mem_specWrites (ops : List AOp) (r : R) :
    r ∈ specWrites ops ↔ ∃ a ∈ ops, a.writes = true ∧ ∃ x f, a.op = .reg x f ∧ r = widen x f := by
  unfold specWrites
  simp only [List.mem_flatMap]
  constructor
  · rintro ⟨a, ha, hr⟩
    by_cases h : a.writes = true
    · simp only [h, if_true] at hr
      cases hop : a.op with
      | reg x f => rw [hop] at hr; exact ⟨a, ha, h, x, f, hop, by simpa using hr⟩
      | mem addr => rw [hop] at hr; cases hr
      | other => rw [hop] at hr; cases hr
    · simp [h] at hr
  · rintro ⟨a, ha, h, x, f, hop, hr⟩
    exact ⟨a, ha, by simp only [h, if_true, hop]; simp [hr]⟩

/-- A 32-bit general-purpose destination is the whole 64-bit register of the
same identity; every other destination is itself. -/
theorem widen_spec (r : R) : widen r true = ⟨r.id, S64⟩ ∧ widen r false = r := by
  simp [widen]

/-! ### The self-cancelling situation -/

/-- `==` on registers (the derived structural comparison of identity and mask) is equality. -/
theorem R.beq_iff (x y : R) : (x == y) = true ↔ x = y := by
  rcases x with ⟨a, b⟩; rcases y with ⟨c, d⟩
  show (instBEqR.beq _ _) = true ↔ _
  simp [instBEqR.beq]

/-- The form is self-cancelling and its first two read registers are the same
register (same identity AND same bytes). -/
def cancels (c : Bool) (ops : List AOp) : Bool :=
  match readRegs ops with
  | a :: b :: _ => c && a == b
  | _ => false

theorem specReads_eq (c : Bool) (ops : List AOp) :
    specReads c ops =
      (if cancels c ops then (readRegs ops).drop 2 else readRegs ops) ++ writtenMemAddrRegs ops := by
  unfold specReads cancels
  cases h : readRegs ops with
  | nil => simp
  | cons a t =>
    cases t with
    | nil => simp
    | cons b rest =>
      by_cases hc : (c && a == b) = true
      · simp [hc]
      · have : (c && a == b) = false := by simpa using hc
        simp [this]

/-- **Address registers of written memory operands are reads — always**, also
in the self-cancelling situation. -/
theorem written_mem_address_read (c : Bool) (ops : List AOp) (a : AOp) (addr : List R) (r : R)
    (ha : a ∈ ops) (hw : a.writes = true) (hm : a.op = .mem addr) (hr : r ∈ addr) :
    r ∈ specReads c ops := by
  rw [specReads_eq]
  exact List.mem_append_right _ ((mem_writtenMemAddrRegs ops r).mpr ⟨a, ha, hw, addr, hm, hr⟩)

/-- **Outside the self-cancelling situation the reads are exactly**: every
register of every operand with a read action (register operands explicit or
implicit, mask registers, merge destinations, base and index of read memory
operands) and the address registers of every written memory operand. -/
theorem specReads_iff_of_not_cancels (c : Bool) (ops : List AOp) (h : cancels c ops = false) (r : R) :
    r ∈ specReads c ops ↔
      (∃ a ∈ ops, a.reads = true ∧ r ∈ a.op.regs) ∨
      (∃ a ∈ ops, a.writes = true ∧ ∃ addr, a.op = .mem addr ∧ r ∈ addr) := by
  rw [specReads_eq, h]
  simp only [Bool.false_eq_true, if_false, List.mem_append, mem_readRegs, mem_writtenMemAddrRegs]

/-- A form that is not self-cancelling never is in the self-cancelling situation. -/
theorem cancels_false_of_not_cancelling (ops : List AOp) : cancels false ops = false := by
  unfold cancels; split <;> simp

/-- Address registers (base and index, of any kind) of EVERY memory operand
that is read or written are reads, for forms that are not self-cancelling. -/
theorem mem_address_read (ops : List AOp) (a : AOp) (addr : List R) (r : R)
    (ha : a ∈ ops) (hact : a.reads = true ∨ a.writes = true) (hm : a.op = .mem addr) (hr : r ∈ addr) :
    r ∈ specReads false ops := by
  rcases hact with h | h
  · exact (specReads_iff_of_not_cancels false ops (cancels_false_of_not_cancelling ops) r).mpr
      (Or.inl ⟨a, ha, h, by rw [hm]; exact hr⟩)
  · exact written_mem_address_read false ops a addr r ha h hm hr

/-- **The cancelling rule drops exactly the pair.** For a self-cancelling form
whose first two operands are read register operands naming the same register,
the reads are those of the REMAINING operands, computed as for an ordinary form:
mask register, merge destination, implicit operands, further sources and the
address registers of a written memory operand all remain reads. -/
theorem specReads_cancelling_pair (a1 a2 : Nat) (x : R) (f1 f2 : Bool) (rest : List AOp)
    (h1 : (AOp.mk a1 (.reg x f1)).reads = true) (h2 : (AOp.mk a2 (.reg x f2)).reads = true) :
    specReads true (⟨a1, .reg x f1⟩ :: ⟨a2, .reg x f2⟩ :: rest) = specReads false rest := by
  have hr : readRegs (⟨a1, .reg x f1⟩ :: ⟨a2, .reg x f2⟩ :: rest) = x :: x :: readRegs rest := by
    simp [readRegs, h1, h2, Opnd.regs]
  have hw : writtenMemAddrRegs (⟨a1, .reg x f1⟩ :: ⟨a2, .reg x f2⟩ :: rest) = writtenMemAddrRegs rest := by
    simp [writtenMemAddrRegs]
  have hn : specReads false rest = readRegs rest ++ writtenMemAddrRegs rest := by
    rw [specReads_eq, cancels_false_of_not_cancelling]; simp
  have hc : cancels true (⟨a1, .reg x f1⟩ :: ⟨a2, .reg x f2⟩ :: rest) = true := by
    unfold cancels; rw [hr]; simp [(R.beq_iff x x).mpr rfl]
  rw [hn, specReads_eq, hc, hr, hw]
  simp

/-- … so every other operand of the instruction still is a read. -/
theorem other_operands_still_read (a1 a2 : Nat) (x : R) (f1 f2 : Bool) (rest : List AOp)
    (h1 : (AOp.mk a1 (.reg x f1)).reads = true) (h2 : (AOp.mk a2 (.reg x f2)).reads = true)
    (a : AOp) (ha : a ∈ rest) (r : R)
    (hr : (a.reads = true ∧ r ∈ a.op.regs) ∨ (a.writes = true ∧ ∃ addr, a.op = .mem addr ∧ r ∈ addr)) :
    r ∈ specReads true (⟨a1, .reg x f1⟩ :: ⟨a2, .reg x f2⟩ :: rest) := by
  rw [specReads_cancelling_pair a1 a2 x f1 f2 rest h1 h2]
  apply (specReads_iff_of_not_cancels false rest (cancels_false_of_not_cancelling rest) r).mpr
  rcases hr with ⟨h, hm⟩ | ⟨h, hm⟩
  · exact Or.inl ⟨a, ha, h, hm⟩
  · exact Or.inr ⟨a, ha, h, hm⟩

/-- … and the register combined with itself is a read only if another operand reads it. -/
theorem cancelled_register_not_read (a1 a2 : Nat) (x : R) (f1 f2 : Bool) (rest : List AOp)
    (h1 : (AOp.mk a1 (.reg x f1)).reads = true) (h2 : (AOp.mk a2 (.reg x f2)).reads = true)
    (hrest : ∀ a ∈ rest, x ∉ a.op.regs) :
    x ∉ specReads true (⟨a1, .reg x f1⟩ :: ⟨a2, .reg x f2⟩ :: rest) := by
  rw [specReads_cancelling_pair a1 a2 x f1 f2 rest h1 h2]
  intro hx
  rcases (specReads_iff_of_not_cancels false rest (cancels_false_of_not_cancelling rest) x).mp hx with
    ⟨a, ha, _, hm⟩ | ⟨a, ha, _, addr, hop, hm⟩
  · exact hrest a ha hm
  · exact hrest a ha (by rw [hop]; exact hm)

/-- Two DIFFERENT registers — in particular two different byte views of one
register identity (`AL`, `AH`) — are not the self-cancelling situation: both
are reads, of any form. -/
theorem different_registers_both_read (c : Bool) (a1 a2 : Nat) (x y : R) (f1 f2 : Bool) (rest : List AOp)
    (h1 : (AOp.mk a1 (.reg x f1)).reads = true) (h2 : (AOp.mk a2 (.reg y f2)).reads = true) (hxy : x ≠ y) :
    x ∈ specReads c (⟨a1, .reg x f1⟩ :: ⟨a2, .reg y f2⟩ :: rest) ∧
    y ∈ specReads c (⟨a1, .reg x f1⟩ :: ⟨a2, .reg y f2⟩ :: rest) := by
  have hr : readRegs (⟨a1, .reg x f1⟩ :: ⟨a2, .reg y f2⟩ :: rest) = x :: y :: readRegs rest := by
    simp [readRegs, h1, h2, Opnd.regs]
  have hb : (x == y) = false := by
    cases h : (x == y) with
    | false => rfl
    | true => exact absurd ((R.beq_iff x y).mp h) hxy
  have hc : cancels c (⟨a1, .reg x f1⟩ :: ⟨a2, .reg y f2⟩ :: rest) = false := by
    unfold cancels; rw [hr]; simp [hb]
  rw [specReads_eq, hc, hr]
  simp

/-! ### The acceptor -/

theorem get_of_not_key (s : MS) (id : Nat) (h : id ∉ s.map (·.1)) : get s id = 0 := by
  induction s with
  | nil => rfl
  | cons p s ih =>
    rcases p with ⟨k, v⟩
    simp only [List.map_cons, List.mem_cons, not_or] at h
    have hk : ¬ k = id := fun e => h.1 e.symm
    show (if k = id then v ||| MaskSet.get s id else MaskSet.get s id) = 0
    rw [if_neg hk]; exact ih h.2

theorem sameLanes_iff (a b : MS) : sameLanes a b = true ↔ ∀ id, get a id = get b id := by
  unfold sameLanes
  simp only [List.all_eq_true, beq_iff_eq, List.mem_append]
  constructor
  · intro h id
    by_cases ha : id ∈ a.map (·.1)
    · exact h id (Or.inl ha)
    · by_cases hb : id ∈ b.map (·.1)
      · exact h id (Or.inr hb)
      · rw [get_of_not_key a id ha, get_of_not_key b id hb]
  · intro h id _; exact h id

theorem sameLanes_iff_mem (a b : MS) : sameLanes a b = true ↔ ∀ id lane, mem a id lane = mem b id lane := by
  rw [sameLanes_iff]
  constructor
  · intro h id lane; unfold mem; rw [h id]
  · intro h id; exact Nat.eq_of_testBit_eq (fun i => h id i)

theorem sameLanes_ofRegs (rs : List R) (got : MS) :
    sameLanes (ofRegs rs) got = true ↔
      ∀ id lane, mem got id lane = true ↔ ∃ r ∈ rs, r.id = id ∧ r.mask.testBit lane = true := by
  rw [sameLanes_iff_mem]
  have key : ∀ id lane, (mem (ofRegs rs) id lane = true ↔ ∃ r ∈ rs, r.id = id ∧ r.mask.testBit lane = true) := by
    intro id lane
    rw [mem_ofRegs, List.any_eq_true]
    constructor
    · rintro ⟨r, hr, hb⟩
      have hb' := Bool.and_eq_true _ _ |>.mp hb
      exact ⟨r, hr, by simpa using hb'.1, hb'.2⟩
    · rintro ⟨r, hr, hid, hl⟩
      exact ⟨r, hr, by simp [hid, hl]⟩
  constructor
  · intro h id lane; rw [← h id lane]; exact key id lane
  · intro h id lane
    cases hg : mem got id lane with
    | true => exact (key id lane).mpr ((h id lane).mp hg)
    | false =>
      cases hs : mem (ofRegs rs) id lane with
      | false => rfl
      | true => rw [(h id lane).mpr ((key id lane).mp hs)] at hg; cases hg

/-- **Soundness and completeness of the acceptor.** The driver answers `ok` on
the implementation's reported read set `gotR` and write set `gotW` exactly when,
for every register identity and byte lane, the lane is reported read iff it is
a lane of a register in `specReads`, and reported written iff it is a lane of a
register in `specWrites`. -/
theorem acceptUseDef_sound (c : Bool) (ops : List AOp) (gotR gotW : MS) :
    acceptUseDef c ops gotR gotW = true ↔
      (∀ id lane, mem gotR id lane = true ↔ ∃ r ∈ specReads c ops, r.id = id ∧ r.mask.testBit lane = true) ∧
      (∀ id lane, mem gotW id lane = true ↔ ∃ r ∈ specWrites ops, r.id = id ∧ r.mask.testBit lane = true) := by
  unfold acceptUseDef
  rw [Bool.and_eq_true, sameLanes_ofRegs, sameLanes_ofRegs]

/-! ### Non-vacuity and witnesses (ids as the harness sends them: Z5 = 328192, K1 = 66304 …) -/

/-- `VPXORD z, z, k, d` (self-cancelling, masked, merging): the pair `z, z` is
dropped, the mask `k` and the merge destination `d` remain reads (F2's witness). -/
example : specReads true [⟨1, .reg ⟨590336, 31⟩ false⟩, ⟨1, .reg ⟨590336, 31⟩ false⟩,
    ⟨1, .reg ⟨769, 15⟩ false⟩, ⟨3, .reg ⟨1049088, 31⟩ false⟩] = [⟨769, 15⟩, ⟨1049088, 31⟩] := by decide
/-- hypotheses of `specReads_cancelling_pair` / `other_operands_still_read` are satisfiable -/
example : (AOp.mk 1 (.reg ⟨590336, 31⟩ false)).reads = true := by decide
/-- `XORB AH, AL`: same identity, different bytes — both are reads. -/
example : specReads true [⟨1, .reg ⟨256, 2⟩ false⟩, ⟨3, .reg ⟨256, 1⟩ false⟩] = [⟨256, 2⟩, ⟨256, 1⟩] := by decide
/-- `XORL AX, AX`: no read; the write is the whole 64-bit register. -/
example : specReads true [⟨1, .reg ⟨256, 7⟩ true⟩, ⟨3, .reg ⟨256, 7⟩ true⟩] = [] ∧
    specWrites [⟨1, .reg ⟨256, 7⟩ true⟩, ⟨3, .reg ⟨256, 7⟩ true⟩] = [⟨256, 15⟩] := by decide
/-- a scatter `VPSCATTERDD z, k, vm32z`: base and VECTOR index of the written memory operand are reads -/
example : specReads false [⟨1, .reg ⟨328192, 127⟩ false⟩, ⟨3, .reg ⟨66304, 15⟩ false⟩,
    ⟨2, .mem [⟨256, 15⟩, ⟨131584, 127⟩]⟩] = [⟨328192, 127⟩, ⟨66304, 15⟩, ⟨256, 15⟩, ⟨131584, 127⟩] := by decide
/-- the acceptor accepts the exact sets and rejects a dropped index register -/
example : acceptUseDef false [⟨1, .mem [⟨256, 15⟩, ⟨131584, 127⟩]⟩, ⟨2, .reg ⟨512, 31⟩ false⟩]
    [(256, 15), (131584, 127)] [(512, 31)] = true := by decide
example : acceptUseDef false [⟨1, .mem [⟨256, 15⟩, ⟨131584, 127⟩]⟩, ⟨2, .reg ⟨512, 31⟩ false⟩]
    [(256, 15)] [(512, 31)] = false := by decide

end Avo.UseDef
