/-
C11 on the regenerated attribute-name table, and the meaning of the TEXT
line's clause and sizes (with C19: the clause evaluates to the function's
attribute flags under the installed textflag.h).
-/
import AvoVerif.Props.C11Text
import AvoVerif.Props.C19Tables
import AvoVerif.Gen.TextFlags
import Std.Data.String.ToInt
namespace Avo.Print
open Avo.Attr

/-- Flag names are made of letters, digits and underscores only (what a C macro name can be). -/
def NamesPlain (names : List (Nat × String)) : Prop :=
  ∀ p ∈ names, ∀ c ∈ p.2.toList, c.isAlphanum = true ∨ c = '_'

instance (names) : Decidable (NamesPlain names) := by unfold NamesPlain; exact inferInstance

theorem namesOK_of_plain (names) (h : NamesPlain names) : NamesOK names := by
  intro p hp hm
  have := h p hp _ hm
  revert this; decide

/-- The regenerated table: all flag names are plain. -/
theorem gen_names_plain : NamesPlain Avo.Gen.attrname := by decide

theorem gen_names_ok : NamesOK Avo.Gen.attrname := namesOK_of_plain _ gen_names_plain

/-! ### `$frame-args` and the attribute clause, read back -/

theorem dec_toInt (i : Int) : (String.ofList (dec i)).toInt? = some i := by
  unfold dec
  rw [String.ofList_toList]
  show (Int.repr i).toInt? = some i
  exact Int.toInt?_repr i

theorem dec_nodash (i : Int) (h : 0 ≤ i) : ∀ c ∈ dec i, notDash c = true := by
  intro c hc
  cases i with
  | ofNat m =>
    have : c.isDigit = true := by
      apply nat_chars m
      simpa [dec, toString, Int.repr] using hc
    simp only [notDash, bne_iff_ne, ne_eq]
    intro e; subst e; revert this; decide
  | negSucc m => omega

theorem parseSize_textSize (fr ar : Int) (h : 0 ≤ fr) :
    parseSize (textSize fr ar) = some (fr, if ar > 0 then ar else 0) := by
  unfold textSize parseSize
  by_cases ha : ar > 0
  · have := takeWhile_stop notDash (dec fr) '-' (dec ar) (dec_nodash fr h) (by decide)
    simp only [ha, ↓reduceIte, List.cons_append]
    rw [this.1, this.2]
    simp [dec_toInt]
  · have := takeWhile_all notDash (dec fr) (dec_nodash fr h)
    simp only [ha, ↓reduceIte, List.append_nil, List.cons_append]
    rw [this.1, this.2]
    simp [dec_toInt]

/-- Characters of a printed attribute expression over a plain table. -/
theorem toksText_chars (names) (hn : NamesPlain names) (a : BitVec 16) :
    ∀ c ∈ toksText (asmToks names a), (c.isAlphanum = true ∨ c = '_') ∨ c = '|' := by
  have key : ∀ (ts : List Txt), (∀ t ∈ ts, ∀ c ∈ t, c.isAlphanum = true ∨ c = '_') →
      ∀ c ∈ joinWith ['|'] ts, (c.isAlphanum = true ∨ c = '_') ∨ c = '|' := by
    intro ts
    induction ts with
    | nil => intro _ c hc; cases hc
    | cons x xs ih =>
      intro h c hc
      cases xs with
      | nil => left; exact h x (by simp) c (by simpa [joinWith] using hc)
      | cons y ys =>
        simp only [joinWith, List.mem_append, List.mem_singleton] at hc
        rcases hc with (hc | hc) | hc
        · left; exact h x (by simp) c hc
        · right; exact hc
        · exact ih (fun t ht => h t (List.mem_cons_of_mem _ ht)) c hc
  apply key
  intro t ht c hc
  obtain ⟨tok, htok, rfl⟩ := List.mem_map.1 ht
  unfold asmToks at htok
  simp only [List.mem_append, List.mem_map] at htok
  rcases htok with ⟨n, hn', rfl⟩ | htok
  · obtain ⟨p, hp, rfl⟩ := splitBits_names names a _ n hn'
    exact hn p hp c hc
  · split at htok
    · simp only [List.mem_singleton] at htok; subst htok
      have := nat_chars _ c hc
      revert this
      simp only [Char.isAlphanum, Char.isDigit, Bool.or_eq_true]
      intro h; left; right; exact h
    · simp at htok

theorem parseTextRest_dollar (r : Txt) :
    parseTextRest (',' :: ' ' :: '$' :: r) = (parseSize ('$' :: r)).map (fun p => (none, p.1, p.2)) := by
  simp [parseTextRest, stripPrefix]

theorem parseTextRest_attrs (t rest : Txt) (h : t.head? ≠ some '$') :
    parseTextRest (',' :: ' ' :: (t ++ ',' :: rest)) =
      match stripPrefix [',', ' '] ((t ++ ',' :: rest).dropWhile notComma) with
      | none => none
      | some s => (parseSize s).map (fun p => (some ((t ++ ',' :: rest).takeWhile notComma), p.1, p.2)) := by
  cases t with
  | nil => rfl
  | cons c cs =>
    have hc : c ≠ '$' := by intro e; apply h; simp [e]
    simp only [parseTextRest, stripPrefix, ↓reduceIte, List.cons_append]
    split
    · rename_i heq; injection heq with h1 _; exact absurd h1 hc
    · rfl

/-- **text_line_read_back.** The part of the TEXT line after `(SB)` reads back
as the attribute clause (absent exactly for attribute value 0), the frame size
and the argument size (0 when the function has no arguments). -/
theorem parseTextRest_textRest (names) (hn : NamesPlain names) (a : BitVec 16) (fr ar : Int) (h : 0 ≤ fr) :
    parseTextRest (textRest (textClause names a) fr ar) =
      some ((textClause names a).map toksText, fr, if ar > 0 then ar else 0) := by
  unfold textClause
  have hsz := parseSize_textSize fr ar h
  by_cases ha : a = 0#16
  · simp only [ha, BEq.rfl, ↓reduceIte, textRest, List.nil_append, Option.map_none]
    have e : textSize fr ar = '$' :: (dec fr ++ if ar > 0 then '-' :: dec ar else []) := rfl
    rw [e] at hsz ⊢
    simp only [List.cons_append, List.nil_append, parseTextRest_dollar, hsz, Option.map_some]
  · have hne : (a == 0#16) = false := by simpa using ha
    simp only [hne, Bool.false_eq_true, ↓reduceIte, textRest, Option.map_some]
    have hch := toksText_chars names hn a
    generalize toksText (asmToks names a) = t at hch
    have hnc : ∀ c ∈ t, notComma c = true := by
      intro c hc
      simp only [notComma, bne_iff_ne, ne_eq]
      intro e; subst e
      rcases hch _ hc with (h | h) | h <;> revert h <;> decide
    have htw := takeWhile_stop notComma t ',' (' ' :: textSize fr ar) hnc (by decide)
    have hd : t.head? ≠ some '$' := by
      cases t with
      | nil => simp
      | cons c cs =>
        intro e
        have : c = '$' := by simpa using e
        subst this
        rcases hch '$' List.mem_cons_self with (h | h) | h <;> revert h <;> decide
    have := parseTextRest_attrs t (' ' :: textSize fr ar) hd
    simp only [List.append_assoc, List.cons_append, List.nil_append] at this ⊢
    rw [this, htw.1, htw.2]
    simp [stripPrefix, hsz]

/-- With C19 on the installed toolchain: the clause of the printed TEXT line
evaluates to the function's attribute flags. -/
theorem text_clause_flags (a : BitVec 16) :
    (match textClause Avo.Gen.attrname a with
     | none => some 0#16
     | some ts => evalToks Avo.Oracle.textflagH ts) = some a :=
  text_clause_installed a

/-- **print_faithful on the regenerated table.** -/
theorem print_faithful_gen (cfg : Config) (f : File)
    (h : WFFile Avo.Gen.attrname cfg f) :
    parseFile (lexText (render (printFile Avo.Gen.attrname cfg f))) = some (fileSum Avo.Gen.attrname f) :=
  print_faithful _ cfg f h

/-- **C11 (proved part).**  For every well-formed file, with avo's current
attribute names and the installed `textflag.h`:
the printed bytes read back as the file (sections in order; per function name,
instructions each once and in order with opcode, suffixes and operands, every
label bound to the same instruction as in the program); there is exactly one
TEXT line per function, in order; and its clause and sizes mean the function's
attribute flags, frame size and argument size.
Not proved here (measured by the harness on every run): that `go tool asm`
accepts the text and that the encoded branches land on the bound instruction. -/
theorem C11_partial (cfg : Config) (f : File) (h : WFFile Avo.Gen.attrname cfg f) :
    parseFile (lexText (render (printFile Avo.Gen.attrname cfg f))) = some (fileSum Avo.Gen.attrname f) ∧
    textLines (printFile Avo.Gen.attrname cfg f) = f.functions.map (Function.header Avo.Gen.attrname) ∧
    ∀ fn ∈ f.functions,
      instrLines (printFunction Avo.Gen.attrname fn) = (instrsOf fn.nodes).map Instr.key3 ∧
      labelIdx (printFunction Avo.Gen.attrname fn) 0 = labelsFrom fn.nodes 0 ∧
      (0 ≤ fn.frame →
        parseTextRest (fnSum Avo.Gen.attrname fn).rest =
          some ((textClause Avo.Gen.attrname fn.attrs).map toksText, fn.frame, if fn.args > 0 then fn.args else 0)) ∧
      (match textClause Avo.Gen.attrname fn.attrs with
       | none => some 0#16
       | some ts => evalToks Avo.Oracle.textflagH ts) = some fn.attrs := by
  refine ⟨print_faithful _ cfg f h, one_text_per_fn _ cfg f, ?_⟩
  intro fn _
  exact ⟨flush_complete_function _ fn, labels_bound_function _ fn,
    fun hf => parseTextRest_textRest _ gen_names_plain fn.attrs fn.frame fn.args hf,
    text_clause_installed fn.attrs⟩

end Avo.Print
