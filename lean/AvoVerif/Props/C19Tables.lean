/-
C19 on the regenerated tables: avo's flag names (Gen.attrname, from
attr/ztextflag.go) against the installed toolchain's textflag.h
(Oracle.textflagH).  Re-checked by the kernel whenever either changes.
-/
import AvoVerif.Props.C19
import AvoVerif.Gen.TextFlags
import AvoVerif.Oracle.TextFlagH
namespace Avo.Attr

/-- Every name avo prints for a bit is a macro of the installed header with
exactly that value. -/
theorem names_agree : Consistent Avo.Gen.attrname Avo.Oracle.textflagH := by decide

/-- **C19, installed toolchain.** All 65536 values. -/
theorem attr_value_installed (a : BitVec 16) :
    evalToks Avo.Oracle.textflagH (asmToks Avo.Gen.attrname a) = some a :=
  attr_value _ _ names_agree a

theorem text_clause_installed (a : BitVec 16) :
    (match textClause Avo.Gen.attrname a with
     | none => some 0#16
     | some ts => evalToks Avo.Oracle.textflagH ts) = some a :=
  text_clause_value _ _ names_agree a

/-- The constants avo exports are the header's macros of the same name. -/
theorem consts_agree :
    Avo.Gen.textflagConsts.all (fun p => hdrValue Avo.Oracle.textflagH p.1 == some p.2) = true := by decide

/-- `attrname` maps each exported constant's value to its own name. -/
theorem attrname_agree :
    Avo.Gen.textflagConsts.all (fun p => lookupName Avo.Gen.attrname p.2 == some p.1) = true := by decide

end Avo.Attr
