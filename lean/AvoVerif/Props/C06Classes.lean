/-
Characterisation of the operand classes (operand/checks.go as modelled by
`OpClass.holds` in Model/Instr.lean) by a DECLARATIVE specification, so that the
model is more than a transcription of the Go predicates: what each class means
is stated as a proposition about the operand (which parts must be present, of
which register kind and width, which constant type and range) and the executable
predicate is proved equivalent to it for ALL operands.

The memory classes are the delicate ones (round 5, seeded change C05-6: the two
memory predicates folded into one helper, whereby the vector-index classes
vm32x … vm64z lost "the index is mandatory"):

  * `m, m8 … m512` — `PlainMem`: a base register that is present and is a general
    purpose or pseudo register; the index is absent, or a general purpose / pseudo
    register.  Width-blind (`m_classes_coincide`), blind to scale, displacement
    and symbol (`holds_mem_ignores`).
  * `vm32x/vm64x, vm32y/vm64y, vm32z/vm64z` — `Vsib n`: a 64-bit general purpose
    base AND a vector index of exactly 16 / 32 / 64 bytes, BOTH present.

Consequences used by the near-miss generators (harness/c05derive.go: operands
that differ from a member of the class in one attribute): every one-attribute
change of a VSIB operand in base presence / base kind / base width / index
presence / index kind / index width leaves the class (`vm_*`), the plain and the
vector classes are disjoint (`m_vm_disjoint`), an operand belongs to the classes
of one index width only (`vm_width_unique`).
-/
import AvoVerif.Model.Instr
namespace Avo.Instr

/-! ## Declarative specification -/

/-- a register that may stand in an address according to `IsMReg`: general purpose or pseudo, of any width -/
def AddrReg (r : RegV) : Prop := r.kind = kindPseudo ∨ r.kind = kindGP

/-- plain memory reference: the base is present and an address register; the index is absent or an address register -/
def PlainMem (op : Operand) : Prop :=
  ∃ b i sc d sym, op = .mem (some b) i sc d sym ∧ AddrReg b ∧ ∀ x, i = some x → AddrReg x

/-- vector-indexed memory reference (VSIB): a 64-bit general purpose base and a vector index of `n` bytes, both present -/
def Vsib (n : Nat) (op : Operand) : Prop :=
  ∃ b x sc d sym, op = .mem (some b) (some x) sc d sym ∧
    b.kind = kindGP ∧ b.size = 8 ∧ x.kind = kindVector ∧ x.size = n

/-- a register of kind `k` and `n` bytes -/
def RegOf (k n : Nat) (op : Operand) : Prop := ∃ r, op = .reg r ∧ r.kind = k ∧ r.size = n

/-- the physical register with identifier `id` seen through the lane mask `mask` -/
def PhysReg (id mask : Nat) (op : Operand) : Prop := ∃ r, op = .reg r ∧ r.id = id ∧ r.mask = mask

/-- a constant of one of the two Go types `tu`, `ts` (the immediate classes test the TYPE only) -/
def ImmOf (tu ts : Nat) (op : Operand) : Prop := ∃ ty v, op = .imm ty v ∧ (ty = tu ∨ ty = ts)

/-- What each operand class means. -/
def Spec : OpClass → Operand → Prop
  | .c1, op => op = .imm tU8 1
  | .c3, op => op = .imm tU8 3
  | .imm2u, op => ∃ v, op = .imm tU8 v ∧ v < 4
  | .imm8, op => ImmOf tU8 tI8 op
  | .imm16, op => ImmOf tU16 tI16 op
  | .imm32, op => ImmOf tU32 tI32 op
  | .imm64, op => ImmOf tU64 tI64 op
  | .al, op => PhysReg idAL 1 op
  | .cl, op => PhysReg idCL 1 op
  | .ax, op => PhysReg idAL 3 op
  | .eax, op => PhysReg idAL 7 op
  | .rax, op => PhysReg idAL 15 op
  | .r8, op => RegOf kindGP 1 op
  | .r16, op => RegOf kindGP 2 op
  | .r32, op => RegOf kindGP 4 op
  | .r64, op => RegOf kindGP 8 op
  | .xmm0, op => PhysReg idX0 31 op
  | .xmm, op => RegOf kindVector 16 op
  | .ymm, op => RegOf kindVector 32 op
  | .zmm, op => RegOf kindVector 64 op
  | .k, op => ∃ r, op = .reg r ∧ r.kind = kindOpmask
  | .m, op => PlainMem op
  | .m8, op => PlainMem op
  | .m16, op => PlainMem op
  | .m32, op => PlainMem op
  | .m64, op => PlainMem op
  | .m128, op => PlainMem op
  | .m256, op => PlainMem op
  | .m512, op => PlainMem op
  | .vm32x, op => Vsib 16 op
  | .vm64x, op => Vsib 16 op
  | .vm32y, op => Vsib 32 op
  | .vm64y, op => Vsib 32 op
  | .vm32z, op => Vsib 64 op
  | .vm64z, op => Vsib 64 op
  | .rel8, op => ∃ v, op = .rel v ∧ -128 ≤ v ∧ v ≤ 127
  | .rel32, op => (∃ v, op = .rel v) ∨ (∃ n, op = .label n)

/-! ## The building blocks -/

theorem isMReg_iff (o : Option RegV) : isMReg o = true ↔ ∃ r, o = some r ∧ AddrReg r := by
  cases o with
  | none => simp [isMReg]
  | some r => simp [isMReg, AddrReg]

/-- `IsM*`: base mandatory, index optional, both address registers. -/
theorem isMSize_iff (op : Operand) : isMSize op = true ↔ PlainMem op := by
  unfold PlainMem
  cases op with
  | mem b i sc d sym =>
    cases b with
    | none => simp [isMSize, isMReg]
    | some rb =>
      cases i with
      | none =>
        constructor
        · intro h
          refine ⟨rb, none, sc, d, sym, rfl, ?_, fun _ e => by cases e⟩
          simpa [isMSize, isMReg, AddrReg] using h
        · rintro ⟨b, i, _, _, _, e, hb, _⟩
          cases e
          simpa [isMSize, isMReg, AddrReg] using hb
      | some ri =>
        constructor
        · intro h
          have h' : (rb.kind = kindPseudo ∨ rb.kind = kindGP) ∧ (ri.kind = kindPseudo ∨ ri.kind = kindGP) := by
            simpa [isMSize, isMReg] using h
          exact ⟨rb, some ri, sc, d, sym, rfl, h'.1, fun x e => by cases e; exact h'.2⟩
        · rintro ⟨b, i, _, _, _, e, hb, hi⟩
          cases e
          have := hi ri rfl
          simp only [AddrReg] at hb this
          simp [isMSize, isMReg, hb, this]
  | _ => simp [isMSize]

/-- `isvm`: base AND index mandatory; base a 64-bit general purpose register, index a vector register of `n` bytes. -/
theorem isVM_iff (n : Nat) (op : Operand) : isVM n op = true ↔ Vsib n op := by
  unfold Vsib
  cases op with
  | mem b i sc d sym =>
    cases b with
    | none => simp [isVM]
    | some rb =>
      cases i with
      | none => simp [isVM]
      | some ri => simp [isVM, and_assoc]
  | _ => simp [isVM]

theorem isRegKindSize_iff (k n : Nat) (op : Operand) : isRegKindSize k n op = true ↔ RegOf k n op := by
  cases op <;> simp [isRegKindSize, RegOf]

theorem isPhys_iff (id mask : Nat) (op : Operand) : isPhys id mask op = true ↔ PhysReg id mask op := by
  cases op <;> simp [isPhys, PhysReg]

theorem isImm_or_iff (tu ts : Nat) (op : Operand) : (isImm tu op || isImm ts op) = true ↔ ImmOf tu ts op := by
  cases op <;> simp [isImm, ImmOf]

/-! ## Every class -/

/-- **Characterisation of all 37 operand classes**: the executable predicate holds exactly when the
declarative meaning of the class does. -/
theorem holds_iff_spec (c : OpClass) (op : Operand) : c.holds op = true ↔ Spec c op := by
  cases c
  case c1 => cases op <;> simp [OpClass.holds, Spec]
  case c3 => cases op <;> simp [OpClass.holds, Spec]
  case imm2u =>
    cases op with
    | imm ty v =>
      simp only [OpClass.holds, Spec, Bool.and_eq_true, beq_iff_eq, decide_eq_true_eq, Operand.imm.injEq]
      constructor
      · rintro ⟨rfl, h⟩; exact ⟨v, ⟨rfl, rfl⟩, h⟩
      · rintro ⟨v', ⟨rfl, rfl⟩, h⟩; exact ⟨rfl, h⟩
    | _ => simp [OpClass.holds, Spec]
  case imm8 => exact isImm_or_iff _ _ _
  case imm16 => exact isImm_or_iff _ _ _
  case imm32 => exact isImm_or_iff _ _ _
  case imm64 => exact isImm_or_iff _ _ _
  case al => exact isPhys_iff _ _ _
  case cl => exact isPhys_iff _ _ _
  case ax => exact isPhys_iff _ _ _
  case eax => exact isPhys_iff _ _ _
  case rax => exact isPhys_iff _ _ _
  case xmm0 => exact isPhys_iff _ _ _
  case r8 => exact isRegKindSize_iff _ _ _
  case r16 => exact isRegKindSize_iff _ _ _
  case r32 => exact isRegKindSize_iff _ _ _
  case r64 => exact isRegKindSize_iff _ _ _
  case xmm => exact isRegKindSize_iff _ _ _
  case ymm => exact isRegKindSize_iff _ _ _
  case zmm => exact isRegKindSize_iff _ _ _
  case k => cases op <;> simp [OpClass.holds, Spec, isRegKind]
  case m => simp only [OpClass.holds, Spec, Bool.or_self]; exact isMSize_iff op
  case m8 => exact isMSize_iff op
  case m16 => exact isMSize_iff op
  case m32 => exact isMSize_iff op
  case m64 => exact isMSize_iff op
  case m128 => exact isMSize_iff op
  case m256 => exact isMSize_iff op
  case m512 => exact isMSize_iff op
  case vm32x => exact isVM_iff _ op
  case vm64x => exact isVM_iff _ op
  case vm32y => exact isVM_iff _ op
  case vm64y => exact isVM_iff _ op
  case vm32z => exact isVM_iff _ op
  case vm64z => exact isVM_iff _ op
  case rel8 => cases op <;> simp [OpClass.holds, Spec]
  case rel32 => cases op <;> simp [OpClass.holds, Spec]

/-! ## Memory classes: which classes, which index width -/

/-- index width (bytes) of the vector-indexed classes -/
def OpClass.vmWidth : OpClass → Option Nat
  | .vm32x | .vm64x => some 16
  | .vm32y | .vm64y => some 32
  | .vm32z | .vm64z => some 64
  | _ => none

/-- the eight plain memory classes -/
def OpClass.isPlainMem : OpClass → Bool
  | .m | .m8 | .m16 | .m32 | .m64 | .m128 | .m256 | .m512 => true
  | _ => false

theorem holds_vm_iff (c : OpClass) (n : Nat) (h : c.vmWidth = some n) (op : Operand) :
    c.holds op = true ↔ Vsib n op := by
  rw [holds_iff_spec]
  cases c <;> simp [OpClass.vmWidth] at h <;> subst h <;> exact Iff.rfl

theorem holds_m_iff (c : OpClass) (h : c.isPlainMem = true) (op : Operand) :
    c.holds op = true ↔ PlainMem op := by
  rw [holds_iff_spec]
  cases c <;> simp [OpClass.isPlainMem] at h <;> exact Iff.rfl

/-- The plain memory classes are width-blind: all eight have the same members (the implementation's
`TODO: m8,m16,m32,m64 checks do not actually check size`). -/
theorem m_classes_coincide (c c' : OpClass) (h : c.isPlainMem = true) (h' : c'.isPlainMem = true) (op : Operand) :
    c.holds op = c'.holds op := by
  rw [Bool.eq_iff_iff, holds_m_iff c h, holds_m_iff c' h']

/-- **A vector-indexed class never holds for an operand without index** (seeded change C05-6). -/
theorem vm_needs_index (c : OpClass) (n : Nat) (h : c.vmWidth = some n) (b : Option RegV) (sc : Nat) (d : Int) (sym : Nat) :
    c.holds (.mem b none sc d sym) = false := by
  rw [Bool.eq_false_iff]; intro hh
  obtain ⟨_, _, _, _, _, e, _⟩ := (holds_vm_iff c n h _).1 hh
  cases e

theorem vm_needs_base (c : OpClass) (n : Nat) (h : c.vmWidth = some n) (i : Option RegV) (sc : Nat) (d : Int) (sym : Nat) :
    c.holds (.mem none i sc d sym) = false := by
  rw [Bool.eq_false_iff]; intro hh
  obtain ⟨_, _, _, _, _, e, _⟩ := (holds_vm_iff c n h _).1 hh
  cases e

/-- base and index of a member: 64-bit general purpose base, vector index of the class's width -/
theorem vm_parts (c : OpClass) (n : Nat) (h : c.vmWidth = some n) (b i : Option RegV) (sc : Nat) (d : Int) (sym : Nat)
    (hh : c.holds (.mem b i sc d sym) = true) :
    ∃ rb rx, b = some rb ∧ i = some rx ∧ rb.kind = kindGP ∧ rb.size = 8 ∧ rx.kind = kindVector ∧ rx.size = n := by
  obtain ⟨rb, rx, _, _, _, e, h1, h2, h3, h4⟩ := (holds_vm_iff c n h _).1 hh
  cases e
  exact ⟨rb, rx, rfl, rfl, h1, h2, h3, h4⟩

/-- one-attribute changes of the BASE of a VSIB operand leave the class: any base that is not a 64-bit
general purpose register (narrower, vector, opmask, pseudo) -/
theorem vm_base_kind (c : OpClass) (n : Nat) (h : c.vmWidth = some n) (rb : RegV) (i : Option RegV) (sc : Nat) (d : Int)
    (sym : Nat) (hb : ¬ (rb.kind = kindGP ∧ rb.size = 8)) : c.holds (.mem (some rb) i sc d sym) = false := by
  rw [Bool.eq_false_iff]; intro hh
  obtain ⟨rb', _, e, _, h1, h2, _, _⟩ := vm_parts c n h _ _ _ _ _ hh
  cases e
  exact hb ⟨h1, h2⟩

/-- one-attribute changes of the INDEX of a VSIB operand leave the class: a general purpose, opmask or pseudo
index, or a vector index of another width -/
theorem vm_index_kind (c : OpClass) (n : Nat) (h : c.vmWidth = some n) (b : Option RegV) (rx : RegV) (sc : Nat) (d : Int)
    (sym : Nat) (hx : ¬ (rx.kind = kindVector ∧ rx.size = n)) : c.holds (.mem b (some rx) sc d sym) = false := by
  rw [Bool.eq_false_iff]; intro hh
  obtain ⟨_, rx', _, e, _, _, h3, h4⟩ := vm_parts c n h _ _ _ _ _ hh
  cases e
  exact hx ⟨h3, h4⟩

/-- an operand belongs to the vector-indexed classes of ONE index width only -/
theorem vm_width_unique (c c' : OpClass) (n n' : Nat) (h : c.vmWidth = some n) (h' : c'.vmWidth = some n') (op : Operand)
    (hc : c.holds op = true) (hc' : c'.holds op = true) : n = n' := by
  obtain ⟨_, x, _, _, _, e, _, _, _, hn⟩ := (holds_vm_iff c n h op).1 hc
  obtain ⟨_, x', _, _, _, e', _, _, _, hn'⟩ := (holds_vm_iff c' n' h' op).1 hc'
  subst e
  cases e'
  omega

/-- the plain and the vector-indexed classes are disjoint: a vector index is not an address register -/
theorem m_vm_disjoint (c c' : OpClass) (n : Nat) (h : c.isPlainMem = true) (h' : c'.vmWidth = some n) (op : Operand)
    (hc : c.holds op = true) : c'.holds op = false := by
  rw [Bool.eq_false_iff]; intro hc'
  obtain ⟨_, _, _, _, _, e, _, hi⟩ := (holds_m_iff c h op).1 hc
  obtain ⟨_, x, _, _, _, e', _, _, hk, _⟩ := (holds_vm_iff c' n h' op).1 hc'
  subst e
  cases e'
  rcases hi x rfl with hp | hg
  · rw [hk] at hp; cases hp
  · rw [hk] at hg; cases hg

/-- a plain memory class: one-attribute changes that leave it — no base, a vector or opmask base, a vector or
opmask index -/
theorem m_needs_base (c : OpClass) (h : c.isPlainMem = true) (i : Option RegV) (sc : Nat) (d : Int) (sym : Nat) :
    c.holds (.mem none i sc d sym) = false := by
  rw [Bool.eq_false_iff]; intro hh
  obtain ⟨_, _, _, _, _, e, _⟩ := (holds_m_iff c h _).1 hh
  cases e

theorem m_base_kind (c : OpClass) (h : c.isPlainMem = true) (rb : RegV) (i : Option RegV) (sc : Nat) (d : Int) (sym : Nat)
    (hb : ¬ AddrReg rb) : c.holds (.mem (some rb) i sc d sym) = false := by
  rw [Bool.eq_false_iff]; intro hh
  obtain ⟨_, _, _, _, _, e, hb', _⟩ := (holds_m_iff c h _).1 hh
  cases e
  exact hb hb'

theorem m_index_kind (c : OpClass) (h : c.isPlainMem = true) (b : Option RegV) (rx : RegV) (sc : Nat) (d : Int) (sym : Nat)
    (hx : ¬ AddrReg rx) : c.holds (.mem b (some rx) sc d sym) = false := by
  rw [Bool.eq_false_iff]; intro hh
  obtain ⟨_, _, _, _, _, e, _, hi⟩ := (holds_m_iff c h _).1 hh
  cases e
  exact hx (hi rx rfl)

/-- the index of a plain memory reference is optional: dropping it stays in the class -/
theorem m_index_optional (c : OpClass) (h : c.isPlainMem = true) (b i : Option RegV) (sc sc' : Nat) (d : Int) (sym : Nat)
    (hh : c.holds (.mem b i sc d sym) = true) : c.holds (.mem b none sc' d sym) = true := by
  obtain ⟨rb, _, _, _, _, e, hb, _⟩ := (holds_m_iff c h _).1 hh
  cases e
  exact (holds_m_iff c h _).2 ⟨rb, none, sc', d, sym, rfl, hb, fun _ e => by cases e⟩

/-- No class looks at scale, displacement or symbol of a memory operand (so malformed scales, displacements beyond
32 bits and any symbol are inside the memory classes: findings C05-malformed-mem-*). -/
theorem holds_mem_ignores (c : OpClass) (b i : Option RegV) (sc sc' : Nat) (d d' : Int) (sym sym' : Nat) :
    c.holds (.mem b i sc d sym) = c.holds (.mem b i sc' d' sym') := by
  cases c <;> rfl

/-! ## Shapes: a class holds for operands of one syntactic shape only -/

inductive Shape where
  | reg | mem | imm | target | other
  deriving DecidableEq, Repr

def shapeOf : Operand → Shape
  | .reg _ => .reg
  | .mem .. => .mem
  | .imm .. => .imm
  | .rel _ => .target
  | .label _ => .target
  | .other _ => .other

def OpClass.shape : OpClass → Shape
  | .c1 | .c3 | .imm2u | .imm8 | .imm16 | .imm32 | .imm64 => .imm
  | .al | .cl | .ax | .eax | .rax | .r8 | .r16 | .r32 | .r64 | .xmm0 | .xmm | .ymm | .zmm | .k => .reg
  | .m | .m8 | .m16 | .m32 | .m64 | .m128 | .m256 | .m512 | .vm32x | .vm32y | .vm32z | .vm64x | .vm64y | .vm64z => .mem
  | .rel8 | .rel32 => .target

/-- a register is never a memory operand or a constant, …: every class has one shape; nil and foreign
implementations of `operand.Op` are in no class -/
theorem holds_shape (c : OpClass) (op : Operand) (h : c.holds op = true) : shapeOf op = c.shape := by
  cases c <;> cases op <;>
    simp_all [OpClass.holds, OpClass.shape, shapeOf, isImm, isPhys, isRegKindSize, isRegKind, isMSize, isVM]

/-! ## Register and constant classes: the near misses -/

/-- a register of another width or kind is outside a width class -/
theorem reg_class_exact (k n : Nat) (r : RegV) : isRegKindSize k n (.reg r) = true ↔ r.kind = k ∧ r.size = n := by
  simp [isRegKindSize]

/-- `rel8` is the only class with a range check: the limits -/
theorem rel8_range (v : Int) : OpClass.rel8.holds (.rel v) = true ↔ -128 ≤ v ∧ v ≤ 127 := by
  simp [OpClass.holds]

/-- the immediate classes test the Go TYPE only, not the value: every value of the two types is a member, every
value of another type is not (a constant that would fit is still rejected; one that does not fit its own type
cannot be written) -/
theorem imm_class_type_only (ty : Nat) (v v' : Int) (c : OpClass) (hc : c = .imm8 ∨ c = .imm16 ∨ c = .imm32 ∨ c = .imm64) :
    c.holds (.imm ty v) = c.holds (.imm ty v') := by
  rcases hc with rfl | rfl | rfl | rfl <;> simp [OpClass.holds, isImm]

/-! ## Non-vacuity: members and one-attribute near misses of each memory class -/

def rRAX : RegV := ⟨kindGP, 8, 256, 15, 0⟩
def rEAX : RegV := ⟨kindGP, 4, 256, 7, 0⟩
def rX1 : RegV := ⟨kindVector, 16, 66048, 31, 0⟩
def rY1 : RegV := ⟨kindVector, 32, 66048, 63, 0⟩
def rZ1 : RegV := ⟨kindVector, 64, 66048, 127, 0⟩
def rK1 : RegV := ⟨kindOpmask, 8, 66304, 15, 0⟩
def rFP : RegV := ⟨kindPseudo, 0, 0, 0, 0⟩

-- members
example : Vsib 64 (.mem (some rRAX) (some rZ1) 4 64 0) := (isVM_iff _ _).1 (by decide)
example : OpClass.vm32z.holds (.mem (some rRAX) (some rZ1) 4 64 0) = true := by decide
example : PlainMem (.mem (some rRAX) none 0 8 0) := (isMSize_iff _).1 (by decide)
example : PlainMem (.mem (some rFP) none 0 8 77) := (isMSize_iff _).1 (by decide)
example : OpClass.m64.holds (.mem (some rRAX) (some rEAX) 3 0 0) = true := by decide
-- the witness of seeded change C05-6: `VPGATHERDD (R13), K1, Z1` — a base-only reference is in no vm class
example : OpClass.vm32z.holds (.mem (some rRAX) none 0 0 0) = false := vm_needs_index _ 64 rfl _ _ _ _
example : ∀ c ∈ [OpClass.vm32x, .vm32y, .vm32z, .vm64x, .vm64y, .vm64z], c.holds (.mem (some rRAX) none 0 64 0) = false := by decide
-- one attribute away from a member of vm32z: no base, 32-bit base, vector base, general purpose / narrower vector /
-- opmask index
example : OpClass.vm32z.holds (.mem none (some rZ1) 4 64 0) = false := by decide
example : OpClass.vm32z.holds (.mem (some rEAX) (some rZ1) 4 64 0) = false := by decide
example : OpClass.vm32z.holds (.mem (some rX1) (some rZ1) 4 64 0) = false := by decide
example : OpClass.vm32z.holds (.mem (some rFP) (some rZ1) 4 64 0) = false := by decide
example : OpClass.vm32z.holds (.mem (some rRAX) (some rRAX) 4 64 0) = false := by decide
example : OpClass.vm32z.holds (.mem (some rRAX) (some rY1) 4 64 0) = false := by decide
example : OpClass.vm32z.holds (.mem (some rRAX) (some rK1) 4 64 0) = false := by decide
-- … and of m64: no base, vector base, vector / opmask index
example : OpClass.m64.holds (.mem none (some rRAX) 4 64 0) = false := by decide
example : OpClass.m64.holds (.mem (some rX1) none 0 64 0) = false := by decide
example : OpClass.m64.holds (.mem (some rRAX) (some rX1) 1 64 0) = false := by decide
example : OpClass.m64.holds (.mem (some rRAX) (some rK1) 1 64 0) = false := by decide
-- the hypotheses of the lemmas are satisfiable
example : OpClass.vm64y.holds (.mem (some rRAX) (some rY1) 1 0 0) = true ∧ OpClass.vm64y.vmWidth = some 32 := by decide
example : OpClass.m512.isPlainMem = true ∧ OpClass.m512.holds (.mem (some rRAX) (some rRAX) 8 0 0) = true := by decide
example : ¬ AddrReg rX1 := by simp [AddrReg, rX1, kindVector, kindPseudo, kindGP]
example : OpClass.rel8.holds (.rel 127) = true ∧ OpClass.rel8.holds (.rel 128) = false ∧ OpClass.rel8.holds (.rel (-129)) = false := by decide

/-! ## Operand-list length (round 10, seeded change C06-12: the operand count narrowed to 8 bits before the comparison) -/

/-- a form matches only operand lists of exactly its arity — the comparison is on the unbounded length -/
theorem matches_length (M : Meta) (f : Form) (s : Sfx) (ops : List Operand) (h : f.matches M s ops = true) :
    ops.length = f.arity := by
  simp only [Form.matches, Bool.and_eq_true, beq_iff_eq] at h
  exact h.1.2

/-- `build` rejects every operand list whose length is the arity of none of the forms … -/
theorem build_none_of_arity (M : Meta) (forms : List Form) (s : Sfx) (ops : List Operand)
    (h : ∀ f ∈ forms, f.arity ≠ ops.length) : build M forms s ops = none := by
  unfold build
  have hn : forms.find? (fun f => f.matches M s ops) = none := by
    rw [List.find?_eq_none]
    intro f hf hm
    exact h f hf (matches_length M f s ops (by simpa using hm)).symm
  simp [hn]

/-- … in particular every list longer than the largest arity, however long (256 + a, 65536 + a, …) -/
theorem build_none_of_long (M : Meta) (forms : List Form) (s : Sfx) (ops : List Operand)
    (h : ∀ f ∈ forms, f.arity < ops.length) : build M forms s ops = none :=
  build_none_of_arity M forms s ops (fun f hf => Nat.ne_of_lt (h f hf))

/-- an accepted list has exactly the arity of the form that built it -/
theorem build_some_length (M : Meta) (forms : List Form) (s : Sfx) (ops : List Operand) (i : Instr)
    (h : build M forms s ops = some i) : ∃ f ∈ forms, f.arity = ops.length ∧ i.operands = ops := by
  unfold build at h
  split at h
  · rename_i f hf
    have hm := List.find?_some hf
    refine ⟨f, List.mem_of_find?_eq_some hf, (matches_length M f s ops hm).symm, ?_⟩
    cases h
    rfl
  · cases h

-- a form of arity 2 and a list of 256 + 2 operands whose first two would match: rejected
example : build default [⟨1, 0, 0, 0, 2, []⟩] (0, 0) (List.replicate 258 (.rel 1)) = none :=
  build_none_of_long _ _ _ _ (by
    intro f hf
    rw [List.length_replicate]
    rw [List.mem_singleton] at hf
    subst hf
    decide)
-- … although its length is the arity modulo 256
example : (⟨1, 0, 0, 0, 2, []⟩ : Form).arity % 256 = (List.replicate 258 (Operand.rel 1)).length % 256 := by
  rw [List.length_replicate]
  decide

end Avo.Instr
