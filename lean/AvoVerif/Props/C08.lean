/-
C08 — Load and Store move exactly the component's bytes with Go's extension rule.

The move-deduction table is regenerated from build/zmov.go (`Gen.mov`, first
match in source order); the basic types with their go/types flags and sizes are
`Gen.basicTypes`.  The reachable input space of `Context.Load` / `Context.Store`
is finite — direction × basic type × register class × address shape — so the
property is decided completely by kernel evaluation.  `movSem` (what the
selected instruction does) is a hand-written model validated on the CPU by the
check (Props level: "proof-partial, measured oracle").

On the unchanged tree the full-strength statement is FALSE (finding F7): 4-byte
integers with an XMM register select `MOVQ`, an 8-byte access.  `mov_ok_partial`
carries the explicit guard `f7`; `mov_ok_fails_at_f7` proves the negation at the
witness.
-/
import AvoVerif.Model.Mov
import AvoVerif.Gen.Mov
namespace Avo.Mov
open Avo Avo.Instr
set_option maxRecDepth 1000000

def F : Flags := ⟨Gen.tIsBoolean, Gen.tIsInteger, Gen.tIsUnsigned, Gen.tIsFloat⟩

/-- the table with checker names resolved -/
def rows : List RRow := Gen.mov.map resolve

def types : List TypeInfo := Gen.basicTypes.map (fun p => ⟨p.1, p.2.1, p.2.2⟩)

def dirs : List Dir := [.load, .store]

/-- the verdict at one reachable input: an error is always allowed ("when no
instruction can do this, an error is reported"); a selected opcode must move
exactly the component's bytes with Go's extension rule -/
def okAt (d : Dir) (t : TypeInfo) (r : RegV) (m : Operand) : Bool :=
  match loadStore rows d m r t with
  | none => true
  | some opc => opcodeOK F d t r opc

/-- **C08 at full strength**: at every reachable input. -/
def mov_ok_statement : Prop :=
  ∀ d ∈ dirs, ∀ t ∈ types, ∀ r ∈ regClasses, ∀ m ∈ memReps, okAt d t r m = true

/-- F7: a 4-byte integer (or boolean-flagged) component with an XMM register -/
def f7 (t : TypeInfo) (r : RegV) : Bool :=
  t.size == 4 && (has t.info F.isInteger || has t.info F.isBoolean) && r.kind == kindVector && r.size == 16

/-- every checker named by the table is one of the modelled predicates, every
case passes `(a, b)` in that order -/
theorem mov_table_resolved :
    Gen.mov.all (fun r => (OpClass.ofChecker r.pa).isSome && (OpClass.ofChecker r.pb).isSome && r.inOrder) = true := by
  decide +kernel

/-- the default branch is `c.adderrormessage("could not deduce mov instruction")` -/
theorem mov_default :
    Gen.movDefault = (0x6164646572726f726d6573736167650fd550bf00, 0x636f756c645f6e6f745f6465647563655f6d6f765f696e737472756374696f6e202b1be654) := by
  decide +kernel

/-- every opcode the table can emit has a modelled semantics -/
theorem mov_opcodes_modelled :
    Gen.mov.all (fun r => (semTable.find? (fun e => e.1 == r.opcode)).isSome) = true := by
  decide +kernel

theorem mov_ok_partial_bool :
    (dirs.all fun d => types.all fun t => regClasses.all fun r => memReps.all fun m =>
      f7 t r || okAt d t r m) = true := by
  decide +kernel

/-- **C08 (partial: outside F7).** At every reachable input except 4-byte
integers with an XMM register, the selected instruction — if any — accesses
exactly the component's bytes and extends as Go converts.  Missing for full
strength: the `f7` inputs, where the unchanged table is wrong (see below). -/
theorem mov_ok_partial :
    ∀ d ∈ dirs, ∀ t ∈ types, ∀ r ∈ regClasses, ∀ m ∈ memReps, f7 t r = false → okAt d t r m = true := by
  intro d hd t ht r hr m hm hg
  have h := mov_ok_partial_bool
  simp only [List.all_eq_true] at h
  have := h d hd t ht r hr m hm
  simpa [hg] using this

def tUint32 : TypeInfo := ⟨0x75696e74333206cab25ce1, 6, 4⟩   -- uint32: IsInteger|IsUnsigned, 4 bytes
def rXMM : RegV := ⟨kindVector, 16, 513, 31, nV⟩
def mFP : Operand := .mem (some ⟨kindPseudo, 0, 0, 0, 0⟩) none 0 0 0

/-- **F7, proved at the witness**: `Store(xmm, uint32 result)` selects `MOVQ`,
whose memory access is 8 bytes wide: the adjacent 4 bytes are overwritten. -/
theorem mov_ok_fails_at_f7 :
    tUint32 ∈ types ∧ rXMM ∈ regClasses ∧ mFP ∈ memReps ∧
    loadStore rows .store mFP rXMM tUint32 = some oMOVQ ∧
    (movSem oMOVQ rXMM).map (·.memWidth) = some 8 ∧
    okAt .store tUint32 rXMM mFP = false ∧ okAt .load tUint32 rXMM mFP = false := by
  decide +kernel

/-- hence the full-strength statement does not hold on the unchanged tree -/
theorem mov_ok_statement_false : ¬ mov_ok_statement := by
  intro h
  have w := mov_ok_fails_at_f7
  have := h .store (by simp [dirs]) tUint32 w.1 rXMM w.2.1 mFP w.2.2.1
  rw [w.2.2.2.2.2.1] at this
  cases this

/-- **Errors.** `Context.mov` takes the default branch (records the error, adds
no instruction) exactly when no case matches. -/
theorem mov_err (rs : List RRow) (a b : Operand) (an bn ti : Nat) :
    deduce rs a b an bn ti = none ↔ ∀ r ∈ rs, r.matches a b an bn ti = false := by
  unfold deduce
  cases h : rs.find? (fun r => r.matches a b an bn ti) with
  | none =>
    simp only [Option.map_none, true_iff]
    intro r hr
    have := List.find?_eq_none.mp h r hr
    simpa using this
  | some r =>
    simp only [Option.map_some, reduceCtorEq, false_iff]
    intro hall
    have h1 := hall r (List.mem_of_find?_eq_some h)
    have h2 : r.matches a b an bn ti = true := by simpa using List.find?_some h
    rw [h1] at h2; cases h2

/-- **First match.** A deduced opcode is that of the first matching case. -/
theorem mov_first (rs : List RRow) (a b : Operand) (an bn ti opc : Nat)
    (h : deduce rs a b an bn ti = some opc) :
    ∃ pre r post, rs = pre ++ r :: post ∧ (∀ q ∈ pre, q.matches a b an bn ti = false) ∧
      r.matches a b an bn ti = true ∧ r.opcode = opc := by
  unfold deduce at h
  cases hf : rs.find? (fun r => r.matches a b an bn ti) with
  | none => rw [hf] at h; cases h
  | some r =>
    rw [hf] at h
    obtain ⟨hp, pre, post, hsplit, hpre⟩ := List.find?_eq_some_iff_append.mp hf
    refine ⟨pre, r, post, hsplit, ?_, by simpa using hp, by simpa using h⟩
    intro q hq; simpa using hpre q hq

/-- **No narrower or wider general-purpose access.** A general-purpose
register narrower than the component is an error for loads; for stores the
register must have exactly the component's width. -/
theorem gp_width_errors :
    (types.all fun t => regClasses.all fun r => memReps.all fun m =>
      (!(r.kind == kindGP) ||
        ((decide (r.size < t.size) → loadStore rows .load m r t = none) ∧
         (decide (r.size ≠ t.size) → loadStore rows .store m r t = none)))) = true := by
  decide +kernel

/-- **Integers and booleans load into every general-purpose register that is
wide enough** (the first sentence of the property is not vacuous). -/
theorem gp_loads_defined :
    (types.all fun t => regClasses.all fun r => memReps.all fun m =>
      (!(r.kind == kindGP && (has t.info F.isInteger || has t.info F.isBoolean) && decide (t.size ≤ r.size)) ||
        (loadStore rows .load m r t).isSome)) = true := by
  decide +kernel

/-- **Where a move must exist, one is selected**: integers and booleans with
general-purpose registers of sufficient (load) / equal (store) width, floats
with XMM registers. -/
theorem must_move_defined :
    (dirs.all fun d => types.all fun t => regClasses.all fun r => memReps.all fun m =>
      (!(mustMove F d t r) || (loadStore rows d m r t).isSome)) = true := by
  decide +kernel

/-- non-vacuity: a sign-extending load is selected and judged -/
example : loadStore rows .load mFP ⟨kindGP, 4, 257, 7, nV⟩ ⟨0x696e743804467285d3, 2, 1⟩ = some oMOVBLSX := by
  decide +kernel

end Avo.Mov
