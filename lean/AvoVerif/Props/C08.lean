/-
C08 — Load and Store move exactly the component's bytes with Go's extension rule.

What the real `Context.Load` / `Context.Store` do is tabulated on every run over the complete class-level input
space — direction × basic type × register class × address shape — by RUNNING them (`Gen.movTab`, behaviour).  That
space is finite, so the property is decided completely by kernel evaluation: `mov_ok_partial` (through the acceptor
`acceptSel`, sound for the declarative `SelOK` by `acceptSel_sound`): a move is selected wherever the class table
`moveWidths` has one for the type's register file (`mustMove`), a selected opcode accesses exactly the component's
bytes and extends as Go converts, an error is reported only where no move exists.  `movSem` (what a selected
instruction does) is a hand-written model validated on the CPU by the check ("proof-partial, measured oracle").

The source of build/zmov.go (`Gen.mov`, go/ast, first match in source order) is a cross-check only: `ast_agrees`
shows that the first-match model over the rows reproduces the behaviour whenever the extractor recognised the file
(`Gen.movAstOK`); then `loadStore_class_invariant` lifts the class representatives to all registers.

On the unchanged tree the full-strength statement is FALSE: finding F7 (4-byte integers with an XMM register select
`MOVQ`, an 8-byte access) and finding F18 (`unsafe.Pointer` components are never moved although `MOVQ` would do).
`mov_ok_partial` carries the explicit guards `f7`, `f18`; Props/C08Finding.lean and Props/C08FindingF18.lean prove
the negation at the witnesses — separate modules, so that a repair makes a finding stale instead of breaking this
file.
-/
import AvoVerif.Model.Mov
import AvoVerif.Gen.Mov
namespace Avo.Mov
open Avo Avo.Instr
set_option maxRecDepth 1000000

def F : Flags := ⟨Gen.tIsBoolean, Gen.tIsInteger, Gen.tIsUnsigned, Gen.tIsFloat⟩

/-- the source rows of build/zmov.go with checker names resolved (cross-check only; empty when the extractor did
not recognise the file, `Gen.movAstOK = false`) -/
def rows : List RRow := Gen.mov.map resolve

/-- what the real `Context.Load`/`Context.Store` did over the class-level domain (regenerated on every run) -/
def tab : List TabGroup := Gen.movTab

def types : List TypeInfo := Gen.basicTypes.map (fun p => ⟨p.1, p.2.1, p.2.2⟩)

def dirs : List Dir := [.load, .store]

/-- the verdict at one reachable input: the implementation's outcome is judged by `acceptSel`: an error is
acceptable only where no move exists (`mustMove`), a selected opcode must move exactly the component's bytes with
Go's extension rule; an input missing from the table is a failure -/
def okAt (d : Dir) (t : TypeInfo) (r : RegV) (m : Operand) : Bool :=
  match behave tab d t r m with
  | none => false
  | some o => acceptSel F d t r o

/-- **C08 at full strength**: at every reachable input. -/
def mov_ok_statement : Prop :=
  ∀ d ∈ dirs, ∀ t ∈ types, ∀ r ∈ regClasses, ∀ m ∈ memReps, okAt d t r m = true

/-- F7: a 4-byte integer (or boolean-flagged) component with an XMM register -/
def f7 (t : TypeInfo) (r : RegV) : Bool :=
  t.size == 4 && (has t.info F.isInteger || has t.info F.isBoolean) && r.kind == kindVector && r.size == 16

/-- F18: `unsafe.Pointer` components (no case of the table accepts them) -/
def f18 (t : TypeInfo) : Bool := isPointer t

/-! ## Soundness of the acceptors -/

/-- **`acceptSel` is sound**: an accepted outcome satisfies the declarative property. -/
theorem acceptSel_sound (F : Flags) (d : Dir) (t : TypeInfo) (r : RegV) (o : Option Nat)
    (h : acceptSel F d t r o = true) : SelOK F d t r o := by
  cases o with
  | none =>
    simp only [acceptSel, mustMove, Bool.not_eq_true', Bool.and_eq_false_iff] at h
    simp only [SelOK]
    intro ⟨h1, h2⟩
    rcases h with h | h
    · rw [h1] at h; cases h
    · have : (moveWidths d r).contains t.size = true := List.contains_iff_mem.mpr h2
      rw [this] at h; cases h
  | some opc =>
    simp only [acceptSel, opcodeOK] at h
    simp only [SelOK]
    cases hs : movSem opc r with
    | none => rw [hs] at h; cases h
    | some s =>
      rw [hs] at h
      refine ⟨s, rfl, ?_⟩
      simp only [semOK, Bool.and_eq_true, beq_iff_eq] at h
      refine ⟨h.1, ?_⟩
      intro hd hk
      subst hd
      have h2 := h.2
      simp only [hk, if_true, Bool.and_eq_true, beq_iff_eq] at h2
      refine ⟨h2.1, ?_⟩
      intro hne
      have h3 := h2.2
      simp only [hne, if_false] at h3
      cases hsg : isSigned F t with
      | true =>
        simp only [hsg, if_true, beq_iff_eq] at h3
        exact Or.inl ⟨rfl, h3⟩
      | false =>
        simp only [hsg, Bool.false_eq_true, if_false] at h3
        cases hz : isZeroExt F t with
        | true =>
          simp only [hz, if_true, beq_iff_eq] at h3
          exact Or.inr ⟨rfl, rfl, h3⟩
        | false => simp [hz] at h3

/-- **`acceptStoreBytes` is sound**: the component's bytes `[off, off+ts)` are the source's first `ts` bytes and
every other byte of the memory image is what it was before ("writes exactly the component's bytes and nothing
adjacent"). -/
theorem acceptStoreBytes_sound (ts off : Nat) (src before after : List Nat)
    (h : acceptStoreBytes ts off src before after = true) :
    after.length = before.length ∧
    (∀ i, i < ts → after[off + i]? = (src.take ts)[i]?) ∧
    (∀ i, i < off ∨ off + ts ≤ i → after[i]? = before[i]?) := by
  simp only [acceptStoreBytes, Bool.and_eq_true, beq_iff_eq] at h
  obtain ⟨hl, hc, hpre, hpost⟩ := h
  refine ⟨hl, ?_, ?_⟩
  · intro i hi
    have : ((after.drop off).take ts)[i]? = (src.take ts)[i]? := by rw [hc]
    rw [List.getElem?_take_of_lt hi, List.getElem?_drop] at this
    exact this
  · intro i hi
    rcases hi with hi | hi
    · have : (after.take off)[i]? = (before.take off)[i]? := by rw [hpre]
      rwa [List.getElem?_take_of_lt hi, List.getElem?_take_of_lt hi] at this
    · have : (after.drop (off + ts))[i - (off + ts)]? = (before.drop (off + ts))[i - (off + ts)]? := by rw [hpost]
      rw [List.getElem?_drop, List.getElem?_drop] at this
      have e : off + ts + (i - (off + ts)) = i := by omega
      rwa [e] at this

/-- **`acceptLoadGP` is sound**: the register's value bytes are Go's conversion of the component to the register's
width and the register depends on exactly the component's bytes. -/
theorem acceptLoadGP_sound (F : Flags) (t : TypeInfo) (rsize roff off : Nat) (v reg : List Nat) (lo hi cnt : Nat)
    (h : acceptLoadGP F t rsize roff off v reg lo hi cnt = true) :
    (lo = off ∧ hi = off + t.size ∧ cnt = t.size) ∧
    (reg.drop roff).take rsize = leBytes (goConvert F t (leNat v) rsize) rsize := by
  simp only [acceptLoadGP, Bool.and_eq_true, beq_iff_eq] at h
  exact ⟨⟨h.1, h.2.1, h.2.2.1⟩, h.2.2.2⟩

theorem acceptLoadLow_sound (ts off : Nat) (v reg : List Nat) (lo hi cnt : Nat)
    (h : acceptLoadLow ts off v reg lo hi cnt = true) :
    (lo = off ∧ hi = off + ts ∧ cnt = ts) ∧ reg.take ts = v := by
  simp only [acceptLoadLow, Bool.and_eq_true, beq_iff_eq] at h
  exact ⟨⟨h.1, h.2.1, h.2.2.1⟩, h.2.2.2⟩

/-- the signed value of the `w`-byte two's-complement pattern `v` -/
def signedVal (v w : Nat) : Int := if 2 ^ (8 * w - 1) ≤ v then (v : Int) - (2 ^ (8 * w) : Nat) else v

theorem topBit_iff (v n : Nat) (hv : v < 2 ^ (n + 1)) : ((v >>> n) % 2 == 1) = decide (2 ^ n ≤ v) := by
  rw [Nat.shiftRight_eq_div_pow]
  have hlt : v / 2 ^ n < 2 := by
    rw [Nat.div_lt_iff_lt_mul (Nat.two_pow_pos n)]
    rw [Nat.pow_succ] at hv; omega
  by_cases h : 2 ^ n ≤ v
  · have : 1 ≤ v / 2 ^ n := (Nat.le_div_iff_mul_le (Nat.two_pow_pos n)).mpr (by omega)
    have e : v / 2 ^ n = 1 := by omega
    simp [e, h]
  · have e : v / 2 ^ n = 0 := Nat.div_eq_of_lt (by omega)
    simp [e, h]

/-- **`extend .sign` is Go's conversion of a signed integer to a wider type**: the `k`-byte two's-complement
pattern of the SAME signed value (for `0 < w ≤ k`, `v` a `w`-byte pattern). -/
theorem extend_sign_spec (v w k : Nat) (hw : 0 < w) (hwk : w ≤ k) (hv : v < 2 ^ (8 * w)) :
    ((extend .sign v w k : Nat) : Int) = signedVal v w % ((2 ^ (8 * k) : Nat) : Int) ∧ extend .sign v w k < 2 ^ (8 * k) := by
  have hAB : 2 ^ (8 * w) ≤ 2 ^ (8 * k) := Nat.pow_le_pow_right (by decide) (by omega)
  have hApos : 0 < 2 ^ (8 * w) := Nat.two_pow_pos _
  have hsucc : 8 * w - 1 + 1 = 8 * w := by omega
  have hbit := topBit_iff v (8 * w - 1) (by rw [hsucc]; exact hv)
  have hhalf : 2 ^ (8 * w - 1) * 2 = 2 ^ (8 * w) := by rw [← Nat.pow_succ]; exact congrArg (2 ^ ·) hsucc
  unfold extend signedVal
  simp only [hbit, hw, decide_true, Bool.true_and]
  generalize hA : 2 ^ (8 * w) = A at *
  generalize hB : 2 ^ (8 * k) = B at *
  generalize hH : 2 ^ (8 * w - 1) = H at *
  by_cases h : H ≤ v
  · simp only [h, decide_true, if_true]
    constructor
    · have e : ((v + (B - 1 - (A - 1)) : Nat) : Int) = (v : Int) - (A : Int) + (B : Int) := by omega
      rw [e, ← Int.add_emod_right ((v : Int) - (A : Int)) (B : Int)]
      rw [Int.emod_eq_of_lt] <;> omega
    · omega
  · simp only [h, decide_false, if_false, Bool.false_eq_true]
    constructor
    · rw [Int.emod_eq_of_lt] <;> omega
    · omega

/-- non-vacuity: int8(-128) converted to 32 bits -/
example : extend .sign 0x80 1 4 = 0xffffff80 ∧ signedVal 0x80 1 = -128 := by decide

/-- Go's conversion of a signed component is the two's-complement pattern of the same value at the register's
width; unsigned integers and booleans keep their (non-negative) value (zero extension) -/
theorem goConvert_spec (t : TypeInfo) (v k : Nat) (hw : 0 < t.size) (hwk : t.size ≤ k) (hv : v < 2 ^ (8 * t.size)) :
    (isSigned F t = true → ((goConvert F t v k : Nat) : Int) = signedVal v t.size % ((2 ^ (8 * k) : Nat) : Int)) ∧
    (isSigned F t = false → goConvert F t v k = v) := by
  constructor
  · intro h; simp only [goConvert, h, if_true]; exact (extend_sign_spec v t.size k hw hwk hv).1
  · intro h; simp [goConvert, h]

/-! ## The behaviour table -/

/-- the table is complete: every class-level input was run -/
theorem tab_complete :
    (dirs.all fun d => types.all fun t => regClasses.all fun r => memReps.all fun m =>
      (behave tab d t r m).isSome) = true := by
  decide +kernel

/-- every opcode the implementation selected has a modelled semantics -/
theorem tab_opcodes_modelled :
    tab.all (fun g => g.rows.all fun e => match e.outcome with
      | none => true
      | some opc => (semTable.find? (fun s => s.1 == opc)).isSome) = true := by
  decide +kernel

/-- types with the same go/types flags and size (int/int64, uint/uint64/uintptr, uint8/byte, int32/rune) are
treated alike: the look-up by (flags, size) is unambiguous -/
theorem tab_type_determined :
    (tab.all fun g => tab.all fun g' =>
      !(g.dir == g'.dir && g.tinfo == g'.tinfo && g.tsize == g'.tsize) || g.rows == g'.rows) = true := by
  decide +kernel

/-- the address's base register (FP pseudo register or general purpose) makes no difference -/
theorem tab_address_independent :
    (dirs.all fun d => types.all fun t => regClasses.all fun r =>
      memReps.all fun m => memReps.all fun m' => behave tab d t r m == behave tab d t r m') = true := by
  decide +kernel

/-- every checker named by the source rows is one of the modelled predicates, every case passes `(a, b)` in
that order (vacuous when the source was not recognised) -/
theorem mov_table_resolved :
    Gen.mov.all (fun r => (OpClass.ofChecker r.pa).isSome && (OpClass.ofChecker r.pb).isSome && r.inOrder) = true := by
  decide +kernel

/-- every opcode the source rows can emit has a modelled semantics -/
theorem mov_opcodes_modelled :
    Gen.mov.all (fun r => (semTable.find? (fun e => e.1 == r.opcode)).isSome) = true := by
  decide +kernel

/-- **Source and behaviour agree**: when build/zmov.go was recognised, the first-match model over its rows gives,
at every class-level input, exactly what the real code did. -/
theorem ast_agrees_bool :
    (!Gen.movAstOK || (dirs.all fun d => types.all fun t => regClasses.all fun r => memReps.all fun m =>
      behave tab d t r m == some (loadStore rows d m r t))) = true := by
  decide +kernel

theorem ast_agrees (h : Gen.movAstOK = true) :
    ∀ d ∈ dirs, ∀ t ∈ types, ∀ r ∈ regClasses, ∀ m ∈ memReps,
      behave tab d t r m = some (loadStore rows d m r t) := by
  intro d hd t ht r hr m hm
  have hb := ast_agrees_bool
  simp only [h, Bool.not_true, Bool.false_or, List.all_eq_true] at hb
  simpa using hb d hd t ht r hr m hm

theorem mov_ok_partial_bool :
    (dirs.all fun d => types.all fun t => regClasses.all fun r => memReps.all fun m =>
      f7 t r || f18 t || okAt d t r m) = true := by
  decide +kernel

/-- **C08 (partial: outside F7 and F18).** At every reachable input except 4-byte integers with an XMM register
(F7) and `unsafe.Pointer` components (F18): where the class table has a move of the component's width for the
type's register file an instruction IS selected; a selected instruction accesses exactly the component's bytes
and extends as Go converts; an error is reported only where no move exists.  Missing for full strength: the F7
and F18 inputs, where the unchanged code is wrong (Props/C08Finding.lean). -/
theorem mov_ok_partial :
    ∀ d ∈ dirs, ∀ t ∈ types, ∀ r ∈ regClasses, ∀ m ∈ memReps, f7 t r = false → f18 t = false → okAt d t r m = true := by
  intro d hd t ht r hr m hm hg hp
  have h := mov_ok_partial_bool
  simp only [List.all_eq_true] at h
  have := h d hd t ht r hr m hm
  simpa [hg, hp] using this

/-- the same, declaratively (through `acceptSel_sound`) -/
theorem mov_sel_ok :
    ∀ d ∈ dirs, ∀ t ∈ types, ∀ r ∈ regClasses, ∀ m ∈ memReps, f7 t r = false → f18 t = false →
      ∃ o, behave tab d t r m = some o ∧ SelOK F d t r o := by
  intro d hd t ht r hr m hm hg hp
  have h := mov_ok_partial d hd t ht r hr m hm hg hp
  unfold okAt at h
  cases hb : behave tab d t r m with
  | none => rw [hb] at h; cases h
  | some o => rw [hb] at h; exact ⟨o, rfl, acceptSel_sound F d t r o h⟩

def tUint32 : TypeInfo := ⟨0x75696e74333206cab25ce1, 6, 4⟩   -- uint32: IsInteger|IsUnsigned, 4 bytes
def rXMM : RegV := ⟨kindVector, 16, 513, 31, nV⟩
def mFP : Operand := .mem (some ⟨kindPseudo, 0, 0, 0, 0⟩) none 0 0 0

/-- **Errors.** `Context.mov` takes the default branch (records the error, adds
no instruction) exactly when no case matches. -/
theorem mov_err (rs : List RRow) (a b : Operand) (an bn ti : Nat) :
    deduce rs a b an bn ti = none ↔ ∀ r ∈ rs, r.matches a b an bn ti = false := by
  unfold deduce
  cases h : rs.find? (fun r => r.matches a b an bn ti) with
  | none =>
    simp only [Option.map_none, true_iff]
    intro r hr
    have := List.find?_eq_none.mp h r hr
    simpa using this
  | some r =>
    simp only [Option.map_some, reduceCtorEq, false_iff]
    intro hall
    have h1 := hall r (List.mem_of_find?_eq_some h)
    have h2 : r.matches a b an bn ti = true := by simpa using List.find?_some h
    rw [h1] at h2; cases h2

/-- **First match.** A deduced opcode is that of the first matching case. -/
theorem mov_first (rs : List RRow) (a b : Operand) (an bn ti opc : Nat)
    (h : deduce rs a b an bn ti = some opc) :
    ∃ pre r post, rs = pre ++ r :: post ∧ (∀ q ∈ pre, q.matches a b an bn ti = false) ∧
      r.matches a b an bn ti = true ∧ r.opcode = opc := by
  unfold deduce at h
  cases hf : rs.find? (fun r => r.matches a b an bn ti) with
  | none => rw [hf] at h; cases h
  | some r =>
    rw [hf] at h
    obtain ⟨hp, pre, post, hsplit, hpre⟩ := List.find?_eq_some_iff_append.mp hf
    refine ⟨pre, r, post, hsplit, ?_, by simpa using hp, by simpa using h⟩
    intro q hq; simpa using hpre q hq

/-- **No narrower or wider general-purpose access.** A general-purpose register narrower than the component is
an error for loads; for stores the register must have exactly the component's width. -/
theorem gp_width_errors :
    (types.all fun t => regClasses.all fun r => memReps.all fun m =>
      (!(r.kind == kindGP) ||
        ((decide (r.size < t.size) → behave tab .load t r m = some none) ∧
         (decide (r.size ≠ t.size) → behave tab .store t r m = some none)))) = true := by
  decide +kernel

/-- **Where a move must exist, one is selected** (outside F18): every (type, register class) pair of the class
table — integers, booleans with general-purpose registers of sufficient (load) / equal (store) width, with mask
registers, 4- and 8-byte integers and floats with XMM registers. -/
theorem must_move_defined :
    (dirs.all fun d => types.all fun t => regClasses.all fun r => memReps.all fun m =>
      (!(mustMove F d t r) || f18 t ||
        (match behave tab d t r m with | some (some _) => true | _ => false))) = true := by
  decide +kernel

/-- the `mustMove` domain is not empty in any register file: one witness per class -/
example : mustMove F .load ⟨0, Gen.tIsInteger, 2⟩ ⟨kindOpmask, 8, 769, 15, nV⟩ = true := by decide
example : mustMove F .store ⟨0, Gen.tIsInteger, 8⟩ ⟨kindVector, 16, 513, 31, nV⟩ = true := by decide
example : mustMove F .store ⟨0, Gen.tIsFloat, 4⟩ ⟨kindVector, 16, 513, 31, nV⟩ = true := by decide
example : mustMove F .load ⟨0, Gen.tIsBoolean, 1⟩ ⟨kindGP, 1, 257, 2, nV⟩ = true := by decide
example : mustMove F .load ⟨0, Gen.tIsFloat, 4⟩ ⟨kindGP, 4, 257, 7, nV⟩ = false := by decide
example : mustMove F .load ⟨0, Gen.tIsInteger, 2⟩ ⟨kindVector, 16, 513, 31, nV⟩ = false := by decide
example : mustMove F .load ⟨0, Gen.tIsFloat, 4⟩ ⟨kindVector, 32, 513, 63, nV⟩ = false := by decide

/-! ## One register per class represents the class -/

/-- classes whose predicate looks at register kind and size (or at the shape of
a memory reference) only -/
def classLevel : OpClass → Bool
  | .k | .m | .m8 | .m16 | .m32 | .m64 | .m128 | .m256 | .m512 | .r8 | .r16 | .r32 | .r64 | .xmm | .ymm | .zmm => true
  | _ => false

/-- the table only uses such predicates -/
theorem mov_class_level :
    rows.all (fun r => (match r.ca with | some c => classLevel c | none => false) &&
                       (match r.cb with | some c => classLevel c | none => false)) = true := by
  decide +kernel

/-- a component address: `Mem` with a general-purpose or pseudo base and no index -/
def plainAddr : Operand → Bool
  | .mem b none _ _ _ => isMReg b
  | _ => false

theorem holds_reg_congr (c : OpClass) (h : classLevel c = true) (r r' : RegV)
    (hk : r.kind = r'.kind) (hs : r.size = r'.size) : c.holds (.reg r) = c.holds (.reg r') := by
  cases c <;> simp_all [classLevel, OpClass.holds, isRegKind, isRegKindSize, isMSize]

theorem holds_mem_congr (c : OpClass) (h : classLevel c = true) (m m' : Operand)
    (hm : plainAddr m = true) (hm' : plainAddr m' = true) : c.holds m = c.holds m' := by
  cases m <;> cases m' <;> simp [plainAddr] at hm hm'
  rename_i b i _ _ _ b' i' _ _ _
  cases i <;> cases i' <;> simp at hm hm'
  cases c <;> simp_all [classLevel, OpClass.holds, isRegKind, isRegKindSize, isMSize]

theorem find?_congr' {α} (p q : α → Bool) : ∀ (l : List α), (∀ a ∈ l, p a = q a) → l.find? p = l.find? q := by
  intro l
  induction l with
  | nil => intro _; rfl
  | cons a l ih =>
    intro h
    have ha := h a (by simp)
    simp only [List.find?_cons, ha]
    cases q a
    · exact ih (fun x hx => h x (by simp [hx]))
    · rfl

/-- **The decision depends on the register's class and on the address being a
component address only**: any register of the same kind and size and any other
component address give the same result, so the representatives of `regClasses`
and `memReps` cover every input `Load`/`Store` can be given. -/
theorem loadStore_class_invariant (d : Dir) (t : TypeInfo) (r r' : RegV) (m m' : Operand)
    (hk : r.kind = r'.kind) (hs : r.size = r'.size) (hm : plainAddr m = true) (hm' : plainAddr m' = true) :
    loadStore rows d m r t = loadStore rows d m' r' t := by
  have hcl := List.all_eq_true.mp mov_class_level
  have key : ∀ q ∈ rows, ∀ an bn,
      (q.matches m (.reg r) an bn t.info = q.matches m' (.reg r') an bn t.info) ∧
      (q.matches (.reg r) m an bn t.info = q.matches (.reg r') m' an bn t.info) := by
    intro q hq an bn
    have h := hcl q hq
    simp only [Bool.and_eq_true] at h
    cases hca : q.ca with
    | none => rw [hca] at h; simp at h
    | some ca =>
      cases hcb : q.cb with
      | none => rw [hcb] at h; simp at h
      | some cb =>
        rw [hca, hcb] at h
        simp only [RRow.matches, hca, hcb, holdsOpt]
        rw [holds_mem_congr ca h.1 m m' hm hm', holds_reg_congr cb h.2 r r' hk hs,
            holds_reg_congr ca h.1 r r' hk hs, holds_mem_congr cb h.2 m m' hm hm']
        exact ⟨rfl, rfl⟩
  cases d with
  | load =>
    simp only [loadStore, deduce, hs]
    rw [find?_congr' _ _ rows (fun q hq => (key q hq t.size r'.size).1)]
  | store =>
    simp only [loadStore, deduce, hs]
    rw [find?_congr' _ _ rows (fun q hq => (key q hq r'.size t.size).2)]

/-- non-vacuity: a sign-extending load is selected by the real code and judged -/
example : behave tab .load ⟨0x696e743804467285d3, 2, 1⟩ ⟨kindGP, 4, 257, 7, nV⟩ mFP = some (some oMOVBLSX) := by
  decide +kernel
/-- a store is selected and judged -/
example : behave tab .store ⟨0x75696e74333206cab25ce1, 6, 4⟩ ⟨kindGP, 4, 257, 7, nV⟩ mFP = some (some oMOVL) ∧
    okAt .store ⟨0x75696e74333206cab25ce1, 6, 4⟩ ⟨kindGP, 4, 257, 7, nV⟩ mFP = true := by
  decide +kernel
/-- an error where no move exists is accepted, an error where one exists is not -/
example : acceptSel F .load ⟨0, Gen.tIsInteger, 2⟩ ⟨kindVector, 16, 513, 31, nV⟩ none = true ∧
    acceptSel F .load ⟨0, Gen.tIsInteger, 8⟩ ⟨kindOpmask, 8, 769, 15, nV⟩ none = false := by decide
/-- the hypotheses of `mov_ok_partial` are satisfiable -/
example : ⟨0x696e743804467285d3, 2, 1⟩ ∈ types ∧ f7 ⟨0x696e743804467285d3, 2, 1⟩ ⟨kindGP, 4, 257, 7, nV⟩ = false ∧
    f18 ⟨0x696e743804467285d3, 2, 1⟩ = false := by decide +kernel
/-- the byte acceptors accept a correct image and reject an adjacent overwrite -/
example : acceptStoreBytes 2 2 [0x11, 0x22, 0x33] [0x5a, 0x5a, 0x5a, 0x5a, 0x5a, 0x5a] [0x5a, 0x5a, 0x11, 0x22, 0x5a, 0x5a] = true ∧
    acceptStoreBytes 2 2 [0x11, 0x22, 0x33] [0x5a, 0x5a, 0x5a, 0x5a, 0x5a, 0x5a] [0x5a, 0x5a, 0x11, 0x22, 0x33, 0x5a] = false ∧
    acceptStoreBytes 2 2 [0x11, 0x22, 0x33] [0x5a, 0x5a, 0x5a, 0x5a, 0x5a, 0x5a] [0x5a, 0x00, 0x11, 0x22, 0x5a, 0x5a] = false := by decide
example : acceptLoadGP F ⟨0, Gen.tIsInteger, 1⟩ 4 0 1 [0x80] [0x80, 0xff, 0xff, 0xff] 1 2 1 = true ∧
    acceptLoadGP F ⟨0, Gen.tIsInteger, 1⟩ 4 0 1 [0x80] [0x80, 0, 0, 0] 1 2 1 = false := by decide

end Avo.Mov
