/-
C08 — Load and Store move exactly the component's bytes with Go's extension rule.

The move-deduction table is regenerated from build/zmov.go (`Gen.mov`, first
match in source order); the basic types with their go/types flags and sizes are
`Gen.basicTypes`.  The reachable input space of `Context.Load` / `Context.Store`
is finite — direction × basic type × register class × address shape — so the
property is decided completely by kernel evaluation.  `movSem` (what the
selected instruction does) is a hand-written model validated on the CPU by the
check (Props level: "proof-partial, measured oracle").

On the unchanged tree the full-strength statement is FALSE (finding F7): 4-byte
integers with an XMM register select `MOVQ`, an 8-byte access.  `mov_ok_partial`
carries the explicit guard `f7`; Props/C08Finding.lean (`mov_ok_fails_at_f7`)
proves the negation at the witness — a separate module, so that a repaired
table makes the finding stale instead of breaking this file.
-/
import AvoVerif.Model.Mov
import AvoVerif.Gen.Mov
namespace Avo.Mov
open Avo Avo.Instr
set_option maxRecDepth 1000000

def F : Flags := ⟨Gen.tIsBoolean, Gen.tIsInteger, Gen.tIsUnsigned, Gen.tIsFloat⟩

/-- the table with checker names resolved -/
def rows : List RRow := Gen.mov.map resolve

def types : List TypeInfo := Gen.basicTypes.map (fun p => ⟨p.1, p.2.1, p.2.2⟩)

def dirs : List Dir := [.load, .store]

/-- the verdict at one reachable input: an error is always allowed ("when no
instruction can do this, an error is reported"); a selected opcode must move
exactly the component's bytes with Go's extension rule -/
def okAt (d : Dir) (t : TypeInfo) (r : RegV) (m : Operand) : Bool :=
  match loadStore rows d m r t with
  | none => true
  | some opc => opcodeOK F d t r opc

/-- **C08 at full strength**: at every reachable input. -/
def mov_ok_statement : Prop :=
  ∀ d ∈ dirs, ∀ t ∈ types, ∀ r ∈ regClasses, ∀ m ∈ memReps, okAt d t r m = true

/-- F7: a 4-byte integer (or boolean-flagged) component with an XMM register -/
def f7 (t : TypeInfo) (r : RegV) : Bool :=
  t.size == 4 && (has t.info F.isInteger || has t.info F.isBoolean) && r.kind == kindVector && r.size == 16

/-- every checker named by the table is one of the modelled predicates, every
case passes `(a, b)` in that order -/
theorem mov_table_resolved :
    Gen.mov.all (fun r => (OpClass.ofChecker r.pa).isSome && (OpClass.ofChecker r.pb).isSome && r.inOrder) = true := by
  decide +kernel

/-- the default branch is `c.adderrormessage("could not deduce mov instruction")` -/
theorem mov_default :
    Gen.movDefault = (0x6164646572726f726d6573736167650fd550bf00, 0x636f756c645f6e6f745f6465647563655f6d6f765f696e737472756374696f6e202b1be654) := by
  decide +kernel

/-- every opcode the table can emit has a modelled semantics -/
theorem mov_opcodes_modelled :
    Gen.mov.all (fun r => (semTable.find? (fun e => e.1 == r.opcode)).isSome) = true := by
  decide +kernel

theorem mov_ok_partial_bool :
    (dirs.all fun d => types.all fun t => regClasses.all fun r => memReps.all fun m =>
      f7 t r || okAt d t r m) = true := by
  decide +kernel

/-- **C08 (partial: outside F7).** At every reachable input except 4-byte
integers with an XMM register, the selected instruction — if any — accesses
exactly the component's bytes and extends as Go converts.  Missing for full
strength: the `f7` inputs, where the unchanged table is wrong (see below). -/
theorem mov_ok_partial :
    ∀ d ∈ dirs, ∀ t ∈ types, ∀ r ∈ regClasses, ∀ m ∈ memReps, f7 t r = false → okAt d t r m = true := by
  intro d hd t ht r hr m hm hg
  have h := mov_ok_partial_bool
  simp only [List.all_eq_true] at h
  have := h d hd t ht r hr m hm
  simpa [hg] using this

def tUint32 : TypeInfo := ⟨0x75696e74333206cab25ce1, 6, 4⟩   -- uint32: IsInteger|IsUnsigned, 4 bytes
def rXMM : RegV := ⟨kindVector, 16, 513, 31, nV⟩
def mFP : Operand := .mem (some ⟨kindPseudo, 0, 0, 0, 0⟩) none 0 0 0

/-- **Errors.** `Context.mov` takes the default branch (records the error, adds
no instruction) exactly when no case matches. -/
theorem mov_err (rs : List RRow) (a b : Operand) (an bn ti : Nat) :
    deduce rs a b an bn ti = none ↔ ∀ r ∈ rs, r.matches a b an bn ti = false := by
  unfold deduce
  cases h : rs.find? (fun r => r.matches a b an bn ti) with
  | none =>
    simp only [Option.map_none, true_iff]
    intro r hr
    have := List.find?_eq_none.mp h r hr
    simpa using this
  | some r =>
    simp only [Option.map_some, reduceCtorEq, false_iff]
    intro hall
    have h1 := hall r (List.mem_of_find?_eq_some h)
    have h2 : r.matches a b an bn ti = true := by simpa using List.find?_some h
    rw [h1] at h2; cases h2

/-- **First match.** A deduced opcode is that of the first matching case. -/
theorem mov_first (rs : List RRow) (a b : Operand) (an bn ti opc : Nat)
    (h : deduce rs a b an bn ti = some opc) :
    ∃ pre r post, rs = pre ++ r :: post ∧ (∀ q ∈ pre, q.matches a b an bn ti = false) ∧
      r.matches a b an bn ti = true ∧ r.opcode = opc := by
  unfold deduce at h
  cases hf : rs.find? (fun r => r.matches a b an bn ti) with
  | none => rw [hf] at h; cases h
  | some r =>
    rw [hf] at h
    obtain ⟨hp, pre, post, hsplit, hpre⟩ := List.find?_eq_some_iff_append.mp hf
    refine ⟨pre, r, post, hsplit, ?_, by simpa using hp, by simpa using h⟩
    intro q hq; simpa using hpre q hq

/-- **No narrower or wider general-purpose access.** A general-purpose
register narrower than the component is an error for loads; for stores the
register must have exactly the component's width. -/
theorem gp_width_errors :
    (types.all fun t => regClasses.all fun r => memReps.all fun m =>
      (!(r.kind == kindGP) ||
        ((decide (r.size < t.size) → loadStore rows .load m r t = none) ∧
         (decide (r.size ≠ t.size) → loadStore rows .store m r t = none)))) = true := by
  decide +kernel

/-- **Integers and booleans load into every general-purpose register that is
wide enough** (the first sentence of the property is not vacuous). -/
theorem gp_loads_defined :
    (types.all fun t => regClasses.all fun r => memReps.all fun m =>
      (!(r.kind == kindGP && (has t.info F.isInteger || has t.info F.isBoolean) && decide (t.size ≤ r.size)) ||
        (loadStore rows .load m r t).isSome)) = true := by
  decide +kernel

/-- **Where a move must exist, one is selected**: integers and booleans with
general-purpose registers of sufficient (load) / equal (store) width, floats
with XMM registers. -/
theorem must_move_defined :
    (dirs.all fun d => types.all fun t => regClasses.all fun r => memReps.all fun m =>
      (!(mustMove F d t r) || (loadStore rows d m r t).isSome)) = true := by
  decide +kernel

/-! ## One register per class represents the class -/

/-- classes whose predicate looks at register kind and size (or at the shape of
a memory reference) only -/
def classLevel : OpClass → Bool
  | .k | .m | .m8 | .m16 | .m32 | .m64 | .m128 | .m256 | .m512 | .r8 | .r16 | .r32 | .r64 | .xmm | .ymm | .zmm => true
  | _ => false

/-- the table only uses such predicates -/
theorem mov_class_level :
    rows.all (fun r => (match r.ca with | some c => classLevel c | none => false) &&
                       (match r.cb with | some c => classLevel c | none => false)) = true := by
  decide +kernel

/-- a component address: `Mem` with a general-purpose or pseudo base and no index -/
def plainAddr : Operand → Bool
  | .mem b none _ _ _ => isMReg b
  | _ => false

theorem holds_reg_congr (c : OpClass) (h : classLevel c = true) (r r' : RegV)
    (hk : r.kind = r'.kind) (hs : r.size = r'.size) : c.holds (.reg r) = c.holds (.reg r') := by
  cases c <;> simp_all [classLevel, OpClass.holds, isRegKind, isRegKindSize, isMSize]

theorem holds_mem_congr (c : OpClass) (h : classLevel c = true) (m m' : Operand)
    (hm : plainAddr m = true) (hm' : plainAddr m' = true) : c.holds m = c.holds m' := by
  cases m <;> cases m' <;> simp [plainAddr] at hm hm'
  rename_i b i _ _ _ b' i' _ _ _
  cases i <;> cases i' <;> simp at hm hm'
  cases c <;> simp_all [classLevel, OpClass.holds, isRegKind, isRegKindSize, isMSize]

theorem find?_congr' {α} (p q : α → Bool) : ∀ (l : List α), (∀ a ∈ l, p a = q a) → l.find? p = l.find? q := by
  intro l
  induction l with
  | nil => intro _; rfl
  | cons a l ih =>
    intro h
    have ha := h a (by simp)
    simp only [List.find?_cons, ha]
    cases q a
    · exact ih (fun x hx => h x (by simp [hx]))
    · rfl

/-- **The decision depends on the register's class and on the address being a
component address only**: any register of the same kind and size and any other
component address give the same result, so the representatives of `regClasses`
and `memReps` cover every input `Load`/`Store` can be given. -/
theorem loadStore_class_invariant (d : Dir) (t : TypeInfo) (r r' : RegV) (m m' : Operand)
    (hk : r.kind = r'.kind) (hs : r.size = r'.size) (hm : plainAddr m = true) (hm' : plainAddr m' = true) :
    loadStore rows d m r t = loadStore rows d m' r' t := by
  have hcl := List.all_eq_true.mp mov_class_level
  have key : ∀ q ∈ rows, ∀ an bn,
      (q.matches m (.reg r) an bn t.info = q.matches m' (.reg r') an bn t.info) ∧
      (q.matches (.reg r) m an bn t.info = q.matches (.reg r') m' an bn t.info) := by
    intro q hq an bn
    have h := hcl q hq
    simp only [Bool.and_eq_true] at h
    cases hca : q.ca with
    | none => rw [hca] at h; simp at h
    | some ca =>
      cases hcb : q.cb with
      | none => rw [hcb] at h; simp at h
      | some cb =>
        rw [hca, hcb] at h
        simp only [RRow.matches, hca, hcb, holdsOpt]
        rw [holds_mem_congr ca h.1 m m' hm hm', holds_reg_congr cb h.2 r r' hk hs,
            holds_reg_congr ca h.1 r r' hk hs, holds_mem_congr cb h.2 m m' hm hm']
        exact ⟨rfl, rfl⟩
  cases d with
  | load =>
    simp only [loadStore, deduce, hs]
    rw [find?_congr' _ _ rows (fun q hq => (key q hq t.size r'.size).1)]
  | store =>
    simp only [loadStore, deduce, hs]
    rw [find?_congr' _ _ rows (fun q hq => (key q hq r'.size t.size).2)]

/-- non-vacuity: a sign-extending load is selected and judged -/
example : loadStore rows .load mFP ⟨kindGP, 4, 257, 7, nV⟩ ⟨0x696e743804467285d3, 2, 1⟩ = some oMOVBLSX := by
  decide +kernel

end Avo.Mov
