/-
C05 — the operand classes of an accepted instruction (`accept-class`, `opclass` of Drv/C05.lean).

The judge of the assembled bytes (`accept-asm`) reads the operands THROUGH the signature of the matched form: the
form names, per position, the operand class (`vm32z`, `m64`, `imm8`, …) and the class fixes what the machine
instruction must contain there (a VSIB byte with a vector index, an access of 8 bytes, an 8-bit immediate).  This
file states and proves the link that was implicit: an accepted instruction's operands ARE members of the classes its
form names, in the declarative sense of Props/C06Classes.lean (`Spec`) — in particular an operand accepted at a
`vm*` position has a 64-bit general purpose base AND a vector index of the class's width (`class_vm_operand`), one
accepted at an `m*` position has a base and a general purpose / pseudo index or none (`class_m_operand`).
The implementation's predicates are compared with the model on systematically derived one-attribute near misses of
every operand type (`opclass`, exact) and on every accepted instruction (`accept-class`, this acceptor).
-/
import AvoVerif.Drv.C05
import AvoVerif.Props.C06Classes
namespace Avo.Drv.C05
open Avo.AsmText Avo.AsmJudge Avo.Instr

/-- the declarative reading of `accept-class`: as many operands as the signature has positions, and each operand is
a member (`Spec`) of the class named at its position -/
def ClassAgrees : List String → List XOp → Prop
  | [], [] => True
  | t :: ts, x :: xs => (∃ c, classOfWord t = some c ∧ Spec c (toInstrOp x)) ∧ ClassAgrees ts xs
  | _, _ => False

/-- **Soundness of `accept-class`** -/
theorem classErr_sound : ∀ (sig : List String) (ops : List XOp) (i : Nat), classErr sig ops i = none → ClassAgrees sig ops := by
  intro sig
  induction sig with
  | nil =>
    intro ops i h
    cases ops with
    | nil => trivial
    | cons x xs => simp [classErr] at h
  | cons t ts ih =>
    intro ops i h
    cases ops with
    | nil => simp [classErr] at h
    | cons x xs =>
      simp only [classErr] at h
      split at h
      · simp at h
      · rename_i c hc
        split at h
        · rename_i hh
          exact ⟨⟨c, hc, (holds_iff_spec c _).1 hh⟩, ih xs (i + 1) h⟩
        · simp at h

/-- … and completeness: the acceptor rejects nothing that agrees -/
theorem classErr_complete : ∀ (sig : List String) (ops : List XOp) (i : Nat), ClassAgrees sig ops → classErr sig ops i = none := by
  intro sig
  induction sig with
  | nil =>
    intro ops i h
    cases ops with
    | nil => rfl
    | cons x xs => exact h.elim
  | cons t ts ih =>
    intro ops i h
    cases ops with
    | nil => exact h.elim
    | cons x xs =>
      obtain ⟨⟨c, hc, hs⟩, hr⟩ := h
      simp only [classErr, hc, (holds_iff_spec c _).2 hs, if_true]
      exact ih xs (i + 1) hr

theorem judgeClass_ok_iff (g : Given) : judgeClass g = "ok" ↔ classErr g.sig g.ops 0 = none := by
  unfold judgeClass
  cases hj : classErr g.sig g.ops 0 with
  | none => simp
  | some why =>
    simp only [reduceCtorEq, iff_false]
    split
    · decide
    · rename_i hw; simpa using hw

theorem judgeClass_sound {g : Given} (h : judgeClass g = "ok") : ClassAgrees g.sig g.ops :=
  classErr_sound _ _ _ ((judgeClass_ok_iff g).1 h)

/-- the translation keeps what the classes look at: presence of base and index -/
theorem toInstrOp_mem (x : XOp) (b i : Option RegV) (sc : Nat) (d : Int) (sym : Nat) (h : toInstrOp x = .mem b i sc d sym) :
    ∃ s st bb ii, x = .mem s st d bb ii sc ∧ b = bb.map regV ∧ i = ii.map regV := by
  cases x with
  | mem s st d' bb ii sc' =>
    simp only [toInstrOp, Operand.mem.injEq] at h
    obtain ⟨h1, h2, h3, h4, _⟩ := h
    subst h3 h4
    exact ⟨s, st, bb, ii, rfl, h1.symm, h2.symm⟩
  | _ => simp [toInstrOp] at h

/-- **An operand accepted at a vector-indexed position is a full VSIB reference**: base present, a 64-bit general
purpose register; index present, a vector register of the width the class names.  (Seeded change C05-6 made the
constructors accept `disp(base)` there; the assembler has no encoding for it.) -/
theorem class_vm_operand (c : OpClass) (n : Nat) (hw : c.vmWidth = some n) (x : XOp) (h : Spec c (toInstrOp x)) :
    ∃ s st d b i sc, x = .mem s st d (some b) (some i) sc ∧
      b.kind = kindGP ∧ b.size = 8 ∧ i.kind = kindVector ∧ i.size = n := by
  obtain ⟨rb, rx, sc, d, sym, e, h1, h2, h3, h4⟩ := (holds_vm_iff c n hw _).1 ((holds_iff_spec c _).2 h)
  obtain ⟨s, st, bb, ii, rfl, eb, ei⟩ := toInstrOp_mem x _ _ _ _ _ e
  cases bb with
  | none => cases eb
  | some b =>
    cases ii with
    | none => cases ei
    | some i =>
      simp only [Option.map_some, Option.some.injEq] at eb ei
      subst eb ei
      exact ⟨s, st, d, b, i, sc, rfl, h1, h2, h3, h4⟩

/-- an operand accepted at a plain memory position: base present, general purpose or pseudo; the index, when
present, general purpose or pseudo — never a vector or opmask register -/
theorem class_m_operand (c : OpClass) (hm : c.isPlainMem = true) (x : XOp) (h : Spec c (toInstrOp x)) :
    ∃ s st d b ii sc, x = .mem s st d (some b) ii sc ∧ (b.kind = kindPseudo ∨ b.kind = kindGP) ∧
      ∀ i, ii = some i → (i.kind = kindPseudo ∨ i.kind = kindGP) := by
  obtain ⟨rb, ri, sc, d, sym, e, hb, hi⟩ := (holds_m_iff c hm _).1 ((holds_iff_spec c _).2 h)
  obtain ⟨s, st, bb, ii, rfl, eb, ei⟩ := toInstrOp_mem x _ _ _ _ _ e
  cases bb with
  | none => cases eb
  | some b =>
    simp only [Option.map_some, Option.some.injEq] at eb
    subst eb
    refine ⟨s, st, d, b, ii, sc, rfl, hb, ?_⟩
    intro i hi'
    subst hi'
    exact hi (regV i) (by simpa using ei)

/-! ## Non-vacuity -/

/-- `VPGATHERDD 64(R13)(Z2*4), K1, Z1` is what its form `vm32z, k, zmm` names -/
example : ClassAgrees ["vm32z", "k", "zmm"]
    [.mem "" false 64 (some ⟨1, 13, 15, 8, "R13"⟩) (some ⟨2, 2, 127, 64, "Z2"⟩) 4, .reg ⟨3, 1, 15, 8, "K1"⟩, .reg ⟨2, 1, 127, 64, "Z1"⟩] :=
  classErr_sound _ _ 0 (by decide +kernel)

/-- the witness of seeded change C05-6, `VPGATHERDD (R13), K1, Z1`: not what the form names -/
example : classErr ["vm32z", "k", "zmm"]
    [.mem "" false 0 (some ⟨1, 13, 15, 8, "R13"⟩) none 0, .reg ⟨3, 1, 15, 8, "K1"⟩, .reg ⟨2, 1, 127, 64, "Z1"⟩] 0
    = some "bad-operand-not-in-class 0 vm32z" := by decide +kernel

/-- a general purpose index, a narrower vector index, a 32-bit base: not VSIB operands of that class either -/
example : (classErr ["vm32z"] [.mem "" false 0 (some ⟨1, 13, 15, 8, "R13"⟩) (some ⟨1, 1, 15, 8, "CX"⟩) 1] 0).isSome = true := by
  decide +kernel
example : (classErr ["vm32z"] [.mem "" false 0 (some ⟨1, 13, 15, 8, "R13"⟩) (some ⟨2, 2, 63, 32, "Y2"⟩) 1] 0).isSome = true := by
  decide +kernel
example : (classErr ["vm32z"] [.mem "" false 0 (some ⟨1, 0, 7, 4, "AX"⟩) (some ⟨2, 2, 127, 64, "Z2"⟩) 1] 0).isSome = true := by
  decide +kernel
/-- fixed registers are recognised through the identifiers of the regenerated register table -/
example : classErr ["cl", "r64"] [.reg ⟨1, 1, 1, 1, "CL"⟩, .reg ⟨1, 3, 15, 8, "BX"⟩] 0 = none := by decide +kernel
example : (classErr ["cl", "r64"] [.reg ⟨1, 3, 1, 1, "BL"⟩, .reg ⟨1, 3, 15, 8, "BX"⟩] 0).isSome = true := by decide +kernel
example : (classErr ["al"] [.reg ⟨1, 0, 2, 1, "AH"⟩] 0).isSome = true := by decide +kernel
example : classErr ["xmm0", "imm8", "rel8"] [.reg ⟨2, 0, 31, 16, "X0"⟩, .imm .i8 (-1), .rel (-128)] 0 = none := by decide +kernel

end Avo.Drv.C05
