/-
C11 — soundness of the executable acceptors used on the implementation's output
(`Drv/C11.lean`): what the answer `ok` means, declaratively.

  acceptPrint  (text level)    : `TextSays f out`  — the bytes the real printer produced end with a newline and read
                                 back (splitNL / lexLine / parseFile) as the file's includes and, per section in
                                 order, name, instructions, label binding, and a TEXT remainder whose clause evaluates
                                 (installed textflag.h) to the function's attributes, with its frame and argument size.
  acceptAsm    (object level)  : `ObjSays` per function — symbol, sizes (against the accessor AND against what the
                                 generator asked for), flags, instruction order, label binding, every listed branch
                                 lands on (the jump chain of) the instruction its label is bound to, and no relative
                                 machine jump belongs to an instruction that is not a listed branch.
-/
import AvoVerif.Drv.C11
import AvoVerif.Props.C11Examples
namespace Avo.Drv.C11
open Avo.Print Avo.Attr

theorem firstBad_none (xs : List (Option String)) : firstBad xs = none ↔ ∀ x ∈ xs, x = none := by
  induction xs with
  | nil => simp [firstBad]
  | cons x xs ih =>
    cases x with
    | none => simp [firstBad, ih]
    | some e => simp [firstBad]

/-- Two lists of the same length whose elements are related position by position. -/
inductive All2 {α β} (R : α → β → Prop) : List α → List β → Prop
  | nil : All2 R [] []
  | cons {a b as bs} : R a b → All2 R as bs → All2 R (a :: as) (b :: bs)

theorem All2.imp {α β} {R S : α → β → Prop} (h : ∀ a b, R a b → S a b) :
    ∀ {xs ys}, All2 R xs ys → All2 S xs ys
  | _, _, .nil => .nil
  | _, _, .cons r t => .cons (h _ _ r) (All2.imp h t)

theorem All2.length_eq {α β} {R : α → β → Prop} : ∀ {xs ys}, All2 R xs ys → xs.length = ys.length
  | _, _, .nil => rfl
  | _, _, .cons _ t => by simp [All2.length_eq t]

theorem forall2_of_zipWith {α β} (p : α → β → Option String) :
    ∀ (xs : List α) (ys : List β), xs.length = ys.length →
      (∀ x ∈ List.zipWith p xs ys, x = none) → All2 (fun a b => p a b = none) xs ys
  | [], [], _, _ => .nil
  | [], _ :: _, h, _ => by simp at h
  | _ :: _, [], h, _ => by simp at h
  | x :: xs, y :: ys, h, hz => by
    refine .cons (hz _ (by simp)) (forall2_of_zipWith p xs ys (by simpa using h) ?_)
    intro z hzm
    exact hz z (by simp [hzm])

theorem verdict_ok_of_none {r : Option String} (h : r = none) : verdict r = "ok" := by subst h; rfl

/-! ## text level -/

/-- The remainder of a TEXT line says the function's attribute flags (the clause evaluated with the installed
`textflag.h`; no clause means 0), frame size and argument size (0 when the function has no arguments). -/
def RestSays (f : Function) (rest : Txt) : Prop :=
  ∃ at? frame args, parseTextRest rest = some (at?, frame, args) ∧
    clauseValue at? = some f.attrs ∧
    frame = f.frame ∧ args = posArgs f.args

/-- A section read back from the text says what the file's section says. -/
def SecSays : Sec → SecSum → Prop
  | .fn f, .fn p =>
    p.name = f.name ∧ p.instrs = (instrsOf f.nodes).map Instr.key ∧ p.labels = labelsFrom f.nodes 0 ∧ RestSays f p.rest
  | .gl g, .gl p => p = glSum names g
  | _, _ => False

/-- The text says what the file says. -/
def TextSays (f : File) (out : Txt) : Prop :=
  (splitNL out).getLast? = some [] ∧
  ∃ incl secs, parseFile (lexText out) = some (incl, secs) ∧ incl = (fileSum names f).1 ∧
    All2 SecSays f.sections secs

theorem acceptRest_sound (f : Function) (rest : Txt) (h : acceptRest f rest = none) : RestSays f rest := by
  unfold acceptRest at h
  split at h
  · simp at h
  · rename_i at? frame args hp
    refine ⟨at?, frame, args, hp, ?_⟩
    split at h
    · simp at h
    · rename_i h1
      split at h
      · simp at h
      · rename_i h2
        split at h
        · simp at h
        · rename_i h3
          refine ⟨?_, by simpa using h2, by simpa using h3⟩
          simpa using h1

theorem acceptSec_sound (s : Sec) (g : SecSum) (h : acceptSec s g = none) : SecSays s g := by
  unfold acceptSec at h
  split at h
  · rename_i f p
    split at h
    · simp at h
    · rename_i h1
      split at h
      · simp at h
      · rename_i h2
        split at h
        · simp at h
        · rename_i h3
          exact ⟨by simpa using h1, by simpa using h2, by simpa using h3, acceptRest_sound f p.rest h⟩
  · rename_i g' p
    split at h
    · simp at h
    · rename_i h1
      simpa [SecSays] using h1
  · simp at h

/-- **acceptPrint_sound.** Whenever the acceptor answers `ok` on a text, the text says what the file says. -/
theorem acceptPrintE_sound (f : File) (out : Txt) (h : acceptPrintE f out = none) : TextSays f out := by
  unfold acceptPrintE at h
  simp only at h
  split at h
  · simp at h
  · rename_i hnl
    refine ⟨by simpa using hnl, ?_⟩
    split at h
    · simp at h
    · rename_i incl secs hp
      split at h
      · simp at h
      · rename_i hi
        split at h
        · simp at h
        · rename_i hl
          refine ⟨incl, secs, hp, by simpa using hi, ?_⟩
          have hlen : f.sections.length = secs.length := by
            have : secs.length = f.sections.length := by simpa using hl
            exact this.symm
          have := forall2_of_zipWith acceptSec f.sections secs hlen ((firstBad_none _).1 h)
          exact this.imp (fun _ _ hs => acceptSec_sound _ _ hs)

theorem acceptPrint_sound (f : File) (out : Txt) (h : acceptPrintE f out = none) :
    acceptPrint f out = "ok" ∧ TextSays f out :=
  ⟨verdict_ok_of_none h, acceptPrintE_sound f out h⟩

/-- The model's own rendering is accepted's converse direction is `print_faithful`; here: a text that says what
the file says has, per function, the file's instruction list and label binding (what the property asks). -/
theorem textSays_functions (f : File) (out : Txt) (h : TextSays f out) :
    ∃ secs, All2 SecSays f.sections secs ∧ secs.length = f.sections.length := by
  obtain ⟨_, _, secs, _, _, hs⟩ := h
  exact ⟨secs, hs, hs.length_eq.symm⟩

/-! ## object level -/

/-- A listed branch `i → l` lands where the label is bound: the machine code of instruction `i` contains exactly
one jump, and its target is the address of an instruction of the unconditional-jump chain that starts at the
instruction `l` is bound to (the assembler threads jumps), or the branch itself when that chain is a cycle. -/
def BranchLands (is : List Instr) (a : AsmFn) (groups : List (Nat × Nat × List Ent)) (binding : List (Txt × Nat))
    (i : Nat) (l : Txt) : Prop :=
  ∃ line self g j t, groups[i]? = some (line, self, g) ∧ lookupTxt l binding = some j ∧
    g.filterMap (·.target) = [t] ∧
    let ch := followJmps is a.branches binding (is.length + 1) j
    (t ∈ ch.1.filterMap (fun k => groups[k]?.map (·.2.1)) ∨ (ch.2 = true ∧ t = self))

theorem branchOK_sound (is a groups binding i l) (h : branchOK is a groups binding i l = none) :
    BranchLands is a groups binding i l := by
  unfold branchOK at h
  split at h
  · rename_i line self g j hg hl
    split at h
    · rename_i t ht
      simp only at h
      split at h
      · rename_i hc
        refine ⟨line, self, g, j, t, hg, hl, ht, ?_⟩
        simp only [Bool.or_eq_true, Bool.and_eq_true, beq_iff_eq, List.contains_eq_mem, decide_eq_true_eq] at hc
        exact hc
      · simp at h
    · simp at h
  · simp at h

/-- What the object code of one function must say. `ln` = (line of the TEXT line, lines of the instructions). -/
structure ObjSays (f : Function) (ln : Nat × List Nat) (a : AsmFn) : Prop where
  sym : a.sym = f.name
  frame_requested : 0 ≤ a.wantFrame → f.frame = a.wantFrame
  args_requested : 0 ≤ a.wantArgs → f.args = a.wantArgs
  args : if f.args > 0 then a.args = f.args else a.args ≤ 0
  nosplit : f.attrs.getLsbD 2 = true → a.nosplit = true
  dupok : f.attrs.getLsbD 1 = a.dupok
  topframe : f.attrs.getLsbD 11 = a.topframe
  wrapper : (f.attrs.getLsbD 5 || f.attrs.getLsbD 12) = a.wrapper
  locals : localsOK (f.attrs.getLsbD 9) f.frame a.locals = true
  order : (groupEnts (a.ents.filter (fun e => e.line != ln.1))).map (·.1) = ln.2
  binding : sameBinding (labelsFrom f.nodes 0) a.targets = true
  branches : ∀ p ∈ a.branches,
    BranchLands (instrsOf f.nodes) a (groupEnts (a.ents.filter (fun e => e.line != ln.1))) (labelsFrom f.nodes 0) p.1 p.2
  closed : ∀ i ∈ machineJumps (instrsOf f.nodes) (groupEnts (a.ents.filter (fun e => e.line != ln.1))),
    (lookupNat i a.branches).isSome = true

theorem flagsOK_sound (attrs : BitVec 16) (a : AsmFn) (h : flagsOK attrs a = none) :
    (attrs.getLsbD 2 = true → a.nosplit = true) ∧ attrs.getLsbD 1 = a.dupok ∧ attrs.getLsbD 11 = a.topframe ∧
      (attrs.getLsbD 5 || attrs.getLsbD 12) = a.wrapper := by
  unfold flagsOK at h
  split at h
  · simp at h
  · rename_i h1
    split at h
    · simp at h
    · rename_i h2
      split at h
      · simp at h
      · rename_i h3
        split at h
        · simp at h
        · rename_i h4
          refine ⟨?_, by simpa using h2, by simpa using h3, by simpa using h4⟩
          intro hb
          cases hn : a.nosplit with
          | true => rfl
          | false => simp [hb, hn] at h1

/-- **acceptAsmFn_sound.** -/
theorem acceptAsmFn_sound (f : Function) (ln : Nat × List Nat) (a : AsmFn) (h : acceptAsmFn f ln a = none) :
    ObjSays f ln a := by
  unfold acceptAsmFn at h
  split at h
  · simp at h
  · rename_i hsym
    split at h
    · simp at h
    · rename_i hwf
      split at h
      · simp at h
      · rename_i hwa
        split at h
        · simp at h
        · rename_i hargs
          split at h
          · simp at h
          · rename_i hflags
            split at h
            · simp at h
            · rename_i hloc
              simp only at h
              split at h
              · simp at h
              · rename_i hord
                split at h
                · simp at h
                · rename_i hbind
                  split at h
                  · simp at h
                  · rename_i hbr
                    split at h
                    · simp at h
                    · rename_i hclosed
                      obtain ⟨f1, f2, f3, f4⟩ := flagsOK_sound _ _ hflags
                      refine
                        { sym := by simpa using hsym
                          frame_requested := ?_
                          args_requested := ?_
                          args := ?_
                          nosplit := f1, dupok := f2, topframe := f3, wrapper := f4
                          locals := by simpa using hloc
                          order := by simpa using hord
                          binding := by simpa using hbind
                          branches := ?_
                          closed := ?_ }
                      · intro hw
                        have : ¬ (decide (a.wantFrame ≥ 0) && (f.frame != a.wantFrame)) = true := hwf
                        simp only [Bool.and_eq_true, decide_eq_true_eq, bne_iff_ne, ne_eq, not_and, Decidable.not_not] at this
                        exact this hw
                      · intro hw
                        have : ¬ (decide (a.wantArgs ≥ 0) && (f.args != a.wantArgs)) = true := hwa
                        simp only [Bool.and_eq_true, decide_eq_true_eq, bne_iff_ne, ne_eq, not_and, Decidable.not_not] at this
                        exact this hw
                      · have hb : argsOK f.args a.args = true := by simpa using hargs
                        unfold argsOK at hb
                        by_cases hp : f.args > 0
                        · simp only [hp, ↓reduceIte] at hb ⊢
                          simpa using hb
                        · simp only [hp, ↓reduceIte] at hb ⊢
                          simpa using hb
                      · intro p hp
                        have := (firstBad_none _).1 hbr (branchOK (instrsOf f.nodes) a _ (labelsFrom f.nodes 0) p.1 p.2)
                          (List.mem_map.2 ⟨p, hp, rfl⟩)
                        exact branchOK_sound _ _ _ _ _ _ this
                      · intro i hi
                        have := List.find?_eq_none.1 hclosed i hi
                        cases hl : lookupNat i a.branches with
                        | none => simp [hl] at this
                        | some _ => rfl

/-- What the object code of a file must say: one symbol per function, in order, each saying what its function says
(line numbers taken from the text the assembler was given). -/
def ObjFileSays (f : File) (out : Txt) (fns : List AsmFn) : Prop :=
  let lns := fnLineNumbers (lexText out) 1 []
  f.functions.length = fns.length ∧ lns.length = f.functions.length ∧
  All2 (fun (p : Function × (Nat × List Nat)) a => ObjSays p.1 p.2 a) (f.functions.zip lns) fns

/-- **acceptAsm_sound.** -/
theorem acceptAsmE_sound (f : File) (out : Txt) (fns : List AsmFn) (h : acceptAsmE f out fns = none) :
    ObjFileSays f out fns := by
  unfold acceptAsmE at h
  simp only at h
  split at h
  · simp at h
  · rename_i hc
    have hc' : f.functions.length = fns.length ∧ (fnLineNumbers (lexText out) 1 []).length = f.functions.length := by
      simpa using hc
    refine ⟨hc'.1, hc'.2, ?_⟩
    have hlen : (f.functions.zip (fnLineNumbers (lexText out) 1 [])).length = fns.length := by
      simp [List.length_zip, hc'.1, hc'.2]
    have := forall2_of_zipWith (fun (p : Function × (Nat × List Nat)) a => acceptAsmFn p.1 p.2 a) _ fns hlen
      ((firstBad_none _).1 h)
    exact this.imp (fun _ _ hs => acceptAsmFn_sound _ _ _ hs)

theorem acceptAsm_sound (f : File) (out : Txt) (fns : List AsmFn) (h : acceptAsmE f out fns = none) :
    acceptAsm f out fns = "ok" ∧ ObjFileSays f out fns :=
  ⟨verdict_ok_of_none h, acceptAsmE_sound f out fns h⟩

end Avo.Drv.C11

/-! ## the structured reading is exact where tokens are dot-free

The text-level summary `Instr.key` pairs the opcode-with-suffixes token with the joined operand text.  For opcodes
and suffixes without a `.` (all of avo's) the token determines opcode and suffix list: -/

namespace Avo.Print

/-- Each of `x`, `y` is empty or starts with a dot. -/
def DotStart (x : Txt) : Prop := x = [] ∨ x.head? = some '.'

theorem split_at_dot : ∀ (a b x y : Txt), '.' ∉ a → '.' ∉ b → DotStart x → DotStart y →
    a ++ x = b ++ y → a = b ∧ x = y
  | [], [], _, _, _, _, _, _, h => ⟨rfl, by simpa using h⟩
  | [], c :: b, x, y, _, hb, hx, _, h => by
    exfalso
    rcases hx with hx | hx
    · subst hx; simp at h
    · cases x with
      | nil => simp at hx
      | cons d x =>
        have hd : d = '.' := by simpa using hx
        have : d = c := by simpa using (List.cons.inj (by simpa using h)).1
        apply hb; subst hd; subst this; simp
  | c :: a, [], x, y, ha, _, _, hy, h => by
    exfalso
    rcases hy with hy | hy
    · subst hy; simp at h
    · cases y with
      | nil => simp at hy
      | cons d y =>
        have hd : d = '.' := by simpa using hy
        have : c = d := by simpa using (List.cons.inj (by simpa using h)).1
        apply ha; subst hd; subst this; simp
  | c :: a, d :: b, x, y, ha, hb, hx, hy, h => by
    have h' : c = d ∧ a ++ x = b ++ y := by simpa using h
    have := split_at_dot a b x y (fun m => ha (List.mem_cons_of_mem _ m)) (fun m => hb (List.mem_cons_of_mem _ m)) hx hy h'.2
    exact ⟨by rw [h'.1, this.1], this.2⟩

theorem dotStart_sufs (s : List Txt) : DotStart (s.flatMap (fun t => '.' :: t)) := by
  cases s with
  | nil => left; rfl
  | cons t r => right; simp

theorem sufs_inj : ∀ (s₁ s₂ : List Txt), (∀ s ∈ s₁, '.' ∉ s) → (∀ s ∈ s₂, '.' ∉ s) →
    s₁.flatMap (fun t => '.' :: t) = s₂.flatMap (fun t => '.' :: t) → s₁ = s₂
  | [], [], _, _, _ => rfl
  | [], _ :: _, _, _, h => by simp at h
  | _ :: _, [], _, _, h => by simp at h
  | t :: r, u :: v, h1, h2, h => by
    have h' : t ++ r.flatMap (fun t => '.' :: t) = u ++ v.flatMap (fun t => '.' :: t) := by simpa using h
    have := split_at_dot t u _ _ (h1 t (by simp)) (h2 u (by simp)) (dotStart_sufs r) (dotStart_sufs v) h'
    rw [this.1, sufs_inj r v (fun s m => h1 s (List.mem_cons_of_mem _ m)) (fun s m => h2 s (List.mem_cons_of_mem _ m)) this.2]

/-- **ows_inj.** The opcode-with-suffixes token determines the opcode and the suffix list when none of them
contains a dot (the conflation `VADDPD`+`Z` vs. opcode `VADDPD.Z` needs a dot inside an opcode). -/
theorem ows_inj (o₁ o₂ : Txt) (s₁ s₂ : List Txt) (h1 : '.' ∉ o₁) (h2 : '.' ∉ o₂)
    (hs1 : ∀ s ∈ s₁, '.' ∉ s) (hs2 : ∀ s ∈ s₂, '.' ∉ s)
    (h : opcodeWithSuffixes o₁ s₁ = opcodeWithSuffixes o₂ s₂) : o₁ = o₂ ∧ s₁ = s₂ := by
  unfold opcodeWithSuffixes at h
  have := split_at_dot o₁ o₂ _ _ h1 h2 (dotStart_sufs s₁) (dotStart_sufs s₂) h
  exact ⟨this.1, sufs_inj s₁ s₂ hs1 hs2 this.2⟩

example : opcodeWithSuffixes "VADDPD".toList ["Z".toList] = opcodeWithSuffixes "VADDPD.Z".toList [] := by decide

end Avo.Print

/-! ## non-vacuity -/

namespace Avo.Drv.C11
open Avo.Print

/-- The hypotheses of `print_faithful_gen` / `C11_partial` are satisfiable on avo's CURRENT attribute table. -/
theorem exFile_wf_gen : WFFile Avo.Gen.attrname exCfg exFile := by decide

example : parseFile (lexText (render (printFile Avo.Gen.attrname exCfg exFile))) = some (fileSum Avo.Gen.attrname exFile) :=
  (C11_partial exCfg exFile exFile_wf_gen).1

/-- `acceptPrint_sound` applies: the model's rendering of a file with a data section is accepted (kernel-evaluated;
files with functions are evaluated by the compiled driver on every `accept-print` request — `String.splitOn` and
`String.toInt?` in the TEXT-line reader do not reduce in the kernel). -/
def exDataFile : File := ⟨true, ["//go:build amd64".toList], ["textflag.h".toList], [.gl exGl]⟩

theorem exDataFile_accepted :
    acceptPrintE exDataFile (render (printFile Avo.Gen.attrname exCfg exDataFile)) = none := by decide +kernel

example : TextSays exDataFile (render (printFile Avo.Gen.attrname exCfg exDataFile)) :=
  acceptPrintE_sound _ _ exDataFile_accepted

/-- `acceptAsmFn_sound` applies: XORL; l: JNE l; RET with frame 16 (object frame 24 with the saved BP), the TEXT
line on source line 5, the JNE at address 7 jumping to address 7. -/
def exAsmFn : AsmFn := ⟨['f'], 8, 24, true, false, false, false, 16, 8,
  [⟨5, 0, none⟩, ⟨8, 4, none⟩, ⟨9, 7, some 7⟩, ⟨10, 9, none⟩], [(1, "l".toList)], [("l".toList, 1)]⟩

def exObjFn : Function :=
  { name := ['f'], attrs := 4#16, frame := 16, args := 8, isa := [], stub := [], doc := [], pragmas := [],
    nodes := [.instr ⟨"XORL".toList, [], [], false, false⟩, .label "l".toList,
              .instr ⟨"JNE".toList, [], ["l".toList], false, false⟩, .instr ⟨"RET".toList, [], [], true, false⟩] }

theorem exAsmFn_accepted : acceptAsmFn exObjFn (5, [8, 9, 10]) exAsmFn = none := by decide +kernel

example : ObjSays exObjFn (5, [8, 9, 10]) exAsmFn := acceptAsmFn_sound _ _ _ exAsmFn_accepted

/-- …and it rejects: the same object code with the jump landing on the XORL (address 4). -/
example : acceptAsmFn exObjFn (5, [8, 9, 10])
    { exAsmFn with ents := [⟨5, 0, none⟩, ⟨8, 4, none⟩, ⟨9, 7, some 4⟩, ⟨10, 9, none⟩] } = some "bad-branch-target 1" := by
  decide +kernel

/-- …and a relative jump in the code of an instruction that is not a listed branch. -/
example : acceptAsmFn exObjFn (5, [8, 9, 10]) { exAsmFn with branches := [] } = some "bad-unlisted-branch 1" := by
  decide +kernel

end Avo.Drv.C11
