/-
C08, finding F7 proved at the witness (kept apart from Props/C08.lean: when the
table is repaired these statements stop holding, which makes the finding stale
— reported as a note — instead of breaking the property's theorems).
-/
import AvoVerif.Props.C08
namespace Avo.Mov
open Avo Avo.Instr
set_option maxRecDepth 1000000

/-- **F7, proved at the witness**: `Store(xmm, uint32 result)` selects `MOVQ`,
whose memory access is 8 bytes wide: the adjacent 4 bytes are overwritten. -/
theorem mov_ok_fails_at_f7 :
    tUint32 ∈ types ∧ rXMM ∈ regClasses ∧ mFP ∈ memReps ∧
    behave tab .store tUint32 rXMM mFP = some (some oMOVQ) ∧
    (movSem oMOVQ rXMM).map (·.memWidth) = some 8 ∧
    okAt .store tUint32 rXMM mFP = false ∧ okAt .load tUint32 rXMM mFP = false := by
  decide +kernel

/-- hence the full-strength statement does not hold on the unchanged tree -/
theorem mov_ok_statement_false : ¬ mov_ok_statement := by
  intro h
  have w := mov_ok_fails_at_f7
  have := h .store (by simp [dirs]) tUint32 w.1 rXMM w.2.1 mFP w.2.2.1
  rw [w.2.2.2.2.2.1] at this
  cases this

end Avo.Mov
