/-
C08, finding F18 proved at the witness (kept apart from Props/C08.lean: when avo is repaired these statements stop
holding, which makes the finding stale — reported as a note — instead of breaking the property's theorems).
-/
import AvoVerif.Props.C08
namespace Avo.Mov
open Avo Avo.Instr
set_option maxRecDepth 1000000

def tPointer : TypeInfo := ⟨0x506f696e74657207fdb95134, 0, 8⟩   -- unsafe.Pointer: no go/types Info flag, 8 bytes
def rGP64 : RegV := ⟨kindGP, 8, 257, 15, nV⟩

/-- **F18, proved at the witness**: an `unsafe.Pointer` component and a 64-bit general-purpose register: the class
table has a move (`MOVQ`), the real `Load` and `Store` record an error instead. -/
theorem mov_ok_fails_at_f18 :
    tPointer ∈ types ∧ rGP64 ∈ regClasses ∧ mFP ∈ memReps ∧
    mustMove F .load tPointer rGP64 = true ∧ mustMove F .store tPointer rGP64 = true ∧
    behave tab .load tPointer rGP64 mFP = some none ∧ behave tab .store tPointer rGP64 mFP = some none ∧
    okAt .load tPointer rGP64 mFP = false ∧ okAt .store tPointer rGP64 mFP = false := by
  decide +kernel

end Avo.Mov
