/-
C09 — the property as ONE declarative statement about an observed outcome
(`Meets`), the theorem that the model of avo's passes meets it for every node
list (`buildCFG_meets`), the executable acceptor used on the implementation's
own output (`acceptCFG`) and its soundness/completeness (`acceptCFG_sound`,
`acceptCFG_complete`).

Representation: an outcome is either "an error was reported" or a graph given
as, per instruction, the list of successor indices and the list of predecessor
indices.  Go's `nil` successor ("falls off the end") is NOT part of the
outcome: the property prescribes no successor when there is no following
instruction, and every consumer in avo skips `nil`.  Multiplicity and order of
the lists are not part of the property either: everything is stated through
membership.
-/
import AvoVerif.Props.C09
namespace Avo.Func

/-- Successors that are instructions (the `nil` entry dropped). -/
def realSucc (s : Succ) : List Nat := s.filterMap id

theorem mem_realSucc (s : Succ) (t : Nat) : t ∈ realSucc s ↔ some t ∈ s := by
  simp [realSucc, List.mem_filterMap]

theorem getD_map_realSucc (ss : List Succ) (j : Nat) :
    (ss.map realSucc).getD j [] = realSucc (ss.getD j []) := by
  simp only [List.getD, List.getElem?_map]
  cases ss[j]? <;> simp [realSucc]

/-! ## The statement -/

/-- **The successor relation the property prescribes**: instruction `j` has
successor `t` iff `j` is a branch whose label operand names a label whose first
following instruction is `t`, or `j` is neither a return nor an unconditional
jump and `t` is the following instruction (which must exist). -/
def SuccRel (nodes : List Node) (j t : Nat) : Prop :=
  ∃ hj : j < (instrs nodes).length,
    ((instrs nodes)[j].isBranch = true ∧
      ∃ l, (instrs nodes)[j].labelOp = some l ∧ firstInstrAfter l 0 nodes = some t) ∨
    (((instrs nodes)[j].isTerminal || (instrs nodes)[j].isUncond) = false ∧
      t = j + 1 ∧ t < (instrs nodes).length)

/-- The four situations the property wants reported: a duplicate label, a label
with no following instruction, a branch with a non-label target, a branch to an
undefined label (the last two are `badBranch`). -/
def Malformed (nodes : List Node) : Prop :=
  ¬ (labels nodes).Nodup ∨ trailingLabel nodes = true ∨ badBranch nodes

inductive Outcome where
  | err
  | graph (succ pred : List (List Nat))
  deriving Repr, DecidableEq, Inhabited

/-- **C09, declaratively.** An error is reported exactly for malformed
functions; otherwise every instruction has exactly the prescribed successors
and the predecessors are exactly the inverse relation. -/
def Meets (nodes : List Node) : Outcome → Prop
  | .err => Malformed nodes
  | .graph s p =>
    ¬ Malformed nodes ∧ s.length = (instrs nodes).length ∧ p.length = (instrs nodes).length ∧
    (∀ j t, t ∈ s.getD j [] ↔ SuccRel nodes j t) ∧
    (∀ i j, j ∈ p.getD i [] ↔ i ∈ s.getD j [])

def outcomeOf : Except Err Graph → Outcome
  | .error _ => .err
  | .ok g => .graph (g.succ.map realSucc) g.pred

/-! ## The model meets the statement -/

theorem buildCFG_pred (nodes : List Node) (g : Graph) (h : buildCFG nodes = .ok g) :
    g.pred = (List.range (instrs nodes).length).map (predOf g.succ) := by
  unfold buildCFG at h
  cases hm : labelTarget nodes with
  | error e => simp [hm] at h
  | ok m =>
    simp only [hm] at h
    cases hl : succLoop m (instrs nodes).length 0 (instrs nodes) with
    | error e => simp [hl] at h
    | ok ss => simp only [hl] at h; cases h; rfl

/-- **C09 (predecessors, both directions, for the graph the pass builds).**
`j` is recorded as a predecessor of `i` exactly when `i` is a successor of `j`. -/
theorem buildCFG_pred_iff (nodes : List Node) (g : Graph) (h : buildCFG nodes = .ok g) (i j : Nat) :
    j ∈ g.pred.getD i [] ↔ (j < g.succ.length ∧ some i ∈ g.succ.getD j []) := by
  obtain ⟨_, _, hlen, _, _⟩ := buildCFG_ok nodes g h
  rw [buildCFG_pred nodes g h]
  by_cases hi : i < (instrs nodes).length
  · have : (List.map (predOf g.succ) (List.range (instrs nodes).length)).getD i [] = predOf g.succ i := by
      simp [List.getD, hi]
    rw [this]; exact pred_iff g.succ i j
  · have hge : (instrs nodes).length ≤ i := Nat.le_of_not_lt hi
    have : (List.map (predOf g.succ) (List.range (instrs nodes).length)).getD i [] = [] := by
      simp [List.getD, hge]
    rw [this]
    constructor
    · intro hj; cases hj
    · rintro ⟨hj, hs⟩
      exact absurd (buildCFG_succ_in_range nodes g h j (hlen ▸ hj) i hs) hi

theorem buildCFG_succ_iff (nodes : List Node) (g : Graph) (h : buildCFG nodes = .ok g) (j t : Nat) :
    some t ∈ g.succ.getD j [] ↔ SuccRel nodes j t := by
  obtain ⟨_, _, hlen, hsucc, _⟩ := buildCFG_ok nodes g h
  by_cases hj : j < (instrs nodes).length
  · have hs := hsucc j hj
    simp only at hs
    rw [hs, List.mem_append]
    unfold SuccRel
    constructor
    · rintro (hb | hf)
      · refine ⟨hj, Or.inl ?_⟩
        by_cases hbr : (instrs nodes)[j].isBranch = true
        · simp only [hbr, if_true] at hb
          cases hlo : (instrs nodes)[j].labelOp with
          | none => simp [hlo] at hb
          | some l =>
            cases ht : firstInstrAfter l 0 nodes with
            | none => simp [hlo, ht] at hb
            | some t' =>
              have : t = t' := by simpa [hlo, ht] using hb
              exact ⟨hbr, l, rfl, by rw [this]; exact ht⟩
        · simp [hbr] at hb
      · refine ⟨hj, Or.inr ?_⟩
        cases hc : ((instrs nodes)[j].isTerminal || (instrs nodes)[j].isUncond) with
        | true => simp [hc] at hf
        | false =>
          simp only [hc, Bool.false_eq_true, if_false, List.mem_singleton] at hf
          by_cases hn : j + 1 < (instrs nodes).length
          · simp only [hn, if_true, Option.some.injEq] at hf
            exact ⟨rfl, hf, hf ▸ hn⟩
          · simp [hn] at hf
    · rintro ⟨_, (⟨hbr, l, hlo, ht⟩ | ⟨hc, rfl, hn⟩)⟩
      · left; simp [hbr, hlo, ht]
      · right; simp [hc, hn]
  · have hge : g.succ.length ≤ j := by omega
    have : g.succ.getD j [] = [] := by simp [List.getD, hge]
    rw [this]
    constructor
    · intro h; cases h
    · rintro ⟨hj', _⟩; exact absurd hj' hj

/-- **C09 (the whole property for the model).** For EVERY node list the outcome
of `LabelTarget` followed by `CFG` meets the statement. -/
theorem buildCFG_meets (nodes : List Node) : Meets nodes (outcomeOf (buildCFG nodes)) := by
  cases h : buildCFG nodes with
  | error e => exact (buildCFG_err_iff nodes).mp ⟨e, h⟩
  | ok g =>
    have hnm : ¬ Malformed nodes := fun hm => by
      obtain ⟨e, he⟩ := (buildCFG_err_iff nodes).mpr hm
      rw [h] at he; cases he
    obtain ⟨_, _, hlen, _, _⟩ := buildCFG_ok nodes g h
    refine ⟨hnm, by simp [hlen], by simp [buildCFG_pred nodes g h], ?_, ?_⟩
    · intro j t
      rw [getD_map_realSucc, mem_realSucc]
      exact buildCFG_succ_iff nodes g h j t
    · intro i j
      rw [getD_map_realSucc, mem_realSucc, buildCFG_pred_iff nodes g h]
      constructor
      · exact fun hh => hh.2
      · intro hs
        refine ⟨?_, hs⟩
        by_cases hj : j < g.succ.length
        · exact hj
        · have : g.succ.getD j [] = [] := by simp [List.getD, Nat.le_of_not_lt hj]
          rw [this] at hs; cases hs

/-! ## The acceptor -/

def sameSet (a b : List Nat) : Bool := a.all (fun x => b.contains x) && b.all (fun x => a.contains x)

theorem sameSet_iff (a b : List Nat) : sameSet a b = true ↔ ∀ x, x ∈ a ↔ x ∈ b := by
  simp only [sameSet, Bool.and_eq_true, List.all_eq_true, List.contains_iff_mem]
  constructor
  · rintro ⟨h1, h2⟩ x; exact ⟨h1 x, h2 x⟩
  · intro h; exact ⟨fun x hx => (h x).mp hx, fun x hx => (h x).mpr hx⟩

/-- Same length and position-wise the same sets. -/
def sameSets : List (List Nat) → List (List Nat) → Bool
  | [], [] => true
  | a :: as, b :: bs => sameSet a b && sameSets as bs
  | _, _ => false

theorem sameSets_iff : ∀ (a b : List (List Nat)),
    sameSets a b = true ↔ (a.length = b.length ∧ ∀ j x, x ∈ a.getD j [] ↔ x ∈ b.getD j [])
  | [], [] => by simp [sameSets]
  | [], _ :: _ => by simp [sameSets]
  | _ :: _, [] => by simp [sameSets]
  | a :: as, b :: bs => by
    simp only [sameSets, Bool.and_eq_true, sameSet_iff, sameSets_iff as bs, List.length_cons]
    constructor
    · rintro ⟨h0, hl, hr⟩
      refine ⟨by omega, ?_⟩
      intro j x
      cases j with
      | zero => simpa using h0 x
      | succ j => simpa using hr j x
    · rintro ⟨hl, h⟩
      refine ⟨fun x => by simpa using h 0 x, by omega, fun j x => by simpa using h (j + 1) x⟩

/-- **The acceptor**: the implementation's outcome is accepted iff it is the
model's outcome up to order and multiplicity of the successor/predecessor lists. -/
def acceptCFG (nodes : List Node) (o : Outcome) : Bool :=
  match outcomeOf (buildCFG nodes), o with
  | .err, .err => true
  | .graph s p, .graph s' p' => sameSets s s' && sameSets p p'
  | _, _ => false

/-- Soundness: an accepted outcome satisfies the property. -/
theorem acceptCFG_sound (nodes : List Node) (o : Outcome) (h : acceptCFG nodes o = true) : Meets nodes o := by
  have hm := buildCFG_meets nodes
  unfold acceptCFG at h
  cases hmo : outcomeOf (buildCFG nodes) with
  | err =>
    rw [hmo] at h hm
    cases o with
    | err => exact hm
    | graph s' p' => simp at h
  | graph s p =>
    rw [hmo] at h hm
    cases o with
    | err => simp at h
    | graph s' p' =>
      simp only [Bool.and_eq_true, sameSets_iff] at h
      obtain ⟨⟨hsl, hs⟩, ⟨hpl, hp⟩⟩ := h
      obtain ⟨hnm, hl1, hl2, hsr, hpr⟩ := hm
      refine ⟨hnm, by omega, by omega, ?_, ?_⟩
      · intro j t; rw [← hs j t]; exact hsr j t
      · intro i j; rw [← hp i j, ← hs j i]; exact hpr i j

/-- Completeness: the statement determines the outcome up to order and
multiplicity, so the acceptor rejects nothing that satisfies the property. -/
theorem acceptCFG_complete (nodes : List Node) (o : Outcome) (h : Meets nodes o) : acceptCFG nodes o = true := by
  have hm := buildCFG_meets nodes
  unfold acceptCFG
  cases hmo : outcomeOf (buildCFG nodes) with
  | err =>
    rw [hmo] at hm
    cases o with
    | err => rfl
    | graph s' p' => exact absurd hm h.1
  | graph s p =>
    rw [hmo] at hm
    cases o with
    | err => exact absurd h hm.1
    | graph s' p' =>
      obtain ⟨_, hl1, hl2, hsr, hpr⟩ := hm
      obtain ⟨_, hl1', hl2', hsr', hpr'⟩ := h
      simp only [Bool.and_eq_true, sameSets_iff]
      refine ⟨⟨by omega, fun j x => by rw [hsr j x, hsr' j x]⟩, ⟨by omega, fun i j => ?_⟩⟩
      rw [hpr i j, hpr' i j, hsr j i, hsr' j i]

/-! ## Non-vacuity -/

/-- a loop with a conditional back edge, a `CALL` carrying a label (not a branch: no edge), a trailing return;
successor/predecessor lists given in a different order than the model produces them -/
example : acceptCFG [.label "top", .instr ⟨false, false, false, some "top"⟩, .instr ⟨true, true, false, some "top"⟩,
    .instr ⟨false, false, true, none⟩] (.graph [[1], [2, 0], []] [[1], [0], [1]]) = true := by decide

/-- the last instruction falls off the end: no successor -/
example : acceptCFG [.instr ⟨false, false, false, none⟩] (.graph [[]] [[]]) = true := by decide

/-- the empty function is well-formed and has the empty graph -/
example : acceptCFG [] (.graph [] []) = true := by decide
example : acceptCFG [.label "a"] .err = true := by decide
example : acceptCFG [.instr ⟨true, false, false, some "A"⟩, .label "a", .instr ⟨false, false, true, none⟩] .err = true := by decide
/-- a missing edge is rejected -/
example : acceptCFG [.label "a", .instr ⟨true, false, false, some "a"⟩] (.graph [[]] [[]]) = false := by decide

example : SuccRel [.label "a", .instr ⟨true, false, false, some "a"⟩] 0 0 :=
  ⟨by decide, Or.inl ⟨rfl, "a", rfl, rfl⟩⟩

end Avo.Func
