/-
C04 — Declared reads/writes of every instruction form cover what the CPU does.

What is PROVED here (for all inputs):
* `covers_sound`: the executable judgement `covers` answered by the driver is
  exactly the lane-wise statement "every observed (register, byte lane) is a
  declared one"; `judge_iff` is the same for the pair (reads, writes), i.e. the
  property as stated in properties.jsonl for one measured instance.
* `mem_undeclared`: the lanes the driver reports are exactly the observed and
  not declared ones; `undeclared_nil_iff`: it reports none iff `covers` holds.
* `covers_specReads` / `covers_specWrites`: composed with the use/def
  specification of C02 (`specReads`/`specWrites`: operand actions, implicit
  operands, mask registers, merge destinations, address registers of written
  memory operands, the self-cancelling exception, 32→64 widening): the
  judgement on avo's declared sets says that every observed location is a
  register of a read/written operand of the form.

What is MEASURED (not proved): the observed sets themselves — produced by
executing the assembled instruction on the host CPU from randomised register
states (harness/c04.go, c04child/runner.go.txt).
-/
import AvoVerif.Model.Covers
import AvoVerif.Model.UseDef
import AvoVerif.Lemmas.MaskSet
namespace Avo.RW
open Avo.MaskSet Avo.Reg Avo.UseDef

theorem and_eq_iff (a m : Nat) : a &&& m = m ↔ ∀ i, m.testBit i = true → a.testBit i = true := by
  constructor
  · intro h i hm
    have := congrArg (fun x => x.testBit i) h
    simp only [Nat.testBit_and, hm, Bool.and_true] at this
    exact this
  · intro h
    apply Nat.eq_of_testBit_eq; intro i
    simp only [Nat.testBit_and]
    cases hm : m.testBit i
    · simp
    · simp [h i hm]

theorem mem_eq_any (o : MS) (id lane : Nat) :
    mem o id lane = o.any (fun p => p.1 == id && p.2.testBit lane) := by
  induction o with
  | nil => simp [mem_nil]
  | cons p t ih =>
    rcases p with ⟨k, v⟩
    rw [mem_cons, ih]; simp [List.any_cons]

/-- **Soundness and completeness of the judgement.** `covers decl obs` holds
exactly when every byte lane of every register in `obs` is in `decl`. -/
theorem covers_sound (decl obs : MS) :
    covers decl obs = true ↔ ∀ id lane, mem obs id lane = true → mem decl id lane = true := by
  unfold covers
  rw [List.all_eq_true]
  constructor
  · intro h id lane hm
    rw [mem_eq_any, List.any_eq_true] at hm
    obtain ⟨p, hp, hpl⟩ := hm
    have hpl' := Bool.and_eq_true _ _ |>.mp hpl
    have hid : p.1 = id := by simpa using hpl'.1
    have := h p hp
    have he : get decl p.1 &&& p.2 = p.2 := by simpa using this
    have := (and_eq_iff _ _).mp he lane hpl'.2
    rw [hid] at this
    exact this
  · intro h p hp
    have : get decl p.1 &&& p.2 = p.2 := by
      rw [and_eq_iff]
      intro i hi
      have hm : mem obs p.1 i = true := by
        rw [mem_eq_any, List.any_eq_true]
        exact ⟨p, hp, by simp [hi]⟩
      exact h p.1 i hm
    simpa using this

/-- The property for one instance: observed reads ⊆ declared reads and observed
writes ⊆ declared writes, lane by lane. -/
def Covered (declR declW obsR obsW : MS) : Prop :=
  (∀ id lane, mem obsR id lane = true → mem declR id lane = true) ∧
  (∀ id lane, mem obsW id lane = true → mem declW id lane = true)

theorem judge_iff (declR declW obsR obsW : MS) :
    judge declR declW obsR obsW = true ↔ Covered declR declW obsR obsW := by
  unfold judge Covered
  rw [Bool.and_eq_true, covers_sound, covers_sound]

/-- The lanes the driver names are exactly the observed-and-undeclared ones. -/
theorem mem_undeclared (decl obs : MS) (id lane : Nat) :
    mem (undeclared decl obs) id lane = (mem obs id lane && !mem decl id lane) := by
  induction obs with
  | nil => simp [undeclared, mem_nil]
  | cons p t ih =>
    rcases p with ⟨k, v⟩
    have ih' : mem (List.filterMap (fun p : Nat × Nat =>
        if clear p.2 (get decl p.1) = 0 then none else some (p.1, clear p.2 (get decl p.1))) t) id lane
        = (mem t id lane && !mem decl id lane) := by simpa [undeclared] using ih
    simp only [undeclared, List.filterMap_cons]
    by_cases hz : clear v (get decl k) = 0
    · simp only [hz, if_true]
      rw [ih', mem_cons]
      by_cases hk : k = id
      · subst hk
        have := congrArg (fun x => x.testBit lane) hz
        simp only [testBit_clear, Nat.zero_testBit] at this
        unfold mem at *
        cases hv : v.testBit lane <;> cases hd : (get decl k).testBit lane <;> simp_all
      · have : (k == id) = false := by simpa using hk
        simp [this]
    · simp only [hz, if_false]
      rw [mem_cons, ih', mem_cons]
      by_cases hk : k = id
      · subst hk
        simp only [testBit_clear, beq_self_eq_true, Bool.true_and]
        unfold mem
        cases v.testBit lane <;> cases (get decl k).testBit lane <;> simp
      · have : (k == id) = false := by simpa using hk
        simp [this]

/-- The driver reports no lane exactly when the judgement holds. -/
theorem undeclared_nil_iff (decl obs : MS) : undeclared decl obs = [] ↔ covers decl obs = true := by
  unfold undeclared covers
  rw [List.filterMap_eq_nil_iff, List.all_eq_true]
  constructor
  · intro h p hp
    have := h p hp
    have hz : clear p.2 (get decl p.1) = 0 := by
      by_cases hz : clear p.2 (get decl p.1) = 0
      · exact hz
      · simp [hz] at this
    have : get decl p.1 &&& p.2 = p.2 := by
      rw [and_eq_iff]; intro i hi
      have := congrArg (fun x => x.testBit i) hz
      simp only [testBit_clear, hi, Nat.zero_testBit, Bool.true_and] at this
      simpa using this
    simpa using this
  · intro h p hp
    have := h p hp
    have he : get decl p.1 &&& p.2 = p.2 := by simpa using this
    have hz : clear p.2 (get decl p.1) = 0 := by
      apply Nat.eq_of_testBit_eq; intro i
      simp only [testBit_clear, Nat.zero_testBit]
      cases hi : p.2.testBit i
      · simp
      · simp [(and_eq_iff _ _).mp he i hi]
    simp [hz]

/-! ### Composition with the use/def specification (C02) -/

/-- Against a set built from a register list: every observed lane belongs to
one of the registers. -/
theorem covers_ofRegs (rs : List R) (obs : MS) :
    covers (ofRegs rs) obs = true ↔
      ∀ id lane, mem obs id lane = true → ∃ r ∈ rs, r.id = id ∧ r.mask.testBit lane = true := by
  rw [covers_sound]
  constructor
  · intro h id lane hm
    have := h id lane hm
    rw [mem_ofRegs, List.any_eq_true] at this
    obtain ⟨r, hr, hb⟩ := this
    have hb' := Bool.and_eq_true _ _ |>.mp hb
    exact ⟨r, hr, by simpa using hb'.1, hb'.2⟩
  · intro h id lane hm
    obtain ⟨r, hr, hid, hl⟩ := h id lane hm
    rw [mem_ofRegs, List.any_eq_true]
    exact ⟨r, hr, by simp [hid, hl]⟩

/-- With avo's declared reads equal to the specification of C02 (that equality
is the `usedef` request answered exactly by the same driver), the judgement
says: every register lane the CPU was seen to read is a lane of a register of
a read operand (explicit or implicit; mask registers and merge destinations
are read operands) outside the self-cancelling pair, or of an address register
of a written memory operand. -/
theorem covers_specReads (cancelling : Bool) (ops : List AOp) (obsR : MS) :
    covers (ofRegs (specReads cancelling ops)) obsR = true ↔
      ∀ id lane, mem obsR id lane = true →
        ∃ r ∈ specReads cancelling ops, r.id = id ∧ r.mask.testBit lane = true :=
  covers_ofRegs _ _

/-- Likewise for writes: every register lane the CPU was seen to modify is a
lane of a written register operand, a 32-bit general purpose destination
counting as the 64-bit register. -/
theorem covers_specWrites (ops : List AOp) (obsW : MS) :
    covers (ofRegs (specWrites ops)) obsW = true ↔
      ∀ id lane, mem obsW id lane = true →
        ∃ r ∈ specWrites ops, r.id = id ∧ r.mask.testBit lane = true :=
  covers_ofRegs _ _

/-! ### The two outcome acceptors of the driver (`accept-exec`, `accept-build`) -/

/-- `accept-exec` answers `ok` exactly for the outcome `executed`. -/
theorem executes_sound (o : String) : executes o = true ↔ o = "executed" := by
  unfold executes; exact beq_iff_eq

/-- `accept-build` answers `ok` exactly for the outcome `built`. -/
theorem builds_sound (o : String) : builds o = true ↔ o = "built" := by
  unfold builds; exact beq_iff_eq

example : executes "SIGILL" = false := by decide
example : builds "panic_in_build" = false := by decide

/-! ### Non-vacuity and witnesses (concrete, evaluated by the kernel) -/

/-- `ADDQ CX, AX` as measured: reads RAX and RCX, writes RAX: covered. -/
example : judge [(256, 15), (65792, 15)] [(256, 15)] [(256, 15), (65792, 15)] [(256, 15)] = true := by decide
/-- hypotheses of `covers_sound` are satisfiable with a non-trivial observation -/
example : ∃ d o, o ≠ [] ∧ covers d o = true := ⟨[(256, 15)], [(256, 3)], by decide, by decide⟩
/-- `CMPXCHGQ DX, (BP)` as avo declares it (reads RDX, RBP; writes nothing) against the
measured write of RAX: not covered, and the driver names RAX lanes 0..3. -/
example : judge [(131328, 15), (327936, 15)] [] [(327936, 3)] [(256, 15)] = false := by decide
example : undeclared [] [(256, 15)] = [(256, 15)] := by decide
/-- DESIGN §6 F12 at a witness: `VADDPD (BX), X7, X3` declares X3 (mask 0x1f) but the CPU
also clears bytes 16..63 of Z3 (lanes 5 and 6). -/
example : covers [(197120, 31)] [(197120, 127)] = false := by decide
example : undeclared [(197120, 31)] [(197120, 127)] = [(197120, 96)] := by decide
/-- a 32-bit write counts as the 64-bit register: `MOVL BX, BX` (declared R 0x7 / W 0xf; observed W lane 3) -/
example : specWrites [⟨1, .reg ⟨196864, 7⟩ true⟩, ⟨2, .reg ⟨196864, 7⟩ true⟩] = [⟨196864, 15⟩] := by decide
example : covers (ofRegs (specWrites [⟨1, .reg ⟨196864, 7⟩ true⟩, ⟨2, .reg ⟨196864, 7⟩ true⟩])) [(196864, 8)] = true := by decide

end Avo.RW
