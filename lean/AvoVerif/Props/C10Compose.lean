/-
C10 — label removal for whole runs (`pruneLabels_run`) and the three clean-up
passes composed in `Compile`'s order (`cleanup_halts_partial`).

Semantics as in `C10Sim`: `step` on (remaining node list, machine state);
labels and comments are silent steps.  Label removal is a stuttering
simulation under `step`: the original spends a silent step on a label that the
pruned function no longer has.
-/
import AvoVerif.Props.C10SelfMove
namespace Avo.Cleanup
open Avo.Func

variable {σ : Type}

/-- On an instruction, `step` commutes with label removal: the label of an
executed branch is referenced, hence kept, and denotes the same continuation. -/
theorem pruneLabels_step_instr (exec : XInstr → σ → σ × Bool) (whole pre : List XNode) (i : XInstr)
    (rest : List XNode) (hc : whole = pre ++ XNode.instr i :: rest) (s : σ) :
    step exec (pruneLabels whole) ((XNode.instr i :: rest).filter (keepNode whole), s) =
      (step exec whole (XNode.instr i :: rest, s)).map (fun r => (r.1.filter (keepNode whole), r.2)) := by
  have hf : (XNode.instr i :: rest).filter (keepNode whole) = XNode.instr i :: rest.filter (keepNode whole) := by
    simp [List.filter_cons, keepNode]
  rw [hf]
  simp only [step]
  split
  · rfl
  · split
    · rename_i hbr
      cases ht : i.cf.target with
      | none => rfl
      | some l =>
        have hmem : XNode.instr i ∈ whole := by rw [hc]; simp
        have hb : i.cf.isBranch = true := by
          simp only [Bool.and_eq_true] at hbr; exact hbr.1
        have href : referenced whole l = true := by
          unfold referenced
          exact List.any_eq_true.mpr ⟨.instr i, hmem, by simp [hb, ht]⟩
        simp only [pruneLabels_eq, after_filter whole l href, Option.map_map]
        rfl
    · rfl

/-- **C10 (labels), all executions: stuttering simulation.** Whatever point and
state the original reaches in `k` steps, the function without its unreferenced
labels reaches the corresponding point in the same state in `k' ≤ k` steps (the
difference being the silent steps over deleted labels). -/
theorem pruneLabels_run (exec : XInstr → σ → σ × Bool) (whole : List XNode) :
    ∀ (k : Nat) (pre c : List XNode) (s : σ) (d : List XNode) (t : σ), whole = pre ++ c →
      runK exec whole k (c, s) = some (d, t) →
      ∃ k', k' ≤ k ∧
        runK exec (pruneLabels whole) k' (c.filter (keepNode whole), s) = some (d.filter (keepNode whole), t)
  | 0, _, c, s, d, t, _, h => by
    simp only [runK, Option.some.injEq, Prod.mk.injEq] at h
    obtain ⟨h1, h2⟩ := h
    subst h1; subst h2
    exact ⟨0, Nat.le_refl _, rfl⟩
  | k + 1, pre, c, s, d, t, hc, h => by
    cases hs : step exec whole (c, s) with
    | none => rw [runK_succ_none exec whole k _ hs] at h; cases h
    | some st' =>
      rw [runK_succ_some exec whole k _ st' hs] at h
      obtain ⟨pre', hp'⟩ := step_suffix exec whole pre c hc s st' hs
      obtain ⟨k', hk', hrun⟩ := pruneLabels_run exec whole k pre' st'.1 st'.2 d t hp' h
      match c, hc, hs with
      | [], _, hs => simp [step] at hs
      | .comment :: rest, _, hs =>
        simp only [step, Option.some.injEq] at hs
        subst hs
        refine ⟨k' + 1, by omega, ?_⟩
        have hf : (XNode.comment :: rest).filter (keepNode whole) = XNode.comment :: rest.filter (keepNode whole) := by
          simp [List.filter_cons, keepNode]
        rw [hf, runK_succ_some exec (pruneLabels whole) k' _ (rest.filter (keepNode whole), s) (by simp [step])]
        exact hrun
      | .label l :: rest, _, hs =>
        simp only [step, Option.some.injEq] at hs
        subst hs
        by_cases hk : referenced whole l = true
        · refine ⟨k' + 1, by omega, ?_⟩
          have hf : (XNode.label l :: rest).filter (keepNode whole) = XNode.label l :: rest.filter (keepNode whole) := by
            simp [keepNode, hk]
          rw [hf, runK_succ_some exec (pruneLabels whole) k' _ (rest.filter (keepNode whole), s) (by simp [step])]
          exact hrun
        · refine ⟨k', by omega, ?_⟩
          have hf : (XNode.label l :: rest).filter (keepNode whole) = rest.filter (keepNode whole) := by
            simp [keepNode, hk]
          rw [hf]; exact hrun
      | .instr i :: rest, hc, hs =>
        have hst := pruneLabels_step_instr exec whole pre i rest hc s
        rw [hs] at hst
        simp only [Option.map_some] at hst
        refine ⟨k' + 1, by omega, ?_⟩
        rw [runK_succ_some exec (pruneLabels whole) k' _ _ hst]
        exact hrun

/-- Where the original halts, the function without its unreferenced labels halts. -/
theorem pruneLabels_step_none (exec : XInstr → σ → σ × Bool) (whole pre d : List XNode)
    (hc : whole = pre ++ d) (t : σ) (h : step exec whole (d, t) = none) :
    step exec (pruneLabels whole) (d.filter (keepNode whole), t) = none := by
  match d, hc, h with
  | [], _, _ => simp [step]
  | .comment :: rest, _, h => simp [step] at h
  | .label l :: rest, _, h => simp [step] at h
  | .instr i :: rest, hc, h =>
    have hst := pruneLabels_step_instr exec whole pre i rest hc t
    rw [h] at hst
    simpa using hst

/-! ## Halting runs and the composition of the three passes -/

/-- From the function entry in state `s` the function halts (return, end of the
function, or a stuck indirect branch) in state `t`. -/
def HaltsWith (exec : XInstr → σ → σ × Bool) (W : List XNode) (s t : σ) : Prop :=
  ∃ k d, runK exec W k (W, s) = some (d, t) ∧ step exec W (d, t) = none

theorem pruneJumps_halts (exec : XInstr → σ → σ × Bool)
    (hjmp : ∀ i s, i.cf.isBranch = true → i.cf.isCond = false → exec i s = (s, true))
    (W : List XNode) (hnd : (xlabels W).Nodup)
    (hnt : ∀ i, XNode.instr i ∈ W → i.cf.isBranch = true → i.cf.isTerminal = false) (s t : σ)
    (h : HaltsWith exec W s t) : HaltsWith exec (pruneJumps W) s t := by
  obtain ⟨k, d, hrun, hhalt⟩ := h
  obtain ⟨pre', hp'⟩ := runK_suffix exec W k [] W s (d, t) rfl hrun
  refine ⟨k, pruneJumps d, ?_, ?_⟩
  · rw [pruneJumps_run exec hjmp W hnd hnt k [] W s rfl, hrun]; rfl
  · rw [pruneJumps_step exec hjmp W hnd hnt pre' d hp' t, hhalt]; rfl

theorem pruneLabels_halts (exec : XInstr → σ → σ × Bool) (W : List XNode) (s t : σ)
    (h : HaltsWith exec W s t) : HaltsWith exec (pruneLabels W) s t := by
  obtain ⟨k, d, hrun, hhalt⟩ := h
  obtain ⟨pre', hp'⟩ := runK_suffix exec W k [] W s (d, t) rfl hrun
  obtain ⟨k', _, hrun'⟩ := pruneLabels_run exec W k [] W s d t rfl hrun
  refine ⟨k', d.filter (keepNode W), ?_, pruneLabels_step_none exec W pre' d hp' t hhalt⟩
  rw [pruneLabels_eq]; rw [pruneLabels_eq] at hrun'; exact hrun'

theorem pruneSelfMoves_haltsWith (exec : XInstr → σ → σ × Bool)
    (hself : ∀ i s, isSelfMove i = true → exec i s = (s, false))
    (W : List XNode)
    (hcf : ∀ i, XNode.instr i ∈ W → isSelfMove i = true → i.cf.isTerminal = false ∧ i.cf.isBranch = false)
    (s t : σ) (h : HaltsWith exec W s t) : HaltsWith exec (pruneSelfMoves W) s t := by
  obtain ⟨k, d, hrun, hhalt⟩ := h
  obtain ⟨k', d', _, _, _, hrun', hhalt'⟩ :=
    pruneSelfMoves_halts exec hself W hcf k [] W (pruneSelfMoves W) s rfl (Rel_entry W) d t hrun hhalt
  exact ⟨k', d', hrun', hhalt'⟩

theorem pruneSelfMovesAux_sublist : ∀ ns : List XNode, (pruneSelfMovesAux ns).Sublist ns
  | [] => List.Sublist.refl _
  | .label l :: r => by
    unfold pruneSelfMovesAux; exact (pruneSelfMovesAux_sublist r).cons_cons _
  | .comment :: r => by
    unfold pruneSelfMovesAux; exact (pruneSelfMovesAux_sublist r).cons_cons _
  | .instr i :: rest => by
    unfold pruneSelfMovesAux
    by_cases h : isSelfMove i = true
    · simp only [h, if_true]
      cases rest with
      | nil => exact List.Sublist.cons _ (List.Sublist.refl _)
      | cons n r' => exact ((pruneSelfMovesAux_sublist r').cons_cons n).cons _
    · simp only [h]; exact (pruneSelfMovesAux_sublist rest).cons_cons _

theorem pruneSelfMoves_sublist (ns : List XNode) : (pruneSelfMoves ns).Sublist ns := pruneSelfMovesAux_sublist ns

/-! ### Only the semantics of the function's own instructions matters -/

theorem step_congr (exec exec' : XInstr → σ → σ × Bool) (W pre c : List XNode) (hc : W = pre ++ c)
    (he : ∀ i, XNode.instr i ∈ W → exec i = exec' i) (s : σ) :
    step exec W (c, s) = step exec' W (c, s) := by
  match c, hc with
  | [], _ => rfl
  | .label _ :: _, _ => rfl
  | .comment :: _, _ => rfl
  | .instr i :: rest, hc =>
    have : exec i = exec' i := he i (by rw [hc]; simp)
    simp only [step, this]

theorem runK_congr (exec exec' : XInstr → σ → σ × Bool) (W : List XNode)
    (he : ∀ i, XNode.instr i ∈ W → exec i = exec' i) :
    ∀ (k : Nat) (pre c : List XNode) (s : σ), W = pre ++ c → runK exec W k (c, s) = runK exec' W k (c, s)
  | 0, _, _, _, _ => rfl
  | k + 1, pre, c, s, hc => by
    simp only [runK]
    rw [← step_congr exec exec' W pre c hc he s]
    cases hs : step exec W (c, s) with
    | none => rfl
    | some st' =>
      obtain ⟨pre', hp'⟩ := step_suffix exec W pre c hc s st' hs
      exact runK_congr exec exec' W he k pre' st'.1 st'.2 hp'

theorem HaltsWith_congr (exec exec' : XInstr → σ → σ × Bool) (W : List XNode)
    (he : ∀ i, XNode.instr i ∈ W → exec i = exec' i) (s t : σ)
    (h : HaltsWith exec W s t) : HaltsWith exec' W s t := by
  obtain ⟨k, d, hrun, hhalt⟩ := h
  obtain ⟨pre', hp'⟩ := runK_suffix exec W k [] W s (d, t) rfl hrun
  refine ⟨k, d, ?_, ?_⟩
  · rw [← runK_congr exec exec' W he k [] W s rfl]; exact hrun
  · rw [← step_congr exec exec' W pre' d hp' he t]; exact hhalt

/-- The clean-up part of `Compile`, in `Compile`'s order (`C10Tables.compile_order`). -/
def cleanup (W : List XNode) : List XNode := pruneSelfMoves (pruneLabels (pruneJumps W))

theorem mem_pruneLabels_instr (W : List XNode) (i : XInstr) (h : XNode.instr i ∈ pruneLabels W) : XNode.instr i ∈ W := by
  rw [pruneLabels_eq] at h; exact (List.mem_filter.mp h).1

/-- **C10, the three passes together (partial).** Let `exec` be any instruction
semantics and `W` a function with pairwise distinct labels such that, for the
instructions OF `W`: an unconditional jump changes no state and is taken
(`hjmp`), a self-move the pass would delete changes no state and falls through
(`hself`, see `hself_of_execMov`), no branch is a return (`hnt`) and no such
self-move is a branch or a return (`hcf`, see `C10Tables.selfMove_not_cf`).
Then for every initial state `s`: if `W` halts in state `t`, the cleaned-up
function halts in the same state `t`.

(The hypotheses are about the instructions of `W` only: stated for ALL
instruction records, `hjmp` and `hself` would contradict each other on a record
that is flagged as a jump and looks like a self-move.)

Missing for the full statement: the converse (the cleaned-up function halts ⇒
the original halts in the same state; available per pass for jumps
(`pruneJumps_run` is an equality) and self-moves (`pruneSelfMoves_step_none_conv`,
`pruneSelfMoves_run`'s step bound) but not composed), and a statement about
taken branches without label (they halt both programs). -/
theorem cleanup_halts_partial (exec : XInstr → σ → σ × Bool) (W : List XNode)
    (hjmp : ∀ i s, XNode.instr i ∈ W → i.cf.isBranch = true → i.cf.isCond = false → exec i s = (s, true))
    (hself : ∀ i s, XNode.instr i ∈ W → isSelfMove i = true → exec i s = (s, false))
    (hnd : (xlabels W).Nodup)
    (hnt : ∀ i, XNode.instr i ∈ W → i.cf.isBranch = true → i.cf.isTerminal = false)
    (hcf : ∀ i, XNode.instr i ∈ W → isSelfMove i = true → i.cf.isTerminal = false ∧ i.cf.isBranch = false)
    (s t : σ) (h : HaltsWith exec W s t) : HaltsWith exec (cleanup W) s t := by
  -- stage 1: jumps, with the semantics made total on jumps
  let exec1 : XInstr → σ → σ × Bool := fun i s => if i.cf.isBranch = true ∧ i.cf.isCond = false then (s, true) else exec i s
  have he1 : ∀ i, XNode.instr i ∈ W → exec i = exec1 i := by
    intro i hi; funext s'
    by_cases hb : i.cf.isBranch = true ∧ i.cf.isCond = false
    · simp only [exec1, hb, and_self, if_true]; exact hjmp i s' hi hb.1 hb.2
    · simp [exec1, hb]
  have hj1 : ∀ i s', i.cf.isBranch = true → i.cf.isCond = false → exec1 i s' = (s', true) := by
    intro i s' h1 h2; simp [exec1, h1, h2]
  have h1 := pruneJumps_halts exec1 hj1 W hnd hnt s t (HaltsWith_congr exec exec1 W he1 s t h)
  have hsub1 : ∀ i, XNode.instr i ∈ pruneJumps W → XNode.instr i ∈ W := fun i hi => (pruneJumps_sublist W).subset hi
  have h1' : HaltsWith exec (pruneJumps W) s t :=
    HaltsWith_congr exec1 exec (pruneJumps W) (fun i hi => (he1 i (hsub1 i hi)).symm) s t h1
  -- stage 2: labels
  have h2 := pruneLabels_halts exec (pruneJumps W) s t h1'
  have hsub2 : ∀ i, XNode.instr i ∈ pruneLabels (pruneJumps W) → XNode.instr i ∈ W :=
    fun i hi => hsub1 i (mem_pruneLabels_instr _ i hi)
  -- stage 3: self-moves, with the semantics made total on self-moves
  let exec3 : XInstr → σ → σ × Bool := fun i s => if isSelfMove i = true then (s, false) else exec i s
  have he3 : ∀ i, XNode.instr i ∈ pruneLabels (pruneJumps W) → exec i = exec3 i := by
    intro i hi; funext s'
    by_cases hm : isSelfMove i = true
    · simp only [exec3, hm, if_true]; exact hself i s' (hsub2 i hi) hm
    · simp [exec3, hm]
  have hs3 : ∀ i s', isSelfMove i = true → exec3 i s' = (s', false) := by
    intro i s' hm; simp [exec3, hm]
  have h3 := pruneSelfMoves_haltsWith exec3 hs3 (pruneLabels (pruneJumps W))
    (fun i hi => hcf i (hsub2 i hi)) s t (HaltsWith_congr exec exec3 _ he3 s t h2)
  have hsub3 : ∀ i, XNode.instr i ∈ cleanup W → XNode.instr i ∈ pruneLabels (pruneJumps W) := by
    intro i hi
    have : (pruneSelfMoves (pruneLabels (pruneJumps W))).Sublist (pruneLabels (pruneJumps W)) := pruneSelfMoves_sublist _
    exact this.subset hi
  exact HaltsWith_congr exec3 exec (cleanup W) (fun i hi => (he3 i (hsub3 i hi)).symm) s t h3

/-! ## Non-vacuity: the example of `C10SelfMove` with a jump to the next label and a dangling label -/

/-- `JE L; MOVQ AX, AX; JMP M; M: ADDQ; D: L: RET` -/
def exProg2 : List XNode :=
  [.instr ⟨0, ⟨true, true, false, some "L"⟩, "JE", []⟩,
   .instr ⟨1, ⟨false, false, false, none⟩, "MOVQ", [.reg ⟨256, 15⟩, .reg ⟨256, 15⟩]⟩,
   .instr ⟨5, ⟨true, false, false, some "M"⟩, "JMP", []⟩,
   .label "M",
   .instr ⟨2, ⟨false, false, false, none⟩, "ADDQ", []⟩,
   .label "D",
   .label "L",
   .instr ⟨3, ⟨false, false, true, none⟩, "RET", []⟩]

/-- counter machine of `C10SelfMove.exExec`, with `JMP` always taken -/
def exExec2 (i : XInstr) (s : Nat) : Nat × Bool :=
  if i.opcode == "JMP" then (s, true) else exExec i s

example : cleanup exProg2 =
    [.instr ⟨0, ⟨true, true, false, some "L"⟩, "JE", []⟩,
     .instr ⟨2, ⟨false, false, false, none⟩, "ADDQ", []⟩,
     .label "L",
     .instr ⟨3, ⟨false, false, true, none⟩, "RET", []⟩] := by decide

/-- The hypotheses of `cleanup_halts_partial` are satisfiable together: it applies to the example. -/
example (s t : Nat) (h : HaltsWith exExec2 exProg2 s t) : HaltsWith exExec2 (cleanup exProg2) s t := by
  refine cleanup_halts_partial exExec2 exProg2 ?hj ?hs (by decide) ?hnt ?hcf s t h
  case hj =>
    intro i s' hm
    simp only [exProg2, List.mem_cons, XNode.instr.injEq, List.not_mem_nil, or_false, reduceCtorEq,
      false_or] at hm
    rcases hm with rfl | rfl | rfl | rfl | rfl <;>
      first
      | decide
      | (intro h1; exact absurd h1 (by decide))
      | (intro h1 h2; exact absurd h2 (by decide))
      | (intros; rfl)
  case hs =>
    intro i s' hm
    simp only [exProg2, List.mem_cons, XNode.instr.injEq, List.not_mem_nil, or_false, reduceCtorEq,
      false_or] at hm
    rcases hm with rfl | rfl | rfl | rfl | rfl <;>
      first
      | decide
      | (intro h1; exact absurd h1 (by decide))
      | (intro h1 h2; exact absurd h2 (by decide))
      | (intros; rfl)
  case hnt =>
    intro i hm
    simp only [exProg2, List.mem_cons, XNode.instr.injEq, List.not_mem_nil, or_false, reduceCtorEq,
      false_or] at hm
    rcases hm with rfl | rfl | rfl | rfl | rfl <;>
      first
      | decide
      | (intro h1; exact absurd h1 (by decide))
      | (intro h1 h2; exact absurd h2 (by decide))
      | (intros; rfl)
  case hcf =>
    intro i hm
    simp only [exProg2, List.mem_cons, XNode.instr.injEq, List.not_mem_nil, or_false, reduceCtorEq,
      false_or] at hm
    rcases hm with rfl | rfl | rfl | rfl | rfl <;>
      first
      | decide
      | (intro h1; exact absurd h1 (by decide))
      | (intro h1 h2; exact absurd h2 (by decide))
      | (intros; rfl)

/-- the original halts in state 6 from state 5 … -/
example : HaltsWith exExec2 exProg2 5 6 :=
  ⟨6, [.instr ⟨3, ⟨false, false, true, none⟩, "RET", []⟩], by decide, by decide⟩
/-- … and so does the cleaned-up function (in fewer steps) -/
example : HaltsWith exExec2 (cleanup exProg2) 5 6 :=
  ⟨3, [.instr ⟨3, ⟨false, false, true, none⟩, "RET", []⟩], by decide, by decide⟩

end Avo.Cleanup
