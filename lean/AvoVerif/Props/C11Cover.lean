/-
C11, measured half, data symbols of the object file: what the answer `ok` of the
`accept-objdata` acceptor (Drv/C11 `acceptObjDataE`) means, declaratively.

`ObjDataSays ws hs`: the object has exactly one data symbol per data section the
generator built, and per section (`GlSays`): the symbol has the section's size,
EVERY byte of EVERY constant the generator placed is in the symbol's image at the
constant's offset, every byte outside the constants is zero, and symbol kind
(RODATA / NOPTR / TLSBSS; BSS without DATA lines), DUPOK and static are what the
section's attributes and symbol ask for.
-/
import AvoVerif.Props.C11Accept
import AvoVerif.Model.AsmLit
namespace Avo.Drv.C11
open Avo.Print Avo.Attr

structure GlSays (w : WantGl) (h : HaveSym) : Prop where
  size : h.size = w.size
  bytes : ∀ d ∈ w.data, d.bytes.length = d.n ∧ slice (image h) d.off d.n = d.bytes
  gaps : ∀ i, i < w.size → covered w.data i = false → (image h).getD i 0 = 0
  kind : h.kind = expectKind w.attrs (!w.data.isEmpty)
  dupok : h.dupok = w.attrs.getLsbD 1
  static : h.static = w.static

theorem acceptGl_sound (w : WantGl) (h : HaveSym) (hacc : acceptGl w h = none) : GlSays w h := by
  unfold acceptGl at hacc
  split at hacc; · cases hacc
  split at hacc; · cases hacc
  split at hacc; · cases hacc
  split at hacc; · cases hacc
  split at hacc; · cases hacc
  split at hacc; · cases hacc
  split at hacc; · cases hacc
  rename_i h1 _ h3 h4 h5 h6 h7
  refine ⟨by simpa using h1, ?_, ?_, by simpa using h5, by simpa using h6, by simpa using h7⟩
  · intro d hd
    have hall : w.data.all (datumOK (image h)) = true := by simpa using h3
    have := List.all_eq_true.mp hall d hd
    simpa [datumOK] using this
  · intro i hi hc
    have hg : gapsZero w (image h) = true := by simpa using h4
    have := List.all_eq_true.mp hg i (List.mem_range.mpr hi)
    simpa [hc] using this

def ObjDataSays (ws : List WantGl) (hs : List HaveSym) : Prop :=
  hs.length = ws.length ∧ ∀ w ∈ ws, ∃ h ∈ hs, h.name = w.name ∧ GlSays w h

theorem acceptObjDataE_sound (ws : List WantGl) (hs : List HaveSym) (hacc : acceptObjDataE ws hs = none) :
    ObjDataSays ws hs := by
  unfold acceptObjDataE at hacc
  cases hfb : firstBad (ws.map (judgeGl hs)) with
  | some e => simp [hfb] at hacc
  | none =>
    simp only [hfb] at hacc
    constructor
    · by_cases hl : hs.length = ws.length
      · exact hl
      · simp [hl] at hacc
    · intro w hw
      have := (firstBad_none _).mp hfb _ (List.mem_map_of_mem hw)
      unfold judgeGl at this
      cases hf : hs.find? (fun h => h.name == w.name) with
      | none => simp [hf] at this
      | some h =>
        simp only [hf] at this
        refine ⟨h, List.mem_of_find?_eq_some hf, ?_, acceptGl_sound w h this⟩
        have := List.find?_some hf
        simpa using this

/-! non-vacuity: a section with a float, a gap and a string is accepted on the right image and rejected when one
byte of the float differs (the shape of a wrongly printed float literal that still assembles). -/

private def exWant : WantGl := ⟨"tbl".toList, true, 24#16, 16,
  [⟨0, 8, [0x95, 0xd6, 0x26, 0xe8, 0x0b, 0x2e, 0x11, 0x3e]⟩, ⟨12, 3, [0x61, 0x62, 0x63]⟩]⟩
private def exHave : HaveSym := ⟨"tbl".toList, "RODATA", true, false, 16,
  [0x95, 0xd6, 0x26, 0xe8, 0x0b, 0x2e, 0x11, 0x3e, 0, 0, 0, 0, 0x61, 0x62, 0x63]⟩

theorem exObjData_accepted : acceptObjDataE [exWant] [exHave] = none := by decide +kernel

example : ObjDataSays [exWant] [exHave] := acceptObjDataE_sound _ _ exObjData_accepted

example : acceptObjDataE [exWant] [{ exHave with bytes := [0x95, 0xd6, 0x26, 0xe8, 0x0b, 0x2e, 0x11, 0x3f] }] = some "bad-data-bytes" ∧
    acceptObjDataE [exWant] [{ exHave with kind := "NOPTRDATA" }] = some "bad-data-kind" ∧
    acceptObjDataE [exWant] [] = some "bad-data-symbol-missing" ∧
    acceptObjDataE [exWant] [{ exHave with bytes := exHave.bytes.set 9 1 }] = some "bad-data-gap" := by decide +kernel

end Avo.Drv.C11

/-! ## The float literal of a DATA value stays inside what the assembler's scanner reads as ONE float token -/

namespace Avo.AsmLit

def AllDig (t : Txt) : Prop := ∀ c ∈ t, isDig c = true

instance (t : Txt) : Decidable (AllDig t) := by unfold AllDig; exact inferInstance

theorem isDig_dot : isDig '.' = false := by decide
theorem isDig_paren : isDig ')' = false := by decide

theorem tw_stop (a : Txt) (y : Char) (zs : Txt) (ha : AllDig a) (hy : isDig y = false) :
    (a ++ y :: zs).takeWhile isDig = a ∧ (a ++ y :: zs).dropWhile isDig = y :: zs :=
  Avo.Print.takeWhile_stop isDig a y zs ha hy

/-- **Plain decimal with a point** (`FormatFloat(x, 'f', …)` of a non-integral value, or an integral one with `.0`
appended): `digits.digits)` is one float token followed by the parenthesis. -/
theorem scan_point (ip fp r : Txt) (hip : AllDig ip) (hfp : AllDig fp) :
    scanNumber (ip ++ '.' :: fp ++ ')' :: r) = (ip ++ '.' :: fp, ')' :: r, true) := by
  unfold scanNumber
  have h1 := tw_stop ip '.' (fp ++ ')' :: r) hip isDig_dot
  have h2 := tw_stop fp ')' r hfp isDig_paren
  simp only [List.append_assoc, List.cons_append] at h1 h2 ⊢
  rw [h1.1, h1.2]
  simp only [h2.1, h2.2, scanExp]
  simp

/-- **Exponent form with a point** (`1.5e-07`): one float token. -/
theorem scan_point_exp (ip fp ex r : Txt) (sg : Char) (hsg : sg = '+' ∨ sg = '-')
    (hip : AllDig ip) (hfp : AllDig fp) (hex : AllDig ex) :
    scanNumber (ip ++ '.' :: fp ++ 'e' :: sg :: ex ++ ')' :: r) = (ip ++ '.' :: fp ++ 'e' :: sg :: ex, ')' :: r, true) := by
  unfold scanNumber
  have h1 := tw_stop ip '.' (fp ++ 'e' :: sg :: ex ++ ')' :: r) hip isDig_dot
  have h2 := tw_stop fp 'e' (sg :: ex ++ ')' :: r) hfp (by decide)
  have h3 := tw_stop ex ')' r hex isDig_paren
  simp only [List.append_assoc, List.cons_append] at h1 h2 h3 ⊢
  rw [h1.1, h1.2]
  simp only [h2.1, h2.2, scanExp]
  rcases hsg with rfl | rfl <;> simp [h3.1, h3.2]

/-- **Exponent form without a point** (`1e-09`): one float token — and nothing may follow it but the parenthesis. -/
theorem scan_exp (ip ex r : Txt) (sg : Char) (hsg : sg = '+' ∨ sg = '-') (hip : AllDig ip) (hex : AllDig ex) :
    scanNumber (ip ++ 'e' :: sg :: ex ++ ')' :: r) = (ip ++ 'e' :: sg :: ex, ')' :: r, true) := by
  unfold scanNumber
  have h1 := tw_stop ip 'e' (sg :: ex ++ ')' :: r) hip (by decide)
  have h3 := tw_stop ex ')' r hex isDig_paren
  simp only [List.append_assoc, List.cons_append] at h1 h3 ⊢
  rw [h1.1, h1.2]
  rcases hsg with rfl | rfl <;> simp [scanExp, h3.1, h3.2]

theorem allDig_no_dot (t : Txt) (h : AllDig t) : t.contains '.' = false := by
  cases hc : t.contains '.' with
  | false => rfl
  | true =>
    have hm : '.' ∈ t := by simpa using hc
    have := h '.' hm
    simp [isDig_dot] at this

theorem withPoint_dot (ip fp : Txt) : withPoint (ip ++ '.' :: fp) = ip ++ '.' :: fp := by
  simp [withPoint]

theorem withPoint_nodot (ip : Txt) (h : AllDig ip) : withPoint ip = ip ++ ['.', '0'] := by
  have := allDig_no_dot ip h
  unfold withPoint
  rw [this]
  rfl

theorem floatBody_point (neg : Bool) (ip fp : Txt) (hne : ip ≠ []) (hip : AllDig ip) (hfp : AllDig fp) :
    floatBodyOK ((if neg then ['-'] else []) ++ (ip ++ '.' :: fp) ++ [')']) = true := by
  obtain ⟨c, ip', rfl⟩ := List.exists_cons_of_ne_nil hne
  have hc : isDig c = true := hip c List.mem_cons_self
  have hcm : c ≠ '-' := by intro e; subst e; simp [isDig] at hc
  have hcp : c ≠ '+' := by intro e; subst e; simp [isDig] at hc
  have hstrip : ∀ rest, stripSigns ((if neg then ['-'] else []) ++ (c :: rest)) = c :: rest := by
    intro rest
    cases neg <;> simp [stripSigns] <;> (unfold stripSigns; split <;> simp_all)
  unfold floatBodyOK
  have : (if neg then ['-'] else []) ++ ((c :: ip') ++ '.' :: fp) ++ [')'] =
      (if neg then ['-'] else []) ++ (c :: (ip' ++ '.' :: fp ++ [')'])) := by simp
  rw [this, hstrip]
  simp only [hc, if_true]
  have hs := scan_point (c :: ip') fp [] hip hfp
  simp only [List.cons_append, List.append_assoc] at hs ⊢
  rw [hs]
  simp

/-- **avo's rendering stays inside the grammar.**  `asmfloat` takes the plain decimal text `[-]digits[.digits]`
(`strconv.FormatFloat(x, 'f', -1, bits)` of a finite value) and appends `.0` when there is no point: the result,
between `$(` and `)`, is read by the assembler as ONE float token followed by the closing parenthesis. -/
theorem withPoint_float (neg : Bool) (ip fp : Txt) (dot : Bool) (hne : ip ≠ []) (hip : AllDig ip) (hfp : AllDig fp) :
    floatOperandOK ('$' :: '(' :: ((if neg then ['-'] else []) ++ withPoint (if dot then ip ++ '.' :: fp else ip) ++ [')'])) = true := by
  show floatBodyOK _ = true
  cases dot with
  | true =>
    simp only [if_true]
    rw [withPoint_dot]
    exact floatBody_point neg ip fp hne hip hfp
  | false =>
    simp only [Bool.false_eq_true, if_false]
    rw [withPoint_nodot ip hip]
    exact floatBody_point neg ip ['0'] hne hip (by intro x hx; simp at hx; subst hx; decide)

/-- Non-vacuity, and the shape of the missed change: exponent text without a point, `.0` appended. -/
example : floatOperandOK "$(0.000000001)".toList = true ∧ floatOperandOK "$(-1000000000000000000000.0)".toList = true ∧
    floatOperandOK "$(1.5e-07)".toList = true ∧ floatOperandOK "$(1e-09)".toList = true ∧
    floatOperandOK "$(1e-09.0)".toList = false ∧ floatOperandOK "$(1e+21.0)".toList = false ∧
    floatOperandOK "$(2)".toList = false ∧ floatOperandOK "$(+Inf.0)".toList = false ∧
    scanNumber "1e-09.0)".toList = ("1e-09".toList, ".0)".toList, true) := by decide

example : floatOperandOK ('$' :: '(' :: ([] ++ withPoint "5".toList ++ [')'])) = true :=
  withPoint_float false "5".toList [] false (by decide) (by decide) (by decide)

end Avo.AsmLit
