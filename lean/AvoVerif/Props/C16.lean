/-
C16 — Stack locals are disjoint and inside the declared frame.
Statements and property theorems only.

Quantifier: all sequences of local allocations (sizes ≥ 0, incl. 0 and
unaligned) interleaved with instruction emission, with and without
frame-pointer clobbering.  Negative sizes are outside the property.
-/
import AvoVerif.Model.Locals
import AvoVerif.Lemmas.NumText
namespace Avo.Locals

/-! ### Statement (byte level, no algorithm in it) -/

/-- Byte `x` (offset from the hardware SP) belongs to the region. -/
def Region.Mem (r : Region) (x : Int) : Prop := r.off ≤ x ∧ x < r.off + r.size

/-- The regions share no byte. -/
def Disjoint (r s : Region) : Prop := ∀ x, ¬ (r.Mem x ∧ s.Mem x)

/-- Every byte of the region is inside the declared frame `[0, frame)`. -/
def Inside (r : Region) (frame : Int) : Prop := ∀ x, r.Mem x → 0 ≤ x ∧ x < frame

/-- **The property** for the regions handed out by one function and the frame
size declared on its TEXT line. -/
def LocalsOK (regions : List Region) (frame : Int) : Prop :=
  (∀ r ∈ regions, Inside r frame) ∧ regions.Pairwise Disjoint ∧
  (∀ r ∈ regions, Disjoint r (bpSlot frame))

/-- Sizes requested by the program, in order. -/
def allocSizes : List Op → List Int
  | [] => []
  | .alloc s :: ops => s :: allocSizes ops
  | .instr _ :: ops => allocSizes ops

/-- The program is inside the property's quantifier: no negative size. -/
def NonNeg (ops : List Op) : Prop := ∀ s ∈ allocSizes ops, 0 ≤ s

/-! ### Acceptor soundness and completeness -/

theorem disjointB_iff (r s : Region) : disjointB r s = true ↔ Disjoint r s := by
  unfold disjointB Disjoint Region.Mem Region.nonempty
  constructor
  · intro h x hx
    simp only [Bool.or_eq_true, Bool.not_eq_true', decide_eq_false_iff_not, decide_eq_true_eq] at h
    omega
  · intro h
    simp only [Bool.or_eq_true, Bool.not_eq_true', decide_eq_false_iff_not, decide_eq_true_eq]
    by_cases h1 : 0 < r.size
    · by_cases h2 : 0 < s.size
      · by_cases h3 : r.off ≤ s.off
        · have := h s.off; omega
        · have := h r.off; omega
      · omega
    · omega

theorem insideB_iff (r : Region) (frame : Int) : insideB r frame = true ↔ Inside r frame := by
  unfold insideB Inside Region.Mem Region.nonempty
  constructor
  · intro h x hx
    simp only [Bool.or_eq_true, Bool.not_eq_true', decide_eq_false_iff_not, Bool.and_eq_true, decide_eq_true_eq] at h
    omega
  · intro h
    simp only [Bool.or_eq_true, Bool.not_eq_true', decide_eq_false_iff_not, Bool.and_eq_true, decide_eq_true_eq]
    by_cases h1 : 0 < r.size
    · have ha := h r.off (by omega)
      have hb := h (r.off + r.size - 1) (by omega)
      omega
    · omega

theorem pairwiseB_iff (rs : List Region) : pairwiseB rs = true ↔ rs.Pairwise Disjoint := by
  induction rs with
  | nil => simp [pairwiseB]
  | cons r rs ih =>
    simp only [pairwiseB, Bool.and_eq_true, List.all_eq_true, List.pairwise_cons, ih, disjointB_iff]

/-- The executable acceptor decides exactly the property. -/
theorem acceptLocals_iff (rs : List Region) (frame : Int) :
    acceptLocals rs frame = true ↔ LocalsOK rs frame := by
  unfold acceptLocals LocalsOK
  simp only [Bool.and_eq_true, List.all_eq_true, insideB_iff, pairwiseB_iff, disjointB_iff]
  constructor
  · rintro ⟨⟨a, b⟩, c⟩; exact ⟨a, b, c⟩
  · rintro ⟨a, b, c⟩; exact ⟨⟨a, b⟩, c⟩

/-! ### The allocation invariant -/

def sumInt : List Int → Int
  | [] => 0
  | x :: xs => x + sumInt xs

theorem sumInt_append (xs ys : List Int) : sumInt (xs ++ ys) = sumInt xs + sumInt ys := by
  induction xs with
  | nil => simp [sumInt]
  | cons x xs ih => simp [sumInt, ih]; omega

/-- Invariant of a function under construction. -/
structure Inv (f : Fn) : Prop where
  nonneg : 0 ≤ f.localSize
  bounds : ∀ r ∈ f.regions, 0 ≤ r.off ∧ 0 ≤ r.size ∧ r.off + r.size ≤ f.localSize
  pairwise : f.regions.Pairwise Disjoint
  total : f.localSize = sumInt (f.regions.map (·.size))

theorem inv_init : Inv {} := ⟨by decide, by simp, by simp, by simp [sumInt]⟩

theorem inv_alloc (f : Fn) (h : Inv f) (s : Int) (hs : 0 ≤ s) : Inv (allocLocal f s) := by
  refine ⟨?_, ?_, ?_, ?_⟩
  · have := h.nonneg; simp only [allocLocal]; omega
  · intro r hr
    simp only [allocLocal, List.mem_append, List.mem_singleton] at hr ⊢
    rcases hr with hr | hr
    · have := h.bounds r hr; omega
    · subst hr; have := h.nonneg; simp only; omega
  · simp only [allocLocal]
    rw [List.pairwise_append]
    refine ⟨h.pairwise, by simp, ?_⟩
    intro a ha b hb
    simp only [List.mem_singleton] at hb
    subst hb
    have := h.bounds a ha
    intro x hx
    simp only [Region.Mem] at hx
    omega
  · simp only [allocLocal, List.map_append, sumInt_append, List.map_cons, List.map_nil, sumInt]
    have := h.total; omega

theorem run_regions_sizes (f : Fn) (ops : List Op) :
    (run f ops).regions.map (·.size) = f.regions.map (·.size) ++ allocSizes ops := by
  induction ops generalizing f with
  | nil => simp [run, allocSizes]
  | cons op ops ih =>
    cases op with
    | alloc s =>
      have := ih (allocLocal f s)
      simp only [run, List.foldl_cons, step] at this ⊢
      rw [this]; simp [allocLocal, allocSizes]
    | instr w =>
      have := ih { f with clobbered := f.clobbered || w }
      simp only [run, List.foldl_cons, step] at this ⊢
      rw [this]; simp [allocSizes]

theorem inv_run (f : Fn) (h : Inv f) (ops : List Op) (hn : NonNeg ops) : Inv (run f ops) := by
  induction ops generalizing f with
  | nil => exact h
  | cons op ops ih =>
    cases op with
    | alloc s =>
      have hs : 0 ≤ s := hn s (by simp [allocSizes])
      have hn' : NonNeg ops := fun t ht => hn t (by simp [allocSizes, ht])
      exact ih (allocLocal f s) (inv_alloc f h s hs) hn'
    | instr w =>
      have hn' : NonNeg ops := fun t ht => hn t (by simpa [allocSizes] using ht)
      exact ih { f with clobbered := f.clobbered || w } ⟨h.nonneg, h.bounds, h.pairwise, h.total⟩ hn'

theorem localsOK_of_inv (rs : List Region) (frame : Int)
    (hb : ∀ r ∈ rs, 0 ≤ r.off ∧ 0 ≤ r.size ∧ r.off + r.size ≤ frame) (hp : rs.Pairwise Disjoint) :
    LocalsOK rs frame := by
  refine ⟨?_, hp, ?_⟩
  · intro r hr x hx
    have := hb r hr; simp only [Region.Mem] at hx; omega
  · intro r hr x hx
    have := hb r hr; simp only [Region.Mem, bpSlot] at hx; omega

/-- What `ensureBP` can return. -/
theorem ensureBP_some (f : Fn) (noframe : Bool) (c : Compiled) (h : ensureBP f noframe = some c) :
    c.regions = f.regions ∧
    ((c.forced = none ∧ c.frame = f.localSize) ∨
     (f.clobbered = true ∧ f.localSize = 0 ∧ c.forced = some ⟨0, 8⟩ ∧ c.frame = 8)) := by
  unfold ensureBP at h
  cases hcl : f.clobbered <;> cases noframe <;> simp only [hcl, Bool.not_true, Bool.not_false, Bool.false_eq_true, if_true, if_false] at h
  · cases h; exact ⟨rfl, Or.inl ⟨rfl, rfl⟩⟩
  · cases h; exact ⟨rfl, Or.inl ⟨rfl, rfl⟩⟩
  · by_cases h3 : (f.localSize == 0) = true
    · have h0 : f.localSize = 0 := by simpa using h3
      simp only [h3, if_true] at h
      cases h
      refine ⟨rfl, Or.inr ⟨rfl, h0, ?_, ?_⟩⟩
      · simp only [h0, pointerSize]
      · simp only [h0, pointerSize]; omega
    · simp only [h3] at h
      cases h; exact ⟨rfl, Or.inl ⟨rfl, rfl⟩⟩
  · cases h

/-! ### Property theorems -/

/-- **C16 (allocation).** For every interleaving of non-negative allocations
with instructions, whatever the base-pointer handling decides: the regions
handed out (together with the forced 8-byte local if one was added) lie inside
the final frame, are pairwise disjoint and do not touch the slot where the
assembler saves BP; the user regions have exactly the requested sizes; the
frame is the sum of all allocated sizes. -/
theorem locals_ok (ops : List Op) (noframe : Bool) (c : Compiled)
    (hn : NonNeg ops) (hc : compile ops noframe = some c) :
    LocalsOK (c.regions ++ c.forced.toList) c.frame ∧
    c.regions.map (·.size) = allocSizes ops ∧
    c.frame = sumInt (allocSizes ops) + (match c.forced with | some r => r.size | none => 0) := by
  have hinv := inv_run {} inv_init ops hn
  have hsz := run_regions_sizes {} ops
  simp only [List.map_nil, List.nil_append] at hsz
  unfold compile at hc
  generalize run {} ops = f at hinv hsz hc
  have htot := hinv.total
  rw [hsz] at htot
  obtain ⟨hreg, hcase⟩ := ensureBP_some f noframe c hc
  rw [hreg]
  rcases hcase with ⟨hfo, hfr⟩ | ⟨_, h0, hfo, hfr⟩
  · rw [hfo, hfr]
    refine ⟨?_, hsz, by simp only; omega⟩
    simp only [Option.toList, List.append_nil]
    exact localsOK_of_inv _ _ hinv.bounds hinv.pairwise
  · rw [hfo, hfr]
    refine ⟨?_, hsz, by simp only; omega⟩
    apply localsOK_of_inv
    · intro r hr
      simp only [Option.toList, List.mem_append, List.mem_singleton] at hr
      rcases hr with hr | hr
      · have := hinv.bounds r hr; omega
      · subst hr; simp only; omega
    · simp only [Option.toList]
      rw [List.pairwise_append]
      refine ⟨hinv.pairwise, by simp, ?_⟩
      intro a ha b hb
      simp only [List.mem_singleton] at hb
      subst hb
      have := hinv.bounds a ha
      intro x hx
      simp only [Region.Mem] at hx
      omega

/-- **C16 (forced local).** The 8-byte local that `EnsureBasePointerCalleeSaved`
adds is never one handed out to the user: it shares no byte with any user
region, is inside the frame, and is added only when BP is written and the
program allocated nothing. -/
theorem forced_local_not_handed_out (ops : List Op) (noframe : Bool) (c : Compiled)
    (hn : NonNeg ops) (hc : compile ops noframe = some c) (r : Region) (hr : c.forced = some r) :
    r.size = 8 ∧ Inside r c.frame ∧ (∀ u ∈ c.regions, Disjoint u r) ∧
    (run {} ops).clobbered = true ∧ sumInt (allocSizes ops) = 0 := by
  have hok := locals_ok ops noframe c hn hc
  obtain ⟨⟨hin, hpw, _⟩, _, hfr⟩ := hok
  rw [hr] at hin hpw hfr
  simp only [Option.toList] at hin hpw
  have hmem : r ∈ c.regions ++ [r] := by simp
  rw [List.pairwise_append] at hpw
  unfold compile at hc
  obtain ⟨_, hcase⟩ := ensureBP_some _ noframe c hc
  rcases hcase with ⟨hfo, _⟩ | ⟨hcl, _, hfo, hfr8⟩
  · rw [hfo] at hr; cases hr
  · rw [hfo] at hr; cases hr
    refine ⟨rfl, hin _ hmem, fun u hu => hpw.2.2 u hu _ (by simp), hcl, ?_⟩
    simp only at hfr; omega

theorem parseTextSize_dollar (body : List Char) : parseTextSize ('$' :: body) = parseTextBody body := by
  have hd : (('$' : Char) != '$') = false := by decide
  rw [parseTextSize]; simp only [hd, Bool.false_eq_true, if_false]

/-- **C16 (TEXT line).** The frame size printed on the TEXT line reads back as
`FrameBytes()` (and the argument size, when printed, as itself). -/
theorem text_frame (frame args : Nat) :
    parseTextSize (textSize frame args) =
      some (frame, if args > 0 then some args else none) := by
  unfold textSize NumText.intDec
  have hf : ¬ ((frame : Int) < 0) := by omega
  have ha : ¬ ((args : Int) < 0) := by omega
  simp only [hf, ha, if_false, Int.natAbs_natCast]
  rw [parseTextSize_dollar]
  unfold parseTextBody
  by_cases h : args > 0
  · have h' : ((args : Int) > 0) := by omega
    simp only [h, h', if_true]
    have hm : (('-' : Char) != '-') = false := by decide
    obtain ⟨e1, e2⟩ := NumText.takeWhile_append_stop (· != '-') (NumText.digits 10 frame) '-'
      (NumText.digits 10 args) (NumText.digits_no_minus frame) hm
    rw [e1, e2, NumText.parseNat_digits 10 (by omega) (by omega)]
    simp [NumText.parseNat_digits 10 (by omega) (by omega)]
  · have h' : ¬ ((args : Int) > 0) := by omega
    simp only [h, h', if_false, List.append_nil]
    obtain ⟨e1, e2⟩ := NumText.takeWhile_all (· != '-') (NumText.digits 10 frame) (NumText.digits_no_minus frame)
    rw [e1, e2, NumText.parseNat_digits 10 (by omega) (by omega)]

/-- **C16 (TEXT line as the assembler reads it).**  Below 2^31 the frame the
assembler allocates is `FrameBytes()`.  The bound is an explicit hypothesis the
property's quantifier does not grant: see `text_frame_wraps`. -/
theorem asm_text_frame (frame args : Nat) (h : (frame : Int) < Avo.BP.frameLimit) :
    asmTextFrame (textSize frame args) = some (frame : Int) := by
  unfold asmTextFrame
  rw [text_frame]
  simp only [Option.map_some]
  rw [Avo.BP.autoffset_of_lt _ (by omega) h]

/-- **The property fails at 2^31 (finding C16-frame-int32).**  `AllocLocal(1<<31)`
is handed out as `[0, 2^31)` and printed as `$2147483648`; the assembler
allocates NO frame for that text, so the region is not inside the frame (it is
the return address and the caller's frame). -/
theorem text_frame_wraps :
    compile [.alloc 2147483648] false = some ⟨[⟨0, 2147483648⟩], none, 2147483648⟩ ∧
    asmTextFrame (textSize 2147483648 0) = some 0 ∧
    ¬ LocalsOK [⟨0, 2147483648⟩] 0 := by
  refine ⟨by decide, by decide +kernel, ?_⟩
  rw [← acceptLocals_iff]; decide

/-- Soundness of the acceptor used on the implementation's regions and printed
TEXT size: what it accepts satisfies the property against the frame the
assembler really allocates. -/
theorem acceptLocalsText_sound (rs : List Region) (text : List Char) (h : acceptLocalsText rs text = true) :
    ∃ fr, asmTextFrame text = some fr ∧ LocalsOK rs fr := by
  unfold acceptLocalsText at h
  cases hf : asmTextFrame text with
  | none => simp [hf] at h
  | some fr => simp only [hf] at h; exact ⟨fr, rfl, (acceptLocals_iff rs fr).mp h⟩

/-- **C16 end to end (model)**: for every interleaving of non-negative
allocations with instructions whose total stays below 2^31, the regions handed
out (and the forced local) satisfy the property against the frame the assembler
allocates for the printed TEXT line. -/
theorem locals_in_text_frame (ops : List Op) (noframe : Bool) (c : Compiled) (args : Nat)
    (hn : NonNeg ops) (hc : compile ops noframe = some c) (hlt : c.frame < Avo.BP.frameLimit) :
    acceptLocalsText (c.regions ++ c.forced.toList) (textSize c.frame args) = true := by
  obtain ⟨hok, _, hfr⟩ := locals_ok ops noframe c hn hc
  have h0 : 0 ≤ c.frame := by
    have hs : ∀ l : List Int, (∀ s ∈ l, 0 ≤ s) → 0 ≤ sumInt l := by
      intro l; induction l with
      | nil => intro _; simp [sumInt]
      | cons x xs ih =>
        intro h
        have := ih (fun s hs => h s (List.mem_cons_of_mem _ hs))
        have := h x List.mem_cons_self
        simp only [sumInt]; omega
    have := hs (allocSizes ops) hn
    unfold compile at hc
    obtain ⟨_, hcase⟩ := ensureBP_some _ noframe c hc
    rcases hcase with ⟨hfo, _⟩ | ⟨_, _, hfo, _⟩ <;> rw [hfo] at hfr <;> simp only at hfr <;> omega
  obtain ⟨n, hn'⟩ : ∃ n : Nat, c.frame = (n : Int) := ⟨c.frame.toNat, by omega⟩
  unfold acceptLocalsText
  rw [hn', asm_text_frame n args (by omega)]
  simp only
  rw [acceptLocals_iff, ← hn']
  exact hok

/-- The hypotheses of `locals_in_text_frame` are satisfiable (non-vacuity): an unaligned local, an empty one, a
BP write, 8 argument bytes. -/
example : acceptLocalsText [⟨0, 3⟩, ⟨3, 0⟩, ⟨3, 16⟩] (textSize 19 8) = true :=
  locals_in_text_frame [.alloc 3, .instr false, .alloc 0, .alloc 16, .instr true] false ⟨[⟨0, 3⟩, ⟨3, 0⟩, ⟨3, 16⟩], none, 19⟩ 8
    (by intro s hs; simp [allocSizes] at hs; omega) (by decide) (by decide)
example : acceptLocalsText [⟨0, 3⟩, ⟨3, 0⟩, ⟨3, 16⟩] "$19-8".toList = true := by decide +kernel
example : acceptLocalsText [⟨0, 2147483648⟩] "$2147483648".toList = false := by decide +kernel
example : acceptLocalsText [⟨0, 8⟩] "$4294967304".toList = true := by decide +kernel     -- 2^32+8 is an 8-byte frame
example : acceptLocalsText [⟨0, 16⟩] "$4294967304".toList = false := by decide +kernel

/-- **C16 (operand).** The operand returned by `AllocLocal` prints as a plain
hardware-SP reference whose displacement is the region's offset. -/
theorem stack_addr_text (off : Nat) : parseStackAddr (stackAddrAsm off) = some (off : Int) := by
  unfold stackAddrAsm parseStackAddr
  have hp : (('(' : Char) != '(') = false := by decide
  by_cases h0 : off = 0
  · subst h0
    simp
  · have hne : ((off : Int) != 0) = true := by simp; omega
    simp only [hne, if_true]
    have hi : NumText.intDec (off : Int) = NumText.digits 10 off := by
      unfold NumText.intDec
      have : ¬ ((off : Int) < 0) := by omega
      simp [this]
    rw [hi]
    obtain ⟨e1, e2⟩ := NumText.takeWhile_append_stop (· != '(') (NumText.digits 10 off) '('
      ['S', 'P', ')'] (NumText.digits_no_paren off) hp
    rw [e1, e2]
    have hne2 : (NumText.digits 10 off).isEmpty = false := by
      have := NumText.digitsFuel_ne_nil 10 off off
      unfold NumText.digits
      cases hd : NumText.digitsFuel 10 (off + 1) off with
      | nil => exact absurd hd this
      | cons c cs => rfl
    simp only [bne_self_eq_false, Bool.false_eq_true, if_false, hne2]
    rw [← hi]
    exact NumText.parseIntLit_intDec off

/-! ### Execution reading: writes to one local never change another -/

/-- Stack memory as a function of the SP offset. -/
abbrev Memory := Int → Nat

/-- Store the pattern `v` into every byte of region `r`. -/
def write (m : Memory) (r : Region) (v : Memory) : Memory :=
  fun x => if r.off ≤ x ∧ x < r.off + r.size then v x else m x

/-- Store into all regions in list order. -/
def writeAll (m : Memory) : List (Region × Memory) → Memory
  | [] => m
  | (r, v) :: rest => writeAll (write m r v) rest

theorem writeAll_other (m : Memory) (ws : List (Region × Memory)) (x : Int)
    (h : ∀ w ∈ ws, ¬ w.1.Mem x) : writeAll m ws x = m x := by
  induction ws generalizing m with
  | nil => rfl
  | cons w ws ih =>
    obtain ⟨r, v⟩ := w
    simp only [writeAll]
    rw [ih _ (fun w hw => h w (List.mem_cons_of_mem _ hw))]
    have := h (r, v) List.mem_cons_self
    simp only [Region.Mem] at this
    simp [write, this]

/-- **C16 (execution).** When the regions are pairwise disjoint, after storing a
pattern into every local (in any order given by the list), each local reads
back its own pattern on every one of its bytes — and every byte outside all
locals (in particular the BP save slot) is unchanged. -/
theorem read_back (m : Memory) (ws : List (Region × Memory))
    (hp : (ws.map (·.1)).Pairwise Disjoint) :
    (∀ w ∈ ws, ∀ x, w.1.Mem x → writeAll m ws x = w.2 x) ∧
    (∀ x, (∀ w ∈ ws, ¬ w.1.Mem x) → writeAll m ws x = m x) := by
  refine ⟨?_, fun x h => writeAll_other m ws x h⟩
  induction ws generalizing m with
  | nil => intro w hw; cases hw
  | cons w0 ws ih =>
    obtain ⟨r0, v0⟩ := w0
    simp only [List.map_cons, List.pairwise_cons] at hp
    intro w hw x hx
    simp only [List.mem_cons] at hw
    rcases hw with hw | hw
    · subst hw
      simp only [writeAll]
      rw [writeAll_other]
      · simp only [Region.Mem] at hx; simp [write, hx]
      · intro w' hw' hx'
        exact hp.1 w'.1 (List.mem_map.mpr ⟨w', hw', rfl⟩) x ⟨hx, hx'⟩
    · simp only [writeAll]
      exact ih _ hp.2 w hw x hx

/-! ### The addresses finally printed: operands through the pipeline

`locals_ok` speaks about the regions `AllocLocal` returned.  What the property needs is that the *compiled and
printed* function still touches exactly those bytes: below, the emitted stack operands are part of the model,
`ensureBPFn` is the pipeline step on frame and operands, and the acceptor judges the printed operands. -/

/-- The observed operand addresses byte `delta` of the region handed out for its local. -/
def AddrOK (regions : List Region) (s : Seen) : Prop :=
  ∃ g, regions[s.ref.loc]? = some g ∧ s.disp = g.off + s.ref.delta

theorem addrOKB_iff (regions : List Region) (s : Seen) : addrOKB regions s = true ↔ AddrOK regions s := by
  unfold addrOKB AddrOK
  cases h : regions[s.ref.loc]? with
  | none => simp
  | some g => simp

/-- **The property on the finally printed function**: every printed stack operand addresses the region handed
out for it, and the regions handed out satisfy `LocalsOK` against the frame the assembler allocates for the
printed TEXT line. -/
def FinalOK (regions : List Region) (forced : Option Region) (seen : List Seen) (text : List Char) : Prop :=
  (∀ s ∈ seen, AddrOK regions s) ∧ ∃ fr, asmTextFrame text = some fr ∧ LocalsOK (regions ++ forced.toList) fr

/-- The acceptor of the `accept-final` stream decides exactly `FinalOK`. -/
theorem acceptFinal_iff (regions : List Region) (forced : Option Region) (seen : List Seen) (text : List Char) :
    acceptFinal regions forced seen text = true ↔ FinalOK regions forced seen text := by
  unfold acceptFinal FinalOK
  simp only [Bool.and_eq_true, List.all_eq_true, addrOKB_iff]
  constructor
  · rintro ⟨a, b⟩; exact ⟨a, acceptLocalsText_sound _ _ b⟩
  · rintro ⟨a, fr, hfr, hok⟩
    refine ⟨a, ?_⟩
    unfold acceptLocalsText
    rw [hfr]
    exact (acceptLocals_iff _ _).mpr hok

/-- An operand that was moved by a non-zero amount is rejected, whatever else is printed (the class of the
seeded change "shift every SP-relative operand up by the BP word"). -/
theorem shifted_operand_rejected (regions : List Region) (s : Seen) (g : Region) (k : Int)
    (hg : regions[s.ref.loc]? = some g) (hk : k ≠ 0) (hs : s.disp = g.off + s.ref.delta + k)
    (forced : Option Region) (rest : List Seen) (text : List Char) :
    acceptFinal regions forced (s :: rest) text = false := by
  cases h : acceptFinal regions forced (s :: rest) text with
  | false => rfl
  | true =>
    obtain ⟨ha, _⟩ := (acceptFinal_iff _ _ _ _).mp h
    obtain ⟨g', hg', hd⟩ := ha s List.mem_cons_self
    rw [hg] at hg'; cases hg'
    omega

/-- Bytes accessed through an in-bounds operand are bytes of the region handed out. -/
theorem access_in_region (regions : List Region) (s : Seen) (g : Region)
    (hg : regions[s.ref.loc]? = some g) (ha : AddrOK regions s)
    (h0 : 0 ≤ s.ref.delta) (h1 : s.ref.delta + s.ref.width ≤ g.size) :
    ∀ x, (⟨s.disp, s.ref.width⟩ : Region).Mem x → g.Mem x := by
  obtain ⟨g', hg', hd⟩ := ha
  rw [hg] at hg'; cases hg'
  intro x hx
  simp only [Region.Mem] at hx ⊢
  omega

theorem disjoint_symm {r s : Region} (h : Disjoint r s) : Disjoint s r :=
  fun x hx => h x ⟨hx.2, hx.1⟩

theorem pairwise_getElem? (rs : List Region) (hp : rs.Pairwise Disjoint) (i j : Nat) (a b : Region)
    (hij : i ≠ j) (ha : rs[i]? = some a) (hb : rs[j]? = some b) : Disjoint a b := by
  obtain ⟨hi, rfl⟩ := List.getElem?_eq_some_iff.mp ha
  obtain ⟨hj, rfl⟩ := List.getElem?_eq_some_iff.mp hb
  rcases Nat.lt_or_gt_of_ne hij with h | h
  · exact (List.pairwise_iff_getElem.mp hp) i j hi hj h
  · exact disjoint_symm ((List.pairwise_iff_getElem.mp hp) j i hj hi h)

/-- **C16 on the printed function (what `accept-final` establishes).**  When the acceptor accepts, every byte
accessed through an in-bounds printed operand is inside the frame the assembler allocates, is not a byte of the
BP save slot, and two in-bounds operands of different locals share no byte. -/
theorem final_access_ok (regions : List Region) (forced : Option Region) (seen : List Seen) (text : List Char)
    (h : acceptFinal regions forced seen text = true) :
    ∃ fr, asmTextFrame text = some fr ∧
      (∀ s ∈ seen, ∀ g, regions[s.ref.loc]? = some g → 0 ≤ s.ref.delta → s.ref.delta + s.ref.width ≤ g.size →
        ∀ x, (⟨s.disp, s.ref.width⟩ : Region).Mem x → (0 ≤ x ∧ x < fr) ∧ ¬ (bpSlot fr).Mem x) ∧
      (∀ s ∈ seen, ∀ t ∈ seen, ∀ g k, regions[s.ref.loc]? = some g → regions[t.ref.loc]? = some k →
        s.ref.loc ≠ t.ref.loc →
        0 ≤ s.ref.delta → s.ref.delta + s.ref.width ≤ g.size →
        0 ≤ t.ref.delta → t.ref.delta + t.ref.width ≤ k.size →
        Disjoint ⟨s.disp, s.ref.width⟩ ⟨t.disp, t.ref.width⟩) := by
  obtain ⟨ha, fr, hfr, hin, hpw, hbp⟩ := (acceptFinal_iff _ _ _ _).mp h
  refine ⟨fr, hfr, ?_, ?_⟩
  · intro s hs g hg h0 h1 x hx
    have hgx := access_in_region regions s g hg (ha s hs) h0 h1 x hx
    have hmem : g ∈ regions ++ forced.toList :=
      List.mem_append_left _ (List.mem_of_getElem? hg)
    exact ⟨hin g hmem x hgx, fun hb => hbp g hmem x ⟨hgx, hb⟩⟩
  · intro s hs t ht g k hg hk hne h0 h1 h2 h3 x hx
    have hgx := access_in_region regions s g hg (ha s hs) h0 h1 x hx.1
    have hkx := access_in_region regions t k hk (ha t ht) h2 h3 x hx.2
    have hpr : regions.Pairwise Disjoint := (List.pairwise_append.mp hpw).1
    exact pairwise_getElem? regions hpr _ _ g k hne hg hk x ⟨hgx, hkx⟩

/-! #### The model of the pipeline keeps every operand on its region -/

/-- Invariant on the operands emitted so far: each carries the address of byte `delta` of its local. -/
def RefsOK (f : FnP) : Prop :=
  ∀ p ∈ f.mems, ∃ g, f.fn.regions[p.1.loc]? = some g ∧ p.2 = g.off + p.1.delta

/-- An operand refers only to a local that has been allocated before (`n` locals exist at the start). -/
def WellScoped : Nat → List POp → Prop
  | _, [] => True
  | n, .alloc _ :: ops => WellScoped (n + 1) ops
  | n, .instr _ rs :: ops => (∀ r ∈ rs, r.loc < n) ∧ WellScoped n ops

theorem refsOK_init : RefsOK {} := by intro p hp; cases hp

theorem refsOK_step (f : FnP) (h : RefsOK f) (op : POp) (hs : WellScoped f.fn.regions.length [op]) :
    RefsOK (stepP f op) := by
  cases op with
  | alloc s =>
    intro p hp
    obtain ⟨g, hg, hd⟩ := h p hp
    refine ⟨g, ?_, hd⟩
    have hlt : p.1.loc < f.fn.regions.length := (List.getElem?_eq_some_iff.mp hg).1
    simp only [stepP, allocLocal]
    rw [List.getElem?_append_left hlt]; exact hg
  | instr w rs =>
    intro p hp
    simp only [stepP, List.mem_append, List.mem_map] at hp
    rcases hp with hp | ⟨r, hr, rfl⟩
    · obtain ⟨g, hg, hd⟩ := h p hp
      exact ⟨g, by simpa [stepP, step] using hg, hd⟩
    · have hlt : r.loc < f.fn.regions.length := hs.1 r hr
      refine ⟨f.fn.regions[r.loc], ?_, ?_⟩
      · simp [stepP, step, List.getElem?_eq_getElem hlt]
      · simp [refDisp, List.getElem?_eq_getElem hlt]

theorem stepP_length (f : FnP) (op : POp) :
    (stepP f op).fn.regions.length = f.fn.regions.length + (match op with | .alloc _ => 1 | .instr _ _ => 0) := by
  cases op <;> simp [stepP, allocLocal, step]

theorem refsOK_run (f : FnP) (h : RefsOK f) (ops : List POp) (hs : WellScoped f.fn.regions.length ops) :
    RefsOK (runP f ops) := by
  induction ops generalizing f with
  | nil => exact h
  | cons op ops ih =>
    simp only [runP, List.foldl_cons]
    cases op with
    | alloc s =>
      apply ih (stepP f (.alloc s)) (refsOK_step f h _ (by simp [WellScoped]))
      have := stepP_length f (.alloc s)
      simp only at this
      rw [this]; exact hs
    | instr w rs =>
      apply ih (stepP f (.instr w rs)) (refsOK_step f h _ ⟨hs.1, trivial⟩)
      have := stepP_length f (.instr w rs)
      simp only [Nat.add_zero] at this
      rw [this]; exact hs.2

/-- The frame part of the operand-carrying run is the plain run. -/
theorem runP_fn (f : FnP) (ops : List POp) : (runP f ops).fn = run f.fn (ops.map POp.toOp) := by
  induction ops generalizing f with
  | nil => rfl
  | cons op ops ih =>
    simp only [runP, run, List.foldl_cons, List.map_cons] at ih ⊢
    rw [ih]
    cases op <;> rfl

/-- The invariant of the frame gives the property for whatever `ensureBP` returns. -/
theorem ensureBP_localsOK (f : Fn) (hinv : Inv f) (noframe : Bool) (c : Compiled)
    (hc : ensureBP f noframe = some c) : LocalsOK (c.regions ++ c.forced.toList) c.frame := by
  obtain ⟨hreg, hcase⟩ := ensureBP_some f noframe c hc
  rw [hreg]
  rcases hcase with ⟨hfo, hfr⟩ | ⟨_, h0, hfo, hfr⟩
  · rw [hfo, hfr]
    simp only [Option.toList, List.append_nil]
    exact localsOK_of_inv _ _ hinv.bounds hinv.pairwise
  · rw [hfo, hfr]
    apply localsOK_of_inv
    · intro r hr
      simp only [Option.toList, List.mem_append, List.mem_singleton] at hr
      rcases hr with hr | hr
      · have := hinv.bounds r hr; omega
      · subst hr; simp only; omega
    · simp only [Option.toList]
      rw [List.pairwise_append]
      refine ⟨hinv.pairwise, by simp, ?_⟩
      intro a ha b hb
      simp only [List.mem_singleton] at hb
      subst hb
      have := hinv.bounds a ha
      intro x hx
      simp only [Region.Mem] at hx
      omega

/-- **C16 (pipeline step).**  `EnsureBasePointerCalleeSaved`, for every function state that satisfies the
allocation invariant and whose operands sit on their regions: the operands are unchanged, every operand still
addresses the region handed out for its local, and the regions (with the forced local, if one is added) satisfy
`LocalsOK` against the final frame. -/
theorem ensureBPFn_preserves (f : FnP) (hinv : Inv f.fn) (hrefs : RefsOK f) (noframe : Bool) (c : CompiledP)
    (hc : ensureBPFn f noframe = some c) :
    c.mems = f.mems ∧ c.frame.regions = f.fn.regions ∧
    (∀ p ∈ c.mems, AddrOK c.frame.regions ⟨p.1, p.2⟩) ∧
    LocalsOK (c.frame.regions ++ c.frame.forced.toList) c.frame.frame := by
  unfold ensureBPFn at hc
  cases hb : ensureBP f.fn noframe with
  | none => simp [hb] at hc
  | some c0 =>
    simp only [hb, Option.map_some, Option.some.injEq] at hc
    subst hc
    have hreg := (ensureBP_some f.fn noframe c0 hb).1
    refine ⟨rfl, hreg, ?_, ensureBP_localsOK f.fn hinv noframe c0 hb⟩
    intro p hp
    obtain ⟨g, hg, hd⟩ := hrefs p hp
    exact ⟨g, by simpa [hreg] using hg, hd⟩

/-- **C16 end to end, operands included (model).**  For every interleaving of non-negative allocations with
instructions carrying stack operands (each referring to a local allocated before it), with and without BP
clobbering, total below 2^31: the compiled function is accepted by the acceptor used on the implementation's
printed output — every operand addresses its handed-out region, and the regions satisfy the property against
the frame the assembler allocates for the printed TEXT line. -/
theorem final_ok (ops : List POp) (noframe : Bool) (c : CompiledP) (args : Nat)
    (hn : NonNeg (ops.map POp.toOp)) (hs : WellScoped 0 ops)
    (hc : compileP ops noframe = some c) (hlt : c.frame.frame < Avo.BP.frameLimit) :
    compile (ops.map POp.toOp) noframe = some c.frame ∧
    acceptFinal c.frame.regions c.frame.forced (c.mems.map (fun p => ⟨p.1, p.2⟩)) (textSize c.frame.frame args) = true := by
  unfold compileP at hc
  have hfn := runP_fn {} ops
  have hinv : Inv (runP {} ops).fn := by rw [hfn]; exact inv_run _ inv_init _ hn
  have hrefs : RefsOK (runP {} ops) := refsOK_run {} refsOK_init ops hs
  obtain ⟨_, _, haddr, _⟩ := ensureBPFn_preserves _ hinv hrefs noframe c hc
  have hc0 : compile (ops.map POp.toOp) noframe = some c.frame := by
    unfold compile
    unfold ensureBPFn at hc
    rw [hfn] at hc
    change ensureBP (run {} (ops.map POp.toOp)) noframe = some c.frame
    cases hb : ensureBP (run {} (List.map POp.toOp ops)) noframe with
    | none => simp [hb] at hc
    | some c0 => simp only [hb, Option.map_some, Option.some.injEq] at hc; subst hc; rfl
  refine ⟨hc0, ?_⟩
  unfold acceptFinal
  simp only [Bool.and_eq_true, List.all_eq_true, addrOKB_iff]
  refine ⟨?_, locals_in_text_frame _ noframe c.frame args hn hc0 hlt⟩
  intro s hs'
  obtain ⟨p, hp, rfl⟩ := List.mem_map.mp hs'
  exact haddr p hp

/-- Non-vacuity of `final_ok`: three locals of mixed sizes, operands on all of them, an author-written BP write
between them, 8 argument bytes. -/
example :
    acceptFinal [⟨0, 3⟩, ⟨3, 0⟩, ⟨3, 16⟩] none [⟨⟨0, 1, 2⟩, 1⟩, ⟨⟨2, 8, 8⟩, 11⟩, ⟨⟨2, 0, 0⟩, 3⟩] (textSize 19 8) = true :=
  (final_ok [.alloc 3, .instr false [⟨0, 1, 2⟩], .alloc 0, .alloc 16, .instr true [], .instr false [⟨2, 8, 8⟩, ⟨2, 0, 0⟩]] false
    ⟨⟨[⟨0, 3⟩, ⟨3, 0⟩, ⟨3, 16⟩], none, 19⟩, [(⟨0, 1, 2⟩, 1), (⟨2, 8, 8⟩, 11), (⟨2, 0, 0⟩, 3)]⟩ 8
    (by intro s hs; simp [allocSizes, POp.toOp] at hs; omega)
    (by simp [WellScoped])
    (by decide) (by decide)).2
/-- The seeded shape: one 8-byte local, BP written, the store printed at `8(SP)` under `$8`: rejected. -/
example : acceptFinal [⟨0, 8⟩] none [⟨⟨0, 0, 8⟩, 8⟩] "$8-8".toList = false := by decide +kernel
example : acceptFinal [⟨0, 8⟩] none [⟨⟨0, 0, 8⟩, 0⟩] "$8-8".toList = true := by decide +kernel
example : compileP [.alloc 8, .instr true [], .instr false [⟨0, 0, 8⟩]] false =
    some ⟨⟨[⟨0, 8⟩], none, 8⟩, [(⟨0, 0, 8⟩, 0)]⟩ := by decide
example : compileP [.instr true [], .alloc 0, .instr false [⟨0, 0, 0⟩]] false =
    some ⟨⟨[⟨0, 0⟩], some ⟨0, 8⟩, 8⟩, [(⟨0, 0, 0⟩, 0)]⟩ := by decide

/-! #### The measured function (assembled and disassembled) -/

/-- What `accept-asm` establishes about the measured displacements, access widths, frame top and reserved
slots (the saved-BP word and the return address as the prologue really laid them out). -/
def MeasuredOK (regions : List Region) (seen : List Seen) (top : Int) (reserved : List Region) : Prop :=
  (∀ s ∈ seen, AddrOK regions s) ∧
  (∀ s ∈ seen, ∀ g, regions[s.ref.loc]? = some g → ∀ x, (⟨s.disp, s.ref.width⟩ : Region).Mem x → g.Mem x) ∧
  (∀ r ∈ regions, Inside r top) ∧ regions.Pairwise Disjoint ∧
  (∀ sl ∈ reserved, ∀ r ∈ regions, Disjoint r sl)

theorem acceptMeasured_iff (regions : List Region) (seen : List Seen) (top : Int) (reserved : List Region) :
    acceptMeasured regions seen top reserved = true ↔ MeasuredOK regions seen top reserved := by
  unfold acceptMeasured MeasuredOK
  simp only [Bool.and_eq_true, List.all_eq_true, addrOKB_iff, insideB_iff, pairwiseB_iff, disjointB_iff]
  have hacc : ∀ s, accessInB regions s = true ↔
      (∃ g, regions[s.ref.loc]? = some g) ∧
      ∀ g, regions[s.ref.loc]? = some g → ∀ x, (⟨s.disp, s.ref.width⟩ : Region).Mem x → g.Mem x := by
    intro s
    unfold accessInB
    cases hg : regions[s.ref.loc]? with
    | none => simp
    | some g =>
      simp only [Bool.or_eq_true, Bool.and_eq_true, decide_eq_true_eq, Option.some.injEq, exists_eq', true_and,
        forall_eq', Region.Mem]
      constructor
      · intro h x hx; omega
      · intro h
        by_cases hw : s.ref.width ≤ 0
        · exact Or.inl hw
        · have h1 := h s.disp (by omega)
          have h2 := h (s.disp + s.ref.width - 1) (by omega)
          exact Or.inr (by omega)
  constructor
  · rintro ⟨⟨⟨⟨a, b⟩, c⟩, d⟩, e⟩
    exact ⟨a, fun s hs => ((hacc s).mp (b s hs)).2, c, d, e⟩
  · rintro ⟨a, b, c, d, e⟩
    refine ⟨⟨⟨⟨a, ?_⟩, c⟩, d⟩, e⟩
    intro s hs
    obtain ⟨g, hg, _⟩ := a s hs
    exact (hacc s).mpr ⟨⟨g, hg⟩, b s hs⟩

-- the measured shape of the seeded change: `$8` frame, prologue PUSHQ BP; SUBQ $8, SP → top 8, BP word at [8,16),
-- return address at [16,24); the 8-byte store decoded at 8(SP)
example : acceptMeasured [⟨0, 8⟩] [⟨⟨0, 0, 8⟩, 8⟩] 8 [⟨8, 8⟩, ⟨16, 8⟩] = false := by decide
example : acceptMeasured [⟨0, 8⟩] [⟨⟨0, 0, 8⟩, 0⟩] 8 [⟨8, 8⟩, ⟨16, 8⟩] = true := by decide
-- an access wider than the local is rejected although its address is right
example : acceptMeasured [⟨0, 4⟩, ⟨4, 4⟩] [⟨⟨0, 0, 8⟩, 0⟩] 8 [⟨8, 8⟩] = false := by decide

/-! ### Non-vacuity -/

example : compile [.alloc 3, .instr false, .alloc 0, .alloc 16, .instr true] false =
    some ⟨[⟨0, 3⟩, ⟨3, 0⟩, ⟨3, 16⟩], none, 19⟩ := by decide
example : compile [.instr true, .alloc 0] false = some ⟨[⟨0, 0⟩], some ⟨0, 8⟩, 8⟩ := by decide
example : compile [.instr true] true = none := by decide
example : NonNeg [.alloc 3, .instr false, .alloc 0, .alloc 16, .instr true] := by
  intro s hs; simp [allocSizes] at hs; omega
example : acceptLocals [⟨0, 3⟩, ⟨3, 0⟩, ⟨3, 16⟩] 19 = true := by decide
example : acceptLocals [⟨0, 8⟩, ⟨4, 8⟩] 12 = false := by decide
example : acceptLocals [⟨0, 8⟩, ⟨8, 8⟩] 12 = false := by decide
example : textSize 24 16 = "$24-16".toList := by decide
example : stackAddrAsm 8 = "8(SP)".toList := by decide

end Avo.Locals
