/-
C16 — Stack locals are disjoint and inside the declared frame.
Statements and property theorems only.

Quantifier: all sequences of local allocations (sizes ≥ 0, incl. 0 and
unaligned) interleaved with instruction emission, with and without
frame-pointer clobbering.  Negative sizes are outside the property.
-/
import AvoVerif.Model.Locals
import AvoVerif.Lemmas.NumText
namespace Avo.Locals

/-! ### Statement (byte level, no algorithm in it) -/

/-- Byte `x` (offset from the hardware SP) belongs to the region. -/
def Region.Mem (r : Region) (x : Int) : Prop := r.off ≤ x ∧ x < r.off + r.size

/-- The regions share no byte. -/
def Disjoint (r s : Region) : Prop := ∀ x, ¬ (r.Mem x ∧ s.Mem x)

/-- Every byte of the region is inside the declared frame `[0, frame)`. -/
def Inside (r : Region) (frame : Int) : Prop := ∀ x, r.Mem x → 0 ≤ x ∧ x < frame

/-- **The property** for the regions handed out by one function and the frame
size declared on its TEXT line. -/
def LocalsOK (regions : List Region) (frame : Int) : Prop :=
  (∀ r ∈ regions, Inside r frame) ∧ regions.Pairwise Disjoint ∧
  (∀ r ∈ regions, Disjoint r (bpSlot frame))

/-- Sizes requested by the program, in order. -/
def allocSizes : List Op → List Int
  | [] => []
  | .alloc s :: ops => s :: allocSizes ops
  | .instr _ :: ops => allocSizes ops

/-- The program is inside the property's quantifier: no negative size. -/
def NonNeg (ops : List Op) : Prop := ∀ s ∈ allocSizes ops, 0 ≤ s

/-! ### Acceptor soundness and completeness -/

theorem disjointB_iff (r s : Region) : disjointB r s = true ↔ Disjoint r s := by
  unfold disjointB Disjoint Region.Mem Region.nonempty
  constructor
  · intro h x hx
    simp only [Bool.or_eq_true, Bool.not_eq_true', decide_eq_false_iff_not, decide_eq_true_eq] at h
    omega
  · intro h
    simp only [Bool.or_eq_true, Bool.not_eq_true', decide_eq_false_iff_not, decide_eq_true_eq]
    by_cases h1 : 0 < r.size
    · by_cases h2 : 0 < s.size
      · by_cases h3 : r.off ≤ s.off
        · have := h s.off; omega
        · have := h r.off; omega
      · omega
    · omega

theorem insideB_iff (r : Region) (frame : Int) : insideB r frame = true ↔ Inside r frame := by
  unfold insideB Inside Region.Mem Region.nonempty
  constructor
  · intro h x hx
    simp only [Bool.or_eq_true, Bool.not_eq_true', decide_eq_false_iff_not, Bool.and_eq_true, decide_eq_true_eq] at h
    omega
  · intro h
    simp only [Bool.or_eq_true, Bool.not_eq_true', decide_eq_false_iff_not, Bool.and_eq_true, decide_eq_true_eq]
    by_cases h1 : 0 < r.size
    · have ha := h r.off (by omega)
      have hb := h (r.off + r.size - 1) (by omega)
      omega
    · omega

theorem pairwiseB_iff (rs : List Region) : pairwiseB rs = true ↔ rs.Pairwise Disjoint := by
  induction rs with
  | nil => simp [pairwiseB]
  | cons r rs ih =>
    simp only [pairwiseB, Bool.and_eq_true, List.all_eq_true, List.pairwise_cons, ih, disjointB_iff]

/-- The executable acceptor decides exactly the property. -/
theorem acceptLocals_iff (rs : List Region) (frame : Int) :
    acceptLocals rs frame = true ↔ LocalsOK rs frame := by
  unfold acceptLocals LocalsOK
  simp only [Bool.and_eq_true, List.all_eq_true, insideB_iff, pairwiseB_iff, disjointB_iff]
  constructor
  · rintro ⟨⟨a, b⟩, c⟩; exact ⟨a, b, c⟩
  · rintro ⟨a, b, c⟩; exact ⟨⟨a, b⟩, c⟩

/-! ### The allocation invariant -/

def sumInt : List Int → Int
  | [] => 0
  | x :: xs => x + sumInt xs

theorem sumInt_append (xs ys : List Int) : sumInt (xs ++ ys) = sumInt xs + sumInt ys := by
  induction xs with
  | nil => simp [sumInt]
  | cons x xs ih => simp [sumInt, ih]; omega

/-- Invariant of a function under construction. -/
structure Inv (f : Fn) : Prop where
  nonneg : 0 ≤ f.localSize
  bounds : ∀ r ∈ f.regions, 0 ≤ r.off ∧ 0 ≤ r.size ∧ r.off + r.size ≤ f.localSize
  pairwise : f.regions.Pairwise Disjoint
  total : f.localSize = sumInt (f.regions.map (·.size))

theorem inv_init : Inv {} := ⟨by decide, by simp, by simp, by simp [sumInt]⟩

theorem inv_alloc (f : Fn) (h : Inv f) (s : Int) (hs : 0 ≤ s) : Inv (allocLocal f s) := by
  refine ⟨?_, ?_, ?_, ?_⟩
  · have := h.nonneg; simp only [allocLocal]; omega
  · intro r hr
    simp only [allocLocal, List.mem_append, List.mem_singleton] at hr ⊢
    rcases hr with hr | hr
    · have := h.bounds r hr; omega
    · subst hr; have := h.nonneg; simp only; omega
  · simp only [allocLocal]
    rw [List.pairwise_append]
    refine ⟨h.pairwise, by simp, ?_⟩
    intro a ha b hb
    simp only [List.mem_singleton] at hb
    subst hb
    have := h.bounds a ha
    intro x hx
    simp only [Region.Mem] at hx
    omega
  · simp only [allocLocal, List.map_append, sumInt_append, List.map_cons, List.map_nil, sumInt]
    have := h.total; omega

theorem run_regions_sizes (f : Fn) (ops : List Op) :
    (run f ops).regions.map (·.size) = f.regions.map (·.size) ++ allocSizes ops := by
  induction ops generalizing f with
  | nil => simp [run, allocSizes]
  | cons op ops ih =>
    cases op with
    | alloc s =>
      have := ih (allocLocal f s)
      simp only [run, List.foldl_cons, step] at this ⊢
      rw [this]; simp [allocLocal, allocSizes]
    | instr w =>
      have := ih { f with clobbered := f.clobbered || w }
      simp only [run, List.foldl_cons, step] at this ⊢
      rw [this]; simp [allocSizes]

theorem inv_run (f : Fn) (h : Inv f) (ops : List Op) (hn : NonNeg ops) : Inv (run f ops) := by
  induction ops generalizing f with
  | nil => exact h
  | cons op ops ih =>
    cases op with
    | alloc s =>
      have hs : 0 ≤ s := hn s (by simp [allocSizes])
      have hn' : NonNeg ops := fun t ht => hn t (by simp [allocSizes, ht])
      exact ih (allocLocal f s) (inv_alloc f h s hs) hn'
    | instr w =>
      have hn' : NonNeg ops := fun t ht => hn t (by simpa [allocSizes] using ht)
      exact ih { f with clobbered := f.clobbered || w } ⟨h.nonneg, h.bounds, h.pairwise, h.total⟩ hn'

theorem localsOK_of_inv (rs : List Region) (frame : Int)
    (hb : ∀ r ∈ rs, 0 ≤ r.off ∧ 0 ≤ r.size ∧ r.off + r.size ≤ frame) (hp : rs.Pairwise Disjoint) :
    LocalsOK rs frame := by
  refine ⟨?_, hp, ?_⟩
  · intro r hr x hx
    have := hb r hr; simp only [Region.Mem] at hx; omega
  · intro r hr x hx
    have := hb r hr; simp only [Region.Mem, bpSlot] at hx; omega

/-- What `ensureBP` can return. -/
theorem ensureBP_some (f : Fn) (noframe : Bool) (c : Compiled) (h : ensureBP f noframe = some c) :
    c.regions = f.regions ∧
    ((c.forced = none ∧ c.frame = f.localSize) ∨
     (f.clobbered = true ∧ f.localSize = 0 ∧ c.forced = some ⟨0, 8⟩ ∧ c.frame = 8)) := by
  unfold ensureBP at h
  cases hcl : f.clobbered <;> cases noframe <;> simp only [hcl, Bool.not_true, Bool.not_false, Bool.false_eq_true, if_true, if_false] at h
  · cases h; exact ⟨rfl, Or.inl ⟨rfl, rfl⟩⟩
  · cases h; exact ⟨rfl, Or.inl ⟨rfl, rfl⟩⟩
  · by_cases h3 : (f.localSize == 0) = true
    · have h0 : f.localSize = 0 := by simpa using h3
      simp only [h3, if_true] at h
      cases h
      refine ⟨rfl, Or.inr ⟨rfl, h0, ?_, ?_⟩⟩
      · simp only [h0, pointerSize]
      · simp only [h0, pointerSize]; omega
    · simp only [h3] at h
      cases h; exact ⟨rfl, Or.inl ⟨rfl, rfl⟩⟩
  · cases h

/-! ### Property theorems -/

/-- **C16 (allocation).** For every interleaving of non-negative allocations
with instructions, whatever the base-pointer handling decides: the regions
handed out (together with the forced 8-byte local if one was added) lie inside
the final frame, are pairwise disjoint and do not touch the slot where the
assembler saves BP; the user regions have exactly the requested sizes; the
frame is the sum of all allocated sizes. -/
theorem locals_ok (ops : List Op) (noframe : Bool) (c : Compiled)
    (hn : NonNeg ops) (hc : compile ops noframe = some c) :
    LocalsOK (c.regions ++ c.forced.toList) c.frame ∧
    c.regions.map (·.size) = allocSizes ops ∧
    c.frame = sumInt (allocSizes ops) + (match c.forced with | some r => r.size | none => 0) := by
  have hinv := inv_run {} inv_init ops hn
  have hsz := run_regions_sizes {} ops
  simp only [List.map_nil, List.nil_append] at hsz
  unfold compile at hc
  generalize run {} ops = f at hinv hsz hc
  have htot := hinv.total
  rw [hsz] at htot
  obtain ⟨hreg, hcase⟩ := ensureBP_some f noframe c hc
  rw [hreg]
  rcases hcase with ⟨hfo, hfr⟩ | ⟨_, h0, hfo, hfr⟩
  · rw [hfo, hfr]
    refine ⟨?_, hsz, by simp only; omega⟩
    simp only [Option.toList, List.append_nil]
    exact localsOK_of_inv _ _ hinv.bounds hinv.pairwise
  · rw [hfo, hfr]
    refine ⟨?_, hsz, by simp only; omega⟩
    apply localsOK_of_inv
    · intro r hr
      simp only [Option.toList, List.mem_append, List.mem_singleton] at hr
      rcases hr with hr | hr
      · have := hinv.bounds r hr; omega
      · subst hr; simp only; omega
    · simp only [Option.toList]
      rw [List.pairwise_append]
      refine ⟨hinv.pairwise, by simp, ?_⟩
      intro a ha b hb
      simp only [List.mem_singleton] at hb
      subst hb
      have := hinv.bounds a ha
      intro x hx
      simp only [Region.Mem] at hx
      omega

/-- **C16 (forced local).** The 8-byte local that `EnsureBasePointerCalleeSaved`
adds is never one handed out to the user: it shares no byte with any user
region, is inside the frame, and is added only when BP is written and the
program allocated nothing. -/
theorem forced_local_not_handed_out (ops : List Op) (noframe : Bool) (c : Compiled)
    (hn : NonNeg ops) (hc : compile ops noframe = some c) (r : Region) (hr : c.forced = some r) :
    r.size = 8 ∧ Inside r c.frame ∧ (∀ u ∈ c.regions, Disjoint u r) ∧
    (run {} ops).clobbered = true ∧ sumInt (allocSizes ops) = 0 := by
  have hok := locals_ok ops noframe c hn hc
  obtain ⟨⟨hin, hpw, _⟩, _, hfr⟩ := hok
  rw [hr] at hin hpw hfr
  simp only [Option.toList] at hin hpw
  have hmem : r ∈ c.regions ++ [r] := by simp
  rw [List.pairwise_append] at hpw
  unfold compile at hc
  obtain ⟨_, hcase⟩ := ensureBP_some _ noframe c hc
  rcases hcase with ⟨hfo, _⟩ | ⟨hcl, _, hfo, hfr8⟩
  · rw [hfo] at hr; cases hr
  · rw [hfo] at hr; cases hr
    refine ⟨rfl, hin _ hmem, fun u hu => hpw.2.2 u hu _ (by simp), hcl, ?_⟩
    simp only at hfr; omega

theorem parseTextSize_dollar (body : List Char) : parseTextSize ('$' :: body) = parseTextBody body := by
  have hd : (('$' : Char) != '$') = false := by decide
  rw [parseTextSize]; simp only [hd, Bool.false_eq_true, if_false]

/-- **C16 (TEXT line).** The frame size printed on the TEXT line reads back as
`FrameBytes()` (and the argument size, when printed, as itself). -/
theorem text_frame (frame args : Nat) :
    parseTextSize (textSize frame args) =
      some (frame, if args > 0 then some args else none) := by
  unfold textSize NumText.intDec
  have hf : ¬ ((frame : Int) < 0) := by omega
  have ha : ¬ ((args : Int) < 0) := by omega
  simp only [hf, ha, if_false, Int.natAbs_natCast]
  rw [parseTextSize_dollar]
  unfold parseTextBody
  by_cases h : args > 0
  · have h' : ((args : Int) > 0) := by omega
    simp only [h, h', if_true]
    have hm : (('-' : Char) != '-') = false := by decide
    obtain ⟨e1, e2⟩ := NumText.takeWhile_append_stop (· != '-') (NumText.digits 10 frame) '-'
      (NumText.digits 10 args) (NumText.digits_no_minus frame) hm
    rw [e1, e2, NumText.parseNat_digits 10 (by omega) (by omega)]
    simp [NumText.parseNat_digits 10 (by omega) (by omega)]
  · have h' : ¬ ((args : Int) > 0) := by omega
    simp only [h, h', if_false, List.append_nil]
    obtain ⟨e1, e2⟩ := NumText.takeWhile_all (· != '-') (NumText.digits 10 frame) (NumText.digits_no_minus frame)
    rw [e1, e2, NumText.parseNat_digits 10 (by omega) (by omega)]

/-- **C16 (TEXT line as the assembler reads it).**  Below 2^31 the frame the
assembler allocates is `FrameBytes()`.  The bound is an explicit hypothesis the
property's quantifier does not grant: see `text_frame_wraps`. -/
theorem asm_text_frame (frame args : Nat) (h : (frame : Int) < Avo.BP.frameLimit) :
    asmTextFrame (textSize frame args) = some (frame : Int) := by
  unfold asmTextFrame
  rw [text_frame]
  simp only [Option.map_some]
  rw [Avo.BP.autoffset_of_lt _ (by omega) h]

/-- **The property fails at 2^31 (finding C16-frame-int32).**  `AllocLocal(1<<31)`
is handed out as `[0, 2^31)` and printed as `$2147483648`; the assembler
allocates NO frame for that text, so the region is not inside the frame (it is
the return address and the caller's frame). -/
theorem text_frame_wraps :
    compile [.alloc 2147483648] false = some ⟨[⟨0, 2147483648⟩], none, 2147483648⟩ ∧
    asmTextFrame (textSize 2147483648 0) = some 0 ∧
    ¬ LocalsOK [⟨0, 2147483648⟩] 0 := by
  refine ⟨by decide, by decide +kernel, ?_⟩
  rw [← acceptLocals_iff]; decide

/-- Soundness of the acceptor used on the implementation's regions and printed
TEXT size: what it accepts satisfies the property against the frame the
assembler really allocates. -/
theorem acceptLocalsText_sound (rs : List Region) (text : List Char) (h : acceptLocalsText rs text = true) :
    ∃ fr, asmTextFrame text = some fr ∧ LocalsOK rs fr := by
  unfold acceptLocalsText at h
  cases hf : asmTextFrame text with
  | none => simp [hf] at h
  | some fr => simp only [hf] at h; exact ⟨fr, rfl, (acceptLocals_iff rs fr).mp h⟩

/-- **C16 end to end (model)**: for every interleaving of non-negative
allocations with instructions whose total stays below 2^31, the regions handed
out (and the forced local) satisfy the property against the frame the assembler
allocates for the printed TEXT line. -/
theorem locals_in_text_frame (ops : List Op) (noframe : Bool) (c : Compiled) (args : Nat)
    (hn : NonNeg ops) (hc : compile ops noframe = some c) (hlt : c.frame < Avo.BP.frameLimit) :
    acceptLocalsText (c.regions ++ c.forced.toList) (textSize c.frame args) = true := by
  obtain ⟨hok, _, hfr⟩ := locals_ok ops noframe c hn hc
  have h0 : 0 ≤ c.frame := by
    have hs : ∀ l : List Int, (∀ s ∈ l, 0 ≤ s) → 0 ≤ sumInt l := by
      intro l; induction l with
      | nil => intro _; simp [sumInt]
      | cons x xs ih =>
        intro h
        have := ih (fun s hs => h s (List.mem_cons_of_mem _ hs))
        have := h x List.mem_cons_self
        simp only [sumInt]; omega
    have := hs (allocSizes ops) hn
    unfold compile at hc
    obtain ⟨_, hcase⟩ := ensureBP_some _ noframe c hc
    rcases hcase with ⟨hfo, _⟩ | ⟨_, _, hfo, _⟩ <;> rw [hfo] at hfr <;> simp only at hfr <;> omega
  obtain ⟨n, hn'⟩ : ∃ n : Nat, c.frame = (n : Int) := ⟨c.frame.toNat, by omega⟩
  unfold acceptLocalsText
  rw [hn', asm_text_frame n args (by omega)]
  simp only
  rw [acceptLocals_iff, ← hn']
  exact hok

/-- The hypotheses of `locals_in_text_frame` are satisfiable (non-vacuity): an unaligned local, an empty one, a
BP write, 8 argument bytes. -/
example : acceptLocalsText [⟨0, 3⟩, ⟨3, 0⟩, ⟨3, 16⟩] (textSize 19 8) = true :=
  locals_in_text_frame [.alloc 3, .instr false, .alloc 0, .alloc 16, .instr true] false ⟨[⟨0, 3⟩, ⟨3, 0⟩, ⟨3, 16⟩], none, 19⟩ 8
    (by intro s hs; simp [allocSizes] at hs; omega) (by decide) (by decide)
example : acceptLocalsText [⟨0, 3⟩, ⟨3, 0⟩, ⟨3, 16⟩] "$19-8".toList = true := by decide +kernel
example : acceptLocalsText [⟨0, 2147483648⟩] "$2147483648".toList = false := by decide +kernel
example : acceptLocalsText [⟨0, 8⟩] "$4294967304".toList = true := by decide +kernel     -- 2^32+8 is an 8-byte frame
example : acceptLocalsText [⟨0, 16⟩] "$4294967304".toList = false := by decide +kernel

/-- **C16 (operand).** The operand returned by `AllocLocal` prints as a plain
hardware-SP reference whose displacement is the region's offset. -/
theorem stack_addr_text (off : Nat) : parseStackAddr (stackAddrAsm off) = some (off : Int) := by
  unfold stackAddrAsm parseStackAddr
  have hp : (('(' : Char) != '(') = false := by decide
  by_cases h0 : off = 0
  · subst h0
    simp
  · have hne : ((off : Int) != 0) = true := by simp; omega
    simp only [hne, if_true]
    have hi : NumText.intDec (off : Int) = NumText.digits 10 off := by
      unfold NumText.intDec
      have : ¬ ((off : Int) < 0) := by omega
      simp [this]
    rw [hi]
    obtain ⟨e1, e2⟩ := NumText.takeWhile_append_stop (· != '(') (NumText.digits 10 off) '('
      ['S', 'P', ')'] (NumText.digits_no_paren off) hp
    rw [e1, e2]
    have hne2 : (NumText.digits 10 off).isEmpty = false := by
      have := NumText.digitsFuel_ne_nil 10 off off
      unfold NumText.digits
      cases hd : NumText.digitsFuel 10 (off + 1) off with
      | nil => exact absurd hd this
      | cons c cs => rfl
    simp only [bne_self_eq_false, Bool.false_eq_true, if_false, hne2]
    rw [← hi]
    exact NumText.parseIntLit_intDec off

/-! ### Execution reading: writes to one local never change another -/

/-- Stack memory as a function of the SP offset. -/
abbrev Memory := Int → Nat

/-- Store the pattern `v` into every byte of region `r`. -/
def write (m : Memory) (r : Region) (v : Memory) : Memory :=
  fun x => if r.off ≤ x ∧ x < r.off + r.size then v x else m x

/-- Store into all regions in list order. -/
def writeAll (m : Memory) : List (Region × Memory) → Memory
  | [] => m
  | (r, v) :: rest => writeAll (write m r v) rest

theorem writeAll_other (m : Memory) (ws : List (Region × Memory)) (x : Int)
    (h : ∀ w ∈ ws, ¬ w.1.Mem x) : writeAll m ws x = m x := by
  induction ws generalizing m with
  | nil => rfl
  | cons w ws ih =>
    obtain ⟨r, v⟩ := w
    simp only [writeAll]
    rw [ih _ (fun w hw => h w (List.mem_cons_of_mem _ hw))]
    have := h (r, v) List.mem_cons_self
    simp only [Region.Mem] at this
    simp [write, this]

/-- **C16 (execution).** When the regions are pairwise disjoint, after storing a
pattern into every local (in any order given by the list), each local reads
back its own pattern on every one of its bytes — and every byte outside all
locals (in particular the BP save slot) is unchanged. -/
theorem read_back (m : Memory) (ws : List (Region × Memory))
    (hp : (ws.map (·.1)).Pairwise Disjoint) :
    (∀ w ∈ ws, ∀ x, w.1.Mem x → writeAll m ws x = w.2 x) ∧
    (∀ x, (∀ w ∈ ws, ¬ w.1.Mem x) → writeAll m ws x = m x) := by
  refine ⟨?_, fun x h => writeAll_other m ws x h⟩
  induction ws generalizing m with
  | nil => intro w hw; cases hw
  | cons w0 ws ih =>
    obtain ⟨r0, v0⟩ := w0
    simp only [List.map_cons, List.pairwise_cons] at hp
    intro w hw x hx
    simp only [List.mem_cons] at hw
    rcases hw with hw | hw
    · subst hw
      simp only [writeAll]
      rw [writeAll_other]
      · simp only [Region.Mem] at hx; simp [write, hx]
      · intro w' hw' hx'
        exact hp.1 w'.1 (List.mem_map.mpr ⟨w', hw', rfl⟩) x ⟨hx, hx'⟩
    · simp only [writeAll]
      exact ih _ hp.2 w hw x hx

/-! ### Non-vacuity -/

example : compile [.alloc 3, .instr false, .alloc 0, .alloc 16, .instr true] false =
    some ⟨[⟨0, 3⟩, ⟨3, 0⟩, ⟨3, 16⟩], none, 19⟩ := by decide
example : compile [.instr true, .alloc 0] false = some ⟨[⟨0, 0⟩], some ⟨0, 8⟩, 8⟩ := by decide
example : compile [.instr true] true = none := by decide
example : NonNeg [.alloc 3, .instr false, .alloc 0, .alloc 16, .instr true] := by
  intro s hs; simp [allocSizes] at hs; omega
example : acceptLocals [⟨0, 3⟩, ⟨3, 0⟩, ⟨3, 16⟩] 19 = true := by decide
example : acceptLocals [⟨0, 8⟩, ⟨4, 8⟩] 12 = false := by decide
example : acceptLocals [⟨0, 8⟩, ⟨8, 8⟩] 12 = false := by decide
example : textSize 24 16 = "$24-16".toList := by decide
example : stackAddrAsm 8 = "8(SP)".toList := by decide

end Avo.Locals
