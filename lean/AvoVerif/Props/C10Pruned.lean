/-
C10 — the three model passes delete removable nodes only (`Pruned`, the
statement the acceptor checks on the implementation's output), under the
well-formedness conditions that the form table provides:

* `pruneJumps_pruned`     — flagged branches have a `J…` opcode (C09: `features_are_x86_classes`);
* `pruneLabels_pruned`    — only branches carry a label operand.  This is exactly what FAILS for
                            `CALL label` (finding F10b): `pruneLabels_not_pruned_call` shows the model
                            pass (which mirrors the code) leaving the statement on the witness;
* `pruneSelfMoves_pruned` — the operand widths fit the opcode, so that the move has a semantics
                            (`isSelfMove → isNoopMove`).
-/
import AvoVerif.Props.C10Accept
namespace Avo.Cleanup
open Avo.Func Avo.Reg

theorem pruneSelfMovesAux_pruned (res0 : List XNode) : ∀ ns : List XNode,
    (∀ i, XNode.instr i ∈ ns → isSelfMove i = true → isNoopMove i = true) →
    Pruned res0 ns (pruneSelfMovesAux ns)
  | [], _ => Pruned.nil
  | .label l :: r, h => by
    unfold pruneSelfMovesAux
    exact Pruned.keep _ _ _ (pruneSelfMovesAux_pruned res0 r (fun i hi => h i (List.mem_cons_of_mem _ hi)))
  | .comment :: r, h => by
    unfold pruneSelfMovesAux
    exact Pruned.keep _ _ _ (pruneSelfMovesAux_pruned res0 r (fun i hi => h i (List.mem_cons_of_mem _ hi)))
  | .instr i :: rest, h => by
    unfold pruneSelfMovesAux
    by_cases hs : isSelfMove i = true
    · have hrem : Removable res0 (.instr i) rest := Or.inl (isNoopMove_spec i (h i List.mem_cons_self hs))
      simp only [hs, if_true]
      cases rest with
      | nil => exact Pruned.drop _ _ _ hrem Pruned.nil
      | cons n r' =>
        exact Pruned.drop _ _ _ hrem (Pruned.keep _ _ _
          (pruneSelfMovesAux_pruned res0 r' (fun j hj => h j (List.mem_cons_of_mem _ (List.mem_cons_of_mem _ hj)))))
    · simp only [hs]
      exact Pruned.keep _ _ _ (pruneSelfMovesAux_pruned res0 rest (fun j hj => h j (List.mem_cons_of_mem _ hj)))

/-- **Self-move removal (model) deletes removable nodes only.** -/
theorem pruneSelfMoves_pruned (W : List XNode)
    (hwf : ∀ i, XNode.instr i ∈ W → isSelfMove i = true → isNoopMove i = true) :
    Pruned (pruneSelfMoves W) W (pruneSelfMoves W) :=
  pruneSelfMovesAux_pruned _ W hwf

theorem filter_keepNode_pruned (W res0 : List XNode)
    (hrem : ∀ l, referenced W l = false → ∀ i, XNode.instr i ∈ res0 → i.cf.labelOp ≠ some l) :
    ∀ c : List XNode, Pruned res0 c (c.filter (keepNode W))
  | [] => Pruned.nil
  | .instr i :: r => by
    have : (XNode.instr i :: r).filter (keepNode W) = XNode.instr i :: r.filter (keepNode W) := rfl
    rw [this]; exact Pruned.keep _ _ _ (filter_keepNode_pruned W res0 hrem r)
  | .comment :: r => by
    have : (XNode.comment :: r).filter (keepNode W) = XNode.comment :: r.filter (keepNode W) := rfl
    rw [this]; exact Pruned.keep _ _ _ (filter_keepNode_pruned W res0 hrem r)
  | .label l :: r => by
    by_cases hk : referenced W l = true
    · have : (XNode.label l :: r).filter (keepNode W) = XNode.label l :: r.filter (keepNode W) := by simp [keepNode, hk]
      rw [this]; exact Pruned.keep _ _ _ (filter_keepNode_pruned W res0 hrem r)
    · have : (XNode.label l :: r).filter (keepNode W) = r.filter (keepNode W) := by simp [keepNode, hk]
      rw [this]
      exact Pruned.drop _ _ _ (hrem l (by simpa using hk)) (filter_keepNode_pruned W res0 hrem r)

/-- **Label removal (model) deletes removable nodes only — provided only branches
carry a label operand.** -/
theorem pruneLabels_pruned (W : List XNode)
    (hnb : ∀ i, XNode.instr i ∈ W → i.cf.labelOp ≠ none → i.cf.isBranch = true) :
    Pruned (pruneLabels W) W (pruneLabels W) := by
  have h := filter_keepNode_pruned W (pruneLabels W) ?_ W
  · rw [pruneLabels_eq]; rw [pruneLabels_eq] at h; exact h
  · intro l hl i hi he
    have hiW : XNode.instr i ∈ W := by
      rw [pruneLabels_eq] at hi; exact (List.mem_filter.mp hi).1
    have hb := hnb i hiW (by rw [he]; simp)
    have : referenced W l = true := by
      unfold referenced
      exact List.any_eq_true.mpr ⟨.instr i, hiW, by simp [hb, Instr.target, he]⟩
    rw [hl] at this; cases this

/-- `CALL sub; RET; sub: RET` -/
def callWitness : List XNode :=
  [.instr ⟨0, ⟨false, false, false, some "sub"⟩, "CALL", []⟩, .instr ⟨1, ⟨false, false, true, none⟩, "RET", []⟩,
   .label "sub", .instr ⟨2, ⟨false, false, true, none⟩, "RET", []⟩]

/-- The hypothesis of `pruneLabels_pruned` is needed — **finding F10b**: on
`CALL sub; RET; sub: RET` the model pass (= the code) deletes `sub:`, and the
result is NOT obtained by deleting removable nodes only. -/
theorem pruneLabels_not_pruned_call : ¬ Pruned (pruneLabels callWitness) callWitness (pruneLabels callWitness) := by
  intro hp
  have hpl : pruneLabels callWitness = [.instr ⟨0, ⟨false, false, false, some "sub"⟩, "CALL", []⟩,
      .instr ⟨1, ⟨false, false, true, none⟩, "RET", []⟩, .instr ⟨2, ⟨false, false, true, none⟩, "RET", []⟩] := by decide
  rw [hpl] at hp
  -- an instruction without operands that is not a jump cannot be dropped …
  have hnr : ∀ (res0 : List XNode) (i : XInstr) suf, i.ops = [] → isJumpOpcode i.opcode = false →
      ¬ Removable res0 (.instr i) suf := by
    intro res0 i suf hops hj hr
    rcases hr with (⟨r, hr, _⟩ | ⟨r, k, hr, _⟩) | ⟨hj', _⟩
    · rw [hops] at hr; cases hr
    · rw [hops] at hr; cases hr
    · rw [hj] at hj'; cases hj'
  unfold callWitness at hp
  cases hp with
  | drop _ _ _ hr _ => exact hnr _ _ _ rfl (by decide +kernel) hr
  | keep _ _ _ hp =>
    cases hp with
    | drop _ _ _ hr _ => exact hnr _ _ _ rfl (by decide +kernel) hr
    | keep _ _ _ hp =>
      -- … so the label is dropped, although the remaining `CALL` refers to it
      cases hp with
      | drop _ _ _ hr _ =>
        exact hr ⟨0, ⟨false, false, false, some "sub"⟩, "CALL", []⟩ (by simp) rfl

theorem pruneJumps_pruned (res0 : List XNode) : ∀ ns : List XNode,
    (∀ i, XNode.instr i ∈ ns → i.cf.isBranch = true → isJumpOpcode i.opcode = true) →
    Pruned res0 ns (pruneJumps ns)
  | [], _ => Pruned.nil
  | [n], _ => by unfold pruneJumps; exact Pruned.keep _ _ _ Pruned.nil
  | n :: next :: rest, h => by
    have ih := pruneJumps_pruned res0 (next :: rest) (fun i hi => h i (List.mem_cons_of_mem _ hi))
    unfold pruneJumps
    by_cases hj : jumpsToNext n next = true
    · rw [if_pos hj]
      refine Pruned.drop _ _ _ ?_ ih
      cases n with
      | label _ => simp [jumpsToNext] at hj
      | comment => simp [jumpsToNext] at hj
      | instr i =>
        cases next with
        | comment => simp [jumpsToNext] at hj
        | instr _ => simp [jumpsToNext] at hj
        | label l =>
          simp only [jumpsToNext, Bool.and_eq_true, Bool.not_eq_true', beq_iff_eq] at hj
          obtain ⟨⟨hb, _⟩, ht⟩ := hj
          right
          refine ⟨h i List.mem_cons_self hb, l, ?_, by simp [leadingLabels]⟩
          simpa [Instr.target, hb] using ht
    · rw [if_neg hj]; exact Pruned.keep _ _ _ ih

/-- Non-vacuity of the hypotheses. -/
example : Pruned [] [.instr ⟨0, ⟨true, false, false, some "l"⟩, "JMP", []⟩, .label "l"] [] :=
  walk_sound _ _ _ (by decide +kernel)

end Avo.Cleanup
