import AvoVerif.Drv.Common
import AvoVerif.Model.Instr
import AvoVerif.Gen.FormsMeta
/-
Protocol handlers of C06 (compiled driver; imports the small FormsMeta only —
form rows travel inline in the requests).
-/
namespace Avo.Drv.C06
open Avo Avo.Drv Avo.Instr

def M : Meta := Avo.Gen.formsMeta

/-- hex token ("-" = empty) → name in the salted layout with empty checksum, so
that `Name.val` reads it back -/
def nameOfHex (s : String) : Option Nat := do
  let bs ← unhex s
  pure ((Name.ofBytes bs) <<< 40)

def hexOfName (n : Nat) : String := hex (Name.toBytes (Name.val n))

def splitOn1 (s : String) (c : String) : List String := s.splitOn c

def parseRegFields : List String → Option RegV
  | [k, sz, id, mask, nm] => do
    let k ← k.toNat?; let sz ← sz.toNat?; let id ← id.toNat?; let mask ← mask.toNat?
    let nm ← nameOfHex nm
    pure ⟨k, sz, id, mask, nm⟩
  | _ => none

def parseOptReg (s : String) : Option (Option RegV) :=
  if s == "-" then some none else (parseRegFields (s.splitOn "/")).map some

def parseOp (tok : String) : Option Operand :=
  match tok.splitOn ":" with
  | "r" :: rest => (parseRegFields rest).map Operand.reg
  | ["m", b, i, sc, disp, sym] => do
    let b ← parseOptReg b; let i ← parseOptReg i
    let sc ← sc.toNat?; let d ← disp.toInt?; let sym ← nameOfHex sym
    pure (.mem b i sc d sym)
  | ["i", ty, v] => do
    let ty ← ty.toNat?; let v ← v.toInt?
    pure (.imm ty v)
  | ["rel", v] => v.toInt?.map Operand.rel
  | ["lbl", n] => (nameOfHex n).map Operand.label
  | ["oth", t] => t.toNat?.map Operand.other
  | _ => none

def regTok (sep : String) (r : RegV) : String :=
  sep.intercalate [toString r.kind, toString r.size, toString r.id, toString r.mask, hexOfName r.name]

def optRegTok : Option RegV → String
  | none => "-"
  | some r => regTok "/" r

def opTok : Operand → String
  | .reg r => "r:" ++ regTok ":" r
  | .mem b i sc d sym => s!"m:{optRegTok b}:{optRegTok i}:{sc}:{d}:{hexOfName sym}"
  | .imm ty v => s!"i:{ty}:{v}"
  | .rel v => s!"rel:{v}"
  | .label n => "lbl:" ++ hexOfName n
  | .other t => s!"oth:{t}"

def opsTok (ops : List Operand) : String := joinSp (toString ops.length :: ops.map opTok)

def opTokP : List String → Option (Operand × List String)
  | [] => none
  | t :: ts => (parseOp t).map (·, ts)

def fopP : List String → Option (FOp × List String)
  | ty :: im :: act :: rest => do
    let ty ← ty.toNat?; let act ← act.toNat?
    pure (⟨ty, im == "1", act⟩, rest)
  | _ => none

def formP : List String → Option (Form × List String)
  | opc :: cls :: feat :: isa :: ar :: rest => do
    let opc ← opc.toNat?; let cls ← cls.toNat?; let feat ← feat.toNat?; let isa ← isa.toNat?; let ar ← ar.toNat?
    let (ops, rest) ← listOf fopP rest
    pure (⟨opc, cls, feat, isa, ar, ops⟩, rest)
  | _ => none

def strList (xs : List String) : String := joinSp (toString xs.length :: xs)

def b01 (b : Bool) : String := if b then "1" else "0"

/-- canonical rendering of a built instruction (same layout as c06EncInstr in the harness) -/
def instrTok (i : Instr) : String :=
  if i.panics then "panic" else
  joinSp ["ok", Name.toStr (opcString M i.opc), strList ((sfxStrings M i.sfx).map Name.toStr), opsTok i.operands,
    opsTok i.inputs, opsTok i.outputs,
    b01 i.isTerminal ++ b01 i.isBranch ++ b01 i.isConditional ++ b01 i.cancelling,
    strList (((match i.isa with | 0 => [] | n+1 => M.isasLists.getD n [])).map Name.toStr)]

/-- class of a documentation word -/
def classOfWord (w : String) : Option OpClass :=
  OpClass.all.find? (fun c => Name.key c.doc == Name.keyOfStr w)

def rowP : List String → Option (List String × List String) := listOf strTok

def tupleOfRow (row : List String) : Option (String × List OpClass) :=
  match row with
  | [] => none
  | m :: ws => (allSome (ws.map classOfWord)).map (m, ·)

/-- The property on the function's own documentation: accepted iff some row
matches; on acceptance the instruction is the documented mnemonic with the
operands in the given order; every row documents this function. -/
def acceptDoc (fname : String) (rows : List (List String)) (ops : List Operand) (resp : List String) : String :=
  match rows.map tupleOfRow |> allSome with
  | none => "bad-doc-row"
  | some tuples =>
    if !(tuples.all (fun t => t.1.replace "." "_" == fname)) then "bad-doc-mnemonic" else
    let documented := tuples.any (fun t => tupleMatches t.2 ops)
    match resp with
    | ["err"] => if documented then "bad-rejected-documented-operands" else "ok"
    | "ok" :: opc :: rest =>
      if !documented then "bad-accepted-undocumented-operands" else
      match listOf strTok rest with
      | none => "bad-response"
      | some (sfx, rest) =>
        let mn := ".".intercalate (opc :: sfx)
        if mn.replace "." "_" != fname then s!"bad-opcode {mn}" else
        match listOf opTokP rest with
        | none => "bad-response"
        | some (echo, _) => if echo == ops then "ok" else "bad-operands-changed"
    | _ => "bad-outcome " ++ joinSp resp

def splitAtArrow : List String → List String → Option (List String × List String)
  | _, [] => none
  | acc, "=>" :: rest => some (acc.reverse, rest)
  | acc, t :: rest => splitAtArrow (t :: acc) rest

def handle : Handler
  | ["class", t, op] => do
    let t ← t.toNat?
    let op ← parseOp op
    some (b01 (matchCode M t op))
  | "instr" :: a :: b :: rest => do
    let a ← a.toNat?; let b ← b.toNat?
    let (forms, rest) ← listOf formP rest
    let (ops, _) ← listOf opTokP rest
    match build M forms (a, b) ops with
    | none => some "err"
    | some i => some (instrTok i)
  | ["addi", n, e, st] => do
    let n ← n.toNat?; let e ← e.toNat?
    let c : Ctx := { nodes := List.replicate n default, errs := e }
    let c' := addinstruction c (if st == "ok" then some default else none)
    some s!"{c'.nodes.length} {c'.errs}"
  | ["accept-names", _, x, m, g] => some (if x == "1" && m == "1" && g == "1" then "ok" else "bad-name-missing-on-a-layer")
  | ["accept-layers", _, x, m, g, dnm, dem, dng, deg] => do
    let dnm ← dnm.toInt?; let dem ← dem.toInt?; let dng ← dng.toInt?; let deg ← deg.toInt?
    let xs ← unhexStr x
    if x != m then some "bad-method-differs" else
    if x != g then some "bad-global-differs" else
    if xs == "err" then
      some (if dnm == 0 && dem == 1 && dng == 0 && deg == 1 then "ok" else "bad-error-not-recorded-once-or-node-added")
    else if xs.startsWith "ok " then
      some (if dnm == 1 && dem == 0 && dng == 1 && deg == 0 then "ok" else "bad-not-exactly-one-node")
    else some ("bad-outcome " ++ xs)
  | ["accept-pure", _, a, b] =>
    -- the constructors are functions of their operands: an earlier call with the same operands returned `a`
    some (if a == b then "ok" else "bad-same-call-different-result")
  | ["accept-attrs", opc, fl] =>
    match fl.toList with
    | [t, b, c, _] =>
      some (if attrsOK (Name.keyOfStr opc) (t == '1') (b == '1') (c == '1') then "ok"
            else s!"bad-branch-attributes-of-{opc}")
    | _ => some "bad-flags"
  | ["sfxset", cls] => do
    let cls ← cls.toNat?
    let xs := (sfxSetStrings M cls).map (fun l =>
      if l.isEmpty then "-" else ".".intercalate (l.map Name.toStr))
    some (strList (xs.mergeSort (fun a b => !(b < a))))
  | "accept-doc" :: fname :: rest => do
    let fname ← unhexStr fname
    let (body, resp) ← splitAtArrow [] rest
    let (rows, body) ← listOf rowP body
    let (ops, _) ← listOf opTokP body
    some (acceptDoc fname rows ops resp)
  | _ => none

def handlers : List (String × Handler) :=
  ["class", "instr", "addi", "accept-names", "accept-layers", "accept-doc", "accept-pure", "accept-attrs",
   "sfxset"].map (·, handle)

end Avo.Drv.C06
