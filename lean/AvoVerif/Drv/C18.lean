import AvoVerif.Drv.Common
import AvoVerif.Model.Ctx
import AvoVerif.Props.C18
import AvoVerif.Gen.Regs
import AvoVerif.Oracle.TagChars
/-!
Protocol handlers for C18.

```
c18        <hdr> <ops…>                 → e <n> <classes…> f <k> <nodes:local…> g <k> <ndata:size…> c <ncons> o -<F|G per file section>
c18main    <hdr> <ops…>                 → s <0|1> a <0|1> t <0|1> d <diag>          (build.Main on the built context)
accept-c18 <observed…> <hdr> <ops…>    → ok | first violated clause
c18max     <mx> <nerrs>                 → number of diagnostic lines (LogError truncation; not part of the property)
c18exit    <status>                     → exit code the operating system reports for os.Exit(status) (measured in a child process)
hdr = route=<ctx|pkg>[.flags|.child][.mx<limit>] f3a=<b> f3b=<b> f4=<b> f9=<b> n=<number of ops>
```
Build-constraint terms travel as code points (`78.b2`, `-` = empty) followed by the
verdict of the installed `go/build/constraint` on that term (`1` = it parses to that
tag or its negation), the text of `ConstraintExpr` likewise followed by the
harness' verdict on its fields; the model decides validity itself, with the tag
character table measured from the toolchain (`Oracle/TagChars.lean`), and a
disagreement with the live verdict is answered `bad-termclass`.
The header flags mark histories that touch a listed finding; they are recomputed
here from the ops and a wrong flag is answered `bad-flags`.
-/
namespace Avo.Drv.C18
open Avo.Drv Avo.Ctx

/-- Number of allocatable physical registers of a kind: distinct ids of the
non-restricted rows of the regenerated register table. -/
def limOf (tbl : List Avo.Reg.RegRow) (k : Nat) : Nat :=
  ((tbl.filter (fun r => r.kind == k && r.info &&& Avo.Reg.infoRestricted == 0)).map (·.id)).eraseDups.length

def lim : Nat → Nat := limOf Avo.Gen.regs

def name? (s : String) : String := if s == "-" then "" else s

def parseTy : Nat → List String → Option (Ty × List String)
  | 0, _ => none
  | fuel + 1, t :: ts =>
    match t with
    | "i8" => some (.int 1 true, ts) | "i16" => some (.int 2 true, ts)
    | "i32" => some (.int 4 true, ts) | "i64" => some (.int 8 true, ts)
    | "u8" => some (.int 1 false, ts) | "u16" => some (.int 2 false, ts)
    | "u32" => some (.int 4 false, ts) | "u64" => some (.int 8 false, ts)
    | "bool" => some (.bool, ts)
    | "f32" => some (.float 4, ts) | "f64" => some (.float 8, ts)
    | "c64" => some (.complex 8, ts) | "c128" => some (.complex 16, ts)
    | "str" => some (.str, ts) | "other" => some (.other, ts)
    | "ptr" => (parseTy fuel ts).map (fun (e, r) => (.ptr e, r))
    | "slice" => (parseTy fuel ts).map (fun (e, r) => (.slice e, r))
    | "arr" => match ts with
        | n :: ts' => do
          let k ← n.toNat?
          let (e, r) ← parseTy fuel ts'
          pure (.array k e, r)
        | [] => none
    | "struct" => match ts with
        | n :: ts' => do
          let k ← n.toNat?
          let (fs, r) ← parseFields fuel k ts'
          pure (.struct fs, r)
        | [] => none
    | _ => none
  | _, [] => none
where
  parseFields (fuel : Nat) : Nat → List String → Option (List (String × Ty) × List String)
    | 0, ts => some ([], ts)
    | k + 1, n :: ts =>
      match fuel with
      | 0 => none
      | fuel' + 1 => do
        let (t, r) ← parseTy fuel' ts
        let (fs, r') ← parseFields fuel' k r
        pure ((name? n, t) :: fs, r')
    | _, [] => none

def varTok (ts : List String) : Option ((String × Ty) × List String) :=
  match ts with
  | n :: rest => do
    let (t, r) ← parseTy rest.length rest
    pure ((name? n, t), r)
  | [] => none

def kind? (s : String) : Option (Option Nat) :=
  if s == "-" then some none else s.toNat?.map some

def parseOpnd (t : String) : Option Opnd :=
  match t.splitOn ":" with
  | ["i"] => some .imm
  | ["nil"] => some .imm   -- a nil operand: matches no form (the request is then `ins 0 …`, operands unused)
  | ["r", k] => k.toNat?.map .reg
  | ["l", n] => some (.lbl n)
  | ["m", b, x, s] => do
    let b ← kind? b; let x ← kind? x; let s ← s.toNat?
    pure (.mem b x s)
  | _ => none

def opndTok : List String → Option (Opnd × List String)
  | t :: ts => (parseOpnd t).map (·, ts)
  | [] => none

def parseInstr (ts : List String) : Option (Instr × List String) :=
  match ts with
  | br :: rest => do
    let b ← br.toNat?
    let (ik, rest) ← listOf natTok rest
    let (ops, rest) ← listOf opndTok rest
    pure (⟨b, ik, ops⟩, rest)
  | [] => none

/-- The toolchain's tag-character predicate: the table measured on this run. -/
def tc : Char → Bool := tagCharOf Avo.Oracle.tagRanges

def bool? (s : String) : Option Bool := if s == "1" then some true else if s == "0" then some false else none

def hexNat? (s : String) : Option Nat :=
  if s.isEmpty then none else
  s.toList.foldl (fun acc c => do let a ← acc; let d ← hexDigit c; pure (a * 16 + d)) (some 0)

/-- `78.b2` → code points; `-` is the empty text. -/
def cps? (s : String) : Option (List Char) :=
  if s == "-" then some [] else (s.splitOn ".").mapM (fun h => (hexNat? h).map Char.ofNat)

/-- a term and whether the model's verdict on it agrees with the live toolchain verdict that follows it -/
def termTok : List String → Option ((List Char × Bool) × List String)
  | t :: v :: ts => do
    let t ← cps? t; let v ← bool? v
    pure ((t, termValid tc t == v), ts)
  | _ => none

def optionTok (ts : List String) : Option ((Option' × Bool) × List String) :=
  (listOf termTok ts).map (fun (xs, r) => ((xs.map (·.1), xs.all (·.2)), r))
def constraintTok (ts : List String) : Option ((Constraint × Bool) × List String) :=
  (listOf optionTok ts).map (fun (xs, r) => ((xs.map (·.1), xs.all (·.2)), r))

/-- the builder calls the harness hands a nil argument to -/
def nilKinds : List String :=
  ["Load.src", "Load.dst", "Store.src", "Store.dst", "Dereference", "AddDatum", "AppendDatum", "Constraints",
   "Constraint", "Instruction", "Signature"]

def parseOp : List String → Option (Op × List String)
  | "fn" :: n :: r => some (.function n, r)
  | "attr" :: a :: r => a.toNat?.map (fun a => (.attributes a, r))
  | "fnx" :: n :: r => (unhexStr n).map (fun n => (.function n, r))
  | "doc" :: r => some (.doc false, r)
  | "docnl" :: r => some (.doc true, r)
  | "pragma" :: r => some (.pragma false, r)
  | "pragmanl" :: r => some (.pragma true, r)
  | "impl" :: n :: r => some (.implement n, r)
  | "nil" :: k :: r => (nilKinds.idxOf? k).map (fun i => (.nilArg i, r))
  | "sigbad" :: r => some (.signature none, r)
  | "sig" :: r => do
    let (ps, r) ← listOf varTok r
    let (rs, r) ← listOf varTok r
    pure (.signature (some ⟨ps, rs⟩), r)
  | "ins" :: v :: r => do
    let v ← bool? v
    let (i, r) ← parseInstr r
    pure (.instr v i, r)
  | "raw" :: r => do
    let (i, r) ← parseInstr r
    pure (.rawInstr i, r)
  | "lab" :: n :: r => some (.label n, r)
  | "com" :: r => some (.comment, r)
  | "par" :: n :: r => some (.param (name? n), r)
  | "pidx" :: i :: r => i.toInt?.map (fun i => (.paramIndex i, r))
  | "ret" :: n :: r => some (.ret (name? n), r)
  | "ridx" :: i :: r => i.toInt?.map (fun i => (.retIndex i, r))
  | "nav" :: s :: "idx" :: i :: r => do
    let s ← s.toNat?; let i ← i.toInt?
    pure (.nav s (.index i), r)
  | "nav" :: s :: "fld" :: n :: r => s.toNat?.map (fun s => (.nav s (.field (name? n)), r))
  | "nav" :: s :: m :: r => do
    let s ← s.toNat?
    let n ← match m with
      | "base" => some Nav.base | "len" => some Nav.len | "cap" => some Nav.cap
      | "real" => some Nav.real | "imag" => some Nav.imag | "deref" => some Nav.deref
      | _ => none
    pure (.nav s n, r)
  | "load" :: s :: k :: d :: r => do
    let s ← s.toNat?; let k ← k.toNat?; let d ← bool? d
    pure (.load s k d, r)
  | "store" :: s :: k :: d :: r => do
    let s ← s.toNat?; let k ← k.toNat?; let d ← bool? d
    pure (.store s k d, r)
  | "deref" :: s :: d :: r => do
    let s ← s.toNat?; let d ← bool? d
    pure (.dereference s d, r)
  | "local" :: n :: r => n.toNat?.map (fun n => (.allocLocal n, r))
  | "glob" :: n :: r => some (.staticGlobal n, r)
  | "dattr" :: a :: r => a.toNat?.map (fun a => (.dataAttributes a, r))
  | "datum" :: o :: s :: r => do
    let o ← o.toNat?; let s ← s.toNat?
    pure (.addDatum o s, r)
  | "datumneg" :: o :: s :: r => do
    let o ← o.toNat?; let s ← s.toNat?
    pure (.addDatumNeg o s, r)
  | "app" :: s :: r => s.toNat?.map (fun s => (.appendDatum s, r))
  | "press" :: n :: k :: m :: r => do
    let k ← k.toNat?; let m ← m.toNat?
    pure (.pressure n k m, r)
  | _ => none

/-- `parseOp` plus the constraint requests; the flag says whether every toolchain verdict
carried by the request agrees with the model's. -/
def parseOpC : List String → Option ((Op × Bool) × List String)
  | "conss" :: r => (listOf constraintTok r).map (fun (cs, r) => ((.constraints (cs.map (·.1)), cs.all (·.2)), r))
  | "cons" :: r => (constraintTok r).map (fun ((k, ok), r) => ((.constraint k, ok), r))
  | "consx" :: t :: v :: r => do
    let t ← cps? t; let v ← bool? v
    pure ((.constraintExpr t, constraintValid tc (parseConstraint t) == v), r)
  | ts => (parseOp ts).map (fun (op, r) => ((op, true), r))

def parseOps : Nat → List String → Option (List Op × Bool)
  | _, [] => some ([], true)
  | 0, _ => none
  | fuel + 1, ts => do
    let ((op, ok), r) ← parseOpC ts
    let (ops, oks) ← parseOps fuel r
    pure (op :: ops, ok && oks)

structure Hdr where
  f3a : Bool
  f3b : Bool
  f4 : Bool
  f9 : Bool
  n : Nat
  /-- error limit of the configuration (`route=….mx10`; absent = unlimited) -/
  mx : Nat := 0

def kv (key : String) (t : String) : Option String :=
  match t.splitOn "=" with
  | [k, v] => if k == key then some v else none
  | _ => none

def parseHdr : List String → Option (Hdr × List String)
  | rt :: a :: b :: c :: d :: n :: r => do
    let rt ← kv "route" rt
    -- route=<api>[.flags|.child][.mx<limit>]: only the error limit matters to the model
    let mx := ((rt.splitOn ".").filterMap (fun p => if p.startsWith "mx" then (p.drop 2).toString.toNat? else none)).headD 0
    let a ← (kv "f3a" a).bind bool?
    let b ← (kv "f3b" b).bind bool?
    let c ← (kv "f4" c).bind bool?
    let d ← (kv "f9" d).bind bool?
    let n ← (kv "n" n).bind String.toNat?
    pure (⟨a, b, c, d, n, mx⟩, r)
  | _ => none

/-! flags of the listed findings, recomputed -/

def flagF3a (ops : List Op) : Bool := ops.any (fun
  | .paramIndex i | .retIndex i => i < 0
  | _ => false)

def flagF3b (ops : List Op) : Bool := ops.any (fun
  | .nav _ (.index i) => i < 0
  | _ => false)

def Node.implicitKinds : Node → List Nat
  | .instr i => i.implicitKinds
  | _ => []

def Node.explicitKinds : Node → List Nat
  | .instr i => i.explicitKinds
  | .press k _ => if k == 1 then [1] else [k, 0]
  | _ => []

/-- some kind of register occurs only as an implicit operand in a function -/
def fnF4 (f : Fn) : Bool :=
  let ek := f.nodes.flatMap Node.explicitKinds
  (f.nodes.flatMap Node.implicitKinds).any (fun k => !ek.contains k)

/-- two equal labels with no instruction between them -/
def adjDup (pending : List String) : List Node → Bool
  | [] => false
  | .label l :: rest => pending.contains l || adjDup (l :: pending) rest
  | .comment :: rest => adjDup pending rest
  | _ :: rest => adjDup [] rest

def flagsOK (h : Hdr) (ops : List Op) (c : Ctx) : Bool :=
  h.n == ops.length && h.f3a == flagF3a ops && h.f3b == flagF3b ops &&
  h.f4 == c.fns.any fnF4 && h.f9 == c.fns.any (fun f => adjDup [] f.nodes)

def Op.slot? : Op → Option Nat
  | .nav s _ | .load s _ _ | .store s _ _ | .dereference s _ => some s
  | _ => none

/-- every component slot a request refers to was handed out before (the model's
`getComp` is total: an out-of-range slot would silently read as an error component) -/
def slotsOK (tc : Char → Bool) (c : Ctx) : List Op → Bool
  | [] => true
  | op :: ops =>
    (match Op.slot? op with
     | some s => decide (s < c.comps.length)
     | none => true) && slotsOK tc (step tc c op) ops

/-- a datum at a negative offset is only issued with an active data section (without one the
real call records two messages, which the model does not express) -/
def negOK (tc : Char → Bool) (c : Ctx) : List Op → Bool
  | [] => true
  | op :: ops =>
    (match op with
     | .addDatumNeg _ _ => c.glob.isSome
     | _ => true) && negOK tc (step tc c op) ops

def b01 (b : Bool) : String := if b then "1" else "0"

def respond (ops : List Op) : String :=
  let c := run tc Ctx.init ops
  let fns := c.fns
  let gl := c.globs
  joinSp (["e", toString c.errs.length] ++ c.errs.map ErrClass.tag ++
    ["f", toString fns.length] ++ fns.map (fun f => s!"{f.nodeCount}:{f.localSize}") ++
    ["g", toString gl.length] ++ gl.map (fun g => s!"{g.data.length}:{g.size}") ++
    ["c", toString c.cons.length, "o", String.ofList ('-' :: c.secOrder.map (fun b => if b then 'F' else 'G'))])

def respondMain (mx : Nat) (ops : List Op) : String :=
  let c := run tc Ctx.init ops
  let o := main mx (stdPasses lim c) c
  -- the status is the process exit code: what the operating system keeps of `os.Exit(status)`
  joinSp ["s", b01 (exitCode o.status != 0), "a", b01 (o.printed.contains 1), "t", b01 (o.printed.contains 2),
    "d", toString o.diag]

def passErr? (s : String) : Option PassErr :=
  [PassErr.memBase, .memScale, .dupLabel, .endLabel, .unknownLabel, .alloc].find? (fun e => e.tag == s)

def parseObserved : List String → Option (Observed × List String)
  | e :: s :: a :: t :: d :: p :: pa :: pe :: r => do
    let e ← (kv "errs" e).bind String.toNat?
    let s ← (kv "status" s).bind String.toInt?
    let a ← (kv "asm" a).bind String.toNat?
    let t ← (kv "stubs" t).bind String.toNat?
    let d ← (kv "diag" d).bind String.toNat?
    let p ← (kv "panics" p).bind String.toNat?
    let _ ← kv "pat" pa   -- where the first panic happened (informative)
    let pe ← kv "perr" pe
    pure (⟨e, s, a, t, d, p, passErr? pe, 0⟩, r)
  | _ => none

/-- Explanation of a rejected outcome (the verdict itself is `c18Accept`): every
violated clause of `Spec`, in order, separated by `;` — so that a listed finding
can demand that its own failure is the only one. -/
def explain (nf na : Nat) (sb : Bool) (pf : List PassErr) (o : Observed) : String :=
  let pfs := ",".intercalate (pf.map PassErr.tag)
  let ctx := s!"faults={nf} nil={na} stubbreak={b01 sb} passfaults={pfs}"
  let cl : List (Bool × String) := [
    (o.panics != 0, "bad-panic"),
    (o.exit != 0 && (o.asm != 0 || o.stubs != 0), "bad-output-written-on-failure"),
    (nf > 0 && o.exit == 0, "bad-status-0-with-faults"),
    (nf > 0 && !(nf ≤ o.errs && o.errs ≤ nf + na && o.diag == logLines o.mx o.errs), s!"bad-error-count errs={o.errs} diag={o.diag}"),
    (nf == 0 && !(o.errs ≤ na && (o.errs == 0 || (o.exit != 0 && o.diag == logLines o.mx o.errs))),
      s!"bad-errors-without-fault errs={o.errs} diag={o.diag}"),
    (nf == 0 && na == 0 && !pf.isEmpty && o.exit == 0, "bad-status-0-with-passfaults"),
    (nf == 0 && na == 0 && !pf.isEmpty && o.exit != 0 && !decide (passErrAmong pf o), "bad-pass-error"),
    (nf == 0 && na == 0 && pf.isEmpty && !sb && !(o.exit == 0 && o.diag == 0 && o.asm > 0 && o.stubs > 0),
      s!"bad-valid-history-rejected status={o.status} diag={o.diag} asm={o.asm} stubs={o.stubs}"),
    (nf == 0 && na == 0 && pf.isEmpty && sb && o.exit == 0 && !(o.asm > 0 && o.stubs > 0),
      s!"bad-status-0-with-output-missing asm={o.asm} stubs={o.stubs}")]
  let bad := (cl.filter (·.1)).map (·.2)
  (if bad.isEmpty then "bad-unexplained" else ";".intercalate bad) ++ " " ++ ctx

/-- every message class is provoked once by the harness before the histories
(canonical request → exactly one message); this is the list it must report -/
def calExpected : String :=
  joinSp (([ErrClass.noFunc, .noGlobal, .badOperands, .unknownVar, .indexRange, .notPrimitive, .notPointer,
    .noBase, .noLen, .noCap, .noReal, .noImag, .notArray, .arrayBounds, .notStruct, .noField, .movDeduce, .overlap, .negOffset,
    .constraint, .constraint, .constraint, .constraint, .constraint, .noPackage].map ErrClass.tag) ++
   ([PassErr.memBase, .memScale, .dupLabel, .endLabel, .unknownLabel, .alloc, .alloc, .alloc].map PassErr.tag))

def handle : Handler
  | "c18" :: rest => do
    let (h, rest) ← parseHdr rest
    let (ops, clsOK) ← parseOps (rest.length + 1) rest
    let c := run tc Ctx.init ops
    if !clsOK then some "bad-termclass" else
    if !slotsOK tc Ctx.init ops then some "bad-slot" else
    if !negOK tc Ctx.init ops then some "bad-negoff-outside-section" else
    if !flagsOK h ops c then some "bad-flags" else
    some (respond ops)
  | "c18main" :: rest => do
    let (h, rest) ← parseHdr rest
    let (ops, clsOK) ← parseOps (rest.length + 1) rest
    let c := run tc Ctx.init ops
    if !clsOK then some "bad-termclass" else
    if !slotsOK tc Ctx.init ops then some "bad-slot" else
    if !negOK tc Ctx.init ops then some "bad-negoff-outside-section" else
    if !flagsOK h ops c then some "bad-flags" else
    some (respondMain h.mx ops)
  | "accept-c18" :: rest => do
    let (o, rest) ← parseObserved rest
    let (h, rest) ← parseHdr rest
    let o := { o with mx := h.mx }
    let (ops, clsOK) ← parseOps (rest.length + 1) rest
    let c := run tc Ctx.init ops
    if !clsOK then some "bad-termclass" else
    if !slotsOK tc Ctx.init ops then some "bad-slot" else
    if !negOK tc Ctx.init ops then some "bad-negoff-outside-section" else
    if !flagsOK h ops c then some "bad-flags" else
    -- (faults …).length = numFaults … (theorem faults_length)
    let nf := (faults tc Ctx.init ops).length
    let na := numNil ops
    let sb := stubFails c
    let pf := passFaults lim c.fns
    some (if c18Accept nf na sb pf o then "ok" else explain nf na sb pf o)
  | ["c18max", mx, n] => do
    let mx ← mx.toNat?; let n ← n.toNat?
    some (toString (logLines mx n))
  | ["c18exit", k] => k.toInt?.map (fun k => toString (exitCode k))
  | ["c18cal"] => some calExpected
  | ["c18lim"] => some (joinSp [toString (lim 1), toString (lim 2), toString (lim 3)])
  | _ => none

def handlers : List (String × Handler) :=
  ["c18", "c18main", "accept-c18", "c18max", "c18lim", "c18cal", "c18exit"].map (·, handle)

end Avo.Drv.C18
