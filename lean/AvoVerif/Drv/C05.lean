import AvoVerif.Drv.Common
import AvoVerif.Model.AsmText
import AvoVerif.Model.AsmJudge
import AvoVerif.Model.Instr
import AvoVerif.Gen.Regs
/-
C05 driver.
  asm-text <op>                      → hex of the model's rendering of the operand        (exact comparison with Asm();
                                       not sent for constants: their spelling is free, see `readsBack`)
  accept-parse <op> <hex text>       → the independent parser reads the implementation's text back as the operand
  accept-line <desc> => <hex line>   → the printed instruction line is the opcode with suffixes and the operands in order
  accept-asm <desc> => ok <decoded> | rejected <hex msg> | panic
                                     → the verdict of Model/AsmJudge.lean on the assembled bytes
  mnem-unchecked                     → opcodes whose mnemonic is not compared
  opclass <type> <op>                → 1/0: the operand is in the operand class named <type> (Model/Instr `OpClass.holds`,
                                       characterised in Props/C06Classes.lean); exact comparison with the real predicate
  accept-class <desc>                → every operand given is in the operand class the matched form names at its position
-/
namespace Avo.Drv.C05
open Avo.Drv Avo.AsmText Avo.AsmJudge

def regTable : List Avo.Reg.RegRow := Avo.Gen.regs
def regNames : List (List Char) := regTable.map (·.name.toList)

def lookupReg (kind idx mask : Nat) (pname : String) : Option HReg :=
  if kind == 0 then
    (regTable.find? (fun r => r.kind == 0 && r.name == pname)).map (fun r => ⟨0, 0, 0, r.size, r.name⟩)
  else
    (regTable.find? (fun r => r.kind == kind && r.idx == idx && r.mask == mask)).map (fun r => ⟨kind, idx, mask, r.size, r.name⟩)

def parseRegFields : List String → Option HReg
  | [k, i, m] => do lookupReg (← k.toNat?) (← i.toNat?) (← m.toNat?) ""
  | [k, i, m, n] => do lookupReg (← k.toNat?) (← i.toNat?) (← m.toNat?) n
  | _ => none

def parseOptReg (s : String) : Option (Option HReg) :=
  if s == "-" then some none else (parseRegFields (s.splitOn ".")).map some

def parseTy (s : String) : Option ImmTy :=
  match s with
  | "u8" => some .u8 | "u16" => some .u16 | "u32" => some .u32 | "u64" => some .u64
  | "i8" => some .i8 | "i16" => some .i16 | "i32" => some .i32 | "i64" => some .i64
  | _ => none

def parseXOp (tok : String) : Option XOp :=
  match tok.splitOn ":" with
  | "r" :: rest => (parseRegFields rest).map .reg
  | ["m", sym, st, disp, b, i, sc] => do
    let sym ← unhexStr sym
    let b ← parseOptReg b
    let i ← parseOptReg i
    some (.mem sym (st == "1") (← disp.toInt?) b i (← sc.toNat?))
  | ["i", ty, v] => do some (.imm (← parseTy ty) (← v.toInt?))
  | ["l", v] => do some (.rel (← v.toInt?))
  | ["b", n] => do some (.label (← unhexStr n))
  | _ => none

/-- the text-level operand (registers by name) -/
def toOp : XOp → Op
  | .reg r => .reg r.name.toList
  | .mem sym st disp b i sc => .mem ⟨sym.toList, st, disp, b.map (·.name.toList), i.map (·.name.toList), sc⟩
  | .imm t v => .imm t v
  | .rel v => .rel v
  | .label n => .label n.toList

def parseDArg (tok : String) : Option DArg :=
  match tok.splitOn ":" with
  | ["R", n] => some (.reg n)
  | ["M", w, seg, b, i, sc, d] => do some (.mem (← w.toNat?) seg b i (← sc.toNat?) (← d.toInt?) false)
  | ["M", w, seg, b, i, sc, d, "b"] => do some (.mem (← w.toNat?) seg b i (← sc.toNat?) (← d.toInt?) true)
  | ["I", v] => do some (.imm (← v.toNat?))
  | ["J", v] => do some (.jmp (← v.toInt?))
  | ["K", n] => some (.kmask n)
  | ["Z"] => some .zero
  | ["E", s] => some (.er s)
  | ["B", s] => some (.bc s)
  | _ => none

/-- `lo:hi:KIND:sym+add` (the symbol may contain `+`; the addend follows the last one) -/
def parseReloc (tok : String) : Option Reloc :=
  match tok.splitOn ":" with
  | lo :: hi :: kind :: rest =>
    let target := ":".intercalate rest
    let parts := target.splitOn "+"
    match parts.reverse with
    | add :: symParts@(_ :: _) =>
      match add.toInt? with
      | some a => do some ⟨← lo.toNat?, ← hi.toNat?, kind, "+".intercalate symParts.reverse, a⟩
      | none => do some ⟨← lo.toNat?, ← hi.toNat?, kind, target, 0⟩
    | _ => do some ⟨← lo.toNat?, ← hi.toNat?, kind, target, 0⟩
  | _ => none

def splitArrow (ts : List String) : List String × List String :=
  (ts.takeWhile (· != "=>"), (ts.dropWhile (· != "=>")).drop 1)

def listStr (s : String) (sep : String) : List String := if s == "-" then [] else s.splitOn sep

/-- `<OPCODE> <sfx|-> <sig|-> <isa|-> <feat> <stream> <n> <ops…>` -/
def parseGiven (ts : List String) : Option Given :=
  match ts with
  | opc :: sfx :: sig :: _isa :: _feat :: _stream :: rest => do
    let (ops, _) ← listOf (fun ts => match ts with | [] => none | t :: r => (parseXOp t).map (·, r)) rest
    some ⟨opc, listStr sfx ".", listStr sig ",", ops⟩
  | _ => none

def parseDecoded (ts : List String) : Option Decoded :=
  match ts with
  | code :: xw :: rest => do
    let xw ← xw.toNat?
    let (relocs, rest) ← listOf (fun ts => match ts with | [] => none | t :: r => (parseReloc t).map (·, r)) rest
    match rest with
    | mnem :: rest =>
      let (args, _) ← listOf (fun ts => match ts with | [] => none | t :: r => (parseDArg t).map (·, r)) rest
      some ⟨code.length / 2, xw, relocs, mnem, args⟩
    | [] => none
  | _ => none

def isBlank (c : Char) : Bool := c == ' ' || c == '\t'

def trimLeft (cs : List Char) : List Char := cs.dropWhile isBlank

def trimBlanks (cs : List Char) : List Char := (trimLeft (trimLeft cs).reverse).reverse

/-- the operand list split at commas outside parentheses, blanks around operands dropped: every spelling of the
separator the Go assembler reads (`AX, BX` / `AX,BX` / tabs) gives the same operands -/
def splitOpsTol : List Char → Nat → List Char → List (List Char)
  | [], _, cur => [trimBlanks cur.reverse]
  | ',' :: rest, 0, cur => trimBlanks cur.reverse :: splitOpsTol rest 0 []
  | '(' :: rest, d, cur => splitOpsTol rest (d + 1) ('(' :: cur)
  | ')' :: rest, d, cur => splitOpsTol rest (d - 1) (')' :: cur)
  | c :: rest, d, cur => splitOpsTol rest d (c :: cur)

/-- why an operand cannot read back: names that collide with the operand syntax -/
def nameClash : XOp → String
  | .label n => if regNames.contains n.toList then " label-is-register-name" else ""
  | .mem sym _ _ _ _ _ =>
    (match sym.toList with
     | [] => ""
     | c :: cs => if isDigit c || c == '.' || (c :: cs).any structural then " symbol-not-identifier" else "")
  | _ => ""

/-- The implementation's text of one operand reads back as the operand given.  Registers, memory references,
labels and relative offsets: through the independent parser (`parseOp_asm`: every well-formed operand does).
Constants: ANY spelling the assembler reads as the same integer (`$0x05`, `$5`, `$+5`) — the property pins the
value down, not the spelling (`asmImm` depends on the text only through `readImm`). -/
def readsBack (x : XOp) (t : List Char) : Bool :=
  match x with
  | .imm _ v => readImm t == some v
  | _ => parseOp regNames t == some (canon (toOp x))

/-- every operand text reads back as the operand given at its position; the error names the first one that does not -/
def lineOperandsErr : List (List Char) → List XOp → Nat → Option String
  | t :: ts, e :: es, i =>
    if readsBack e t then lineOperandsErr ts es (i + 1) else some s!"bad-line-operand {i}{nameClash e}"
  | _, _, _ => none

/-- the opcode text and the operand texts of a printed instruction line -/
def lineTexts (line : String) : List Char × List (List Char) :=
  let cs := trimLeft line.toList
  let rest := trimBlanks (cs.dropWhile (fun c => !isBlank c))
  (cs.takeWhile (fun c => !isBlank c), if rest.isEmpty then [] else splitOpsTol rest 0 [])

/-- the printed line against the opcode, suffixes and operands given; `none` = it is that instruction -/
def lineErr (g : Given) (line : String) : Option String :=
  let wantOpc := ".".intercalate (g.opcode :: g.sfx)
  if String.ofList (lineTexts line).1 != wantOpc then some s!"bad-line-opcode want {wantOpc}" else
  if (lineTexts line).2.length != g.ops.length then
    some s!"bad-line-operand-count want {g.ops.length} got {(lineTexts line).2.length}" else
  lineOperandsErr (lineTexts line).2 g.ops 0

def judgeLine (g : Given) (line : String) : String :=
  match lineErr g line with
  | none => "ok"
  | some why => if why == "ok" then "bad-verdict" else why

/-! ## Operand classes of an accepted instruction (Model/Instr predicates on C05's operands) -/

/-- identifier of a physical register: the `id` column of the regenerated register table (0 for pseudo registers) -/
def regIdOf (h : HReg) : Nat :=
  ((regTable.find? (fun r => r.kind == h.kind && r.idx == h.idx && r.mask == h.mask)).map (·.id)).getD 0

def regV (h : HReg) : Avo.Instr.RegV := ⟨h.kind, h.size, regIdOf h, h.mask, 0⟩

def immTyCode : ImmTy → Nat
  | .u8 => Avo.Instr.tU8 | .u16 => Avo.Instr.tU16 | .u32 => Avo.Instr.tU32 | .u64 => Avo.Instr.tU64
  | .i8 => Avo.Instr.tI8 | .i16 => Avo.Instr.tI16 | .i32 => Avo.Instr.tI32 | .i64 => Avo.Instr.tI64

/-- the operand as the class predicates see it: register kind / width / identity, presence and registers of base and
index, constant type and value; names of symbols and labels play no role in any class (`holds_mem_ignores`) -/
def toInstrOp : XOp → Avo.Instr.Operand
  | .reg r => .reg (regV r)
  | .mem _ _ disp b i sc => .mem (b.map regV) (i.map regV) sc disp 0
  | .imm t v => .imm (immTyCode t) v
  | .rel v => .rel v
  | .label _ => .label 0

/-- class named by a word of a form signature (`vm32x`, `imm8`, `1`, …) -/
def classOfWord (w : String) : Option Avo.Instr.OpClass :=
  Avo.Instr.OpClass.all.find? (fun c => Avo.Name.key c.doc == Avo.Name.keyOfStr w)

/-- first position whose operand is not in the class the signature names there; `none` = all operands are members -/
def classErr : List String → List XOp → Nat → Option String
  | [], [], _ => none
  | t :: ts, x :: xs, i =>
    match classOfWord t with
    | none => some s!"bad-class-name {t}"
    | some c => if c.holds (toInstrOp x) then classErr ts xs (i + 1) else some s!"bad-operand-not-in-class {i} {t}"
  | _, _, i => some s!"bad-class-arity {i}"

def judgeClass (g : Given) : String :=
  match classErr g.sig g.ops 0 with
  | none => "ok"
  | some why => if why == "ok" then "bad-verdict" else why

def handle : Handler
  | ["asm-text", tok] => do
    let x ← parseXOp tok
    some (hexStr (String.ofList (asm (toOp x))))
  | ["accept-parse", tok, text] => do
    let x ← parseXOp tok
    let t ← unhexStr text
    some (if readsBack x t.toList then "ok" else "bad-parse" ++ nameClash x)
  | "accept-line" :: rest => do
    let (l, r) := splitArrow rest
    let g ← parseGiven l
    match r with
    | [line] => do some (judgeLine g (← unhexStr line))
    | _ => none
  | "accept-asm" :: rest => do
    let (l, r) := splitArrow rest
    let g ← parseGiven l
    match r with
    | "ok" :: d => do
      let dec ← parseDecoded d
      some (judge g dec)
    | "rejected" :: _ => some "bad-rejected"
    | ["panic"] => some "bad-panic"
    | _ => none
  | ["opclass", t, tok] => do
    let c ← classOfWord t
    let x ← parseXOp tok
    some (if c.holds (toInstrOp x) then "1" else "0")
  | "accept-class" :: rest => do
    let g ← parseGiven rest
    some (judgeClass g)
  | ["mnem-unchecked"] => some (joinSp (toString mnemUnchecked.length :: mnemUnchecked))
  | _ => none

def handlers : List (String × Handler) :=
  ["asm-text", "accept-parse", "accept-line", "accept-asm", "mnem-unchecked", "opclass", "accept-class"].map (·, handle)

end Avo.Drv.C05
