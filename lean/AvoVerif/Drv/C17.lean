import AvoVerif.Drv.Common
import AvoVerif.Model.ISA
namespace Avo.Drv.C17
open Avo.Drv

/-- `accept-det k n d1 … dn`: all digests (asm bytes, stub bytes, allocation, ISA) of the
repeated compilations are equal, and none is a panic. -/
def handle : Handler
  | "accept-det" :: _ :: n :: ds => do
    let k ← n.toNat?
    if ds.length != k then none else
    match ds with
    | [] => some "ok"
    | d :: rest =>
      if d == "panic" then some "bad-panic"
      else if rest.all (· == d) then some "ok" else some "bad-nondeterministic"
  | "isa" :: rest => do
    -- distinct ISA names of a function's instructions (in first-occurrence order) → the function's ISA list
    let (names, _) ← listOf strTok rest
    let r := Avo.ISA.requiredISA names
    some (joinSp (toString r.length :: r))
  | _ => none

def handlers : List (String × Handler) := [("accept-det", handle), ("isa", handle)]
end Avo.Drv.C17
