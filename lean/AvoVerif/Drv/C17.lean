import AvoVerif.Drv.Common
import AvoVerif.Model.ISA
import AvoVerif.Model.AllocHist
import AvoVerif.Gen.Regs
namespace Avo.Drv.C17
open Avo.Drv Avo.AllocHist

def pairTok : List String → Option ((Nat × Nat) × List String)
  | a :: b :: ts => do let x ← a.toNat?; let y ← b.toNat?; some ((x, y), ts)
  | _ => none

/-- one operation of an `allochist` request (see harness/c17dirty.go) -/
def opTok : List String → Option (Op × List String)
  | "N" :: k :: ts => do let k ← k.toNat?; some (.new k, ts)
  | "F" :: ts => do let (rows, ts) ← listOf pairTok ts; some (.newFrom rows, ts)
  | "P" :: h :: id :: p :: ts => do
    let h ← h.toNat?; let id ← id.toNat?; let p ← p.toInt?
    some (.on h (.prio id p), ts)
  | "A" :: h :: v :: ts => do let h ← h.toNat?; let v ← v.toNat?; some (.on h (.add v), ts)
  | "E" :: h :: x :: y :: ts => do
    let h ← h.toNat?; let x ← x.toNat?; let y ← y.toNat?
    some (.on h (.edge x y), ts)
  | "L" :: h :: ts => do let h ← h.toNat?; some (.on h .alloc, ts)
  | _ => none

def sortPairs (xs : List (Nat × Nat)) : List (Nat × Nat) :=
  (xs.toArray.qsort (fun a b => a.1 < b.1)).toList

/-- the answers of a history: one per creation and per `Allocate` (which error is not compared) -/
def respStr : Resp → Option String
  | .none => none
  | .created h => some s!"h{h}"
  | .err => some "err"
  | .badHandle => some "bad-handle"
  | .alloc (.error _) => some "err"
  | .alloc (.ok al) =>
    let s := sortPairs al
    some (joinSp ("ok" :: toString s.length :: s.map (fun p => s!"{p.1} {p.2}")))

/-- `accept-det k n d1 … dn`: all digests (`asm.stubs.alloc+isa`, or the error text) of the
repeated generations are equal, and none is a panic (`Avo.Det.judge`; `acceptDet_sound` in Props/C17).
The answer names the parts that differ. -/
def handle : Handler
  | "accept-det" :: _ :: n :: ds => do
    let k ← n.toNat?
    if ds.length != k then none else
    match Avo.Det.judge ds with
    | none => some "ok"
    | some "bad-nondeterministic" => some ("bad-nondeterministic:" ++ ",".intercalate (Avo.Det.differingParts ds))
    | some v => some v
  | "isa" :: rest => do
    -- distinct ISA names of a function's instructions (in first-occurrence order) → the function's ISA list
    let (names, _) ← listOf strTok rest
    let r := Avo.ISA.requiredISA names
    some (joinSp (toString r.length :: r))
  | "allochist" :: rest => do
    -- a history of public allocator calls over several allocators, from an empty process
    let (ops, _) ← listOf opTok rest
    let rs := (run Avo.Gen.regs [] ops).2
    some (" ; ".intercalate (rs.filterMap respStr))
  | "accept-order" :: _ :: rest => do
    -- the register assignment of the clique program on a new allocator: in a fresh process / after a history
    let (fresh, rest) ← listOf strTok rest
    let (now, _) ← listOf strTok rest
    some ((orderJudge fresh now).getD "ok")
  | _ => none

def handlers : List (String × Handler) :=
  [("accept-det", handle), ("isa", handle), ("allochist", handle), ("accept-order", handle)]
end Avo.Drv.C17
