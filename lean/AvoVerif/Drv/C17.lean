import AvoVerif.Drv.Common
import AvoVerif.Model.ISA
namespace Avo.Drv.C17
open Avo.Drv

/-- `accept-det k n d1 … dn`: all digests (`asm.stubs.alloc+isa`, or the error text) of the
repeated generations are equal, and none is a panic (`Avo.Det.judge`; `acceptDet_sound` in Props/C17).
The answer names the parts that differ. -/
def handle : Handler
  | "accept-det" :: _ :: n :: ds => do
    let k ← n.toNat?
    if ds.length != k then none else
    match Avo.Det.judge ds with
    | none => some "ok"
    | some "bad-nondeterministic" => some ("bad-nondeterministic:" ++ ",".intercalate (Avo.Det.differingParts ds))
    | some v => some v
  | "isa" :: rest => do
    -- distinct ISA names of a function's instructions (in first-occurrence order) → the function's ISA list
    let (names, _) ← listOf strTok rest
    let r := Avo.ISA.requiredISA names
    some (joinSp (toString r.length :: r))
  | _ => none

def handlers : List (String × Handler) := [("accept-det", handle), ("isa", handle)]
end Avo.Drv.C17
