import AvoVerif.Drv.Common
namespace Avo.Drv.C17
open Avo.Drv

/-- `accept-det k n d1 … dn`: all digests (asm bytes, stub bytes, allocation, ISA) of the
repeated compilations are equal, and none is a panic. -/
def handle : Handler
  | "accept-det" :: _ :: n :: ds => do
    let k ← n.toNat?
    if ds.length != k then none else
    match ds with
    | [] => some "ok"
    | d :: rest =>
      if d == "panic" then some "bad-panic"
      else if rest.all (· == d) then some "ok" else some "bad-nondeterministic"
  | _ => none

def handlers : List (String × Handler) := [("accept-det", handle)]
end Avo.Drv.C17
