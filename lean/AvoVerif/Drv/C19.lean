import AvoVerif.Drv.Common
import AvoVerif.Model.Attr
import AvoVerif.Gen.TextFlags
import AvoVerif.Oracle.TextFlagH
namespace Avo.Drv.C19
open Avo.Drv Avo.Attr

/-- Parse the printed expression text back into tokens: parts separated by `|`,
a part made of decimal digits is a literal, anything else a macro name. -/
def hexVal? (s : String) : Option Nat :=
  if s.startsWith "0x" || s.startsWith "0X" then
    let ds := (s.drop 2).toString.toList
    if ds.isEmpty then none else
    ds.foldl (fun acc c => acc.bind (fun a =>
      if c.isDigit then some (a * 16 + (c.toNat - '0'.toNat))
      else if 'a' ≤ c && c ≤ 'f' then some (a * 16 + (c.toNat - 'a'.toNat + 10))
      else if 'A' ≤ c && c ≤ 'F' then some (a * 16 + (c.toNat - 'A'.toNat + 10))
      else none)) (some 0)
  else none

def parseText (s : String) : List Tok :=
  (s.splitOn "|").map (fun p => match p.toNat? with
    | some v => Tok.num v
    | none => match hexVal? p with
      | some v => Tok.num v      -- the assembler reads hexadecimal literals too: a harmless change of verb
      | none => Tok.name p)

/-- A literal (or macro value) beyond 16 bits would be silently truncated by `evalToks`: the attribute is a
16-bit value, so such a text is rejected outright. -/
def wideLiteral (toks : List Tok) : Bool :=
  toks.any (fun t => match t with
    | .num v => v ≥ 65536
    | .name n => match hdrValue Avo.Oracle.textflagH n with | some v => v ≥ 65536 | none => false)

/-- Acceptor (the property itself, on the implementation's output): the text
evaluates with the installed header to the value, and it uses a macro name only
if the implementation says the header is needed. -/
def acceptAttr (v : Nat) (text : String) (contains : Bool) : String :=
  let toks := parseText text
  if wideLiteral toks then "bad-wide-literal" else
  match evalToks Avo.Oracle.textflagH toks with
  | none => "bad-unknown-macro"
  | some r =>
    if r != BitVec.ofNat 16 v then s!"bad-value {r.toNat}"
    else if usesMacro toks && !contains then "bad-include"
    else "ok"

/-- `attr <u16>` → `<asm text> <containsTextFlags> <TEXT clause text or ->` -/
def handle : Handler
  | ["attr", v] => do
    let n ← v.toNat?
    if n ≥ 65536 then none else
    let a := BitVec.ofNat 16 n
    let names := Avo.Gen.attrname
    let clause := match textClause names a with
      | none => "-"
      | some ts => "|".intercalate (ts.map Tok.render)
    some (joinSp [asm names a, if containsTextFlags names a then "1" else "0", clause])
  | ["accept-attr", v, text, c] => do
    let n ← v.toNat?
    some (acceptAttr n text (c == "1"))
  | ["accept-attr", v, c] => do  -- TEXT directive with omitted clause: value 0
    let n ← v.toNat?
    let _ := c
    some (if n == 0 then "ok" else "bad-value 0")
  | "accept-incl" :: rest => do
    -- final include list, then the printed attribute texts of the sections
    let (incl, rest) ← listOf strTok rest
    let (texts, _) ← listOf strTok rest
    let needs := texts.any (fun t => usesMacro (parseText t))
    some (if needs && !incl.contains textflagHeader then "bad-missing-include" else "ok")
  | "inclpass" :: rest => do
    let (incl, rest) ← listOf strTok rest
    let (secs, _) ← listOf natTok rest
    let r := includeTextFlagHeader Avo.Gen.attrname incl (secs.map (BitVec.ofNat 16))
    some (joinSp (toString r.length :: r))
  | _ => none

def handlers : List (String × Handler) :=
  ["attr", "inclpass", "accept-attr", "accept-incl"].map (·, handle)

end Avo.Drv.C19
