import AvoVerif.Drv.Common
import AvoVerif.Model.Attr
import AvoVerif.Model.AttrFile
import AvoVerif.Gen.TextFlags
import AvoVerif.Oracle.TextFlagH
namespace Avo.Drv.C19
open Avo.Drv Avo.Attr

/-- Parse the printed expression text back into tokens: parts separated by `|`,
a part made of decimal digits is a literal, anything else a macro name. -/
def hexVal? (s : String) : Option Nat :=
  if s.startsWith "0x" || s.startsWith "0X" then
    let ds := (s.drop 2).toString.toList
    if ds.isEmpty then none else
    ds.foldl (fun acc c => acc.bind (fun a =>
      if c.isDigit then some (a * 16 + (c.toNat - '0'.toNat))
      else if 'a' ≤ c && c ≤ 'f' then some (a * 16 + (c.toNat - 'a'.toNat + 10))
      else if 'A' ≤ c && c ≤ 'F' then some (a * 16 + (c.toNat - 'A'.toNat + 10))
      else none)) (some 0)
  else none

def parseText (s : String) : List Tok :=
  (s.splitOn "|").map (fun p => match p.toNat? with
    | some v => Tok.num v
    | none => match hexVal? p with
      | some v => Tok.num v      -- the assembler reads hexadecimal literals too: a harmless change of verb
      | none => Tok.name p)

/-- A literal (or macro value) beyond 16 bits would be silently truncated by `evalToks`: the attribute is a
16-bit value, so such a text is rejected outright. -/
def wideLiteral (toks : List Tok) : Bool :=
  toks.any (fun t => match t with
    | .num v => v ≥ 65536
    | .name n => match hdrValue Avo.Oracle.textflagH n with | some v => v ≥ 65536 | none => false)

/-- Acceptor (the property itself, on the implementation's output): the text
evaluates with the installed header to the value, and it uses a macro name only
if the implementation says the header is needed. -/
def acceptAttr (v : Nat) (text : String) (contains : Bool) : String :=
  let toks := parseText text
  if wideLiteral toks then "bad-wide-literal" else
  match evalToks Avo.Oracle.textflagH toks with
  | none => "bad-unknown-macro"
  | some r =>
    if r != BitVec.ofNat 16 v then s!"bad-value {r.toNat}"
    else if usesMacro toks && !contains then "bad-include"
    else "ok"

/-- a hex-encoded string token -/
def hexTok : List String → Option (String × List String)
  | [] => none
  | t :: ts => (unhexStr t).map (·, ts)

/-- Like `parseText`, tolerant of blanks around the parts (the assembler is). -/
def parseClause (s : String) : List Tok :=
  (s.splitOn "|").map (fun p =>
    let p := p.trimAscii.toString
    match p.toNat? with
    | some v => Tok.num v
    | none => match hexVal? p with
      | some v => Tok.num v
      | none => Tok.name p)

/-- `<t|g> <value> <clause hex, or "-" for an omitted clause>` -/
def secTok : List String → Option ((Bool × Nat × Option String) × List String)
  | k :: v :: c :: ts => do
    let n ← v.toNat?
    let isText ← (if k == "t" then some true else if k == "g" then some false else none)
    let cl ← (if c == "-" then some none else (unhexStr c).map some)
    some ((isText, n, cl), ts)
  | _ => none

/-- Acceptor for a printed file: `Avo.Attr.acceptFile` (sound and complete for `FileOK`,
`Props/C19File.acceptFile_sound`) in the environment `stdEnv Oracle.textflagH` — "textflag.h" by its exact
spelling is the installed header, every other include defines no flag macro —, on the clauses parsed from the
implementation's text.  GLOBL must carry a clause; a value beyond 16 bits is rejected outright. -/
def acceptFileText (incl : List String) (secs : List (Bool × Nat × Option String)) : String :=
  if secs.any (fun s => s.2.1 ≥ 65536) then "bad-request" else
  if secs.any (fun s => !s.1 && s.2.2.isNone) then "bad-globl-without-clause" else
  let parsed := secs.map (fun s => (BitVec.ofNat 16 s.2.1, s.2.2.map parseClause))
  if parsed.any (fun s => match s.2 with | some ts => wideLiteral ts | none => false) then "bad-wide-literal" else
  if acceptFile (stdEnv Avo.Oracle.textflagH) incl parsed then "ok" else
  match firstBad (stdEnv Avo.Oracle.textflagH) incl parsed 0 with
  | some (k, none) => s!"bad-undefined-macro section={k}"
  | some (k, some r) => s!"bad-value section={k} got={r.toNat}"
  | none => "bad"

/-- `<t|g> <value> <measured value or -> <dupok 0|1|->` -/
def measTok : List String → Option ((Nat × Option Nat × Option Bool) × List String)
  | _k :: v :: m :: d :: ts => do
    let n ← v.toNat?
    let mv ← (if m == "-" then some none else m.toNat?.map some)
    let dk ← (if d == "-" then some none else if d == "1" then some (some true) else if d == "0" then some (some false) else none)
    some ((n, mv, dk), ts)
  | _ => none

/-- Measured route: the assembler accepted the file, evaluated every clause (in the file's own include
environment, through a DATA probe) to the section's value, and the symbol carries DUPOK exactly when bit 2 is set. -/
def acceptMeasured (status : String) (secs : List (Nat × Option Nat × Option Bool)) : String :=
  if status != "ok" then "bad-rejected" else
  match secs.findIdx? (fun s => s.2.1 != some s.1) with
  | some k => s!"bad-measured-value section={k}"
  | none =>
    match secs.findIdx? (fun s => s.2.2 != some (s.1 / 2 % 2 == 1)) with
    | some k => s!"bad-symbol-dupok section={k}"
    | none => "ok"


/-- `attr <u16>` → `<asm text> <containsTextFlags> <TEXT clause text or ->` -/
def handle : Handler
  | ["attr", v] => do
    let n ← v.toNat?
    if n ≥ 65536 then none else
    let a := BitVec.ofNat 16 n
    let names := Avo.Gen.attrname
    let clause := match textClause names a with
      | none => "-"
      | some ts => "|".intercalate (ts.map Tok.render)
    some (joinSp [asm names a, if containsTextFlags names a then "1" else "0", clause])
  | ["accept-attr", v, text, c] => do
    let n ← v.toNat?
    some (acceptAttr n text (c == "1"))
  | ["accept-attr", v, c] => do  -- TEXT directive with omitted clause: value 0
    let n ← v.toNat?
    let _ := c
    some (if n == 0 then "ok" else "bad-value 0")
  | "accept-incl" :: rest => do
    -- final include list (hex), then the printed attribute texts of the sections
    let (incl, rest) ← listOf hexTok rest
    let (texts, _) ← listOf strTok rest
    let needs := texts.any (fun t => usesMacro (parseText t))
    some (if needs && !incl.contains textflagHeader then "bad-missing-include" else "ok")
  | "inclpass" :: rest => do
    -- prior include list (hex), then the attribute values of the sections
    let (incl, rest) ← listOf hexTok rest
    let (secs, _) ← listOf natTok rest
    let r := includeTextFlagHeader Avo.Gen.attrname incl (secs.map (BitVec.ofNat 16))
    some (joinSp (toString r.length :: r.map hexStr))
  | "accept-file" :: _route :: rest => do
    -- the include lines and the TEXT/GLOBL clauses of the REAL printed file
    let (incl, rest) ← listOf hexTok rest
    let (secs, _) ← listOf secTok rest
    some (acceptFileText incl secs)
  | "accept-asmfile" :: _route :: status :: rest => do
    -- what `go tool asm` made of the real printed file (+ one DATA probe per clause)
    let (_incl, rest) ← listOf hexTok rest
    let (secs, _) ← listOf measTok rest
    some (acceptMeasured status secs)
  | _ => none

def handlers : List (String × Handler) :=
  ["attr", "inclpass", "accept-attr", "accept-incl", "accept-file", "accept-asmfile"].map (·, handle)

end Avo.Drv.C19
