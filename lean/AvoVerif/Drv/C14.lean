import AvoVerif.Drv.Common
import AvoVerif.Model.Tags
import AvoVerif.Oracle.TagChars
/-!
Protocol handlers of C14.

Formula token (one token, no spaces): constraints joined by `;`, options by
`+`, terms by `,`; a term is the hex of its UTF-8 bytes (`-` = empty string);
`E` = option without terms, `N` = constraint without options, `Z` = empty set.
Assignments over the tagUniverse `k name₁ … name_k` are numbered `0 … 2^k-1`, tag
`j` is true in assignment `i` iff bit `j` of `i` is set; evaluation results
travel as strings of `0`/`1` (and `x` for "rejected").
-/
namespace Avo.Drv.C14
open Avo.Drv Avo.Tags

/-- The installed toolchain's tag characters (measured on this run). -/
def tc : Char → Bool := tagCharOf Avo.Oracle.tagRanges

def decTerm (s : String) : Option Term := (unhexStr s).map String.toList

def decOpt (s : String) : Option Opt :=
  if s == "E" then some [] else (s.splitOn ",").mapM decTerm

def decConstraint (s : String) : Option Constraint :=
  if s == "N" then some [] else (s.splitOn "+").mapM decOpt

def decFormula (s : String) : Option Constraints :=
  if s == "Z" then some [] else (s.splitOn ";").mapM decConstraint

def encStr (s : Str) : String := hexStr (String.ofList s)

def encOpt (o : Opt) : String := if o.isEmpty then "E" else ",".intercalate (o.map encStr)
def encConstraint (c : Constraint) : String := if c.isEmpty then "N" else "+".intercalate (c.map encOpt)
def encFormula (cs : Constraints) : String := if cs.isEmpty then "Z" else ";".intercalate (cs.map encConstraint)

/-- Assignment number `i` over the tagUniverse. -/
def assign (names : List Str) (i : Nat) (forced : List Str := []) : Str → Bool := fun t =>
  forced.contains t ||
  (names.zipIdx.any (fun p => p.1 == t && (i >>> p.2) % 2 == 1))

def bit (b : Bool) : Char := if b then '1' else '0'

def bitsOf (names : List Str) (f : (Str → Bool) → Option Bool) (forced : List Str := []) : String :=
  String.ofList ((List.range (2 ^ names.length)).map (fun i =>
    match f (assign names i forced) with
    | some b => bit b
    | none => 'x'))

/-- `k name₁ … name_k` (names hex-encoded). -/
def tagUniverse (ts : List String) : Option (List Str × List String) := do
  let (ns, rest) ← listOf strTok ts
  let ns ← ns.mapM decTerm
  some (ns, rest)

def kv (key : String) (tok : String) : Option String :=
  if tok.startsWith (key ++ "=") then some ((tok.drop (key.length + 1)).toString) else none

def roundtripTok (c : Constraint) : String :=
  match parseConstraint tc (body c ++ ['\n']) with
  | none => "err"
  | some c' => encConstraint c'

/-- Exact model answer for one formula. -/
def tagsLine (cs : Constraints) (names : List Str) (forced : List Str) : String :=
  let valid := validate tc cs
  let gs := encStr (goString cs)
  if !valid then s!"valid=0 gs={gs}" else
  let h := format tc cs
  let ev := bitsOf names (fun v => some (evaluate tc v cs)) forced
  let tb := bitsOf names (fun v => toolchainSelects v h) forced
  let rt := if cs.isEmpty then "Z" else ";".intercalate (cs.map roundtripTok)
  s!"valid=1 gs={gs} fmt={encStr h.text} ev={ev} tb={tb} rt={rt}"

/-- The property itself on the implementation's outputs: the toolchain accepted
the header and every toolchain evaluation (go/build/constraint on the printed
lines, go/build MatchFile on both printed files) equals avo's Evaluate; and
every constraint parsed back from its printed form. -/
def acceptTags (ev st tcb mg ma rt : String) : String :=
  if st != "ok" then s!"bad-toolchain-rejects {st}"
  else
    let firstDiff (a b : String) : Option Nat :=
      if a.length != b.length then some 0 else
      (List.range a.length).find? (fun i => a.toList[i]! != b.toList[i]!)
    match firstDiff ev tcb with
    | some i => s!"bad-eval constraint assignment={i}"
    | none =>
    match firstDiff ev mg with
    | some i => s!"bad-eval matchfile-go assignment={i}"
    | none =>
    match firstDiff ev ma with
    | some i => s!"bad-eval matchfile-asm assignment={i}"
    | none =>
      if rt.toList.all (· == '1') then "ok" else "bad-roundtrip"

def exprLine (names : List Str) (r : Option (Option Expr)) : String :=
  match r with
  | none => "notconstraint"
  | some none => "err"
  | some (some e) =>
    let bits := bitsOf names (fun v => some (e.eval v))
    s!"ok {encStr e.print} {bits}"

/-- Ranges as `n lo hi …`. -/
def rangesTok (rs : List (Nat × Nat)) : String :=
  joinSp (toString rs.length :: rs.flatMap (fun r => [toString r.1, toString r.2]))

def pairUp : List Nat → List (Nat × Nat)
  | a :: b :: r => (a, b) :: pairUp r
  | _ => []

def firstRangeDiff : List (Nat × Nat) → List (Nat × Nat) → Option Nat
  | [], [] => none
  | (a, _) :: _, [] => some a
  | [], (a, _) :: _ => some a
  | (a, b) :: r, (c, d) :: s =>
    if a != c then some (min a c)
    else if b != d then some (min b d + 1)
    else firstRangeDiff r s

def ctxRun (exprs : List Str) : Nat × Constraints :=
  exprs.foldl (fun (st : Nat × Constraints) e =>
    match parseConstraint tc e with
    | none => (st.1 + 1, st.2)
    | some c =>
      let cand := st.2 ++ [c]
      if validate tc cand then (st.1, cand) else (st.1 + 1, st.2)) (0, [])

def handle : Handler
  | ["syntax"] => some "plus=0 go=1"
  | "tags" :: f :: rest => do
    let cs ← decFormula f
    let (names, _) ← tagUniverse rest
    some (tagsLine cs names [])
  | "tags-ignore" :: f :: rest => do
    let cs ← decFormula f
    let (names, _) ← tagUniverse rest
    some (tagsLine cs names [ignoreTag])
  | "accept-tags" :: "valid=1" :: _f :: rest => do
    let (_, rest) ← tagUniverse rest
    match rest with
    | [ev, st, tcb, mg, ma, rt] =>
      some (acceptTags (← kv "ev" ev) (← kv "st" st) (← kv "tc" tcb) (← kv "mg" mg) (← kv "ma" ma) (← kv "rt" rt))
    | _ => none
  | "accept-tags-ignore" :: "valid=1" :: _f :: rest => do
    let (_, rest) ← tagUniverse rest
    match rest with
    | [ev, st, tcb, mg, ma, rt] =>
      some (acceptTags (← kv "ev" ev) (← kv "st" st) (← kv "tc" tcb) (← kv "mg" mg) (← kv "ma" ma) (← kv "rt" rt))
    | _ => none
  | ["term", t] => do
    let t ← decTerm t
    some s!"valid={bit (validTerm tc t)} neg={bit (isNegated t)} name={encStr (name t)}"
  | ["accept-term", _t, avo, tool] => do
    let a ← kv "avo" avo
    let t ← kv "tool" tool
    if t == "na" then some (if a == "0" then "ok" else "bad-accepts-non-literal")
    else some (if a == t then "ok" else s!"bad-term avo={a} toolchain={t}")
  | ["parse", t] => do
    let t ← decTerm t
    match parseConstraint tc t with
    | none => some "err"
    | some c => some s!"ok {encConstraint c}"
  | ["parseopt", t] => do
    let t ← decTerm t
    match parseOption tc t with
    | none => some "err"
    | some o => some s!"ok {encOpt o}"
  | "tcline" :: l :: rest => do
    let l ← decTerm l
    let (names, _) ← tagUniverse rest
    some (exprLine names (parsePlusLine tc l))
  | "ctx" :: rest => do
    let (es, _) ← listOf strTok rest
    let es ← es.mapM decTerm
    let r := ctxRun es
    some s!"errs={r.1} cs={encFormula r.2}"
  | _ => none

/-- `accept-tagranges n lo₁ hi₁ …`: avo's single-character validity ranges must be
the toolchain's. -/
def handleRanges : Handler
  | "accept-tagranges" :: n :: rest => do
    let k ← n.toNat?
    let nums ← rest.mapM String.toNat?
    if nums.length != 2 * k then none else
    match firstRangeDiff (pairUp nums) Avo.Oracle.tagRanges with
    | none => some "ok"
    | some cp => some s!"bad-tagchar codepoint={cp}"
  | _ => none

def handlers : List (String × Handler) :=
  ("accept-tagranges", handleRanges) ::
  ["syntax", "tags", "tags-ignore", "accept-tags", "accept-tags-ignore", "term", "accept-term",
   "parse", "parseopt", "tcline", "ctx"].map (·, handle)

end Avo.Drv.C14
