import AvoVerif.Drv.Common
import AvoVerif.Model.Tags
import AvoVerif.Model.TagsHist
import AvoVerif.Oracle.TagChars
/-!
Protocol handlers of C14.

Formula token (one token, no spaces): constraints joined by `;`, options by
`+`, terms by `,`; a term is the hex of its UTF-8 bytes (`-` = empty string);
`E` = option without terms, `N` = constraint without options, `Z` = empty set.
Assignments over the tagUniverse `k name₁ … name_k` are numbered `0 … 2^k-1`, tag
`j` is true in assignment `i` iff bit `j` of `i` is set; evaluation results
travel as strings of `0`/`1` (and `x` for "rejected").
-/
namespace Avo.Drv.C14
open Avo.Drv Avo.Tags

/-- The installed toolchain's tag characters (measured on this run). -/
def tc : Char → Bool := tagCharOf Avo.Oracle.tagRanges

def decTerm (s : String) : Option Term := (unhexStr s).map String.toList

def decOpt (s : String) : Option Opt :=
  if s == "E" then some [] else (s.splitOn ",").mapM decTerm

def decConstraint (s : String) : Option Constraint :=
  if s == "N" then some [] else (s.splitOn "+").mapM decOpt

def decFormula (s : String) : Option Constraints :=
  if s == "Z" then some [] else (s.splitOn ";").mapM decConstraint

def encStr (s : Str) : String := hexStr (String.ofList s)

def encOpt (o : Opt) : String := if o.isEmpty then "E" else ",".intercalate (o.map encStr)
def encConstraint (c : Constraint) : String := if c.isEmpty then "N" else "+".intercalate (c.map encOpt)
def encFormula (cs : Constraints) : String := if cs.isEmpty then "Z" else ";".intercalate (cs.map encConstraint)

/-- Assignment number `i` over the tagUniverse. -/
def assign (names : List Str) (i : Nat) (forced : List Str := []) : Str → Bool := fun t =>
  forced.contains t ||
  (names.zipIdx.any (fun p => p.1 == t && (i >>> p.2) % 2 == 1))

def bit (b : Bool) : Char := if b then '1' else '0'

def bitsOf (names : List Str) (f : (Str → Bool) → Option Bool) (forced : List Str := []) : String :=
  String.ofList ((List.range (2 ^ names.length)).map (fun i =>
    match f (assign names i forced) with
    | some b => bit b
    | none => 'x'))

/-- `k name₁ … name_k` (names hex-encoded). -/
def tagUniverse (ts : List String) : Option (List Str × List String) := do
  let (ns, rest) ← listOf strTok ts
  let ns ← ns.mapM decTerm
  some (ns, rest)

def kv (key : String) (tok : String) : Option String :=
  if tok.startsWith (key ++ "=") then some ((tok.drop (key.length + 1)).toString) else none

def roundtripTok (c : Constraint) : String :=
  match parseConstraint tc (body c ++ ['\n']) with
  | none => "err"
  | some c' => encConstraint c'

/-- Exact model answer for one formula.  The text of the header is NOT compared
(the property does not pin the rendering down): `fmt=` is the class of
`Format`'s result (`ERR` = error, `none` = no constraint line, `lines`), and
`tb=` the toolchain's decision on the header per assignment, which the harness
obtains by giving the text avo really printed to the real go/build/constraint. -/
def tagsLine (cs : Constraints) (names : List Str) (forced : List Str) : String :=
  let valid := validate tc cs
  let gs := encStr (goString cs)
  let ev := bitsOf names (fun v => some (evaluate tc v cs)) forced
  if !valid then s!"valid=0 gs={gs} ev={ev}" else
  let rt := if cs.isEmpty then "Z" else ";".intercalate (cs.map roundtripTok)
  match formatChecked tc cs with
  | none =>
    let tb := bitsOf names (fun _ => none) forced
    s!"valid=1 gs={gs} fmt=ERR ev={ev} tb={tb} rt={rt}"
  | some h =>
    let cls := match h with | .none => "none" | .goBuild _ => "lines"
    let tb := bitsOf names (fun v => toolchainSelects v h) forced
    s!"valid=1 gs={gs} fmt={cls} ev={ev} tb={tb} rt={rt}"

def bitOf? : Char → Option (Option Bool)
  | '0' => some (some false)
  | '1' => some (some true)
  | 'x' => some none
  | _ => none

def bitsOf? (s : String) : Option (List (Option Bool)) := s.toList.mapM bitOf?

def plainBits? (s : String) : Option (List Bool) :=
  s.toList.mapM (fun c => match c with | '0' => some false | '1' => some true | _ => none)

def firstDiff (a : List Bool) (b : List (Option Bool)) : Option Nat :=
  if a.length != b.length then some 0 else
  (List.range a.length).find? (fun i => b[i]? != some (some a[i]!))

/-- The property itself on the implementation's outputs (`Obs.ok`, see
`Avo.Tags.acceptObs_sound`): `Format` succeeded, the toolchain accepted the header
and every toolchain evaluation (go/build/constraint on the printed lines,
go/build MatchFile on both printed files) equals avo's Evaluate; and every
constraint parsed back from its printed form.  When it fails, the answer names
the failure class; the model is consulted ONLY to tell the three known causes
(F8c line too complex, F8d too many operands, F8e scanner limit) from an
unexpected failure of the same shape: every answer other than `ok` is a violation. -/
def acceptTags (cs : Constraints) (hd st : String) (o : Obs) : String :=
  if o.ok then "ok" else
  let allAre (l : List (Option Bool)) (x : Option Bool) : Bool := l.all (· == x)
  if o.fmtErr then
    let printedNothing := allAre o.tcb none && allAre o.mg none && allAre o.ma none
    if st == "format-err" && (formatChecked tc cs).isNone && printedNothing && o.rt.all (· == some true)
    then "bad-format-error scan-limit" else s!"bad-format-error unexpected {st}"
  else if o.rejected then
    let predicted := match formatChecked tc cs with
      | some h => (toolchainSelects (fun _ => false) h).isNone
      | none => false
    if st == "rejected:build_expression_too_large" && predicted && allAre o.mg none && allAre o.ma none
        && o.rt.all (· == some true)
    then "bad-toolchain-rejects build_expression_too_large operands>1000"
    else s!"bad-toolchain-rejects {st} unexpected"
  else
    match firstDiff o.ev o.tcb with
    | some i =>
      if hd == "none" then
        let complex := cs.any (fun c => termCount c > maxOldSize + 1)
        let always := allAre o.tcb (some true) && allAre o.mg (some true) && allAre o.ma (some true)
        if complex && format tc cs == .none && always && o.rt.all (· == some true)
        then s!"bad-eval no-header line-too-complex assignment={i}"
        else s!"bad-eval no-header unexpected assignment={i}"
      else s!"bad-eval constraint assignment={i}"
    | none =>
    match firstDiff o.ev o.mg with
    | some i => s!"bad-eval matchfile-go assignment={i}"
    | none =>
    match firstDiff o.ev o.ma with
    | some i => s!"bad-eval matchfile-asm assignment={i}"
    | none => "bad-roundtrip"

def acceptTagsReq (f : String) (rest : List String) : Option String := do
  let cs ← decFormula f
  let (_, rest) ← tagUniverse rest
  match rest with
  | [_sh, hd, ev, st, tcb, mg, ma, rt] =>
    let hd ← kv "hd" hd
    let st ← kv "st" st
    let o : Obs := {
      fmtErr := st.startsWith "format-"
      rejected := st.startsWith "rejected:"
      ev := ← plainBits? (← kv "ev" ev)
      tcb := ← bitsOf? (← kv "tc" tcb)
      mg := ← bitsOf? (← kv "mg" mg)
      ma := ← bitsOf? (← kv "ma" ma)
      rt := ← bitsOf? (← kv "rt" rt) }
    if st != "ok" && !o.fmtErr && !o.rejected then none else
    some (acceptTags cs hd st o)
  | _ => none

def exprLine (names : List Str) (r : Option (Option Expr)) : String :=
  match r with
  | none => "notconstraint"
  | some none => "err"
  | some (some e) =>
    let bits := bitsOf names (fun v => some (e.eval v))
    s!"ok {encStr e.print} {bits}"

/-- Ranges as `n lo hi …`. -/
def rangesTok (rs : List (Nat × Nat)) : String :=
  joinSp (toString rs.length :: rs.flatMap (fun r => [toString r.1, toString r.2]))

def pairUp : List Nat → List (Nat × Nat)
  | a :: b :: r => (a, b) :: pairUp r
  | _ => []

def firstRangeDiff : List (Nat × Nat) → List (Nat × Nat) → Option Nat
  | [], [] => none
  | (a, _) :: _, [] => some a
  | [], (a, _) :: _ => some a
  | (a, b) :: r, (c, d) :: s =>
    if a != c then some (min a c)
    else if b != d then some (min b d + 1)
    else firstRangeDiff r s

def ctxRun (exprs : List Str) : Nat × Constraints :=
  exprs.foldl (fun (st : Nat × Constraints) e =>
    match parseConstraint tc e with
    | none => (st.1 + 1, st.2)
    | some c =>
      let cand := st.2 ++ [c]
      if validate tc cand then (st.1, cand) else (st.1 + 1, st.2)) (0, [])


/-! ### histories (`hist`, `accept-hist`): Model/TagsHist.lean

Operation tokens: `N.i.r` / `N.i.h` (bare / hand-built `ir.File`) and `N.i.c` / `N.i.g` (file of a `build.Context`, changed through
its methods / through the package-level functions of avo/build) allocate slot `i`; `S.i=<formula>` set; `A.i=<constraint>` append; `X.i=<hex text>` parse and append; `R.i.j=<constraint>` and
`T.i.j.k.l=<hex term>` replace in place; `C.i` clear; `P.i.a` / `P.i.s` / `P.i.f` print (assembly printer, stub
printer, `buildtags.Format`); `D.i` drop. -/

def decOp (t : String) : Option Op := do
  let (hd, pl) ← match t.splitOn "=" with
    | [a] => some (a, none)
    | [a, b] => some (a, some b)
    | _ => none
  match hd.splitOn ".", pl with
  | ["N", i, "r"], none => some (.new (← i.toNat?) .raw)
  | ["N", i, "h"], none => some (.new (← i.toNat?) .raw)
  | ["N", i, "c"], none => some (.new (← i.toNat?) .ctx)
  | ["N", i, "g"], none => some (.new (← i.toNat?) .ctx)
  | ["S", i], some f => some (.set (← i.toNat?) (← decFormula f))
  | ["A", i], some c => some (.add (← i.toNat?) (← decConstraint c))
  | ["X", i], some e => some (.addExpr (← i.toNat?) (← decTerm e))
  | ["R", i, j], some c => some (.replace (← i.toNat?) (← j.toNat?) (← decConstraint c))
  | ["T", i, j, k, l], some t => some (.setTerm (← i.toNat?) (← j.toNat?) (← k.toNat?) (← l.toNat?) (← decTerm t))
  | ["C", i], none => some (.clear (← i.toNat?))
  | ["P", i, "a"], none => some (.print (← i.toNat?) .asm)
  | ["P", i, "s"], none => some (.print (← i.toNat?) .stub)
  | ["P", i, "f"], none => some (.print (← i.toNat?) .fmt)
  | ["D", i], none => some (.drop (← i.toNat?))
  | _, _ => none

/-- What one print of a history shows: the class of the header, avo's
`Evaluate` and the toolchain's decision on the header per assignment, and the
constraints the file holds at that moment. -/
def printTok (names : List Str) : Option PrintOut → String
  | none => "nofile"
  | some r =>
    let cs := encFormula r.cs
    if !validate tc r.cs then s!"inv:{cs}" else
    let ev := bitsOf names (fun v => some (evaluate tc v r.cs))
    match r.hdr with
    | none => s!"ERR:{ev}:{bitsOf names (fun _ => none)}:{cs}"
    | some h =>
      let cls := match h with | .none => "none" | .goBuild _ => "lines"
      s!"{cls}:{ev}:{bitsOf names (fun v => toolchainSelects v h)}:{cs}"

def histSlots : Nat := 4

def histLine (names : List Str) (ops : List Op) : String :=
  let outs := (run tc Heap.empty ops).map (printTok names)
  let h := heapAfter tc Heap.empty ops
  let errs := (List.range histSlots).map (fun i => match h i with | some f => toString f.errs | none => "-")
  joinSp (outs ++ ["errs=" ++ ",".intercalate errs])

/-- One print of an `accept-hist` line: `P.i.k <formula> ev=… st=… tc=… mf=…`. -/
def obsTok : List String → Option ((String × Obs) × List String)
  | p :: _cs :: ev :: st :: tcb :: mf :: rest => do
    let st ← kv "st" st
    let mf ← bitsOf? (← kv "mf" mf)
    let o : Obs := {
      fmtErr := st.startsWith "format-"
      rejected := st.startsWith "rejected"
      ev := ← plainBits? (← kv "ev" ev)
      tcb := ← bitsOf? (← kv "tc" tcb)
      mg := mf, ma := mf, rt := [] }
    if st != "ok" && !o.fmtErr && !o.rejected then none else
    some ((p, o), rest)
  | _ => none

/-- The property along a history (`acceptHist`, theorem `acceptHist_sound`): on
every print, the header that print produced means to the toolchain what the
constraints the file holds at that moment mean to avo. -/
def acceptHistLine (obs : List (String × Obs)) : String :=
  if acceptHist (obs.map (·.2)) then "ok" else
  match firstBadPrint (obs.map (·.2)) with
  | none => "bad-hist"
  | some n =>
    match obs[n]? with
    | none => "bad-hist"
    | some (p, o) =>
      let why :=
        if o.fmtErr then "format-error"
        else if o.rejected then "toolchain-rejects-header"
        else match firstDiff o.ev o.tcb with
          | some i => s!"stale-or-wrong-header assignment={i}"
          | none => match firstDiff o.ev o.mg with
            | some i => s!"printed-file-selected-differently assignment={i}"
            | none => "unknown"
      s!"bad-hist print={n} {p} {why}"

def handle : Handler
  | ["syntax"] => some "plus=0 go=1"
  | "tags" :: f :: rest => do
    let cs ← decFormula f
    let (names, _) ← tagUniverse rest
    some (tagsLine cs names [])
  | "tags-ignore" :: f :: rest => do
    let cs ← decFormula f
    let (names, _) ← tagUniverse rest
    some (tagsLine cs names [ignoreTag])
  | "accept-tags" :: "valid=1" :: f :: rest => acceptTagsReq f rest
  | "accept-tags-ignore" :: "valid=1" :: f :: rest => acceptTagsReq f rest
  | ["accept-ctx", f] => do
    -- build.Context reported no error: the set it holds must be valid
    let cs ← decFormula f
    some (if validate tc cs then "ok" else "bad-context-accepts-invalid")
  | "accept-parse" :: _kind :: _text :: rest => do
    -- avo parsed the text: the parsed constraint must mean what the toolchain reads from the text
    let (_, rest) ← tagUniverse rest
    match rest with
    | [avo, tool] =>
      let a ← kv "avo" avo
      let t ← kv "tool" tool
      if t == "rejected" then some "bad-parse-accepts-non-constraint" else
      let a ← plainBits? a
      let t ← bitsOf? t
      some (if acceptEvals a t then "ok" else "bad-parse-meaning")
    | _ => none
  | ["accept-badutf8", _t, avo] => do
    -- a term that is not valid UTF-8 contains U+FFFD for Go's `range`: never a tag character
    let a ← kv "avo" avo
    some (if a == "0" then "ok" else "bad-accepts-invalid-utf8")
  | ["term", t] => do
    let t ← decTerm t
    some s!"valid={bit (validTerm tc t)} neg={bit (isNegated t)} name={encStr (name t)}"
  | ["accept-term", _t, avo, tool] => do
    let a ← kv "avo" avo
    let t ← kv "tool" tool
    if t == "na" then some (if a == "0" then "ok" else "bad-accepts-non-literal")
    else some (if a == t then "ok" else s!"bad-term avo={a} toolchain={t}")
  | ["parse", t] => do
    let t ← decTerm t
    match parseConstraint tc t with
    | none => some "err"
    | some c => some s!"ok {encConstraint c}"
  | ["parseopt", t] => do
    let t ← decTerm t
    match parseOption tc t with
    | none => some "err"
    | some o => some s!"ok {encOpt o}"
  | "tcline" :: l :: rest => do
    let l ← decTerm l
    let (names, _) ← tagUniverse rest
    some (exprLine names (parsePlusLine tc l))
  | "hist" :: rest => do
    let (names, rest) ← tagUniverse rest
    let (ops, _) ← listOf strTok rest
    let ops ← ops.mapM decOp
    some (histLine names ops)
  | "accept-hist" :: rest => do
    let (_, rest) ← tagUniverse rest
    let (_ops, rest) ← listOf strTok rest
    let (obs, _) ← listOf obsTok rest
    some (acceptHistLine obs)
  | "ctx" :: rest => do
    let (es, _) ← listOf strTok rest
    let es ← es.mapM decTerm
    let r := ctxRun es
    some s!"errs={r.1} cs={encFormula r.2}"
  | _ => none

/-- `accept-tagranges n lo₁ hi₁ …`: avo's single-character validity ranges must be
the toolchain's. -/
def handleRanges : Handler
  | "accept-tagranges" :: n :: rest => do
    let k ← n.toNat?
    let nums ← rest.mapM String.toNat?
    if nums.length != 2 * k then none else
    match firstRangeDiff (pairUp nums) Avo.Oracle.tagRanges with
    | none => some "ok"
    | some cp => some s!"bad-tagchar codepoint={cp}"
  | _ => none

def handlers : List (String × Handler) :=
  ("accept-tagranges", handleRanges) ::
  ["syntax", "tags", "tags-ignore", "accept-tags", "accept-tags-ignore", "term", "accept-term", "accept-badutf8", "accept-ctx", "accept-parse",
   "hist", "accept-hist", "parse", "parseopt", "tcline", "ctx"].map (·, handle)

end Avo.Drv.C14
