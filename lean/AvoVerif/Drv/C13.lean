import AvoVerif.Drv.Common
namespace Avo.Drv.C13
open Avo.Drv
def handlers : List (String × Handler) := []
end Avo.Drv.C13
