import AvoVerif.Drv.Common
import AvoVerif.Model.Data
import AvoVerif.Model.Float
import AvoVerif.Model.DataAccept
namespace Avo.Drv.C13
open Avo.Drv Avo.Data Avo.NumText

def tyOf (s : String) : Option IntTy :=
  match s with
  | "i8" => some I8 | "u8" => some U8 | "i16" => some I16 | "u16" => some U16
  | "i32" => some I32 | "u32" => some U32 | "i64" => some I64 | "u64" => some U64
  | _ => none

def hexNat (s : String) : Option Nat :=
  if s.isEmpty then none else readDigits 16 s.toList 0

/-- A constant token: `i8:<v>` … `u64:<v>`, `f32:<bits hex>:<text hex>:<asm bits hex>`,
`f64:…`, `s:<bytes hex>`.  For floats the last field is what the assembler's
conversion of the text gives (measured by the harness); it feeds the oracle. -/
def constOf (t : String) : Option Const :=
  match t.splitOn ":" with
  | [k, v] =>
    if k == "s" then (unhex v).map Const.str
    else do
      let ty ← tyOf k
      let v ← v.toInt?
      some (Const.int ty v)
  | [k, bits, text, _] => do
    let n ← if k == "f32" then some 4 else if k == "f64" then some 8 else none
    let bits ← hexNat bits
    let text ← unhexStr text
    some (Const.float n bits text.toList)
  | _ => none

/-- `p <off> <const>` | `a <const>` | `g <n>` -/
def opTok : List String → Option (Op × List String)
  | "p" :: off :: c :: ts => do
    let off ← off.toInt?
    let c ← constOf c
    some (Op.place off c, ts)
  | "a" :: c :: ts => do
    let c ← constOf c
    some (Op.append c, ts)
  | "g" :: n :: ts => do
    let n ← n.toInt?
    some (Op.grow n, ts)
  | _ => none

/-- For `accept-data`: like `opTok`, but an append carries the offset the
implementation chose for it (`a <off> <const>`). -/
def aopTok : List String → Option (AOp × List String)
  | "p" :: off :: c :: ts => do
    let off ← off.toInt?
    let c ← constOf c
    some (AOp.place off c, ts)
  | "a" :: off :: c :: ts => do
    let off ← off.toInt?
    let c ← constOf c
    some (AOp.append off c, ts)
  | "g" :: n :: ts => do
    let n ← n.toInt?
    some (AOp.grow n, ts)
  | _ => none

/-- `<off> <const>` -/
def datumTok : List String → Option (Datum × List String)
  | off :: c :: ts => do
    let off ← off.toInt?
    let c ← constOf c
    some (⟨off, c⟩, ts)
  | _ => none

def prOf (runes : List Nat) (r : Nat) : Bool := runes.contains r

def flagsStr (fs : List Bool) : String :=
  if fs.isEmpty then "-" else String.ofList (fs.map (fun b => if b then '1' else '0'))

def strBytes (s : String) : List Nat := s.toUTF8.toList.map (·.toNat)

/-- The printed block of a section. -/
def renderBlock (pr : Nat → Bool) (sym attr : List Nat) (g : Global) : List Nat :=
  let t := g.texts pr
  let lines := t.1.map (DataText.render sym) ++ [globlRender sym attr t.2]
  (lines.map (· ++ [10])).flatten

/-! #### Reading the implementation's printed lines -/

def splitAt (pat : List Nat) : List Nat → Option (List Nat × List Nat)
  | [] => if pat.isEmpty then some ([], []) else none
  | x :: xs =>
    if pat.isPrefixOf (x :: xs) then some ([], (x :: xs).drop pat.length)
    else (splitAt pat xs).map (fun p => (x :: p.1, p.2))

def bytesToChars (bs : List Nat) : List Char := bs.map Char.ofNat

/-- `DATA sym+off(SB)/len, $val` with `sym` given. -/
def parseDataLine (sym : List Nat) (line : List Nat) : Option DataText := do
  let pre := strBytes "DATA " ++ sym
  if !pre.isPrefixOf line then none else
  let rest := line.drop pre.length
  let (off, rest) ← splitAt (strBytes "(SB)/") rest
  let (len, val) ← splitAt (strBytes ", ") rest
  match val with
  | 36 :: 34 :: r => some ⟨bytesToChars off, bytesToChars len, .str (34 :: r)⟩
  | 36 :: 40 :: r =>
    match r.reverse with
    | 41 :: body => some ⟨bytesToChars off, bytesToChars len, .flt (bytesToChars body.reverse)⟩
    | _ => none
  | 36 :: r => some ⟨bytesToChars off, bytesToChars len, .num (bytesToChars r)⟩
  | _ => none

/-- `GLOBL sym(SB), attr, $size` → size text. -/
def parseGloblLine (sym : List Nat) (line : List Nat) : Option (List Char) := do
  let pre := strBytes "GLOBL " ++ sym ++ strBytes "(SB), "
  if !pre.isPrefixOf line then none else
  let rest := line.drop pre.length
  -- the size is after the last ", $"
  let rec last (r : List Nat) (fuel : Nat) : Option (List Nat) :=
    match fuel with
    | 0 => none
    | fuel + 1 =>
      match splitAt (strBytes ", $") r with
      | none => none
      | some (_, tl) =>
        match last tl fuel with
        | some x => some x
        | none => some tl
  (last rest rest.length).map bytesToChars

def splitLines (bs : List Nat) : List (List Nat) :=
  let rec go (cur : List Nat) : List Nat → List (List Nat)
    | [] => if cur.isEmpty then [] else [cur.reverse]
    | 10 :: r => cur.reverse :: go [] r
    | b :: r => go (b :: cur) r
  go [] bs

def parseBlock (sym : List Nat) (block : List Nat) : Option (List DataText × List Char) :=
  let lines := splitLines block
  match lines.reverse with
  | [] => none
  | gl :: revData => do
    let size ← parseGloblLine sym gl
    let ds ← revData.reverse.mapM (parseDataLine sym)
    some (ds, size)

def handle : Handler
  -- data <sym hex> <attr hex> <npr> runes… <nops> ops…
  | "data" :: sym :: attr :: rest => do
    let sym ← unhex sym
    let attr ← unhex attr
    let (runes, rest) ← listOf natTok rest
    let (ops, _) ← listOf opTok rest
    let r := run {} ops
    let g := r.1
    let dl := g.data.map (fun d => s!"{d.off}:{d.val.size}")
    -- the text of the block is compared exactly only where the order of the lines is not at issue
    let blk := if monotone g.data 0 then hex (renderBlock (prOf runes) sym attr g) else "-"
    some (joinSp ([flagsStr r.2, toString g.size, toString g.data.length] ++ dl ++ [blk]))
  -- accept-data <flags> <size> <ndata> (off const)… <nops> ops…
  | "accept-data" :: flags :: size :: rest => do
    let size ← size.toInt?
    let (data, rest) ← listOf datumTok rest
    let (ops, _) ← listOf aopTok rest
    let fl := if flags == "-" then [] else flags.toList.map (· == '1')
    some (dataVerdict ops fl data size)
  -- accept-nopanic …: sent only when the implementation panicked on the call sequence
  | "accept-nopanic" :: _ => some "bad-panic"
  -- accept-attrs <requested> <stored in the section> <value of the GLOBL line's attribute text per textflag.h, or -1>
  | ["accept-attrs", req, stored, eval] => do
    let req ← req.toInt?
    let stored ← stored.toInt?
    let eval ← eval.toInt?
    some (verdictOf ((if stored != req then ["bad-attributes-stored"] else []) ++
                     (if eval != req then ["bad-globl-attributes"] else [])))
  -- accept-lines <inorder|outoforder|negative> <sym hex> <size> <ndata> (off const)… <block hex>
  --   assembling the implementation's printed lines (Lean's model of the assembler) gives the image
  | "accept-lines" :: _ :: sym :: size :: rest => do
    let sym ← unhex sym
    let size ← size.toInt?
    let (data, rest) ← listOf datumTok rest
    match rest with
    | [block] =>
      let block ← unhex block
      let g : Global := ⟨data, size⟩
      match parseBlock sym block with
      | none => some "bad-unreadable-lines"
      | some texts => some (if acceptLines texts g then "ok" else linesVerdict texts g)
    | _ => none
  -- accept-asm <inorder|outoforder|negative> <ok|fail:class> <size> <ndata> (off const)… <bytes hex>   (measured)
  | "accept-asm" :: _ :: status :: size :: rest => do
    let size ← size.toInt?
    let (data, rest) ← listOf datumTok rest
    match rest with
    | [bytes] =>
      let bytes ← unhex bytes
      if status == "ok" then
        some (if acceptBytes bytes ⟨data, size⟩ then "ok" else "bad-assembled-bytes")
      else match status.splitOn ":" with
        | ["fail", cls] => some s!"bad-assembler-rejects {cls}"
        | _ => none
    | _ => none
  -- int <ty> <v> → text
  | ["int", ty, v] => do
    let ty ← tyOf ty
    let v ← v.toInt?
    some (hex ((Const.int ty v).asm (fun _ => false)).render)
  -- accept-int <ty> <v> <text hex>: the assembler's reading of the text stores the constant's bytes
  | ["accept-int", ty, v, text] => do
    let ty ← tyOf ty
    let v ← v.toInt?
    let text ← unhex text
    match text with
    | 36 :: r =>
      some (if asmValue (fun _ _ => none) ty.bytes (.num (bytesToChars r)) == some (Const.int ty v).enc then "ok"
            else "bad-int-text")
    | _ => some "bad-int-text"
  -- str <bytes hex> <npr> runes… → text
  | "str" :: bs :: rest => do
    let bs ← unhex bs
    let (runes, _) ← listOf natTok rest
    some (hex ((Const.str bs).asm (prOf runes)).render)
  -- accept-str <bytes hex> <text hex>
  | ["accept-str", bs, text] => do
    let bs ← unhex bs
    let text ← unhex text
    match text with
    | 36 :: lit =>
      some (if asmValue (fun _ _ => none) bs.length (.str lit) == some bs then "ok" else "bad-string-text")
    | _ => some "bad-string-text"
  -- fparse <len> <text hex> → bits the assembler stores (Lean's model of ParseFloat-64 then float32)
  | ["fparse", len, text] => do
    let len ← len.toNat?
    let text ← unhexStr text
    match Avo.Float.asmFloat text.toList len with
    | some b => some (String.ofList (digits 16 b))
    | none => some "unparsable"
  -- accept-f32 / accept-f64 <bits hex> <text hex> <strconv's bits hex>: the assembler's conversion of
  -- the printed text (Lean's model) gives back the constant's bit pattern
  | [cmd, bits, text, last] =>
    if cmd == "accept-f32" || cmd == "accept-f64" then do
      let b ← hexNat bits
      let text ← unhexStr text
      let len := if cmd == "accept-f32" then 4 else 8
      match Avo.Float.asmFloat text.toList len with
      | some a => some (if a == b then "ok" else s!"bad-float-text {String.ofList (digits 16 a)}")
      | none => some "bad-float-text unparsable"
    -- measured through the real assembler and linker: last field = bits found in the binary
    else if cmd == "accept-asm-f32" || cmd == "accept-asm-f64" then do
      let b ← hexNat bits
      let a ← hexNat last
      some (if a == b then "ok" else s!"bad-float-text {last}")
    else none
  | _ => none

def handlers : List (String × Handler) :=
  ["data", "accept-data", "accept-nopanic", "accept-attrs", "accept-lines", "accept-asm", "int", "accept-int", "str", "accept-str",
   "fparse", "accept-f32", "accept-f64", "accept-asm-f32", "accept-asm-f64"].map (·, handle)

end Avo.Drv.C13
