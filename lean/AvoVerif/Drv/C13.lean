import AvoVerif.Drv.Common
import AvoVerif.Model.Data
import AvoVerif.Model.Float
namespace Avo.Drv.C13
open Avo.Drv Avo.Data Avo.NumText

def tyOf (s : String) : Option IntTy :=
  match s with
  | "i8" => some I8 | "u8" => some U8 | "i16" => some I16 | "u16" => some U16
  | "i32" => some I32 | "u32" => some U32 | "i64" => some I64 | "u64" => some U64
  | _ => none

def hexNat (s : String) : Option Nat :=
  if s.isEmpty then none else readDigits 16 s.toList 0

/-- A constant token: `i8:<v>` … `u64:<v>`, `f32:<bits hex>:<text hex>:<asm bits hex>`,
`f64:…`, `s:<bytes hex>`.  For floats the last field is what the assembler's
conversion of the text gives (measured by the harness); it feeds the oracle. -/
def constOf (t : String) : Option Const :=
  match t.splitOn ":" with
  | [k, v] =>
    if k == "s" then (unhex v).map Const.str
    else do
      let ty ← tyOf k
      let v ← v.toInt?
      some (Const.int ty v)
  | [k, bits, text, _] => do
    let n ← if k == "f32" then some 4 else if k == "f64" then some 8 else none
    let bits ← hexNat bits
    let text ← unhexStr text
    some (Const.float n bits text.toList)
  | _ => none

/-- `p <off> <const>` | `a <const>` | `g <n>` -/
def opTok : List String → Option (Op × List String)
  | "p" :: off :: c :: ts => do
    let off ← off.toInt?
    let c ← constOf c
    some (Op.place off c, ts)
  | "a" :: c :: ts => do
    let c ← constOf c
    some (Op.append c, ts)
  | "g" :: n :: ts => do
    let n ← n.toInt?
    some (Op.grow n, ts)
  | _ => none

/-- For `accept-data`: like `opTok`, but an append carries the offset the
implementation chose for it (`a <off> <const>`), as a placement. -/
inductive AOp where
  | place (off : Int) (v : Const)
  | append (off : Int) (v : Const)
  | grow (n : Int)

def aopTok : List String → Option (AOp × List String)
  | "p" :: off :: c :: ts => do
    let off ← off.toInt?
    let c ← constOf c
    some (AOp.place off c, ts)
  | "a" :: off :: c :: ts => do
    let off ← off.toInt?
    let c ← constOf c
    some (AOp.append off c, ts)
  | "g" :: n :: ts => do
    let n ← n.toInt?
    some (AOp.grow n, ts)
  | _ => none

/-- `<off> <const>` -/
def datumTok : List String → Option (Datum × List String)
  | off :: c :: ts => do
    let off ← off.toInt?
    let c ← constOf c
    some (⟨off, c⟩, ts)
  | _ => none

def prOf (runes : List Nat) (r : Nat) : Bool := runes.contains r

def flagsStr (fs : List Bool) : String :=
  if fs.isEmpty then "-" else String.ofList (fs.map (fun b => if b then '1' else '0'))

def strBytes (s : String) : List Nat := s.toUTF8.toList.map (·.toNat)

/-- The printed block of a section. -/
def renderBlock (pr : Nat → Bool) (sym attr : List Nat) (g : Global) : List Nat :=
  let t := g.texts pr
  let lines := t.1.map (DataText.render sym) ++ [globlRender sym attr t.2]
  (lines.map (· ++ [10])).flatten

/-! #### Reading the implementation's printed lines -/

def splitAt (pat : List Nat) : List Nat → Option (List Nat × List Nat)
  | [] => if pat.isEmpty then some ([], []) else none
  | x :: xs =>
    if pat.isPrefixOf (x :: xs) then some ([], (x :: xs).drop pat.length)
    else (splitAt pat xs).map (fun p => (x :: p.1, p.2))

def bytesToChars (bs : List Nat) : List Char := bs.map Char.ofNat

/-- `DATA sym+off(SB)/len, $val` with `sym` given. -/
def parseDataLine (sym : List Nat) (line : List Nat) : Option DataText := do
  let pre := strBytes "DATA " ++ sym
  if !pre.isPrefixOf line then none else
  let rest := line.drop pre.length
  let (off, rest) ← splitAt (strBytes "(SB)/") rest
  let (len, val) ← splitAt (strBytes ", ") rest
  match val with
  | 36 :: 34 :: r => some ⟨bytesToChars off, bytesToChars len, .str (34 :: r)⟩
  | 36 :: 40 :: r =>
    match r.reverse with
    | 41 :: body => some ⟨bytesToChars off, bytesToChars len, .flt (bytesToChars body.reverse)⟩
    | _ => none
  | 36 :: r => some ⟨bytesToChars off, bytesToChars len, .num (bytesToChars r)⟩
  | _ => none

/-- `GLOBL sym(SB), attr, $size` → size text. -/
def parseGloblLine (sym : List Nat) (line : List Nat) : Option (List Char) := do
  let pre := strBytes "GLOBL " ++ sym ++ strBytes "(SB), "
  if !pre.isPrefixOf line then none else
  let rest := line.drop pre.length
  -- the size is after the last ", $"
  let rec last (r : List Nat) (fuel : Nat) : Option (List Nat) :=
    match fuel with
    | 0 => none
    | fuel + 1 =>
      match splitAt (strBytes ", $") r with
      | none => none
      | some (_, tl) =>
        match last tl fuel with
        | some x => some x
        | none => some tl
  (last rest rest.length).map bytesToChars

def splitLines (bs : List Nat) : List (List Nat) :=
  let rec go (cur : List Nat) : List Nat → List (List Nat)
    | [] => if cur.isEmpty then [] else [cur.reverse]
    | 10 :: r => cur.reverse :: go [] r
    | b :: r => go (b :: cur) r
  go [] bs

def parseBlock (sym : List Nat) (block : List Nat) : Option (List DataText × List Char) :=
  let lines := splitLines block
  match lines.reverse with
  | [] => none
  | gl :: revData => do
    let size ← parseGloblLine sym gl
    let ds ← revData.reverse.mapM (parseDataLine sym)
    some (ds, size)

/-! #### Acceptors -/

def memB (d : Datum) (p : Int) : Bool := decide (d.lo ≤ p) && decide (p < d.hi)

/-- The two data share a byte. -/
def shareB (d o : Datum) : Bool :=
  decide (0 < d.val.size) && decide (0 < o.val.size) && decide (d.lo < o.hi) && decide (o.lo < d.hi)

/-- Judge the implementation's accept/reject decisions and final state:
the property itself, replayed over the call sequence with the
implementation's own flags (and, for appends, the offsets it chose). -/
def acceptData (ops : List AOp) (flags : List Bool) (data : List Datum) (size : Int) : String :=
  let rec go (ops : List AOp) (flags : List Bool) (acc : List Datum) (grows : List Int) : String × List Datum × List Int :=
    match ops, flags with
    | [], [] => ("ok", acc, grows)
    | .place off v :: ops, f :: fs =>
      let d : Datum := ⟨off, v⟩
      if f then
        if acc.any (shareB d) then ("bad-overlap-accepted", acc, grows) else go ops fs (acc ++ [d]) grows
      else
        if acc.any (overlaps d) then go ops fs acc grows else ("bad-spurious-reject", acc, grows)
    | .append off v :: ops, f :: fs =>
      let d : Datum := ⟨off, v⟩
      if !f then ("bad-append-rejected", acc, grows)
      else if acc.any (shareB d) then ("bad-append-overlaps", acc, grows)
      else go ops fs (acc ++ [d]) grows
    | .grow n :: ops, _ :: fs => go ops fs acc (grows ++ [n])
    | _, _ => ("bad-flag-count", acc, grows)
  let (verdict, placed, grows) := go ops flags [] []
  if verdict != "ok" then verdict else
  -- the section holds exactly the accepted constants at their offsets (in any order)
  if placed.length != data.length then "bad-data-count" else
  let rec removeFirst (p : Datum → Bool) : List Datum → Option (List Datum)
    | [] => none
    | d :: ds => if p d then some ds else (removeFirst p ds).map (d :: ·)
  let rec matchAll (want : List Datum) (have_ : List Datum) : Bool :=
    match want with
    | [] => have_.isEmpty
    | w :: ws =>
      match removeFirst (fun d => d == w) have_ with
      | none => false
      | some rest => matchAll ws rest
  if !matchAll placed data then "bad-data-list" else
  -- pairwise byte-disjoint, inside the section
  let rec pairwise : List Datum → Bool
    | [] => true
    | d :: ds => !ds.any (shareB d) && pairwise ds
  if !pairwise data then "bad-overlap-in-section" else
  if data.any (fun d => decide (d.lo < 0) || decide (size < d.hi)) then "bad-outside-section" else
  if grows.any (fun n => decide (size < n)) then "bad-grow-ignored" else
  if !(size == 0 || data.any (fun d => d.hi == size) || grows.contains size) then "bad-size-not-furthest-extent" else
  "ok"

def inScopeA (ops : List AOp) : Bool :=
  ops.all (fun op => match op with | .place off _ => decide (0 ≤ off) | .append off _ => decide (0 ≤ off) | _ => true)

def handle : Handler
  -- data <sym hex> <attr hex> <npr> runes… <nops> ops…
  | "data" :: sym :: attr :: rest => do
    let sym ← unhex sym
    let attr ← unhex attr
    let (runes, rest) ← listOf natTok rest
    let (ops, _) ← listOf opTok rest
    let r := run {} ops
    let g := r.1
    let dl := g.data.map (fun d => s!"{d.off}:{d.val.size}")
    some (joinSp ([flagsStr r.2, toString g.size, toString g.data.length] ++ dl ++
      [hex (renderBlock (prOf runes) sym attr g)]))
  -- accept-data <flags> <size> <ndata> (off const)… <nops> ops…
  | "accept-data" :: flags :: size :: rest => do
    let size ← size.toInt?
    let (data, rest) ← listOf datumTok rest
    let (ops, _) ← listOf aopTok rest
    let fl := if flags == "-" then [] else flags.toList.map (· == '1')
    if !inScopeA ops then some "ok"   -- negative offsets: outside the property's quantifier
    else some (acceptData ops fl data size)
  -- accept-lines <sym hex> <size> <ndata> (off const)… <block hex>
  --   assembling the implementation's printed lines (Lean's model of the assembler) gives the image
  | "accept-lines" :: sym :: size :: rest => do
    let sym ← unhex sym
    let size ← size.toInt?
    let (data, rest) ← listOf datumTok rest
    match rest with
    | [block] =>
      let block ← unhex block
      let g : Global := ⟨data, size⟩
      if g.data.any (fun d => decide (d.off < 0)) then some "ok" else
      match parseBlock sym block with
      | none => some "bad-unreadable-lines"
      | some texts =>
        match assemble Avo.Float.asmFloat texts with
        | none => some (if monotone g.data 0 then "bad-lines-do-not-assemble" else "bad-lines-not-in-increasing-order")
        | some img => some (if img == image g then "ok" else "bad-lines-image")
    | _ => none
  -- accept-asm <mono|nonmono> <ok|fail> <size> <ndata> (off const)… <bytes hex>   (measured)
  | "accept-asm" :: _ :: status :: size :: rest => do
    let size ← size.toInt?
    let (data, rest) ← listOf datumTok rest
    match rest with
    | [bytes] =>
      let bytes ← unhex bytes
      if status != "ok" then some "bad-assembler-rejects" else
      let g : Global := ⟨data, size⟩
      some (if bytes == image g then "ok" else "bad-assembled-bytes")
    | _ => none
  -- int <ty> <v> → text
  | ["int", ty, v] => do
    let ty ← tyOf ty
    let v ← v.toInt?
    some (hex ((Const.int ty v).asm (fun _ => false)).render)
  -- accept-int <ty> <v> <text hex>: the assembler's reading of the text stores the constant's bytes
  | ["accept-int", ty, v, text] => do
    let ty ← tyOf ty
    let v ← v.toInt?
    let text ← unhex text
    match text with
    | 36 :: r =>
      some (if asmValue (fun _ _ => none) ty.bytes (.num (bytesToChars r)) == some (Const.int ty v).enc then "ok"
            else "bad-int-text")
    | _ => some "bad-int-text"
  -- str <bytes hex> <npr> runes… → text
  | "str" :: bs :: rest => do
    let bs ← unhex bs
    let (runes, _) ← listOf natTok rest
    some (hex ((Const.str bs).asm (prOf runes)).render)
  -- accept-str <bytes hex> <text hex>
  | ["accept-str", bs, text] => do
    let bs ← unhex bs
    let text ← unhex text
    match text with
    | 36 :: lit =>
      some (if asmValue (fun _ _ => none) bs.length (.str lit) == some bs then "ok" else "bad-string-text")
    | _ => some "bad-string-text"
  -- fparse <len> <text hex> → bits the assembler stores (Lean's model of ParseFloat-64 then float32)
  | ["fparse", len, text] => do
    let len ← len.toNat?
    let text ← unhexStr text
    match Avo.Float.asmFloat text.toList len with
    | some b => some (String.ofList (digits 16 b))
    | none => some "unparsable"
  -- accept-f32 / accept-f64 <bits hex> <text hex> <strconv's bits hex>: the assembler's conversion of
  -- the printed text (Lean's model) gives back the constant's bit pattern
  | [cmd, bits, text, last] =>
    if cmd == "accept-f32" || cmd == "accept-f64" then do
      let b ← hexNat bits
      let text ← unhexStr text
      let len := if cmd == "accept-f32" then 4 else 8
      match Avo.Float.asmFloat text.toList len with
      | some a => some (if a == b then "ok" else s!"bad-float-text {String.ofList (digits 16 a)}")
      | none => some "bad-float-text unparsable"
    -- measured through the real assembler and linker: last field = bits found in the binary
    else if cmd == "accept-asm-f32" || cmd == "accept-asm-f64" then do
      let b ← hexNat bits
      let a ← hexNat last
      some (if a == b then "ok" else s!"bad-float-text {last}")
    else none
  | _ => none

def handlers : List (String × Handler) :=
  ["data", "accept-data", "accept-lines", "accept-asm", "int", "accept-int", "str", "accept-str",
   "fparse", "accept-f32", "accept-f64", "accept-asm-f32", "accept-asm-f64"].map (·, handle)

end Avo.Drv.C13
