import AvoVerif.Drv.Common
import AvoVerif.Drv.C06
import AvoVerif.Model.Mov
import AvoVerif.Gen.Mov
/-
Protocol handlers of C08.
-/
namespace Avo.Drv.C08
open Avo Avo.Drv Avo.Instr Avo.Mov

def F : Flags := ⟨Avo.Gen.tIsBoolean, Avo.Gen.tIsInteger, Avo.Gen.tIsUnsigned, Avo.Gen.tIsFloat⟩
def tab : List TabGroup := Avo.Gen.movTab

def dirOf : String → Option Dir
  | "load" => some .load
  | "store" => some .store
  | _ => none

def regOf : Operand → Option RegV
  | .reg r => some r
  | _ => none

def extName : Ext → String
  | .none => "none"
  | .zero => "zero"
  | .sign => "sign"

/-- opcode name (string) → encoded constant of the semantics table -/
def opcOfName (s : String) : Option Nat :=
  (semTable.find? (fun e => Name.key e.1 == Name.keyOfStr s)).map (·.1)

def bytesOfHex (s : String) : Option (List Nat) := unhex s

/-- where the value sits in the 64-byte register image: high-byte registers
(mask 2) hold it in byte 1 -/
def regOffset (r : RegV) : Nat := if r.kind == kindGP && r.mask == 2 then 1 else 0

/-- the verdict of `acceptSel` with the reason spelled out -/
def judgeSel (d : Dir) (t : TypeInfo) (r : RegV) (outcome : List String) : String :=
  match outcome with
  | ["error"] => if acceptSel F d t r none then "ok" else "bad-error-where-a-move-exists"
  | ["op", name] =>
    match opcOfName name with
    | none => "bad-unmodelled-opcode " ++ name
    | some opc =>
      if acceptSel F d t r (some opc) then "ok" else
      match movSem opc r with
      | none => "bad-unmodelled-opcode " ++ name
      | some s =>
        if s.memWidth != t.size then s!"bad-width access={s.memWidth} component={t.size}"
        else s!"bad-extension {extName s.ext} to {s.regBytes}"
  | _ => "bad-outcome " ++ joinSp outcome

def kv (pref : String) (tok : String) : Option String :=
  if tok.startsWith pref then some ((tok.drop pref.length).toString) else none

/-- `lo:hi:cnt` -/
def depOf (s : String) : Option (Nat × Nat × Nat) :=
  match s.splitOn ":" with
  | [a, b, c] => do
    -- lo is -1 when the register depends on no memory byte
    let lo := (a.toNat?).getD 1000000
    let hi ← b.toNat?; let cnt ← c.toNat?
    some (lo, hi, cnt)
  | _ => none

/-- go vet's asmdecl guesses the access width of an instruction it does not know from the opcode's last letter
("D" = 8 bytes); for the 4-byte moves `KMOVD`, `VMOVD`, `MOVD` that guess is wrong (the CPU measurement of these
opcodes on every run says 4).  Every other width diagnostic of vet on the instruction under test stands. -/
def vetMisjudges (name : String) (t : TypeInfo) (r : RegV) : Bool :=
  (name == "KMOVD" || name == "VMOVD" || name == "MOVD") && t.size == 4 &&
    (match opcOfName name with
     | some opc => (match movSem opc r with | some s => s.memWidth == 4 | none => false)
     | none => false)

def handle : Handler
  | ["mov", d, ti, ts, m, r] => do
    let d ← dirOf d; let ti ← ti.toNat?; let ts ← ts.toNat?
    let m ← C06.parseOp m; let r ← C06.parseOp r; let rv ← regOf r
    -- what the implementation did for the class of this input when the table was made (start of this run)
    match behave tab d ⟨0, ti, ts⟩ rv m with
    | none => some "untabulated"
    | some none => some "error"
    | some (some opc) => some ("op " ++ Name.toStr opc)
  | "accept-movsel" :: d :: _tname :: _rc :: ti :: ts :: r :: "=>" :: outcome => do
    let d ← dirOf d; let ti ← ti.toNat?; let ts ← ts.toNat?
    let r ← C06.parseOp r; let rv ← regOf r
    some (judgeSel d ⟨0, ti, ts⟩ rv outcome)
  | ["accept-cpu-run", _] => some "bad-measurement-program-could-not-be-generated-built-or-run"
  | ["accept-nonprim", _, _, outcome] => some (if outcome == "error" then "ok" else "bad-nonprimitive-component-moved")
  | ["accept-vet", d, _tname, _rc, ti, ts, r, name, _msg] => do
    let _ ← dirOf d; let ti ← ti.toNat?; let ts ← ts.toNat?
    let r ← C06.parseOp r; let rv ← regOf r
    some (if vetMisjudges name ⟨0, ti, ts⟩ rv then "ok" else s!"bad-width vet-asmdecl-diagnostic component={ts}")
  -- model of the instruction on the CPU: register image after a load
  | ["cpu-load", name, r, mem] => do
    let r ← C06.parseOp r; let rv ← regOf r
    let mem ← bytesOfHex mem
    let opc ← opcOfName name
    let s ← movSem opc rv
    let v := leNat (mem.take s.memWidth)
    if rv.kind == kindGP then
      some (hex (leBytes (extend s.ext v s.memWidth s.regBytes) s.regBytes))
    else
      -- vector / mask destinations: the bytes read, zero-extended (16 bytes reported, 8 for masks)
      let k := if rv.kind == kindOpmask then 8 else max 16 s.memWidth
      some (hex (leBytes v k))
  -- model of the instruction on the CPU: memory image after a store
  | ["cpu-store", name, r, reg, mem] => do
    let r ← C06.parseOp r; let rv ← regOf r
    let reg ← bytesOfHex reg; let mem ← bytesOfHex mem
    let opc ← opcOfName name
    let s ← movSem opc rv
    some (hex (reg.take s.memWidth ++ mem.drop s.memWidth))
  -- the property on what the CPU did
  | "accept-cpu" :: d :: _tname :: _rc :: ti :: ts :: r :: _opc :: off :: rest => do
    let d ← dirOf d; let ti ← ti.toNat?; let ts ← ts.toNat?
    let r ← C06.parseOp r; let rv ← regOf r
    let off ← (← kv "off=" off).toNat?
    let t : TypeInfo := ⟨0, ti, ts⟩
    match d, rest with
    | .load, [v, reg, gox, dep] =>
      -- v: component bytes; reg: register image (64 bytes); gox: what Go's own conversion gives (register width);
      -- dep: first / one past last / number of memory bytes the register depends on
      let v ← bytesOfHex ((← kv "v=" v)); let reg ← bytesOfHex ((← kv "reg=" reg)); let gox ← bytesOfHex ((← kv "go=" gox))
      let (lo, hi, cnt) ← depOf (← kv "dep=" dep)
      if !(lo == off && hi == off + ts && cnt == ts) then
        (if lo == off && cnt == hi - lo then some s!"bad-width access={hi - lo} component={ts}"
         else some s!"bad-width access-bytes={lo}..{hi}/{cnt} component-bytes={off}..{off + ts}") else
      if rv.kind == kindGP then
        if !acceptLoadGP F t rv.size (regOffset rv) off v reg lo hi cnt then some "bad-value-not-go-conversion"
        else if gox != leBytes (goConvert F t (leNat v) rv.size) rv.size then some "bad-go-oracle-disagrees" else some "ok"
      else
        if !acceptLoadLow ts off v reg lo hi cnt then some "bad-low-bytes" else some "ok"
    | .store, [src, before, after] =>
      let src ← bytesOfHex ((← kv "src=" src)); let before ← bytesOfHex ((← kv "before=" before))
      let after ← bytesOfHex ((← kv "after=" after))
      let src := src.drop (regOffset rv)
      if acceptStoreBytes ts off src before after then some "ok"
      else if (after.drop off).take ts != src.take ts then some "bad-stored-bytes"
      else some s!"bad-width adjacent-bytes-overwritten component={ts}"
    | _, _ => none
  | _ => none

def handlers : List (String × Handler) :=
  ["mov", "accept-movsel", "accept-nonprim", "accept-cpu-run", "accept-vet", "cpu-load", "cpu-store", "accept-cpu"].map (·, handle)

end Avo.Drv.C08
