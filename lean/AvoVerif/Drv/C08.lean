import AvoVerif.Drv.Common
namespace Avo.Drv.C08
open Avo.Drv
def handlers : List (String × Handler) := []
end Avo.Drv.C08
