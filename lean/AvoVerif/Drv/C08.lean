import AvoVerif.Drv.Common
import AvoVerif.Drv.C06
import AvoVerif.Model.Mov
import AvoVerif.Gen.Mov
/-
Protocol handlers of C08.
-/
namespace Avo.Drv.C08
open Avo Avo.Drv Avo.Instr Avo.Mov

def F : Flags := ⟨Avo.Gen.tIsBoolean, Avo.Gen.tIsInteger, Avo.Gen.tIsUnsigned, Avo.Gen.tIsFloat⟩
def rows : List RRow := Avo.Gen.mov.map resolve

def dirOf : String → Option Dir
  | "load" => some .load
  | "store" => some .store
  | _ => none

def regOf : Operand → Option RegV
  | .reg r => some r
  | _ => none

def extName : Ext → String
  | .none => "none"
  | .zero => "zero"
  | .sign => "sign"

/-- opcode name (string) → encoded constant of the semantics table -/
def opcOfName (s : String) : Option Nat :=
  (semTable.find? (fun e => Name.key e.1 == Name.keyOfStr s)).map (·.1)

def bytesOfHex (s : String) : Option (List Nat) := unhex s

def leNat (bs : List Nat) : Nat := bs.foldr (fun b acc => acc * 256 + b) 0

def leBytes (n k : Nat) : List Nat := (List.range k).map (fun i => (n >>> (8 * i)) % 256)

/-- sign- or zero-extension of the `w`-byte little-endian value `v` to `k` bytes -/
def extend (e : Ext) (v w k : Nat) : Nat :=
  match e with
  | .sign => if w > 0 && (v >>> (8 * w - 1)) % 2 == 1 then v + ((2 ^ (8 * k) - 1) - (2 ^ (8 * w) - 1)) else v
  | _ => v

/-- Go's conversion of a component of type flags `t` (value `v`, `t.size` bytes)
to the width `k` of a general-purpose register -/
def goConvert (t : TypeInfo) (v k : Nat) : Nat :=
  if isSigned F t then extend .sign v t.size k else v

/-- where the value sits in the 64-byte register image: high-byte registers
(mask 2) hold it in byte 1 -/
def regOffset (r : RegV) : Nat := if r.kind == kindGP && r.mask == 2 then 1 else 0

def judgeSel (d : Dir) (t : TypeInfo) (r : RegV) (outcome : List String) : String :=
  match outcome with
  | ["error"] => if mustMove F d t r then "bad-error-where-a-move-exists" else "ok"
  | ["op", name] =>
    match opcOfName name with
    | none => "bad-unmodelled-opcode " ++ name
    | some opc =>
      match movSem opc r with
      | none => "bad-unmodelled-opcode " ++ name
      | some s =>
        if s.memWidth != t.size then s!"bad-width access={s.memWidth} component={t.size}"
        else if semOK F d t r s then "ok" else s!"bad-extension {extName s.ext} to {s.regBytes}"
  | _ => "bad-outcome " ++ joinSp outcome

def splitAtArrow : List String → List String → Option (List String × List String)
  | _, [] => none
  | acc, "=>" :: rest => some (acc.reverse, rest)
  | acc, t :: rest => splitAtArrow (t :: acc) rest

def kv (pref : String) (tok : String) : Option String :=
  if tok.startsWith pref then some ((tok.drop pref.length).toString) else none

def handle : Handler
  | ["mov", d, ti, ts, m, r] => do
    let d ← dirOf d; let ti ← ti.toNat?; let ts ← ts.toNat?
    let m ← C06.parseOp m; let r ← C06.parseOp r; let rv ← regOf r
    match loadStore rows d m rv ⟨0, ti, ts⟩ with
    | none => some "error"
    | some opc => some ("op " ++ Name.toStr opc)
  | "accept-movsel" :: d :: _tname :: _rc :: ti :: ts :: r :: "=>" :: outcome => do
    let d ← dirOf d; let ti ← ti.toNat?; let ts ← ts.toNat?
    let r ← C06.parseOp r; let rv ← regOf r
    some (judgeSel d ⟨0, ti, ts⟩ rv outcome)
  | ["accept-cpu-run", _] => some "bad-measurement-program-could-not-be-generated-built-or-run"
  | ["accept-nonprim", _, _, outcome] => some (if outcome == "error" then "ok" else "bad-nonprimitive-component-moved")
  -- model of the instruction on the CPU: register image after a load
  | ["cpu-load", name, r, mem] => do
    let r ← C06.parseOp r; let rv ← regOf r
    let mem ← bytesOfHex mem
    let opc ← opcOfName name
    let s ← movSem opc rv
    let v := leNat (mem.take s.memWidth)
    if rv.kind == kindGP then
      some (hex (leBytes (extend s.ext v s.memWidth s.regBytes) s.regBytes))
    else
      -- vector / mask destinations: the bytes read, zero-extended (16 bytes reported, 8 for masks)
      let k := if rv.kind == kindOpmask then 8 else max 16 s.memWidth
      some (hex (leBytes v k))
  -- model of the instruction on the CPU: memory image after a store
  | ["cpu-store", name, r, reg, mem] => do
    let r ← C06.parseOp r; let rv ← regOf r
    let reg ← bytesOfHex reg; let mem ← bytesOfHex mem
    let opc ← opcOfName name
    let s ← movSem opc rv
    some (hex (reg.take s.memWidth ++ mem.drop s.memWidth))
  -- the property on what the CPU did
  | "accept-cpu" :: d :: _tname :: _rc :: ti :: ts :: r :: rest => do
    let d ← dirOf d; let ti ← ti.toNat?; let ts ← ts.toNat?
    let r ← C06.parseOp r; let rv ← regOf r
    let t : TypeInfo := ⟨0, ti, ts⟩
    match d, rest with
    | .load, [_opc, v, reg, gox, dep] =>
      -- v: component bytes; reg: register image (64 bytes); gox: what Go's own conversion gives (register width);
      -- dep: number of leading memory bytes the register depends on
      let v ← bytesOfHex ((← kv "v=" v)); let reg ← bytesOfHex ((← kv "reg=" reg)); let gox ← bytesOfHex ((← kv "go=" gox))
      let dep ← (← kv "dep=" dep).toNat?
      let off := regOffset rv
      if dep != ts then some s!"bad-width access={dep} component={ts}" else
      if rv.kind == kindGP then
        let want := leBytes (goConvert t (leNat v) rv.size) rv.size
        if (reg.drop off).take rv.size != want then some "bad-value-not-go-conversion"
        else if gox != want then some "bad-go-oracle-disagrees" else some "ok"
      else
        if reg.take ts != v then some "bad-low-bytes" else some "ok"
    | .store, [_opc, src, before, after] =>
      let src ← bytesOfHex ((← kv "src=" src)); let before ← bytesOfHex ((← kv "before=" before))
      let after ← bytesOfHex ((← kv "after=" after))
      let off := regOffset rv
      if after.take ts != (src.drop off).take ts then some "bad-stored-bytes"
      else if after.drop ts != before.drop ts then some s!"bad-width adjacent-bytes-overwritten component={ts}"
      else some "ok"
    | _, _ => none
  | _ => none

def handlers : List (String × Handler) :=
  ["mov", "accept-movsel", "accept-nonprim", "accept-cpu-run", "cpu-load", "cpu-store", "accept-cpu"].map (·, handle)

end Avo.Drv.C08
