import AvoVerif.Drv.Common
import AvoVerif.Model.RegHW
import AvoVerif.Gen.Regs
import AvoVerif.Oracle.RegHW
/-
C20 driver: exact model answers for the register API (table rows,
conversions, lookups, ids, specs, collections, classification) and acceptors
that evaluate the declarative clauses of the property (`RegOK`, `IdentOK`,
`AsOK`, `VAsOK`, `FreshOK`, `ClassOK` of Model/RegHW.lean — the statements proved
in Props/C20.lean) on the implementation's outputs.
-/
namespace Avo.Drv.C20
open Avo.Drv Avo.Reg

def regs : List RegRow := Avo.Gen.regs
def oracle : List (List HWRow) := Avo.Oracle.regHW

def tok (s : String) : String :=
  if s.isEmpty || s.toList.any (fun c => c == ' ' || c == '\t' || c == '\n' || c == ':') then "hex" ++ hexStr s else s

def untok (s : String) : String :=
  if s.startsWith "hex" then (unhexStr (s.drop 3).toString).getD s else s

def bitsStr (bs : List Bool) : String := String.ofList (bs.map fun b => if b then '1' else '0')
def parseBits (s : String) : List Bool := s.toList.map (· == '1')

def rowBits (r : RegRow) : List Bool := classBits true r.kind r.idx r.mask r.size
def virtBits (v : Virt) : List Bool := classBits false v.kind v.idx v.mask v.size

def showPhys (r : RegRow) : String := s!"{r.id}:{r.mask}:{r.size}:{tok r.name}"
def showVirt (v : Virt) : String := s!"{v.id}:{v.mask}:{v.size}:{v.kind}:{bitsStr (virtBits v)}"
def showLookup : Option RegRow → String
  | none => "nil"
  | some p => s!"{tok p.name}:{p.kind}:{p.idx}:{p.mask}:{p.size}:{p.id}"

/-- Apply a chain of conversion methods to a physical register: one response
token per step, stopping at the first failure (`panic`: the typed wrapper's
type assertion on nil). -/
def physChain (r : RegRow) : List String → List String
  | [] => []
  | m :: ms =>
    match methodSpec m with
    | none => ["nomethod"]
    | some s =>
      match physAs regs r s with
      | none => ["panic"]
      | some p => (showPhys p ++ ":" ++ bitsStr ((rowBits p).take 10)) :: physChain p ms

def virtChain (v : Virt) : List String → List String
  | [] => []
  | m :: ms =>
    match methodSpec m with
    | none => ["nomethod"]
    | some s => let w := v.as s; showVirt w :: virtChain w ms

/-- Allocated registers up to the numbering policy: per kind, the rank of each
id in order of first appearance, as `kind:rank:mask`. -/
def ranks (vs : List Virt) : List String :=
  let rec go (vs : List Virt) (seen : List (Nat × Nat)) (next : List (Nat × Nat)) : List String :=
    match vs with
    | [] => []
    | v :: rest =>
      match seen.lookup v.id with
      | some rk => s!"{v.kind}:{rk}:{v.mask}" :: go rest seen next
      | none =>
        let rk := (next.lookup v.kind).getD 0
        s!"{v.kind}:{rk}:{v.mask}" :: go rest ((v.id, rk) :: seen) ((v.kind, rk + 1) :: next)
  go vs [] []

def ctorReqs (ctors : List String) : Option (List (Nat × Nat)) := ctors.mapM ctorKindSpec

/-- outcome token(s) `panic` | `id mask size` -/
def parseRes : List String → Option (Option (Nat × Nat × Nat))
  | ["panic"] => some none
  | [a, b, c] => do some (some ((← a.toNat?), (← b.toNat?), (← c.toNat?)))
  | _ => none

def verdict (b : Bool) (why : String) : String := if b then "ok" else why

/-- Which clause of `RegOK` fails first (diagnostic only; `ok` iff `RegOK`). -/
def explainReg (g : List HWRow) (r : RegRow) : String :=
  if decide (RegOK g r) then "ok"
  else if !decide (physical r) then "bad-pseudo"
  else if g.isEmpty then "bad-no-measurement"
  else if !decide (∀ h ∈ g, Matches r h) then "bad-measurement-of-other-name"
  else if !decide (∀ h ∈ g, h.ok = true) then "bad-does-not-assemble"
  else if !decide (∀ h ∈ g, h.cls = r.kind) then "bad-register-class"
  else if !decide (∀ h ∈ g, h.num = r.idx) then "bad-hardware-register-number"
  else if !decide (∀ h ∈ g, h.width = r.size) then "bad-operand-width"
  else if !decide (∀ h ∈ g, maskBytes r.mask = viewBytes h.width h.hi) then "bad-mask-bytes"
  else if !decide (∀ h ∈ g, ExecAgrees r h.exec) then "bad-executed-write"
  else if !decide (r.size = byteCount (maskBytes r.mask) ∧ specSize r.mask = r.size ∧ r.mask < 128) then "bad-size"
  else "bad-id"

def handle : Handler
  | ["row", i] => do
    let r ← regs[(← i.toNat?)]?
    some s!"{tok r.name}:{r.kind}:{r.idx}:{r.mask}:{r.size}:{r.info}:{r.id}:{bitsStr (rowBits r)}"
  | "pas" :: i :: _n :: ms => do
    let r ← regs[(← i.toNat?)]?
    some (joinSp (showPhys r :: physChain r ms))
  | "vas" :: kind :: idx :: spec :: _n :: ms => do
    -- the start register as the implementation reports it (the numbering policy of Collection is not pinned)
    let v : Virt := ⟨← idx.toNat?, ← kind.toNat?, ← spec.toNat?⟩
    some (joinSp (showVirt v :: virtChain v ms))
  | "coll" :: _n :: ctors => do
    let reqs ← ctorReqs ctors
    some (joinSp (ranks (Coll.run [] reqs)))
  | "collrun" :: nc :: rest => do
    let nc ← nc.toNat?
    let reqs ← ctorReqs (rest.take nc)
    if reqs.isEmpty then none else
    match rest.drop nc with
    | [count] => do
      let count ← count.toNat?
      let hist := (List.range count).map fun i => reqs[i % reqs.length]!
      let ids := ((Coll.run [] hist).map Virt.id).toArray.qsort (· < ·)
      let distinct := (List.range ids.size).countP fun i => i == 0 || ids[i]! != ids[i - 1]!
      some s!"distinct={distinct}"
    | _ => none
  | ["lookupid", id, s] => do some (showLookup (lookupID regs (← id.toNat?) (← s.toNat?)))
  | ["lookupphys", k, i, s] => do
    -- reg.LookupPhysical: FamilyOfKind(k) is nil for an unknown kind
    let k ← k.toNat?
    if !Avo.Gen.familyKinds.contains k then some "nil" else
    some (showLookup (lookup regs k (← i.toNat?) (← s.toNat?)))
  | ["id", id] => do
    let id ← id.toNat?
    some s!"{idKind id} {idIndex id} {if idIsVirtual id then 1 else 0}"
  | ["spec", s] => do
    let s ← s.toNat?
    some s!"{specSize s} {s}"
  -- acceptors -------------------------------------------------------------
  | ["accept-reg", i, name, kind, idx, mask, size, id] => do
    let g := (oracle[(← i.toNat?)]?).getD []
    let r : RegRow := ⟨untok name, ← kind.toNat?, ← idx.toNat?, ← mask.toNat?, ← size.toNat?, 0, ← id.toNat?⟩
    some (explainReg g r)
  | ["accept-ident", i, j, idi, idj] => do
    let g := (oracle[(← i.toNat?)]?).getD []
    let g' := (oracle[(← j.toNat?)]?).getD []
    let r : RegRow := ⟨"", 0, 0, 0, 0, 0, ← idi.toNat?⟩
    let r' : RegRow := ⟨"", 0, 0, 0, 0, 0, ← idj.toNat?⟩
    if g.isEmpty || g'.isEmpty then some "bad-no-measurement" else
    some (verdict (decide (IdentOK g g' r r')) "bad-identity")
  | "accept-as" :: kind :: idx :: id :: m :: res => do
    let s ← methodSpec m
    let res ← parseRes res
    some (verdict (decide (AsOK (← kind.toNat?) (← idx.toNat?) (← id.toNat?) s res)) "bad-conversion")
  | "accept-lookup" :: kind :: idx :: id :: s :: res => do
    let res ← parseRes res
    some (verdict (decide (AsOK (← kind.toNat?) (← idx.toNat?) (← id.toNat?) (← s.toNat?) res)) "bad-lookup")
  | ["accept-lookup-virtual", id, _s, res] => do
    -- `lookupID_virtual`: an id with the virtual flag never resolves to a physical register
    let id ← id.toNat?
    some (verdict (!idIsVirtual id || res == "nil") "bad-virtual-id-resolves-to-physical")
  | "accept-vas" :: id :: m :: res => do
    let s ← methodSpec m
    let res ← parseRes res
    some (verdict (decide (VAsOK (← id.toNat?) s res)) "bad-virtual-conversion")
  | ["accept-ctor", ctor, kind, mask, size, id] => do
    -- a Collection constructor hands out a virtual register of its kind and width
    let (k, s) ← ctorKindSpec ctor
    let id ← id.toNat?
    some (verdict ((← kind.toNat?) == k && (← mask.toNat?) == s && (← size.toNat?) == byteCount (maskBytes s) &&
      idIsVirtual id && idKind id == k) "bad-constructor")
  | ["accept-fresh", k, i, j, idi, idj] => do
    some (verdict (decide (FreshOK (← k.toNat?) (← i.toNat?) (← j.toNat?) (← idi.toNat?) (← idj.toNat?))) "bad-collision")
  | ["accept-class", _tag, name, kind, _idx, _mask, size, _id, bits] => do
    let r : RegRow := ⟨untok name, ← kind.toNat?, 0, 0, ← size.toNat?, 0, 0⟩
    some (verdict (decide (ClassOK (groupOf oracle r) (parseBits bits))) "bad-classification")
  | ["accept-vclass", kind, mask, bits] => do
    let m ← mask.toNat?
    -- a virtual register is classified by its kind and the byte count of its mask; it is none of AL … X0
    some (verdict (parseBits bits == classBits false (← kind.toNat?) 0 m (byteCount (maskBytes m))) "bad-classification")
  | _ => none

def handlers : List (String × Handler) :=
  ["row", "pas", "vas", "coll", "collrun", "lookupid", "lookupphys", "id", "spec", "accept-reg", "accept-ident", "accept-as",
   "accept-lookup", "accept-lookup-virtual", "accept-vas", "accept-ctor", "accept-fresh", "accept-class", "accept-vclass"].map (·, handle)

end Avo.Drv.C20
