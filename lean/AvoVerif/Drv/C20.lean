import AvoVerif.Drv.Common
import AvoVerif.Model.RegHW
import AvoVerif.Model.RegCtx
import AvoVerif.Model.RegProc
import AvoVerif.Model.RegAllocn
import AvoVerif.Gen.Regs
import AvoVerif.Oracle.RegHW
/-
C20 driver: exact model answers for the register API (table rows,
conversions, lookups, ids, specs, collections, classification) and acceptors
that evaluate the declarative clauses of the property (`RegOK`, `IdentOK`,
`AsOK`, `VAsOK`, `VNewOK`, `VarOK`, `JunkLookupOK`, `AllocFailOK`, `FreshOK`,
`ClassOK` of Model/RegHW.lean, `CtxFreshOK` of Model/RegCtx.lean — the statements proved in Props/C20.lean and
Props/C20Ctx.lean) on the
implementation's outputs.  Every acceptor is `decide` of the declarative
statement itself (soundness is `of_decide_eq_true`); the `explain…` functions
only name the first failing clause and answer `ok` iff the statement holds.
-/
namespace Avo.Drv.C20
open Avo.Drv Avo.Reg

def regs : List RegRow := Avo.Gen.regs
def oracle : List (List HWRow) := Avo.Oracle.regHW

def tok (s : String) : String :=
  if s.isEmpty || s.toList.any (fun c => c == ' ' || c == '\t' || c == '\n' || c == ':') then "hex" ++ hexStr s else s

def untok (s : String) : String :=
  if s.startsWith "hex" then (unhexStr (s.drop 3).toString).getD s else s

def bitsStr (bs : List Bool) : String := String.ofList (bs.map fun b => if b then '1' else '0')
def parseBits (s : String) : List Bool := s.toList.map (· == '1')

def rowBits (r : RegRow) : List Bool := classBits true r.kind r.idx r.mask r.size
def virtBits (v : Virt) : List Bool := classBits false v.kind v.idx v.mask v.size

def showPhys (r : RegRow) : String := s!"{r.id}:{r.mask}:{r.size}:{tok r.name}"
def showVirt (v : Virt) : String := s!"{v.id}:{v.mask}:{v.size}:{v.kind}:{bitsStr (virtBits v)}"
def showLookup : Option RegRow → String
  | none => "nil"
  | some p => s!"{tok p.name}:{p.kind}:{p.idx}:{p.mask}:{p.size}:{p.id}"

/-- Apply a chain of conversion methods to a physical register: one response
token per step, stopping at the first failure (`panic`: the typed wrapper's
type assertion on nil). -/
def physChain (r : RegRow) : List String → List String
  | [] => []
  | m :: ms =>
    match methodSpec m with
    | none => ["nomethod"]
    | some s =>
      match physAs regs r s with
      | none => ["panic"]
      | some p => (showPhys p ++ ":" ++ bitsStr ((rowBits p).take 10)) :: physChain p ms

def virtChain (v : Virt) : List String → List String
  | [] => []
  | m :: ms =>
    match methodSpec m with
    | none => ["nomethod"]
    | some s => let w := v.as s; showVirt w :: virtChain w ms

/-- Allocated registers up to the numbering policy: per kind, the rank of each
id in order of first appearance, as `kind:rank:mask`. -/
def ranks (vs : List Virt) : List String :=
  let rec go (vs : List Virt) (seen : List (Nat × Nat)) (next : List (Nat × Nat)) : List String :=
    match vs with
    | [] => []
    | v :: rest =>
      match seen.lookup v.id with
      | some rk => s!"{v.kind}:{rk}:{v.mask}" :: go rest seen next
      | none =>
        let rk := (next.lookup v.kind).getD 0
        s!"{v.kind}:{rk}:{v.mask}" :: go rest ((v.id, rk) :: seen) ((v.kind, rk + 1) :: next)
  go vs [] []

def ctorReqs (ctors : List String) : Option (List (Nat × Nat)) := ctors.mapM ctorKindSpec

/-- outcome token(s) `panic` | `id mask size` -/
def parseRes : List String → Option (Option (Nat × Nat × Nat))
  | ["panic"] => some none
  | [a, b, c] => do some (some ((← a.toNat?), (← b.toNat?), (← c.toNat?)))
  | _ => none

/-- `ok` iff `b`; otherwise `why` (a literal different from `ok` at every use). -/
def verdict (b : Bool) (why : String) : String := if b then "ok" else why

/-- `ok` iff `b`; otherwise `bad-` followed by a diagnostic naming the first failing clause. -/
def explain (b : Bool) (why : String) : String := if b then "ok" else "bad-" ++ why

/-- outcome token(s) `panic` | `id mask size kind` -/
def parseRes4 : List String → Option (Option (Nat × Nat × Nat × Nat))
  | ["panic"] => some none
  | [a, b, c, d] => do some (some ((← a.toNat?), (← b.toNat?), (← c.toNat?), (← d.toNat?)))
  | _ => none

/-- Which clause of `RegOK` fails first (diagnostic only). -/
def whyReg (g : List HWRow) (r : RegRow) : String :=
  if !decide (physical r) then "pseudo"
  else if g.isEmpty then "no-measurement"
  else if !decide (∀ h ∈ g, Matches r h) then "measurement-of-other-name"
  else if !decide (∀ h ∈ g, h.ok = true) then "does-not-assemble"
  else if !decide (∀ h ∈ g, h.cls = r.kind) then "register-class"
  else if !decide (∀ h ∈ g, h.num = r.idx) then "hardware-register-number"
  else if !decide (∀ h ∈ g, h.width = r.size) then "operand-width"
  else if !decide (∀ h ∈ g, maskBytes r.mask = viewBytes h.width h.hi) then "mask-bytes"
  else if !decide (∀ h ∈ g, ExecAgrees r h.exec) then "executed-write"
  else if !decide (r.size = byteCount (maskBytes r.mask) ∧ specSize r.mask = r.size ∧ r.mask < 128) then "size"
  else "id"

/-- Acceptor for one physical register: `ok` iff `RegOK` (`explainReg_sound`). -/
def explainReg (g : List HWRow) (r : RegRow) : String := explain (decide (RegOK g r)) (whyReg g r)

/-- Which clause of `VNewOK` fails first (diagnostic only).  `manufactured-view`
is answered only when everything else about the register is as requested and
the one thing wrong is that no register of the kind has that width view in
hardware. -/
def whyVNew (kind spec : Nat) (idx : Option Nat) : Option (Nat × Nat × Nat × Nat) → String
  | none => "existing-view-refused"
  | some (id, m, sz, k) =>
    if !(idIsVirtual id && idKind id == kind && k == kind) then "virtual-id-or-kind"
    else if !(idx.all (fun i => idIndex id == i)) then "virtual-index"
    else if m != spec then "virtual-mask"
    else if !hwSpecExists kind spec then "manufactured-view"
    else if sz != byteCount (maskBytes spec) then "virtual-size"
    else "virtual-register"

/-- Acceptor for the virtual constructors: `ok` iff `VNewOK` (`explainVNew_sound`). -/
def explainVNew (kind spec : Nat) (idx : Option Nat) (o : Option (Nat × Nat × Nat × Nat)) : String :=
  explain (decide (VNewOK kind spec idx o)) (whyVNew kind spec idx o)

/-- Which clause of `VarOK` fails first (diagnostic only). -/
def whyVar (name : String) (i : Nat) (r : RegRow) : String :=
  if regs[i]? != some r then "variable-is-not-a-register-of-the-families"
  else if !decide (VarPseudoOK r (pseudoVars.lookup name)) then "pseudo-variable"
  else "variable-denotes-another-register"

/-- Acceptor for one exported variable: `ok` iff `VarOK` (`explainVar_sound`). -/
def explainVar (name : String) (i : Nat) (r : RegRow) : String :=
  explain (decide (VarOK regs oracle name i r)) (whyVar name i r)

/-! Acceptors: each is `verdict`/`explain` of `decide` of the declarative statement
(soundness theorems `accept…_sound` in Props/C20.lean). -/
def acceptIdent (g g' : List HWRow) (r r' : RegRow) : String :=
  verdict (decide (g ≠ [] ∧ g' ≠ [] ∧ IdentOK g g' r r')) "bad-identity"
def acceptAs (kind idx id s : Nat) (res : Option (Nat × Nat × Nat)) : String :=
  verdict (decide (AsOK kind idx id s res)) "bad-conversion"
def acceptLookup (kind idx id s : Nat) (res : Option (Nat × Nat × Nat)) : String :=
  verdict (decide (AsOK kind idx id s res)) "bad-lookup"
def acceptVlook (kind idx id s : Nat) (res : Option (Nat × Nat × Nat)) : String :=
  verdict (decide (AsOK kind idx id s res)) "bad-allocated-view"
def acceptVlookDefault (pkind pidx pid vid vmask : Nat) (rd : Nat × Nat) : String :=
  verdict (decide (DefaultViewOK pkind pidx pid vid vmask rd)) "bad-allocated-default-view"
def acceptLookupVirtual (id : Nat) (res : Option RegRow) : String :=
  verdict (decide (VirtualLookupOK id res)) "bad-virtual-id-resolves-to-physical"
def acceptVAs (id s : Nat) (res : Option (Nat × Nat × Nat)) : String :=
  verdict (decide (VAsOK (idKind id) id s res)) "bad-virtual-conversion"
def acceptJunk (id s : Nat) (res : Option RegRow) : String :=
  verdict (decide (JunkLookupOK id s res)) "bad-lookup-of-other-register"
def acceptAllocFail (n : Nat) : String := verdict (decide (AllocFailOK n)) "bad-allocation-refused"
def acceptCtor (ctor : String) (kind mask size id : Nat) : String :=
  verdict (decide (CtorOK ctor kind mask size id)) "bad-constructor"
def acceptFresh (k i j idi idj : Nat) : String := verdict (decide (FreshOK k i j idi idj)) "bad-collision"
def acceptClass (g : List HWRow) (bits : List Bool) : String := verdict (decide (ClassOK g bits)) "bad-classification"
def acceptVClass (kind mask : Nat) (bits : List Bool) : String :=
  verdict (decide (VClassOK kind mask bits)) "bad-classification"
def acceptAllocLookup (id mask : Nat) (entry : Option Nat) (res : Option (Nat × Nat × Nat)) (rd : Nat × Nat) : String :=
  verdict (decide (AllocLookupOK id mask entry res rd)) "bad-allocation-lookup"

/-- `k1 v1 k2 v2 …` -/
def parsePairs : List String → Option (List (Nat × Nat))
  | [] => some []
  | k :: v :: rest => do some ((← k.toNat?, ← v.toNat?) :: (← parsePairs rest))
  | _ => none

def acceptCtxFresh (k nreq : Nat) (ids : List Nat) : String :=
  verdict (decide (CtxFreshOK k nreq ids)) "bad-context-collision"

/-- One call of a Context history, `<route>:<name>[:<arg>…]` (route `m` = method of the Context, `g` = package-level
function of `build` on the global context — the model does not care).  A register constructor is a request; every
name the model does not know as one is `other`. -/
def parseCtxOp (t : String) : Option CtxOp :=
  match t.splitOn ":" with
  | _route :: name :: args =>
    match ctorKindSpec name, args with
    | some (k, s), [] => some (.alloc k s)
    | _, _ =>
      match name, args with
      | "VirtualRegister", [k, s] => do some (.alloc (← k.toNat?) (← s.toNat?))
      | "GP", [s] => do some (.alloc kindGP (← s.toNat?))
      | "Vec", [s] => do some (.alloc kindVector (← s.toNat?))
      | "Dereference", [_i, seen] => some (.deref (seen == "1"))
      | _, _ => some (.other name)
  | _ => none

/-- a lookup response `nil` | `name:kind:idx:mask:size:id` (the fields the statements use) -/
def parseLookup (res : String) : Option (Option RegRow) :=
  if res == "nil" then some none else
  match res.splitOn ":" with
  | [name, k, i, m, sz, pid] => do
    some (some ⟨untok name, ← k.toNat?, ← i.toNat?, ← m.toNat?, ← sz.toNat?, 0, ← pid.toNat?⟩)
  | _ => none

def handle : Handler
  | ["row", i] => do
    let r ← regs[(← i.toNat?)]?
    some s!"{tok r.name}:{r.kind}:{r.idx}:{r.mask}:{r.size}:{r.info}:{r.id}:{bitsStr (rowBits r)}"
  | "pas" :: i :: _n :: ms => do
    let r ← regs[(← i.toNat?)]?
    some (joinSp (showPhys r :: physChain r ms))
  | "vas" :: kind :: idx :: spec :: _n :: ms => do
    -- the start register as the implementation reports it (the numbering policy of Collection is not pinned)
    let v : Virt := ⟨← idx.toNat?, ← kind.toNat?, ← spec.toNat?⟩
    some (joinSp (showVirt v :: virtChain v ms))
  | "coll" :: _n :: ctors => do
    let reqs ← ctorReqs ctors
    some (joinSp (ranks (Coll.run [] reqs)))
  | "collrun" :: nc :: rest => do
    let nc ← nc.toNat?
    let reqs ← ctorReqs (rest.take nc)
    if reqs.isEmpty then none else
    match rest.drop nc with
    | [count] => do
      let count ← count.toNat?
      let hist := (List.range count).map fun i => reqs[i % reqs.length]!
      let ids := ((Coll.run [] hist).map Virt.id).toArray.qsort (· < ·)
      let distinct := (List.range ids.size).countP fun i => i == 0 || ids[i]! != ids[i - 1]!
      some s!"distinct={distinct}"
    | _ => none
  | ["lookupid", id, s] => do some (showLookup (lookupID regs (← id.toNat?) (← s.toNat?)))
  | ["lookupphys", k, i, s] => do
    -- reg.LookupPhysical: FamilyOfKind(k) is nil for an unknown kind
    let k ← k.toNat?
    if !Avo.Gen.familyKinds.contains k then some "nil" else
    some (showLookup (lookup regs k (← i.toNat?) (← s.toNat?)))
  | ["id", id] => do
    let id ← id.toNat?
    some s!"{idKind id} {idIndex id} {if idIsVirtual id then 1 else 0}"
  | ["spec", s] => do
    let s ← s.toNat?
    some s!"{specSize s} {s}"
  -- acceptors -------------------------------------------------------------
  | ["accept-reg", i, name, kind, idx, mask, size, id] => do
    let g := (oracle[(← i.toNat?)]?).getD []
    let r : RegRow := ⟨untok name, ← kind.toNat?, ← idx.toNat?, ← mask.toNat?, ← size.toNat?, 0, ← id.toNat?⟩
    some (explainReg g r)
  | ["accept-ident", i, j, idi, idj] => do
    let g := (oracle[(← i.toNat?)]?).getD []
    let g' := (oracle[(← j.toNat?)]?).getD []
    let r : RegRow := ⟨"", 0, 0, 0, 0, 0, ← idi.toNat?⟩
    let r' : RegRow := ⟨"", 0, 0, 0, 0, 0, ← idj.toNat?⟩
    some (acceptIdent g g' r r')
  | "accept-as" :: kind :: idx :: id :: m :: res => do
    let s ← methodSpec m
    let res ← parseRes res
    some (acceptAs (← kind.toNat?) (← idx.toNat?) (← id.toNat?) s res)
  | "accept-lookup" :: kind :: idx :: id :: s :: res => do
    let res ← parseRes res
    some (acceptLookup (← kind.toNat?) (← idx.toNat?) (← id.toNat?) (← s.toNat?) res)
  | ["accept-lookup-virtual", id, _s, res] => do
    -- `lookupID_virtual`: an id with the virtual flag never resolves to a physical register
    some (acceptLookupVirtual (← id.toNat?) (← parseLookup res))
  | "accept-vas" :: id :: m :: res => do
    let s ← methodSpec m
    let res ← parseRes res
    let id ← id.toNat?
    some (acceptVAs id s res)
  | ["vnew", kind, idx, spec] => do
    let v : Virt := ⟨← idx.toNat?, ← kind.toNat?, ← spec.toNat?⟩
    some (showVirt v)
  | "accept-vnew" :: _entry :: kind :: spec :: idx :: res => do
    let res ← parseRes4 res
    let idx ← if idx == "-" then some none else (idx.toNat?).map some
    some (explainVNew (← kind.toNat?) (← spec.toNat?) idx res)
  | ["vlook", vkind, vidx, vspec, pid] => do
    -- reg.Allocation{v.ID(): pid}: LookupRegister(v), LookupDefault(v.ID()), LookupRegisterDefault(v)
    let v : Virt := ⟨← vidx.toNat?, ← vkind.toNat?, ← vspec.toNat?⟩
    let pid ← pid.toNat?
    let res := lookupID regs pid v.spec
    let dflt := match res with
      | some p => s!"{p.id}:{p.mask}"
      | none => s!"{v.id}:{v.mask}"
    some s!"{showLookup res} {pid} {dflt}"
  | "accept-vlook" :: kind :: idx :: id :: s :: res => do
    let res ← parseRes res
    some (acceptVlook (← kind.toNat?) (← idx.toNat?) (← id.toNat?) (← s.toNat?) res)
  | ["accept-vlookdflt", pkind, pidx, pid, vid, vmask, rdid, rdmask] => do
    some (acceptVlookDefault (← pkind.toNat?) (← pidx.toNat?) (← pid.toNat?) (← vid.toNat?) (← vmask.toNat?)
      (← rdid.toNat?, ← rdmask.toNat?))
  | ["accept-vlookdflt", _, _, _, _, _, _] => some "bad-allocated-default-view"
  | ["accept-lookup-junk", id, s, res] => do
    some (acceptJunk (← id.toNat?) (← s.toNat?) (← parseLookup res))
  | ["accept-alloc-fail", _kind, n] => do
    some (acceptAllocFail (← n.toNat?))
  | ["accept-var", name, i, asm, kind, idx, mask, size, info, id] => do
    let r : RegRow := ⟨untok asm, ← kind.toNat?, ← idx.toNat?, ← mask.toNat?, ← size.toNat?, ← info.toNat?, ← id.toNat?⟩
    some (explainVar name ((i.toNat?).getD 100000) r)
  | ["accept-var", _name, _status] => some "bad-variable-is-not-a-physical-register"
  | ["accept-ctor", ctor, kind, mask, size, id] => do
    -- a Collection constructor hands out a virtual register of its kind and width
    some (acceptCtor ctor (← kind.toNat?) (← mask.toNat?) (← size.toNat?) (← id.toNat?))
  | ["accept-fresh", k, i, j, idi, idj] => do
    some (acceptFresh (← k.toNat?) (← i.toNat?) (← j.toNat?) (← idi.toNat?) (← idj.toNat?))
  | ["accept-class", _tag, name, kind, _idx, _mask, size, _id, bits] => do
    let r : RegRow := ⟨untok name, ← kind.toNat?, 0, 0, ← size.toNat?, 0, 0⟩
    some (acceptClass (groupOf oracle r) (parseBits bits))
  | ["accept-vclass", kind, mask, bits] => do
    let m ← mask.toNat?
    -- a virtual register is classified by its kind and the byte count of its mask; it is none of AL … X0.
    -- (A "register" of a kind and width no hardware register has is not a view of anything: its manufacture is
    -- judged by accept-vnew (F21), its classification only by the exact `vas` / `vnew` comparison.)
    let k ← kind.toNat?
    some (acceptVClass k m (parseBits bits))
  | "ctxh" :: _n :: toks => do
    -- a history of calls on one build.Context: the registers the caller gets to see, up to the numbering policy
    let ops ← toks.mapM parseCtxOp
    let seen := ((ctxRun {} ops).filter (·.seen)).map (·.reg)
    some (joinSp (s!"n={seen.length}" :: ranks seen))
  | "accept-ctxfresh" :: k :: nreq :: m :: rest => do
    -- the ids the implementation handed out for kind k along one Context history (the history follows, for replay)
    let m ← m.toNat?
    let ids ← (rest.take m).mapM String.toNat?
    if ids.length != m then none else
    some (acceptCtxFresh (← k.toNat?) (← nreq.toNat?) ids)
  | _ => none

/-- One operation of a process history, `<name>:<arg>…` (harness/c20proc.go). -/
def parseProcOp (t : String) : Option ProcOp :=
  match t.splitOn ":" with
  | ["compile", shape] => some (.compile shape)
  | ["main", shape] => some (.main shape)
  | ["allocator", k, v] => do some (.allocator (← k.toNat?) v)
  | ["mutate", k, how] => do some (.mutate (← k.toNat?) how)
  | ["collection", _] => some .collection
  | ["context", _] => some .context
  | ["query", _] => some .query
  | ["rand", seed, n] => do some (.rand (← seed.toNat?) (← n.toNat?))
  | ["ctxhist", seed, n, _] => do some (.ctxhist (← seed.toNat?) (← n.toNat?))
  | _ => none

/-- The register table after a process history (`proc_table_const`: the table). -/
def tableAfter (ops : List ProcOp) : List RegRow := (procRun { regs := regs } ops).regs

/-- `<n> op×n ; inner…` -/
def splitHist : List String → Option (List ProcOp × List String)
  | n :: rest => do
    let n ← n.toNat?
    let ops ← (rest.take n).mapM parseProcOp
    match rest.drop n with
    | ";" :: inner => some (ops, inner)
    | _ => none
  | [] => none

/-- Requests evaluated AFTER a history of public API use in the process: the model's answer is the answer of the
table after that history — which is the table (`proc_table_const`), so the inner request is answered as in a
clean process.  `tblh`: has the whole exhaustive table / API stream changed? -/
def handleAfter : Handler
  | "alook" :: id :: mask :: n :: pairs => do
    -- reg.Allocation{pairs}: LookupRegister(r), LookupDefault(r.ID()), LookupRegisterDefault(r) for r = (id, mask)
    let id ← id.toNat?
    let mask ← mask.toNat?
    let a ← parsePairs pairs
    if a.length != (← n.toNat?) then none else
    let rd := Allocn.lookupRegisterDefault regs a id mask
    -- … and operand.ApplyAllocation on the register and on a memory operand with it as base: LookupRegisterDefault again
    some s!"{showLookup (Allocn.lookupRegister regs a id mask)} {Allocn.lookupDefault a id} {rd.1}:{rd.2} {rd.1}:{rd.2} {rd.1}:{rd.2}"
  | "accept-alookup" :: id :: mask :: entry :: rdid :: rdmask :: res => do
    let entry ← if entry == "-" then some none else (entry.toNat?).map some
    some (acceptAllocLookup (← id.toNat?) (← mask.toNat?) entry (← parseRes res) (← rdid.toNat?, ← rdmask.toNat?))
  | "amerge" :: na :: rest => do
    -- a.Merge(b): `err`, or `ok` and the entries afterwards (a's keys in order, then b's new keys)
    let na ← na.toNat?
    let a ← parsePairs (rest.take (2 * na))
    match rest.drop (2 * na) with
    | nb :: bs => do
      let b ← parsePairs bs
      if b.length != (← nb.toNat?) then none else
      if !Allocn.mergeOK a b then some "err" else
      let extra := b.filter fun e => (a.lookup e.1).isNone
      some (joinSp ("ok" :: (a ++ extra).map fun e => s!"{e.1}:{e.2}"))
    | _ => none
  | "tblh" :: n :: toks => do
    let n ← n.toNat?
    if toks.length != n then none else
    let ops ← toks.mapM parseProcOp
    some (if tableAfter ops == regs then "same" else "changed")
  | "after" :: rest => do
    let (ops, inner) ← splitHist rest
    if inner == ["nrows"] then some (toString (tableAfter ops).length) else
    if tableAfter ops == regs then handle inner else none
  | "accept-after" :: rest => do
    let (ops, inner) ← splitHist rest
    if tableAfter ops == regs then handle inner else none
  | _ => none

def handlers : List (String × Handler) :=
  ["row", "pas", "vas", "coll", "collrun", "lookupid", "lookupphys", "id", "spec", "accept-reg", "accept-ident", "accept-as",
   "accept-lookup", "accept-lookup-virtual", "accept-vas", "accept-ctor", "accept-fresh", "accept-class", "accept-vclass",
   "vnew", "accept-vnew", "vlook", "accept-vlook", "accept-lookup-junk", "accept-alloc-fail", "accept-var",
   "accept-vlookdflt", "ctxh", "accept-ctxfresh"].map (·, handle) ++
  ["tblh", "after", "accept-after", "alook", "accept-alookup", "amerge"].map (·, handleAfter)

end Avo.Drv.C20
