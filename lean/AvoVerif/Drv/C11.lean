/-
C11 driver.
  print <cfg> <file>                      → hex of the model's rendering of the assembly file
  wf <cfg> <file>                         → 1 | 0: the token hypotheses of print_faithful hold
  accept-print <cfg> <file> <output-hex>  → ok | bad-…   (the implementation's text, read back with
                                            splitNL/lexLine/parseFile, says what the file says)
  accept-asm <tag> <cfg> <file> <output-hex> <n> fn* → ok | bad-…   (decoded object code: symbol flags and
                                            sizes, instruction order per symbol, branch targets against the
                                            label binding, no machine jump outside the listed branches)
     tag := what the generator built (plain | hazard=<class>/<label>/<opcode> | f10): not read by the acceptor
     fn := <sym-hex> <argsize> <locals> <nosplit> <dupok> <topframe> <wrapper> <wantframe> <wantargs>
           <n> (line addr target+1)* <n> (instrIdx label-hex)* <n> (label-hex instrIdx)*
           (target+1 = 0: not a jump; = 2^40: a jump without decodable relative target)
  accept-objdata <tag> <n> want* <m> have* → ok | bad-data-…   (data symbols of the object file against the constants the
                                            generator placed: every byte at its offset, zero gaps, size, kind, dupok, static)
     want := <name-hex> <static> <attrs> <size> <k> (off nbytes bytes-hex)*
     have := <name-hex> <kind> <static> <dupok> <size> <bytes-hex>
  accept-floatlit <kind> <value-hex>      → ok | bad-float-literal   (a float DATA value `$(…)` in decimal form must be ONE float
                                            token of the assembler's scanner followed by `)`: Model/AsmLit floatOperandOK)
  scan-number <text-hex>                  → <token length> <float 0|1>   (Model/AsmLit scanNumber vs Go's text/scanner)
  hist <n> op*                            → per print of the history `<wf 0|1>:<hex of the model's text>` (`nofile` for an
                                            empty slot; `-` when nothing is printed): Model/PrintHist `run` on the empty heap
  accept-hist <n> op* <m> out*            → ok | bad-hist print=<k> …   (out := x | <output-hex>: the implementation's text of
                                            every print, read back against the content the file has at that moment)
     op := N <slot> <file> | D <slot> | I <slot> <what> | P <slot> <cfg> | E <slot> edit
     edit := cons <0|1> <n> line-hex* | incl <n> hex* | secset <k> section | secins <k> section | secdel <k> | fn <k> fnedit
     fnedit := name hex | attrs n | frame int | args int | isa <n> hex* | stub hex | doc <n> hex* | prag <n> pragma*
             | iop <node> hex | isuf <node> <n> hex* | iops <node> <n> hex* | iflg <node> <term> <ubr>
             | nset <node> node | nins <node> node | ndel <node> | nodes <n> node*
-/
import AvoVerif.Drv.Print
import AvoVerif.Model.PrintHist
import AvoVerif.Model.AsmLit
import AvoVerif.Gen.TextFlags
import AvoVerif.Oracle.TextFlagH
namespace Avo.Drv.C11
open Avo.Drv Avo.Drv.Print Avo.Print Avo.Attr Avo.Print.Hist

def names : List (Nat × String) := Avo.Gen.attrname

def parseAttrText (t : Txt) : List Tok :=
  ((String.ofList t).splitOn "|").map (fun p => match p.toNat? with
    | some v => Tok.num v
    | none => Tok.name p)

/-- The `-args` part of `$frame-args` is printed only for a positive argument size. -/
def posArgs (a : Int) : Int := if a > 0 then a else 0

def clauseValue : Option Txt → Option (BitVec 16)
  | none => some 0#16
  | some t => evalToks Avo.Oracle.textflagH (parseAttrText t)

/-- The TEXT line's clause and sizes mean the function's attributes, frame and
argument size (attribute macros valued by the installed textflag.h). -/
def acceptRest (f : Function) (rest : Txt) : Option String :=
  match parseTextRest rest with
  | none => some "bad-text-line"
  | some (at?, frame, args) =>
    if clauseValue at? != some f.attrs then some "bad-attrs"
    else if frame != f.frame then some "bad-frame"
    else if args != posArgs f.args then some "bad-args"
    else none

def acceptSec (s : Sec) (g : SecSum) : Option String :=
  match s, g with
  | .fn f, .fn p =>
    if p.name != f.name then some "bad-name"
    else if p.instrs != (instrsOf f.nodes).map Instr.key then some "bad-instructions"
    else if p.labels != labelsFrom f.nodes 0 then some "bad-labels"
    else acceptRest f p.rest
  | .gl g, .gl p => if p != glSum names g then some "bad-global" else none
  | _, _ => some "bad-section-kind"

def firstBad : List (Option String) → Option String
  | [] => none
  | some e :: _ => some e
  | none :: r => firstBad r

/-- `none`: the text says what the file says; `some e`: the first disagreement. -/
def acceptPrintE (f : File) (out : Txt) : Option String :=
  let ls := splitNL out
  if ls.getLast? != some [] then some "bad-no-final-newline" else
  match parseFile (lexText out) with
  | none => some "bad-grammar"
  | some (incl, secs) =>
    if incl != (fileSum names f).1 then some "bad-includes"
    else if secs.length != f.sections.length then some "bad-section-count"
    else firstBad (List.zipWith acceptSec f.sections secs)

def verdict : Option String → String
  | none => "ok"
  | some e => e

def acceptPrint (f : File) (out : Txt) : String := verdict (acceptPrintE f out)

/-! ### object code -/

structure Ent where
  line : Nat
  addr : Nat
  target : Option Nat

structure AsmFn where
  sym : Txt
  args : Int
  locals : Int
  nosplit : Bool
  dupok : Bool
  topframe : Bool
  wrapper : Bool                -- funcid of the object symbol is FuncIDWrapper
  wantFrame : Int               -- what the generator asked for (−1: unknown)
  wantArgs : Int
  ents : List Ent
  branches : List (Nat × Txt)
  targets : List (Txt × Nat)

def entTok : P Ent := fun ts => do
  let (l, ts) ← natTok ts
  let (a, ts) ← natTok ts
  let (t, ts) ← natTok ts
  some (⟨l, a, if t == 0 then none else some (t - 1)⟩, ts)

def brTok : P (Nat × Txt) := fun ts => do
  let (i, ts) ← natTok ts
  let (l, ts) ← txtTok ts
  some ((i, l), ts)

def ltTok : P (Txt × Nat) := fun ts => do
  let (l, ts) ← txtTok ts
  let (i, ts) ← natTok ts
  some ((l, i), ts)

def asmFnTok : P AsmFn := fun ts => do
  let (sym, ts) ← txtTok ts
  let (args, ts) ← intTok ts
  let (locals, ts) ← intTok ts
  let (nosplit, ts) ← boolTok ts
  let (dupok, ts) ← boolTok ts
  let (topframe, ts) ← boolTok ts
  let (wrapper, ts) ← boolTok ts
  let (wf, ts) ← intTok ts
  let (wa, ts) ← intTok ts
  let (ents, ts) ← listOf entTok ts
  let (brs, ts) ← listOf brTok ts
  let (lts, ts) ← listOf ltTok ts
  some (⟨sym, args, locals, nosplit, dupok, topframe, wrapper, wf, wa, ents, brs, lts⟩, ts)

/-- Per function of the implementation's text: line number of the TEXT line and
of every instruction line (1-based). -/
def fnLineNumbers : List LLine → Nat → List (Nat × List Nat) → List (Nat × List Nat)
  | [], _, acc => acc.reverse
  | .text .. :: ls, n, acc => fnLineNumbers ls (n + 1) ((n, []) :: acc)
  | .instr .. :: ls, n, acc =>
    match acc with
    | (t, is) :: r => fnLineNumbers ls (n + 1) ((t, is ++ [n]) :: r)
    | [] => fnLineNumbers ls (n + 1) acc
  | _ :: ls, n, acc => fnLineNumbers ls (n + 1) acc

/-- Consecutive entries of one source line are one instruction. -/
def groupEnts : List Ent → List (Nat × Nat × List Ent)
  | [] => []
  | e :: es =>
    match groupEnts es with
    | (l, a, g) :: r =>
      if l == e.line then (l, e.addr, e :: g) :: r else (e.line, e.addr, [e]) :: (l, a, g) :: r
    | [] => [(e.line, e.addr, [e])]

def lookupTxt (k : Txt) : List (Txt × Nat) → Option Nat
  | [] => none
  | (a, b) :: r => if a == k then some b else lookupTxt k r

def sameBinding (a b : List (Txt × Nat)) : Bool :=
  a.length == b.length && a.all (fun p => lookupTxt p.1 b == some p.2)

def lookupNat (k : Nat) : List (Nat × Txt) → Option Txt
  | [] => none
  | (a, b) :: r => if a == k then some b else lookupNat k r

/-- The assembler threads jumps: a branch whose target is an unconditional
`JMP label` is encoded with that jump's own target (and a branch into a chain
that never leaves unconditional jumps with a jump to itself).  `followJmps`
lists the instruction indices a branch bound to instruction `j` may therefore
land on, and whether the chain is cyclic. -/
def followJmps (is : List Instr) (brs : List (Nat × Txt)) (binding : List (Txt × Nat)) : Nat → Nat → List Nat × Bool
  | 0, _ => ([], true)
  | fuel + 1, j =>
    match is[j]?, lookupNat j brs with
    | some i, some l =>
      if i.isUncondBranch then
        match lookupTxt l binding with
        | some k => let r := followJmps is brs binding fuel k; (j :: r.1, r.2)
        | none => ([j], false)
      else ([j], false)
    | _, _ => ([j], false)

/-- A decoded relative jump target (the harness writes 2^40 − 1 for a jump whose operand is not a relative
address, e.g. an indirect jump). -/
def relTarget (e : Ent) : Option Nat :=
  match e.target with
  | some t => if t < 2 ^ 39 then some t else none
  | none => none

/-- The object symbol's frame for a TEXT frame `fr`: none for frame 0 (or the saved frame pointer alone),
`fr` under NOFRAME, `fr + 8` (saved frame pointer) otherwise. -/
def localsOK (noframe : Bool) (fr locals : Int) : Bool :=
  if fr == 0 then locals == 0 || (!noframe && locals == 8)
  else if noframe then locals == fr else locals == fr + 8

/-- Attribute bits the object file shows: DUPOK (bit 1), TOPFRAME (bit 11) and WRAPPER/ABIWRAPPER (bits 5, 12)
exactly; NOSPLIT (bit 2) in one direction (the assembler marks small leaf functions nosplit by itself);
NOFRAME (bit 9) through the frame size. -/
def flagsOK (attrs : BitVec 16) (a : AsmFn) : Option String :=
  if attrs.getLsbD 2 && !a.nosplit then some "bad-object-nosplit" else
  if attrs.getLsbD 1 != a.dupok then some "bad-object-dupok" else
  if attrs.getLsbD 11 != a.topframe then some "bad-object-topframe" else
  if (attrs.getLsbD 5 || attrs.getLsbD 12) != a.wrapper then some "bad-object-wrapper" else none

/-- Without a positive argument size the TEXT line has no `-args` and the object says "unknown" (−1). -/
def argsOK (fargs oargs : Int) : Bool := if fargs > 0 then oargs == fargs else decide (oargs ≤ 0)

def branchOK (is : List Instr) (a : AsmFn) (groups : List (Nat × Nat × List Ent)) (binding : List (Txt × Nat))
    (i : Nat) (l : Txt) : Option String :=
  match groups[i]?, lookupTxt l binding with
  | some (_, self, g), some j =>
    match g.filterMap (·.target) with
    | [t] =>
      let ch := followJmps is a.branches binding (is.length + 1) j
      let addrs := ch.1.filterMap (fun k => groups[k]?.map (·.2.1))
      if addrs.contains t || (ch.2 && t == self) then none else some s!"bad-branch-target {i}"
    | _ => some s!"bad-branch-decode {i}"
  | _, _ => some s!"bad-branch-label {i}"

/-- Indices of the non-terminal instructions whose machine code contains a relative jump (the assembler attaches
its own epilogue code — frame teardown, the WRAPPER panic check with its jumps — to the source line of a RET). -/
def machineJumps (is : List Instr) (groups : List (Nat × Nat × List Ent)) : List Nat :=
  (List.range groups.length).filter (fun i =>
    match groups[i]?, is[i]? with
    | some (_, _, g), some ins => !ins.isTerminal && g.any (fun e => (relTarget e).isSome)
    | _, _ => false)

def acceptAsmFn (f : Function) (ln : Nat × List Nat) (a : AsmFn) : Option String :=
  if a.sym != f.name then some "bad-symbol" else
  -- the sizes the generator asked for (independent of the accessors the printer uses)
  if a.wantFrame ≥ 0 && f.frame != a.wantFrame then some "bad-frame-vs-request" else
  if a.wantArgs ≥ 0 && f.args != a.wantArgs then some "bad-args-vs-request" else
  -- without a positive argument size the TEXT line has no `-args` and the object says "unknown" (-1)
  if !argsOK f.args a.args then some "bad-object-argsize" else
  match flagsOK f.attrs a with
  | some e => some e
  | none =>
  if !localsOK (f.attrs.getLsbD 9) f.frame a.locals then some "bad-object-frame" else
  let groups := groupEnts (a.ents.filter (fun e => e.line != ln.1))
  if groups.map (·.1) != ln.2 then some "bad-instruction-sequence" else
  let binding := labelsFrom f.nodes 0
  if !sameBinding binding a.targets then some "bad-label-binding" else
  let is := instrsOf f.nodes
  match firstBad (a.branches.map (fun (i, l) => branchOK is a groups binding i l)) with
  | some e => some e
  | none =>
    -- every relative jump of the machine code belongs to an instruction the program lists as a branch to a label
    match (machineJumps is groups).find? (fun i => (lookupNat i a.branches).isNone) with
    | some i => some s!"bad-unlisted-branch {i}"
    | none => none

def acceptAsmE (f : File) (out : Txt) (fns : List AsmFn) : Option String :=
  let lns := fnLineNumbers (lexText out) 1 []
  let fs := f.functions
  if fs.length != fns.length || lns.length != fs.length then some "bad-symbol-count" else
  firstBad (List.zipWith (fun (p : Function × (Nat × List Nat)) a => acceptAsmFn p.1 p.2 a) (fs.zip lns) fns)

def acceptAsm (f : File) (out : Txt) (fns : List AsmFn) : String := verdict (acceptAsmE f out fns)

/-! ### data symbols of the object file -/

structure WantDatum where
  off : Nat
  n : Nat
  bytes : List Nat
  deriving Repr, DecidableEq

structure WantGl where
  name : Txt
  static : Bool
  attrs : BitVec 16
  size : Nat
  data : List WantDatum
  deriving Repr, DecidableEq

structure HaveSym where
  name : Txt
  kind : String
  static : Bool
  dupok : Bool
  size : Nat
  bytes : List Nat                -- as listed: trailing zero bytes may be left out

def bytesTok : P (List Nat)
  | [] => none
  | t :: ts => (unhex t).map (·, ts)

def wantDatumTok : P WantDatum := fun ts => do
  let (off, ts) ← natTok ts
  let (n, ts) ← natTok ts
  let (bs, ts) ← bytesTok ts
  some (⟨off, n, bs⟩, ts)

def wantGlTok : P WantGl := fun ts => do
  let (name, ts) ← txtTok ts
  let (st, ts) ← boolTok ts
  let (attrs, ts) ← attrTok ts
  let (size, ts) ← natTok ts
  let (data, ts) ← listOf wantDatumTok ts
  some (⟨name, st, attrs, size, data⟩, ts)

def haveSymTok : P HaveSym := fun ts => do
  let (name, ts) ← txtTok ts
  let (kind, ts) ← strTok ts
  let (st, ts) ← boolTok ts
  let (dupok, ts) ← boolTok ts
  let (size, ts) ← natTok ts
  let (bs, ts) ← bytesTok ts
  some (⟨name, kind, st, dupok, size, bs⟩, ts)

/-- The symbol's image: the listed bytes, zero up to its size. -/
def image (h : HaveSym) : List Nat := h.bytes ++ List.replicate (h.size - h.bytes.length) 0

def slice (bs : List Nat) (off n : Nat) : List Nat := (bs.drop off).take n

/-- What cmd/asm makes of the GLOBL flags (obj.Link.Globl): RODATA (bit 3) first, then NOPTR (bit 4), then TLSBSS
(bit 8); a symbol without DATA lines is a BSS symbol. -/
def expectKind (attrs : BitVec 16) (hasData : Bool) : String :=
  if attrs.getLsbD 3 then "RODATA"
  else if attrs.getLsbD 4 then (if hasData then "NOPTRDATA" else "NOPTRBSS")
  else if attrs.getLsbD 8 then "TLSBSS"
  else if hasData then "DATA" else "BSS"

def covered (data : List WantDatum) (i : Nat) : Bool := data.any (fun d => decide (d.off ≤ i) && decide (i < d.off + d.n))

def datumOK (img : List Nat) (d : WantDatum) : Bool := d.bytes.length == d.n && slice img d.off d.n == d.bytes

def gapsZero (w : WantGl) (img : List Nat) : Bool :=
  (List.range w.size).all (fun i => covered w.data i || img.getD i 0 == 0)

def acceptGl (w : WantGl) (h : HaveSym) : Option String :=
  if h.size != w.size then some "bad-data-size"
  else if h.bytes.length > h.size then some "bad-data-listing"
  else if !w.data.all (datumOK (image h)) then some "bad-data-bytes"
  else if !gapsZero w (image h) then some "bad-data-gap"
  else if h.kind != expectKind w.attrs (!w.data.isEmpty) then some "bad-data-kind"
  else if h.dupok != w.attrs.getLsbD 1 then some "bad-data-dupok"
  else if h.static != w.static then some "bad-data-static"
  else none

def judgeGl (hs : List HaveSym) (w : WantGl) : Option String :=
  match hs.find? (fun h => h.name == w.name) with
  | none => some "bad-data-symbol-missing"
  | some h => acceptGl w h

def acceptObjDataE (ws : List WantGl) (hs : List HaveSym) : Option String :=
  match firstBad (ws.map (judgeGl hs)) with
  | some e => some e
  | none => if hs.length != ws.length then some "bad-data-symbol-count" else none

def acceptObjData (ws : List WantGl) (hs : List HaveSym) : String := verdict (acceptObjDataE ws hs)

/-! ### histories (Model/PrintHist) -/

def fnEditTok : P FnEdit
  | "name" :: ts => do let (n, ts) ← txtTok ts; some (.name n, ts)
  | "attrs" :: ts => do let (a, ts) ← attrTok ts; some (.attrs a, ts)
  | "frame" :: ts => do let (v, ts) ← intTok ts; some (.frame v, ts)
  | "args" :: ts => do let (v, ts) ← intTok ts; some (.args v, ts)
  | "isa" :: ts => do let (l, ts) ← listOf txtTok ts; some (.isa l, ts)
  | "stub" :: ts => do let (s, ts) ← txtTok ts; some (.stub s, ts)
  | "doc" :: ts => do let (l, ts) ← listOf txtTok ts; some (.doc l, ts)
  | "prag" :: ts => do let (l, ts) ← listOf pragmaTok ts; some (.pragmas l, ts)
  | "iop" :: ts => do
    let (n, ts) ← natTok ts
    let (o, ts) ← txtTok ts
    some (.instr n (.opcode o), ts)
  | "isuf" :: ts => do
    let (n, ts) ← natTok ts
    let (l, ts) ← listOf txtTok ts
    some (.instr n (.suffixes l), ts)
  | "iops" :: ts => do
    let (n, ts) ← natTok ts
    let (l, ts) ← listOf txtTok ts
    some (.instr n (.operands l), ts)
  | "iflg" :: ts => do
    let (n, ts) ← natTok ts
    let (t, ts) ← boolTok ts
    let (u, ts) ← boolTok ts
    some (.instr n (.flags t u), ts)
  | "nset" :: ts => do
    let (n, ts) ← natTok ts
    let (x, ts) ← nodeTok ts
    some (.setNode n x, ts)
  | "nins" :: ts => do
    let (n, ts) ← natTok ts
    let (x, ts) ← nodeTok ts
    some (.insNode n x, ts)
  | "ndel" :: ts => do let (n, ts) ← natTok ts; some (.delNode n, ts)
  | "nodes" :: ts => do let (l, ts) ← listOf nodeTok ts; some (.nodes l, ts)
  | _ => none

def editTok : P Edit
  | "cons" :: ts => do
    let (h, ts) ← boolTok ts
    let (l, ts) ← listOf txtTok ts
    some (.constraints h l, ts)
  | "incl" :: ts => do let (l, ts) ← listOf txtTok ts; some (.includes l, ts)
  | "fn" :: ts => do
    let (k, ts) ← natTok ts
    let (e, ts) ← fnEditTok ts
    some (.fn k e, ts)
  | "secset" :: ts => do
    let (k, ts) ← natTok ts
    let (s, ts) ← secTok ts
    some (.setSec k s, ts)
  | "secins" :: ts => do
    let (k, ts) ← natTok ts
    let (s, ts) ← secTok ts
    some (.insSec k s, ts)
  | "secdel" :: ts => do let (k, ts) ← natTok ts; some (.delSec k, ts)
  | _ => none

def opTok : P Op
  | "N" :: ts => do
    let (i, ts) ← natTok ts
    let (f, ts) ← fileTok ts
    some (.new i f, ts)
  | "D" :: ts => do let (i, ts) ← natTok ts; some (.drop i, ts)
  | "E" :: ts => do
    let (i, ts) ← natTok ts
    let (e, ts) ← editTok ts
    some (.edit i e, ts)
  | "I" :: ts => do
    let (i, ts) ← natTok ts
    let (w, ts) ← natTok ts
    some (.inspect i w, ts)
  | "P" :: ts => do
    let (i, ts) ← natTok ts
    let (c, ts) ← cfgTok ts
    some (.print i c, ts)
  | _ => none

/-- The hypotheses of `print_faithful` (and a non-negative frame), evaluated: the prints the acceptor judges. -/
def wfCheck (cfg : Config) (f : File) : Bool :=
  decide (WFFile names cfg f) && f.functions.all (fun fn => decide (0 ≤ fn.frame))

/-- One print of the `hist` answer: the well-formedness bit of the file as it is then, and the model's text. -/
def histCell (t : Option Txt) (st : Option (Config × File)) : String :=
  match t, st with
  | some t, some (cfg, f) => (if wfCheck cfg f then "1:" else "0:") ++ hexTxt t
  | _, _ => "nofile"

def histAnswer (ops : List Op) : String :=
  match List.zipWith histCell (run names Heap.empty ops) (printStates Heap.empty ops) with
  | [] => "-"
  | cells => joinSp cells

def outTok : P (Option Txt)
  | "x" :: ts => some (none, ts)
  | ts => (txtTok ts).map (fun p => (some p.1, p.2))

/-- Every print of the history, judged on the implementation's own text of that print against the content the
file has at that moment (the state of Model/PrintHist after the operations before the print): `none`, or the
first print whose text does not say what the file says then.  A print of an empty slot and a print of a file
whose tokens do not satisfy the hypotheses of `print_faithful` are not judged (the exact `hist` line covers them). -/
def acceptHistE : Heap → List Op → List (Option Txt) → Nat → Option String
  | _, [], [], _ => none
  | _, [], _ :: _, k => some s!"bad-hist print={k} output-without-print"
  | h, .print i cfg :: ops, outs, k =>
    match outs with
    | [] => some s!"bad-hist print={k} missing-output"
    | o :: outs =>
      match h i with
      | none => acceptHistE h ops outs (k + 1)
      | some f =>
        if wfCheck cfg f then
          match o with
          | none => some s!"bad-hist print={k} no-text"
          | some t =>
            match acceptPrintE f t with
            | some e => some s!"bad-hist print={k} {e}"
            | none => acceptHistE h ops outs (k + 1)
        else acceptHistE h ops outs (k + 1)
  | h, .new i f :: ops, outs, k => acceptHistE (step h (.new i f)) ops outs k
  | h, .drop i :: ops, outs, k => acceptHistE (step h (.drop i)) ops outs k
  | h, .edit i e :: ops, outs, k => acceptHistE (step h (.edit i e)) ops outs k
  | h, .inspect i w :: ops, outs, k => acceptHistE (step h (.inspect i w)) ops outs k

def acceptHist (ops : List Op) (outs : List (Option Txt)) : String := verdict (acceptHistE Heap.empty ops outs 0)

def handle : Handler
  | "print" :: ts => do
    let (cfg, ts) ← cfgTok ts
    let (f, _) ← fileTok ts
    some (hexTxt (render (printFile names cfg f)))
  | "wf" :: ts => do
    -- the hypotheses of print_faithful (and a non-negative frame), evaluated
    let (cfg, ts) ← cfgTok ts
    let (f, _) ← fileTok ts
    some (if decide (WFFile names cfg f) && f.functions.all (fun fn => decide (0 ≤ fn.frame)) then "1" else "0")
  | "accept-print" :: ts => do
    let (_, ts) ← cfgTok ts
    let (f, ts) ← fileTok ts
    let (out, _) ← txtTok ts
    some (acceptPrint f out)
  | "accept-asm" :: _tag :: ts => do
    let (_, ts) ← cfgTok ts
    let (f, ts) ← fileTok ts
    let (out, ts) ← txtTok ts
    let (fns, _) ← listOf asmFnTok ts
    some (acceptAsm f out fns)
  | "accept-objdata" :: _tag :: ts => do
    let (ws, ts) ← listOf wantGlTok ts
    let (hs, _) ← listOf haveSymTok ts
    some (acceptObjData ws hs)
  | "accept-floatlit" :: _kind :: ts => do
    let (t, _) ← txtTok ts
    match t with
    | '$' :: '(' :: body =>
      some (if !Avo.AsmLit.modelled (Avo.AsmLit.stripSigns body) || Avo.AsmLit.floatOperandOK t then "ok" else "bad-float-literal")
    | _ => some "bad-float-literal"
  | "scan-number" :: ts => do
    let (t, _) ← txtTok ts
    let r := Avo.AsmLit.scanNumber t
    some (toString r.1.length ++ " " ++ (if r.2.2 then "1" else "0"))
  | "hist" :: ts => do
    let (ops, _) ← listOf opTok ts
    some (histAnswer ops)
  | "accept-hist" :: ts => do
    let (ops, ts) ← listOf opTok ts
    let (outs, _) ← listOf outTok ts
    some (acceptHist ops outs)
  -- verdicts measured by the harness with the Go toolchain / binutils
  | "accept-assembles" :: r :: _ => some (if r == "ok" then "ok" else "bad-assembler-rejects " ++ r)
  | "accept-decode" :: r :: _ => some (if r == "ok" then "ok" else "bad-decode " ++ r)
  | _ => none

def handlers : List (String × Handler) :=
  ["print", "wf", "accept-print", "accept-asm", "accept-assembles", "accept-decode", "hist", "accept-hist", "accept-objdata", "accept-floatlit", "scan-number"].map (·, handle)

end Avo.Drv.C11
